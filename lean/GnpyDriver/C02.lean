import GnpyDriver.JsonUtil
import GnpyDriver.C01
import GnpyModel
/- driver handlers for property C02 (ops are named "c02.<name>") -/
open Lean
namespace Gnpy.Drv.C02
open Gnpy.Spectrum Gnpy.Drv.C01

/-- an element as one channel sees it: `{"k": kind, "v": [floats], "voa": null|float}` -/
def getElem (j : Json) : R (Elem Float) := do
  let k ← fStr j "k"
  let v ← fList getF j "v"
  match k, v with
  | "fused", [l] => return .fused l
  | "roadm", [m, d] => return .roadm m d
  | "fiber", [i, x, f, o] => return .fiber i x f o
  | "raman", [i, x, e, f, o] => return .raman i x e f o
  | "edfa", [e, g] => return .edfa (← fOpt getF j "voa") e g
  | "trx", [] => return .trx
  | _, _ => throw s!"bad element {k}"

def opKind : Op Float → String
  | .attLin _ => "attLin" | .attDb _ => "attDb" | .gainLin _ => "gainLin" | .gainDb _ => "gainDb"
  | .addAse _ => "addAse" | .addNli _ => "addNli"

/-- the three figures the property talks about, in the total (noise-to-signal) form and as SNRs -/
def jFig (c : Chan Float) : Json :=
  Json.arr #[jF c.p, jF c.s, jF c.a, jF c.n, jF c.snrLin, jF c.snrNli, jF c.gsnr]

/-- one element call on a spectrum: channel i sees elems[i] -/
def elemH (j : Json) : R Json := do
  let chans ← fList getChan j "chans"
  let es ← fList getElem j "elems"
  if chans.length ≠ es.length then throw "chans/elems length mismatch"
  return jObj [("out", jList jFig (applyElems es chans)),
               ("kinds", jList (fun e => jList (fun o => jStr (opKind o)) (Elem.ops e)) es)]

/-- a whole path for every channel: `elems[i]` is the element list channel i sees; returns the state after
every element -/
def pathH (j : Json) : R Json := do
  let chans ← fList getChan j "chans"
  let ess ← fList (getList getElem) j "paths"
  if chans.length ≠ ess.length then throw "chans/paths length mismatch"
  let trace (c : Chan Float) (es : List (Elem Float)) : List (Chan Float) :=
    (es.foldl (fun (acc : Chan Float × List (Chan Float)) e =>
      let c' := e.apply acc.1
      (c', c' :: acc.2)) (c, [])).2.reverse
  return Json.arr (List.zipWith (fun c es => jObj [("trace", jList jFig (trace c es)), ("end", jFig (path es c))]) chans ess).toArray

/-- `Multiband_amplifier.__call__` bookkeeping: `amps` = list of `{"fmin","fmax","elems":[[freq, elem],..]}`;
`sp` = keyed channels, `slot` = `[[freq, slot_width]]` (integer Hz) -/
def multibandH (j : Json) : R Json := do
  let sp ← fList getKChan j "sp"
  let slots ← fList (fun x => do
      match ← getArr x with
      | [f, s] => return ((← getInt f), (← getInt s))
      | _ => throw "slot pair expected") j "slot"
  let amps ← fList (fun a => do
      let lo ← fInt a "fmin"
      let hi ← fInt a "fmax"
      let els ← fList (fun x => do
          match ← getArr x with
          | [f, e] => return ((← getInt f), (← getElem e))
          | _ => throw "freq/elem pair expected") a "elems"
      let keep : Int → Bool := fun f =>
        match slots.lookup f with
        | some sw => decide (2 * f - sw ≥ 2 * lo) && decide (2 * f + sw ≤ 2 * hi)
        | none => false
      let el : Int → Elem Float := fun f => (els.lookup f).getD .trx
      return (keep, el)) j "amps"
  return jOpt (jList jKChan) (multiband amps sp)

def handlers : List (String × Handler) :=
  [("c02.elem", elemH), ("c02.path", pathH), ("c02.multiband", multibandH)]

end Gnpy.Drv.C02
