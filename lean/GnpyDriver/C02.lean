import GnpyDriver.JsonUtil
import GnpyModel
/- driver handlers for property C02 (ops are named "c02.<name>") -/
open Lean
namespace Gnpy.Drv.C02

def handlers : List (String × Handler) := []

end Gnpy.Drv.C02
