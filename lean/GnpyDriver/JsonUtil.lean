import Lean.Data.Json
/-
JSON helpers for the line protocol (DESIGN.md §2.1).  Floats cross the pipe as IEEE-754 bit
patterns (unsigned 64-bit integers) so both sides start from bit-identical values.
-/
open Lean

namespace Gnpy.Drv

abbrev R := Except String

def fld (j : Json) (k : String) : R Json := j.getObjVal? k

def optFld (j : Json) (k : String) : Option Json :=
  match j.getObjVal? k with
  | .ok .null => none
  | .ok v => some v
  | .error _ => none

def getInt (j : Json) : R Int := j.getInt?
def getNat (j : Json) : R Nat := j.getNat?
def getStr (j : Json) : R String := j.getStr?
def getBool (j : Json) : R Bool := j.getBool?
def getArr (j : Json) : R (List Json) := do return (← j.getArr?).toList

/-- a float sent as its bit pattern -/
def getF (j : Json) : R Float := do
  let n ← j.getNat?
  return Float.ofBits (UInt64.ofNat n)

def getOpt (f : Json → R α) (j : Json) : R (Option α) :=
  match j with
  | .null => pure none
  | v => do return some (← f v)

def getList (f : Json → R α) (j : Json) : R (List α) := do
  (← getArr j).mapM f

def fInt (j : Json) (k : String) : R Int := do getInt (← fld j k)
def fNat (j : Json) (k : String) : R Nat := do getNat (← fld j k)
def fStr (j : Json) (k : String) : R String := do getStr (← fld j k)
def fBool (j : Json) (k : String) : R Bool := do getBool (← fld j k)
def fF (j : Json) (k : String) : R Float := do getF (← fld j k)
def fList (f : Json → R α) (j : Json) (k : String) : R (List α) := do getList f (← fld j k)
def fOpt (f : Json → R α) (j : Json) (k : String) : R (Option α) :=
  match j.getObjVal? k with
  | .ok v => getOpt f v
  | .error _ => pure none

def jF (x : Float) : Json := toJson x.toBits.toNat
def jInt (x : Int) : Json := toJson x
def jNat (x : Nat) : Json := toJson x
def jStr (x : String) : Json := Json.str x
def jBool (x : Bool) : Json := Json.bool x
def jList (f : α → Json) (l : List α) : Json := Json.arr (l.map f).toArray
def jOpt (f : α → Json) : Option α → Json
  | none => Json.null
  | some x => f x
def jObj (l : List (String × Json)) : Json := Json.mkObj l

abbrev Handler := Json → R Json

end Gnpy.Drv
