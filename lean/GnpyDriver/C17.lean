import GnpyDriver.JsonUtil
import GnpyDriver.C08
import GnpyDriver.C09
import GnpyModel
/- driver handlers for property C17 (ops are named "c17.<name>") -/
open Lean
namespace Gnpy.Drv.C17
open Gnpy.Chain Gnpy.Drv.C08

def getAmpOut (j : Json) : R (AmpOut Float) := do
  return { gain := ← fF j "gain", deltaP := ← fOpt getF j "delta_p", dpInt := ← fF j "dp_int", outVoa := ← fF j "out_voa",
           inVoa := ← fF j "in_voa", targetPch := ← fOpt getF j "target_pch", retDp := ← fF j "ret_dp",
           retVoa := ← fF j "ret_voa", reduction := ← fF j "reduction", dp0 := ← fF j "dp0", gain0 := ← fF j "gain0",
           powerTarget := ← fF j "power_target" }

/-- export + reload of a designed line: the input of the next design round -/
def exportH (j : Json) : R Json := do
  let line ← fList getElem j "line"
  let outs ← fList getAmpOut j "outs"
  let vs ← fList getStr j "varieties"
  return jList jElem (exportLine line outs vs)

def getRaman (j : Json) : R RamanParams := do
  return { flag := ← fBool j "flag", method := ← fStr j "method", order := ← fInt j "order",
           resultRes := ← fNat j "result_spatial_resolution", solverRes := ← fNat j "solver_spatial_resolution" }

def getNLI (j : Json) : R NLIParams := do
  return { method := ← fStr j "method", dispTol := ← fNat j "dispersion_tolerance",
           phaseTol := ← fNat j "phase_shift_tolerance", channels := ← fOpt (getList getInt) j "computed_channels",
           nChannels := ← fOpt getInt j "computed_number_of_channels" }

def jRaman (r : RamanParams) : Json :=
  jObj [("flag", jBool r.flag), ("method", jStr r.method), ("order", jInt r.order),
        ("result_spatial_resolution", jNat r.resultRes), ("solver_spatial_resolution", jNat r.solverRes)]

def jNLI (n : NLIParams) : Json :=
  jObj [("method", jStr n.method), ("dispersion_tolerance", jNat n.dispTol), ("phase_shift_tolerance", jNat n.phaseTol),
        ("computed_channels", jOpt (jList jInt) n.channels), ("computed_number_of_channels", jOpt jInt n.nChannels)]

def jState (s : SimState) : Json := jObj [("nli_params", jNLI s.nli), ("raman_params", jRaman s.raman)]

/-- ASCII lower-casing (the generators only use ASCII method names) -/
def lower (s : String) : String := s.map Char.toLower

/-- `SimParams.set_params(prior)` followed by `n` Raman gain estimations: the state seen by the solver and the state
left behind -/
def simparams (j : Json) : R Json := do
  let dflt : SimState := { nli := ← getNLI (← fld j "default_nli"), raman := ← getRaman (← fld j "default_raman") }
  let n ← fOpt getNLI j "prior_nli"
  let r ← fOpt getRaman j "prior_raman"
  let ramanOn ← getRaman (← fld j "raman_on")
  let s0 := setParams lower dflt n r
  let k ← fNat j "estimations"
  let during := (estimateRamanGainParams lower dflt ramanOn s0).1
  return jObj [("before", jState s0), ("during", jState during), ("after", jState (estimateMany lower dflt ramanOn k s0))]

/-- does `network_from_json` accept the document (all connection ends are elements)? -/
def reload (j : Json) : R Json := do
  let uids ← fList getStr j "uids"
  let cxs ← fList (fun c => do
    match ← getArr c with
    | [a, b] => return ((← getStr a), (← getStr b))
    | _ => throw "connection pair expected") j "connections"
  return if reloadAccepts uids cxs then jObj [("ok", jBool true)] else jObj [("error", jStr "NetworkTopologyError")]

def handlers : List (String × Handler) :=
  [("c17.export", exportH), ("c17.simparams", simparams), ("c17.reload", reload)]

end Gnpy.Drv.C17
