import GnpyDriver.JsonUtil
import GnpyModel
/- driver handlers for property C17 (ops are named "c17.<name>") -/
open Lean
namespace Gnpy.Drv.C17

def handlers : List (String × Handler) := []

end Gnpy.Drv.C17
