import GnpyDriver.JsonUtil
import GnpyModel
/- driver handlers for property C10 (ops are named "c10.<name>") -/
open Lean
namespace Gnpy.Drv.C10

def handlers : List (String × Handler) := []

end Gnpy.Drv.C10
