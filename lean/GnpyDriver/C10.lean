import GnpyDriver.JsonUtil
import GnpyDriver.C04
import GnpyModel
/- driver handlers for property C10 (ops are named "c10.<name>") -/
open Lean
namespace Gnpy.Drv.C10
open Gnpy.Select Gnpy.Edfa

def dummyNf : AmpNf Float := .single { model := .fixedGain 0.0, gainMin := 0.0, gainFlatmax := 0.0 }

def getSpec (j : Json) : R (AmpSpec Float) := do
  let mb ← fOpt (getList getStr) j "multi_band"
  match mb with
  | some ms =>
    return { name := ← fStr j "name", multiBand := some ms, raman := false,
             allowedForDesign := ← fBool j "allowed", fMin := 0, fMax := 0, gainFlatmax := 0.0, gainMin := 0.0,
             pMax := 0.0, nf := dummyNf }
  | none =>
    return { name := ← fStr j "name", multiBand := none, raman := ← fBool j "raman",
             allowedForDesign := ← fBool j "allowed", fMin := ← fNat j "fmin", fMax := ← fNat j "fmax",
             gainFlatmax := ← fF j "gain_flatmax", gainMin := ← fF j "gain_min", pMax := ← fF j "p_max",
             nf := ← C04.getAmpNf (← fld j "nf") }

def getBand (j : Json) : R Band := do
  match ← getArr j with
  | [a, b] => return { fMin := ← getNat a, fMax := ← getNat b }
  | _ => throw "band = [fmin, fmax]"

def getCtx (j : Json) : R NodeCtx := do
  return { typeVariety := ← fStr j "type_variety", varietyList := ← fOpt (getList getStr) j "variety_list",
           prevRoadmBooster := ← fOpt (getList getStr) j "prev_booster",
           nextRoadmPreamp := ← fOpt (getList getStr) j "next_preamp" }

def restrictionsH (j : Json) : R Json := do
  let lib ← fList getSpec j "lib"
  let c ← getCtx (← fld j "ctx")
  let bands ← fList getBand j "bands"
  if ← fBool j "multi" then
    return jList jStr (nodeRestrictionsMulti lib c bands)
  else
    match bands with
    | b :: _ => return jList jStr (nodeRestrictions lib c b)
    | [] => throw "no band"

def ramanH (j : Json) : R Json := do
  return jBool (ramanAllowed (← fBool j "prev_is_fiber") (← fList getF j "loss_coef") (← fF j "limit"))

def jCand (c : Cand Float) : Json :=
  jObj [("variety", jStr c.variety), ("power", jF c.power), ("gain_min", jF c.gainMin), ("nf", C04.jNf c.nf)]

/-- smallest non-zero NF distance between the chosen candidate and any other acceptable one -/
def nfGap (l : List (Cand Float)) (best : Option Float) : Float :=
  l.foldl (fun g x =>
    match x.nf, best with
    | some a, some b => let d := Float.abs (a - b); if d > 0.0 && d < g then d else g
    | _, _ => g) 1.0

def selectH (j : Json) : R Json := do
  let lib ← fList getSpec j "lib"
  let restr ← fList getStr j "restrictions"
  let lib' := selectionLibrary lib restr
  let gain ← fF j "gain"
  let power ← fF j "power"
  let ext ← fF j "ext"
  let ok ← fBool j "raman_allowed"
  let acc := acceptable (edfaList lib' gain power ext) (ramanList lib' ok gain power ext)
  match acc, selectEdfa lib' ok gain power ext with
  | some l, some c =>
    return jObj [("variety", jStr c.variety), ("reduction", jF c.powerReduction), ("nf", C04.jNf c.nf),
                 ("acceptable", jList jCand l), ("nf_gap", jF (nfGap l c.nf))]
  | _, _ => return jObj [("error", jStr "ConfigurationError")]

def getBT (j : Json) : R (BandTarget Float) := do
  return { band := ← getBand (← fld j "band"), gain := ← fF j "gain", power := ← fF j "power" }

def preselectH (j : Json) : R Json := do
  let lib ← fList getSpec j "lib"
  let restr ← fList getStr j "restrictions"
  let bts ← fList getBT j "targets"
  match preselect lib (← fF j "ext") restr bts with
  | none => return jObj [("error", jStr "ConfigurationError")]
  | some l => return jObj [("ok", jList jStr l)]

/-- auto-design of one Multiband_amplifier node: permitted entries, preselected members, per-band picks with the
acceptable candidates of each band (for the NF-tie guard), candidate node types -/
def multiDesignH (j : Json) : R Json := do
  let lib ← fList getSpec j "lib"
  let c ← getCtx (← fld j "ctx")
  let bts ← fList getBT j "targets"
  let ext ← fF j "ext"
  let ok ← fBool j "raman_allowed"
  let rm := nodeRestrictionsMulti lib c (bts.map (fun bt => bt.band))
  match preselect lib ext rm bts with
  | none => return jObj [("error", jStr "ConfigurationError"), ("permitted", jList jStr rm)]
  | some redfa =>
    let bands := bts.map (fun bt =>
      let lib' := selectionLibrary lib (bandRestrictions lib redfa bt.band)
      let acc := acceptable (edfaList lib' bt.gain bt.power ext) (ramanList lib' ok bt.gain bt.power ext)
      jObj [("restrictions", jList jStr (bandRestrictions lib redfa bt.band)),
            ("pick", jOpt jStr (bandPick lib ext ok redfa bt)),
            ("acceptable", jList jCand (acc.getD []))])
    let base := [("permitted", jList jStr rm), ("preselected", jList jStr redfa), ("bands", Json.arr bands.toArray)]
    match multibandDesign lib ext c ok bts with
    | none => return jObj (base ++ [("error", jStr "ConfigurationError")])
    | some d => return jObj (base ++ [("picks", jList jStr d.picks), ("candidates", jList jStr d.candidates)])

def getTypedAmp (j : Json) : R (BandTarget Float × String) := do
  return (← getBT j, ← fStr j "own")

/-- a user-typed Multiband_amplifier: load check and design -/
def typedDesignH (j : Json) : R Json := do
  let lib ← fList getSpec j "lib"
  let tv ← fStr j "type_variety"
  let listed ← fList getStr j "listed"
  if !typedLoadOk lib tv listed then return jObj [("load_error", jStr "ConfigurationError")]
  let amps ← fList getTypedAmp j "amps"
  let ext ← fF j "ext"
  let ok ← fBool j "raman_allowed"
  let members := ((lookup lib tv).bind (fun e => e.multiBand)).getD []
  let bands := amps.map (fun a =>
    let lib' := selectionLibrary lib (bandRestrictions lib members a.1.band)
    let acc := acceptable (edfaList lib' a.1.gain a.1.power ext) (ramanList lib' ok a.1.gain a.1.power ext)
    jObj [("pick", jOpt jStr (typedPick lib ext ok members a)), ("own", jStr a.2),
          ("acceptable", jList jCand (acc.getD []))])
  let base := [("bands", Json.arr bands.toArray)]
  match typedDesign lib ext tv ok amps with
  | none => return jObj (base ++ [("error", jStr "ConfigurationError")])
  | some d => return jObj (base ++ [("picks", jList jStr d.picks), ("candidates", jList jStr d.candidates)])

def handlers : List (String × Handler) :=
  [("c10.restrictions", restrictionsH), ("c10.raman", ramanH), ("c10.select", selectH), ("c10.preselect", preselectH),
   ("c10.multidesign", multiDesignH), ("c10.typeddesign", typedDesignH)]

end Gnpy.Drv.C10
