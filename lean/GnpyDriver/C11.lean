import GnpyDriver.JsonUtil
import GnpyModel
/- driver handlers for property C11 (ops are named "c11.<name>") -/
open Lean
namespace Gnpy.Drv.C11

def handlers : List (String × Handler) := []

end Gnpy.Drv.C11
