import GnpyDriver.JsonUtil
import GnpyModel
/- driver handlers for property C11 (ops are named "c11.<name>") -/
open Lean
namespace Gnpy.Drv.C11
open Gnpy.Route

/-- edges arrive as `[u, v, metres, pseudo]` in networkx order; the graph functions are table look-ups -/
def getEdge (j : Json) : R (Nat × Nat × Nat × Nat) := do
  match ← getArr j with
  | [u, v, l, p] => return (← getNat u, ← getNat v, ← getNat l, ← getNat p)
  | _ => throw "edge [u,v,len,pseudo] expected"

def mkGraph (n : Nat) (edges : List (Nat × Nat × Nat × Nat)) : Graph :=
  let empty : Array (List (Nat × Nat × Nat)) := Array.replicate n []
  let adj := edges.foldl (fun (a : Array (List (Nat × Nat × Nat))) e =>
    if e.1 < a.size then a.modify e.1 (fun l => l ++ [(e.2.1, e.2.2.1, e.2.2.2)]) else a) empty
  let look := fun (u v : Nat) => ((adj.getD u []).find? (fun x => x.1 == v))
  { n := n
    succ := fun u => (adj.getD u []).map (·.1)
    len := fun u v => match look u v with | some x => x.2.1 | none => 0
    pseudo := fun u v => match look u v with | some x => x.2.2 | none => 0 }

def getGraph (j : Json) : R Graph := do
  let n ← fNat j "n"
  let edges ← fList getEdge j "edges"
  for e in edges do
    if e.1 ≥ n || e.2.1 ≥ n then throw "edge endpoint out of range"
  return mkGraph n edges

structure OmsData where
  omsOf : Nat → Option Nat
  els : Nat → List Nat
  rev : Nat → Option Nat

def getOms (j : Json) : R OmsData := do
  let omsOf ← fList (getOpt getNat) j "oms_of"
  let els ← fList (getList getNat) j "els"
  let rev ← match optFld j "rev" with
    | some r => getList (getOpt getNat) r
    | none => pure []
  let a := omsOf.toArray
  let e := els.toArray
  let r := rev.toArray
  return { omsOf := fun v => (a.getD v none), els := fun o => e.getD o [], rev := fun o => r.getD o none }

def decisionJson (g : Graph) (d : Decision) : Json :=
  match d with
  | .explicit p => jObj [("kind", jStr "explicit"), ("path", jList jNat p), ("len", jNat (pathLen g p)),
                         ("w", jNat (pathWeight g p))]
  | .constrained p => jObj [("kind", jStr "constrained"), ("path", jList jNat p), ("len", jNat (pathLen g p)),
                            ("w", jNat (pathWeight g p))]
  | .unconstrained p => jObj [("kind", jStr "unconstrained"), ("path", jList jNat p), ("len", jNat (pathLen g p)),
                              ("w", jNat (pathWeight g p))]
  | .noPath => jObj [("kind", jStr "NO_PATH")]
  | .noPathWithConstraint => jObj [("kind", jStr "NO_PATH_WITH_CONSTRAINT")]

/-- one request: the oracle's decision and the checker's verdict on the implementation's path -/
def route (j : Json) : R Json := do
  let g ← getGraph j
  let s ← fNat j "s"
  let t ← fNat j "t"
  let inc ← fList getNat j "inc"
  let strict ← fBool j "strict"
  let oms ← getOms j
  let sR ← fOpt getNat j "sR"
  let dR ← fOpt getNat j "dR"
  let path ← fList getNat j "path"
  let ex := explicitPath g oms.omsOf oms.els sR dR inc s t
  let d := decideRoute g s t inc strict ex
  let b0 := bestRoute g s t []
  let b1 := bestRoute g s t inc
  return jObj [
    ("npaths", jNat (simplePaths g s t).length),
    ("nvalid", jNat (validPaths g s t inc).length),
    ("explicit", jOpt (jList jNat) ex),
    ("decision", decisionJson g d),
    ("best0_len", jOpt jNat (b0.map (pathLen g))),
    ("best0_w", jOpt jNat (b0.map (pathWeight g))),
    ("best_len", jOpt jNat (b1.map (pathLen g))),
    ("best_w", jOpt jNat (b1.map (pathWeight g))),
    ("check_inc", jBool (checkRoute g s t inc path)),
    ("check_plain", jBool (checkRoute g s t [] path)),
    ("path_len", jNat (pathLen g path)),
    ("path_w", jNat (pathWeight g path))]

def getPair (j : Json) : R (Nat × Bool) := do
  match ← getArr j with
  | [a, b] => return (← getNat a, ← getBool b)
  | _ => throw "[node, strict] expected"

/-- `correct_json_route_list` for one request; names not in the topology are numbered ≥ n -/
def clean (j : Json) : R Json := do
  let n ← fNat j "n"
  let trx ← fList getNat j "trx"
  let s ← fNat j "s"
  let t ← fNat j "t"
  let route ← fList getPair j "route"
  match correctRouteList (fun v => decide (v < n)) (fun v => trx.contains v) s t route with
  | .ok r => return jObj [("route", jList (fun (p : Nat × Bool) => Json.arr #[jNat p.1, jBool p.2]) r)]
  | .error .sourceNotTrx => return jObj [("error", jStr "source")]
  | .error .destNotTrx => return jObj [("error", jStr "destination")]
  | .error .strictUnknown => return jObj [("error", jStr "strict-unknown")]

def ispartH (j : Json) : R Json := do
  return jBool (ispart (← fList getNat j "a") (← fList getNat j "b"))

/-- `find_reversed_path` -/
def reverse (j : Json) : R Json := do
  let oms ← getOms j
  let ends ← fList getNat j "ends"
  let path ← fList getNat j "path"
  return jOpt (jList jNat) (reversedPath oms.omsOf oms.els oms.rev (fun v => ends.contains v) path)

def handlers : List (String × Handler) :=
  [("c11.route", route), ("c11.clean", clean), ("c11.ispart", ispartH), ("c11.reverse", reverse)]

end Gnpy.Drv.C11
