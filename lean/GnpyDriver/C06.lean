import GnpyDriver.JsonUtil
import GnpyModel
/- driver handlers for property C06 (ops are named "c06.<name>") -/
open Lean
namespace Gnpy.Drv.C06
open Gnpy.Roadm

def getNode (j : Json) : R (NodeTargets Float) := do
  return { pch := ← fOpt getF j "pch", psd := ← fOpt getF j "psd", psw := ← fOpt getF j "psw" }

def getKV (j : Json) : R (String × Float) := do
  match ← getArr j with
  | [k, v] => return (← getStr k, ← getF v)
  | _ => throw "kv pair expected"

def getPer (j : Json) : R (DegreeTargets Float) := do
  return { pch := ← fList getKV j "pch", psd := ← fList getKV j "psd", psw := ← fList getKV j "psw" }

def jKV (kv : String × Float) : Json := Json.arr #[jStr kv.1, jF kv.2]
def jPer (d : DegreeTargets Float) : Json :=
  jObj [("pch", jList jKV d.pch), ("psd", jList jKV d.psd), ("psw", jList jKV d.psw)]

/-- one crossing: per-channel output power (W), per-channel target (dBm), reference figures -/
def propagate (j : Json) : R Json := do
  let p ← fList getF j "p"
  let ml ← fList getF j "maxloss"
  let off ← fList getF j "offset"
  let baud ← fList getF j "baud"
  let slot ← fList getF j "slot"
  let degree ← fStr j "degree"
  let node ← getNode (← fld j "node")
  let per ← getPer (← fld j "per")
  let refIn ← fF j "ref_in"
  let refBaud ← fF j "ref_baud"
  let refSlot ← fF j "ref_slot"
  let maxml := ml.foldl (fun a b => if a < b then b else a) (ml.headD 0.0)
  let targets := (baud.zip slot).map (fun bs => degreeTarget per node degree bs.1 bs.2)
  let refT := degreeTarget per node degree refBaud refSlot
  match refT with
  | none => return jObj [("error", jStr "no-target")]
  | some rt =>
    let outs := (p.zip (ml.zip (off.zip targets))).map (fun x =>
      match x.2.2.2 with
      | some t => chanOut x.1 x.2.1 t x.2.2.1
      | none => 0.0)
    return jObj [("out", jList jF outs),
                 ("target", jList (jOpt jF) targets),
                 ("ref_out", jF (refOut refIn maxml rt)),
                 ("ref_loss", jF (refLoss refIn maxml rt))]

def accept (j : Json) : R Json := do
  let node ← getNode (← fld j "node")
  return jBool (paramsAccepted node)

def merge (j : Json) : R Json := do
  return jOpt jBool (mergeEqualization (← fBool j "a") (← fBool j "b") (← fBool j "c"))

def eqpt (j : Json) : R Json := do
  return jBool (eqptAccepted (← fBool j "a") (← fBool j "b") (← fBool j "c"))

def populateH (j : Json) : R Json := do
  let node ← getNode (← fld j "node")
  let per ← getPer (← fld j "per")
  let degs ← fList getStr j "degrees"
  return jOpt jPer (populate per node degs)


def getPType (s : String) : R PType :=
  match s with
  | "express" => pure .express
  | "add" => pure .add
  | "drop" => pure .drop
  | _ => throw s!"bad path type {s}"

def getBand (j : Json) : R (Band Float) := do
  match ← getArr j with
  | [lo, hi, v] => return { lo := ← getOpt getF lo, hi := ← getF hi, value := ← getOpt getF v }
  | _ => throw "band = [lo|null, hi, value|null]"

def getProfile (j : Json) : R (Profile Float) := do
  return { id := ← fNat j "id", ptype := ← getPType (← fStr j "ptype"), bands := ← fList getBand j "bands" }

/-- profile selection for one internal connection + per-carrier max loss -/
def profileH (j : Json) : R Json := do
  let ps ← fList getProfile j "profiles"
  let user ← fOpt getNat j "user"
  let t ← getPType (← fStr j "ptype")
  let freqs ← fList getF j "freqs"
  match selectProfile ps user t with
  | .error e => return jObj [("error", jStr e)]
  | .ok sel =>
    return jObj [("id", jOpt jNat (sel.map (·.id))),
                 ("maxloss", jList (jOpt jF) (freqs.map (maxlossOf sel)))]

def handlers : List (String × Handler) :=
  [("c06.propagate", propagate), ("c06.accept", accept), ("c06.merge", merge), ("c06.eqpt", eqpt), ("c06.populate", populateH), ("c06.profile", profileH)]

end Gnpy.Drv.C06
