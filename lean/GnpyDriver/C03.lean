import GnpyDriver.JsonUtil
import GnpyModel
/- driver handlers for property C03 (ops are named "c03.<name>") -/
open Lean
namespace Gnpy.Drv.C03
open Gnpy.Gn

def getPair (j : Json) : R (Float × Float) := do
  match ← getArr j with
  | [a, b] => return (← getF a, ← getF b)
  | _ => throw "pair expected"

/-- the fibre description as it is given to `FiberParams` (loss in dB/km, length with its unit) -/
def getFibre (j : Json) : R (Fibre Float) := do
  let len := Gnpy.Fiber.convertLength (← fF j "length") (← fBool j "km")
  let refKind ← fStr j "ref_kind"
  let refVal ← fOpt getF j "ref_value"
  let spec : RefSpec Float :=
    match refKind, refVal with
    | "wavelength", some v => .wavelength v
    | "frequency", some v => .frequency v
    | _, _ => .default
  let (wl, fr) := refPair spec
  let dispTable ← fList getPair j "disp_table"
  let disp0 ← fF j "disp0"
  let slope ← fOpt getF j "slope"
  let ea ← fOpt getF j "eff_area"
  let g ← fOpt getF j "gamma"
  let lossTable ← fList getPair j "loss_table"
  let loss0 ← fF j "loss0"
  let milli : Float := 1.0 / 1000.0
  return { len := len, refWl := wl, refF := fr, dispTable := dispTable, disp0 := disp0, slope := slope,
           fDispRef := fr, effArea := resolveEffArea ea g wl,
           lossTable := lossTable.map (fun kv => (kv.1, kv.2 * milli)), loss0 := loss0 * milli }

def zip3 : List Float → List Float → List Float → List (Float × Float × Float)
  | f :: fs, b :: bs, p :: ps => (f, b, p) :: zip3 fs bs ps
  | _, _, _ => []

/-- `NliSolver.compute_nli` (+ the coefficients it reads) on a spectrum sorted by frequency -/
def nliH (j : Json) : R Json := do
  let fib ← getFibre (← fld j "fibre")
  let f ← fList getF j "f"
  let b ← fList getF j "b"
  let p ← fList getF j "p"
  match loadAll fib (zip3 f b p) with
  | none => return jObj [("error", jStr "SpectrumError")]
  | some cs =>
    return jObj [("alpha", jList jF (cs.map (·.alpha))), ("beta2", jList jF (cs.map (·.beta2))),
                 ("gamma", jList jF (cs.map (·.gamma))), ("eff_area", jF fib.effArea),
                 ("ref_f", jF fib.refF), ("len", jF fib.len),
                 ("nli", jList jF (nli fib.len cs)), ("nli_spec", jList jF (nliSpec fib.len cs))]

/-- constructor (argsort by frequency) + `compute_nli` on channels supplied in any order -/
def nliAnyH (j : Json) : R Json := do
  let fib ← getFibre (← fld j "fibre")
  let f ← fList getF j "f"
  let b ← fList getF j "b"
  let p ← fList getF j "p"
  match computeNliAny fib (zip3 f b p) with
  | none => return jObj [("error", jStr "SpectrumError")]
  | some n => return jObj [("nli", jList jF n)]

/-- the NLI share after `Fiber.__call__`: `nli / pch` evaluated on the powers behind the input connector -/
def ratioH (j : Json) : R Json := do
  let fib ← getFibre (← fld j "fibre")
  let att ← fF j "att_in_db"
  let f ← fList getF j "f"
  let b ← fList getF j "b"
  let p ← fList getF j "p"
  let p1 := p.map (fun x => Gnpy.Fiber.applyAttDb x att)
  match loadAll fib (zip3 f b p1) with
  | none => return jObj [("error", jStr "SpectrumError")]
  | some cs =>
    let n := nli fib.len cs
    return jObj [("ratio", jList jF ((n.zip p1).map (fun x => x.1 / x.2)))]

/-- one entry of the psi / eta matrices (diagnosis of a mismatch) -/
def psiH (j : Json) : R Json := do
  let fib ← getFibre (← fld j "fibre")
  let f ← fList getF j "f"
  let b ← fList getF j "b"
  let p ← fList getF j "p"
  let i ← fNat j "i"
  let k ← fNat j "j"
  match loadAll fib (zip3 f b p) with
  | none => return jObj [("error", jStr "SpectrumError")]
  | some cs =>
    match cs[i]?, cs[k]? with
    | some ci, some cj => return jObj [("psi", jF (psi fib.len ci cj)),
                                         ("eta", jF (eta (if i = k then spmW else xpmW) fib.len ci cj))]
    | _, _ => throw "index"

/-- the constructor's overlap / baud-rate checks on the frequency-sorted comb -/
def combH (j : Json) : R Json := do
  let f ← fList getF j "f"
  let b ← fList getF j "b"
  let s ← fList getF j "slot"
  return jBool (combAccepted (zip3 f b s))

def handlers : List (String × Handler) :=
  [("c03.nli", nliH), ("c03.nli_any", nliAnyH), ("c03.ratio", ratioH), ("c03.psi", psiH), ("c03.comb", combH)]

end Gnpy.Drv.C03
