import GnpyDriver.JsonUtil
import GnpyModel
/- driver handlers for property C03 (ops are named "c03.<name>") -/
open Lean
namespace Gnpy.Drv.C03

def handlers : List (String × Handler) := []

end Gnpy.Drv.C03
