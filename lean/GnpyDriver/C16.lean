import GnpyDriver.JsonUtil
import GnpyModel
/- driver handlers for property C16 (ops are named "c16.<name>") -/
open Lean
namespace Gnpy.Drv.C16

def handlers : List (String × Handler) := []

end Gnpy.Drv.C16
