import GnpyDriver.JsonUtil
import GnpyModel
/- driver handlers for property C16 (ops are named "c16.<name>") -/
open Lean
namespace Gnpy.Drv.C16
open Gnpy.Plan

/-- successive calls of one amplifier object (set gain = the designed gain): effective gain after every call -/
def edfaSeqH (j : Json) : R Json := do
  let g ← fF j "eff_gain"
  let pmax ← fF j "p_max"
  let pins ← fList getF j "pin_db"
  let mut e : Edfa Float := { setGain := g, effGain := g, pMax := pmax }
  let mut out : List Json := []
  for p in pins do
    let (e', po) := e.call p
    e := e'
    out := out ++ [jObj [("eff_gain", jF e.effGain), ("pout_flat", jF po)]]
  return Json.arr out.toArray

/-- a line of (loss, amplifier) spans, a batch of launch powers: with and without the per-request copy -/
def lineH (j : Json) : R Json := do
  let spans ← fList (fun s => do
    let g ← fF s "eff_gain"
    return ((← fF s "loss"), ({ setGain := g, effGain := g, pMax := ← fF s "p_max" } : Edfa Float))) j "spans"
  let ps ← fList getF j "powers"
  let c := planCopy spans ps
  let s := planShared spans ps
  return jObj [("copy", jList jF c.2), ("copy_gains", jList jF (c.1.map (·.2.effGain))),
               ("shared", jList jF s.2), ("shared_gains", jList jF (s.1.map (·.2.effGain)))]

/-- the pipeline: results of a batch = map of the per-request computation; the harness supplies the table
request key -> result (computed alone) as `computeOne`; slot outcomes are a fold (here: a running count) -/
def planH (j : Json) : R Json := do
  let table ← fList (fun kv => do return ((← fStr kv "key"), (← fStr kv "result"))) j "alone"
  let batch ← fList getStr j "batch"
  let P : Pipeline (List (String × String)) String String Nat Nat :=
    { computeOne := fun t k => (t.lookup k).getD "?", assign := fun n _ => (n + 1, n) }
  let out := plan P table 0 batch
  return jObj [("results", jList jStr out.results), ("slot_outs", jList jNat out.slotOuts),
               ("settings_unchanged", jBool (out.settings == table))]

/-- the channels a GGN method evaluates explicitly, for a list of comb sizes -/
def cutIndicesH (j : Json) : R Json := do
  let p : NliParams := { method := ← fStr j "method", computedChannels := ← fOpt (getList getNat) j "computed_channels",
                         computedNumberOfChannels := ← fOpt getNat j "computed_number_of_channels" }
  let ns ← fList getNat j "nb_ch"
  return jList (fun n => match cutIndices p n with
    | .ok l => jList jNat l
    | .error e => jStr e) ns

def handlers : List (String × Handler) :=
  [("c16.cut_indices", cutIndicesH), ("c16.edfa_seq", edfaSeqH), ("c16.line", lineH), ("c16.plan", planH)]

end Gnpy.Drv.C16
