import GnpyDriver.JsonUtil
import GnpyDriver.C01
import GnpyDriver.C02
import GnpyDriver.C03
import GnpyDriver.C04
import GnpyDriver.C05
import GnpyDriver.C06
import GnpyDriver.C07
import GnpyDriver.C08
import GnpyDriver.C09
import GnpyDriver.C10
import GnpyDriver.C11
import GnpyDriver.C12
import GnpyDriver.C13
import GnpyDriver.C14
import GnpyDriver.C15
import GnpyDriver.C16
import GnpyDriver.C17
import GnpyDriver.C18
import GnpyDriver.C19
import GnpyDriver.C20
/-
gnpydriver: JSON-lines server around the executable model.
  in : {"op": "<cNN.name>", ...arguments...}
  out: {"ok": <answer>}   or   {"err": "<message>"}
-/
open Lean Gnpy.Drv

def allHandlers : List (String × Handler) :=
  C01.handlers ++ C02.handlers ++ C03.handlers ++ C04.handlers ++ C05.handlers ++
  C06.handlers ++ C07.handlers ++ C08.handlers ++ C09.handlers ++ C10.handlers ++
  C11.handlers ++ C12.handlers ++ C13.handlers ++ C14.handlers ++ C15.handlers ++
  C16.handlers ++ C17.handlers ++ C18.handlers ++ C19.handlers ++ C20.handlers

def answer (line : String) : String :=
  match Json.parse line with
  | .error e => (Json.mkObj [("err", Json.str s!"parse: {e}")]).compress
  | .ok j =>
    match j.getObjVal? "op" >>= Json.getStr? with
    | .error e => (Json.mkObj [("err", Json.str s!"op: {e}")]).compress
    | .ok "ping" => (Json.mkObj [("ok", Json.str "pong")]).compress
    | .ok "ops" => (Json.mkObj [("ok", Json.arr (allHandlers.map (fun h => Json.str h.1)).toArray)]).compress
    | .ok op =>
      match allHandlers.lookup op with
      | none => (Json.mkObj [("err", Json.str s!"unknown op {op}")]).compress
      | some h =>
        match h j with
        | .ok r => (Json.mkObj [("ok", r)]).compress
        | .error e => (Json.mkObj [("err", Json.str e)]).compress

partial def loop (hin hout : IO.FS.Stream) : IO Unit := do
  let line ← hin.getLine
  if line.isEmpty then return ()
  hout.putStrLn (answer line)
  hout.flush
  loop hin hout

def main : IO Unit := do
  loop (← IO.getStdin) (← IO.getStdout)
