import GnpyDriver.JsonUtil
import GnpyModel
/- driver handlers for property C08 (ops are named "c08.<name>") -/
open Lean
namespace Gnpy.Drv.C08

def handlers : List (String × Handler) := []

end Gnpy.Drv.C08
