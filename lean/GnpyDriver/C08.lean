import GnpyDriver.JsonUtil
import GnpyModel
/- driver handlers for property C08 (ops are named "c08.<name>"); the JSON codec of chain elements defined here is
   reused by C09 and C17 -/
open Lean
namespace Gnpy.Drv.C08
open Gnpy.Chain

def getLump (j : Json) : R (Float × Float) := do
  match ← getArr j with
  | [a, b] => return (← getF a, ← getF b)
  | _ => throw "lumped loss pair expected"

def getElem (j : Json) : R (Elem Float) := do
  let kind ← fStr j "kind"
  let uid ← fStr j "uid"
  match kind with
  | "fiber" =>
    return .fiber uid { length := ← fF j "length", lossCoef := ← fF j "loss_coef", conIn := ← fOpt getF j "con_in",
                        conOut := ← fOpt getF j "con_out", attIn := ← fF j "att_in", lumps := ← fList getLump j "lumps",
                        raman := ← fBool j "raman", ramanGain := ← fOpt getF j "raman_gain", dsl := ← fOpt getF j "dsl" }
  | "fused" => return .fused uid (← fF j "loss")
  | "edfa" =>
    return .edfa uid { variety := ← fStr j "variety", gain := ← fOpt getF j "gain", deltaP := ← fOpt getF j "delta_p",
                       outVoa := ← fOpt getF j "out_voa", inVoa := ← fOpt getF j "in_voa", tilt := ← fOpt getF j "tilt",
                       multi := (← fOpt getBool j "multi").getD false }
  | k => throw s!"unknown element kind {k}"

def jElem : Elem Float → Json
  | .fiber u p => jObj [("kind", jStr "fiber"), ("uid", jStr u), ("length", jF p.length), ("loss_coef", jF p.lossCoef),
                        ("con_in", jOpt jF p.conIn), ("con_out", jOpt jF p.conOut), ("att_in", jF p.attIn),
                        ("lumps", jList (fun l => Json.arr #[jF l.1, jF l.2]) p.lumps), ("lumped", jF p.lumped), ("raman", jBool p.raman), ("raman_gain", jOpt jF p.ramanGain),
                        ("dsl", jOpt jF p.dsl), ("loss", jF p.loss)]
  | .fused u l => jObj [("kind", jStr "fused"), ("uid", jStr u), ("loss", jF l)]
  | .edfa u p => jObj [("kind", jStr "edfa"), ("uid", jStr u), ("variety", jStr p.variety), ("gain", jOpt jF p.gain),
                       ("delta_p", jOpt jF p.deltaP), ("out_voa", jOpt jF p.outVoa), ("in_voa", jOpt jF p.inVoa),
                       ("tilt", jOpt jF p.tilt), ("multi", jBool p.multi)]

def getKind (j : Json) (k : String) : R EndKind := do
  match ← fStr j k with
  | "roadm" => return .roadm
  | "trx" => return .trx
  | s => throw s!"endpoint kind {s}"

def getChain (j : Json) : R (Chain Float) := do
  return { src := ← fStr j "src", srcKind := ← getKind j "src_kind", line := ← fList getElem j "line",
           dst := ← fStr j "dst", dstKind := ← getKind j "dst_kind",
           srcBands := (← fOpt getNat j "src_bands").getD 1, dstFirst := (← fOpt getBool j "dst_first").getD false }

def getSplit (j : Json) : R (SplitCfg Float) := do
  return { fuel := 100000, lo := ← fF j "lo", hi := ← fF j "hi", target := ← fF j "target" }

/-- calculate_new_length: (length, n) or the error kind; also the class-D margin of `//` -/
def calcH (j : Json) : R Json := do
  let L ← fF j "L"
  let c ← getSplit j
  if calcRaises c.fuel L c.hi c.target then return jObj [("error", jStr "ZeroDivisionError")]
  let r := calcNewLength c.fuel L c.lo c.hi c.target
  let q := L / c.target
  let margin := Float.abs (q - q.round)
  return jObj [("length", jF r.1), ("n", jNat r.2), ("margin", jF margin), ("target", jF (targetLength c.lo c.hi))]

/-- add_missing_elements_in_network + add_missing_fiber_attributes on one chain -/
def design (j : Json) : R Json := do
  let ch ← getChain (← fld j "chain")
  let c ← getSplit j
  -- malformed chains
  if !(← fBool j "connected") then return jObj [("error", jStr "NetworkTopologyError")]
  let raisesSplit := ch.line.any (fun e => match e with
    | .fiber _ p => calcRaises c.fuel p.length c.hi c.target
    | _ => false)
  if raisesSplit then return jObj [("error", jStr "ZeroDivisionError")]
  let raisesLump := ch.line.any (fun e => match e with
    | .fiber _ p => splitRaises c p
    | _ => false)
  if raisesLump then return jObj [("error", jStr "NetworkTopologyError")]
  let missing := addMissingLine c ch
  if kindsRaise ch.srcBands missing then
    return jObj [("error", jStr "NetworkTopologyError"), ("missing", jList jElem missing)]
  let withConn := addConn (← fF j "con_in") (← fF j "con_out") (← fF j "eol") missing
  let rs := runs withConn
  if rs.any padRaises then
    return jObj [("error", jStr "TypeError"), ("missing", jList jElem missing)]
  let padded := addPadding (← fF j "padding") withConn
  return jObj [("missing", jList jElem missing), ("line", jList jElem padded),
               ("runs", jList (fun r => jList (fun e => jStr e.uid) r) (runs padded))]

/-- the graph (edge list over uids) of the whole topology after completion: `toGraph` of the completed chains; chains
without line elements (transceiver <-> ROADM) are chains too -/
def graph (j : Json) : R Json := do
  let chs ← fList getChain j "chains"
  let c ← getSplit j
  let dIn ← fF j "con_in"
  let dOut ← fF j "con_out"
  let eol ← fF j "eol"
  let padding ← fF j "padding"
  let done := chs.map (completeChain c dIn dOut eol padding)
  return jObj [("edges", jList (fun e => Json.arr #[jStr e.1, jStr e.2]) (toGraph done)),
               ("pairs", jList (fun e => Json.arr #[jStr e.1, jStr e.2]) (endpointPairs done))]

def handlers : List (String × Handler) := [("c08.calc", calcH), ("c08.design", design), ("c08.graph", graph)]

end Gnpy.Drv.C08
