import GnpyDriver.JsonUtil
import GnpyModel
/- driver handlers for property C01 (ops are named "c01.<name>") -/
open Lean
namespace Gnpy.Drv.C01

def handlers : List (String × Handler) := []

end Gnpy.Drv.C01
