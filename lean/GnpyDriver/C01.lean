import GnpyDriver.JsonUtil
import GnpyModel
/- driver handlers for property C01 (ops are named "c01.<name>") -/
open Lean
namespace Gnpy.Drv.C01
open Gnpy.Spectrum

/-- a channel crosses the pipe as `[p, s, a, n]` (bit patterns) -/
def getChan (j : Json) : R (Chan Float) := do
  match ← getArr j with
  | [p, s, a, n] => return { p := ← getF p, s := ← getF s, a := ← getF a, n := ← getF n }
  | _ => throw "channel = [p,s,a,n] expected"

def jChan (c : Chan Float) : Json := Json.arr #[jF c.p, jF c.s, jF c.a, jF c.n]

/-- an op crosses the pipe as `[kind, arg]` -/
def getOp (j : Json) : R (Op Float) := do
  match ← getArr j with
  | [k, v] =>
    let x ← getF v
    match ← getStr k with
    | "attLin" => return .attLin x
    | "attDb" => return .attDb x
    | "gainLin" => return .gainLin x
    | "gainDb" => return .gainDb x
    | "addAse" => return .addAse x
    | "addNli" => return .addNli x
    | s => throw s!"unknown op kind {s}"
  | _ => throw "op = [kind,arg] expected"

def getKChan (j : Json) : R (Int × Chan Float) := do
  match ← getArr j with
  | [k, c] => return (← getInt k, ← getChan c)
  | _ => throw "keyed channel = [freq,[p,s,a,n]] expected"

def jKChan (kc : Int × Chan Float) : Json := Json.arr #[jInt kc.1, jChan kc.2]

/-- everything the implementation exposes about one channel:
`[p, s, a, n, signal, ase, nli, snr_lin_db, snr_nli_db, gsnr_db]` -/
def jViews (c : Chan Float) : Json :=
  Json.arr #[jF c.p, jF c.s, jF c.a, jF c.n, jF c.signal, jF c.ase, jF c.nli,
             jF c.snrLinDb, jF c.snrNliDb, jF c.gsnrDb]

/-- `run` for every channel with its own op list -/
def runH (j : Json) : R Json := do
  let chans ← fList getChan j "chans"
  let ops ← fList (getList getOp) j "ops"
  if chans.length ≠ ops.length then throw "chans/ops length mismatch"
  return jList jViews (List.zipWith (fun c o => run o c) chans ops)

/-- `select_channels` by a boolean mask, then (optionally) merge of several keyed spectra -/
def demuxH (j : Json) : R Json := do
  let sp ← fList getKChan j "sp"
  let keep ← fList getInt j "keep"
  return jList jKChan (demux (fun f => keep.contains f) sp)

def muxH (j : Json) : R Json := do
  let parts ← fList (getList getKChan) j "parts"
  return jOpt (jList jKChan) (mux parts)

/-- Transceiver figures: `_calc_snr` then `update_snr(*args)` per channel;
also the 0.1 nm views -/
def trxH (j : Json) : R Json := do
  let chans ← fList getChan j "chans"
  let baud ← fList getF j "baud"
  let args ← fList (getList getF) j "args"
  let rows := List.zipWith (fun c ba =>
      let (o, nl, g) := calcSnr c
      let (o2, nl2, g2) := updateSnr c ba.1 ba.2
      let added := snrAdded ba.2
      Json.arr #[jF o, jF nl, jF g, jF (optDb o ba.1), jF (optDb g ba.1),
                 jF o2, jF nl2, jF g2,
                 jF (snrSum (optDb o ba.1) refBw added), jF (snrSum (optDb g ba.1) refBw added)])
    chans (baud.zip args)
  return Json.arr rows.toArray

def jTrxFig (t : TrxFig Float) : Json :=
  Json.arr #[jF t.rawOsnr, jF t.rawNli, jF t.rawSnr, jF t.rawOsnr01, jF t.rawSnr01,
             jF t.osnr, jF t.nli, jF t.snr, jF t.osnr01, jF t.snr01]

/-- `_calc_snr` followed by a sequence of `update_snr` calls; per channel: the figures after every call
(`calls[i]` = the argument lists channel i saw, one per call) -/
def trxSeqH (j : Json) : R Json := do
  let chans ← fList getChan j "chans"
  let baud ← fList getF j "baud"
  let calls ← fList (getList (getList getF)) j "calls"
  let rows := List.zipWith (fun c bc =>
      let t0 := TrxFig.calc c bc.1
      let states := (bc.2.foldl (fun (acc : TrxFig Float × List (TrxFig Float)) a =>
        let t := acc.1.update bc.1 a
        (t, t :: acc.2)) (t0, [t0])).2.reverse
      jList jTrxFig states) chans (baud.zip calls)
  return Json.arr rows.toArray

def handlers : List (String × Handler) :=
  [("c01.run", runH), ("c01.demux", demuxH), ("c01.mux", muxH), ("c01.trx", trxH), ("c01.trxseq", trxSeqH)]

end Gnpy.Drv.C01
