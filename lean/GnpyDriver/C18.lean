import GnpyDriver.JsonUtil
import GnpyModel
/- driver handlers for property C18 (ops are named "c18.<name>") -/
open Lean
namespace Gnpy.Drv.C18

def handlers : List (String × Handler) := []

end Gnpy.Drv.C18
