import GnpyDriver.JsonUtil
import GnpyModel
/- driver handlers for property C18 (ops are named "c18.<name>")

   wire form of a document tree (Gnpy.J):  null | true/false | integer | "string" |
   ["f", bits] (a float as its binary64 bit pattern) | ["a", x1, ...] (list) | ["o", [k1, v1], ...] (dict, in order) -/
open Lean
namespace Gnpy.Drv.C18
open Gnpy Gnpy.Yang

partial def getJ (j : Json) : R J :=
  match j with
  | .null => pure .null
  | .bool b => pure (.bool b)
  | .str s => pure (.str s)
  | .num _ => do return .int (← j.getInt?)
  | .arr a =>
    match a.toList with
    | Json.str "f" :: [b] => do return .flt (← b.getNat?)
    | Json.str "a" :: xs => do return .arr (← xs.mapM getJ)
    | Json.str "o" :: kvs => do
      let l ← kvs.mapM (fun kv => do
        match ← getArr kv with
        | [k, v] => return (← getStr k, ← getJ v)
        | _ => throw "kv pair expected")
      return .obj l
    | _ => throw "tagged array expected"
  | .obj _ => throw "plain JSON objects are not part of the wire form"

partial def putJ : J → Json
  | .null => .null
  | .bool b => .bool b
  | .int i => toJson i
  | .flt b => Json.arr #[Json.str "f", toJson b]
  | .str s => .str s
  | .arr l => Json.arr (#[Json.str "a"] ++ (l.map putJ).toArray)
  | .obj l => Json.arr (#[Json.str "o"] ++ (l.map (fun kv => Json.arr #[Json.str kv.1, putJ kv.2])).toArray)

def getReprs (j : Json) : R (List (Nat × String)) := do
  match j.getObjVal? "reprs" with
  | .error _ => return []
  | .ok r => (← getArr r).mapM (fun p => do
      match ← getArr p with
      | [b, s] => return (← getNat b, ← getStr s)
      | _ => throw "repr pair expected")

def outcome (r : PyR J) : Json :=
  match r with
  | .ok v => jObj [("value", putJ v)]
  | .error e => jObj [("error", jStr e)]

def toYang (j : Json) : R Json := do
  return outcome (legacyToYang (← getReprs j) (← getJ (← fld j "doc")))

def toLegacy (j : Json) : R Json := do
  return outcome (yangToLegacy (← getReprs j) (← getJ (← fld j "doc")))

def toYangOld (j : Json) : R Json := do
  return outcome (legacyToYangOld (← getReprs j) (← getJ (← fld j "doc")))

def toLegacyOld (j : Json) : R Json := do
  return outcome (yangToLegacyOld (← getReprs j) (← getJ (← fld j "doc")))

/-- the hypotheses of the document-level theorems, evaluated on a generated document `doc` and on the legacy
    document `legacy` that the implementation's `yang_to_legacy` returned for it -/
def wfH (j : Json) : R Json := do
  let reprs ← getReprs j
  let d ← getJ (← fld j "doc")
  let l ← getJ (← fld j "legacy")
  return jObj [("yang", jBool (wfDoc reprs d)), ("legacy", jBool (wfLegacyDoc reprs l))]

def precisionH (_ : Json) : R Json :=
  return jList (fun kv => Json.arr #[jStr kv.1, jInt kv.2]) precisionDict

def fmtH (j : Json) : R Json := do
  let bits ← fNat j "bits"
  let d ← fInt j "d"
  match prettyStr (← getReprs j) bits d with
  | .ok s => return jObj [("value", jStr s)]
  | .error e => return jObj [("error", jStr e)]

def parseH (j : Json) : R Json := do
  return jOpt jNat (Round.parseFloatBits (← fStr j "s"))

def asDict (j : J) : R Dict :=
  match j with
  | .obj l => pure l
  | _ => throw "dict expected"

def jAliases (r : PyR (List (String × Dict))) : Json :=
  match r with
  | .ok l => jObj [("value", jList (fun nd => Json.arr #[jStr nd.1, putJ (.obj nd.2)]) l)]
  | .error e => jObj [("error", jStr e)]

def aliasesH (j : Json) : R Json := do
  return jAliases (expandAliases (← asDict (← getJ (← fld j "entry"))))

def aliasesF4H (j : Json) : R Json := do
  return jAliases (expandAliasesF4 (← asDict (← getJ (← fld j "entry"))))

def modesH (j : Json) : R Json := do
  let ms ← (← getArr (← fld j "modes")).mapM (fun m => do asDict (← getJ m))
  match expandModes ms with
  | .ok l => return jObj [("value", jList (fun d => putJ (.obj d)) l)]
  | .error e => return jObj [("error", jStr e)]

def handlers : List (String × Handler) :=
  [("c18.to_yang", toYang), ("c18.to_legacy", toLegacy), ("c18.to_legacy_old", toLegacyOld), ("c18.to_yang_old", toYangOld),
   ("c18.precision", precisionH), ("c18.wf", wfH), ("c18.fmt", fmtH), ("c18.parse", parseH),
   ("c18.aliases", aliasesH), ("c18.aliases_f4", aliasesF4H), ("c18.modes", modesH)]

end Gnpy.Drv.C18
