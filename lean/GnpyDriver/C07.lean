import GnpyDriver.JsonUtil
import GnpyModel
/- driver handlers for property C07 (ops are named "c07.<name>") -/
open Lean
namespace Gnpy.Drv.C07

def handlers : List (String × Handler) := []

end Gnpy.Drv.C07
