import GnpyDriver.JsonUtil
import GnpyModel
/- driver handlers for property C07 (ops are named "c07.<name>") -/
open Lean
namespace Gnpy.Drv.C07
open Gnpy.Bands

/-- a channel crosses the pipe as `[f, slot, baud, pay]` (integers) -/
def getCh (j : Json) : R Ch := do
  match ← getArr j with
  | [f, s, b, p] => return { f := ← getInt f, slot := ← getInt s, baud := ← getInt b, pay := ← getNat p }
  | _ => throw "channel = [f,slot,baud,pay] expected"

def jCh (c : Ch) : Json := Json.arr #[jInt c.f, jInt c.slot, jInt c.baud, jNat c.pay]

/-- a band crosses the pipe as `[fmin, fmax, spacing|null]` -/
def getBand (j : Json) : R Band := do
  match ← getArr j with
  | [lo, hi] => return { fmin := ← getInt lo, fmax := ← getInt hi, spacing := none }
  | [lo, hi, s] => return { fmin := ← getInt lo, fmax := ← getInt hi, spacing := ← getOpt getInt s }
  | _ => throw "band = [fmin,fmax(,spacing)] expected"

def jBand (b : Band) : Json := Json.arr #[jInt b.fmin, jInt b.fmax, jOpt jInt b.spacing]

def jErr : Err → Json
  | .spectrum => jStr "SpectrumError"
  | .value => jStr "ValueError"

def jRes (r : Except Err (List Ch)) : Json :=
  match r with
  | .ok l => jObj [("ok", jList jCh l)]
  | .error e => jObj [("err", jErr e)]

def getElem (j : Json) : R Elem := do
  match ← fStr j "k" with
  | "edfa" => return .edfa (← fList getBand j "bands")
  | "multiband" => return .multiband (← fList getBand j "params") (← fList getBand j "bands")
  | _ => return .other

def mkH (j : Json) : R Json := do
  return jRes (mkSpectrum (← fList getCh j "chans"))

def gridH (j : Json) : R Json := do
  return jRes (gridSpectrum (← fInt j "fmin") (← fInt j "fmax") (← fInt j "spacing") (← fInt j "baud"))

def demuxH (j : Json) : R Json := do
  let b ← getBand (← fld j "band")
  return jOpt jRes (demux b (← fList getCh j "sp"))

def muxH (j : Json) : R Json := do
  return jRes (mux (← fList (getList getCh) j "parts"))

def inBandH (j : Json) : R Json := do
  let b ← getBand (← fld j "band")
  return jList (fun c => jBool (inBand b c)) (← fList getCh j "sp")

def filterH (j : Json) : R Json := do
  return jRes (filterSi (← fList getBand j "common") (← fList getCh j "sp"))

def commonH (j : Json) : R Json := do
  let amps ← fList (getList getBand) j "amps"
  return jList jBand (commonRange amps (← fOpt getInt j "fmin") (← fOpt getInt j "fmax") (← fInt j "spacing"))

def callH (j : Json) : R Json := do
  return jRes ((← getElem (← fld j "elem")).call (← fList getCh j "sp"))

def propagateH (j : Json) : R Json := do
  let path ← fList getElem j "path"
  return jRes (propagate path (← fOpt getInt j "fmin") (← fOpt getInt j "fmax") (← fInt j "spacing")
    (← fList getCh j "chans"))

def jElemBands (e : Elem) : Json :=
  match e with
  | .multiband pb cb => jObj [("params", jList jBand pb), ("bands", jList jBand cb), ("names", jList (fun b => jStr (bandName b)) cb)]
  | .edfa b => jObj [("params", jList jBand b), ("bands", jList jBand b), ("names", jList (fun b => jStr (bandName b)) b)]
  | .other => jObj []

/-- `network_from_json` + `Multiband_amplifier.__init__`: `lib` = bands of the library entry (null for an untyped
element), `amps` = first band of every listed amplifier -/
def loadH (j : Json) : R Json := do
  let lib ← fOpt (getList getBand) j "lib"
  let amps ← fList getBand j "amps"
  match loadMultiband lib amps with
  | .ok e => return jObj [("ok", jElemBands e)]
  | .error _ => return jObj [("err", jStr "ParametersError")]

/-- `set_egress_amplifier` on a multiband element: `existing` amplifier names, f_min-sorted `design` bands, `sel` =
`[[name, band]]` of the varieties selected per amplifier; also the library `dedup` (`_update_band`) of a member list -/
def designH (j : Json) : R Json := do
  let existing ← fList getStr j "existing"
  let design ← fList getBand j "design"
  let sel ← fList (fun x => do
      match ← getArr x with
      | [n, b] => return ((← getStr n), (← getBand b))
      | _ => throw "name/band pair expected") j "sel"
  let e := designMultiband existing design (fun n => (sel.lookup n).getD { fmin := 0, fmax := 0 })
  return jObj [("elem", jElemBands e), ("keys", jList (fun kv => jStr kv.1) (designDict design))]

def dedupH (j : Json) : R Json := do
  return jList jBand (dedupBands (← fList getBand j "bands"))

def handlers : List (String × Handler) :=
  [("c07.mk", mkH), ("c07.grid", gridH), ("c07.demux", demuxH), ("c07.mux", muxH), ("c07.inband", inBandH), ("c07.filter", filterH),
   ("c07.common", commonH), ("c07.call", callH), ("c07.propagate", propagateH), ("c07.load", loadH),
   ("c07.design", designH), ("c07.dedup", dedupH)]

end Gnpy.Drv.C07
