import GnpyDriver.JsonUtil
import GnpyModel
/- driver handlers for property C07 (ops are named "c07.<name>") -/
open Lean
namespace Gnpy.Drv.C07
open Gnpy.Bands

/-- a channel crosses the pipe as `[f, slot, baud, pay]` (integers) -/
def getCh (j : Json) : R Ch := do
  match ← getArr j with
  | [f, s, b, p] => return { f := ← getInt f, slot := ← getInt s, baud := ← getInt b, pay := ← getNat p }
  | _ => throw "channel = [f,slot,baud,pay] expected"

def jCh (c : Ch) : Json := Json.arr #[jInt c.f, jInt c.slot, jInt c.baud, jNat c.pay]

/-- a band crosses the pipe as `[fmin, fmax, spacing|null]` -/
def getBand (j : Json) : R Band := do
  match ← getArr j with
  | [lo, hi] => return { fmin := ← getInt lo, fmax := ← getInt hi, spacing := none }
  | [lo, hi, s] => return { fmin := ← getInt lo, fmax := ← getInt hi, spacing := ← getOpt getInt s }
  | _ => throw "band = [fmin,fmax(,spacing)] expected"

def jBand (b : Band) : Json := Json.arr #[jInt b.fmin, jInt b.fmax, jOpt jInt b.spacing]

def jErr : Err → Json
  | .spectrum => jStr "SpectrumError"
  | .value => jStr "ValueError"

def jRes (r : Except Err (List Ch)) : Json :=
  match r with
  | .ok l => jObj [("ok", jList jCh l)]
  | .error e => jObj [("err", jErr e)]

def getElem (j : Json) : R Elem := do
  match ← fStr j "k" with
  | "edfa" => return .edfa (← fList getBand j "bands")
  | "multiband" => return .multiband (← fList getBand j "params") (← fList getBand j "bands")
  | _ => return .other

def mkH (j : Json) : R Json := do
  return jRes (mkSpectrum (← fList getCh j "chans"))

def gridH (j : Json) : R Json := do
  return jRes (gridSpectrum (← fInt j "fmin") (← fInt j "fmax") (← fInt j "spacing") (← fInt j "baud"))

def demuxH (j : Json) : R Json := do
  let b ← getBand (← fld j "band")
  return jOpt jRes (demux b (← fList getCh j "sp"))

def muxH (j : Json) : R Json := do
  return jRes (mux (← fList (getList getCh) j "parts"))

def inBandH (j : Json) : R Json := do
  let b ← getBand (← fld j "band")
  return jList (fun c => jBool (inBand b c)) (← fList getCh j "sp")

def filterH (j : Json) : R Json := do
  return jRes (filterSi (← fList getBand j "common") (← fList getCh j "sp"))

def commonH (j : Json) : R Json := do
  let amps ← fList (getList getBand) j "amps"
  return jList jBand (commonRange amps (← fOpt getInt j "fmin") (← fOpt getInt j "fmax") (← fInt j "spacing"))

def callH (j : Json) : R Json := do
  return jRes ((← getElem (← fld j "elem")).call (← fList getCh j "sp"))

def propagateH (j : Json) : R Json := do
  let path ← fList getElem j "path"
  return jRes (propagate path (← fOpt getInt j "fmin") (← fOpt getInt j "fmax") (← fInt j "spacing")
    (← fList getCh j "chans"))

def handlers : List (String × Handler) :=
  [("c07.mk", mkH), ("c07.grid", gridH), ("c07.demux", demuxH), ("c07.mux", muxH), ("c07.inband", inBandH), ("c07.filter", filterH),
   ("c07.common", commonH), ("c07.call", callH), ("c07.propagate", propagateH)]

end Gnpy.Drv.C07
