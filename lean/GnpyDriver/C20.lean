import GnpyDriver.JsonUtil
import GnpyModel
/- driver handlers for property C20 (ops are named "c20.<name>") -/
open Lean
namespace Gnpy.Drv.C20

def handlers : List (String × Handler) := []

end Gnpy.Drv.C20
