import GnpyDriver.JsonUtil
import GnpyDriver.C18
import GnpyModel
/- driver handlers for property C20 (ops are named "c20.<name>"); JSON trees use the wire form of C18 -/
open Lean
namespace Gnpy.Drv.C20
open Gnpy Gnpy.Xls Gnpy.Drv.C18

def getKw (j : Json) : R Dict := do
  match ← getJ j with
  | .obj l => pure l
  | _ => throw "row dict expected"

def errName : XErr → String
  | .duplicateCity => "NetworkTopologyError:duplicate-city"
  | .linkUnknownNode => "NetworkTopologyError:link-unknown-node"
  | .duplicateLink => "NetworkTopologyError:duplicate-link"
  | .unreferencedNode => "NetworkTopologyError:unreferenced-node"
  | .eqptUnknownNode => "NetworkTopologyError:eqpt-unknown-node"
  | .eqptUnknownLink => "NetworkTopologyError:eqpt-unknown-link"
  | .duplicateEqpt => "NetworkTopologyError:duplicate-eqpt"
  | .duplicateIla => "NetworkTopologyError:duplicate-ila"
  | .impairmentMismatch => "NetworkTopologyError:impairment-mismatch"
  | .py k => k

def getTable (j : Json) : R Table := do
  return { nodes := (← fList getKw j "nodes").map mkNode,
           links := (← fList getKw j "links").map mkLink,
           eqpts := (← fList getKw j "eqpts").map mkEqpt,
           roadms := (← fList getKw j "roadms").map mkRoadmRow }

def convertH (j : Json) : R Json := do
  match convert (← getTable j) with
  | .ok o => return jObj [("value", putJ o.toJson)]
  | .error e => return jObj [("error", jStr (errName e))]

def jSide (s : LinkSide) : Json :=
  putJ (.obj [("distance", s.distance), ("fiber", s.fiber), ("lineic", s.lineic), ("con_in", s.conIn),
              ("con_out", s.conOut), ("pmd", s.pmd), ("cable", .str s.cable)])

def linkH (j : Json) : R Json := do
  let l := mkLink (← getKw (← fld j "kw"))
  return jObj [("a", jStr l.a), ("z", jStr l.z), ("east", jSide l.east), ("west", jSide l.west)]

def sErrName : SErr → String
  | .service w => "ServiceError:" ++ w
  | .py k => k

def getModes (j : Json) : R (Option (List String)) := fOpt (getList getStr) j "modes"

def requestH (j : Json) : R Json := do
  let r := mkRequest (← getKw (← fld j "kw"))
  match mkReqElem r (← getModes j) (← fBool j "bidir") with
  | .ok e => return jObj [("request", putJ (pathRequest e)), ("sync", jOpt putJ (pathSync e))]
  | .error e => return jObj [("error", jStr (sErrName e))]

/-- whole `read_service_sheet`: rows with their available modes, then the route correction -/
def servicesH (j : Json) : R Json := do
  let rows ← fList (fun r => do return (← getKw (← fld r "kw"), ← getModes r)) j "rows"
  let bidir ← fBool j "bidir"
  let trx ← fList getStr j "trx"
  let rc ← fList getStr j "roadm_cities"
  let ru ← fList getStr j "roadm_edfa_uids"
  let tf ← fList getStr j "trx_fiber_uids"
  let amb ← fList getStr j "ambiguous"
  let mut elems : List ReqElem := []
  for (kw, modes) in rows do
    match mkReqElem (mkRequest kw) modes bidir with
    | .ok e => elems := elems ++ [e]
    | .error e => return jObj [("error", jStr (sErrName e))]
  let mut fixed : List ReqElem := []
  for e in elems do
    match correctRoute trx rc ru tf amb e with
    | .ok (some e') => fixed := fixed ++ [e']
    | .ok none => return jObj [("skip", jStr "ambiguous-direction")]
    | .error er => return jObj [("error", jStr (sErrName er))]
  let syncs := fixed.filterMap pathSync
  let doc : Dict := [("path-request", .arr (fixed.map pathRequest))] ++
    (if syncs.isEmpty then [] else [("synchronization", .arr syncs)])
  return jObj [("value", putJ (.obj doc))]

def handlers : List (String × Handler) :=
  [("c20.convert", convertH), ("c20.link", linkH), ("c20.request", requestH), ("c20.services", servicesH)]

end Gnpy.Drv.C20
