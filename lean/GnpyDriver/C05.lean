import GnpyDriver.JsonUtil
import GnpyDriver.C03
import GnpyModel
/- driver handlers for property C05 (ops are named "c05.<name>") -/
open Lean
namespace Gnpy.Drv.C05
open Gnpy.Gn Gnpy.Fiber

def getSpan (j : Json) : R (Span Float × Bool) := do
  let fib ← C03.getFibre (← fld j "fibre")
  let lumpedKm ← fList C03.getPair j "lumped"
  let s : Span Float := { fib := fib, conIn := ← fF j "con_in", attIn := ← fF j "att_in", conOut := ← fF j "con_out",
                          lumped := mkLumped lumpedKm, pmdCoef := ← fF j "pmd_coef" }
  return (s, lumpedPositionsOk fib.len lumpedKm)

def getAcc (j : Json) : R (List (Acc Float)) := do
  let cd ← fList getF j "cd"
  let pmd ← fList getF j "pmd"
  let pdl ← fList getF j "pdl"
  let lat ← fList getF j "latency"
  return (cd.zip (pmd.zip (pdl.zip lat))).map (fun x => { cd := x.1, pmd := x.2.1, pdl := x.2.2.1, latency := x.2.2.2 })

def jAcc (l : List (Acc Float)) : List (String × Json) :=
  [("cd", jList jF (l.map (·.cd))), ("pmd", jList jF (l.map (·.pmd))), ("pdl", jList jF (l.map (·.pdl))),
   ("latency", jList jF (l.map (·.latency)))]

def allSome : List (Option β) → Option (List β)
  | [] => some []
  | none :: _ => none
  | some x :: rest => (allSome rest).map (x :: ·)

/-- `Fiber.__call__` with Raman off: powers and accumulated figures behind the span -/
def spanH (j : Json) : R Json := do
  let (s, ok) ← getSpan j
  if !ok then return jObj [("error", jStr "NetworkTopologyError")]
  let f ← fList getF j "f"
  let p ← fList getF j "p"
  let beta3 ← fOpt (getList getF) j "beta3"
  let init ← getAcc (← fld j "init")
  let b3s : List (Option Float) := match beta3 with
    | some l => l.map some
    | none => f.map (fun _ => none)
  let outs := allSome ((f.zip p).map (fun x => spanOut s x.1 x.2))
  let contribs := allSome ((f.zip b3s).map (fun x => spanContribution s x.1 x.2))
  match outs, contribs with
  | some o, some c =>
    let acc := (init.zip c).map (fun x => accStep x.1 x.2)
    return jObj ([("pch", jList jF o), ("loss", jOpt jF (spanLossDb s))] ++ jAcc acc)
  | _, _ => return jObj [("error", jStr "SpectrumError")]

inductive El where
  | span (s : Span Float) (beta3 : Option (List Float))
  | lumped (pmd pdl : List Float)

def getEl (j : Json) : R El := do
  match ← fStr j "kind" with
  | "fiber" =>
    let (s, _) ← getSpan j
    return .span s (← fOpt (getList getF) j "beta3")
  | _ => return .lumped (← fList getF j "pmd") (← fList getF j "pdl")

/-- contribution of one element to every channel -/
def elContribs (f : List Float) : El → Option (List (Contribution Float))
  | .span s beta3 =>
    let b3s : List (Option Float) := match beta3 with
      | some l => l.map some
      | none => f.map (fun _ => none)
    allSome ((f.zip b3s).map (fun x => spanContribution s x.1 x.2))
  | .lumped pmd pdl => some ((pmd.zip pdl).map (fun x => lumpedContribution x.1 x.2))

/-- accumulated CD / PMD / PDL / latency over a path of fibres, ROADMs, amplifiers (in the given order) -/
def pathH (j : Json) : R Json := do
  let els ← fList getEl j "elements"
  let f ← fList getF j "f"
  let init ← getAcc (← fld j "init")
  match allSome (els.map (elContribs f)) with
  | none => return jObj [("error", jStr "SpectrumError")]
  | some cs =>
    -- cs : per element, per channel; fold the path channel by channel
    let idx := List.range f.length
    let acc := (init.zip idx).map (fun x => accPath x.1 (cs.filterMap (fun perEl => perEl[x.2]?)))
    return jObj (jAcc acc)

/-- rows ↔ columns of a rectangular matrix given as a list of columns of height `n` -/
def transposeCols (n : Nat) (cols : List (List Float)) : List (List Float) :=
  (List.range n).map (fun a => cols.filterMap (fun c => c[a]?))

def solve (method : String) (order : Nat) (alpha : List Float) (cr : List (List Float)) (pin : List Float)
    (grid : List (Float × Float)) : R (List (List Float)) :=
  match method with
  | "numerical" => pure (transposeCols pin.length (Gnpy.Raman.euler alpha cr pin grid))
  | "perturbative" =>
    if order > 4 then throw "ValueError" else pure (Gnpy.Raman.perturbative order alpha cr pin grid)
  | _ => throw "ValueError"

/-- `RamanSolver.calculate_unidirectional_stimulated_raman_scattering` on a given grid `(z, lumped)` -/
def ramanUniH (j : Json) : R Json := do
  let method ← fStr j "method"
  let order ← fNat j "order"
  let alpha ← fList getF j "alpha"
  let cr ← fList (getList getF) j "cr"
  let pin ← fList getF j "pin"
  let grid ← fList C03.getPair j "grid"
  match solve method order alpha cr pin grid with
  | .error e => return jObj [("error", jStr e)]
  | .ok pw =>
    let ends := if method == "perturbative" then Gnpy.Raman.perturbativeEnd order alpha cr pin grid
                else pw.zip pin |>.map (fun x => Gnpy.Raman.lastD x.2 x.1)
    return jObj [("power", jList (jList jF) pw), ("end", jList jF ends)]

/-- `Fiber.__call__` with Raman on and no pumps: `_create_lumped_losses` on the solver grid `z`, the unidirectional
solver on the powers behind the input connector, the loss of the last grid point, the output connector -/
def ramanFiberH (j : Json) : R Json := do
  let (s, ok) ← getSpan j
  if !ok then return jObj [("error", jStr "NetworkTopologyError")]
  let method ← fStr j "method"
  let order ← fNat j "order"
  let cr ← fList (getList getF) j "cr"
  let z ← fList getF j "z"
  let f ← fList getF j "f"
  let p ← fList getF j "p"
  match allSome (f.map (alphaAt s.fib)) with
  | none => return jObj [("error", jStr "SpectrumError")]
  | some alpha =>
    let p1 := p.map (fun x => applyAttDb x (s.conIn + s.attIn))
    let grid := createLumped s.lumped z
    match solve method order alpha cr p1 grid with
    | .error e => return jObj [("error", jStr e)]
    | .ok pw =>
      let lossLast := (pw.zip p1).map (fun x => Gnpy.Raman.lastD x.2 x.1 / x.2)
      let out := (p1.zip lossLast).map (fun x => applyAttDb (x.1 * x.2) s.conOut)
      return jObj [("pch", jList jF out), ("loss_last", jList jF lossLast),
                   ("grid", jList (fun g : Float × Float => Json.arr #[jF g.1, jF g.2]) grid)]

/-- `numpy.interp(x, xp, fp)` (clamping) and `interp1d(xp, fp)(x)` (error outside) on a table -/
def interpH (j : Json) : R Json := do
  let xs ← fList getF j "x"
  let tab ← fList C03.getPair j "table"
  return jObj [("interp", jList jF (xs.map (fun x => Gnpy.Interp.interp x (Gnpy.Interp.sortKnots tab)))),
               ("interp1d", jList (jOpt jF) (xs.map (fun x => Gnpy.Interp.interp1d x tab)))]

/-- `calculate_spontaneous_raman_scattering`: ASE per channel; every pump comes with its own profile and efficiency column -/
def sprsH (j : Json) : R Json := do
  let temp ← fF j "temperature"
  let z ← fList getF j "z"
  let baud ← fList getF j "baud"
  let f ← fList getF j "f"
  let loss ← fList (getList getF) j "loss"
  let pf ← fList getF j "pump_f"
  let pcr ← fList (getList getF) j "pump_cr"        -- per pump: efficiency onto every channel
  let pprof ← fList (getList getF) j "pump_profile"
  let idx := List.range f.length
  let ase := (idx.zip (baud.zip (f.zip loss))).map (fun x =>
    let i := x.1
    let pumps : List (Gnpy.Raman.PumpAt Float) := (pf.zip (pcr.zip pprof)).map (fun q =>
      { f := q.1, cr := (q.2.1[i]?).getD 0.0, profile := q.2.2 })
    Gnpy.Raman.sprsChannel temp x.2.1 x.2.2.1 x.2.2.2 z pumps)
  return jObj [("ase", jList jF ase)]

def handlers : List (String × Handler) :=
  [("c05.sprs", sprsH), ("c05.interp", interpH), ("c05.span", spanH), ("c05.path", pathH), ("c05.raman_uni", ramanUniH), ("c05.raman_fiber", ramanFiberH)]

end Gnpy.Drv.C05
