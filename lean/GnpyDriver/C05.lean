import GnpyDriver.JsonUtil
import GnpyModel
/- driver handlers for property C05 (ops are named "c05.<name>") -/
open Lean
namespace Gnpy.Drv.C05

def handlers : List (String × Handler) := []

end Gnpy.Drv.C05
