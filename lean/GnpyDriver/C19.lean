import GnpyDriver.JsonUtil
import GnpyModel
/- driver handlers for property C19 (ops are named "c19.<name>") -/
open Lean
namespace Gnpy.Drv.C19

def handlers : List (String × Handler) := []

end Gnpy.Drv.C19
