import GnpyDriver.JsonUtil
import GnpyModel
/- driver handlers for property C19 (ops are named "c19.<name>") -/
open Lean
namespace Gnpy.Drv.C19
open Gnpy.Response Gnpy.HE
open Gnpy.Verdict (Pen)

/-- model tree → wire JSON; floats as {"$f": bits} -/
partial def jToJson : Gnpy.Response.J Float → Json
  | .null => Json.null
  | .bool b => Json.bool b
  | .int i => toJson i
  | .num x => Json.mkObj [("$f", jF x)]
  | .str s => Json.str s
  | .arr l => Json.arr (l.map jToJson).toArray
  | .obj l => Json.arr ((l.map (fun kv => Json.arr #[Json.str kv.1, jToJson kv.2])).toArray.push (Json.str "$obj"))

/-- wire JSON → model tree. Objects arrive as [[k, v], ..., "$obj"] so that key order is preserved. -/
partial def jOfJson : Json → R (Gnpy.Response.J Float)
  | .null => pure .null
  | .bool b => pure (.bool b)
  | .str s => pure (.str s)
  | .num n => match (Json.num n).getInt? with
    | .ok i => pure (.int i)
    | .error e => throw s!"non-integer number on the wire: {e}"
  | .obj kvs =>
    match kvs.toList with
    | [("$f", v)] => do return .num (← getF v)
    | _ => throw "unexpected object on the wire"
  | .arr a =>
    if a.size > 0 && a.back? == some (Json.str "$obj") then do
      let items ← (a.toList.dropLast).mapM (fun kv => do
        match ← getArr kv with
        | [k, v] => return (← getStr k, ← jOfJson v)
        | _ => throw "kv expected")
      return .obj items
    else do
      return .arr (← a.toList.mapM jOfJson)

def getPen (j : Json) : R (Pen Float) :=
  match j with
  | .null => pure .inf
  | v => do return .fin (← getF v)

def getRecv (j : Json) : R (Recv Float) := do
  let pens ← fList (fun p => do return (← fStr p "name", ← fList getPen p "values")) j "penalties"
  return { snr := ← fList getF j "snr", snr01 := ← fList getF j "snr_01nm", osnrAse := ← fList getF j "osnr_ase",
           osnrAse01 := ← fList getF j "osnr_ase_01nm", pens := pens }

def getEl (j : Json) : R El := do return { uid := ← fStr j "uid", isTrx := ← fBool j "is_trx" }

def getNM (j : Json) (k : String) : R (Option (List (Option Int))) := fOpt (getList (getOpt getInt)) j k

def getReq (j : Json) : R (Req Float) := do
  return { id := ← fStr j "id", bidir := ← fBool j "bidir", tsp := ← fStr j "tsp", tspMode := ← fOpt getStr j "tsp_mode",
           blocking := ← fOpt getStr j "blocking", n := ← getNM j "N", m := ← getNM j "M", power := ← fF j "power",
           pathBandwidth := ← fF j "path_bandwidth" }

def getRes (j : Json) : R (Res Float) := do
  return { req := ← getReq (← fld j "req"), path := ← fList getEl j "path", fwd := ← fOpt getRecv j "fwd",
           rev := ← fOpt getRecv j "rev" }

/-- class-D margins of every 2-decimal rounding in `path_metric` of one receiver (units of x*100) -/
def recvTies (r : Recv Float) : List Float :=
  let pm (imp : String) : List Float := match r.pens.lookup imp with
    | none => []
    | some ps => if ps.any (fun p => match p with | .inf => true | .fin _ => false) then []
                 else [tieMargin2 (mean (ps.map (fun p => match p with | .fin v => v | .inf => 0.0)))]
  [tieMargin2 (mean r.snr), tieMargin2 (mean r.snr01), tieMargin2 (mean r.osnrAse), tieMargin2 (mean r.osnrAse01)]
    ++ (match minL r.snr01 with | some v => [tieMargin2 v] | none => [])
    ++ (match maxL r.snr01 with | some v => [tieMargin2 v] | none => [])
    ++ pm "pdl" ++ pm "chromatic_dispersion" ++ pm "pmd"

/-- results_to_json: one response (or error kind) per result, plus the smallest rounding margin -/
def resultsH (j : Json) : R Json := do
  let rs ← fList getRes j "results"
  let out := rs.map (fun r =>
    let ties := (match r.fwd with | some f => recvTies f | none => []) ++ (match r.rev with | some f => recvTies f | none => [])
    let tie := ties.foldl (fun a b => if b < a then b else a) 1.0
    match pathResult r.req r.path r.fwd r.rev with
    | .ok v => jObj [("ok", jToJson v), ("tie", jF tie)]
    | .error e => jObj [("error", jStr e), ("tie", jF tie)])
  return Json.arr out.toArray

def getAReq (pos : Nat) (j : Json) : R (AReq String Float) := do
  return { pos := pos, parts := [← fStr j "id"], key := ← fStr j "key", hasMode := ← fBool j "has_mode",
           bw := ← fF j "bw", n := ← fList (getOpt getInt) j "N", m := ← fList (getOpt getInt) j "M" }

def aggregationH (j : Json) : R Json := do
  let arr ← getArr (← fld j "requests")
  let rs ← (arr.zip (List.range arr.length)).mapM (fun x => getAReq x.2 x.1)
  let out := requestsAggregation rs
  return jList (fun (r : AReq String Float) =>
    jObj [("id", jStr r.idStr), ("parts", jList jStr r.parts), ("pos", jNat r.pos), ("bw", jF r.bw),
          ("N", jList (jOpt jInt) r.n), ("M", jList (jOpt jInt) r.m)]) out

def aggregationDH (j : Json) : R Json := do
  let arr ← getArr (← fld j "requests")
  let rs ← (arr.zip (List.range arr.length)).mapM (fun x => getAReq x.2 x.1)
  let ds ← fList (fun d => do return ({ id := ← fStr d "id", reqs := ← fList getStr d "reqs" } : Disj)) j "disjunctions"
  let (out, dso) := requestsAggregationD rs ds
  return jObj [("requests", jList (fun (r : AReq String Float) =>
                  jObj [("id", jStr r.idStr), ("bw", jF r.bw), ("N", jList (jOpt jInt) r.n), ("M", jList (jOpt jInt) r.m)]) out),
               ("disjunctions", jList (fun (d : Disj) => jObj [("id", jStr d.id), ("reqs", jList jStr d.reqs)]) dso)]

def getModeInfo (j : Json) : R (ModeInfo Float) := do
  return { trxType := ← fStr j "trx_type", format := ← fStr j "format", osnr := ← fF j "osnr",
           baudRate := ← fF j "baud_rate", bitRate := ← fF j "bit_rate", cost := ← jOfJson (← fld j "cost") }

def csvH (j : Json) : R Json := do
  let lib ← fList getModeInfo j "lib"
  let margin ← fF j "margin"
  let resps ← fList jOfJson j "responses"
  let out := resps.map (fun r =>
    match csvRow r lib margin with
    | .ok (row, q, cost) =>
      jObj [("fields", Json.arr ((row.fields.map (fun kv => Json.arr #[jStr kv.1, jToJson kv.2])).toArray)),
            ("nb_quot", jOpt jF q), ("cost", jToJson cost)]
    | .error e => jObj [("error", jStr e)])
  return Json.arr out.toArray

def batchCheckH (j : Json) : R Json := do
  return jOpt jStr (batchCheck (← fList getBool j "trx_known") (← fList getStr j "ids") (← fList getBool j "endpoints_known")
    (← fList getBool j "strict_unknown_include"))

def handlers : List (String × Handler) :=
  [("c19.batch_check", batchCheckH), ("c19.results", resultsH), ("c19.aggregation", aggregationH), ("c19.aggregation_d", aggregationDH), ("c19.csv", csvH)]

end Gnpy.Drv.C19
