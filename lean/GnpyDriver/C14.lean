import GnpyDriver.JsonUtil
import GnpyModel
/- driver handlers for property C14 (ops are named "c14.<name>") -/
open Lean
namespace Gnpy.Drv.C14
open Gnpy.Slots

/-- cells cross the pipe as the string of `str(BitmapValue)`: '1' free, '0' occupied, 'u' unusable -/
def cellsOfString (s : String) : R (List Cell) :=
  s.toList.mapM (fun c => match c with
    | '1' => pure Cell.free
    | '0' => pure Cell.occupied
    | 'u' => pure Cell.unusable
    | _ => throw s!"bad cell {c}")

def stringOfCells (l : List Cell) : String :=
  String.ofList (l.map (fun c => match c with
    | .free => '1'
    | .occupied => '0'
    | .unusable => 'u'))

def jBitmap (b : Bitmap) : Json :=
  jObj [("n_min", jInt b.nMin), ("n_max", jInt b.nMax), ("idx_min", jInt b.idxMin), ("idx_max", jInt b.idxMax),
        ("freq_index", jList jInt b.freqIndex), ("cells", jStr (stringOfCells b.cells)), ("guardband", jInt b.guardband)]

def jOms (o : Oms) : Json :=
  jObj [("bm", jBitmap o.bm), ("nb_channels", jInt o.nbChannels), ("services", jList jStr o.services)]

/-- {"f_min":…, "f_max":…, "grid":…, "guardband":…, "cells": "11u0…" | null} → Bitmap.create -/
def getBitmap (j : Json) : R (Except String Bitmap) := do
  let fMin ← fInt j "f_min"
  let fMax ← fInt j "f_max"
  let grid ← fInt j "grid"
  let gb ← fInt j "guardband"
  let cells ← match optFld j "cells" with
    | none => pure none
    | some c => do pure (some (← cellsOfString (← getStr c)))
  return Bitmap.create fMin fMax grid gb cells

def jErr (e : String) : Json := jObj [("error", jStr e)]

def getEntry (j : Json) : R Entry := do
  return { n := ← fOpt getInt j "N", m := ← fOpt getInt j "M" }

def getPolicy (j : Json) : R Policy := do
  match ← fStr j "policy" with
  | "first_fit" => return .firstFit
  | "last_fit" => return .lastFit
  | _ => return .other

def getRequest (j : Json) : R Request := do
  return { id := ← fStr j "id", preBlocked := ← fBool j "pre_blocked", entries := ← fList getEntry j "slots",
           pathBandwidth := ← fInt j "path_bandwidth", bitRate := ← fInt j "bit_rate", spacing := ← fInt j "spacing",
           pathOms := ← fList getNat j "path_oms" }

def jNM (l : List (Int × Int)) : Json :=
  jObj [("N", jList jInt (l.map (·.1))), ("M", jList jInt (l.map (·.2)))]

def jOutcome : Outcome → Json
  | .skipped => jObj [("kind", jStr "skipped")]
  | .blocked r => jObj [("kind", jStr "blocked"), ("reason", jStr r)]
  | .accepted nm => jObj [("kind", jStr "accepted"), ("nm", jNM nm)]

/-- build the initial OMS list; an error of a constructor is reported as {"error": kind} -/
def getState (j : Json) : R (Except String (List Oms)) := do
  let bs ← fList getBitmap j "oms"
  return bs.mapM (fun b => do
    let bm ← b
    pure ({ bm := bm, nbChannels := 0, services := [] } : Oms))

/-- a history: one `pth_assign_spectrum` call per request; stops at the first exception -/
def history (j : Json) : R Json := do
  let pol ← getPolicy j
  let reqs ← fList getRequest j "requests"
  match ← getState j with
  | .error e => return jObj [("init_error", jStr e)]
  | .ok s0 =>
    let rec go (s : List Oms) (rs : List Request) (acc : List Json) : List Json :=
      match rs with
      | [] => acc.reverse
      | r :: rs =>
        match step pol s r with
        | .error e => (jErr e :: acc).reverse
        | .ok (s', o) => go s' rs (jObj [("outcome", jOutcome o), ("oms", jList jOms s')] :: acc)
    return jObj [("init", jList jOms s0), ("steps", Json.arr (go s0 reqs []).toArray)]

def getBm (j : Json) : R (Except String Bitmap) := do getBitmap (← fld j "bitmap")

def exceptJson (f : α → Json) : Except String α → Json
  | .ok v => jObj [("ok", f v)]
  | .error e => jErr e

/-- spectrum_selection on one bitmap; "n": requested_n or null -/
def select (j : Json) : R Json := do
  let pol ← getPolicy j
  let m ← fInt j "m"
  let n ← fOpt getInt j "n"
  match ← getBm j with
  | .error e => return jObj [("init_error", jStr e)]
  | .ok b =>
    match n with
    | none => return exceptJson (jOpt jInt) (spectrumSelection b m pol)
    | some n => return exceptJson (jOpt jInt) (spectrumSelectionAt b m n)

/-- determine_slot_numbers -/
def dsn (j : Json) : R Json := do
  let n ← fInt j "n"
  let req ← fInt j "required_m"
  let pcm ← fInt j "pcm"
  match ← getBm j with
  | .error e => return jObj [("init_error", jStr e)]
  | .ok b => return exceptJson jInt (determineSlotNumbers b n req pcm)

/-- OMS.assign_spectrum -/
def assign (j : Json) : R Json := do
  let n ← fInt j "n"
  let m ← fInt j "m"
  match ← getBm j with
  | .error e => return jObj [("init_error", jStr e)]
  | .ok b => return exceptJson jBitmap (assignSpectrum b n m)

/-- order_slots and restore_order -/
def order (j : Json) : R Json := do
  let es ← fList getEntry j "slots"
  let o := orderSlots es
  let elems ← fList (getOpt getInt) j "elements"
  return jObj [("N", jList (jOpt jInt) (o.map (·.2.n))), ("M", jList (jOpt jInt) (o.map (·.2.m))),
               ("order", jList jNat (o.map (·.1))),
               ("restored", jList jInt (restoreOrder elems (o.map (·.1))))]

/-- bitmap_sum -/
def bsum (j : Json) : R Json := do
  let a ← cellsOfString (← fStr j "a")
  let b ← cellsOfString (← fStr j "b")
  return jStr (stringOfCells (bitmapSum a b))

/-- compute_spectrum_slot_vs_bandwidth -/
def slots (j : Json) : R Json := do
  return exceptJson (fun p => Json.arr #[jInt p.1, jInt p.2])
    (slotsVsBandwidth (← fInt j "bandwidth") (← fInt j "spacing") (← fInt j "bit_rate"))

def handlers : List (String × Handler) :=
  [("c14.history", history), ("c14.select", select), ("c14.dsn", dsn), ("c14.assign", assign),
   ("c14.order", order), ("c14.bsum", bsum), ("c14.slots", slots)]

end Gnpy.Drv.C14
