import GnpyDriver.JsonUtil
import GnpyModel
/- driver handlers for property C14 (ops are named "c14.<name>") -/
open Lean
namespace Gnpy.Drv.C14

def handlers : List (String × Handler) := []

end Gnpy.Drv.C14
