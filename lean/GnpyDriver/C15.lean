import GnpyDriver.JsonUtil
import GnpyDriver.C14
import GnpyModel
/- driver handlers for property C15 (ops are named "c15.<name>") -/
open Lean
namespace Gnpy.Drv.C15
open Gnpy.Slots Gnpy.Drv.C14

def getBand (j : Json) : R Band := do
  match ← getArr j with
  | [a, b] => return (← getInt a, ← getInt b)
  | _ => throw "band = [f_min, f_max] expected"

def jBand (b : Band) : Json := Json.arr #[jInt b.1, jInt b.2]

def getChain (j : Json) : R Chain := do
  return { els := ← fList getStr j "els", ampBands := ← fList (getList getBand) j "amp_bands" }

def jRec (o : OmsRec) : Json :=
  jObj [("id", jNat o.id), ("els", jList jStr o.els), ("bm", jBitmap o.bm), ("reversed", jOpt jNat o.reversed)]

/-- build_oms_list on chains -/
def build (j : Json) : R Json := do
  let chains ← fList getChain j "chains"
  let nb ← fList getBand j "net_bands"
  let si ← fOpt getBand j "si"
  return exceptJson (jList jRec) (buildOmsList chains nb si)

/-- align_grids on bitmaps -/
def align (j : Json) : R Json := do
  let bs ← fList getBitmap j "bitmaps"
  match bs.mapM id with
  | .error e => return jObj [("init_error", jStr e)]
  | .ok l => return exceptJson (jList jBitmap) (alignGrids l)

/-- find_common_range (f_min / f_max) -/
def common (j : Json) : R Json := do
  let ab ← fList (getList getBand) j "amp_bands"
  let si ← fOpt getBand j "si"
  return jList jBand (commonRange ab si)

/-- create_oms_bitmap -/
def bitmap (j : Json) : R Json := do
  let bands ← fList getBand j "bands"
  return exceptJson (fun c => jStr (stringOfCells c))
    (createOmsBitmap bands (← fInt j "f_min") (← fInt j "f_max") (← fInt j "grid"))

/-- Bitmap.__init__ -/
def create (j : Json) : R Json := do
  return exceptJson jBitmap (← getBitmap j)

/-- Bitmap.insert_left / insert_right -/
def insert (j : Json) : R Json := do
  let side ← fStr j "side"
  let cells ← cellsOfString (← fStr j "new")
  match ← getBm j with
  | .error e => return jObj [("init_error", jStr e)]
  | .ok b => return exceptJson jBitmap (if side == "left" then b.insertLeft cells else b.insertRight cells)

/-- the index conversions -/
def conv (j : Json) : R Json := do
  let f ← fInt j "f"
  let grid ← fInt j "grid"
  let n ← fInt j "n"
  let m ← fInt j "m"
  let a ← fInt j "a"
  let b ← fInt j "b"
  return jObj [("frequency_to_n", jInt (frequencyToN f grid)), ("nvalue_to_frequency", jInt (nToFrequency n grid)),
               ("mvalue_to_slots", Json.arr #[jInt (mToSlots n m).1, jInt (mToSlots n m).2]),
               ("slots_to_m", Json.arr #[jInt (slotsToM a b).1, jInt (slotsToM a b).2]),
               ("m_to_freq", Json.arr #[jInt (mToFreq n m grid).1, jInt (mToFreq n m grid).2])]

def getKind (j : Json) : R NodeKind := do
  match ← getStr j with
  | "R" => return NodeKind.roadm
  | "T" => return NodeKind.trx
  | _ => return NodeKind.line

/-- the graph walk of build_oms_list: {"kind": ["R","T","L",…], "succ": [[…],…]} -> element lists, back references -/
def walkOp (j : Json) : R Json := do
  let g : Net := { kind := ← fList getKind j "kind", succ := ← fList (getList getNat) j "succ" }
  match buildWalks g with
  | .error e => return jErr e
  | .ok l =>
    let nodes := List.range g.size
    return jObj [("ok", jObj [("oms", jList (jList jNat) l),
                               ("oms_id", jList (fun i => jOpt jNat (omsIdOf l i)) nodes),
                               ("oms_list", jList (fun i => jList jNat (omsListOf l i)) nodes),
                               ("reversed", jList (fun i => jOpt jNat (reversedOms l i)) (List.range l.length))])]

def handlers : List (String × Handler) :=
  [("c15.build", build), ("c15.align", align), ("c15.common", common), ("c15.bitmap", bitmap), ("c15.create", create),
   ("c15.insert", insert), ("c15.conv", conv), ("c15.walk", walkOp)]

end Gnpy.Drv.C15
