import GnpyDriver.JsonUtil
import GnpyModel
/- driver handlers for property C15 (ops are named "c15.<name>") -/
open Lean
namespace Gnpy.Drv.C15

def handlers : List (String × Handler) := []

end Gnpy.Drv.C15
