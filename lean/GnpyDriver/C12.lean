import GnpyDriver.JsonUtil
import GnpyModel
/- driver handlers for property C12 (ops are named "c12.<name>") -/
open Lean
namespace Gnpy.Drv.C12

def handlers : List (String × Handler) := []

end Gnpy.Drv.C12
