import GnpyDriver.JsonUtil
import GnpyDriver.C11
import GnpyDriver.C19
import GnpyModel
/- driver handlers for property C12 (ops are named "c12.<name>") -/
open Lean
namespace Gnpy.Drv.C12
open Gnpy.Route

def roadmPred (roadms : List Nat) (n : Nat) : Nat → Bool :=
  let a : Array Bool := roadms.foldl (fun (acc : Array Bool) r => if r < acc.size then acc.set! r true else acc)
    (Array.replicate n false)
  fun v => a.getD v false

/-- pairwise link-disjointness of the returned paths of one synchronisation group -/
def check (j : Json) : R Json := do
  let n ← fNat j "n"
  let roadms ← fList getNat j "roadms"
  let paths ← fList (getList getNat) j "paths"
  let isR := roadmPred roadms n
  let pairs := paths.map (fun p => paths.map (fun q => linkDisjointB isR p q))
  return jObj [("all", jBool (allDisjointB isR paths)),
               ("pairs", jList (jList jBool) pairs),
               ("links", jList (jList (fun (l : Nat × Nat) => Json.arr #[jNat l.1, jNat l.2]))
                          (paths.map (linksOf isR)))]

/-- `isdisjoint` on the short lists the implementation builds, both directions -/
def isdisjointH (j : Json) : R Json := do
  let n ← fNat j "n"
  let roadms ← fList getNat j "roadms"
  let p ← fList getNat j "p"
  let prev ← fList getNat j "p_rev"
  let q ← fList getNat j "q"
  let isR := roadmPred roadms n
  let sp := shortList isR p
  let sr := shortList isR prev
  let sq := shortList isR q
  return jObj [("short_p", jList jNat sp), ("short_q", jList jNat sq), ("short_rev", jList jNat sr),
               ("direct", jNat (isdisjointPy sp sq)), ("reverse", jNat (isdisjointPy sr sq)),
               ("link_disjoint", jBool (linkDisjointB isR p q))]

def getReq (j : Json) : R Req := do
  return { s := ← fNat j "s", t := ← fNat j "t", inc := ← fList getNat j "inc", strict := ← fBool j "strict" }

/-- the pair oracle -/
def oracle (j : Json) : R Json := do
  let g ← C11.getGraph j
  let roadms ← fList getNat j "roadms"
  let r1 ← getReq (← fld j "r1")
  let r2 ← getReq (← fld j "r2")
  let isR := roadmPred roadms g.n
  let c1 := candPaths g r1.s r1.t
  let c2 := candPaths g r2.s r2.t
  return jObj [("exists", jBool (disjointOracle g isR r1 r2)),
               ("ncand1", jNat c1.length), ("ncand2", jNat c2.length),
               ("nacc1", jNat (c1.filter (acceptable r1)).length), ("nacc2", jNat (c2.filter (acceptable r2)).length)]

/-- steps 2-5 over candidate indices.
  ncand: [k_r per request]; groups: [[gid, [r,...]],...]; reqs: request indices in `pathreqlist_disjt` order;
  dis: [[r, r', [[bool per (i of r, j of r')]]]] ; ok: [[bool per candidate] per request]; strict/hasinc: [bool per request] -/
def select (j : Json) : R Json := do
  let ncand ← fList getNat j "ncand"
  let groups ← fList (fun g => do
      match ← getArr g with
      | [a, b] => return (← getNat a, ← getList getNat b)
      | _ => throw "group [id, [reqs]] expected") j "groups"
  let reqs ← fList getNat j "reqs"
  let disL ← fList (fun d => do
      match ← getArr d with
      | [a, b, m] => return ((← getNat a, ← getNat b), (← getList (getList getBool) m).map (·.toArray) |>.toArray)
      | _ => throw "dis [r, r', matrix] expected") j "dis"
  let ok ← fList (getList getBool) j "ok"
  let strict ← fList getBool j "strict"
  let hasinc ← fList getBool j "hasinc"
  let vid ← fList (getList getNat) j "vid"
  let vidA := (vid.map (·.toArray)).toArray
  let nc := ncand.toArray
  let okA := (ok.map (·.toArray)).toArray
  let stA := strict.toArray
  let hiA := hasinc.toArray
  let disF := fun (c c' : Cand) =>
    match disL.lookup (c.1, c'.1) with
    | some m => (m.getD c.2 #[]).getD c'.2 false
    | none =>
      match disL.lookup (c'.1, c.1) with
      | some m => (m.getD c'.2 #[]).getD c.2 false
      | none => false
  let inp : SelInput := { ncand := fun r => nc.getD r 0, dis := disF,
                          okInc := fun c => (okA.getD c.1 #[]).getD c.2 false,
                          hasStrict := fun r => stA.getD r false, hasInc := fun r => hiA.getD r false,
                          vid := fun c => (vidA.getD c.1 #[]).getD c.2 0 }
  let c2 := groups.map (fun g => (g.1, step2 inp g.2))
  let c3 := step3 inp groups reqs c2
  let c4 := c3.map (fun (d, combos) => (d, step4 inp combos))
  let res := selectDisjoint inp groups reqs
  return jObj [("chosen", jOpt (jList (fun (c : Cand) => Json.arr #[jNat c.1, jNat c.2])) res),
               ("n2", jList jNat (c2.map (·.2.length))), ("n3", jList jNat (c3.map (·.2.length))),
               ("n4", jList jNat (c4.map (·.2.length)))]

def getDisj (d : Json) : R Gnpy.Response.Disj := do
  return { id := ← fStr d "id", reqs := ← fList getStr d "reqs" }

def jDisj (d : Gnpy.Response.Disj) : Json := jObj [("id", jStr d.id), ("reqs", jList jStr d.reqs)]

/-- `deduplicate_disjunctions` -/
def dedup (j : Json) : R Json := do
  let ds ← fList getDisj j "disjunctions"
  return jList jDisj (Gnpy.Sync.deduplicateDisjunctions ds)

/-- `requests_aggregation(rqs, dsjn)` (group G's model) + the name every original id ends up with -/
def aggregation (j : Json) : R Json := do
  let arr ← getArr (← fld j "requests")
  let rs ← (arr.zip (List.range arr.length)).mapM (fun x => C19.getAReq x.2 x.1)
  let ds ← fList getDisj j "disjunctions"
  let out := Gnpy.Response.requestsAggregationD rs ds
  let tr := Gnpy.Sync.requestsAggregationT rs ds
  return jObj [("requests", jList (fun (r : Gnpy.Response.AReq String Float) => jStr r.idStr) out.1),
               ("parts", jList (fun (r : Gnpy.Response.AReq String Float) => jList jStr r.parts) out.1),
               ("disjunctions", jList jDisj out.2),
               ("traced_same", jBool (tr.1.2.map (fun d => (d.id, d.reqs)) == out.2.map (fun d => (d.id, d.reqs)))),
               ("renamed", jList (fun (r : Gnpy.Response.AReq String Float) =>
                  Json.arr #[jStr r.idStr, jStr (tr.2 r.idStr)]) rs)]

def handlers : List (String × Handler) :=
  [("c12.dedup", dedup), ("c12.aggregation", aggregation), ("c12.check", check), ("c12.isdisjoint", isdisjointH), ("c12.oracle", oracle), ("c12.select", select)]

end Gnpy.Drv.C12
