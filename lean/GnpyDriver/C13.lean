import GnpyDriver.JsonUtil
import GnpyModel
/- driver handlers for property C13 (ops are named "c13.<name>") -/
open Lean
namespace Gnpy.Drv.C13
open Gnpy.Verdict Gnpy.HE

/-- transpose a list of per-contribution (optional) per-channel lists into per-channel argument lists -/
def argsOfChannel (contribs : List (Option (List Float))) (i : Nat) : List (Option Float) :=
  contribs.map (fun c => match c with | none => none | some l => some (l.getD i 0.0))

def getContribs (j : Json) : R (List (Option (List Float))) := getList (getOpt (getList getF)) j

structure RawRx where
  osnrAse : List Float
  osnrAse01 : List Float
  snr : List Float
  snr01 : List Float
  baud : List Float

def getRaw (j : Json) : R RawRx := do
  return { osnrAse := ← fList getF j "raw_osnr_ase", osnrAse01 := ← fList getF j "raw_osnr_ase_01nm",
           snr := ← fList getF j "raw_snr", snr01 := ← fList getF j "raw_snr_01nm", baud := ← fList getF j "baud" }

def RawRx.channels (r : RawRx) : List (Rx Float) :=
  (List.range r.snr01.length).map (fun i =>
    calcSnr (r.osnrAse.getD i 0.0) (r.osnrAse01.getD i 0.0) (r.snr.getD i 0.0) (r.snr01.getD i 0.0) (r.baud.getD i 0.0))

def jRxs (rxs : List (Rx Float)) : Json :=
  jObj [("osnr_ase", jList jF (rxs.map (·.osnrAse))), ("osnr_ase_01nm", jList jF (rxs.map (·.osnrAse01))),
        ("snr", jList jF (rxs.map (·.snr))), ("snr_01nm", jList jF (rxs.map (·.snr01)))]

/-- successive update_snr calls on one receiver: state after every call -/
def updateSnrH (j : Json) : R Json := do
  let raw ← getRaw j
  let calls ← fList getContribs j "calls"
  let mut rxs := raw.channels
  let mut out : List Json := []
  for c in calls do
    rxs := (List.range rxs.length).map (fun i =>
      match rxs[i]? with
      | some r => updateSnr r (argsOfChannel c i)
      | none => calcSnr 0.0 0.0 0.0 0.0 0.0)
    out := out ++ [jRxs rxs]
  return Json.arr out.toArray

def getPair (j : Json) : R (Float × Float) := do
  match ← getArr j with
  | [a, b] => return (← getF a, ← getF b)
  | _ => throw "pair expected"

def jPen : Pen Float → Json
  | .fin v => jF v
  | .inf => Json.null

/-- a penalties dict in insertion order: [[impairment-values per channel], table] per impairment -/
structure PenIn where
  values : List Float
  table : List (Float × Float)

def getPenIn (j : Json) : R PenIn := do
  return { values := ← fList getF j "values", table := ← fList getPair j "table" }

def channelPens (ps : List PenIn) (i : Nat) : List (Pen Float) :=
  ps.map (fun p => interpPenalty (p.values.getD i 0.0) p.table)

def calcPenaltiesH (j : Json) : R Json := do
  let ps ← fList getPenIn j "penalties"
  let n ← fNat j "nch"
  let per := ps.map (fun p => (List.range n).map (fun i => interpPenalty (p.values.getD i 0.0) p.table))
  let tot := (List.range n).map (fun i => totalPenalty (channelPens ps i))
  return jObj [("per", jList (jList jPen) per), ("total", jList jPen tot)]

def normaliseH (j : Json) : R Json := do
  let es ← fList getPair j "entries"
  let t := normalise es
  return jList (fun (p : Float × Float) => Json.arr #[jF p.1, jF p.2]) t

/-- receiver evaluation of one direction: update_snr(args) ; calc_penalties ; min metric -/
structure Eval where
  rxs : List (Rx Float)
  total : List (Pen Float)
  minM : Option Float

def evalRx (raw : RawRx) (contribs : List (Option (List Float))) (ps : List PenIn) : Eval :=
  let chans := raw.channels
  let rxs := (List.range chans.length).map (fun i =>
    match chans[i]? with
    | some r => updateSnr r (argsOfChannel contribs i)
    | none => calcSnr 0.0 0.0 0.0 0.0 0.0)
  let total := (List.range chans.length).map (fun i => totalPenalty (channelPens ps i))
  let ms := (rxs.zip total).map (fun x => metric x.1.snr01 x.2)
  { rxs, total, minM := minMetric ms }

def jEval (e : Eval) : Json :=
  jObj [("rx", jRxs e.rxs), ("total", jList jPen e.total), ("min", jOpt jF e.minM),
        ("round", jOpt jF (e.minM.map round2)),
        ("tie", jOpt jF (e.minM.map tieMargin2))]

structure Dir where
  raw : RawRx
  contribs : List (Option (List Float))
  pens : List PenIn

def getDir (j : Json) : R Dir := do
  return { raw := ← getRaw j, contribs := ← getContribs (← fld j "contribs"),
           pens := ← fList getPenIn j "penalties" }

/-- fixed-mode verdict of a request (forward, optionally reverse) -/
def fixedH (j : Json) : R Json := do
  let osnr ← fF j "osnr"
  let margin ← fF j "margin"
  let bidir ← fBool j "bidir"
  let fwd ← getDir (← fld j "fwd")
  let ef := evalRx fwd.raw fwd.contribs fwd.pens
  let pf := passFixed ef.minM osnr margin
  let (er, pr) ← match optFld j "rev" with
    | some rj => do
      let rv ← getDir rj
      let e := evalRx rv.raw rv.contribs rv.pens
      pure (some e, passFixed e.minM osnr margin)
    | none => pure (none, true)
  let reason := fixedReason pf bidir pr
  return jObj [("fwd", jEval ef), ("rev", jOpt jEval er), ("pass_fwd", jBool pf), ("pass_rev", jBool pr),
               ("reason", jOpt jStr reason.str), ("thr", jF (osnr + margin))]

/-- numeric attributes of a mode -/
structure ModeNum where
  m : Mode
  osnr : Float
  txOsnr : Float
  tables : List (String × List (Float × Float))

def getTable (j : Json) : R (String × List (Float × Float)) := do
  return (← fStr j "name", ← fList getPair j "table")

def getMode (j : Json) : R ModeNum := do
  return { m := { id := ← fNat j "id", baud := ← fInt j "baud", bitRate := ← fInt j "bit_rate",
                  minSpacing := ← fInt j "min_spacing", offset := ← fInt j "offset" },
           osnr := ← fF j "osnr", txOsnr := ← fF j "tx_osnr", tables := ← fList getTable j "tables" }

/-- one line propagation (what the receiver saw for one (baud, offset) pair) -/
structure LineProp where
  pair : Int × Int
  raw : RawRx
  roadm : List (Option (List Float))
  cd : List Float
  pmd : List Float
  pdl : List Float

def getProp (j : Json) : R LineProp := do
  return { pair := (← fInt j "baud_hz", ← fInt j "offset"), raw := ← getRaw j,
           roadm := ← getContribs (← fld j "roadm"), cd := ← fList getF j "cd", pmd := ← fList getF j "pmd",
           pdl := ← fList getF j "pdl" }

def pensFor (p : LineProp) (md : ModeNum) : List PenIn :=
  md.tables.map (fun t =>
    { values := (if t.1 == "chromatic_dispersion" then p.cd else if t.1 == "pmd" then p.pmd else p.pdl),
      table := t.2 })

/-- judge mode `md` on propagation `p`: the body of the inner loop (append tx, update, delete, penalties) -/
def judge (p : LineProp) (md : ModeNum) : Eval :=
  let nch := p.raw.snr01.length
  let (args, _) := loopStep p.roadm (List.replicate nch md.txOsnr)
  evalRx p.raw args (pensFor p md)

def jOutcome (props : List LineProp) (mds : List ModeNum) (o : Outcome) : Json :=
  let fig (m : Mode) (pr : Int × Int) : Json :=
    match props.find? (fun p => p.pair == pr), mds.find? (fun d => d.m.id == m.id) with
    | some p, some d => jEval (judge p d)
    | _, _ => Json.null
  match o with
  | .served m pr => jObj [("kind", jStr "served"), ("mode", jNat m.id), ("prop", Json.arr #[jInt pr.1, jInt pr.2]),
                          ("figures", fig m pr)]
  | .noFeasibleMode m pr => jObj [("kind", jStr "NO_FEASIBLE_MODE"), ("mode", jNat m.id),
                                  ("prop", Json.arr #[jInt pr.1, jInt pr.2]), ("figures", fig m pr)]
  | .noBaud => jObj [("kind", jStr "NO_FEASIBLE_BAUDRATE_WITH_SPACING"), ("mode", Json.null), ("prop", Json.null),
                     ("figures", Json.null)]

/-- prefix of `l` up to and including the first element satisfying `p` -/
def takeUntilIncl (p : α → Bool) : List α → List α
  | [] => []
  | x :: xs => if p x then [x] else x :: takeUntilIncl p xs

/-- the mode loop: as it is in the code and as repaired; plus every (propagation, mode) judgement with its
class-D margins -/
def selectH (j : Json) : R Json := do
  let mds ← fList getMode j "modes"
  let props ← fList getProp j "props"
  let spacing ← fInt j "spacing"
  let margin ← fF j "margin"
  let modes := mds.map (·.m)
  let feas (pr : Int × Int) (m : Mode) : Bool :=
    match props.find? (fun p => p.pair == pr), mds.find? (fun d => d.m.id == m.id) with
    | some p, some d => passAuto (judge p d).minM d.osnr margin
    | _, _ => false
  let cur := selectModeOld feas modes spacing
  let rep := selectMode feas modes spacing
  let allCur := (pairsDesc modes spacing).flatMap (fun pr => (modesOf modes spacing pr.1).map (fun m => (pr, m)))
  let explCur := takeUntilIncl (fun (x : (Int × Int) × Mode) => feas x.1 x.2) allCur
  let explRep := takeUntilIncl (fun (m : Mode) => feas (own m) m) (modeOrder modes spacing)
  let judgements := props.flatMap (fun p => (mds.filter (fun d => d.m.baud == p.pair.1)).map (fun d =>
    let e := judge p d
    jObj [("prop", Json.arr #[jInt p.pair.1, jInt p.pair.2]), ("mode", jNat d.m.id), ("min", jOpt jF e.minM),
          ("round", jOpt jF (e.minM.map round2)), ("tie", jOpt jF (e.minM.map tieMargin2)),
          ("thr", jF (d.osnr + margin)), ("pass", jBool (passAuto e.minM d.osnr margin))]))
  return jObj [("current", jOutcome props mds cur), ("repaired", jOutcome props mds rep),
               ("pairs", jList (fun (p : Int × Int) => Json.arr #[jInt p.1, jInt p.2]) (pairsDesc modes spacing)),
               ("order", jList jNat ((modeOrder modes spacing).map (·.id))),
               ("explored_current", jList (fun (x : (Int × Int) × Mode) => jNat x.2.id) explCur),
               ("explored_repaired", jList (fun (m : Mode) => jNat m.id) explRep),
               ("judgements", Json.arr judgements.toArray)]

/-- request-level reason after an automatic selection and the reverse verdict -/
def autoReasonH (j : Json) : R Json := do
  let kind ← fStr j "kind"
  let bidir ← fBool j "bidir"
  let revPass ← fBool j "rev_pass"
  let dummy : Mode := { id := 0, baud := 0, bitRate := 0, minSpacing := 0, offset := 0 }
  let o : Outcome := if kind == "served" then .served dummy (0, 0)
                     else if kind == "NO_FEASIBLE_MODE" then .noFeasibleMode dummy (0, 0) else .noBaud
  return jOpt jStr (autoReason o bidir revPass).str

/-- contributions list handed to update_snr in `propagate` and in each iteration of the mode loop -/
def contribsH (j : Json) : R Json := do
  let els ← fList (getOpt getF) j "path"      -- the roadm-osnr value of a ROADM crossing (null = None)
  let kinds ← fList getBool j "is_roadm"
  let path : List (PathEl Float) := (kinds.zip els).map (fun x => if x.1 then .roadm x.2 else .other)
  let txs ← fList getF j "txs"
  let jo := jList (jOpt jF)
  let tx0 := txs.headD 0.0
  return jObj [("propagate", jo (propagateArgs path tx0)),
               ("loop", jList jo (loopArgs (roadmOsnr path) txs))]

def getPT (s : String) : R Gnpy.Roadm.PType :=
  match s with
  | "express" => pure .express
  | "add" => pure .add
  | "drop" => pure .drop
  | _ => throw s!"bad path type {s}"

def getBand (j : Json) : R (Gnpy.Roadm.Band Float) := do
  match ← getArr j with
  | [lo, hi, v] => return { lo := ← getOpt getF lo, hi := ← getF hi, value := ← getOpt getF v }
  | _ => throw "band = [lo|null, hi, value|null]"

def getCrossing (j : Json) : R (Crossing Float) := do
  let ps ← fList (fun p => do
    return ({ id := ← fNat p "id", ptype := ← getPT (← fStr p "ptype"), bands := ← fList getBand p "bands" } :
      Gnpy.Roadm.Profile Float)) j "profiles"
  return { profiles := ps, user := ← fOpt getNat j "user", ptype := ← getPT (← fStr j "ptype"),
           addDropOsnr := ← fF j "add_drop_osnr" }

/-- per carrier: the arguments of the receiver's update_snr built from the ROADM crossings of the path -/
def crossingsH (j : Json) : R Json := do
  let cs ← fList getCrossing j "crossings"
  let freqs ← fList getF j "freqs"
  let tx ← fF j "tx_osnr"
  let out := freqs.map (fun f => match receiverArgs cs f tx with
    | .ok l => jList (jOpt jF) l
    | .error e => jStr e)
  return Json.arr out.toArray

def requestCheckH (j : Json) : R Json := do
  return jOpt jStr (requestCheck (← fBool j "trx_known") (← fBool j "mode_given") (← fBool j "mode_found")
    (← fInt j "baud") (← fInt j "min_spacing") (← fInt j "spacing"))

def handlers : List (String × Handler) :=
  [("c13.crossings", crossingsH), ("c13.request_check", requestCheckH), ("c13.update_snr", updateSnrH), ("c13.calc_penalties", calcPenaltiesH), ("c13.normalise", normaliseH),
   ("c13.fixed", fixedH), ("c13.select", selectH), ("c13.auto_reason", autoReasonH), ("c13.contribs", contribsH)]

end Gnpy.Drv.C13
