import GnpyDriver.JsonUtil
import GnpyModel
/- driver handlers for property C13 (ops are named "c13.<name>") -/
open Lean
namespace Gnpy.Drv.C13

def handlers : List (String × Handler) := []

end Gnpy.Drv.C13
