import GnpyDriver.JsonUtil
import GnpyModel
/- driver handlers for property C04 (ops are named "c04.<name>") -/
open Lean
namespace Gnpy.Drv.C04

def handlers : List (String × Handler) := []

end Gnpy.Drv.C04
