import GnpyDriver.JsonUtil
import GnpyModel
/- driver handlers for property C04 (ops are named "c04.<name>") -/
open Lean
namespace Gnpy.Drv.C04
open Gnpy.Edfa

def negInf : Float := -(1.0 / 0.0)

/-- an extended-dB noise figure as a float (`none` = `-inf`) -/
def jNf (x : Option Float) : Json := jF (x.getD negInf)

def getModel (j : Json) : R (NfModel Float) := do
  let k ← fStr j "kind"
  if k == "variable_gain" then
    return .variableGain (← fF j "nf1") (← fF j "nf2") (← fF j "delta_p")
  else if k == "fixed_gain" then return .fixedGain (← fF j "nf0")
  else if k == "openroadm" then return .openroadm (← fList getF j "coef")
  else if k == "openroadm_preamp" then return .openroadmPreamp
  else if k == "openroadm_booster" then return .openroadmBooster
  else if k == "advanced_model" then return .advanced (← fList getF j "coef")
  else throw s!"unknown nf model {k}"

def getStage (j : Json) : R (Stage Float) := do
  return { model := ← getModel (← fld j "model"), gainMin := ← fF j "gain_min", gainFlatmax := ← fF j "gain_flatmax" }

def getAmpNf (j : Json) : R (AmpNf Float) := do
  let k ← fStr j "kind"
  if k == "single" then return .single (← getStage (← fld j "stage"))
  else if k == "dual" then return .dual (← getStage (← fld j "pre")) (← getStage (← fld j "boost"))
  else throw s!"unknown amp nf kind {k}"

def getAmp (j : Json) : R (Amp Float) := do
  return { fMin := ← fNat j "fmin", fMax := ← fNat j "fmax", gainFlatmax := ← fF j "gain_flatmax",
           pMax := ← fF j "p_max", nf := ← getAmpNf (← fld j "nf"), dgt := ← fList getF j "dgt",
           gainRipple := ← fList getF j "gain_ripple", nfRipple := ← fList getF j "nf_ripple" }

def getOper (j : Json) : R (Oper Float) := do
  return { gain := ← fF j "gain", tilt := ← fF j "tilt", inVoa := ← fOpt getF j "in_voa", outVoa := ← fF j "out_voa" }

def getChan (j : Json) : R (Chan Float) := do
  match ← getArr j with
  | [f, s, b, p] => return { f := ← getNat f, slot := ← getNat s, baud := ← getF b, p := ← getF p }
  | _ => throw "channel = [f, slot, baud, p]"

def jOut (o : Out Float) : Json :=
  jObj [("kept", jList jNat o.kept), ("pin_db", jF o.pinDb), ("eff", jF o.effGain), ("att_in", jF o.attIn),
        ("nf", jList jNf o.nf), ("ase", jList jF o.ase), ("gprofile", jList jF o.gprofile),
        ("margin", jF o.margin), ("pch", jList jF o.pch), ("pout_db", jF o.poutDb)]

/-- one or several consecutive calls of the same amplifier object: the effective gain is carried over -/
def callH (j : Json) : R Json := do
  let a ← getAmp (← fld j "amp")
  let o ← getOper (← fld j "oper")
  let seqs ← fList (getList getChan) j "calls"
  -- persist = the code keeps the clamped value in `effective_gain` for the next call (current behaviour)
  let persist := (← fOpt getBool j "persist").getD true
  let mut g := o.gain
  let mut outs : List Json := []
  for cs in seqs do
    match call a { o with gain := g } cs with
    | none => outs := outs ++ [Json.null]
    | some r =>
      if persist then g := r.effGain
      outs := outs ++ [jOut r]
  return Json.arr outs.toArray

def fabs (x : Float) : Float := Float.abs x

/-- one crossing of a Multiband_amplifier: per-amplifier outputs in amplifier order (null where an amplifier
received no channel), or {"error"} when none did -/
def multiH (j : Json) : R Json := do
  let amps ← fList getAmp j "amps"
  let opers ← fList getOper j "opers"
  let cs ← fList getChan j "chans"
  match multiCall (amps.zip opers) cs with
  | none => return jObj [("error", jStr "ValueError")]
  | some _ => return jObj [("outs", Json.arr ((amps.zip opers).map (fun ao => jOpt jOut (call ao.1 ao.2 cs))).toArray)]

def estimateH (j : Json) : R Json := do
  let gmin ← fF j "gmin"
  let gmax ← fF j "gmax"
  let nfmin ← fF j "nfmin"
  let nfmax ← fF j "nfmax"
  let c := estCore gmin gmax nfmin nfmax
  -- distance of every thresholded quantity to its threshold (class D guard), following the order of the checks
  let m0 := [fabs (nfmin + 10.0), fabs (nfmax + 10.0)]
  let m1 := [fabs (c.nf1 - 4.0), fabs (c.nf2raw - (c.nf1 + 0.3)), fabs (c.nf2raw - (c.nf1 + 2.0))]
  let m2 := if c.inRange then [] else [fabs (c.dp - 1.0), fabs (c.dp - 11.0)]
  let m3 := [fabs (fabs (nfmin - c.calcMin) - 0.01), fabs (fabs (nfmax - c.calcMax) - 0.01)]
  let r := estimateNfModel gmin gmax nfmin nfmax
  let relevant := match r with
    | .error .nfMin => [m0.head!]
    | .error .nfMax => m0
    | .error .zeroDiv => m0
    | .error .firstCoil => m0 ++ [m1.head!]
    | .error .deltaP => m0 ++ m1 ++ m2
    | .error .calcMin => m0 ++ m1 ++ m2 ++ [m3.head!]
    | _ => m0 ++ m1 ++ m2 ++ m3
  let margin := relevant.foldl (fun a b => if b < a then b else a) 1.0
  let base := [("margin", jF margin), ("clipped", jBool (!c.inRange))]
  match r with
  | .error e => return jObj (base ++ [("err", jStr e.toString)])
  | .ok (n1, n2, dp) => return jObj (base ++ [("nf1", jF n1), ("nf2", jF n2), ("delta_p", jF dp)])

/-- `_calc_nf(True)` at a given effective gain and load (what `edfa_nf` uses) -/
def nfH (j : Json) : R Json := do
  let a ← getAmpNf (← fld j "nf")
  let ld : Load Float := { pinDb := ← fF j "pin_db", nch := ← fF j "nch", slotWidth := ← fF j "slot_width" }
  let (nf, pad) := ampNfAvg a ld (← fF j "gain")
  return jObj [("nf", jNf nf), ("att_in", jF pad)]

def fromJsonH (j : Json) : R Json := do
  let td ← fOpt getStr j "type_def"
  let keys ← fList getStr j "keys"
  let dual ← fOpt (getList getF) j "dual_gain_mins"
  match fromJsonKind td (fun k => keys.contains k) (← fBool j "has_cfg") (← fOpt getStr j "est") with
  | .ok k =>
    match dual with
    | some [g, gp] => if k == "dual_stage" && !dualStageOk g gp then return jObj [("err", jStr "EquipmentConfigError")]
                      else return jObj [("ok", jStr k)]
    | _ => return jObj [("ok", jStr k)]
  | .error e => return jObj [("err", jStr e)]

def getLimits (j : Json) : R (StageLimits Float) := do
  return { pMax := ← fF j "p_max", gainFlatmax := ← fF j "gain_flatmax", gainMin := ← fF j "gain_min" }

/-- `_update_dual_stage`: limits of a dual-stage entry from its two stage entries -/
def dualH (j : Json) : R Json := do
  match updateDualStage (← getLimits (← fld j "pre")) (← getLimits (← fld j "boost")) (← fF j "gain_min") with
  | none => return jObj [("error", jStr "EquipmentConfigError")]
  | some d => return jObj [("p_max", jF d.pMax), ("gain_flatmax", jF d.gainFlatmax), ("gain_min", jF d.gainMin)]

def clampH (j : Json) : R Json := do
  return jF (callSeq (← fF j "set") (← fF j "p_max") (← fList getF j "pins"))

def handlers : List (String × Handler) :=
  [("c04.call", callH), ("c04.estimate", estimateH), ("c04.nf", nfH), ("c04.fromjson", fromJsonH),
   ("c04.clamp", clampH), ("c04.multi", multiH), ("c04.dual", dualH)]

end Gnpy.Drv.C04
