import GnpyDriver.JsonUtil
import GnpyDriver.C08
import GnpyModel
/- driver handlers for property C09 (ops are named "c09.<name>") -/
open Lean
namespace Gnpy.Drv.C09
open Gnpy.Chain Gnpy.Drv.C08

def getCfg (j : Json) : R (Cfg Float) := do
  return { powerMode := ← fBool j "power_mode", dpLo := ← fF j "dp_lo", dpHi := ← fF j "dp_hi", dpStep := ← fF j "dp_step",
           lossRef := ← fF j "loss_ref", slope := ← fF j "slope", voaMargin := ← fF j "voa_margin",
           voaStep := ← fF j "voa_step", extGain := ← fF j "ext_gain" }

def getSel (j : Json) : R (Sel Float) := do
  return { pMax := ← fF j "p_max", gainFlatmax := ← fF j "gain_flatmax", outVoaAuto := ← fBool j "out_voa_auto" }

def fmin (a b : Float) : Float := if a < b then a else b

/-- distance of `y` to the nearest rounding tie of `rint` -/
def rintMargin (y : Float) : Float := Float.abs ((y - y.floor) - 0.5)

/-- class-D margin of `round2float x step` -/
def r2fMargin (x step : Float) : Float :=
  let s := round1 step
  let m0 := rintMargin (step * 10.0)
  if hundredth ≤ s then
    let y := x / s
    let z := Rint.rint y * s * 10.0
    fmin m0 (fmin (rintMargin y) (rintMargin z))
  else fmin m0 (rintMargin (x * 100.0))

def jAmpOut (o : AmpOut Float) (margin : Float) : Json :=
  jObj [("gain", jF o.gain), ("delta_p", jOpt jF o.deltaP), ("dp_int", jF o.dpInt), ("out_voa", jF o.outVoa),
        ("in_voa", jF o.inVoa), ("target_pch", jOpt jF o.targetPch), ("ret_dp", jF o.retDp), ("ret_voa", jF o.retVoa),
        ("reduction", jF o.reduction), ("dp0", jF o.dp0), ("gain0", jF o.gain0), ("power_target", jF o.powerTarget),
        ("margin", jF margin)]

/-- margins of the roundings each `ampStep` performs: (delta_p / VOA rounding, target_pch rounding) -/
def marginsOf (c : Cfg Float) (pref prefTotal : Float) : Float → Float → List (AmpIn Float) → List (Float × Float)
  | _, _, [] => []
  | pd, pv, a :: rest =>
    let o := ampStep c pref prefTotal pd pv a
    let m1 := if a.user.deltaP.isNone && !a.nextIsRoadm then r2fMargin ((a.nextLoss - c.lossRef) * c.slope) c.dpStep
              else 1.0
    let m2 := if a.user.outVoa.isNone && c.powerMode && a.sel.outVoaAuto then
                r2fMargin (pmin (a.sel.pMax - o.powerTarget) (a.sel.gainFlatmax - (o.gain0 + o.reduction))) c.voaStep
              else 1.0
    let m3 := match o.deltaP, a.user.deltaP with
      | some _, some ud => rintMargin ((ud + pref) * 100.0)
      | some d, none => rintMargin ((d + pref) * 100.0)
      | none, _ => 1.0
    (fmin m1 m2, m3) :: marginsOf c pref prefTotal o.retDp o.retVoa rest

/-- round2float alone -/
def r2f (j : Json) : R Json := do
  let x ← fF j "x"
  let step ← fF j "step"
  return jObj [("value", jF (round2float x step)), ("margin", jF (r2fMargin x step))]

/-- target_power alone -/
def target (j : Json) : R Json := do
  let c ← getCfg j
  let nl ← fF j "next_loss"
  let isR ← fBool j "next_is_roadm"
  return jObj [("value", jF (targetPower c isR nl)),
               ("margin", jF (if isR then 1.0 else r2fMargin ((nl - c.lossRef) * c.slope) c.dpStep))]

/-- complete design of one chain: completion of the line (C08 model) then the amplifier recurrence -/
def design (j : Json) : R Json := do
  let ch ← getChain (← fld j "chain")
  let sc ← getSplit j
  let c ← getCfg j
  if (← fNat j "dp_range_len") != 3 then
    -- target_power indexes dp_range[2]: IndexError -> ConfigurationError, as soon as one amplifier needs the rule
    return jObj [("error", jStr "ConfigurationError")]
  if ch.line.any (fun e => match e with
    | .fiber _ p => splitRaises sc p
    | _ => false) then return jObj [("error", jStr "NetworkTopologyError")]
  let missing := addMissingLine sc ch
  let withConn := addConn (← fF j "con_in") (← fF j "con_out") (← fF j "eol") missing
  if (runs withConn).any padRaises then return jObj [("error", jStr "TypeError")]
  let line := addPadding (← fF j "padding") withConn
  if designRaises line then return jObj [("error", jStr "TypeError")]
  let sels ← fList getSel j "sels"
  let pref ← fF j "pref"
  -- the design load: either given (pref_total) or derived from the reference channel count / the design band
  let prefTotal ← match optFld j "band_spacing" with
    | some _ => do
      let nb := designChannels (← fOpt getInt j "nb_ref") (← fInt j "band_fmin") (← fInt j "band_fmax") (← fInt j "band_spacing")
      pure (prefTotalDb pref nb)
    | none => fF j "pref_total"
  let srcPower ← fF j "src_power"
  let dstIsRoadm := ch.dstKind == .roadm
  let inputs := ampInputs dstIsRoadm line sels
  let outs := designAmps c pref prefTotal (srcPower - pref) 0.0 inputs
  let ms := marginsOf c pref prefTotal (srcPower - pref) 0.0 inputs
  let disp ← fF j "display_power"
  let refs := refIns pref disp line outs
  let amps := (line.filter (fun e => e.isEdfa)).map Elem.uid
  return jObj [("amps", jList jStr amps),
               ("outs", jList (fun om => jObj [("o", jAmpOut om.1 om.2.1), ("m_target", jF om.2.2)]) (outs.zip ms)),
               ("inputs", jList (fun a => jObj [("node_loss", jF a.nodeLoss), ("next_loss", jF a.nextLoss),
                                                ("next_is_roadm", jBool a.nextIsRoadm)]) inputs),
               ("line", jList jElem line), ("ref_in", jList jF refs), ("pref_total", jF prefTotal)]

def handlers : List (String × Handler) := [("c09.r2f", r2f), ("c09.target", target), ("c09.design", design)]

end Gnpy.Drv.C09
