import GnpyDriver.JsonUtil
import GnpyModel
/- driver handlers for property C09 (ops are named "c09.<name>") -/
open Lean
namespace Gnpy.Drv.C09

def handlers : List (String × Handler) := []

end Gnpy.Drv.C09
