import GnpyModel.Response
/-
Sync.lean — C12: what happens to the synchronisation vectors the user declared BEFORE the path computation sees them
(gnpy/topology/request.py `deduplicate_disjunctions` l.1108-1116 and the vector bookkeeping of `requests_aggregation`
l.1026-1057).  The aggregation itself is group G's model `Gnpy.Response.requestsAggregationD` (C19), imported, not
copied; this file adds `deduplicate_disjunctions` and a traced variant of the aggregation that also returns the
renaming of request ids it performed (what every original id is called afterwards).
-/
namespace Gnpy.Sync
open Gnpy.Response

/-! ### `deduplicate_disjunctions`

```
local_disjn = disjn.copy()
for elem in local_disjn:
    for dis_elem in local_disjn:
        if set(elem.disjunctions_req) == set(dis_elem.disjunctions_req) and \
                elem.disjunction_id != dis_elem.disjunction_id:
            local_disjn.remove(dis_elem)
```
Both loops run over the list that is being edited: Python's list iterators advance by index, so the entry that follows a
removed one is skipped by the inner loop, and the outer loop moves on by index in the shrunken list. -/

/-- the inner loop for the fixed object `elem`: index `j`, current list `l` (`fuel` ≥ number of remaining turns) -/
def dedupInner (elem : Disj) : Nat → Nat → List Disj → List Disj
  | 0, _, l => l
  | fuel + 1, j, l =>
    match l[j]? with
    | none => l
    | some d =>
      if sameSet elem.reqs d.reqs && elem.id != d.id then dedupInner elem fuel (j + 1) (l.eraseIdx j)
      else dedupInner elem fuel (j + 1) l

/-- the outer loop: index `i` in the current list -/
def dedupOuter : Nat → Nat → List Disj → List Disj
  | 0, _, l => l
  | fuel + 1, i, l =>
    match l[i]? with
    | none => l
    | some e => dedupOuter fuel (i + 1) (dedupInner e l.length 0 l)

def deduplicateDisjunctions (l : List Disj) : List Disj := dedupOuter l.length 0 l

/-! ### the aggregation, with the renaming it performs made explicit -/

/-- `x` after a merge that renames `a` to `b` -/
def rn (a b x : String) : String := if x = a then b else x

section
variable {κ α : Type} [DecidableEq κ] [Add α]

/-- `aggStepD` of the C19 model together with the accumulated renaming of ids -/
def aggStepT (st : (List (AReq κ α) × List Disj) × (String → String)) (i : Nat) :
    (List (AReq κ α) × List Disj) × (String → String) :=
  match st.1.1.find? (fun r => r.pos == i) with
  | none => st
  | some req =>
    match absorbIntoD st.1.2 req st.1.1 with
    | none => st
    | some (_, oldId, newId) => (aggStepD st.1 i, fun x => rn oldId newId (rn req.idStr newId (st.2 x)))

/-- `requests_aggregation(pathreqlist, disjlist)` and the final name of every id -/
def requestsAggregationT (rs : List (AReq κ α)) (ds : List Disj) :
    (List (AReq κ α) × List Disj) × (String → String) :=
  (List.range rs.length).foldl aggStepT ((rs, ds), fun x => x)

end

end Gnpy.Sync
