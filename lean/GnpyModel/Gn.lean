import GnpyModel.Scalar
import GnpyModel.Interp
/-
C03 — the analytic GN model (gnpy/core/science_utils.py `NliSolver.compute_nli/_gn_analytic/_psi/
effective_length`, eq. 120/123 of arXiv:1209.0394 in the non-uniform form GNPy uses) and the fibre
coefficients it reads (gnpy/core/elements.py `Fiber.loss_coef_func/alpha/beta2/gamma`,
gnpy/core/parameters.py `FiberParams.__init__/effective_area_scaling/gamma_scaling`).

numpy broadcasting in `_psi`/`_gn_analytic`, spelled out (row index = cut `i`, column index = pump `j`):
  `outer(x, ones)`  → `x_i`      (cut_baud_rate, cut_beta, gamma, cut_power)
  `outer(ones, x)`  → `x_j`      (pump_beta, pump_baud_rate of `_gn_analytic`, pump_power)
  a bare 1-D array  → `x_j`      (`pump_baud_rate = baud_rate`, `effective_length`, `asymptotic_length` in `_psi`
                                  broadcast along the last axis, i.e. they are indexed by the PUMP)
  `df[i][j] = f_j - f_i`         (`SpectralInformation._df`)
-/
namespace Gnpy.Gn

/-- the constant π (`scipy.constants.pi` / `numpy.pi`); `Real.pi` in the proofs -/
class HasPi (α : Type) where
  pi : α

instance : HasPi Float := ⟨3.141592653589793⟩

/-- a channel loaded with the fibre coefficients evaluated at its own frequency -/
structure LCh (α : Type) where
  f : α       -- centre frequency [Hz]
  b : α       -- baud rate [Hz]
  p : α       -- power entering the fibre (after input connector and padding) [W]
  alpha : α   -- `fiber.alpha(f)` [1/m]
  beta2 : α   -- `fiber.beta2(f)` [s²/m]
  gamma : α   -- `fiber.gamma(f)` [1/W/m]

/-- what `FiberParams.__init__` keeps of the dispersion / area / loss description -/
structure Fibre (α : Type) where
  len : α                       -- [m]
  refWl : α                     -- reference wavelength [m]
  refF : α                      -- reference frequency [Hz]
  dispTable : List (α × α)      -- `dispersion_per_frequency` (Hz, s/m/m); used when it has more than one knot
  disp0 : α                     -- scalar dispersion [s/m/m]
  slope : Option α              -- dispersion slope [s/m/m/m]
  fDispRef : α                  -- reference frequency of the scalar dispersion (= `refF`)
  effArea : α                   -- effective area at the reference frequency [m²]
  lossTable : List (α × α)      -- per-frequency loss (Hz, dB/m); used when it has more than one knot
  loss0 : α                     -- scalar loss coefficient [dB/m]

section
variable {α : Type} [Add α] [Sub α] [Mul α] [Div α] [Neg α] [NatCast α] [LT α] [LE α]
  [DecidableLT α] [DecidableLE α] [Transc α] [HasPi α]

local notation "N(" n ")" => ((n : Nat) : α)
local notation "π" => (HasPi.pi : α)

/-- `scipy.constants.c` -/
def cLight : α := N(299792458)
/-- `FiberParams._n1 = 1.468` -/
def n1 : α := N(1468) / N(1000)
/-- `FiberParams._core_radius = 4.2e-6` -/
def coreRadius : α := N(42) / N(10000000)
/-- `FiberParams._n2 = 2.6e-20` -/
def n2 : α := N(26) / N(1000000000000000000000)

/-! ### FiberParams.__init__ : reference wavelength/frequency, effective area -/

/-- how the reference is given: `ref_wavelength`, else `ref_frequency`, else 1550 nm -/
inductive RefSpec (α : Type) where
  | wavelength (l : α)
  | frequency (f : α)
  | default

/-- `(ref_wavelength, ref_frequency)` -/
def refPair : RefSpec α → α × α
  | .wavelength l => (l, cLight / l)
  | .frequency f => (cLight / f, f)
  | .default => (N(1550) / N(1000000000), cLight / (N(1550) / N(1000000000)))

/-- effective area: the given one; else from the given gamma, `2π n2 / (λ_ref γ)`; else 83 µm² -/
def resolveEffArea (ea g : Option α) (refWl : α) : α :=
  match ea with
  | some a => a
  | none =>
    match g with
    | some g => N(2) * π * n2 / (refWl * g)
    | none => N(83) / N(1000000000000)

/-- `FiberParams._contrast` -/
def contrast (fib : Fibre α) : α :=
  let x := cLight / (N(2) * π * fib.refF * coreRadius * n1) * Transc.exp (π * (coreRadius * coreRadius) / fib.effArea)
  N(1) / N(2) * (x * x)

/-- `FiberParams.effective_area_scaling(frequency)` -/
def effAreaScaling (fib : Fibre α) (f : α) : α :=
  let v := N(2) * π * f / cLight * coreRadius * n1 * Transc.sqrt (N(2) * contrast fib)
  let w := coreRadius / Transc.sqrt (Transc.log v)
  π * (w * w)

/-- `FiberParams.gamma_scaling(frequency)` = `Fiber.gamma(frequency)` -/
def gammaAt (fib : Fibre α) (f : α) : α :=
  N(2) * π * n2 * f / (cLight * effAreaScaling fib f)

/-! ### Fiber.loss_coef_func / alpha / beta2 -/

/-- `Fiber.loss_coef_func(f)` [dB/m]; `none` = SpectrumError (frequency outside the table) -/
def lossCoef (fib : Fibre α) (f : α) : Option α :=
  match fib.lossTable with
  | _ :: _ :: _ => Interp.interp1d f fib.lossTable
  | _ => some fib.loss0

/-- `loss_coef / (10 * log10(exp(1)))` -/
def alphaOfLoss (lossDbPerM : α) : α :=
  lossDbPerM / (N(10) * (Transc.log (Transc.exp N(1)) / Transc.log N(10)))

/-- `Fiber.alpha(f)` -/
def alphaAt (fib : Fibre α) (f : α) : Option α := (lossCoef fib f).map alphaOfLoss

/-- the dispersion `D(f)` [s/m/m] inside `Fiber.beta2` -/
def dispersionAt (fib : Fibre α) (f : α) : Option α :=
  match fib.dispTable with
  | _ :: _ :: _ => Interp.interp1d f fib.dispTable
  | _ =>
    match fib.slope with
    | none => some (f / fib.fDispRef * (f / fib.fDispRef) * fib.disp0)
    | some s => some (fib.disp0 + s * (cLight / f - cLight / fib.fDispRef))

/-- `beta2 = -((c / f) ** 2 * dispersion) / (2 * pi * c)` -/
def beta2OfDisp (f d : α) : α := -(cLight / f * (cLight / f) * d) / (N(2) * π * cLight)

/-- `Fiber.beta2(f)` -/
def beta2At (fib : Fibre α) (f : α) : Option α := (dispersionAt fib f).map (beta2OfDisp f)

/-- evaluate the fibre coefficients at the channel's frequency -/
def load (fib : Fibre α) (f b p : α) : Option (LCh α) :=
  match alphaAt fib f, beta2At fib f with
  | some a, some b2 => some { f := f, b := b, p := p, alpha := a, beta2 := b2, gamma := gammaAt fib f }
  | _, _ => none

def loadAll (fib : Fibre α) : List (α × α × α) → Option (List (LCh α))
  | [] => some []
  | (f, b, p) :: rest =>
    match load fib f b p, loadAll fib rest with
    | some c, some cs => some (c :: cs)
    | _, _ => none

/-! ### NliSolver -/

/-- `NliSolver.SPM_WEIGHT` -/
def spmW : α := N(16) / N(27)
/-- `NliSolver.XPM_WEIGHT` -/
def xpmW : α := N(2) * (N(16) / N(27))

/-- `NliSolver.effective_length(alpha, length)` -/
def effLength (alpha len : α) : α := (N(1) - Transc.exp (-alpha * len)) / alpha

/-- `NliSolver._psi` entry `[i][j]`: cut `ci`, pump `cj` (eq. 123 of arXiv:1209.0394) -/
def psi (len : α) (ci cj : LCh α) : α :=
  let la := N(1) / cj.alpha
  let le := effLength cj.alpha len
  let b2 := Transc.abs ((ci.beta2 + cj.beta2) / N(2))
  let df := cj.f - ci.f
  let right := df + cj.b / N(2)
  let left := df - cj.b / N(2)
  (Transc.asinh (π * π * la * b2 * ci.b * right) - Transc.asinh (π * π * la * b2 * ci.b * left)) / N(2)
    * (le * le / (N(2) * π * b2 * la))

/-- `NliSolver._gn_analytic` entry `[i][j]` for the weight `w` -/
def eta (w len : α) (ci cj : LCh α) : α :=
  ci.b * (ci.gamma * ci.gamma * w * psi len ci cj / (ci.b * (cj.b * cj.b)))

/-- `nli_matrix[i][j] = cut_power * pump_power ** 2 * eta` -/
def term (w len : α) (ci cj : LCh α) : α := ci.p * (cj.p * cj.p) * eta w len ci cj

/-- row `i` of `nli_matrix` summed over the pumps `j = j0, j0+1, …`; the weight matrix is
`spm·I + xpm·(1 − I)`, i.e. decided by the *indices* -/
def rowSum (len : α) (i : Nat) (ci : LCh α) : Nat → List (LCh α) → α
  | _, [] => N(0)
  | j, cj :: rest => term (if i = j then spmW else xpmW) len ci cj + rowSum len i ci (j + 1) rest

def nliFrom (len : α) (all : List (LCh α)) : Nat → List (LCh α) → List α
  | _, [] => []
  | i, ci :: rest => rowSum len i ci 0 all :: nliFrom len all (i + 1) rest

/-- `NliSolver.compute_nli` (method `gn_model_analytic`): NLI power per channel [W] -/
def nli (len : α) (cs : List (LCh α)) : List α := nliFrom len cs 0 cs

/-- the whole of `compute_nli` from the fibre description and the spectrum `(f, baud, power)` sorted by frequency -/
def computeNli (fib : Fibre α) (chans : List (α × α × α)) : Option (List α) :=
  (loadAll fib chans).map (nli fib.len)

/-! ### `SpectralInformation.__init__`: `indices = argsort(frequency)` – the channels are put in ascending frequency
whatever the order they were supplied in (the frequencies of an accepted comb are distinct) -/

/-- insert a channel `(f, baud, power)` into a list sorted by frequency -/
def insertByF (c : α × α × α) : List (α × α × α) → List (α × α × α)
  | [] => [c]
  | d :: rest => if c.1 < d.1 then c :: d :: rest else d :: insertByF c rest

def sortByF : List (α × α × α) → List (α × α × α)
  | [] => []
  | c :: rest => insertByF c (sortByF rest)

/-- constructor + `compute_nli`: channels supplied in any order; the result is in ascending frequency -/
def computeNliAny (fib : Fibre α) (chans : List (α × α × α)) : Option (List α) := computeNli fib (sortByF chans)

/-! ### the same closed form with the weight decided by the frequencies (index-free form used for
the order/added-channel laws; equal to `nli` on combs with pairwise distinct frequencies) -/

/-- SPM weight on the channel itself, XPM weight on every other channel -/
def wgtF (ci cj : LCh α) : α := if ci.f < cj.f ∨ cj.f < ci.f then xpmW else spmW

/-- NLI generated on channel `ci` by the comb `cs` -/
def nliOf (len : α) (cs : List (LCh α)) (ci : LCh α) : α :=
  sumL (cs.map (fun cj => term (wgtF ci cj) len ci cj))

def nliSpec (len : α) (cs : List (LCh α)) : List α := cs.map (nliOf len cs)

/-! ### `SpectralInformation.__init__` checks on the frequency-sorted comb `(f, baud, slot)` -/

/-- `f[:-1] + slot[:-1]/2 > f[1:] - slot[1:]/2` somewhere -/
def combOverlap : List (α × α × α) → Bool
  | c0 :: c1 :: rest => decide (c1.1 - c1.2.2 / N(2) < c0.1 + c0.2.2 / N(2)) || combOverlap (c1 :: rest)
  | _ => false

/-- `baud_rate > slot_width` somewhere -/
def combExceed (l : List (α × α × α)) : Bool := l.any (fun c => decide (c.2.2 < c.2.1))

/-- accepted by the constructor (`SpectrumError` otherwise) -/
def combAccepted (l : List (α × α × α)) : Bool := !combOverlap l && !combExceed l

/-- every power multiplied by `k` -/
def scale (k : α) (c : LCh α) : LCh α := { c with p := k * c.p }

end
end Gnpy.Gn
