import GnpyModel.Scalar
/- model file Gn (see DESIGN.md §2) -/
namespace Gnpy

end Gnpy
