import GnpyModel.Scalar
/- model file Route (see DESIGN.md §2) -/
namespace Gnpy

end Gnpy
