import GnpyModel.Scalar
/-
Route.lean — C11 / C12.  Finite weighted digraphs, simple-path enumeration, the constrained shortest-path ORACLE and
CHECKER, the decision wrapper of `compute_constrained_path`, the route-list clean-up, `ispart`, `explicit_path`,
`find_reversed_path`, `isdisjoint` and the candidate selection of `compute_path_dsjctn` (gnpy/topology/request.py).

networkx (`shortest_simple_paths`, `dijkstra_path`, `all_simple_paths`) is NOT modelled: the functions below are a
verified oracle (what the library calls must deliver for the property to hold) and a verified checker that is run on
the paths the implementation really returns.  Core Lean only (the driver links this file).

Units: the code's edge weight is the fibre length in metres on the out-edge of a Fiber and the constant 0.01 on every
other edge (json_io.network_from_json l.760-770, core/network.py add_roadm_booster / add_roadm_preamp /
add_inline_amplifier / split_fiber).  Here an edge carries `len` (metres, integer; 0 on a non-fibre edge) and `pseudo`
(number of 0.01 units; 1 on a non-fibre edge, 0 on a fibre edge); the weight in units of 0.01 m is `100*len + pseudo`.
-/
namespace Gnpy.Route

abbrev V := Nat

/-- a finite digraph on the nodes `0 … n-1`; `succ` is the adjacency in networkx order -/
structure Graph where
  n : Nat
  succ : V → List V
  len : V → V → Nat
  pseudo : V → V → Nat

/-- every edge joins two nodes of the graph -/
def Graph.WF (g : Graph) : Prop := ∀ u v, v ∈ g.succ u → u < g.n ∧ v < g.n

/-- weight of one edge in units of 0.01 m (what `weight=` holds, times 100) -/
def Graph.wt (g : Graph) (u v : V) : Nat := 100 * g.len u v + g.pseudo u v

/-! ### walks, simple paths, routes -/

/-- `p` follows existing directed edges (a single node is a walk, the empty list is not) -/
def IsWalk (g : Graph) : List V → Prop
  | [] => False
  | [_] => True
  | u :: v :: rest => v ∈ g.succ u ∧ IsWalk g (v :: rest)

def isWalkB (g : Graph) : List V → Bool
  | [] => false
  | [_] => true
  | u :: v :: rest => (g.succ u).contains v && isWalkB g (v :: rest)

/-- loop-free walk from `s` to `t` that avoids the nodes of `avoid` -/
def IsSimplePath (g : Graph) (s t : V) (avoid : List V) (p : List V) : Prop :=
  p.head? = some s ∧ p.getLast? = some t ∧ IsWalk g p ∧ p.Nodup ∧ (∀ x ∈ p, x ∉ avoid)

/-- THE ROUTE PREDICATE of property C11: starts at `s`, ends at `t`, follows edges, visits no element twice and crosses
the include list `inc` in order (as a subsequence) -/
def IsRoute (g : Graph) (s t : V) (inc : List V) (p : List V) : Prop :=
  p.head? = some s ∧ p.getLast? = some t ∧ IsWalk g p ∧ p.Nodup ∧ inc.Sublist p

def nodupB : List V → Bool
  | [] => true
  | x :: xs => !(xs.contains x) && nodupB xs

/-- executable checker run on the path the implementation returns -/
def checkRoute (g : Graph) (s t : V) (inc : List V) (p : List V) : Bool :=
  p.head? == some s && p.getLast? == some t && isWalkB g p && nodupB p && inc.isSublist p

/-- DFS enumeration of the simple paths `u ⇝ t` avoiding `vis` (fuel = bound on the number of nodes of a path) -/
def pathsFrom (g : Graph) (t : V) : Nat → V → List V → List (List V)
  | 0, _, _ => []
  | fuel+1, u, vis =>
    if u ∈ vis then [] else
    if u = t then [[t]] else
      ((g.succ u).filter (fun v => v ∉ u :: vis)).flatMap
        (fun v => (pathsFrom g t fuel v (u :: vis)).map (u :: ·))

/-- all simple paths from `s` to `t` -/
def simplePaths (g : Graph) (s t : V) : List (List V) := pathsFrom g t (g.n + 1) s []

/-! ### weights -/

def pathSum (f : V → V → Nat) : List V → Nat
  | u :: v :: rest => f u v + pathSum f (v :: rest)
  | _ => 0

/-- total weight of a path in 0.01 m units (what networkx minimises) -/
def pathWeight (g : Graph) (p : List V) : Nat := pathSum g.wt p
/-- total fibre length of a path in metres (what the property talks about) -/
def pathLen (g : Graph) (p : List V) : Nat := pathSum g.len p
def pathPseudo (g : Graph) (p : List V) : Nat := pathSum g.pseudo p

/-- first minimum (Python `min(key=)`) -/
def argmin {α : Type} (w : α → Nat) : List α → Option α
  | [] => none
  | x :: xs =>
    match argmin w xs with
    | none => some x
    | some y => if w x ≤ w y then some x else some y

/-- simple paths that cross `inc` in order -/
def validPaths (g : Graph) (s t : V) (inc : List V) : List (List V) :=
  (simplePaths g s t).filter (fun p => inc.isSublist p)

/-- THE ORACLE: a minimum-weight route from `s` to `t` crossing `inc` in order, `none` when there is none -/
def bestRoute (g : Graph) (s t : V) (inc : List V) : Option (List V) :=
  argmin (pathWeight g) (validPaths g s t inc)

/-! ### `ispart` (request.py l.956-967) -/

def ispartAux (b : List V) : Nat → List V → Bool
  | _, [] => true
  | j, e :: rest =>
    if b.contains e then
      if b.idxOf e ≥ j then ispartAux b (b.idxOf e) rest else false
    else false

/-- "all `a` elements are part of `b` and in the same order" -/
def ispart (a b : List V) : Bool := ispartAux b 0 a

/-! ### route-list clean-up (`correct_json_route_list`, request.py l.1060-1105)

Names are numbered by the harness: a name of the topology is its node id (< n), any other name gets an id ≥ n.
`hops` are the `hop-type`s (`true` = STRICT).  The lists are kept zipped. -/

inductive CleanErr | sourceNotTrx | destNotTrx | strictUnknown
deriving Repr, DecidableEq

/-- `list.remove(x)` together with `loose_list.pop(nodes_list.index(x))`: drops the first pair whose node is `x` -/
def eraseFirst (x : V) : List (V × Bool) → List (V × Bool)
  | [] => []
  | (y, h) :: rest => if y = x then rest else (y, h) :: eraseFirst x rest

/-- the loop over the *copy* `temp` while the request's own lists are edited -/
def cleanLoop (isNode isTrx : V → Bool) : List (V × Bool) → List (V × Bool) → Except CleanErr (List (V × Bool))
  | [], cur => .ok cur
  | (x, strict) :: temp, cur =>
    if !(isNode x) || isTrx x then
      if !strict then cleanLoop isNode isTrx temp (eraseFirst x cur)
      else .error .strictUnknown
    else cleanLoop isNode isTrx temp cur

def dropLast {α : Type} (l : List α) : List α := l.take (l.length - 1)

/-- "silently remove source and dest nodes from the list" (first entry = source, then last entry = destination) -/
def stripEnds (s t : V) (route : List (V × Bool)) : List (V × Bool) :=
  let r1 := match route with
    | (x, _) :: rest => if x = s then rest else route
    | [] => route
  match r1.getLast? with
  | some (x, _) => if x = t then dropLast r1 else r1
  | none => r1

def correctRouteList (isNode isTrx : V → Bool) (s t : V) (route : List (V × Bool)) :
    Except CleanErr (List (V × Bool)) :=
  if !(isTrx s) then .error .sourceNotTrx
  else if !(isTrx t) then .error .destNotTrx
  else
    let r := stripEnds s t route
    cleanLoop isNode isTrx r r

/-! ### `explicit_path` (request.py l.1278-1311, repaired: the shortcut must honour the include list and be a walk) -/

def uniqueOrdered : List V → List V
  | l => l.foldl (fun acc x => if acc.contains x then acc else acc ++ [x]) []

/-- `omsOf e` = id of the OMS the line element `e` belongs to (`none` for ROADMs/transceivers: no `.oms` attribute);
`els o` = `oms.el_list` (ingress ROADM, line elements, egress ROADM); `sR`/`dR` = `source_roadm`/`destination_roadm`
(`none` = StopIteration).  `walkOk` = every hop of the candidate is an edge. -/
def explicitPath (g : Graph) (omsOf : V → Option Nat) (els : Nat → List V) (sR dR : Option V)
    (nodeList : List V) (s t : V) : Option (List V) :=
  match uniqueOrdered (nodeList.filterMap omsOf) with
  | [] => none
  | o0 :: rest =>
    match sR, dR with
    | some sr, some dr =>
      let lastO := (o0 :: rest).getLast?.getD o0
      if (els o0).head? == some sr && (els lastO).getLast? == some dr then
        -- walk along the chain, every OMS must start where the previous one ends
        let step := fun (acc : Option (Nat × List V)) (o : Nat) =>
          match acc with
          | none => none
          | some (prev, path) =>
            if (els prev).getLast? == (els o).head? && (els o) != [] then some (o, path ++ els o) else none
        match rest.foldl step (some (o0, [s] ++ els o0)) with
        | none => none
        | some (_, path) =>
          let p := uniqueOrdered (path ++ [t])
          if isWalkB g p && ispart nodeList p then some p else none
      else none
    | _, _ => none

/-! ### the decision wrapper of `compute_constrained_path` (request.py l.330-379) -/

inductive Decision
  | explicit (p : List V)        -- the include list spells the whole route
  | constrained (p : List V)     -- a minimum-weight route crossing the include list
  | unconstrained (p : List V)   -- all hops LOOSE and unsatisfiable: constraints dropped, plain shortest path
  | noPath                       -- blocking_reason NO_PATH
  | noPathWithConstraint         -- blocking_reason NO_PATH_WITH_CONSTRAINT
deriving Repr, DecidableEq

/-- `inc` = `req.nodes_list[:-1]`, `strict` = `'STRICT' in req.loose_list[:-1]`, `ex` = result of `explicit_path` -/
def decideRoute (g : Graph) (s t : V) (inc : List V) (strict : Bool) (ex : Option (List V)) : Decision :=
  match ex with
  | some p => .explicit p
  | none =>
    match bestRoute g s t [] with
    | none => .noPath                                   -- NetworkXNoPath
    | some p0 =>
      match bestRoute g s t inc with
      | some p => .constrained p
      | none => if strict then .noPathWithConstraint    -- one STRICT makes the whole list STRICT
                else .unconstrained p0                  -- dijkstra_path without constraints

/-! ### OMS level: links, reversal, disjointness (C12) -/

/-- the ROADM-to-ROADM links crossed by a path: consecutive ROADMs of the path -/
def linksOf (isRoadm : V → Bool) (p : List V) : List (V × V) :=
  let r := p.filter isRoadm
  r.zip r.tail

/-- THE DISJOINTNESS PREDICATE of property C12: no common link, a link and its opposite direction identified -/
def LinkDisjoint (isRoadm : V → Bool) (p q : List V) : Prop :=
  ∀ l ∈ linksOf isRoadm p, l ∉ linksOf isRoadm q ∧ (l.2, l.1) ∉ linksOf isRoadm q

def linkDisjointB (isRoadm : V → Bool) (p q : List V) : Bool :=
  (linksOf isRoadm p).all (fun l => !(linksOf isRoadm q).contains l && !(linksOf isRoadm q).contains (l.2, l.1))

/-- all paths of a list pairwise link-disjoint -/
def allDisjointB (isRoadm : V → Bool) : List (List V) → Bool
  | [] => true
  | p :: rest => rest.all (fun q => linkDisjointB isRoadm p q) && allDisjointB isRoadm rest

/-- `pairwise` of itertools -/
def pairsOf {α : Type} : List α → List (α × α)
  | a :: b :: rest => (a, b) :: pairsOf (b :: rest)
  | _ => []

/-- `isdisjoint` (request.py l.912-919): 1 when the two lists have a common pair of consecutive entries -/
def isdisjointPy (a b : List V) : Nat :=
  if (pairsOf a).any (fun e => (pairsOf b).contains e) then 1 else 0

/-- the short list built in step 1: ROADMs and the element that follows a ROADM, transceivers cut off
    (`[e.uid for i, e in enumerate(pth[1:-1]) if isinstance(e, Roadm) | isinstance(pth[i], Roadm)]`) -/
def shortListAux (isRoadm : V → Bool) : V → List V → List V
  | _, [] => []
  | prev, e :: rest => if isRoadm e || isRoadm prev then e :: shortListAux isRoadm e rest
                       else shortListAux isRoadm e rest

def shortList (isRoadm : V → Bool) (p : List V) : List V :=
  match p with
  | [] => []
  | p0 :: rest => shortListAux isRoadm p0 (dropLast rest)

/-- `find_reversed_path` (request.py l.922-953): `omsOf`/`els` as above, `rev o` = `oms.reversed_oms` -/
def reversedPath (omsOf : V → Option Nat) (els : Nat → List V) (rev : Nat → Option Nat) (isEnd : V → Bool)
    (p : List V) : Option (List V) :=
  match p.getLast?, p.head? with
  | some last, some first =>
    let revs := (p.filter (fun e => !isEnd e)).map (fun e => (omsOf e).bind rev)
    -- OrderedDict.fromkeys(reversed(...)) over Option values
    let keys := revs.reverse.foldl (fun acc x => if acc.contains x then acc else acc ++ [x]) ([] : List (Option Nat))
    let body := keys.foldl (fun (acc : Option (List V)) k =>
      match acc, k with
      | some path, some o => some (uniqueOrdered (path ++ els o))
      | _, _ => none) (some [last])
    body.map (fun path => path ++ [first])
  | _, _ => none

/-! ### abstract OMS chains (for the theorems about `isdisjoint` and the reversed path)

An OMS is described by its ingress ROADM, the first line element after it, and its egress ROADM. -/
structure Oms where
  src : V
  first : V
  dst : V
deriving Repr, DecidableEq

/-- the short list of a path that crosses the chain `c`: `[src₀, first₀, src₁, first₁, …, dst_last]` -/
def shortOf : List Oms → List V
  | [] => []
  | [o] => [o.src, o.first, o.dst]
  | o :: o' :: rest => o.src :: o.first :: shortOf (o' :: rest)

/-- the chain crossed by the reversed path -/
def revChain (rev : Oms → Oms) (c : List Oms) : List Oms := (c.map rev).reverse

/-- sites (ROADMs) visited along a chain -/
def sitesOf : List Oms → List V
  | [] => []
  | o :: rest => o.src :: (o :: rest).map (·.dst)

/-! ### the disjointness oracle for one pair of requests (C12, completeness) -/

/-- candidates of step 1: simple paths of at most 80 hops (`all_simple_paths(..., cutoff=80)`) -/
def candPaths (g : Graph) (s t : V) : List (List V) := (simplePaths g s t).filter (fun p => p.length ≤ 81)

structure Req where
  s : V
  t : V
  inc : List V          -- `nodes_list` after clean-up (destination not yet appended)
  strict : Bool         -- 'STRICT' in `loose_list`
deriving Repr

/-- step 4: a candidate is acceptable when it honours the include list, or when the list has only LOOSE hops -/
def acceptable (r : Req) (p : List V) : Bool := r.inc.isSublist p || !r.strict

/-- THE PAIR ORACLE: is there a pair of acceptable candidate routes without a common link (either direction)? -/
def disjointOracle (g : Graph) (isRoadm : V → Bool) (r1 r2 : Req) : Bool :=
  (candPaths g r1.s r1.t).any (fun p => acceptable r1 p &&
    (candPaths g r2.s r2.t).any (fun q => acceptable r2 q && linkDisjointB isRoadm p q))

/-! ### candidate selection of `compute_path_dsjctn`, steps 2-5, over abstract candidate ids

A candidate path is identified by `(request index, path index)`; `dis r i r' j = true` ⇔ the implementation's test
`isdisjoint(p, q) + isdisjoint(p_reversed, q) == 0` for candidate `i` of request `r` and candidate `j` of `r'`. -/

abbrev Cand := Nat × Nat

structure SelInput where
  ncand : Nat → Nat                          -- number of candidate paths of request r (sorted by length)
  dis : Cand → Cand → Bool                   -- implementation's pairwise test
  okInc : Cand → Bool                        -- ispart(req.nodes_list, path)  (true when nodes_list is empty)
  hasStrict : Nat → Bool                     -- 'STRICT' in req.loose_list
  hasInc : Nat → Bool                        -- bool(req.nodes_list)
  vid : Cand → Nat                           -- value of the short list: two candidates (of different requests) with the
                                             -- same `vid` are `==` in Python (`pth in cndt` compares lists by value)

def candsOf (inp : SelInput) (r : Nat) : List Cand := (List.range (inp.ncand r)).map (fun i => (r, i))

/-- step 2 for one synchronisation vector `dlist` (request indices) -/
def step2 (inp : SelInput) (dlist : List Nat) : List (List Cand) :=
  match dlist with
  | [] => []
  | r0 :: others =>
    others.foldl (fun dpath r =>
      (candsOf inp r).flatMap (fun c1 =>
        dpath.filterMap (fun cndt => if cndt.all (fun c => inp.dis c1 c) then some (cndt ++ [c1]) else none)))
      ((candsOf inp r0).map (fun c => [c]))

/-- Python `for x in l: if cond(x): l.remove(x)`: the list iterator advances by index, so the element that follows a
removed one is skipped (kept without being examined) -/
def pyRemoveWhileIterating {α : Type} (cond : α → Bool) : List α → List α
  | [] => []
  | [x] => if cond x then [] else [x]
  | x :: y :: rest => if cond x then y :: pyRemoveWhileIterating cond rest
                      else x :: pyRemoveWhileIterating cond (y :: rest)

/-- `pth in cndt` followed by `allpaths[id(cndt[cndt.index(pth)])].req.request_id == pathreq.request_id`:
the first entry of the combination that is `==` to the path belongs to the request under examination -/
def usedBy (vid : Cand → Nat) (c : Cand) (cndt : List Cand) : Bool :=
  match cndt.find? (fun x => vid x == vid c) with
  | some x => x.1 == c.1
  | none => false

/-- `pth in cndt` (by value) -/
def holdsValue (vid : Cand → Nat) (c : Cand) (cndt : List Cand) : Bool := cndt.any (fun x => vid x == vid c)

/-- step 3: for request `r` and each of its candidate paths: if some concerned vector has no combination using it,
remove the combinations using it from all concerned vectors (with Python's remove-while-iterating semantics).
`cands` = list of (vector id, combinations) -/
def step3One (vid : Cand → Nat) (concerned : List Nat) (c : Cand) (cands : List (Nat × List (List Cand))) :
    List (Nat × List (List Cand)) :=
  let missing := concerned.any (fun d =>
    match cands.lookup d with
    | some combos => !(combos.any (usedBy vid c))
    | none => true)
  if missing then
    cands.map (fun (d, combos) =>
      if concerned.contains d then (d, pyRemoveWhileIterating (holdsValue vid c) combos)
      else (d, combos))
  else cands

def step3 (inp : SelInput) (groups : List (Nat × List Nat)) (reqs : List Nat)
    (cands : List (Nat × List (List Cand))) : List (Nat × List (List Cand)) :=
  reqs.foldl (fun cs r =>
    let concerned := (groups.filter (fun g => g.2.contains r)).map (·.1)
    (candsOf inp r).foldl (fun cs c => step3One inp.vid concerned c cs) cs) cands

/-- step 4 for one vector: keep the combinations honouring every include list; else those that fail only on all-LOOSE
lists; else nothing -/
def step4 (inp : SelInput) (combos : List (List Cand)) : List (List Cand) :=
  let ok := combos.filter (fun sol => sol.all (fun c => !(inp.hasInc c.1) || inp.okInc c))
  let alt := combos.filter (fun sol =>
    !(sol.all (fun c => !(inp.hasInc c.1) || inp.okInc c)) &&
    sol.all (fun c => !(inp.hasInc c.1) || inp.okInc c || !(inp.hasStrict c.1)))
  if !ok.isEmpty then ok else alt

/-- `remove_candidate`: drop every combination (in every vector) that uses another path for request `c.1` -/
def removeCandidate (c : Cand) (cands : List (Nat × List (List Cand))) : List (Nat × List (List Cand)) :=
  cands.map (fun (d, combos) => (d, combos.filter (fun sol => sol.all (fun x => x.1 != c.1 || x == c))))

/-- step 5: first combination of every vector in turn; `none` = DisjunctionError.
    state = (remaining candidates, requests still to be served, chosen paths) -/
def step5 (order : List Nat) (cands : List (Nat × List (List Cand))) (todo : List Nat) :
    Option (List Cand) :=
  let rec go : List Nat → List (Nat × List (List Cand)) → List Nat → List Cand → Option (List Cand)
    | [], _, _, chosen => some chosen
    | d :: ds, cands, todo, chosen =>
      match (cands.lookup d).bind (·.head?) with
      | none => none
      | some sol =>
        let (cands', todo', chosen') := sol.foldl (fun (st : List (Nat × List (List Cand)) × List Nat × List Cand) c =>
          if st.2.1.contains c.1 then (removeCandidate c st.1, st.2.1.erase c.1, st.2.2 ++ [c]) else st)
          (cands, todo, chosen)
        go ds cands' todo' chosen'
  go order cands todo []

/-- steps 2-5 -/
def selectDisjoint (inp : SelInput) (groups : List (Nat × List Nat)) (reqs : List Nat) : Option (List Cand) :=
  let c2 := groups.map (fun g => (g.1, step2 inp g.2))
  let c3 := step3 inp groups reqs c2
  let c4 := c3.map (fun (d, combos) => (d, step4 inp combos))
  step5 (groups.map (·.1)) c4 reqs

end Gnpy.Route
