import GnpyModel.Chain
/-
C09 — the amplifier recurrence of auto-design.

Anchors: gnpy/core/utils.py `round2float`; gnpy/core/network.py `target_power`, `span_loss`,
`compute_gain_power_and_tilt_target`, `set_one_amplifier`, `set_amplifier_voa`, `set_egress_amplifier`,
`select_edfa` (only its `power_reduction`; WHICH variety is selected is property C10 and enters as input).
-/
namespace Gnpy.Chain

/-- `round(x, 0)` of Python: to the nearest integer, ties to even -/
class Rint (α : Type) where
  rint : α → α

def floatRint (x : Float) : Float :=
  let f := x.floor
  let d := x - f
  if d < 0.5 then f
  else if d > 0.5 then f + 1.0
  else if (f / 2.0).floor * 2.0 == f then f else f + 1.0

instance : Rint Float := ⟨floatRint⟩

section
variable {α : Type} [Add α] [Sub α] [Mul α] [Div α] [Neg α] [NatCast α] [LT α] [LE α]
  [DecidableLT α] [DecidableLE α] [Transc α] [Rint α]

def hundredth : α := ((1:Nat) : α) / ((100:Nat) : α)

/-- `round(x, 1)` -/
def round1 (x : α) : α := Rint.rint (x * ((10:Nat) : α)) / ((10:Nat) : α)
/-- `round(x, 2)` -/
def round2 (x : α) : α := Rint.rint (x * ((100:Nat) : α)) / ((100:Nat) : α)
/-- `round(x, 6)` (export of gains, lengths, loss coefficients) -/
def round6 (x : α) : α := Rint.rint (x * ((1000000:Nat) : α)) / ((1000000:Nat) : α)
/-- `round(x, 5)` (export of tilt) -/
def round5 (x : α) : α := Rint.rint (x * ((100000:Nat) : α)) / ((100000:Nat) : α)

/-- `gnpy.core.utils.round2float` -/
def round2float (x step : α) : α :=
  let s := round1 step
  if hundredth ≤ s then round1 (Rint.rint (x / s) * s) else round2 x

/-- Python `max(a, b)` (first maximal element) -/
def pmax (a b : α) : α := if a < b then b else a
/-- Python `min(a, b)` -/
def pmin (a b : α) : α := if b < a then b else a

/-- Python truthiness of an optional number: `v if v else 0` -/
def truthy (v : Option α) : α :=
  match v with
  | some x => if x < ((0:Nat) : α) ∨ ((0:Nat) : α) < x then x else ((0:Nat) : α)
  | none => ((0:Nat) : α)

/-- Span parameters the recurrence reads -/
structure Cfg (α : Type) where
  powerMode : Bool
  dpLo : α
  dpHi : α
  dpStep : α
  lossRef : α
  slope : α
  voaMargin : α
  voaStep : α
  extGain : α

/-- `target_power(network, node, equipment, 0.0)`: 0 for a ROADM, else the slope rule on the span loss of `node` -/
def targetPower (c : Cfg α) (nextIsRoadm : Bool) (nextLoss : α) : α :=
  if nextIsRoadm then ((0:Nat) : α)
  else pmin c.dpHi (pmax c.dpLo (round2float ((nextLoss - c.lossRef) * c.slope) c.dpStep))

/-- what the design needs to know of the amplifier model finally in place (the user's `type_variety`, or the one
`select_edfa` chose — property C10) -/
structure Sel (α : Type) where
  pMax : α
  gainFlatmax : α
  outVoaAuto : Bool

/-- everything `set_one_amplifier` reads for one Edfa -/
structure AmpIn (α : Type) where
  user : EdfaP α
  sel : Sel α
  /-- `span_loss(network, prev_node, equipment)` -/
  nodeLoss : α
  nextIsRoadm : Bool
  /-- `span_loss(network, next_node, equipment)` (unused when the next node is a ROADM) -/
  nextLoss : α

structure AmpOut (α : Type) where
  /-- `effective_gain` -/
  gain : α
  /-- `delta_p` (None in gain mode) -/
  deltaP : Option α
  /-- `_delta_p` -/
  dpInt : α
  outVoa : α
  inVoa : α
  /-- `target_pch_out_dbm` -/
  targetPch : Option α
  /-- the pair `set_one_amplifier` returns, i.e. the next amplifier's `prev_dp`, `prev_voa` -/
  retDp : α
  retVoa : α
  /-- `power_reduction` -/
  reduction : α
  /-- `dp` and `gain_target` of `compute_gain_power_and_tilt_target` (before any reduction) -/
  dp0 : α
  gain0 : α
  /-- `power_target` handed to `set_amplifier_voa` -/
  powerTarget : α

/-- `compute_gain_power_and_tilt_target`: `(gain_target, power_target, dp, voa)` -/
def computeTargets (c : Cfg α) (prefTotal prevDp prevVoa : α) (a : AmpIn α) : α × α × α × α :=
  let voa := truthy a.user.outVoa
  let inVoa := truthy a.user.inVoa
  let dp := match a.user.deltaP with
    | none => targetPower c a.nextIsRoadm a.nextLoss + voa
    | some d => d
  match a.user.gain, c.powerMode with
  | some g, false =>
    let dp' := prevDp - a.nodeLoss - prevVoa + g - inVoa
    (g, prefTotal + dp', dp', voa)
  | _, _ =>
    let g := a.nodeLoss + dp - prevDp + prevVoa + inVoa
    (g, prefTotal + dp, dp, voa)

/-- `power_reduction`: `select_edfa` for an auto-selected model (`min(selected.power, 0.0)` with
`power = min(pin + gain_flatmax + target_extended_gain, p_max) - power_target`), the explicit saturation check
of `set_one_amplifier` for a user-imposed model.  In gain mode the code estimates the output as
`pref_total + prev_dp - node_loss - prev_voa + gain_target`, i.e. WITHOUT the input VOA (open finding
gain-mode-in-voa-saturation). -/
def powerReduction (c : Cfg α) (prefTotal prevDp prevVoa : α) (a : AmpIn α) (gain powerTarget dp : α) : α :=
  if a.user.variety == "" then
    let pin := powerTarget - gain
    pmin (pmin (pin + a.sel.gainFlatmax + c.extGain) a.sel.pMax - powerTarget) ((0:Nat) : α)
  else if c.powerMode then
    pmin ((0:Nat) : α) (a.sel.pMax - (prefTotal + dp))
  else
    let pout := prefTotal + prevDp - a.nodeLoss - prevVoa + gain
    pmin ((0:Nat) : α) (a.sel.pMax - pout)

/-- `set_one_amplifier` (+ `set_amplifier_voa`) -/
def ampStep (c : Cfg α) (pref prefTotal prevDp prevVoa : α) (a : AmpIn α) : AmpOut α :=
  let t := computeTargets c prefTotal prevDp prevVoa a
  let gain0 := t.1
  let powerTarget := t.2.1
  let dp0 := t.2.2.1
  let voa := t.2.2.2
  let red := powerReduction c prefTotal prevDp prevVoa a gain0 powerTarget dp0
  let dp := dp0 + red
  let gain := gain0 + red
  -- set_amplifier_voa
  let v : α := match a.user.outVoa with
    | some x => x
    | none =>
      if c.powerMode ∧ a.sel.outVoaAuto then
        pmax (round2float (pmin (a.sel.pMax - powerTarget) (a.sel.gainFlatmax - gain)) c.voaStep - c.voaMargin)
          ((0:Nat) : α)
      else ((0:Nat) : α)
  let auto : Bool := a.user.outVoa.isNone && c.powerMode && a.sel.outVoaAuto
  let gainF := if auto then gain + v else gain
  let deltaPF : Option α := if c.powerMode then some (if auto then dp + v else dp) else none
  let dpInt := match deltaPF with
    | some d => d
    | none => dp
  let targetPch : Option α := match deltaPF, a.user.deltaP with
    | some _, some ud => some (round2 (ud + pref))
    | some d, none => some (round2 (d + pref))
    | none, _ => none
  { gain := gainF, deltaP := deltaPF, dpInt := dpInt, outVoa := v, inVoa := a.user.inVoa.getD ((0:Nat) : α),
    targetPch := targetPch, retDp := dp, retVoa := voa, reduction := red, dp0 := dp0, gain0 := gain0,
    powerTarget := powerTarget }

/-- the walk of `set_egress_amplifier` along one OMS: `prev_dp`, `prev_voa` are threaded through the amplifiers -/
def designAmps (c : Cfg α) (pref prefTotal : α) : α → α → List (AmpIn α) → List (AmpOut α)
  | _, _, [] => []
  | pd, pv, a :: rest =>
    let o := ampStep c pref prefTotal pd pv a
    o :: designAmps c pref prefTotal o.retDp o.retVoa rest

/-! ### from a line to the amplifier inputs -/

/-- `span_loss(prev_node)` when `prev_node` is the last element of run `r` -/
def lastSpanLoss (r : List (Elem α)) : α :=
  match r.getLast? with
  | some e => (match e.dsl with
    | some d => d
    | none => runLoss r)
  | none => ((0:Nat) : α)

/-- `span_loss(next_node)` when `next_node` is the first element of run `r` -/
def firstSpanLoss (r : List (Elem α)) : α :=
  match r with
  | e :: _ => (match e.dsl with
    | some d => d
    | none => runLossFwd r)
  | [] => ((0:Nat) : α)

def ampInputsAux (dstIsRoadm : Bool) : Option (List (Elem α)) → List (List (Elem α)) → List (Sel α) →
    List (AmpIn α)
  | _, [], _ => []
  | prev, r :: rest, sels =>
    match r with
    | [.edfa _ p] =>
      (match sels with
        | s :: sels' =>
          { user := p, sel := s,
            nodeLoss := (match prev with
              | some pr => lastSpanLoss pr
              | none => ((0:Nat) : α)),
            nextIsRoadm := rest.isEmpty && dstIsRoadm,
            nextLoss := (match rest with
              | n :: _ => firstSpanLoss n
              | [] => ((0:Nat) : α)) } :: ampInputsAux dstIsRoadm (some r) rest sels'
        | [] => [])
    | _ => ampInputsAux dstIsRoadm (some r) rest sels

/-- one `AmpIn` per Edfa of the (completed, padded) line, in line order; `sels` lists the final amplifier models -/
def ampInputs (dstIsRoadm : Bool) (line : List (Elem α)) (sels : List (Sel α)) : List (AmpIn α) :=
  ampInputsAux dstIsRoadm none (runs line) sels

/-- `target_power` of an amplifier without user `delta_p` needs `span_loss(next_node)`; when the next run holds a
RamanFiber whose gain is not estimated yet (and the first element has no cached `design_span_loss`) the code
raises TypeError (`dbm2watt(None)`) -/
def designRaisesAux : List (List (Elem α)) → Bool
  | [] => false
  | r :: rest =>
    (match r, rest with
      | [.edfa _ p], n :: _ =>
        p.deltaP.isNone && (match n with
          | e :: _ => e.dsl.isNone && n.any (fun x => x.isRaman)
          | [] => false)
      | _, _ => false) || designRaisesAux rest

def designRaises (line : List (Elem α)) : Bool := designRaisesAux (runs line)

/-- complete design of one OMS: inputs → outputs, starting from the egress power of the source
(`this_node_out_power`) -/
def designLine (c : Cfg α) (pref prefTotal srcPower : α) (dstIsRoadm : Bool) (line : List (Elem α))
    (sels : List (Sel α)) : List (AmpOut α) :=
  designAmps c pref prefTotal (srcPower - pref) ((0:Nat) : α) (ampInputs dstIsRoadm line sels)

/-! ### noiseless propagation of the reference channel (dB bookkeeping) -/

structure Step (α : Type) where
  /-- what the reference channel really loses between the previous amplifier's VOA and this amplifier's input -/
  trueLoss : α
  inp : AmpIn α

/-- power of the reference channel at each amplifier output: before and after the output VOA -/
def refPowers (c : Cfg α) (pref prefTotal : α) : α → α → α → List (Step α) → List (α × α)
  | _, _, _, [] => []
  | p, pd, pv, s :: rest =>
    let o := ampStep c pref prefTotal pd pv s.inp
    let pOut := p - s.trueLoss - o.inVoa + o.gain
    (pOut, pOut - o.outVoa) :: refPowers c pref prefTotal (pOut - o.outVoa) o.retDp o.retVoa rest

/-- the design quantities next to them -/
def refTargets (c : Cfg α) (pref prefTotal : α) : α → α → List (Step α) → List (α × α)
  | _, _, [] => []
  | pd, pv, s :: rest =>
    let o := ampStep c pref prefTotal pd pv s.inp
    (pref + o.dpInt, pref + o.dpInt - o.outVoa) :: refTargets c pref prefTotal o.retDp o.retVoa rest


/-! ### the design load: how many channels a band carries -/

/-- `automatic_nch(f_min, f_max, spacing) = int((f_max - f_min) // spacing)` (frequencies in integer Hz) -/
def automaticNch (fmin fmax spacing : Int) : Int := (fmax - fmin) / spacing

/-- `reference_channel.nb_channel if reference_channel.nb_channel else automatic_nch(band f_min, band f_max, band spacing)`:
the channel count imposed with the reference channel if there is one (Python truthiness: 0 counts as absent), else
the count of the DESIGN BAND with the design band's own spacing -/
def designChannels (nbRef : Option Int) (fmin fmax spacing : Int) : Int :=
  match nbRef with
  | some n => if n = 0 then automaticNch fmin fmax spacing else n
  | none => automaticNch fmin fmax spacing

/-! ### reference input powers (`set_fiber_input_power`, `set_roadm_input_powers`) -/

/-- the reference-channel power the design records at the input of every element of a designed line (and, as last
entry, at the input of the endpoint that ends it): passive elements subtract their `loss` (a RamanFiber its plain
loss: the estimated Raman gain is not considered by these two functions), an amplifier restarts the walk at
`pref_ch_db + _delta_p − out_voa` -/
def refIns (pref : α) : α → List (Elem α) → List (AmpOut α) → List α
  | p, [], _ => [p]
  | p, .edfa _ _ :: rest, o :: outs => p :: refIns pref (pref + o.dpInt - o.outVoa) rest outs
  | p, .edfa _ _ :: _, [] => [p]
  | p, .fiber _ q :: rest, outs => p :: refIns pref (p - q.loss) rest outs
  | p, .fused _ l :: rest, outs => p :: refIns pref (p - l) rest outs

/-- the same walk with the amplifiers doing what they do: `− in_voa + gain − out_voa` -/
def propIns : α → List (Elem α) → List (AmpOut α) → List α
  | p, [], _ => [p]
  | p, .edfa _ _ :: rest, o :: outs => p :: propIns (p - o.inVoa + o.gain - o.outVoa) rest outs
  | p, .edfa _ _ :: _, [] => [p]
  | p, .fiber _ q :: rest, outs => p :: propIns (p - q.loss) rest outs
  | p, .fused _ l :: rest, outs => p :: propIns (p - l) rest outs

/-- `pref_total_db[band] = pref_ch_db + lin2db(nb_channels_per_band)` -/
def prefTotalDb (pref : α) (nb : Int) : α := pref + lin2db ((nb.toNat : Nat) : α)

end
end Gnpy.Chain
