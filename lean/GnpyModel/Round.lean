import GnpyModel.Scalar
/- model file Round (see DESIGN.md §2) -/
namespace Gnpy

end Gnpy
