import GnpyModel.Scalar
/-
Exact decimal rounding of a binary64 value given by its bit pattern (C18).

`PrettyFloat.__repr__` (gnpy/tools/yang_convert_utils.py:72-96) prints a float with `f'{x:.{d}f}'`,
which CPython evaluates *exactly*: the binary value m·2^e is rounded half-to-even to d fraction digits
(correct rounding of the exact value, not of a decimal approximation), then trailing zeros are stripped
("12.50" -> "12.5", "3.000" -> "3.0").  Everything here is integer arithmetic on Nat/Int, so what is
proved is what is executed.

Also: decimal string -> nearest binary64 (Python `float(str)`, used by `convert_back`).
-/
namespace Gnpy.Round

/-- ⌊n/d⌉ with ties to the even quotient (`d > 0`) -/
def roundHalfEvenDiv (n d : Nat) : Nat :=
  let q := n / d
  let r := n % d
  if 2 * r < d then q
  else if d < 2 * r then q + 1
  else if q % 2 = 0 then q else q + 1

/-- a finite binary64 value: (-1)^neg · man · 2^exp -/
structure Dyadic where
  neg : Bool
  man : Nat
  exp : Int
  deriving Repr, DecidableEq

/-- decode an IEEE-754 binary64 bit pattern; `none` for inf/nan -/
def decode (bits : Nat) : Option Dyadic :=
  let sign : Bool := decide ((bits / 2 ^ 63) % 2 = 1)
  let be : Nat := (bits / 2 ^ 52) % 2048
  let frac : Nat := bits % 2 ^ 52
  if be = 2047 then none
  else if be = 0 then some ⟨sign, frac, -1074⟩
  else some ⟨sign, frac + 2 ^ 52, (be : Int) - 1075⟩

/-- numerator and denominator of |x|·10^d for x = man·2^exp -/
def scaled (x : Dyadic) (d : Nat) : Nat × Nat :=
  if 0 ≤ x.exp then (x.man * 2 ^ x.exp.toNat * 10 ^ d, 1)
  else (x.man * 10 ^ d, 2 ^ (-x.exp).toNat)

/-- |x| rounded half-even to d fraction digits, as the integer R with |x| ≈ R / 10^d -/
def roundDigits (x : Dyadic) (d : Nat) : Nat :=
  let s := scaled x d
  roundHalfEvenDiv s.1 s.2

/-- decimal digits of a natural number, most significant first ("0" for 0) -/
def natDigitsAux : Nat → Nat → List Char → List Char
  | 0, _, acc => acc
  | fuel + 1, n, acc =>
    let acc' := Char.ofNat (48 + n % 10) :: acc
    if n / 10 = 0 then acc' else natDigitsAux fuel (n / 10) acc'

def natDigits (n : Nat) : List Char := natDigitsAux (n + 1) n []

def padLeft (l : List Char) (w : Nat) : List Char := List.replicate (w - l.length) '0' ++ l

/-- drop trailing '0' characters -/
def stripZeros (l : List Char) : List Char := (l.reverse.dropWhile (· == '0')).reverse

/-- `f'{x:.{d}f}'` followed by the zero stripping of `PrettyFloat.__repr__`, for the rounded
    integer `r` (= |x|·10^d rounded) -/
def render (neg : Bool) (r d : Nat) : String :=
  let ip := natDigits (r / 10 ^ d)
  let sgn := if neg then ['-'] else []
  if d = 0 then String.ofList (sgn ++ ip)
  else
    let fp := stripZeros (padLeft (natDigits (r % 10 ^ d)) d)
    let fp := if fp.isEmpty then ['0'] else fp
    String.ofList (sgn ++ ip ++ ['.'] ++ fp)

/-- `str(PrettyFloat(x, d))` on the `f'{x:.{d}f}'` branch; `none` for inf/nan -/
def fmtBits (bits d : Nat) : Option String :=
  match decode bits with
  | none => none
  | some x => some (render x.neg (roundDigits x d) d)

/-- formatting of a Python int `i` through `PrettyFloat(i)` with d > 0 digits ("25" -> "25.0");
    exact for |i| < 2^53 (the generators stay below) -/
def fmtInt (i : Int) (d : Nat) : String := render (i < 0) (i.natAbs * 10 ^ d) d

/-! ### decimal text -> value -/

/-- parsed decimal: (-1)^neg · num / den · 10^e10   (den a power of ten) -/
structure Dec where
  neg : Bool
  num : Nat
  den : Nat
  deriving Repr, DecidableEq

def digitVal? (c : Char) : Option Nat :=
  if '0' ≤ c ∧ c ≤ '9' then some (c.toNat - 48) else none

def digitsVal : List Char → Option Nat
  | [] => some 0
  | cs => cs.foldlM (fun acc c => (digitVal? c).map (fun v => acc * 10 + v)) 0

def splitAtChar (p : Char → Bool) : List Char → List Char × Option (List Char)
  | [] => ([], none)
  | c :: cs => if p c then ([], some cs) else
    let r := splitAtChar p cs
    (c :: r.1, r.2)

/-- `[+-]?digits[.digits][(e|E)[+-]?digits]` (at least one digit in the mantissa) -/
def parseDec (s : String) : Option Dec :=
  let cs := s.toList
  let (neg, cs) := match cs with
    | '-' :: t => (true, t)
    | '+' :: t => (false, t)
    | t => (false, t)
  let (mant, ex) := splitAtChar (fun c => c == 'e' || c == 'E') cs
  let (ip, fp?) := splitAtChar (· == '.') mant
  let fp := fp?.getD []
  if ip.isEmpty && fp.isEmpty then none else
  match digitsVal ip, digitsVal fp with
  | some i, some f =>
    let num := i * 10 ^ fp.length + f
    let den := 10 ^ fp.length
    match ex with
    | none => some ⟨neg, num, den⟩
    | some e =>
      let (eneg, ed) := match e with
        | '-' :: t => (true, t)
        | '+' :: t => (false, t)
        | t => (false, t)
      if ed.isEmpty then none else
      match digitsVal ed with
      | none => none
      | some k => if eneg then some ⟨neg, num, den * 10 ^ k⟩ else some ⟨neg, num * 10 ^ k, den⟩
  | _, _ => none

/-- Python `int(str)` for plain decimal integers -/
def parseInt (s : String) : Option Int :=
  let cs := s.toList
  let (neg, cs) := match cs with
    | '-' :: t => (true, t)
    | '+' :: t => (false, t)
    | t => (false, t)
  if cs.isEmpty then none else
  match digitsVal cs with
  | none => none
  | some n => some (if neg then -(n : Int) else (n : Int))

/-- number of bits of n (0 for 0) -/
def bitLen (n : Nat) : Nat := if n = 0 then 0 else Nat.log2 n + 1

/-- nearest binary64 (ties to even) of the positive rational n/d, as (mantissa, exponent) with
    value mantissa·2^exponent, 2^52 ≤ mantissa < 2^53 for normal numbers, exponent = -1074 for
    subnormals; `none` on overflow -/
def nearestDyadic (n d : Nat) : Option (Nat × Int) :=
  if n = 0 then some (0, -1074) else
  -- first guess of e with 2^52 ≤ (n/d)/2^e < 2^53
  let e0 : Int := (bitLen n : Int) - (bitLen d : Int) - 53
  let quot (e : Int) : Nat × Nat := if 0 ≤ e then (n, d * 2 ^ e.toNat) else (n * 2 ^ (-e).toNat, d)
  let e1 : Int := let q := quot e0; if q.1 / q.2 < 2 ^ 52 then e0 - 1 else e0
  let e2 : Int := let q := quot e1; if 2 ^ 53 ≤ q.1 / q.2 then e1 + 1 else e1
  let e3 : Int := let q := quot e2; if 2 ^ 53 ≤ q.1 / q.2 then e2 + 1 else e2
  let e : Int := if e3 < -1074 then -1074 else e3
  let q := quot e
  let m := roundHalfEvenDiv q.1 q.2
  let (m, e) := if m = 2 ^ 53 then (2 ^ 52, e + 1) else (m, e)
  if 971 < e then none else some (m, e)

/-- encode (-1)^neg · m · 2^e (as produced by `nearestDyadic`) -/
def encode (neg : Bool) (m : Nat) (e : Int) : Nat :=
  let s := if neg then 2 ^ 63 else 0
  if m < 2 ^ 52 then s + m
  else s + ((e + 1075).toNat) * 2 ^ 52 + (m - 2 ^ 52)

/-- Python `float(str)` for decimal text: bit pattern of the nearest double; overflow -> ±inf -/
def parseFloatBits (s : String) : Option Nat :=
  match parseDec s with
  | none => none
  | some x =>
    match nearestDyadic x.num x.den with
    | some (m, e) => some (encode x.neg m e)
    | none => some ((if x.neg then 2 ^ 63 else 0) + 2047 * 2 ^ 52)

/-- does the decimal text `s` denote a value whose nearest double is `bits`? (used for the
    ≥ 17-digit `repr` branch: the string comes from the harness, the model only checks this) -/
def parsesBackTo (s : String) (bits : Nat) : Bool := parseFloatBits s == some bits

/-- the `repr` branch of `PrettyFloat.__repr__` (digits ≥ 17, repr has a '.' and no 'e'):
    integer part, '.', the first min(d, len) fraction characters, zeros stripped -/
def fmtRepr (r : String) (d : Nat) : String :=
  let (ip, fp?) := splitAtChar (· == '.') r.toList
  match fp? with
  | none => r
  | some fp =>
    let f := stripZeros (fp.take d)
    -- Python: rstrip('0') on the whole string then add '0' after a trailing '.'
    if f.isEmpty then String.ofList (ip ++ ['.', '0']) else String.ofList (ip ++ ['.'] ++ f)

end Gnpy.Round
