import GnpyModel.Scalar
/-
C04 — amplifier (gnpy/core/elements.py `Edfa.interpol_params/_nf/_calc_nf/noise_profile/_gain_profile/
propagate/__call__`, gnpy/core/science_utils.py `estimate_nf_model`, gnpy/tools/json_io.py `Amp.from_json`,
`_update_dual_stage`; numpy `linspace`, `interp`, `polyval`, degree-1 `polyfit`).

Conventions
* a noise figure in dB is an `Option α`: `none` stands for `-inf` (the OpenROADM booster is modelled by the
  code as a zero-noise amplifier with NF = `float('-inf')`); `db2linE none = 0`.
* frequencies and slot widths are integer Hz (`Nat`): the band filter is decided exactly; they are cast to
  `α` where the code computes with them.
* `Edfa.effective_gain` is *state*, but since repair 37e30883 every call clamps from the SET gain
  (`callGains`); before it `interpol_params` clamped the attribute with itself, so the "set" argument of
  `effGain` on a later call of the same object was the value left by the previous call (`callSeq`, kept as
  the counter-model of the repaired defect).
-/
namespace Gnpy.Edfa

section
variable {α : Type} [Add α] [Sub α] [Mul α] [Div α] [Neg α] [NatCast α] [LT α] [LE α]
  [DecidableLT α] [DecidableLE α] [Transc α]

/-! ### literals -/
def zero : α := ((0:Nat) : α)
/-- `0.3` -/
def c03 : α := ((3:Nat) : α) / ((10:Nat) : α)
/-- `0.01` -/
def c001 : α := ((1:Nat) : α) / ((100:Nat) : α)
/-- `0.05` -/
def c005 : α := ((5:Nat) : α) / ((100:Nat) : α)
/-- `1e-9` (default `rel_tol` of `math.isclose`) -/
def cNano : α := ((1:Nat) : α) / ((1000000000:Nat) : α)
/-- `1e-11` (`err_tolerance`) -/
def cTol : α := ((1:Nat) : α) / ((100000000000:Nat) : α)
/-- Planck constant `scipy.constants.h = 6.62607015e-34` J·s -/
def planck : α := ((662607015:Nat) : α) / ((1000000000000000000000000000000000000000000:Nat) : α)
/-- `50e9` -/
def c50G : α := ((50000000000:Nat) : α)

/-! ### saturation clamp (`interpol_params`) -/

/-- `self.effective_gain = min(self.effective_gain, self.params.p_max - self.pin_db)` -/
def effGain (set pmax pinDbm : α) : α := smin set (pmax - pinDbm)

/-- the gains applied by one amplifier object to a sequence of spectra with total input powers `pins` (dBm): every
call clamps from the set gain -/
def callGains (set pmax : α) (pins : List α) : List α := pins.map (effGain set pmax)

/-- COUNTER-MODEL (behaviour before repair 37e30883): the gain state after a sequence of calls when the clamped value
is written back over the set gain -/
def callSeq (set pmax : α) : List α → α
  | [] => set
  | p :: ps => callSeq (effGain set pmax p) pmax ps

/-! ### noise-figure models (`_nf`, `_calc_nf`) -/

inductive NfModel (α : Type) where
  | variableGain (nf1 nf2 deltaP : α)
  | fixedGain (nf0 : α)
  | openroadm (coef : List α)
  | openroadmPreamp
  | openroadmBooster
  | advanced (coef : List α)

/-- one amplifier stage as `_nf` sees it: `(type_def+nf_model+nf_fit_coeff, gain_min, gain_flatmax)` -/
structure Stage (α : Type) where
  model : NfModel α
  gainMin : α
  gainFlatmax : α

/-- `self.pin_db`, `self.nch`, `self.slot_width` (used by the OpenROADM models only) -/
structure Load (α : Type) where
  pinDb : α
  nch : α
  slotWidth : α

inductive AmpNf (α : Type) where
  | single (s : Stage α)
  | dual (pre boost : Stage α)

/-- numpy `polyval` (Horner, highest degree first) -/
def polyval (p : List α) (x : α) : α := p.foldl (fun y c => y * x + c) zero

def db2linE : Option α → α
  | none => zero
  | some x => db2lin x

/-- `pad = max(gain_min - gain_target, 0)` -/
def padOf (gainMin g : α) : α := smax (gainMin - g) zero

/-- `dg = max(gain_flatmax - gain_target, 0)` (after padding) -/
def dgOf (gainFlatmax g : α) : α := smax (gainFlatmax - g) zero

/-- variable-gain NF at padded gain `g` : `lin2db(db2lin(nf1) + db2lin(nf2) / db2lin(g1a))` -/
def nfVar (nf1 nf2 deltaP gainFlatmax g : α) : α :=
  lin2db (db2lin nf1 + db2lin nf2 / db2lin (g - deltaP - dgOf gainFlatmax g))

/-- `pin_ch_50GHz = self.pin_db - lin2db(self.nch) + lin2db(50e9 / self.slot_width)` -/
def pinCh50 (ld : Load α) : α := ld.pinDb - lin2db ld.nch + lin2db (c50G / ld.slotWidth)

/-- the un-padded NF of one stage at (already padded) gain `g` -/
def nfCore (s : Stage α) (ld : Load α) (g : α) : Option α :=
  match s.model with
  | .variableGain nf1 nf2 dp => some (nfVar nf1 nf2 dp s.gainFlatmax g)
  | .fixedGain nf0 => some nf0
  | .openroadm coef =>
      let x := pinCh50 ld
      some (x - polyval coef x + ((58:Nat) : α))
  | .openroadmPreamp =>
      let x := pinCh50 ld
      some (x - smin ((((4:Nat) : α) * x + ((275:Nat) : α)) / ((7:Nat) : α)) ((33:Nat) : α) + ((58:Nat) : α))
  | .openroadmBooster => none
  | .advanced coef => some (polyval coef (-(dgOf s.gainFlatmax g)))

/-- `Edfa._nf` : returns `(nf_avg + pad, pad)` -/
def stageNf (s : Stage α) (ld : Load α) (g : α) : Option α × α :=
  let pad := padOf s.gainMin g
  ((nfCore s ld (g + pad)).map (fun x => x + pad), pad)

/-- `lin2db(db2lin(nf1_avg) + db2lin(nf2_avg - g1))` -/
def dualNf (n1 n2 : Option α) (g1 : α) : Option α :=
  match n1, n2 with
  | none, none => none
  | _, _ => some (lin2db (db2linE n1 + db2linE (n2.map (fun x => x - g1))))

/-- `Edfa._calc_nf(avg=True)` together with `att_in` -/
def ampNfAvg (a : AmpNf α) (ld : Load α) (eff : α) : Option α × α :=
  match a with
  | .single s => stageNf s ld eff
  | .dual pre boost =>
      let g1 := pre.gainFlatmax
      let n1 := (stageNf pre ld g1).1
      let n2 := (stageNf boost ld (eff - g1)).1
      (dualNf n1 n2 g1, zero)

/-! ### `estimate_nf_model` -/

inductive NfErr where
  | nfMin | nfMax | zeroDiv | firstCoil | deltaP | calcMin | calcMax
  deriving DecidableEq, Repr

def NfErr.toString : NfErr → String
  | .nfMin => "nf_min" | .nfMax => "nf_max" | .zeroDiv => "ZeroDivisionError" | .firstCoil => "first_coil" | .deltaP => "delta_p"
  | .calcMin => "calc_nf_min" | .calcMax => "calc_nf_max"

/-- `math.isclose(a, b, abs_tol=0.01)` -/
def isclose01 (a b : α) : Bool :=
  Transc.abs (a - b) ≤ smax (cNano * smax (Transc.abs a) (Transc.abs b)) c001

/-- numpy `clip` -/
def clip (x lo hi : α) : α := smin (smax x lo) hi

/-- the denominator `1 / db2lin(g1a_max) - 1 / db2lin(g1a_min)` (Python floats: a zero here is a
`ZeroDivisionError`, which happens exactly when `gain_min = gain_max`) -/
def estDen (gmin gmax : α) : α :=
  let dp : α := ((5:Nat) : α)
  ((1:Nat) : α) / db2lin (gmax - dp) - ((1:Nat) : α) / db2lin (gmin - (gmax - gmin) - dp)

/-- second-coil NF of the unclipped solution -/
def estNf2 (gmin gmax nfmin nfmax : α) : α :=
  let dp : α := ((5:Nat) : α)
  let g1aMin := gmin - (gmax - gmin) - dp
  let g1aMax := gmax - dp
  lin2db ((db2lin nfmin - db2lin nfmax) / (((1:Nat) : α) / db2lin g1aMax - ((1:Nat) : α) / db2lin g1aMin))

/-- first-coil NF of the unclipped solution -/
def estNf1 (gmin gmax nfmin nfmax : α) : α :=
  lin2db (db2lin nfmin - db2lin (estNf2 gmin gmax nfmin nfmax) / db2lin (gmax - ((5:Nat) : α)))

/-- every intermediate value of `estimate_nf_model` -/
structure EstCore (α : Type) where
  nf1 : α
  nf2raw : α
  inRange : Bool
  nf2 : α
  g1aMax : α
  dp : α
  g1aMin : α
  calcMin : α
  calcMax : α

def estCore (gmin gmax nfmin nfmax : α) : EstCore α :=
  let dp0 : α := ((5:Nat) : α)
  let nf2 := estNf2 gmin gmax nfmin nfmax
  let nf1 := estNf1 gmin gmax nfmin nfmax
  let inRange : Bool := decide (nf1 + c03 < nf2) && decide (nf2 < nf1 + ((2:Nat) : α))
  let nf2' := if inRange then nf2 else clip nf2 (nf1 + c03) (nf1 + ((2:Nat) : α))
  let g1aMax := if inRange then gmax - dp0 else lin2db (db2lin nf2' / (db2lin nfmin - db2lin nf1))
  let dp := if inRange then dp0 else gmax - g1aMax
  let g1aMin := gmin - (gmax - gmin) - dp
  { nf1 := nf1, nf2raw := nf2, inRange := inRange, nf2 := nf2', g1aMax := g1aMax, dp := dp, g1aMin := g1aMin,
    calcMin := lin2db (db2lin nf1 + db2lin nf2' / db2lin g1aMax),
    calcMax := lin2db (db2lin nf1 + db2lin nf2' / db2lin g1aMin) }

/-- `estimate_nf_model(type_variety, gain_min, gain_max, nf_min, nf_max)` → `(nf1, nf2, delta_p)` -/
def estimateNfModel (gmin gmax nfmin nfmax : α) : Except NfErr (α × α × α) :=
  if nfmin < -(((10:Nat) : α)) then .error .nfMin
  else if nfmax < -(((10:Nat) : α)) then .error .nfMax
  else if ¬ (estDen gmin gmax < zero) ∧ ¬ (zero < estDen gmin gmax) then .error .zeroDiv
  else
    let c := estCore gmin gmax nfmin nfmax
    if c.nf1 < ((4:Nat) : α) then .error .firstCoil
    else if !c.inRange && !(decide (((1:Nat) : α) < c.dp) && decide (c.dp < ((11:Nat) : α))) then .error .deltaP
    else if !isclose01 nfmin c.calcMin then .error .calcMin
    else if !isclose01 nfmax c.calcMax then .error .calcMax
    else .ok (c.nf1, c.nf2, c.dp)

/-- `_update_dual_stage`: a dual-stage entry whose `gain_min` is below its preamp's is rejected -/
def dualStageOk (gainMin preGainMin : α) : Bool := !decide (gainMin < preGainMin)

/-- what `_update_dual_stage` gives a dual-stage library entry: `p_max` is the BOOSTER stage's (the stage that
delivers the output power), `gain_flatmax` the sum of both stages, the NF stages are the two entries; the
entry's own `gain_min` must not be below the preamp's (`none` = EquipmentConfigError) -/
structure StageLimits (α : Type) where
  pMax : α
  gainFlatmax : α
  gainMin : α

structure DualLimits (α : Type) where
  pMax : α
  gainFlatmax : α
  gainMin : α

def updateDualStage (pre boost : StageLimits α) (gainMin : α) : Option (DualLimits α) :=
  if dualStageOk gainMin pre.gainMin then
    some { pMax := boost.pMax, gainFlatmax := boost.gainFlatmax + pre.gainFlatmax, gainMin := gainMin }
  else none

/-! ### `Amp.from_json`: which NF definition a library entry yields, or how it is rejected -/

/-- result: the `type_def` whose model is built, or the error kind (`EquipmentConfigError` / `KeyError`).
`typeDef = none` ⇒ default `variable_gain`.  `has k` = key `k` present in the entry; `hasCfg` = the named
advanced/default configuration exists in `extra_configs`. `est` = the error kind `estimate_nf_model` raises
for the entry's values (`none` = accepted). -/
def fromJsonKind (typeDef : Option String) (has : String → Bool) (hasCfg : Bool) (est : Option String) :
    Except String String :=
  let td := typeDef.getD "variable_gain"
  if td == "fixed_gain" then
    if has "default_config_from_json" && !hasCfg then .error "KeyError"
    else if !has "nf0" then .error "EquipmentConfigError" else .ok td
  else if td == "advanced_model" then
    if !has "advanced_config_from_json" then .error "KeyError"
    else if !hasCfg then .error "KeyError" else .ok td
  else if td == "variable_gain" then
    if has "default_config_from_json" && !hasCfg then .error "KeyError"
    else if !has "gain_min" || !has "gain_flatmax" then .error "KeyError"
    else if !has "nf_min" || !has "nf_max" then .error "EquipmentConfigError"
    else match est with
      | some e => .error e
      | none => .ok td
  else if td == "openroadm" then
    if !has "nf_coef" then .error "EquipmentConfigError" else .ok td
  else if td == "openroadm_preamp" || td == "openroadm_booster" then .ok td
  else if td == "dual_stage" then
    if !has "preamp_variety" || !has "booster_variety" then .error "EquipmentConfigError" else .ok td
  else if td == "multi_band" then
    if !has "amplifiers" then .error "KeyError" else .ok td
  else .error "EquipmentConfigError"

/-! ### numpy `linspace` / `interp` -/

/-- `numpy.linspace(start, stop, n)` -/
def linspace (start stop : α) (n : Nat) : List α :=
  if n = 0 then []
  else if n = 1 then [start]
  else
    let step := (stop - start) / ((n - 1 : Nat) : α)
    (List.range n).map (fun i => if i = n - 1 then stop else ((i : Nat) : α) * step + start)

def interpGo (x : α) : α × α → List (α × α) → α
  | (_, f0), [] => f0
  | (x0, f0), (x1, f1) :: rest =>
      if x < x1 then (f1 - f0) / (x1 - x0) * (x - x0) + f0 else interpGo x (x1, f1) rest

/-- `numpy.interp(x, xp, fp)` for increasing `xp` (constant extrapolation) -/
def interp (xp fp : List α) (x : α) : α :=
  match xp.zip fp with
  | [] => zero
  | (x0, f0) :: rest => if x < x0 then f0 else interpGo x (x0, f0) rest

/-- `interp(freq, arrange_frequencies(len(v), f_min, f_max), v)` -/
def interpolOnBand (fmin fmax : α) (v : List α) (freqs : List α) : List α :=
  let xp := linspace fmin fmax v.length
  freqs.map (interp xp v)

/-! ### ASE (`noise_profile`) -/

/-- `h * baud_rate * frequency * db2lin(nf)`  (W, referred to the amplifier input) -/
def ase (baud f : α) (nf : Option α) : α := planck * baud * f * db2linE nf

/-! ### gain profile (`_gain_profile`) -/

def mean (l : List α) : α := sumL l / ((l.length : Nat) : α)

def maxL : List α → α
  | [] => zero
  | x :: xs => xs.foldl (fun a b => if a < b then b else a) x

def minL : List α → α
  | [] => zero
  | x :: xs => xs.foldl (fun a b => if b < a then b else a) x

/-- slope of the degree-1 least-squares fit (`polyfit(x, y, 1)[0]`), closed form -/
def fitSlope (xs ys : List α) : α :=
  let xm := mean xs
  let ym := mean ys
  sumL ((xs.zip ys).map (fun p => (p.1 - xm) * (p.2 - ym))) / sumL (xs.map (fun x => (x - xm) * (x - xm)))

/-- `watt2dbm(sum(pin * db2lin(g))) - tot_in_power_db` -/
def avgGain (pin g : List α) (pinDb : α) : α :=
  watt2dbm (sumL ((pin.zip g).map (fun p => p.1 * db2lin p.2))) - pinDb

/-- `g1st = gain_ripple + gain_flatmax + dgt * dgts1` -/
def g1st (ripple dgt : List α) (gainFlatmax dgts1 : α) : List α :=
  (ripple.zip dgt).map (fun p => p.1 + gainFlatmax + p.2 * dgts1)

/-- `voa = lin2db(mean(db2lin(g1st))) - effective_gain` -/
def voaOf (g : List α) (eff : α) : α := lin2db (mean (g.map db2lin)) - eff

/-- `g1st - voa + dgt * x` -/
def shifted (g dgt : List α) (voa x : α) : List α := (g.zip dgt).map (fun p => p.1 - voa + p.2 * x)

/-- the flat branch: `g1st - voa` -/
def flatProfile (g : List α) (eff : α) : List α := g.map (fun x => x - voaOf g eff)

/-- the one secant step of `_gain_profile` on the average-gain function `A` (average gain as a function of the
DGT scale `x`): centre, lower and upper estimates, two slopes, one correction towards `eff` -/
def secantStep (A : α → α) (eff xcent deltax : α) : α :=
  let gavgCent := A xcent
  let xlow := xcent - deltax
  let gavgLow := A xlow
  let xhigh := xcent + deltax
  let gavgHigh := A xhigh
  let slope1 := (gavgLow - gavgCent) / (xlow - xcent)
  let slope2 := (gavgCent - gavgHigh) / (xcent - xhigh)
  if Transc.abs (eff - gavgCent) ≤ cTol then xcent
  else if eff < gavgCent then xcent - (gavgCent - eff) / slope1
  else xcent + (-gavgCent + eff) / slope2

/-- `Edfa._gain_profile(pin)`; second component: distance of `deltax` to the `0.05` threshold -/
def gainProfile (freqs dgt ripple pin : List α) (eff gainFlatmax tilt fmin fmax pinDb : α) : List α × α :=
  if dgt.length = 1 then ([eff], ((1:Nat) : α))
  else
    let dgtSlope := fitSlope freqs dgt
    let targSlope := -tilt / (fmax - fmin)
    let dgts1 := if dgtSlope < zero ∨ zero < dgtSlope then targSlope / dgtSlope else zero
    let g1 := g1st ripple dgt gainFlatmax dgts1
    let voa := voaOf g1 eff
    let g2nd := g1.map (fun x => x - voa)
    let dgts2 := eff - avgGain pin g2nd pinDb
    let deltax := maxL g1 - minL g1
    let margin := Transc.abs (Transc.abs deltax - c005)
    if Transc.abs deltax ≤ c005 then (g2nd, margin)
    else
      (shifted g1 dgt voa
        (secantStep (fun x => avgGain pin (shifted g1 dgt voa x) pinDb) eff dgts2 deltax), margin)

/-! ### the whole crossing (`__call__` → `propagate` → `interpol_params`) -/

structure Chan (α : Type) where
  f : Nat
  slot : Nat
  baud : α
  p : α

/-- `is_in_band`: `f - slot/2 ≥ f_min ∧ f + slot/2 ≤ f_max` (decided on integers) -/
def inBand (fmin fmax : Nat) (f slot : Nat) : Bool := decide (2 * fmin + slot ≤ 2 * f) && decide (2 * f + slot ≤ 2 * fmax)

/-- `demuxed_spectral_information`: the channels kept, in order -/
def demux (fmin fmax : Nat) (cs : List (Chan α)) : List (Chan α) := cs.filter (fun c => inBand fmin fmax c.f c.slot)

structure Amp (α : Type) where
  fMin : Nat
  fMax : Nat
  gainFlatmax : α
  pMax : α
  nf : AmpNf α
  dgt : List α
  gainRipple : List α
  nfRipple : List α

/-- operational settings; `gain` is the *current* `effective_gain` attribute -/
structure Oper (α : Type) where
  gain : α
  tilt : α
  inVoa : Option α
  outVoa : α

structure Out (α : Type) where
  kept : List Nat
  pinDb : α
  effGain : α
  attIn : α
  nf : List (Option α)
  ase : List α
  gprofile : List α
  margin : α
  pch : List α
  poutDb : α

/-- input attenuation: `pch *= 1 / db2lin(in_voa)` -/
def attenuate (inVoa : Option α) (p : α) : α :=
  match inVoa with
  | none => p
  | some v => p * (((1:Nat) : α) / db2lin v)

/-- output power of one channel: `(p + ase) * db2lin(g - out_voa)` -/
def chanOut (p aseW g outVoa : α) : α := (p + aseW) * db2lin (g - outVoa)

/-- `Edfa.__call__`; `none` = `ValueError` (no channel inside the amplifier band) -/
def call (a : Amp α) (o : Oper α) (cs : List (Chan α)) : Option (Out α) :=
  let kept := demux a.fMin a.fMax cs
  match kept with
  | [] => none
  | c0 :: rest =>
    let pin := kept.map (fun c => attenuate o.inVoa c.p)
    let freqs := kept.map (fun c => ((c.f : Nat) : α))
    let fmin : α := ((a.fMin : Nat) : α)
    let fmax : α := ((a.fMax : Nat) : α)
    let iDgt := interpolOnBand fmin fmax a.dgt freqs
    let iRipple := interpolOnBand fmin fmax a.gainRipple freqs
    let iNfRipple := interpolOnBand fmin fmax a.nfRipple freqs
    let pinDb := watt2dbm (sumL pin)
    let slotW : α := match rest with
      | [] => ((c0.slot : Nat) : α)
      | c1 :: _ => ((c1.f : Nat) : α) - ((c0.f : Nat) : α)
    let eff := effGain o.gain a.pMax pinDb
    let ld : Load α := { pinDb := pinDb, nch := ((kept.length : Nat) : α), slotWidth := slotW }
    let (nfAvg, attIn) := ampNfAvg a.nf ld eff
    let nf := iNfRipple.map (fun r => nfAvg.map (fun x => r + x))
    let (gp, margin) := gainProfile freqs iDgt iRipple pin eff a.gainFlatmax o.tilt fmin fmax pinDb
    let aseL := (kept.zip nf).map (fun p => ase p.1.baud ((p.1.f : Nat) : α) p.2)
    let poutDb := watt2dbm (sumL ((pin.zip (aseL.zip gp)).map (fun p => (p.1 + p.2.1) * db2lin p.2.2)))
    let pch := (pin.zip (aseL.zip gp)).map (fun p => chanOut p.1 p.2.1 p.2.2 o.outVoa)
    some { kept := kept.map (fun c => c.f), pinDb := pinDb, effGain := eff, attIn := attIn, nf := nf,
           ase := aseL, gprofile := gp, margin := margin, pch := pch, poutDb := poutDb }

/-- `Multiband_amplifier.__call__`: every amplifier of the node receives the channels of its own band
(`demuxed_spectral_information`), the outputs are muxed; `none` = ValueError (no amplifier got a channel).
The result lists the per-amplifier outputs in the node's amplifier order (the muxed spectrum is their union
sorted by frequency). -/
def multiCall (amps : List (Amp α × Oper α)) (cs : List (Chan α)) : Option (List (Out α)) :=
  let outs := amps.filterMap (fun ao => call ao.1 ao.2 cs)
  if outs.isEmpty then none else some outs

end
end Gnpy.Edfa
