import GnpyModel.Scalar
/- model file Edfa (see DESIGN.md §2) -/
namespace Gnpy

end Gnpy
