import GnpyModel.Scalar
/- model file Spectrum (see DESIGN.md §2) -/
namespace Gnpy

end Gnpy
