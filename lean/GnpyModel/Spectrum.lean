import GnpyModel.Scalar
/-
C01 / C02 — power bookkeeping of `gnpy.core.info.SpectralInformation` and the way the elements of
`gnpy.core.elements` use it.

One channel of a `SpectralInformation` is a record `Chan` (`_pch`, `_signal_ratio`, `_ase_ratio`,
`_nli_ratio`).  The six mutating methods (`apply_attenuation_lin/db`, `apply_gain_lin/db`, `add_ase`,
`add_nli`) are the constructors of `Op`; numpy broadcasting is spelled out (an `Op` carries the
value of *this* channel).  `run` folds an op list over a channel.  Element `propagate` methods
are the op lists `fusedOps`, `roadmOps`, `fiberOps`, `ramanOps`, `edfaOps` (the numeric kernels that
produce the NLI / ASE / loss vectors are parameters here: C03, C04, C05 pin them).  Band split and
merge (`select_channels`, `__add__`, `muxed_spectral_information`, `Multiband_amplifier.__call__`)
act on keyed channels (integer-Hz frequency × `Chan`).  `Transceiver._calc_snr/update_snr` and
`utils.snr_sum` give the reported figures.
-/
namespace Gnpy.Spectrum

/-- one channel of a SpectralInformation: total power (W) and the three shares -/
structure Chan (α : Type) where
  p : α
  s : α
  a : α
  n : α

/-- the six mutating methods of SpectralInformation, with the argument seen by one channel -/
inductive Op (α : Type) where
  | attLin (g : α)
  | attDb (d : α)
  | gainLin (g : α)
  | gainDb (d : α)
  | addAse (e : α)
  | addNli (x : α)

section
variable {α : Type} [Add α] [Sub α] [Mul α] [Div α] [Neg α] [NatCast α] [LT α] [LE α]
  [DecidableLT α] [DecidableLE α] [Transc α]

namespace Chan

/-- `apply_attenuation_lin`: `self.pch *= attenuation_lin` -/
def attLin (c : Chan α) (g : α) : Chan α := { c with p := c.p * g }

/-- `apply_attenuation_db`: `attenuation_lin = 1 / db2lin(attenuation_db)` -/
def attDb (c : Chan α) (d : α) : Chan α := c.attLin (((1:Nat) : α) / db2lin d)

/-- `apply_gain_lin`: `self.pch *= gain_lin` -/
def gainLin (c : Chan α) (g : α) : Chan α := { c with p := c.p * g }

/-- `apply_gain_db`: `gain_lin = db2lin(gain_db)` -/
def gainDb (c : Chan α) (d : α) : Chan α := c.gainLin (db2lin d)

/-- `add_ase`:
```
pch = self.pch + ase
self._signal_ratio *= self.pch / pch
self._nli_ratio *= self.pch / pch
self._ase_ratio = (self._ase_ratio * self.pch + ase) / pch
self.pch = pch
``` -/
def addAse (c : Chan α) (e : α) : Chan α :=
  let p' := c.p + e
  { p := p', s := c.s * (c.p / p'), n := c.n * (c.p / p'), a := (c.a * c.p + e) / p' }

/-- `add_nli`:
```
nli_ratio = nli / self.pch
self._signal_ratio *= (1 - nli_ratio)
self._ase_ratio *= (1 - nli_ratio)
self._nli_ratio = (self._nli_ratio * (1 - nli_ratio) + nli_ratio)
``` -/
def addNli (c : Chan α) (x : α) : Chan α :=
  let r := x / c.p
  { p := c.p, s := c.s * (((1:Nat) : α) - r), a := c.a * (((1:Nat) : α) - r),
    n := c.n * (((1:Nat) : α) - r) + r }

/-- the derived powers `signal`, `ase`, `nli` (properties of SpectralInformation) -/
def signal (c : Chan α) : α := c.s * c.p
def ase (c : Chan α) : α := c.a * c.p
def nli (c : Chan α) : α := c.n * c.p

/-- `snr_lin` = signal_ratio / ase_ratio  (OSNR_ASE in the signal bandwidth) -/
def snrLin (c : Chan α) : α := c.s / c.a
/-- `snr_nli` = signal_ratio / nli_ratio -/
def snrNli (c : Chan α) : α := c.s / c.n
/-- `gsnr` = signal_ratio / (ase_ratio + nli_ratio) -/
def gsnr (c : Chan α) : α := c.s / (c.a + c.n)

/-- noise-to-signal ratios (the inverses of the three figures; total also when a share is zero) -/
def nsrAse (c : Chan α) : α := c.a / c.s
def nsrNli (c : Chan α) : α := c.n / c.s
def nsr (c : Chan α) : α := (c.a + c.n) / c.s

def snrLinDb (c : Chan α) : α := lin2db c.snrLin
def snrNliDb (c : Chan α) : α := lin2db c.snrNli
def gsnrDb (c : Chan α) : α := lin2db c.gsnr

end Chan

/-- the literal `12.5e9` (0.1 nm reference bandwidth) -/
def refBw : α := ((12500000000:Nat) : α)

/-- `opt_*_db`: figure in 0.1 nm, `x - lin2db(12.5e9 / baud_rate)` -/
def optDb (x baud : α) : α := x - lin2db (refBw / baud)

/-- one mutating call on one channel -/
def step (c : Chan α) : Op α → Chan α
  | .attLin g => c.attLin g
  | .attDb d => c.attDb d
  | .gainLin g => c.gainLin g
  | .gainDb d => c.gainDb d
  | .addAse e => c.addAse e
  | .addNli x => c.addNli x

/-- a sequence of mutating calls -/
def run (ops : List (Op α)) (c : Chan α) : Chan α := ops.foldl step c

/-! ### elements (gnpy/core/elements.py `propagate` methods) -/

/-- `Fused.propagate`: `apply_attenuation_db(self.loss)` -/
def fusedOps (loss : α) : List (Op α) := [.attDb loss]

/-- `Roadm.propagate`: `apply_attenuation_db(roadm_maxloss_db)` then `apply_attenuation_db(delta_power)` -/
def roadmOps (maxloss delta : α) : List (Op α) := [.attDb maxloss, .attDb delta]

/-- `Fiber.propagate`: input connector+padding (dB), NLI at the fibre input, fibre loss profile
(linear), output connector (dB) -/
def fiberOps (attIn nli attFiber attOut : α) : List (Op α) :=
  [.attDb attIn, .addNli nli, .attLin attFiber, .attDb attOut]

/-- `RamanFiber.propagate`: as Fiber plus spontaneous Raman ASE after the NLI -/
def ramanOps (attIn nli ase attFiber attOut : α) : List (Op α) :=
  [.attDb attIn, .addNli nli, .addAse ase, .attLin attFiber, .attDb attOut]

/-- `Edfa.propagate`: optional input VOA (`if self.in_voa is not None`), ASE referred to the input,
then `apply_gain_db(gprofile - out_voa)` -/
def edfaOps (inVoa : Option α) (ase gainDb : α) : List (Op α) :=
  (match inVoa with
   | some v => [.attDb v]
   | none => []) ++ [.addAse ase, .gainDb gainDb]

/-- a line element as one channel sees it -/
inductive Elem (α : Type) where
  | fused (loss : α)
  | roadm (maxloss delta : α)
  | fiber (attIn nli attFiber attOut : α)
  | raman (attIn nli ase attFiber attOut : α)
  | edfa (inVoa : Option α) (ase gainDb : α)
  | trx

def Elem.ops : Elem α → List (Op α)
  | .fused l => fusedOps l
  | .roadm m d => roadmOps m d
  | .fiber i x f o => fiberOps i x f o
  | .raman i x e f o => ramanOps i x e f o
  | .edfa v e g => edfaOps v e g
  | .trx => []

/-- element `__call__` on one channel -/
def Elem.apply (e : Elem α) (c : Chan α) : Chan α := run e.ops c

/-- `request.propagate`: `for el in path: si = el(si)` as one channel sees it -/
def path (es : List (Elem α)) (c : Chan α) : Chan α := es.foldl (fun c e => e.apply c) c

/-- a whole spectrum through one element: channel `i` sees `es[i]` (numpy broadcasting spelled out) -/
def applyElems (es : List (Elem α)) (sp : List (Chan α)) : List (Chan α) :=
  List.zipWith Elem.apply es sp

/-! ### band split / merge on keyed channels (key = frequency in Hz) -/

/-- `select_channels(spectrum, select)` -/
def demux (keep : Int → Bool) (sp : List (Int × Chan α)) : List (Int × Chan α) :=
  sp.filter (fun kc => keep kc.1)

/-- insertion into a key-sorted list (before equal keys; with `sortK` below: a stable sort) -/
def insertK (x : Int × Chan α) : List (Int × Chan α) → List (Int × Chan α)
  | [] => [x]
  | y :: ys => if x.1 ≤ y.1 then x :: y :: ys else y :: insertK x ys

/-- `argsort(frequency)` of the constructor (stable insertion sort; accepted spectra have distinct
frequencies so stability is immaterial) -/
def sortK : List (Int × Chan α) → List (Int × Chan α)
  | [] => []
  | x :: xs => insertK x (sortK xs)

/-- `SpectralInformation.__add__` as far as the bookkeeping is concerned: append, re-sort
(rejections are C07's model `Bands.mkSpectrum`) -/
def add2 (x y : List (Int × Chan α)) : List (Int × Chan α) := sortK (x ++ y)

/-- `muxed_spectral_information`: `l[0] + mux(l[1:])`; `none` = `ValueError('liste vide')` -/
def mux : List (List (Int × Chan α)) → Option (List (Int × Chan α))
  | [] => none
  | [x] => some x
  | x :: y :: r =>
    match mux (y :: r) with
    | some m => some (add2 x m)
    | none => none

/-- `Multiband_amplifier.__call__`: each amplifier (band predicate, per-frequency element) takes its
own channels, empty selections are skipped, the outputs are merged.
`none` = `ValueError('Defined propagation band does not match amplifiers band.')` -/
def multiband (amps : List ((Int → Bool) × (Int → Elem α))) (sp : List (Int × Chan α)) :
    Option (List (Int × Chan α)) :=
  let outs := amps.filterMap (fun bf =>
    let si := demux bf.1 sp
    if si.isEmpty then none else some (si.map (fun kc => (kc.1, (bf.2 kc.1).apply kc.2))))
  mux outs

/-! ### reported figures (Transceiver) -/

/-- `utils.snr_sum(snr, bw, snr_added, bw_added=12.5e9)` -/
def snrSum (snr bw snrAdded : α) : α :=
  let sa := snrAdded - lin2db (bw / refBw)
  Neg.neg (lin2db (db2lin (-snr) + db2lin (-sa)))

/-- `snr_added` of `Transceiver.update_snr(*args)` (the `None` arguments already dropped) -/
def snrAddedLin (args : List α) : α := args.foldl (fun acc s => acc + db2lin (-s)) ((0:Nat) : α)
def snrAdded (args : List α) : α := Neg.neg (lin2db (snrAddedLin args))

/-- what `Transceiver._calc_snr` records (dB, signal bandwidth): `(osnr_ase, osnr_nli, snr)` -/
def calcSnr (c : Chan α) : α × α × α := (c.snrLinDb, c.snrNliDb, c.gsnrDb)

/-- `Transceiver.update_snr`: `(osnr_ase, osnr_nli, snr)` after adding the lumped penalties; uses the raw values;
`osnr_nli` is left as recorded -/
def updateSnr (c : Chan α) (baud : α) (args : List α) : α × α × α :=
  let added := snrAdded args
  (snrSum c.snrLinDb baud added, c.snrNliDb, snrSum c.gsnrDb baud added)

/-- what a receiver holds per channel: the raw figures recorded by `_calc_snr` (dB; signal bandwidth and 0.1 nm) and
the reported ones (`osnr_ase`, `osnr_nli`, `snr`, `osnr_ase_01nm`, `snr_01nm`) -/
structure TrxFig (α : Type) where
  rawOsnr : α
  rawNli : α
  rawSnr : α
  rawOsnr01 : α
  rawSnr01 : α
  osnr : α
  nli : α
  snr : α
  osnr01 : α
  snr01 : α

/-- `Transceiver._calc_snr`: raw values recorded, reported values reset to the raw ones -/
def TrxFig.calc (c : Chan α) (baud : α) : TrxFig α :=
  let o := c.snrLinDb
  let n := c.snrNliDb
  let g := c.gsnrDb
  { rawOsnr := o, rawNli := n, rawSnr := g, rawOsnr01 := optDb o baud, rawSnr01 := optDb g baud,
    osnr := o, nli := n, snr := g, osnr01 := optDb o baud, snr01 := optDb g baud }

/-- one `Transceiver.update_snr(*args)` call: every reported figure is recomputed from the RAW one
("use raw_values so that the added SNR penalties are not cumulated"); `osnr_nli` is not touched -/
def TrxFig.update (t : TrxFig α) (baud : α) (args : List α) : TrxFig α :=
  let added := snrAdded args
  { t with osnr := snrSum t.rawOsnr baud added, snr := snrSum t.rawSnr baud added,
           osnr01 := snrSum t.rawOsnr01 refBw added, snr01 := snrSum t.rawSnr01 refBw added }

/-- several `update_snr` calls on the same receiver with no propagation in between (automatic mode selection) -/
def TrxFig.updates (t : TrxFig α) (baud : α) (calls : List (List α)) : TrxFig α :=
  calls.foldl (fun t a => t.update baud a) t

end
end Gnpy.Spectrum
