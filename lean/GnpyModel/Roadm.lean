import GnpyModel.Scalar
/-
C06 — ROADM equalisation (gnpy/core/elements.py `Roadm.propagate`, `get_per_degree_power`,
`get_per_degree_ref_power`, `get_roadm_target_power`; gnpy/core/parameters.py `RoadmParams`;
gnpy/tools/json_io.py `merge_equalization`; gnpy/core/network.py `set_roadm_per_degree_targets`).
-/
namespace Gnpy.Roadm

section
variable {α : Type} [Add α] [Sub α] [Mul α] [Div α] [Neg α] [NatCast α] [LT α] [LE α]
  [DecidableLT α] [DecidableLE α] [Transc α]

/-- the literal `1e-9` -/
def nano : α := ((1:Nat) : α) / ((1000000000:Nat) : α)

/-- utils.psd2powerdbm : `lin2db(baudrate * psd * 1e-9)` -/
def psd2powerdbm (psd baud : α) : α := lin2db (baud * psd * nano)

/-- node-level equalisation parameters (each may be `None`) -/
structure NodeTargets (α : Type) where
  pch : Option α
  psd : Option α
  psw : Option α

/-- per-degree dictionaries (association lists in insertion order) -/
structure DegreeTargets (α : Type) where
  pch : List (String × α)
  psd : List (String × α)
  psw : List (String × α)

/-- `Roadm.get_roadm_target_power` for one carrier of baud rate `baud`, slot width `slot` -/
def nodeTarget (t : NodeTargets α) (baud slot : α) : Option α :=
  match t.pch with
  | some v => some v
  | none =>
    match t.psd with
    | some v => some (psd2powerdbm v baud)
    | none =>
      match t.psw with
      | some v => some (psd2powerdbm v slot)
      | none => none

/-- `Roadm.get_per_degree_power` / `get_per_degree_ref_power`: the degree's own setting if one exists
(looked up in the order pch, psd, psw), else the node's. -/
def degreeTarget (d : DegreeTargets α) (t : NodeTargets α) (degree : String) (baud slot : α) : Option α :=
  match d.pch.lookup degree with
  | some v => some v
  | none =>
    match d.psd.lookup degree with
    | some v => some (psd2powerdbm v baud)
    | none =>
      match d.psw.lookup degree with
      | some v => some (psd2powerdbm v slot)
      | none => nodeTarget t baud slot

/-- utils.calculate_absolute_min_or_zero : `(abs(x) - x) / 2` -/
def absMinOrZero (x : α) : α := (Transc.abs x - x) / ((2:Nat) : α)

/-- attenuation (dB) the ROADM applies to one carrier after the max-loss stage:
`net_input - (target_power_per_channel - correction)` -/
def deltaPower (netDbm target offset : α) : α :=
  let tp := target + offset
  netDbm - (tp - absMinOrZero (netDbm - tp))

/-- One carrier through `Roadm.propagate`: power in W in, power in W out.
The two `apply_attenuation_db` calls are modelled literally (`pch *= 1 / db2lin(att)`). -/
def chanOut (p maxloss target offset : α) : α :=
  let p1 := p * (((1:Nat) : α) / db2lin maxloss)
  let net := watt2dbm p1
  p1 * (((1:Nat) : α) / db2lin (deltaPower net target offset))

/-- the same computation expressed in dBm (what the property states) -/
def chanOutDbm (inDbm maxloss target offset : α) : α :=
  let net := inDbm - maxloss
  net - deltaPower net target offset

/-- `ref_pch_out_dbm = min(ref_pch_in_dbm - max(roadm_maxloss_db), ref_per_degree_pch)` -/
def refOut (refIn maxMaxloss refTarget : α) : α := smin (refIn - maxMaxloss) refTarget

/-- `ref_effective_loss` -/
def refLoss (refIn maxMaxloss refTarget : α) : α := refIn - refOut refIn maxMaxloss refTarget

/-- number of node-level policies given -/
def policyCount (t : NodeTargets α) : Nat :=
  (if t.pch.isSome then 1 else 0) + (if t.psd.isSome then 1 else 0) + (if t.psw.isSome then 1 else 0)

/-- `RoadmParams.__init__`: more than one equalisation type is a `ParametersError` -/
def paramsAccepted (t : NodeTargets α) : Bool := policyCount t ≤ 1

/-- json_io.Roadm (equipment library entry): exactly one equalisation key must be present
(`EquipmentConfigError` for none and for more than one) -/
def eqptAccepted (hasPch hasPsd hasPsw : Bool) : Bool :=
  (if hasPch then 1 else 0) + (if hasPsd then 1 else 0) + (if hasPsw then 1 else 0) = 1

/-- json_io.merge_equalization on the *presence* of keys: `none` = error (more than one type in the
element), `some true` = the library default equalisation is dropped, `some false` = it is kept. -/
def mergeEqualization (elemHasPch elemHasPsd elemHasPsw : Bool) : Option Bool :=
  let c := (if elemHasPch then 1 else 0) + (if elemHasPsd then 1 else 0) + (if elemHasPsw then 1 else 0)
  if c > 1 then none else if c = 1 then some true else some false

/-- `set_roadm_per_degree_targets` for one egress degree (the repaired behaviour: a target is
present when it `is not None`; see known_findings F5).  `none` = ConfigurationError. -/
def populateDegree (d : DegreeTargets α) (t : NodeTargets α) (degree : String) : Option (DegreeTargets α) :=
  if (d.pch.lookup degree).isSome || (d.psd.lookup degree).isSome || (d.psw.lookup degree).isSome then some d
  else
    match t.pch with
    | some v => some { d with pch := d.pch ++ [(degree, v)] }
    | none =>
      match t.psd with
      | some v => some { d with psd := d.psd ++ [(degree, v)] }
      | none =>
        match t.psw with
        | some v => some { d with psw := d.psw ++ [(degree, v)] }
        | none => none

/-- all egress degrees in turn -/
def populate (d : DegreeTargets α) (t : NodeTargets α) : List String → Option (DegreeTargets α)
  | [] => some d
  | g :: gs =>
    match populateDegree d t g with
    | none => none
    | some d' => populate d' t gs

/-! ### impairment profile selection and per-frequency lookup
(`network.set_roadm_internal_paths`, `Roadm.set_roadm_paths`, `Roadm.get_impairment`) -/

inductive PType | express | add | drop
  deriving DecidableEq, Repr

/-- one `frequency-range` item of an impairment profile: bounds (`None` lower bound = applies everywhere)
and the value of the requested impairment (`None` = key absent and default `None`) -/
structure Band (α : Type) where
  lo : Option α
  hi : α
  value : Option α

/-- an impairment profile of the equipment library -/
structure Profile (α : Type) where
  id : Nat
  ptype : PType
  bands : List (Band α)

/-- first profile (library order) whose path type is `t` -/
def firstOfType (profiles : List (Profile α)) (t : PType) : Option (Profile α) :=
  profiles.find? (fun p => p.ptype = t)

def profileById (profiles : List (Profile α)) (i : Nat) : Option (Profile α) :=
  profiles.find? (fun p => p.id = i)

/-- Which profile an internal connection of path type `t` uses. `user` = the id of the
`per_degree_impairments` entry for this (from, to) pair, if any.
* no entry: the first library profile of that path type, else `none` (= the node's global values, max loss 0);
* entry: that profile; an unknown id is a NetworkTopologyError; on add/drop connections a profile of another
  path type is a NetworkTopologyError (express connections are not checked by the code). -/
def selectProfile (profiles : List (Profile α)) (user : Option Nat) (t : PType) : Except String (Option (Profile α)) :=
  match user with
  | none => .ok (firstOfType profiles t)
  | some i =>
    match profileById profiles i with
    | none => .error "NetworkTopologyError"
    | some p =>
      if t ≠ PType.express ∧ p.ptype ≠ t then .error "NetworkTopologyError" else .ok (some p)

/-- `get_impairment` for one carrier: the first band that contains the frequency and carries a value -/
def lookupBands (bands : List (Band α)) (f : α) : Option α :=
  match bands with
  | [] => none
  | b :: bs =>
    let inside := match b.lo with
      | none => true
      | some lo => decide (lo ≤ f) && decide (f ≤ b.hi)
    if inside then
      match b.value with
      | some v => some v
      | none => lookupBands bs f
    else lookupBands bs f

/-- max loss of one carrier on a connection whose selected profile is `sel` (no profile: 0, the default) -/
def maxlossOf (sel : Option (Profile α)) (f : α) : Option α :=
  match sel with
  | none => some ((0:Nat) : α)
  | some p => lookupBands p.bands f

end
end Gnpy.Roadm
