/-
Numeric kernel of the model. Every numeric model function is written ONCE, polymorphically over the
core algebraic classes plus `Transc`; it is executed at `α := Float` by the driver and reasoned about
at `α := ℝ` in GnpyProofs (DESIGN.md §2.3).  Core Lean only (the driver must link).
-/
namespace Gnpy

/-- transcendental interface -/
class Transc (α : Type) where
  exp : α → α
  log : α → α
  sqrt : α → α
  asinh : α → α
  abs : α → α

instance : NatCast Float := ⟨Float.ofNat⟩
instance : Transc Float := ⟨Float.exp, Float.log, Float.sqrt, Float.asinh, Float.abs⟩

section
variable {α : Type} [Add α] [Sub α] [Mul α] [Div α] [Neg α] [NatCast α] [LT α] [LE α]
  [DecidableLT α] [DecidableLE α] [Transc α]

/-- `min` as Python/numpy compute it on ordinary numbers -/
def smin (x y : α) : α := if x ≤ y then x else y
def smax (x y : α) : α := if x ≤ y then y else x

/-- gnpy.core.utils.db2lin : `10 ** (x / 10)` -/
def db2lin (x : α) : α := Transc.exp (x / (10:Nat) * Transc.log ((10:Nat) : α))
/-- gnpy.core.utils.lin2db : `10 * log10(x)` -/
def lin2db (x : α) : α := (10:Nat) * (Transc.log x / Transc.log ((10:Nat) : α))
/-- watt2dbm : `lin2db(x * 1e3)` -/
def watt2dbm (x : α) : α := lin2db (x * ((1000:Nat) : α))
/-- dbm2watt : `db2lin(x) * 1e-3` -/
def dbm2watt (x : α) : α := db2lin x / ((1000:Nat) : α)

def sumL : List α → α
  | [] => ((0:Nat) : α)
  | x :: xs => x + sumL xs

end
end Gnpy
