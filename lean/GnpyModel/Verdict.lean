import GnpyModel.Scalar
/- model file Verdict (see DESIGN.md §2) -/
namespace Gnpy

end Gnpy
