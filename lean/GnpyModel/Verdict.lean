import GnpyModel.Scalar
import GnpyModel.RoundHE
import GnpyModel.Roadm
/-
C13 — feasibility verdict and automatic mode selection.

Transliterates
* gnpy/core/utils.py `snr_sum`
* gnpy/core/elements.py `Transceiver._calc_snr / update_snr / _calc_penalty / calc_penalties`
* gnpy/tools/json_io.py `Transceiver.__init__` (normalisation of the penalty tables)
* gnpy/topology/request.py `propagate` (bookkeeping of the added-noise contributions),
  `propagate_and_optimize_mode` (mode loop), `compute_path_with_disjunction` (verdict, both directions).

The line propagation itself (what the receiver sees before tx / add-drop noise is added: the `raw_*`
arrays, CD, PMD, PDL) is an *input* of this model (C01–C05 pin it).
-/
namespace Gnpy.Verdict
open Gnpy.HE

/-! ## numeric part (polymorphic: `Float` in the driver, `ℝ` in the theorems) -/
section numeric
variable {α : Type} [Add α] [Sub α] [Mul α] [Div α] [Neg α] [NatCast α] [LT α] [LE α]
  [DecidableLT α] [DecidableLE α] [Transc α]

/-- the literal `12.5e9` (0.1 nm reference bandwidth) -/
def bwRef : α := ((12500000000:Nat) : α)

/-- utils.snr_sum: `snr_added -= lin2db(bw/12.5e9); -lin2db(db2lin(-snr) + db2lin(-snr_added))` -/
def snrSum (snr bw snrAdded : α) : α :=
  let sa := snrAdded - lin2db (bw / bwRef);
  -(lin2db (db2lin (-snr) + db2lin (-sa)))

/-- `snr_added = 0; for s in args: if s is not None: snr_added += db2lin(-s)` -/
def addStep (acc : α) (s : Option α) : α :=
  match s with
  | some v => acc + db2lin (-v)
  | none => acc

def addedLin (args : List (Option α)) : α := args.foldl addStep ((0:Nat) : α)

/-- `snr_added = -lin2db(snr_added)` -/
def snrAdded (args : List (Option α)) : α := -(lin2db (addedLin args))

/-- one received channel: the line-only (`raw_*`) figures written by `_calc_snr`, and the figures in force -/
structure Rx (α : Type) where
  rawOsnrAse : α
  rawOsnrAse01 : α
  rawSnr : α
  rawSnr01 : α
  baud : α
  osnrAse : α
  osnrAse01 : α
  snr : α
  snr01 : α

/-- `Transceiver._calc_snr` for one channel: figures in force := raw figures -/
def calcSnr (rawOsnrAse rawOsnrAse01 rawSnr rawSnr01 baud : α) : Rx α :=
  { rawOsnrAse, rawOsnrAse01, rawSnr, rawSnr01, baud,
    osnrAse := rawOsnrAse, osnrAse01 := rawOsnrAse01, snr := rawSnr, snr01 := rawSnr01 }

/-- `Transceiver.update_snr(*args)` for one channel: recomputed from the RAW values -/
def updateSnr (r : Rx α) (args : List (Option α)) : Rx α :=
  let a := snrAdded args
  { r with
    osnrAse := snrSum r.rawOsnrAse r.baud a
    snr := snrSum r.rawSnr r.baud a
    osnrAse01 := snrSum r.rawOsnrAse01 bwRef a
    snr01 := snrSum r.rawSnr01 bwRef a }

/-- any number of successive `update_snr` calls -/
def updateSnrSeq (r : Rx α) (calls : List (List (Option α))) : Rx α := calls.foldl updateSnr r

/-- a penalty in dB: finite or `inf` (numpy.interp with `left = right = inf`) -/
inductive Pen (α : Type) where
  | fin (v : α)
  | inf

/-- `numpy.interp(x, xp, fp, left=inf, right=inf)` on the zipped, ascending table, once `xp[0] ≤ x` is known:
`j` = the largest index with `xp[j] ≤ x`; `xp[j] == x` (in particular the last point) returns `fp[j]`;
beyond the last point `right`; else `slope*(x − xp[j]) + fp[j]`. -/
def interpFrom (x : α) : List (α × α) → Pen α
  | [] => .inf
  | [(a, fa)] => if a < x then .inf else .fin fa
  | (a, fa) :: (b, fb) :: rest =>
    if x < b then
      (if a < x then .fin ((fb - fa) / (b - a) * (x - a) + fa) else .fin fa)
    else interpFrom x ((b, fb) :: rest)

/-- `Transceiver._calc_penalty` -/
def interpPenalty (x : α) (table : List (α × α)) : Pen α :=
  match table with
  | [] => .inf
  | (a, _) :: _ => if x < a then .inf else interpFrom x table

def Pen.add : Pen α → Pen α → Pen α
  | .fin a, .fin b => .fin (a + b)
  | _, _ => .inf

/-- `total_penalty = sum(list(self.penalties.values()), axis=0)` for one channel (0 when no table) -/
def totalPenalty (ps : List (Pen α)) : Pen α :=
  match ps with
  | [] => .fin ((0:Nat) : α)
  | p :: rest => rest.foldl Pen.add p

/-- `snr_01nm − total_penalty` for one channel; `none` = −∞ -/
def metric (snr01 : α) (p : Pen α) : Option α :=
  match p with
  | .fin v => some (snr01 - v)
  | .inf => none

/-- `min` over the channels (Python `min`: first minimum); `none` = −∞ absorbs -/
def minMetric : List (Option α) → Option α
  | [] => none
  | [m] => m
  | m :: rest =>
    match m, minMetric rest with
    | some a, some b => if b < a then some b else some a
    | _, _ => none

/-- json_io.Transceiver `imp_penalties.sort(key=…)`: insertion for a stable ascending sort.  Used while folding the
input from the back, so the inserted element came EARLIER than everything in the list and precedes equal keys. -/
def insertAsc (e : α × α) : List (α × α) → List (α × α)
  | [] => [e]
  | y :: ys => if y.1 < e.1 then y :: insertAsc e ys else e :: y :: ys

/-- stable ascending sort by impairment value -/
def sortAsc (l : List (α × α)) : List (α × α) := l.foldr insertAsc []

/-- penalty-table normalisation at load: if every boundary is `> 0` the point (0, 0) is put in front; then the
list is sorted by boundary (stable) -/
def normalise (entries : List (α × α)) : List (α × α) :=
  let zero : α := ((0:Nat) : α)
  let l := if entries.all (fun e => decide (zero < e.1)) then (zero, zero) :: entries else entries
  sortAsc l

end numeric

section verdict
variable {α : Type} [Add α] [Sub α] [Mul α] [Div α] [Neg α] [NatCast α] [LT α] [LE α]
  [DecidableLT α] [DecidableLE α] [Rint α]

/-- fixed-mode verdict of one direction: blocked iff `round(min(...), 2) < OSNR + margin`; −∞ is blocked -/
def passFixed (m : Option α) (osnr margin : α) : Bool :=
  match m with
  | none => false
  | some v => ! decide (round2 v < osnr + margin)

/-- automatic mode selection accepts a mode iff `round(min(...), 2) > OSNR + margin` (strict) -/
def passAuto (m : Option α) (osnr margin : α) : Bool :=
  match m with
  | none => false
  | some v => decide (osnr + margin < round2 v)

end verdict

/-! ## discrete part: the mode loop -/

/-- what the mode loop looks at.  Frequencies/rates are integer Hz, the equalisation offset an integer number of
milli-dB (the generators emit such values; only the ORDER of offsets matters to the loop). -/
structure Mode where
  id : Nat
  baud : Int
  bitRate : Int
  minSpacing : Int
  offset : Int
deriving DecidableEq, Repr

/-- `float(mode['min_spacing']) <= req.spacing` -/
def fits (spacing : Int) (m : Mode) : Bool := decide (m.minSpacing ≤ spacing)

/-- lexicographic `>` on pairs (Python tuple comparison) -/
def pairGt (a b : Int × Int) : Bool := decide (a.1 > b.1) || (decide (a.1 = b.1) && decide (a.2 > b.2))

/-- insert in a strictly descending duplicate-free list -/
def insertDesc (p : Int × Int) : List (Int × Int) → List (Int × Int)
  | [] => [p]
  | q :: qs => if pairGt p q then p :: q :: qs else if p = q then q :: qs else q :: insertDesc p qs

/-- `sorted(set((baud, offset) for fitting modes), reverse=True)` -/
def pairsDesc (modes : List Mode) (spacing : Int) : List (Int × Int) :=
  (modes.filter (fits spacing)).foldl (fun acc m => insertDesc (m.baud, m.offset) acc) []

/-- `sorted(set(baud for fitting modes), reverse=True)` (repaired loop) -/
def baudsDesc (modes : List Mode) (spacing : Int) : List Int :=
  ((modes.filter (fits spacing)).foldl (fun acc m => insertDesc (m.baud, 0) acc) []).map (·.1)

/-- sort key `(bit_rate, equalization_offset_db)` -/
def key (m : Mode) : Int × Int := (m.bitRate, m.offset)

/-- insertion for `sorted(..., key=…, reverse=True)`: descending, stable (equal keys keep input order).
Used while folding the input from the back, so the inserted element precedes equal keys. -/
def insertKeyDesc (m : Mode) : List Mode → List Mode
  | [] => [m]
  | y :: ys => if pairGt (key y) (key m) then y :: insertKeyDesc m ys else m :: y :: ys

def sortKeyDesc (l : List Mode) : List Mode := l.foldr insertKeyDesc []

/-- `modes_to_explore` for one baud rate -/
def modesOf (modes : List Mode) (spacing : Int) (baud : Int) : List Mode :=
  sortKeyDesc (modes.filter (fun m => decide (m.baud = baud) && fits spacing m))

/-- result of `propagate_and_optimize_mode`; `prop` = the (baud, offset) pair of the propagation that is left on
the path (the receiver figures that get reported) -/
inductive Outcome where
  | served (m : Mode) (prop : Int × Int)
  | noFeasibleMode (last : Mode) (prop : Int × Int)
  | noBaud
deriving DecidableEq, Repr

/-- **the loop as it was before the fix of finding F9** (/repo 5d202380; kept as the counterexample witness): for every (baud, offset) pair, ALL fitting modes of that baud
rate are judged, in key order, on the propagation made with that pair's offset; the first that passes is returned.
`feas prop m` = "mode `m` passes on the propagation `prop`"; `last` = (`last_explored_mode`, propagation left on
the path). -/
def exploreOld (feas : (Int × Int) → Mode → Bool) (modes : List Mode) (spacing : Int) :
    List (Int × Int) → Option (Mode × (Int × Int)) → Outcome
  | [], none => .noBaud
  | [], some (l, p) => .noFeasibleMode l p
  | pr :: rest, last =>
    let ms := modesOf modes spacing pr.1
    match ms.find? (feas pr) with
    | some m => .served m pr
    | none => exploreOld feas modes spacing rest
                (match ms.getLast? with | some l => some (l, pr) | none => last)

def selectModeOld (feas : (Int × Int) → Mode → Bool) (modes : List Mode) (spacing : Int) : Outcome :=
  exploreOld feas modes spacing (pairsDesc modes spacing) none

/-- the propagation a mode must be judged on: its own baud rate and its own equalisation offset -/
def own (m : Mode) : Int × Int := (m.baud, m.offset)

/-- exploration order of the repaired loop: baud rates descending; within one baud rate by (bit rate, offset)
descending -/
def modeOrder (modes : List Mode) (spacing : Int) : List Mode :=
  (baudsDesc modes spacing).flatMap (modesOf modes spacing)

/-- **the repaired loop**: the first mode in `modeOrder` that passes on the propagation made with ITS OWN offset;
if none passes, the last explored one is reported with its own propagation. -/
def selectMode (feas : (Int × Int) → Mode → Bool) (modes : List Mode) (spacing : Int) : Outcome :=
  let order := modeOrder modes spacing
  match order.find? (fun m => feas (own m) m) with
  | some m => .served m (own m)
  | none =>
    match order.getLast? with
    | some l => .noFeasibleMode l (own l)
    | none => .noBaud

/-! ## request-level verdict (`compute_path_with_disjunction`) -/

inductive Reason where
  | none | modeNotFeasible | noFeasibleMode | noFeasibleBaudrateWithSpacing | noComputedSnr
deriving DecidableEq, Repr

def Reason.str : Reason → Option String
  | .none => Option.none
  | .modeNotFeasible => some "MODE_NOT_FEASIBLE"
  | .noFeasibleMode => some "NO_FEASIBLE_MODE"
  | .noFeasibleBaudrateWithSpacing => some "NO_FEASIBLE_BAUDRATE_WITH_SPACING"
  | .noComputedSnr => some "NO_COMPUTED_SNR"

/-- fixed mode: forward verdict, then (bidirectional) the reverse verdict; `hasattr(blocking_reason)` guards the
second assignment -/
def fixedReason (fwdPass : Bool) (bidir : Bool) (revPass : Bool) : Reason :=
  if !fwdPass then .modeNotFeasible
  else if bidir && !revPass then .modeNotFeasible
  else .none

/-- automatic mode: the loop's outcome, then the reverse direction with the retained mode (it is propagated for
served AND for NO_FEASIBLE_MODE, but can only add a reason when none is set) -/
def autoReason (o : Outcome) (bidir : Bool) (revPass : Bool) : Reason :=
  match o with
  | .noBaud => .noFeasibleBaudrateWithSpacing
  | .noFeasibleMode _ _ => .noFeasibleMode
  | .served _ _ => if bidir && !revPass then .modeNotFeasible else .none

/-! ## request acceptance (json_io.requests_from_json -> trx_mode_params, _check_one_request) -/

/-- which error a request document raises, if any: unknown transceiver type or unknown mode → EquipmentConfigError;
a library mode whose baud rate exceeds its min_spacing → EquipmentConfigError; a requested spacing below the mode's
min_spacing → ServiceError.  Without a mode (automatic selection) only the type is checked. -/
def requestCheck (trxKnown : Bool) (modeGiven modeFound : Bool) (baud minSpacing spacing : Int) : Option String :=
  if !trxKnown then some "EquipmentConfigError"
  else if !modeGiven then none
  else if !modeFound then some "EquipmentConfigError"
  else if baud > minSpacing then some "EquipmentConfigError"
  else if minSpacing > spacing then some "ServiceError"
  else none

/-! ## bookkeeping of the added-noise contributions -/

/-- an element of a path, as far as `propagate` cares: a ROADM crossing with its `roadm-osnr` impairment
(`none` for an express crossing / undefined impairment) or anything else -/
inductive PathEl (α : Type) where
  | roadm (osnr : Option α)
  | other

/-- `roadm_osnr` after the element loop: one entry per ROADM, in path order -/
def roadmOsnr {α : Type} : List (PathEl α) → List (Option α)
  | [] => []
  | .roadm o :: rest => o :: roadmOsnr rest
  | .other :: rest => roadmOsnr rest

end Gnpy.Verdict

namespace Gnpy.Verdict
open Gnpy.Roadm (PType Band Profile selectProfile lookupBands)

section crossing
variable {α : Type} [Add α] [Sub α] [Mul α] [Div α] [Neg α] [NatCast α] [LT α] [LE α]
  [DecidableLT α] [DecidableLE α] [Transc α]

/-- one ROADM crossing of a path as far as the added noise is concerned: the library profiles of the ROADM's type
variety (each `Band.value` = the `roadm-osnr` of that frequency range, `none` when the key is absent), the id of the
user's `per_degree_impairments` entry for this (from, to) pair if any, the path type (add when the previous element is
the transceiver, drop when the next one is, else express) and the node's `add_drop_osnr` -/
structure Crossing (α : Type) where
  profiles : List (Profile α)
  user : Option Nat
  ptype : PType
  addDropOsnr : α

/-- the `roadm-osnr` value a crossing contributes for the carrier at frequency `f`
(`Roadm.set_roadm_paths` + `Roadm.get_impairment('roadm-osnr', …)`): the selected profile's value for the first
frequency range containing the carrier; without any profile the global default, which for add and drop paths is
`add_drop_osnr + lin2db(2)` (the library states add and drop together) and is absent for express paths -/
def crossingOsnr (c : Crossing α) (f : α) : Except String (Option α) :=
  match selectProfile c.profiles c.user c.ptype with
  | .error e => .error e
  | .ok (some p) => .ok (lookupBands p.bands f)
  | .ok none =>
    match c.ptype with
    | .express => .ok none
    | _ => .ok (some (c.addDropOsnr + lin2db ((2:Nat) : α)))

/-- the `roadm_osnr` list of a path for one carrier: one entry per crossing, in path order -/
def crossingsOsnr (cs : List (Crossing α)) (f : α) : Except String (List (Option α)) :=
  cs.mapM (fun c => crossingOsnr c f)

/-- the arguments of the receiver's `update_snr` for one carrier -/
def receiverArgs (cs : List (Crossing α)) (f txOsnr : α) : Except String (List (Option α)) :=
  match crossingsOsnr cs f with
  | .error e => .error e
  | .ok l => .ok (l ++ [some txOsnr])

end crossing

/-- `propagate`: `roadm_osnr.append(si.tx_osnr); path[-1].update_snr(*roadm_osnr)` -/
def propagateArgs {α : Type} (path : List (PathEl α)) (txOsnr : α) : List (Option α) :=
  roadmOsnr path ++ [some txOsnr]

/-- one iteration of the mode loop on the list: `append(tx); update_snr(*roadm_osnr); del roadm_osnr[-1]`;
returns (arguments given to update_snr, list afterwards) -/
def loopStep {α : Type} (st : List (Option α)) (tx : α) : List (Option α) × List (Option α) :=
  let st1 := st ++ [some tx]
  (st1, st1.dropLast)

/-- the argument lists of all iterations for successive modes' tx_osnr -/
def loopArgs {α : Type} : List (Option α) → List α → List (List (Option α))
  | _, [] => []
  | st, tx :: txs => (loopStep st tx).1 :: loopArgs (loopStep st tx).2 txs

end Gnpy.Verdict
