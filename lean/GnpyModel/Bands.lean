import GnpyModel.Scalar
/-
C07 — which channels exist, in which order (gnpy/core/info.py `SpectralInformation.__init__`, `__add__`,
`select_channels`, `is_in_band`, `demuxed_spectral_information`, `muxed_spectral_information`;
gnpy/topology/request.py `filter_si`, `find_elements_common_range`, `propagate`; gnpy/core/utils.py
`find_common_range`; gnpy/core/elements.py `Edfa.__call__`, `Multiband_amplifier.__call__`).

Frequencies, slot widths and baud rates are integer Hz (the generators emit multiples of 6.25 GHz, for which the
code's float comparisons `f ± slot/2` are exact); every comparison `f - slot/2 >= x` is written `2f - slot >= 2x`.
Everything else a channel carries (label, tx power, tx OSNR, power offset, roll-off, the power shares …) is an
opaque payload `pay` that travels with the channel: the per-channel arrays of the code are permuted/selected with
the same index vector, which is exactly what a list of records expresses.
-/
namespace Gnpy.Bands

/-- one channel -/
structure Ch where
  f : Int
  slot : Int
  baud : Int
  pay : Nat
deriving DecidableEq, Repr

/-- an amplifier band `{"f_min", "f_max"[, "spacing"]}` -/
structure Band where
  fmin : Int
  fmax : Int
  spacing : Option Int := none
deriving DecidableEq, Repr

/-- error kinds of the code -/
inductive Err where
  | spectrum   -- SpectrumError
  | value      -- ValueError
deriving DecidableEq, Repr

/-! ### construction: sort, overlap check, baud ≤ slot check -/

/-- insertion before the first channel of greater or equal frequency (with `sortF` below: a stable sort) -/
def insertF (x : Ch) : List Ch → List Ch
  | [] => [x]
  | y :: ys => if x.f ≤ y.f then x :: y :: ys else y :: insertF x ys

/-- `indices = argsort(frequency)`; all per-channel arrays are permuted alike -/
def sortF : List Ch → List Ch
  | [] => []
  | x :: xs => insertF x (sortF xs)

/-- no `frequency[:-1] + slot_width[:-1]/2 > frequency[1:] - slot_width[1:]/2` on adjacent channels -/
def noOverlapAdj : List Ch → Bool
  | a :: b :: r => decide (2 * a.f + a.slot ≤ 2 * b.f - b.slot) && noOverlapAdj (b :: r)
  | _ => true

/-- no `baud_rate > slot_width` -/
def baudOk (l : List Ch) : Bool := l.all (fun c => decide (c.baud ≤ c.slot))

/-- `SpectralInformation.__init__` as far as the channel set is concerned -/
def mkSpectrum (l : List Ch) : Except Err (List Ch) :=
  let s := sortF l
  if !noOverlapAdj s then .error .spectrum
  else if !baudOk s then .error .spectrum
  else .ok s

/-! ### uniform grid -/

/-- `utils.automatic_nch`: `int((f_max - f_min) // spacing)` (a negative count gives an empty `range`) -/
def automaticNch (fmin fmax spacing : Int) : Nat := ((fmax - fmin) / spacing).toNat

/-- `create_input_spectral_information`: `frequency = [f_min + spacing * i for i in range(1, nch + 1)]`, slot width =
spacing, one baud rate for all; payload = position -/
def gridChans (fmin fmax spacing baud : Int) : List Ch :=
  (List.range (automaticNch fmin fmax spacing)).map
    (fun (i : Nat) => { f := fmin + spacing * ((i : Int) + 1), slot := spacing, baud := baud, pay := i })

/-- `create_input_spectral_information` as a whole: a negative channel count (`f_max` below `f_min`) is numpy's
`ValueError('negative dimensions are not allowed')` from `ones(number_of_channels)` -/
def gridSpectrum (fmin fmax spacing baud : Int) : Except Err (List Ch) :=
  if (fmax - fmin) / spacing < 0 then .error .value else mkSpectrum (gridChans fmin fmax spacing baud)

/-! ### band selection -/


/-- `is_in_band`: `(f - slot/2 >= f_min) * (f + slot/2 <= f_max)` -/
def inBand (b : Band) (c : Ch) : Bool :=
  decide (2 * c.f - c.slot ≥ 2 * b.fmin) && decide (2 * c.f + c.slot ≤ 2 * b.fmax)

/-- `demuxed_spectral_information`: `none` when no channel is selected, else `select_channels`
(which builds a new SpectralInformation, i.e. re-validates) -/
def demux (b : Band) (sp : List Ch) : Option (Except Err (List Ch)) :=
  let sel := sp.filter (inBand b)
  if sel.isEmpty then none else some (mkSpectrum sel)

/-- `SpectralInformation.__add__`: concatenate and construct; a SpectrumError stays a SpectrumError -/
def add2 (x y : List Ch) : Except Err (List Ch) := mkSpectrum (x ++ y)

/-- `muxed_spectral_information`: `l[0] + mux(l[1:])`; the empty list is `ValueError('liste vide')` -/
def mux : List (List Ch) → Except Err (List Ch)
  | [] => .error .value
  | [x] => .ok x
  | x :: y :: r =>
    match mux (y :: r) with
    | .ok m => add2 x m
    | .error e => .error e

/-- the loop shared by `filter_si` and `Multiband_amplifier.__call__`: demux per band in order, skip empty
selections -/
def demuxAll : List Band → List Ch → Except Err (List (List Ch))
  | [], _ => .ok []
  | b :: r, sp =>
    match demux b sp with
    | some (.error e) => .error e
    | some (.ok s) =>
      match demuxAll r sp with
      | .ok parts => .ok (s :: parts)
      | .error e => .error e
    | none => demuxAll r sp

/-- `filter_si(path, equipment, si)` given the common range; no channel left is
`ValueError('Defined propagation band does not match amplifiers band.')` -/
def filterSi (commonRange : List Band) (sp : List Ch) : Except Err (List Ch) :=
  match demuxAll commonRange sp with
  | .error e => .error e
  | .ok [] => .error .value
  | .ok parts => mux parts

/-! ### the common range of the amplifiers of a path (`utils.find_common_range`) -/

/-- stable insertion sort by `f_min` (`sorted(amp, key=lambda x: x['f_min'])`) -/
def insertB (x : Band) : List Band → List Band
  | [] => [x]
  | y :: ys => if x.fmin ≤ y.fmin then x :: y :: ys else y :: insertB x ys

def sortB : List Band → List Band
  | [] => []
  | x :: xs => insertB x (sortB xs)

/-- `remove_duplicates`: keep the first occurrence of every band list -/
def removeDup : List (List Band) → List (List Band)
  | [] => []
  | a :: r => a :: (removeDup r).filter (fun x => x != a)

/-- `calculate_spacing` without design bands -/
def calcSpacing (first second : Band) (dflt : Int) : Int :=
  match first.spacing, second.spacing with
  | some a, some b => if a ≤ b then b else a
  | some a, none => a
  | none, some b => b
  | none, none => dflt

/-- Python `max` / `min` on two integers -/
def imax (a b : Int) : Int := if a ≤ b then b else a
def imin (a b : Int) : Int := if a ≤ b then a else b

/-- the intersection of two bands when `f_min < f_max` -/
def inter (first second : Band) (dflt : Int) : Option Band :=
  if imax first.fmin second.fmin < imin first.fmax second.fmax then
    some { fmin := imax first.fmin second.fmin, fmax := imin first.fmax second.fmax,
           spacing := some (calcSpacing first second dflt) }
  else none

/-- one round of step 3: all non-empty pairwise intersections, `first` outer loop, `second` inner loop -/
def intersectRound (common bands : List Band) (dflt : Int) : List Band :=
  common.flatMap (fun first => bands.filterMap (fun second => inter first second dflt))

/-- `find_common_range(amp_bands, default_f_min, default_f_max, default_spacing)`; every amplifier band has both
edges (the `filter_valid_amp_bands` step is the identity then) -/
def commonRange (ampBands : List (List Band)) (dfltMin dfltMax : Option Int) (dfltSpacing : Int) : List Band :=
  let unique := removeDup (ampBands.map sortB)
  match unique with
  | [] =>
    match dfltMin, dfltMax with
    | some lo, some hi => [{ fmin := lo, fmax := hi, spacing := none }]
    | _, _ => []
  | first :: _ =>
    sortB (unique.foldl (fun common bands => intersectRound common bands dfltSpacing) first)

/-! ### elements of a path -/

/-- what an element does to the channel set -/
inductive Elem where
  | edfa (bands : List Band)         -- `Edfa`: `params.bands`, only the first is used by `__call__`
  | multiband (paramBands callBands : List Band)
      -- `Multiband_amplifier`: `params.bands` (seen by find_elements_common_range) and the first band of every
      -- amplifier in dict order (used by `__call__`)
  | other                            -- Transceiver, Roadm, Fused, Fiber, RamanFiber: channel set untouched
deriving Repr, DecidableEq

/-! ### how a multiband element is BUILT (json_io.network_from_json, Multiband_amplifier.__init__,
network.set_egress_amplifier) -/

/-- `parameters.find_band_name`: the default band whose window holds the centre frequency
(`LBAND` 187–189 THz is tried first, then `CBAND` 191.3–196.0 THz); `2·centre = f_min + f_max` -/
def bandName (b : Band) : String :=
  if 2 * 187000000000000 ≤ b.fmin + b.fmax ∧ b.fmin + b.fmax ≤ 2 * 189000000000000 then "LBAND"
  else if 2 * 191300000000000 ≤ b.fmin + b.fmax ∧ b.fmin + b.fmax ≤ 2 * 196000000000000 then "CBAND"
  else "unknown_band"

/-- `json_io._update_band` for a `multi_band` library entry: the bands of its member amplifiers, duplicates removed
(first occurrence kept) -/
def dedupBands : List Band → List Band
  | [] => []
  | b :: r => b :: (dedupBands r).filter (fun x => x != b)

/-- state of `Multiband_amplifier.__init__` while it walks its `amplifiers` list: `params.bands` and the `amplifiers`
dict (band name → first band of that amplifier, insertion order) -/
structure MbState where
  bands : List Band
  amps : List (String × Band)

/-- one amplifier of the list: a band name already present is `ParametersError('… more than one amp defined for the
same band')` (here: `Err.value`); an unknown band is appended to `params.bands` -/
def mbStep (s : MbState) (band : Band) : Except Err MbState :=
  let name := bandName band
  if s.amps.any (fun kv => kv.1 == name) then .error .value
  else if s.bands.contains band then .ok { s with amps := s.amps ++ [(name, band)] }
  else .ok { bands := s.bands ++ [band], amps := s.amps ++ [(name, band)] }

def mbFold (s : MbState) : List Band → Except Err MbState
  | [] => .ok s
  | b :: r =>
    match mbStep s b with
    | .ok s' => mbFold s' r
    | .error e => .error e

/-- `network_from_json` + `Multiband_amplifier.__init__`.
`libBands` = `bands` of the library entry of the element's `type_variety` (`none` for an untyped element: `params.bands`
starts empty); `ampBands` = the single band (`EdfaParams`: `[{f_min, f_max}]`) of every amplifier listed by the
element, in list order – for a typed element WITHOUT an `amplifiers` list the loader creates one amplifier per band of
the library entry. -/
def loadBands0 : Option (List Band) → List Band
  | some l => l
  | none => []

def loadAmps : Option (List Band) → List Band → List Band
  | some l, [] => l
  | _, a => a

def loadMultiband (libBands : Option (List Band)) (ampBands : List Band) : Except Err Elem :=
  match mbFold { bands := loadBands0 libBands, amps := [] } (loadAmps libBands ampBands) with
  | .ok s => .ok (.multiband s.bands (s.amps.map (fun kv => kv.2)))
  | .error e => .error e

/-- `{find_band_name(e): e for e in per_degree_design_bands[oms]}`: a later band of the same name replaces the value,
the key keeps its first position -/
def designDict : List Band → List (String × Band)
  | [] => []
  | b :: r =>
    let d := designDict r
    -- python builds left to right; written from the right: `b` comes first unless a later band has the same name, in
    -- which case the later value wins but the position is `b`'s
    match d.lookup (bandName b) with
    | some v => (bandName b, v) :: d.filter (fun kv => kv.1 != bandName b)
    | none => (bandName b, b) :: d

/-- `set_egress_amplifier` on a multiband element: with no amplifier yet, one `Edfa` per design band (keyed by band
name, in the order of the f_min-sorted design bands); every amplifier then receives the variety selected for it –
`sel name` = `[f_min, f_max]` of that variety –; finally `node.params.bands = [a.params.bands[0] for a in amplifiers]` -/
def designMultiband (existing : List String) (designBands : List Band) (sel : String → Band) : Elem :=
  let names := if existing.isEmpty then (designDict designBands).map (fun kv => kv.1) else existing
  let bands := names.map sel
  .multiband bands bands

/-- `Edfa.__call__`: demux on the first band; nothing selected is a ValueError -/
def edfaCall (bands : List Band) (sp : List Ch) : Except Err (List Ch) :=
  match bands with
  | [] => .error .value           -- `next(b for b in [])` raises (StopIteration): never built by the loaders
  | b :: _ =>
    match demux b sp with
    | none => .error .value
    | some r => r

/-- `Multiband_amplifier.__call__` -/
def multibandCall (bands : List Band) (sp : List Ch) : Except Err (List Ch) :=
  match demuxAll bands sp with
  | .error e => .error e
  | .ok [] => .error .value
  | .ok parts => mux parts

def Elem.call (e : Elem) (sp : List Ch) : Except Err (List Ch) :=
  match e with
  | .edfa bands => edfaCall bands sp
  | .multiband _ bands => multibandCall bands sp
  | .other => .ok sp

/-- the bands `find_elements_common_range` collects -/
def ampBands (path : List Elem) : List (List Band) :=
  path.filterMap (fun e =>
    match e with
    | .edfa b => some b
    | .multiband b _ => some b
    | .other => none)

/-- `for el in path: si = el(si)` -/
def callAll : List Elem → List Ch → Except Err (List Ch)
  | [], sp => .ok sp
  | e :: r, sp =>
    match e.call sp with
    | .ok sp' => callAll r sp'
    | .error err => .error err

/-- `request.propagate` as far as the channel set is concerned: build, filter once, cross every element -/
def propagate (path : List Elem) (dfltMin dfltMax : Option Int) (dfltSpacing : Int) (l : List Ch) :
    Except Err (List Ch) :=
  match mkSpectrum l with
  | .error e => .error e
  | .ok si =>
    match filterSi (commonRange (ampBands path) dfltMin dfltMax dfltSpacing) si with
    | .error e => .error e
    | .ok si' => callAll path si'

end Gnpy.Bands
