import GnpyModel.Scalar
/- model file Bands (see DESIGN.md §2) -/
namespace Gnpy

end Gnpy
