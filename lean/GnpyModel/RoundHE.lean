import GnpyModel.Scalar
/-
Rounding as the code does it.

* `round(numpy.float64, 2)` (every `round(..., 2)` in gnpy/topology/request.py acts on numpy scalars:
  `min(array)`, `mean(array)`, `array[argmin]`) is numpy's algorithm: `rint(x * 100) / 100` with `rint`
  rounding half to even.  (Python's own `round(float, 2)` rounds the exact decimal expansion; the two
  differ only within 1 ulp of a tie, which the harness treats as class D.)
* Lean's `Float.round` rounds half away from zero, so half-even is implemented by hand.

The model is polymorphic: `Rint α` supplies round-half-even-to-integer; instances: `Float` (here) and
`ℝ` (GnpyProofs/Lemmas/Round.lean).
-/
namespace Gnpy.HE

/-- round to the nearest integer value, ties to even (`numpy.rint`) -/
class Rint (α : Type) where
  rint : α → α

/-- half-even on binary64: `x - floor x` is exact for every finite double, so the tie test is exact -/
def rintFloat (x : Float) : Float :=
  let f := Float.floor x
  let d := x - f
  if d < 0.5 then f
  else if 0.5 < d then f + 1.0
  else if Float.floor (f / 2.0) * 2.0 == f then f else f + 1.0

instance : Rint Float := ⟨fun x => if x.isNaN || x.isInf then x else rintFloat x⟩

section
variable {α : Type} [Add α] [Sub α] [Mul α] [Div α] [Neg α] [NatCast α] [LT α] [LE α]
  [DecidableLT α] [DecidableLE α] [Rint α]

/-- `round(x, 2)` on a numpy float: `rint(x * 100) / 100` -/
def round2 (x : α) : α := Rint.rint (x * ((100:Nat) : α)) / ((100:Nat) : α)

end

/-- distance (in units of the second decimal, i.e. of `x*100`) from the nearest rounding tie; the harness
skips comparisons whose margin is below 1e-6·100 (class D) -/
def tieMargin2 (x : Float) : Float :=
  let y := x * 100.0
  Float.abs (y - Float.floor y - 0.5)

end Gnpy.HE
