import GnpyModel.Scalar
/-
Python list / integer semantics used by the discrete models (DESIGN.md §3): slices with negative bounds,
indexing with negative wrap and IndexError, `list.index` (first occurrence, ValueError), `[x] * n`,
`range(a, b)`, slice assignment, `//` (floor), `int(x / y)` (truncation toward zero), `ceil(x / y)`,
stable `sorted(key=…)` (insertion sort).  Core Lean only.
-/
namespace Gnpy.Py

/-- clamp of a slice bound against the list length (CPython `PySlice_AdjustIndices`, step 1) -/
def sliceBound (len : Nat) (i : Int) : Nat :=
  if i < 0 then (if i + (len : Int) < 0 then 0 else (i + (len : Int)).toNat)
  else (if i > (len : Int) then len else i.toNat)

/-- `l[i:j]` -/
def slice {α : Type} (l : List α) (i j : Int) : List α :=
  (l.drop (sliceBound l.length i)).take (sliceBound l.length j - sliceBound l.length i)

/-- `l[i]`; `none` is IndexError -/
def index? {α : Type} (l : List α) (i : Int) : Option α :=
  if i < 0 then (if i + (l.length : Int) < 0 then none else l[(i + (l.length : Int)).toNat]?)
  else l[i.toNat]?

/-- `l.index(x)`; `none` is ValueError -/
def indexOf? {α : Type} [DecidableEq α] (x : α) : List α → Option Nat
  | [] => none
  | y :: ys => if y = x then some 0 else (indexOf? x ys).map (· + 1)

/-- `[x] * n` (empty for n ≤ 0) -/
def rep {α : Type} (n : Int) (x : α) : List α := List.replicate n.toNat x

/-- `list(range(a, b))` -/
def intRange (a b : Int) : List Int := (List.range (b - a).toNat).map (fun (k : Nat) => a + (k : Int))

/-- `l[i:j] = v` (step 1): the slice is replaced by `v`, whatever the length of `v` -/
def sliceAssign {α : Type} (l : List α) (i j : Int) (v : List α) : List α :=
  let a := sliceBound l.length i
  let b := max a (sliceBound l.length j)
  l.take a ++ v ++ l.drop b

/-- `a // b` -/
def floorDiv (a b : Int) : Int := Int.fdiv a b
/-- `int(a / b)` for exact operands: truncation toward zero -/
def truncDiv (a b : Int) : Int := Int.tdiv a b
/-- `ceil(a / b)` for exact operands -/
def ceilDiv (a b : Int) : Int := - Int.fdiv (-a) b

/-- insertion of `x` before the first element `y` with `le x y` (keeps equal keys in input order) -/
def orderedInsert {α : Type} (le : α → α → Bool) (x : α) : List α → List α
  | [] => [x]
  | y :: ys => if le x y then x :: y :: ys else y :: orderedInsert le x ys

/-- `sorted(l, key=…)` with `le a b := key a ≤ key b`: stable -/
def sorted {α : Type} (le : α → α → Bool) : List α → List α
  | [] => []
  | x :: xs => orderedInsert le x (sorted le xs)

/-- `enumerate(l)` -/
def enumerate {α : Type} (l : List α) : List (Nat × α) := (l.zipIdx).map (fun p => (p.2, p.1))

/-- filter with a predicate that may raise -/
def filterE {α ε : Type} (p : α → Except ε Bool) : List α → Except ε (List α)
  | [] => pure []
  | x :: xs => do
    let b ← p x
    let r ← filterE p xs
    pure (if b then x :: r else r)

def sumInt (l : List Int) : Int := l.foldr (· + ·) 0

/-- `[f(x) for x in l]` where `f` may raise: the first exception wins -/
def mapE {α β ε : Type} (f : α → Except ε β) : List α → Except ε (List β)
  | [] => pure []
  | x :: xs => do
    let y ← f x
    let ys ← mapE f xs
    pure (y :: ys)

end Gnpy.Py
