import GnpyModel.Scalar
/- model file Py (see DESIGN.md §2) -/
namespace Gnpy

end Gnpy
