import GnpyModel.Json
import GnpyModel.Round
/-
Legacy <-> YANG converters of gnpy/tools/convert_legacy_yang.py and gnpy/tools/yang_convert_utils.py
(C18), transliterated on the JSON tree of Json.lean.  Python mutates dicts in place; here every
function returns the new tree, with the same key order Python's dict would have (`Dict.set` keeps the
position of an existing key and appends a new one, `Dict.erase` is `pop`).
Errors raised by the converters themselves (KeyError, IndexError, ValueError, ...) are returned as
`Except` values with the same kind; libyang validation is NOT modelled (it is the generator's oracle).
-/
namespace Gnpy.Yang
open Gnpy

/-- gnpy/yang/precision_dict.py (compared with the real dict on every run) -/
def precisionDict : List (String × Int) := [
  ("contact", -1), ("date", -1), ("description", -1), ("module", -1),
  ("organization", -1), ("f_min", 1), ("f_max", 1), ("length", 6),
  ("loss_coef", 6), ("pmd_coef", 18), ("frequency", 1), ("freq", 2),
  ("ref_frequency", 1), ("ref_wavelength", 12), ("g0", 14), ("loss_coef_value", 16),
  ("position", 6), ("reference_frequency", 1), ("att_in", 2), ("con_in", 2),
  ("con_out", 2), ("temperature", 2), ("power", 9), ("gain_target", 6),
  ("tilt_target", 6), ("out_voa", 2), ("in_voa", 2), ("delta_p", 6),
  ("spacing", 2), ("target_pch_out_db", 2), ("target_psd_out_mWperGHz", 10), ("target_out_mWperSlotWidth", 10),
  ("per_degree_pch_out_db", 2), ("per_degree_psd_out_mWperGHz", 10), ("per_degree_psd_out_mWperSlotWidth", 10), ("number-of-channels", 0),
  ("loss", 2), ("city", -1), ("region", -1), ("latitude", 6),
  ("longitude", 6), ("length_units", -1), ("propagation_direction", -1), ("type_variety", -1),
  ("degree_uid", -1), ("preamp_variety_list", -1), ("booster_variety_list", -1), ("from_degree", -1),
  ("to_degree", -1), ("impairment_id", 0), ("variety_list", -1), ("uid", -1),
  ("type", -1), ("from_node", -1), ("to_node", -1), ("network_name", -1),
  ("output-power", 8), ("tx_power", 5), ("path_bandwidth", 1), ("accumulative-value", 8),
  ("N", 0), ("M", 0), ("trx_mode", -1), ("max-nb-of-channel", 0),
  ("technology", -1), ("trx_type", -1), ("transponder-type", -1), ("transponder-mode", -1),
  ("explicit-route-usage", -1), ("disjointness", -1), ("index", 0), ("node-id", -1),
  ("link-tp-id", -1), ("hop-type", -1), ("source", -1), ("destination", -1),
  ("src-tp-id", -1), ("dst-tp-id", -1), ("synchronization-id", -1), ("relaxable", -1),
  ("request-id-number", -1), ("request-id", -1), ("bidirectional", -1), ("metric-type", -1),
  ("response-id", -1), ("no-path", -1), ("result_spatial_resolution", 3), ("solver_spatial_resolution", 3),
  ("dispersion_tolerance", 1), ("phase_shift_tolerance", 1), ("flag", -1), ("order", 0),
  ("method", -1), ("computed_channels", 0), ("computed_number_of_channels", 0), ("nf_min", 2),
  ("nf_max", 2), ("nf0", 2), ("nf_coef", 10), ("coef_order", 0),
  ("gain_flatmax", 2), ("gain_min", 2), ("extended_gain_range", 2), ("p_max", 2),
  ("dispersion", 8), ("dispersion_slope", 11), ("gamma", 8), ("effective_area", 14),
  ("min_value", 2), ("max_value", 2), ("step", 2), ("lower-frequency", 2),
  ("upper-frequency", 2), ("cr", 9), ("frequency_offset", 2), ("max_length", 2),
  ("max_loss", 2), ("max_fiber_lineic_loss_for_raman", 2), ("target_extended_gain", 2), ("padding", 2),
  ("EOL", 2), ("span_loss_ref", 2), ("power_slope", 2), ("voa_margin", 2),
  ("voa_step", 2), ("add_drop_osnr", 2), ("pmd", 15), ("pdl", 2),
  ("baud_rate", 2), ("power_dbm", 2), ("roll_off", 2), ("tx_osnr", 2),
  ("tx_power_dbm", 2), ("sys_margins", 2), ("min", 2), ("max", 2),
  ("OSNR", 2), ("min_spacing", 2), ("bit_rate", 2), ("cost", 2),
  ("chromatic_dispersion", 2), ("penalty_value", 2), ("equalization_offset_db", 4), ("preamp_variety", -1),
  ("booster_variety", -1), ("amplifiers", -1), ("advanced_config_from_json", -1), ("default_config_from_json", -1),
  ("allowed_for_design", -1), ("type_def", -1), ("raman", -1), ("out_voa_auto", -1),
  ("in_voa_auto", -1), ("other_name", -1), ("power_mode", -1), ("roadm-path-impairments-id", 0),
  ("use_si_channel_count_for_design", -1), ("comment", -1), ("format", -1), ("roadm-osnr", 2),
  ("nf_ripple", 18), ("dgt", 18), ("gain_ripple", 18), ("slot_width", 2),
  ("delta_pdb", 2), ("label", -1), ("roadm-pmd", 8), ("otsi-carrier-frequency", 9),
  ("oms-element-uid", -1), ("configured-mode", -1), ("type-variety", -1), ("frequency-range-id", 0),
  ("stage-order", 0), ("name", -1), ("nominal-carrier-power", 2), ("nominal-psd", 16),
  ("actual-gain", 2), ("in-voa", 2), ("out-voa", 2), ("tilt-target", 2),
  ("total-output-power", 2), ("raman-direction", -1), ("pump-id", 0), ("delta-power", 2),
  ("loss-coef", 2), ("total-loss", 2), ("conn-in", 2), ("conn-out", 2),
  ("roadm-cd", 5), ("roadm-pdl", 2), ("roadm-inband-crosstalk", 2), ("roadm-maxloss", 2),
  ("roadm-pmax", 2), ("roadm-noise-figure", 5), ("roadm-minloss", 2), ("roadm-typloss", 2),
  ("roadm-pmin", 2), ("roadm-ptyp", 2), ("generalized-snr", 2), ("equalization-mode", -1),
  ("otsi-carrier-id", 0), ("e2e-mc-path-id", 0), ("otsi-group-ref", -1), ("media-channel-id", 0),
  ("otsi-carrier-ref", -1), ("e2e-mc-path-ref", -1), ("elt-index", 0), ("link-ref", -1),
  ("oms-element-ref", -1), ("otsi-ref", -1), ("otsi-group-id", -1), ("explicit-transceiver-mode-id", -1),
  ("transponder-id", 0), ("termination-type-capabilities", -1), ("transceiver-id", 0), ("explicit-transceiver-mode-ref", -1),
  ("configured-termination-type", -1), ("group-id", 0), ("regen-metric", 0), ("transponder-ref", -1),
  ("transceiver-ref", -1), ("protection-type", -1), ("inter-layer-sequence-number", 0), ("roadm-path-impairments", -1),
  ("ltp-ref", -1), ("add-path-impairments", -1), ("drop-path-impairments", -1), ("ttp-transponder-ref", -1),
  ("ttp-transceiver-ref", -1), ("is-allowed", -1), ("penalty-value", 2), ("max-chromatic-dispersion", 2),
  ("cd-value", 2), ("max-polarization-mode-dispersion", 2), ("pmd-value", 2), ("available-baud-rate", 1),
  ("roll-off", 4), ("fec-code-rate", 8), ("fec-threshold", 8), ("polarization-skew", 2),
  ("dwdm-n", -1), ("cwdm-n", -1), ("wson-dwdm-channel-spacing", -1), ("wson-cwdm-channel-spacing", -1),
  ("subcarrier-dwdm-n", 0), ("slot-width-granularity", -1), ("min-slot-width-factor", 0), ("max-slot-width-factor", 0),
  ("grid-type", -1), ("priority", 0), ("flexi-n", 0), ("flexi-m", 0),
  ("flexi-grid-channel-spacing", -1), ("flexi-ncfg", -1), ("flexi-n-step", 0), ("mode-id", -1),
  ("supported-application-codes", -1), ("supported-organizational-modes", -1), ("standard-mode", -1), ("operational-mode", -1),
  ("organization-identifier", -1), ("line-coding-bitrate", -1), ("bitrate", 0), ("max-diff-group-delay", 2),
  ("max-polarization-dependant-loss", 2), ("pdl-value", 2), ("available-modulation-type", -1), ("min-OSNR", 2),
  ("rx-ref-channel-power", 2), ("rx-channel-power-value", 2), ("min-Q-factor", 2), ("min-carrier-spacing", 6),
  ("available-fec-type", -1), ("in-band-osnr", 2), ("out-of-band-osnr", 2), ("tx-polarization-power-difference", 2),
  ("min-central-frequency", 9), ("max-central-frequency", 9), ("transceiver-tunability", 6), ("tx-channel-power-min", 2),
  ("tx-channel-power-max", 2), ("rx-channel-power-min", 2), ("rx-channel-power-max", 2), ("rx-total-power-max", 2),
  ("tx-channel-power", 2), ("rx-channel-power", 2), ("rx-total-power", 2), ("wavelength-assignment", -1),
  ("gsnr-extra-margin", 2), ("estimated-gsnr", 2), ("estimated-eol-gsnr", 2), ("estimated-lowest-gsnr", 2)]

/-- `precision.get(k)` -/
def precision? (k : String) : Option Int := precisionDict.lookup k

/-- `precision.get(k, 2)` -/
def precisionD (k : String) : Int := (precision? k).getD 2

/-! ### values -/

/-- bit pattern of `float(i)` (exact for |i| < 2^53) -/
def intToFloatBits (i : Int) : Nat :=
  match Round.nearestDyadic i.natAbs 1 with
  | some (m, e) => Round.encode (i < 0) m e
  | none => (if i < 0 then 2 ^ 63 else 0) + 2047 * 2 ^ 52

/-- `str(PrettyFloat(x, fd))` for the double with bit pattern `bits`.
    `reprs` is the table bits ↦ Python `repr` supplied by the harness; it is consulted only on the
    ≥ 17-digit branch and only after checking that the text parses back to the same double. -/
def prettyStr (reprs : List (Nat × String)) (bits : Nat) (fd : Int) : PyR String :=
  if fd < 0 ∨ 18 < fd then valueError s!"Fraction digit {fd} not handled" else
  let d := fd.toNat
  if d < 17 then
    match Round.fmtBits bits d with
    | some s => pure s
    | none => valueError "non-finite"
  else
    match reprs.lookup bits with
    | none => .error "model:repr-missing"
    | some r =>
      if !Round.parsesBackTo r bits then .error "model:repr-does-not-parse-back" else
      if r.toList.any (fun c => c == 'e') || !(r.toList.any (fun c => c == '.')) then
        match Round.fmtBits bits d with
        | some s => pure s
        | none => valueError "non-finite"
      else pure (Round.fmtRepr r d)

mutual
/-- `convert_dict(data, fraction_digit)` -/
def convertDict (reprs : List (Nat × String)) (fd : Int) : J → PyR J
  | .obj l => do return .obj (← convertDictO reprs l)
  | .arr l => do return .arr (← convertDictL reprs fd l)
  | .bool b => pure (.bool b)
  | .int i =>
    if fd > 0 then pure (.str (Round.fmtInt i fd.toNat))
    else if fd < 0 then pure (.flt (intToFloatBits i))
    else pure (.int i)
  | .flt b => do return .str (← prettyStr reprs b fd)
  | j => pure j
def convertDictL (reprs : List (Nat × String)) (fd : Int) : List J → PyR (List J)
  | [] => pure []
  | x :: xs => do
    let y ← convertDict reprs fd x
    let ys ← convertDictL reprs fd xs
    return y :: ys
def convertDictO (reprs : List (Nat × String)) : List (String × J) → PyR (List (String × J))
  | [] => pure []
  | (k, v) :: xs => do
    let y ← convertDict reprs (precisionD k) v
    let ys ← convertDictO reprs xs
    return (k, y) :: ys
end

/-- Python `float(s)` -/
def pyFloat (s : String) : PyR J :=
  match Round.parseFloatBits s with
  | some b => pure (.flt b)
  | none => valueError s!"could not convert string to float: {s}"

/-- Python `int(s)` -/
def pyInt (s : String) : PyR J :=
  match Round.parseInt s with
  | some i => pure (.int i)
  | none => valueError s!"invalid literal for int(): {s}"

mutual
/-- `convert_back(data, fraction_digit)` -/
def convertBack (fd : Option Int) : J → PyR J
  | .obj l => do return .obj (← convertBackO l)
  | .arr l => do return .arr (← convertBackL fd l)
  | .str s =>
    match fd with
    | none => pure (.str s)
    | some d => if d > 0 then pyFloat s else if d < 0 then pure (.str s) else pyInt s
  | j => pure j
def convertBackL (fd : Option Int) : List J → PyR (List J)
  | [] => pure []
  | x :: xs => do
    let y ← match x, fd with
      | .str s, some d => if d = -1 then convertBack fd x else pyFloat s
      | _, _ => convertBack fd x
    let ys ← convertBackL fd xs
    return y :: ys
def convertBackO : List (String × J) → PyR (List (String × J))
  | [] => pure []
  | (k, v) :: xs => do
    let y ← convertBack (precision? k) v
    let ys ← convertBackO xs
    return (k, y) :: ys
end

mutual
/-- `convert_none_to_empty` -/
def noneToEmpty : J → J
  | .null => .arr [.null]
  | .arr l => if J.beqL l [.null] then .arr l else .arr (noneToEmptyL l)
  | .obj l => .obj (noneToEmptyO l)
  | j => j
def noneToEmptyL : List J → List J
  | [] => []
  | x :: xs => noneToEmpty x :: noneToEmptyL xs
def noneToEmptyO : List (String × J) → List (String × J)
  | [] => []
  | (k, v) :: xs => (k, noneToEmpty v) :: noneToEmptyO xs
end

mutual
/-- `convert_empty_to_none` -/
def emptyToNone : J → J
  | .arr l => if J.beqL l [.null] then .null else .arr (emptyToNoneL l)
  | .obj l => .obj (emptyToNoneO l)
  | j => j
def emptyToNoneL : List J → List J
  | [] => []
  | x :: xs => emptyToNone x :: emptyToNoneL xs
def emptyToNoneO : List (String × J) → List (String × J)
  | [] => []
  | (k, v) :: xs => (k, emptyToNone v) :: emptyToNoneO xs
end

mutual
/-- well-formedness of a legacy document w.r.t. nulls: no list `[null]` anywhere (that is the YANG
    spelling of null, which `convert_none_to_empty` leaves alone) -/
def noBoxedNull : J → Bool
  | .arr l => !(J.beqL l [.null]) && noBoxedNullL l
  | .obj l => noBoxedNullO l
  | _ => true
def noBoxedNullL : List J → Bool
  | [] => true
  | x :: xs => noBoxedNull x && noBoxedNullL xs
def noBoxedNullO : List (String × J) → Bool
  | [] => true
  | (_, v) :: xs => noBoxedNull v && noBoxedNullO xs
end

mutual
/-- a YANG-form tree: no bare null (every null is spelled `[null]`) -/
def noBareNull : J → Bool
  | .null => false
  | .arr l => J.beqL l [.null] || noBareNullL l
  | .obj l => noBareNullO l
  | _ => true
def noBareNullL : List J → Bool
  | [] => true
  | x :: xs => noBareNull x && noBareNullL xs
def noBareNullO : List (String × J) → Bool
  | [] => true
  | (_, v) :: xs => noBareNull v && noBareNullO xs
end

mutual
/-- no binary float left in the tree (what `convert_dict` produces when no integer sits under a
    string-typed key) -/
def noFlt : J → Bool
  | .flt _ => false
  | .arr l => noFltL l
  | .obj l => noFltO l
  | _ => true
def noFltL : List J → Bool
  | [] => true
  | x :: xs => noFlt x && noFltL xs
def noFltO : List (String × J) → Bool
  | [] => true
  | (_, v) :: xs => noFlt v && noFltO xs
end

def isPrefixL : List Char → List Char → Bool
  | [], _ => true
  | _ :: _, [] => false
  | a :: as, b :: bs => a == b && isPrefixL as bs

/-- first occurrence of `ns` in `s` (scanning from the left): the text before it and the text after it -/
def splitFirstL (ns : List Char) : List Char → Option (List Char × List Char)
  | [] => if ns.isEmpty then some ([], []) else none
  | c :: cs =>
    if isPrefixL ns (c :: cs) then some ([], (c :: cs).drop ns.length)
    else match splitFirstL ns cs with
      | some (before, after) => some (c :: before, after)
      | none => none

/-- `s.split(ns)[1]` when `ns in s` (the text between the first and the second occurrence) -/
def stripNs (ns s : String) : String :=
  match splitFirstL ns.toList s.toList with
  | none => s
  | some (_, after) =>
    match splitFirstL ns.toList after with
    | none => String.ofList after
    | some (mid, _) => String.ofList mid

mutual
/-- `remove_namespace_context` -/
def removeNamespace (ns : String) : J → J
  | .str s => .str (stripNs ns s)
  | .arr l => .arr (removeNamespaceL ns l)
  | .obj l => .obj (removeNamespaceO ns l)
  | j => j
def removeNamespaceL (ns : String) : List J → List J
  | [] => []
  | x :: xs => removeNamespace ns x :: removeNamespaceL ns xs
def removeNamespaceO (ns : String) : List (String × J) → List (String × J)
  | [] => []
  | (k, v) :: xs => (k, removeNamespace ns v) :: removeNamespaceO ns xs
end

/-! ### small Python idioms -/

def asObj : J → PyR Dict
  | .obj l => pure l
  | _ => typeError "dict expected"

def asArr : J → PyR (List J)
  | .arr l => pure l
  | _ => typeError "list expected"

/-- `x[i]` on a list -/
def idx (l : List J) (i : Nat) : PyR J :=
  match l[i]? with
  | some v => pure v
  | none => .error "IndexError:list index out of range"

/-- `k in x` where x is a dict (key test) or a list (element test against a string) -/
def pyIn (k : String) : J → Bool
  | .obj l => Dict.has l k
  | .arr l => l.any (fun e => e == J.str k)
  | .str s => (splitFirstL k.toList s.toList).isSome
  | _ => false

/-- `for x in d[key]: f(x)` with every x a dict, written back in place -/
def forEachIn (d : Dict) (key : String) (f : Dict → PyR Dict) : PyR Dict := do
  let l ← asArr (← d.get key)
  let l' ← l.mapM (fun e => do return J.obj (← f (← asObj e)))
  return d.set key (.arr l')

/-- `reorder_keys(data_list, key)` on one item -/
def reorderKey (key : String) (item : Dict) : Dict :=
  match item.get? key with
  | none => item
  | some .null => item.erase key
  | some v => (key, v) :: item.erase key

def reorderKeys (key : String) (l : J) : PyR J := do
  let items ← asArr l
  return .arr (← items.mapM (fun e => do return J.obj (reorderKey key (← asObj e))))

/-- `zip(a, b)` into a list of two-key dicts -/
def zipDicts (ka kb : String) (a b : List J) : List J :=
  (a.zip b).map (fun p => J.obj [(ka, p.1), (kb, p.2)])

/-! ### topology -/

def eqTypes : List String :=
  ["per_degree_pch_out_db", "per_degree_psd_out_mWperGHz", "per_degree_psd_out_mWperSlotWidth"]

/-- `[{degree_uid: d, <kind>: v} for d, v in targets.items()]` -/
def targetsOf (kind : String) (targets : Dict) : List J :=
  targets.map (fun dv => J.obj [("degree_uid", .str dv.1), (kind, dv.2)])

/-- `targets = params.pop(kind, None)` and the list it contributes to `new_targets` -/
def popTargets (kind : String) (p : Dict) : PyR (Dict × List J) :=
  match p.get? kind with
  | none => pure (p, [])
  | some t =>
    if !t.truthy then pure (p.erase kind, [])
    else match t with
      | .obj targets => pure (p.erase kind, targetsOf kind targets)
      | _ => attributeError "items"

/-- the body of `convert_degree` for one ROADM `params` dict -/
def degreeToYang (params : Dict) : PyR Dict := do
  let (p1, t1) ← popTargets "per_degree_pch_out_db" params
  let (p2, t2) ← popTargets "per_degree_psd_out_mWperGHz" p1
  let (p3, t3) ← popTargets "per_degree_psd_out_mWperSlotWidth" p2
  let newT := t1 ++ t2 ++ t3
  if newT.isEmpty then return p3 else return p3.set "per_degree_power_targets" (.arr newT)

def isRoadmWithParams (elem : Dict) : PyR Bool := do
  let t ← elem.get "type"
  return t == .str "Roadm" && elem.has "params"

/-- apply `f` to `elem['params']` (a dict) -/
def onParams (elem : Dict) (f : Dict → PyR Dict) : PyR Dict := do
  let p ← asObj (← elem.get "params")
  return elem.set "params" (.obj (← f p))

/-- apply `f` to the params of a ROADM element that has params -/
def onRoadmParams (f : Dict → PyR Dict) (elem : Dict) : PyR Dict := do
  if ← isRoadmWithParams elem then onParams elem f else pure elem

def convertDegree (doc : Dict) : PyR Dict :=
  forEachIn doc "elements" (onRoadmParams degreeToYang)

/-- `elem[PARAMS_KEY][eq_type][degree_uid] = target[eq_type]` (creating the dict when needed) -/
def setDegree (params : Dict) (kind deg : String) (v : J) : PyR Dict :=
  match params.get? kind with
  | none => pure (params.set kind (.obj [(deg, v)]))
  | some (.obj cur) => pure (params.set kind (.obj (Dict.set cur deg v)))
  | some _ => typeError "per-degree entry is not a dict"

/-- one equalisation type of one target in `process_power_targets` -/
def applyKind (target : Dict) (deg kind : String) (params : Dict) : PyR Dict :=
  match target.get? kind with
  | none => pure params
  | some v => setDegree params kind deg v

/-- `process_power_targets` for one target -/
def applyTarget (params : Dict) (target : Dict) : PyR Dict := do
  let deg ← target.get "degree_uid"
  let degS ← match deg with
    | .str s => pure s
    | _ => typeError "unhashable or non-string degree uid"
  let p1 ← applyKind target degS "per_degree_pch_out_db" params
  let p2 ← applyKind target degS "per_degree_psd_out_mWperGHz" p1
  applyKind target degS "per_degree_psd_out_mWperSlotWidth" p2

/-- `process_power_targets` -/
def applyTargets : List J → Dict → PyR Dict
  | [], p => pure p
  | t :: ts, p => do
    let p' ← applyTarget p (← asObj t)
    applyTargets ts p'

/-- the body of `convert_back_degree` for one ROADM `params` dict -/
def degreeToLegacy (params : Dict) : PyR Dict := do
  match params.get? "per_degree_power_targets" with
  | none => return params
  | some pt =>
    let p := params.erase "per_degree_power_targets"
    if !pt.truthy then return p
    applyTargets (← asArr pt) p

/-- `convert_back_degree` -/
def convertBackDegree (doc : Dict) : PyR Dict :=
  forEachIn doc "elements" (onRoadmParams degreeToLegacy)

/-- body of `convert_design_band` -/
def designBandToYang (params : Dict) : PyR Dict := do
  match params.get? "per_degree_design_bands" with
  | none => return params
  | some t =>
    let p := params.erase "per_degree_design_bands"
    if !t.truthy then return p
    match t with
    | .obj targets =>
      let newT := targets.map (fun dv => J.obj [("degree_uid", .str dv.1), ("design_bands", dv.2)])
      return p.set "per_degree_design_bands_targets" (.arr newT)
    | _ => attributeError "items"

def convertDesignBand (doc : Dict) : PyR Dict :=
  forEachIn doc "elements" (onRoadmParams designBandToYang)

/-- `design_bands[target[DEGREE_KEY]] = target['design_bands']` for one target -/
def bandOf (tj : J) : PyR (String × J) := do
  let tg ← asObj tj
  match ← tg.get "degree_uid" with
  | .str s => return (s, ← tg.get "design_bands")
  | _ => typeError "non-string degree uid"

/-- the `for target in targets` loop of `convert_back_design_band` -/
def collectBands : List J → Dict → PyR Dict
  | [], acc => pure acc
  | tj :: ts, acc => do
    let (deg, b) ← bandOf tj
    collectBands ts (acc.set deg b)

/-- body of `convert_back_design_band` -/
def designBandToLegacy (params : Dict) : PyR Dict := do
  match params.get? "per_degree_design_bands_targets" with
  | none => return params
  | some t =>
    let p := params.erase "per_degree_design_bands_targets"
    if !t.truthy then return p
    let bands ← collectBands (← asArr t) []
    if bands.isEmpty then return p else return p.set "per_degree_design_bands" (.obj bands)

def convertBackDesignBand (doc : Dict) : PyR Dict :=
  forEachIn doc "elements" (onRoadmParams designBandToLegacy)

/-- does `elem` have a dict `params`? (`PARAMS_KEY in elem`) -/
def withParams (elem : Dict) (f : Dict → PyR Dict) : PyR Dict :=
  if elem.has "params" then onParams elem f else pure elem

/-- body of `convert_loss_coeff_list` -/
def lossCoefToYang (params : Dict) : PyR Dict := do
  match params.get? "loss_coef" with
  | some (.obj lc) =>
    let p := params.erase "loss_coef"
    let vals := (Dict.get? lc "value").getD .null
    let freqs := (Dict.get? lc "frequency").getD .null
    if !vals.truthy then return p
    let vl ← asArr vals
    let fl ← match freqs with
      | .arr l => pure l
      | _ => typeError "zip argument is not iterable"
    return p.set "loss_coef_per_frequency" (.arr (zipDicts "frequency" "loss_coef_value" fl vl))
  | _ => return params

def convertLossCoefList (doc : Dict) : PyR Dict :=
  forEachIn doc "elements" (fun elem => withParams elem lossCoefToYang)

/-- `[item[k] for item in l]` -/
def column (k : String) : List J → PyR (List J)
  | [] => pure []
  | it :: rest => do
    let v ← (← asObj it).get k
    let vs ← column k rest
    return v :: vs

/-- body of `convert_back_loss_coeff_list` -/
def lossCoefToLegacy (params : Dict) : PyR Dict := do
  match params.get? "loss_coef_per_frequency" with
  | none => return params
  | some l =>
    let p := params.erase "loss_coef_per_frequency"
    if !l.truthy then return p
    let items ← asArr l
    let fr ← column "frequency" items
    let va ← column "loss_coef_value" items
    return p.set "loss_coef" (.obj [("frequency", .arr fr), ("value", .arr va)])

def convertBackLossCoefList (doc : Dict) : PyR Dict :=
  forEachIn doc "elements" (fun elem => withParams elem lossCoefToLegacy)

/-- `d.pop(k, [])` value -/
def popD (d : Dict) (k : String) : J := (d.get? k).getD (.arr [])

/-- body of `convert_raman_coef` -/
def ramanCoefToYang (params : Dict) : PyR Dict := do
  match params.get? "raman_coefficient" with
  | some rcj =>
    if !pyIn "g0" rcj then return params
    let rc ← asObj rcj
    let p := params.erase "raman_coefficient"
    let g0 := popD rc "g0"
    let fo := popD rc "frequency_offset"
    if !fo.truthy then return p
    let rf ← (rc.erase "g0" |>.erase "frequency_offset").get "reference_frequency"
    let fol ← asArr fo
    let g0l ← asArr g0
    return p.set "raman_coefficient" (.obj [("reference_frequency", rf),
      ("g0_per_frequency", .arr (zipDicts "frequency_offset" "g0" fol g0l))])
  | none => return params

def convertRamanCoef (doc : Dict) : PyR Dict :=
  forEachIn doc "elements" (fun elem => withParams elem ramanCoefToYang)

/-- body of `convert_back_raman_coef` -/
def ramanCoefToLegacy (params : Dict) : PyR Dict := do
  match params.get? "raman_coefficient" with
  | some rcj =>
    if !pyIn "g0_per_frequency" rcj then return params
    let rc ← asObj rcj
    let p := params.erase "raman_coefficient"
    let items ← asArr (popD rc "g0_per_frequency")
    let g0l ← column "g0" items
    let fol ← column "frequency_offset" items
    if fol.isEmpty then return p
    let rf ← (rc.erase "g0_per_frequency").get "reference_frequency"
    return p.set "raman_coefficient" (.obj [("reference_frequency", rf), ("g0", .arr g0l),
      ("frequency_offset", .arr fol)])
  | none => return params

def convertBackRamanCoef (doc : Dict) : PyR Dict :=
  forEachIn doc "elements" (fun elem => withParams elem ramanCoefToLegacy)

/-- `reorder_lumped_losses_objects` -/
def reorderLumpedLosses (doc : Dict) : PyR Dict :=
  forEachIn doc "elements" (fun elem => do
    match elem.get? "params" with
    | some pj =>
      if pyIn "lumped_losses" pj then
        let p ← asObj pj
        let l ← reorderKeys "position" (← p.get "lumped_losses")
        return elem.set "params" (.obj (p.set "lumped_losses" l))
      else return elem
    | none => return elem)

/-- `reorder_raman_pumps` -/
def reorderRamanPumps (doc : Dict) : PyR Dict :=
  forEachIn doc "elements" (fun elem => do
    match elem.get? "operational" with
    | some oj =>
      if pyIn "raman_pumps" oj then
        let o ← asObj oj
        let l ← reorderKeys "frequency" (← o.get "raman_pumps")
        return elem.set "operational" (.obj (o.set "raman_pumps" l))
      else return elem
    | none => return elem)

/-- `if loc[name] is None: loc[name] = ""` -/
def fixNullName (l : Dict) (name : String) : Dict :=
  match l.get? name with
  | some .null => l.set name (.str "")
  | _ => l

/-- `remove_null_region_city` for one element -/
def fixRegionCity (elem : Dict) : PyR Dict := do
  match elem.get? "metadata" with
  | some mj =>
    if pyIn "location" mj then
      let m ← asObj mj
      let locj ← m.get "location"
      if !(pyIn "city" locj || pyIn "region" locj) then return elem
      let loc ← asObj locj
      let loc := fixNullName (fixNullName loc "city") "region"
      return elem.set "metadata" (.obj (m.set "location" (.obj loc)))
    else return elem
  | none => return elem

def removeNullRegionCity (doc : Dict) : PyR Dict :=
  forEachIn doc "elements" fixRegionCity

/-! ### equipment -/

/-- one branch of `convert_raman_efficiency` -/
def ramanEffToYangWith (fe : Dict) (re : Dict) (k : String) : PyR Dict := do
  let p := fe.erase "raman_efficiency"
  let vl := popD re k
  let fo := popD re "frequency_offset"
  if !fo.truthy then return p
  let fol ← asArr fo
  let vll ← asArr vl
  return p.set "raman_efficiency" (.arr (zipDicts "frequency_offset" k fol vll))

def ramanEffToYang (fe : Dict) : PyR Dict := do
  match fe.get? "raman_efficiency" with
  | none => return fe
  | some rej =>
    if pyIn "cr" rej then ramanEffToYangWith fe (← asObj rej) "cr"
    else if pyIn "g0" rej then ramanEffToYangWith fe (← asObj rej) "g0"
    else return fe

/-- `for x in d[key]` when `key in d`, else unchanged -/
def forEachIfPresent (d : Dict) (key : String) (f : Dict → PyR Dict) : PyR Dict :=
  if d.has key then forEachIn d key f else pure d

/-- `convert_raman_efficiency` BEFORE the repair of F7 (df307dac): the legacy spelling written by
    `convert_back_raman_efficiency` was not recognised (kept for the `…_fails_old` witness) -/
def convertRamanEfficiencyOld (doc : Dict) : PyR Dict :=
  forEachIfPresent doc "RamanFiber" ramanEffToYang

/-- first step of `convert_raman_efficiency` for one entry (repair of F7): an equipment RamanFiber entry
    that carries the spelling written by `convert_back_raman_efficiency`
    (`raman_coefficient {g0, frequency_offset}`) is read as `raman_efficiency {cr, frequency_offset}` -/
def ramanEffAcceptCoef (fe : Dict) : PyR Dict :=
  match fe.get? "raman_coefficient" with
  | some rcj =>
    if !fe.has "raman_efficiency" && pyIn "g0" rcj then do
      let rc ← asObj rcj
      return (fe.erase "raman_coefficient").set "raman_efficiency"
        (.obj [("cr", popD rc "g0"), ("frequency_offset", popD rc "frequency_offset")])
    else pure fe
  | none => pure fe

/-- `convert_raman_efficiency` -/
def ramanEffEntryToYang (fe : Dict) : PyR Dict := do ramanEffToYang (← ramanEffAcceptCoef fe)

def convertRamanEfficiency (doc : Dict) : PyR Dict :=
  forEachIfPresent doc "RamanFiber" ramanEffEntryToYang

/-- `[c[k] for c in l if k in c]` -/
def columnIf (k : String) (l : List J) : PyR (List J) := do
  let ds ← l.mapM asObj
  return ds.filterMap (fun d => d.get? k)

/-- body of `convert_back_raman_efficiency`: the legacy key written back is `raman_coefficient`
    (`g0` for `cr`), without reference frequency; the loader and `convert_raman_efficiency` accept
    that spelling since df307dac -/
def ramanEffToLegacy (fe : Dict) : PyR Dict := do
  match fe.get? "raman_efficiency" with
  | some (.arr re) =>
    let p := fe.erase "raman_efficiency"
    let crl ← columnIf "cr" re
    let g0l ← columnIf "g0" re
    let fol ← column "frequency_offset" re
    if fol.isEmpty then return p
    let g0l := if crl.isEmpty then g0l else crl
    return p.set "raman_coefficient" (.obj [("g0", .arr g0l), ("frequency_offset", .arr fol)])
  | _ => return fe

def convertBackRamanEfficiency (doc : Dict) : PyR Dict :=
  forEachIfPresent doc "RamanFiber" ramanEffToLegacy

/-- `convert_range_to_dict` -/
def rangeToDict (r : J) : PyR J := do
  let l ← match r with
    | .arr l => pure l
    | _ => typeError "not subscriptable"
  return .obj [("min_value", ← idx l 0), ("max_value", ← idx l 1), ("step", ← idx l 2)]

/-- `process_span_data` / `process_si_data` -/
def rangeToYang (listKey dictKey : String) (e : Dict) : PyR Dict :=
  if e.has dictKey then pure e
  else match e.get? listKey with
    | none => keyError s!"{listKey} or {dictKey} missing"
    | some r => do
      let d ← rangeToDict r
      return (e.set dictKey d).erase listKey

/-- `convert_delta_power_range` -/
def convertDeltaPowerRange (doc : Dict) : PyR Dict := do
  let d ← forEachIfPresent doc "Span" (rangeToYang "delta_power_range_db" "delta_power_range_dict_db")
  forEachIfPresent d "SI" (rangeToYang "power_range_db" "power_range_dict_db")

/-- dict form back to `[min, max, step]` for one entry -/
def rangeToLegacy (listKey dictKey : String) (e : Dict) : PyR Dict :=
  match e.get? dictKey with
  | none => pure e
  | some rj => do
    let r ← asObj rj
    let l := J.arr [← r.get "min_value", ← r.get "max_value", ← r.get "step"]
    return (e.set listKey l).erase dictKey

/-- `convert_back_delta_power_range` BEFORE the repair of F6 (f4882f89): only entry 0 of `Span` and of
    `SI` (kept for the `…_fails_old` witness) -/
def backRangeFirstOnly (doc : Dict) (key listKey dictKey : String) : PyR Dict :=
  match doc.get? key with
  | none => pure doc
  | some lj => do
    let l ← asArr lj
    let first ← asObj (← idx l 0)
    if first.has dictKey then
      let first' ← rangeToLegacy listKey dictKey first
      return doc.set key (.arr (J.obj first' :: l.drop 1))
    else return doc

def convertBackDeltaPowerRangeOld (doc : Dict) : PyR Dict := do
  let d ← backRangeFirstOnly doc "Span" "delta_power_range_db" "delta_power_range_dict_db"
  backRangeFirstOnly d "SI" "power_range_db" "power_range_dict_db"

/-- `convert_back_delta_power_range`: every entry of `Span` and of `SI` -/
def convertBackDeltaPowerRange (doc : Dict) : PyR Dict := do
  let d ← forEachIfPresent doc "Span" (rangeToLegacy "delta_power_range_db" "delta_power_range_dict_db")
  forEachIfPresent d "SI" (rangeToLegacy "power_range_db" "power_range_dict_db")

/-- `[{'coef_order': i, 'nf_coef': c} for i, c in enumerate(l)]` -/
def enumCoefs (l : List J) : List J :=
  l.zipIdx.map (fun ci => J.obj [("coef_order", .int ci.2), ("nf_coef", ci.1)])

/-- `convert_nf_coef` / `convert_nf_fit_coef` on one dict and key -/
def nfCoefToYang (key : String) (e : Dict) : PyR Dict :=
  match e.get? key with
  | none => pure e
  | some cj => do
    let l ← match cj with
      | .arr l => pure l
      | _ => typeError "not subscriptable"
    let first ← idx l 0
    if first.isObj then return e
    return (e.erase key).set key (.arr (enumCoefs l))

/-- insertion of `x` into a list sorted by `coef_order` (stable) -/
def insertByOrder (x : Int × J) : List (Int × J) → List (Int × J)
  | [] => [x]
  | y :: ys => if x.1 < y.1 then x :: y :: ys else y :: insertByOrder x ys

/-- `sorted(l, key=coef_order)` (stable) -/
def sortByOrder (l : List (Int × J)) : List (Int × J) :=
  l.foldl (fun acc x => insertByOrder x acc) []

def nfCoefToLegacy (key : String) (e : Dict) : PyR Dict :=
  match e.get? key with
  | none => pure e
  | some cj => do
    let l ← match cj with
      | .arr l => pure l
      | _ => typeError "not subscriptable"
    let first ← idx l 0
    if !first.isObj then return e
    let pairs ← l.mapM (fun c => do
      let d ← asObj c
      let o ← match ← d.get "coef_order" with
        | .int i => pure i
        | _ => typeError "coef_order is not an int"
      return (o, J.obj d))
    let sorted := sortByOrder pairs
    let vals ← sorted.mapM (fun p => do (← asObj p.2).get "nf_coef")
    return (e.erase key).set key (.arr vals)

def convertNfCoef (doc : Dict) : PyR Dict := forEachIfPresent doc "Edfa" (nfCoefToYang "nf_coef")
def convertBackNfCoef (doc : Dict) : PyR Dict := forEachIfPresent doc "Edfa" (nfCoefToLegacy "nf_coef")
def convertNfFitCoef (doc : Dict) : PyR Dict := nfCoefToYang "nf_fit_coeff" doc
def convertBackNfFitCoef (doc : Dict) : PyR Dict := nfCoefToLegacy "nf_fit_coeff" doc

/-- `add_missing_default_type_variety`: only the FIRST Roadm entry without a name gets one -/
def addDefaultFirst : List J → PyR (List J)
  | [] => pure []
  | x :: xs => do
    let d ← asObj x
    if d.has "type_variety" then return x :: (← addDefaultFirst xs)
    else return J.obj (("type_variety", .str "default") :: d) :: xs

def addMissingDefaultTypeVariety (doc : Dict) : PyR Dict :=
  match doc.get? "Roadm" with
  | none => pure doc
  | some lj => do return doc.set "Roadm" (.arr (← addDefaultFirst (← asArr lj)))

/-! ### services -/

/-- `reorder_route_objects` for one request -/
def reorderRouteReq (req : Dict) : PyR Dict := do
  match req.get? "explicit-route-objects" with
  | none => return req
  | some ej =>
    let e ← asObj ej
    let l ← reorderKeys "index" (← e.get "route-object-include-exclude")
    return req.set "explicit-route-objects" (.obj (e.set "route-object-include-exclude" l))

def reorderRouteObjects (doc : Dict) : PyR Dict :=
  forEachIn doc "path-request" reorderRouteReq

/-- `slot.get(k) is None → slot.pop(k, None)` -/
def dropIfNone (d : Dict) (k : String) : Dict :=
  match d.get? k with
  | none => d
  | some .null => d.erase k
  | _ => d

/-- `list.remove(x)`: first element equal to x -/
def removeFirst (x : J) : List J → List J
  | [] => []
  | y :: ys => if y == x then ys else y :: removeFirst x ys

/-- the `for slot in freq_slot:` loop of `remove_union_that_fail`, which removes from the list it
    iterates over: index `i` walks the live list -/
def slotLoop : Nat → Nat → List J → PyR (List J)
  | 0, _, l => pure l
  | fuel + 1, i, l =>
    match l[i]? with
    | none => pure l
    | some sj => do
      let s ← asObj sj
      let s' := dropIfNone (dropIfNone s "N") "M"
      let l' := l.set i (.obj s')
      if s'.isEmpty then slotLoop fuel (i + 1) (removeFirst (.obj s') l')
      else slotLoop fuel (i + 1) l'

def cleanTeBandwidth (te : Dict) : PyR Dict := do
  let te ← match te.get? "effective-freq-slot" with
    | none => pure te
    | some fs =>
      if !fs.truthy then pure te else do
        let l ← asArr fs
        let l' ← slotLoop (l.length + 1) 0 l
        if l'.isEmpty then pure (te.erase "effective-freq-slot")
        else pure (te.set "effective-freq-slot" (.arr l'))
  return dropIfNone (dropIfNone (dropIfNone te "max-nb-of-channel") "trx_mode") "output-power"

/-- `remove_union_that_fail` for one request -/
def cleanReq (req : Dict) : PyR Dict := do
  let pc ← asObj (← req.get "path-constraints")
  let te ← asObj (← pc.get "te-bandwidth")
  let te' ← cleanTeBandwidth te
  return req.set "path-constraints" (.obj (pc.set "te-bandwidth" (.obj te')))

def removeUnionThatFail (doc : Dict) : PyR Dict :=
  forEachIn doc "path-request" cleanReq

/-! ### dispatch -/

def TOPO := "gnpy-network-topology:topology"
def EQPT := "gnpy-eqpt-config:equipment"
def SERV := "gnpy-path-computation:services"
def RESP := "gnpy-path-computation:responses"
def EDFACFG := "gnpy-edfa-config:edfa-config"
def SIMP := "gnpy-sim-params:sim-params"
def SPEC := "gnpy-spectrum:spectrum"
def API := "gnpy-api:api"
def eqptTypes := ["Edfa", "Transceiver", "Fiber", "Roadm"]
def edfaConfigKeys := ["nf_fit_coeff", "nf_ripple", "gain_ripple", "dgt"]
def simParamsKeys := ["raman_params", "nli_params"]

def hasAny (d : Dict) (ks : List String) : Bool := ks.any (fun k => d.has k)

/-- apply `f` to the dict stored under `key` -/
def onKey (d : Dict) (key : String) (f : Dict → PyR Dict) : PyR Dict := do
  let inner ← asObj (← d.get key)
  return d.set key (.obj (← f inner))

/-- the structural part of `legacy_to_yang` (everything before the final `convert_dict`);
    `reff` is `convertRamanEfficiency` -/
def toYangStructWith (reff : Dict → PyR Dict) (d : Dict) : PyR Dict := do
  if d.has "elements" then
    let d ← reorderRamanPumps d
    let d ← reorderLumpedLosses d
    let d ← removeNullRegionCity d
    let d ← convertDegree d
    let d ← convertDesignBand d
    let d ← convertLossCoefList d
    let d ← convertRamanCoef d
    return [(TOPO, .obj d)]
  else if d.has TOPO then
    let d ← onKey d TOPO convertDegree
    let d ← onKey d TOPO convertDesignBand
    let d ← onKey d TOPO convertLossCoefList
    onKey d TOPO removeNullRegionCity
  else if hasAny d eqptTypes then
    let d ← reff d
    let d ← convertDeltaPowerRange d
    let d ← convertNfCoef d
    let d ← addMissingDefaultTypeVariety d
    return [(EQPT, .obj d)]
  else if d.has EQPT then
    let d ← onKey d EQPT reff
    let d ← onKey d EQPT convertDeltaPowerRange
    let d ← onKey d EQPT convertNfCoef
    onKey d EQPT addMissingDefaultTypeVariety
  else if d.has "path-request" then
    let d ← reorderRouteObjects d
    let d ← removeUnionThatFail d
    return [(SERV, .obj d)]
  else if d.has SERV then
    let d ← onKey d SERV reorderRouteObjects
    onKey d SERV removeUnionThatFail
  else if hasAny d edfaConfigKeys then
    return [(EDFACFG, .obj (← convertNfFitCoef d))]
  else if d.has EDFACFG then
    onKey d EDFACFG convertNfFitCoef
  else if d.has "spectrum" then
    return [(SPEC, ← d.get "spectrum")]
  else if hasAny d simParamsKeys then
    return [(SIMP, .obj d)]
  else if d.has "response" then
    return [(RESP, .obj d)]
  else if d.has API then
    return [(API, ← d.get API)]
  else if hasAny d [SPEC, SIMP, RESP] then
    return d
  else valueError "Unrecognized type of content (not topology, service or equipment)"

def toYangStruct := toYangStructWith convertRamanEfficiency

/-- `legacy_to_yang` -/
def legacyToYangWith (reff : Dict → PyR Dict) (reprs : List (Nat × String)) (doc : J) : PyR J := do
  let d ← asObj (noneToEmpty doc)
  let s ← toYangStructWith reff d
  convertDict reprs 2 (.obj s)

def legacyToYang := legacyToYangWith convertRamanEfficiency
/-- before the repair of F7 -/
def legacyToYangOld := legacyToYangWith convertRamanEfficiencyOld

/-- the structural part of `yang_to_legacy` (after `convert_empty_to_none` and `convert_back`);
    `backRange` is `convertBackDeltaPowerRange` -/
def topoToLegacy (d : Dict) : PyR J := do
  let d ← convertBackDegree d
  let d ← convertBackDesignBand d
  let d ← convertBackLossCoefList d
  let d ← convertBackRamanCoef d
  return removeNamespace "gnpy-network-topology:" (.obj d)

def eqptToLegacy (backRange : Dict → PyR Dict) (d : Dict) : PyR J := do
  let d ← backRange d
  let d ← convertBackRamanEfficiency d
  let d ← convertBackNfCoef d
  return removeNamespace "gnpy-eqpt-config:" (.obj d)

def toLegacyStruct (backRange : Dict → PyR Dict) (d : Dict) : PyR J := do
  if d.has "elements" then topoToLegacy d
  else if d.has TOPO then topoToLegacy (← asObj (← d.get TOPO))
  else if hasAny d eqptTypes then eqptToLegacy backRange d
  else if d.has EQPT then eqptToLegacy backRange (← asObj (← d.get EQPT))
  else if hasAny d edfaConfigKeys then
    return .obj (← convertBackNfFitCoef d)
  else if d.has EDFACFG then
    return .obj (← onKey d EDFACFG convertBackNfFitCoef)
  else if d.has SERV then d.get SERV
  else if d.has SIMP then d.get SIMP
  else if d.has SPEC then return .obj [("spectrum", ← d.get SPEC)]
  else if d.has RESP then d.get RESP
  else if d.has API then .error "model:api-not-modelled"
  else if hasAny d (simParamsKeys ++ ["spectrum", "response", "path-request"]) then return .obj d
  else valueError "Unrecognized type of content (not topology, service or equipment)"

/-- `yang_to_legacy` with libyang validation left out (the harness only sends validated documents);
    `legacy_to_yang` is still run first, as the code does, so its own errors surface -/
def yangToLegacyWith (reff : Dict → PyR Dict) (backRange : Dict → PyR Dict)
    (reprs : List (Nat × String)) (doc : J) : PyR J := do
  let _ ← legacyToYangWith reff reprs doc
  let j ← convertBack none (emptyToNone doc)
  toLegacyStruct backRange (← asObj j)

def yangToLegacy := yangToLegacyWith convertRamanEfficiency convertBackDeltaPowerRange
/-- the converter before the repairs of F6 and F7 -/
def yangToLegacyOld := yangToLegacyWith convertRamanEfficiencyOld convertBackDeltaPowerRangeOld

/-! ### the YANG normal form (what `legacy_to_yang` produces; decidable) -/

/-- ROADM/fibre params in YANG form: none of the legacy-only spellings is left -/
def paramsYangNormal (p : Dict) : Bool :=
  !p.has "per_degree_pch_out_db" && !p.has "per_degree_psd_out_mWperGHz" &&
  !p.has "per_degree_psd_out_mWperSlotWidth" && !p.has "per_degree_design_bands" &&
  (match p.get? "loss_coef" with
   | some (.obj _) => false
   | _ => true)

/-- the location of an element holds no bare null city/region -/
def metaYangNormal (e : Dict) : Bool :=
  match Dict.get? e "metadata" with
  | none => true
  | some (.obj m) =>
    (match Dict.get? m "location" with
     | none => true
     | some (.obj loc) => Dict.get? loc "city" != some .null && Dict.get? loc "region" != some .null
     | some _ => false)
  | some _ => false

def elemYangNormal : J → Bool
  | .obj e =>
    Dict.has e "type" && metaYangNormal e &&
    (match Dict.get? e "params" with
     | none => true
     | some (.obj p) => paramsYangNormal p
     | some _ => false)
  | _ => false

def topoYangNormal (inner : Dict) : Bool :=
  match inner.get? "elements" with
  | some (.arr l) => l.all elemYangNormal
  | _ => false

def ramanFiberYangNormal : J → Bool
  | .obj fe =>
    (match Dict.get? fe "raman_coefficient" with
     | none => true
     | some rcj => Dict.has fe "raman_efficiency" || !pyIn "g0" rcj) &&
    (match Dict.get? fe "raman_efficiency" with
     | none => true
     | some rej => !pyIn "cr" rej && !pyIn "g0" rej)
  | _ => false

def hasKeyEntry (k : String) : J → Bool
  | .obj e => Dict.has e k
  | _ => false

def edfaYangNormal : J → Bool
  | .obj e =>
    (match Dict.get? e "nf_coef" with
     | none => true
     | some (.arr (first :: _)) => first.isObj
     | some _ => false)
  | _ => false

/-- `key` absent, or a list all of whose entries satisfy `ok` -/
def listAll (d : Dict) (key : String) (ok : J → Bool) : Bool :=
  match d.get? key with
  | none => true
  | some (.arr l) => l.all ok
  | some _ => false

def eqptYangNormal (inner : Dict) : Bool :=
  listAll inner "RamanFiber" ramanFiberYangNormal &&
  listAll inner "Span" (hasKeyEntry "delta_power_range_dict_db") &&
  listAll inner "SI" (hasKeyEntry "power_range_dict_db") &&
  listAll inner "Edfa" edfaYangNormal &&
  listAll inner "Roadm" (hasKeyEntry "type_variety")

/-- a list entry whose YANG key `key` is its first member (or that has no such member) -/
def keyFirst (key : String) : J → Bool
  | .obj ((k, v) :: rest) => if k == key then v != .null && !Dict.has rest key else !Dict.has ((k, v) :: rest) key
  | .obj [] => true
  | _ => false

def slotYangNormal : J → Bool
  | .obj s => !List.isEmpty s && Dict.get? s "N" != some .null && Dict.get? s "M" != some .null
  | _ => false

def teYangNormal (te : Dict) : Bool :=
  (match Dict.get? te "effective-freq-slot" with
   | none => true
   | some (.arr (x :: xs)) => (x :: xs).all slotYangNormal
   | some _ => false) &&
  Dict.get? te "max-nb-of-channel" != some .null && Dict.get? te "trx_mode" != some .null &&
  Dict.get? te "output-power" != some .null

def reqYangNormal : J → Bool
  | .obj req =>
    (match Dict.get? req "explicit-route-objects" with
     | none => true
     | some (.obj e) =>
       (match Dict.get? e "route-object-include-exclude" with
        | some (.arr l) => l.all (keyFirst "index")
        | _ => false)
     | some _ => false) &&
    (match Dict.get? req "path-constraints" with
     | some (.obj pc) =>
       (match Dict.get? pc "te-bandwidth" with
        | some (.obj te) => teYangNormal te
        | _ => false)
     | _ => false)
  | _ => false

def servYangNormal (inner : Dict) : Bool :=
  match inner.get? "path-request" with
  | some (.arr l) => l.all reqYangNormal
  | _ => false

/-- **the YANG normal form of a document of the five kinds**: one namespaced top-level member, the
    structures in their YANG spelling.  `legacy_to_yang` is the identity on it (theorem
    `legacyToYang_fixpoint`), and the harness checks on every run that the model's `legacy_to_yang`
    output of every accepted document is of this form. -/
def yangNormal : J → Bool
  | .obj [(k, v)] =>
    if k == TOPO then (match v with | .obj inner => topoYangNormal inner | _ => false)
    else if k == EQPT then (match v with | .obj inner => eqptYangNormal inner | _ => false)
    else if k == SERV then (match v with | .obj inner => servYangNormal inner | _ => false)
    else k == SPEC || k == SIMP
  | _ => false

/-! ### the legacy normal form (what `yang_to_legacy` produces; decidable) -/

def paramsLegacyNormal (p : Dict) : Bool :=
  !p.has "per_degree_power_targets" && !p.has "per_degree_design_bands_targets" &&
  !p.has "loss_coef_per_frequency" &&
  (match p.get? "raman_coefficient" with
   | none => true
   | some rcj => !pyIn "g0_per_frequency" rcj)

def elemLegacyNormal : J → Bool
  | .obj e =>
    Dict.has e "type" &&
    (match Dict.get? e "params" with
     | none => true
     | some (.obj p) => paramsLegacyNormal p
     | some _ => false)
  | _ => false

def topoLegacyNormal (d : Dict) : Bool :=
  match d.get? "elements" with
  | some (.arr l) => l.all elemLegacyNormal
  | _ => false

def lacksKeyEntry (k : String) : J → Bool
  | .obj e => !Dict.has e k
  | _ => false

def ramanFiberLegacyNormal : J → Bool
  | .obj fe =>
    (match Dict.get? fe "raman_efficiency" with
     | some (.arr _) => false
     | _ => true)
  | _ => false

def edfaLegacyNormal : J → Bool
  | .obj e =>
    (match Dict.get? e "nf_coef" with
     | none => true
     | some (.arr (first :: _)) => !first.isObj
     | some _ => false)
  | _ => false

def eqptLegacyNormal (d : Dict) : Bool :=
  listAll d "Span" (lacksKeyEntry "delta_power_range_dict_db") &&
  listAll d "SI" (lacksKeyEntry "power_range_dict_db") &&
  listAll d "RamanFiber" ramanFiberLegacyNormal &&
  listAll d "Edfa" edfaLegacyNormal

/-- no string value carries the namespace prefix (the test is the converter's own last step) -/
def nsFree (ns : String) (j : J) : Bool := removeNamespace ns j == j

/-- **the legacy normal form of a document of the five kinds** -/
def legacyNormal : J → Bool
  | .obj d =>
    if Dict.has d "elements" then topoLegacyNormal d && nsFree "gnpy-network-topology:" (.obj d)
    else if Dict.has d TOPO then false
    else if hasAny d eqptTypes then eqptLegacyNormal d && nsFree "gnpy-eqpt-config:" (.obj d)
    else !Dict.has d EQPT && !hasAny d edfaConfigKeys && !Dict.has d EDFACFG && !Dict.has d SERV && !Dict.has d SIMP &&
      !Dict.has d SPEC && !Dict.has d RESP && !Dict.has d API &&
      hasAny d (simParamsKeys ++ ["spectrum", "response", "path-request"])
  | _ => false

/-- `convert_back` leaves the tree as it is (numbers are numbers already) -/
def backStable (j : J) : Bool :=
  match convertBack none j with
  | .ok r => r == j
  | .error _ => false

def isOk {α : Type} : PyR α → Bool
  | .ok _ => true
  | .error _ => false

/-- **well-formed legacy document as `yang_to_legacy` returns it**: legacy-normal, no `[null]`,
    numbers already numbers, and `legacy_to_yang` (the validation step of `yang_to_legacy`) accepts it -/
def wfLegacyDoc (reprs : List (Nat × String)) (l : J) : Bool :=
  legacyNormal l && noBoxedNull l && backStable l && isOk (legacyToYang reprs l)

/-- **well-formed legacy (or YANG) document**: `legacy_to_yang` succeeds on it and the result is a
    YANG-normal tree without bare null and without binary float -/
def wfDoc (reprs : List (Nat × String)) (doc : J) : Bool :=
  match legacyToYang reprs doc with
  | .ok y => yangNormal y && noBareNull y && noFlt y
  | .error _ => false

/-! ### the Raman coefficient a library fibre entry ends up with (`json_io.Fiber.__init__`) -/

/-- `json_io.Fiber.__init__` since df307dac: `raman_efficiency {cr, frequency_offset}` becomes
    `{frequency_offset, g0 := cr, reference_frequency := default}`; the spelling written by
    `yang_to_legacy` (`raman_coefficient {g0, frequency_offset}`) is accepted too and receives the
    default reference frequency -/
def fiberRaman (dfltRef : J) (entry : Dict) : Option Dict :=
  match entry.get? "raman_efficiency" with
  | some (.obj re) =>
    some (((Dict.erase re "cr").set "g0" ((Dict.get? re "cr").getD .null)).set "reference_frequency" dfltRef)
  | _ =>
    match entry.get? "raman_coefficient" with
    | some (.obj rc) => some (if Dict.has rc "reference_frequency" then rc else Dict.set rc "reference_frequency" dfltRef)
    | _ => none

/-- the loader before df307dac read `raman_efficiency` only -/
def fiberRamanOld (dfltRef : J) (entry : Dict) : Option Dict :=
  match entry.get? "raman_efficiency" with
  | some (.obj re) =>
    some (((Dict.erase re "cr").set "g0" ((Dict.get? re "cr").getD .null)).set "reference_frequency" dfltRef)
  | _ => none

/-! ### alias expansion of `_equipment_from_json` (json_io.py:576-611) -/

/-- a list of strings -/
def strList : List J → PyR (List String)
  | [] => pure []
  | .str s :: t => do return s :: (← strList t)
  | _ :: _ => typeError "alias is not a string"

/-- `entry['other_name'] + [subkey]` -/
def aliasNames (entry : Dict) : PyR (List String) := do
  let sub := match entry.get? "type_variety" with
    | some (.str s) => s
    | _ => "default"
  let names ← strList (← asArr (← entry.get "other_name"))
  return names ++ [sub]

/-- the entries built for one library entry: (key in the library, kwargs given to the constructor).
    Same code for Edfa and Transceiver since the F4 repair: a deep copy per alias, `type_variety`
    set to the alias on the copy, `other_name` removed. -/
def expandAliases (entry : Dict) : PyR (List (String × Dict)) :=
  if !entry.has "other_name" then
    let sub := match entry.get? "type_variety" with
      | some (.str s) => s
      | _ => "default"
    pure [(sub, entry)]
  else do
    let names ← aliasNames entry
    return names.map (fun n => (n, (entry.set "type_variety" (.str n)).erase "other_name"))

/-- the Transceiver code before the repair (F4): `entry['type_variety'] = other_name` was applied to
    the ORIGINAL entry after the copy had been taken -/
def expandAliasesF4 (entry : Dict) : PyR (List (String × Dict)) :=
  if !entry.has "other_name" then
    let sub := match entry.get? "type_variety" with
      | some (.str s) => s
      | _ => "default"
    pure [(sub, entry)]
  else do
    let names ← aliasNames entry
    let step (st : Dict × List (String × Dict)) (n : String) : Dict × List (String × Dict) :=
      let copy := st.1.erase "other_name"
      (st.1.set "type_variety" (.str n), st.2 ++ [(n, copy)])
    return (names.foldl step (entry, [])).2

/-- mode aliases of `Transceiver.__init__`: every `other_name` of a mode gives a copy of the mode whose
    `format` is that name (appended after all declared modes), `other_name` removed everywhere -/
def expandModes (modes : List Dict) : PyR (List Dict) := do
  let extra ← modes.mapM (fun m =>
    match m.get? "other_name" with
    | none => pure []
    | some oj => do
      let others ← asArr oj
      return others.map (fun o => (m.erase "other_name").set "format" o))
  return modes.map (fun m => m.erase "other_name") ++ extra.flatten

end Gnpy.Yang
