import GnpyModel.Scalar
/- model file Yang (see DESIGN.md §2) -/
namespace Gnpy

end Gnpy
