import GnpyModel.Scalar
import GnpyModel.Interp
import GnpyModel.Gn
/-
C05 — fibre span: loss budget, chromatic dispersion, PMD, PDL, latency
(gnpy/core/elements.py `Fiber.__init__/loss/chromatic_dispersion/pmd/propagate`, `Roadm.propagate` and
`Edfa.propagate` PMD/PDL lines; gnpy/core/science_utils.py `RamanSolver._create_lumped_losses/
calculate_attenuation_profile/calculate_unidirectional_stimulated_raman_scattering`;
gnpy/core/parameters.py `FiberParams` latency, `convert_length`; gnpy/core/info.py `apply_attenuation_db`).
-/
namespace Gnpy.Fiber
open Gnpy.Gn

section
variable {α : Type} [Add α] [Sub α] [Mul α] [Div α] [Neg α] [NatCast α] [LT α] [LE α]
  [DecidableLT α] [DecidableLE α] [Transc α] [HasPi α]

local notation "N(" n ")" => ((n : Nat) : α)
local notation "π" => (HasPi.pi : α)

/-- `utils.convert_length(value, units)` for the two accepted units -/
def convertLength (v : α) (km : Bool) : α := if km then v * N(1000) else v * N(1)

/-- `SpectralInformation.apply_attenuation_db`: `pch *= 1 / db2lin(att)` -/
def applyAttDb (p att : α) : α := p * (N(1) / db2lin att)

/-- `Fiber.__init__`: `lumped_losses = db2lin(- loss_dB)` -/
def lumpedLin (lossDb : α) : α := db2lin (-lossDb)

/-! ### lumped losses on the z axis (`RamanSolver._create_lumped_losses`)
`numpy.unique(concatenate((z_lumped, z)), return_index=True)` keeps, for every distinct position, the FIRST
occurrence in `z_lumped ++ z`; the result is sorted by position.  Points are `(position [m], linear loss)`. -/

/-- insert a point keeping ascending positions; a point whose position is already present is dropped
(the earlier one wins) -/
def insertPoint (pt : α × α) : List (α × α) → List (α × α)
  | [] => [pt]
  | q :: rest =>
    if pt.1 < q.1 then pt :: q :: rest
    else if q.1 < pt.1 then q :: insertPoint pt rest
    else q :: rest

/-- `_create_lumped_losses(z, lumped_losses, z_lumped_losses)`: the merged, position-sorted list of
`(z, loss)` where grid points carry the loss 1 -/
def createLumped (lumped : List (α × α)) (z : List α) : List (α × α) :=
  (lumped ++ z.map (fun x => (x, N(1)))).foldl (fun acc pt => insertPoint pt acc) []

def prodL : List α → α
  | [] => N(1)
  | x :: xs => x * prodL xs

/-- last column of `calculate_attenuation_profile`: `exp(-alpha * L) * cumprod(lumped)[-1]` -/
def fibreLossLin (alpha len : α) (lumped : List (α × α)) : α :=
  Transc.exp (-(alpha * len)) * prodL ((createLumped lumped [N(0), len]).map (·.2))

/-- `Fiber.propagate` without Raman, one channel: input connector + padding, fibre loss, output connector -/
def propagateP (p conIn attIn alpha len : α) (lumped : List (α × α)) (conOut : α) : α :=
  applyAttDb (applyAttDb p (conIn + attIn) * fibreLossLin alpha len lumped) conOut

/-- `Fiber.loss` (dB) at the reference frequency: what the design uses -/
def lossDb (lossCoefRef len conIn conOut attIn : α) (lumpedLinear : List α) : α :=
  lossCoefRef * len + conIn + conOut + attIn + sumL (lumpedLinear.map (fun l => lin2db (N(1) / l)))

/-! ### chromatic dispersion, PMD, latency -/

/-- `Fiber.beta3(f)` for a scalar dispersion (`none` slope ⇒ 0) -/
def beta3Scalar (slope : Option α) (f beta2 : α) : α :=
  match slope with
  | none => N(0)
  | some s =>
    let d := N(2) * π * (f * f) / cLight
    (s - N(4) * π * (f * f * f) / (cLight * cLight) * beta2) / (d * d)

/-- `Fiber.chromatic_dispersion(f)`: `-(beta2 + 2π beta3 (f - f_ref)) * 2π f_ref² / c * length` -/
def chromaticDispersion (beta2 beta3 f refF len : α) : α :=
  let negBeta := -(beta2 + N(2) * π * beta3 * (f - refF))
  negBeta * N(2) * π * (refF * refF) / cLight * len

/-- `Fiber.pmd = pmd_coef * sqrt(length)` -/
def fibrePmd (pmdCoef len : α) : α := pmdCoef * Transc.sqrt len

/-- `FiberParams._latency = length / (c / n1)` -/
def latency (len : α) : α := len / (cLight / n1)

/-- `sqrt(x ** 2 + b ** 2)`: the PMD / PDL update of fibres, ROADMs and amplifiers -/
def quadStep (x b : α) : α := Transc.sqrt (x * x + b * b)

/-- what one element adds to the accumulated figures of one channel -/
structure Contribution (α : Type) where
  cd : α        -- [s/m]   (fibres only)
  pmd : α       -- [s]
  pdl : α       -- [dB]    (ROADMs and amplifiers only)
  latency : α   -- [s]     (fibres only)

/-- accumulated figures of one channel -/
structure Acc (α : Type) where
  cd : α
  pmd : α
  pdl : α
  latency : α

/-- one element crossed -/
def accStep (a : Acc α) (c : Contribution α) : Acc α :=
  { cd := a.cd + c.cd, pmd := quadStep a.pmd c.pmd, pdl := quadStep a.pdl c.pdl, latency := a.latency + c.latency }

/-- a path = the elements crossed in order -/
def accPath (a : Acc α) (cs : List (Contribution α)) : Acc α := cs.foldl accStep a

/-- contribution of a fibre span to the channel at frequency `f` -/
def fibreContribution (beta2 beta3 f refF len pmdCoef : α) : Contribution α :=
  { cd := chromaticDispersion beta2 beta3 f refF len, pmd := fibrePmd pmdCoef len, pdl := N(0), latency := latency len }

/-- contribution of a ROADM (`roadm-pmd`, `roadm-pdl` of the internal path) or of an amplifier (`params.pmd/pdl`) -/
def lumpedContribution (pmd pdl : α) : Contribution α := { cd := N(0), pmd := pmd, pdl := pdl, latency := N(0) }

/-! ### a whole span -/

/-- what `Fiber.__init__` keeps besides the `Gn.Fibre` coefficients -/
structure Span (α : Type) where
  fib : Fibre α
  conIn : α                 -- [dB]
  attIn : α                 -- [dB] padding
  conOut : α                -- [dB]
  lumped : List (α × α)     -- (position [m], linear loss) in the order of the description
  pmdCoef : α               -- [s/sqrt(m)]

/-- `Fiber.__init__`: every lumped-loss position (km) must lie strictly inside the fibre
(`NetworkTopologyError` otherwise) -/
def lumpedPositionsOk (lenM : α) (l : List (α × α)) : Bool :=
  l.all (fun x => decide (N(0) < x.1) && decide (x.1 < N(1) / N(1000) * lenM))

/-- `(position km, loss dB)` → `(position m, linear loss)` -/
def mkLumped (l : List (α × α)) : List (α × α) := l.map (fun x => (x.1 * N(1000), lumpedLin x.2))

/-- power of one channel after `Fiber.propagate` (Raman off); `none` = SpectrumError (loss table) -/
def spanOut (s : Span α) (f p : α) : Option α :=
  (alphaAt s.fib f).map (fun a => propagateP p s.conIn s.attIn a s.fib.len s.lumped s.conOut)

/-- what the span adds to CD / PMD / PDL / latency of the channel at `f`; `beta3` is supplied for fibres with a
dispersion table (numpy polyfit is not modelled), computed from the slope otherwise -/
def spanContribution (s : Span α) (f : α) (beta3 : Option α) : Option (Contribution α) :=
  (beta2At s.fib f).map (fun b2 =>
    let b3 := match beta3 with
      | some v => v
      | none => beta3Scalar s.fib.slope f b2
    fibreContribution b2 b3 f s.fib.refF s.fib.len s.pmdCoef)

/-- `Fiber.loss` -/
def spanLossDb (s : Span α) : Option α :=
  (lossCoef s.fib s.fib.refF).map (fun c => lossDb c s.fib.len s.conIn s.conOut s.attIn (s.lumped.map (·.2)))

end
end Gnpy.Fiber
