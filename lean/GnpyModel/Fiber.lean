import GnpyModel.Scalar
/- model file Fiber (see DESIGN.md §2) -/
namespace Gnpy

end Gnpy
