import GnpyModel.Scalar
import GnpyModel.Interp
import GnpyModel.Gn
/-
C05 — fibre span: loss budget, chromatic dispersion, PMD, PDL, latency
(gnpy/core/elements.py `Fiber.__init__/loss/chromatic_dispersion/pmd/propagate`, `Roadm.propagate` and
`Edfa.propagate` PMD/PDL lines; gnpy/core/science_utils.py `RamanSolver._create_lumped_losses/
calculate_attenuation_profile/calculate_unidirectional_stimulated_raman_scattering`;
gnpy/core/parameters.py `FiberParams` latency, `convert_length`; gnpy/core/info.py `apply_attenuation_db`).
-/
namespace Gnpy.Fiber
open Gnpy.Gn

section
variable {α : Type} [Add α] [Sub α] [Mul α] [Div α] [Neg α] [NatCast α] [LT α] [LE α]
  [DecidableLT α] [DecidableLE α] [Transc α] [HasPi α]

local notation "N(" n ")" => ((n : Nat) : α)
local notation "π" => (HasPi.pi : α)

/-- `utils.convert_length(value, units)` for the two accepted units -/
def convertLength (v : α) (km : Bool) : α := if km then v * N(1000) else v * N(1)

/-- `SpectralInformation.apply_attenuation_db`: `pch *= 1 / db2lin(att)` -/
def applyAttDb (p att : α) : α := p * (N(1) / db2lin att)

/-- `Fiber.__init__`: `lumped_losses = db2lin(- loss_dB)` -/
def lumpedLin (lossDb : α) : α := db2lin (-lossDb)

/-! ### lumped losses on the z axis (`RamanSolver._create_lumped_losses`)
`numpy.unique(concatenate((z_lumped, z)), return_inverse=True)` gives the sorted distinct positions; the losses of all
entries that share a position (several lumped losses at one place, or a lumped loss on a grid point, whose own entry
is 1) are multiplied (`merged_losses[index] *= loss`).  Points are `(position [m], linear loss)`. -/

/-- insert a point keeping ascending positions; a point whose position is already present multiplies its loss into
the point that is there -/
def insertPoint (pt : α × α) : List (α × α) → List (α × α)
  | [] => [pt]
  | q :: rest =>
    if pt.1 < q.1 then pt :: q :: rest
    else if q.1 < pt.1 then q :: insertPoint pt rest
    else (q.1, q.2 * pt.2) :: rest

/-- the behaviour before the fix 74081ba1 (`return_index=True`: the first entry of a position wins, later ones are
dropped); kept only for the witness lemma `lumped_same_position_failed_before_fix` -/
def insertPointFirstWins (pt : α × α) : List (α × α) → List (α × α)
  | [] => [pt]
  | q :: rest =>
    if pt.1 < q.1 then pt :: q :: rest
    else if q.1 < pt.1 then q :: insertPointFirstWins pt rest
    else q :: rest

/-- `_create_lumped_losses(z, lumped_losses, z_lumped_losses)`: the merged, position-sorted list of
`(z, loss)` where grid points carry the loss 1 -/
def createLumped (lumped : List (α × α)) (z : List α) : List (α × α) :=
  (lumped ++ z.map (fun x => (x, N(1)))).foldl (fun acc pt => insertPoint pt acc) []

def prodL : List α → α
  | [] => N(1)
  | x :: xs => x * prodL xs

/-- last column of `calculate_attenuation_profile`: `exp(-alpha * L) * cumprod(lumped)[-1]` -/
def fibreLossLin (alpha len : α) (lumped : List (α × α)) : α :=
  Transc.exp (-(alpha * len)) * prodL ((createLumped lumped [N(0), len]).map (·.2))

/-- `Fiber.propagate` without Raman, one channel: input connector + padding, fibre loss, output connector -/
def propagateP (p conIn attIn alpha len : α) (lumped : List (α × α)) (conOut : α) : α :=
  applyAttDb (applyAttDb p (conIn + attIn) * fibreLossLin alpha len lumped) conOut

/-- `Fiber.loss` (dB) at the reference frequency: what the design uses -/
def lossDb (lossCoefRef len conIn conOut attIn : α) (lumpedLinear : List α) : α :=
  lossCoefRef * len + conIn + conOut + attIn + sumL (lumpedLinear.map (fun l => lin2db (N(1) / l)))

/-! ### chromatic dispersion, PMD, latency -/

/-- `Fiber.beta3(f)` for a scalar dispersion (`none` slope ⇒ 0) -/
def beta3Scalar (slope : Option α) (f beta2 : α) : α :=
  match slope with
  | none => N(0)
  | some s =>
    let d := N(2) * π * (f * f) / cLight
    (s - N(4) * π * (f * f * f) / (cLight * cLight) * beta2) / (d * d)

/-- `Fiber.chromatic_dispersion(f)`: `-(beta2 + 2π beta3 (f - f_ref)) * 2π f_ref² / c * length` -/
def chromaticDispersion (beta2 beta3 f refF len : α) : α :=
  let negBeta := -(beta2 + N(2) * π * beta3 * (f - refF))
  negBeta * N(2) * π * (refF * refF) / cLight * len

/-- `Fiber.pmd = pmd_coef * sqrt(length)` -/
def fibrePmd (pmdCoef len : α) : α := pmdCoef * Transc.sqrt len

/-- `FiberParams._latency = length / (c / n1)` -/
def latency (len : α) : α := len / (cLight / n1)

/-- `sqrt(x ** 2 + b ** 2)`: the PMD / PDL update of fibres, ROADMs and amplifiers -/
def quadStep (x b : α) : α := Transc.sqrt (x * x + b * b)

/-- what one element adds to the accumulated figures of one channel -/
structure Contribution (α : Type) where
  cd : α        -- [s/m]   (fibres only)
  pmd : α       -- [s]
  pdl : α       -- [dB]    (ROADMs and amplifiers only)
  latency : α   -- [s]     (fibres only)

/-- accumulated figures of one channel -/
structure Acc (α : Type) where
  cd : α
  pmd : α
  pdl : α
  latency : α

/-- one element crossed -/
def accStep (a : Acc α) (c : Contribution α) : Acc α :=
  { cd := a.cd + c.cd, pmd := quadStep a.pmd c.pmd, pdl := quadStep a.pdl c.pdl, latency := a.latency + c.latency }

/-- a path = the elements crossed in order -/
def accPath (a : Acc α) (cs : List (Contribution α)) : Acc α := cs.foldl accStep a

/-- contribution of a fibre span to the channel at frequency `f` -/
def fibreContribution (beta2 beta3 f refF len pmdCoef : α) : Contribution α :=
  { cd := chromaticDispersion beta2 beta3 f refF len, pmd := fibrePmd pmdCoef len, pdl := N(0), latency := latency len }

/-- contribution of a ROADM (`roadm-pmd`, `roadm-pdl` of the internal path) or of an amplifier (`params.pmd/pdl`) -/
def lumpedContribution (pmd pdl : α) : Contribution α := { cd := N(0), pmd := pmd, pdl := pdl, latency := N(0) }

/-! ### a whole span -/

/-- what `Fiber.__init__` keeps besides the `Gn.Fibre` coefficients -/
structure Span (α : Type) where
  fib : Fibre α
  conIn : α                 -- [dB]
  attIn : α                 -- [dB] padding
  conOut : α                -- [dB]
  lumped : List (α × α)     -- (position [m], linear loss) in the order of the description
  pmdCoef : α               -- [s/sqrt(m)]

/-- `Fiber.__init__`: every lumped-loss position (km) must lie strictly inside the fibre
(`NetworkTopologyError` otherwise) -/
def lumpedPositionsOk (lenM : α) (l : List (α × α)) : Bool :=
  l.all (fun x => decide (N(0) < x.1) && decide (x.1 < N(1) / N(1000) * lenM))

/-- `(position km, loss dB)` → `(position m, linear loss)` -/
def mkLumped (l : List (α × α)) : List (α × α) := l.map (fun x => (x.1 * N(1000), lumpedLin x.2))

/-- power of one channel after `Fiber.propagate` (Raman off); `none` = SpectrumError (loss table) -/
def spanOut (s : Span α) (f p : α) : Option α :=
  (alphaAt s.fib f).map (fun a => propagateP p s.conIn s.attIn a s.fib.len s.lumped s.conOut)

/-- what the span adds to CD / PMD / PDL / latency of the channel at `f`; `beta3` is supplied for fibres with a
dispersion table (numpy polyfit is not modelled), computed from the slope otherwise -/
def spanContribution (s : Span α) (f : α) (beta3 : Option α) : Option (Contribution α) :=
  (beta2At s.fib f).map (fun b2 =>
    let b3 := match beta3 with
      | some v => v
      | none => beta3Scalar s.fib.slope f b2
    fibreContribution b2 b3 f s.fib.refF s.fib.len s.pmdCoef)

/-- `Fiber.loss` -/
def spanLossDb (s : Span α) : Option α :=
  (lossCoef s.fib s.fib.refF).map (fun c => lossDb c s.fib.len s.conIn s.conOut s.attIn (s.lumped.map (·.2)))

end
end Gnpy.Fiber

/-
Raman solver, unidirectional part (gnpy/core/science_utils.py
`RamanSolver.calculate_unidirectional_stimulated_raman_scattering`), on the solver's own z grid.
Vectors are indexed by frequency, matrices `m[a][t]` by frequency `a` and grid index `t`; the Raman efficiency
`cr[a][b]` (from `Fiber.cr`, an input of the model) is the gain of `a` per W of `b`.
The grid is the list of `(z, lumped)` pairs returned by `_create_lumped_losses` (`Gnpy.Fiber.createLumped`).
Not modelled: `iterative_algorithm` (co- and counter-propagating waves together); its result (the power and loss profiles)
is an input of the spontaneous-scattering model below.
-/
namespace Gnpy.Raman

section
variable {α : Type} [Add α] [Sub α] [Mul α] [Div α] [Neg α] [NatCast α] [LT α] [LE α]
  [DecidableLT α] [DecidableLE α] [Transc α]

local notation "N(" n ")" => ((n : Nat) : α)

/-- `sum(row * p)` -/
def dot : List α → List α → α
  | r :: rs, p :: ps => r * p + dot rs ps
  | _, _ => N(0)

/-! ### method `numerical`: explicit Euler -/

/-- one step: `power[:, i] = power[:, i-1] * (1 + (-alpha + sum(cr * power[:, i-1], 1)) * dz) * lumped` -/
def eulerStepGo (pAll : List α) (dz l : α) : List α → List α → List (List α) → List α
  | pa :: ps, a :: as, row :: rows =>
    pa * (N(1) + (-a + dot row pAll) * dz) * l :: eulerStepGo pAll dz l ps as rows
  | _, _, _ => []

def eulerStep (alpha : List α) (cr : List (List α)) (p : List α) (dz l : α) : List α :=
  eulerStepGo p dz l p alpha cr

/-- the columns `power[:, 0], power[:, 1], …` along the grid `(z_k, lumped_k)`; the step from `z_k` to `z_{k+1}`
uses `lumped_k` -/
def euler (alpha : List α) (cr : List (List α)) : List α → List (α × α) → List (List α)
  | p, g0 :: g1 :: rest =>
    p :: euler alpha cr (eulerStep alpha cr p (g1.1 - g0.1) g0.2) (g1 :: rest)
  | p, _ => [p]

/-! ### method `perturbative` -/

def vadd : List α → List α → List α
  | x :: xs, y :: ys => (x + y) :: vadd xs ys
  | _, _ => []

def vmul : List α → List α → List α
  | x :: xs, y :: ys => (x * y) :: vmul xs ys
  | _, _ => []

def vscale (c : α) (v : List α) : List α := v.map (fun x => c * x)

def zeros (n : Nat) : List α := List.replicate n N(0)

/-- `sum(crpz * m, 1)[a]` for one row `crp[a][·]`: `Σ_b crp[a][b] · m[b][·]` -/
def rowTimes (T : Nat) : List α → List (List α) → List α
  | c :: cs, mb :: ms => vadd (vscale c mb) (rowTimes T cs ms)
  | _, _ => zeros T

/-- `sum(crpz * m, 1)` -/
def crTimes (T : Nat) (crp : List (List α)) (m : List (List α)) : List (List α) := crp.map (fun row => rowTimes T row m)

/-- cumulative trapezoid `cumsum((y[:-1] + y[1:]) / 2 * dz)` started from `acc`, without the leading entry -/
def trapGo (acc : α) : List α → List α → List α
  | y0 :: y1 :: ys, z0 :: z1 :: zs =>
    let acc' := acc + (y0 + y1) / N(2) * (z1 - z0)
    acc' :: trapGo acc' (y1 :: ys) (z1 :: zs)
  | _, _ => []

/-- the `z_integral` row with the value 0 put in front (`gamma_k[:, 0] = 0`, `crpz[:, :, 1:] * z_integral`) -/
def trapCum (ys zs : List α) : List α := N(0) :: trapGo N(0) ys zs

/-- `alphaz = outer(alpha, z_interval)` -/
def alphazM (alpha zs : List α) : List (List α) := alpha.map (fun a => zs.map (fun z => a * z))

/-- `expz = exp(- alphaz)` -/
def expzM (alpha zs : List α) : List (List α) := (alphazM alpha zs).map (fun r => r.map (fun x => Transc.exp (-x)))

/-- `eff_length = 1 / outer(alpha, ones) * (1 - expz)` -/
def effLenM (alpha zs : List α) : List (List α) :=
  (alpha.zip (expzM alpha zs)).map (fun ae => ae.2.map (fun e => N(1) / ae.1 * (N(1) - e)))

/-- `crpz[a][b] = cr[a][b] * p0[b]` (constant along z) -/
def crpM (cr : List (List α)) (p0 : List α) : List (List α) := cr.map (fun row => vmul row p0)

/-- the exponent without Raman: `- alphaz` -/
def expo0 (alpha zs : List α) : List (List α) := (alphazM alpha zs).map (fun r => r.map (fun x => -x))

/-- first-order Raman term `gamma1 = sum(crpz * eff_length, 1)` -/
def gamma1 (alpha : List α) (cr : List (List α)) (p0 zs : List α) : List (List α) :=
  crTimes zs.length (crpM cr p0) (effLenM alpha zs)

/-- row-wise sum of two matrices -/
def madd (x y : List (List α)) : List (List α) := (x.zip y).map (fun r => vadd r.1 r.2)

/-- `exponent` on one interval of the grid (relative positions `zs`, launch powers `p0` already multiplied by the
lumped loss at the interval start), for `order ∈ {0,…,4}` (the code rejects more than 4) -/
def expoInterval (order : Nat) (alpha : List α) (cr : List (List α)) (p0 : List α) (zs : List α) : List (List α) :=
  let T := zs.length
  let expz := expzM alpha zs
  let crp := crpM cr p0
  let e0 := expo0 alpha zs
  if order = 0 then e0 else
  let g1 := gamma1 alpha cr p0 zs
  let e1 := madd e0 g1
  if order = 1 then e1 else
  let int2 := (expz.zip g1).map (fun x => trapCum (vmul x.1 x.2) zs)
  let g2 := crTimes T crp int2
  let e2 := madd e1 g2
  if order = 2 then e2 else
  let half : α := N(1) / N(2)
  let int3 := (expz.zip (g1.zip g2)).map (fun x =>
    trapCum (vmul x.1 (vadd x.2.2 (vscale half (vmul x.2.1 x.2.1)))) zs)
  let g3 := crTimes T crp int3
  let e3 := madd e2 g3
  if order = 3 then e3 else
  let sixth : α := N(1) / N(6)
  let int4 := (expz.zip (g1.zip (g2.zip g3))).map (fun x =>
    trapCum (vmul x.1 (vadd (vadd x.2.2.2 (vmul x.2.1 x.2.2.1)) (vscale sixth (vmul x.2.1 (vmul x.2.1 x.2.1))))) zs)
  let g4 := crTimes T crp int4
  madd e3 g4

/-- `power_interval = outer(p0, ones) * exp(exponent)` -/
def powerInterval (order : Nat) (alpha : List α) (cr : List (List α)) (p0 : List α) (zs : List α) : List (List α) :=
  ((expoInterval order alpha cr p0 zs).zip p0).map (fun x => x.1.map (fun e => x.2 * Transc.exp e))

/-- walk to the first point that carries a lumped loss (≠ 1): returns the points up to and including it, and the
remaining grid beginning at that point (`([…all…], [])` when there is none) -/
def splitGo : List (α × α) → List (α × α) × List (α × α)
  | [] => ([], [])
  | h :: t =>
    if h.2 < N(1) ∨ N(1) < h.2 then ([h], h :: t)
    else
      let r := splitGo t
      (h :: r.1, r.2)

/-- the next interval of the perturbative loop: from the first grid point to the next lumped loss (inclusive) or to the
end; and the grid that remains, beginning at that lumped loss -/
def takeInterval : List (α × α) → List (α × α) × List (α × α)
  | [] => ([], [])
  | g :: rest =>
    let r := splitGo rest
    (g :: r.1, r.2)

def lastD (d : α) : List α → α
  | [] => d
  | [x] => x
  | _ :: xs => lastD d xs

/-- append the columns `1:` of `m` to the rows of `acc` -/
def appendTail (acc m : List (List α)) : List (List α) := (acc.zip m).map (fun x => x.1 ++ x.2.drop 1)

/-- the loop over the intervals between lumped losses; `ll` is the lumped loss applied at the start of the
current interval (`llumped_losses`), `fuel` bounds the number of intervals.  Returns the power profile and the powers
at the end of the last interval (`power_in` after the loop = last column of the profile) -/
def perturbGo (order : Nat) (alpha : List α) (cr : List (List α)) :
    Nat → List α → α → List (α × α) → List (List α) → List (List α) × List α
  | 0, pin, _, _, acc => (acc, pin)
  | fuel + 1, pin, ll, grid, acc =>
    match grid with
    | [] => (acc, pin)
    | [_] => (acc, pin)
    | g0 :: _ =>
      let iv := takeInterval grid
      let zs := iv.1.map (fun g => g.1 - g0.1)
      let p0 := pin.map (fun x => x * ll)
      let pw := powerInterval order alpha cr p0 zs
      let acc' := appendTail acc pw
      let pin' := (pw.zip pin).map (fun x => lastD x.2 x.1)
      let ll' := match iv.2 with
        | [] => N(1)
        | h :: _ => h.2
      perturbGo order alpha cr fuel pin' ll' iv.2 acc'

/-- `calculate_unidirectional_stimulated_raman_scattering`, method `perturbative`: rows = frequencies,
columns = grid points -/
def perturbative (order : Nat) (alpha : List α) (cr : List (List α)) (pin : List α) (grid : List (α × α)) : List (List α) :=
  (perturbGo order alpha cr (grid.length + 1) pin N(1) grid (pin.map (fun x => [x]))).1

/-- the powers at the fibre end (last column of `perturbative`) -/
def perturbativeEnd (order : Nat) (alpha : List α) (cr : List (List α)) (pin : List α) (grid : List (α × α)) : List α :=
  (perturbGo order alpha cr (grid.length + 1) pin N(1) grid (pin.map (fun x => [x]))).2

/-! ### spontaneous Raman scattering (`RamanSolver.calculate_spontaneous_raman_scattering`)
Inputs of the model (they come from the stimulated solver and `Fiber.cr`): for every pump its frequency, its power
profile `P_p(z)` along the result grid and its Raman efficiency onto every channel `cr[i][p]`; for every channel its
baud rate, frequency and loss profile `loss_i(z)`; the grid `z`; the fibre temperature.  A pump is ONE record: its
frequency, profile and efficiency column belong together (the SRS result lists co-propagating pumps first, then the
counter-propagating ones, whatever the order of `fiber.raman_pumps`). -/

/-- `scipy.constants.h` = 6.62607015e-34 J s -/
def planckH : α := N(662607015) / N(1000000000000000000000000000000000000000000)
/-- `scipy.constants.k` = 1.380649e-23 J/K -/
def boltzK : α := N(1380649) / N(100000000000000000000000000000)

/-- `numpy.trapz(y, z)` -/
def trapz : List α → List α → α
  | y0 :: y1 :: ys, z0 :: z1 :: zs => (z1 - z0) * ((y1 + y0) / N(2)) + trapz (y1 :: ys) (z1 :: zs)
  | _, _ => N(0)

def vdiv : List α → List α → List α
  | x :: xs, y :: ys => (x / y) :: vdiv xs ys
  | _, _ => []

/-- `eta = - 1 / (1 - exp(h * df / (k * T)))` -/
def etaBE (df temp : α) : α := (-N(1)) / (N(1) - Transc.exp (planckH * df / (boltzK * temp)))

/-- one pump as seen by one channel: (pump frequency, efficiency `cr[i][p]`, pump power profile) -/
structure PumpAt (α : Type) where
  f : α
  cr : α
  profile : List α

/-- contribution of one pump to the ASE of the channel `(baud, f, loss profile)`:
`2 * h * baud * f * (1 + eta) * cr * (df > 0) * trapz(P_p / loss_i, z)` -/
def sprsTerm (temp baud f : α) (loss z : List α) (p : PumpAt α) : α :=
  let df := p.f - f
  let mask : α := if N(0) < df then N(1) else N(0)
  N(2) * planckH * baud * f * (N(1) + etaBE df temp) * p.cr * mask * trapz (vdiv p.profile loss) z

/-- ASE generated on one channel by all the pumps -/
def sprsChannel (temp baud f : α) (loss z : List α) (pumps : List (PumpAt α)) : α :=
  sumL (pumps.map (sprsTerm temp baud f loss z))

/-- transpose of the Euler columns: rows = frequencies -/
def column (m : List (List α)) (k : Nat) : List α := m.filterMap (fun r => r[k]?)

end
end Gnpy.Raman
