import GnpyModel.Scalar
/- model file Json (see DESIGN.md §2) -/
namespace Gnpy

end Gnpy
