import GnpyModel.Scalar
/-
JSON tree as Python's `json` module presents it to the converters (C18): `None`, `bool`, `int`,
`float` (kept as its binary64 bit pattern, so nothing is lost and equality is decidable), `str`,
`list`, and `dict` in *insertion order* (an association list; the generators never repeat a key,
as `json.load` never does).  Helpers mirror the dict operations the converters use:
`in`, `[]`, `.get`, `.pop(k, None)` and `d[k] = v` (in place if present, appended otherwise).
-/
namespace Gnpy

inductive J where
  | null
  | bool (b : Bool)
  | int (i : Int)
  | flt (bits : Nat)
  | str (s : String)
  | arr (l : List J)
  | obj (l : List (String × J))
  deriving Repr, Inhabited

namespace J

mutual
def beq : J → J → Bool
  | .null, .null => true
  | .bool a, .bool b => a == b
  | .int a, .int b => a == b
  | .flt a, .flt b => a == b
  | .str a, .str b => a == b
  | .arr a, .arr b => beqL a b
  | .obj a, .obj b => beqO a b
  | _, _ => false
def beqL : List J → List J → Bool
  | [], [] => true
  | x :: xs, y :: ys => beq x y && beqL xs ys
  | _, _ => false
def beqO : List (String × J) → List (String × J) → Bool
  | [], [] => true
  | (k, x) :: xs, (k', y) :: ys => k == k' && beq x y && beqO xs ys
  | _, _ => false
end

mutual
theorem eq_of_beq : ∀ a b : J, beq a b = true → a = b
  | .null, b => by cases b <;> simp [beq]
  | .bool a, b => by cases b <;> simp [beq]
  | .int a, b => by cases b <;> simp [beq]
  | .flt a, b => by cases b <;> simp [beq]
  | .str a, b => by cases b <;> simp [beq]
  | .arr a, b => by
    cases b <;> simp [beq]
    exact eq_of_beqL a _
  | .obj a, b => by
    cases b <;> simp [beq]
    exact eq_of_beqO a _
theorem eq_of_beqL : ∀ a b : List J, beqL a b = true → a = b
  | [], b => by cases b <;> simp [beqL]
  | x :: xs, b => by
    cases b with
    | nil => simp [beqL]
    | cons y ys =>
      simp only [beqL, Bool.and_eq_true, List.cons.injEq]
      intro h
      exact ⟨eq_of_beq x y h.1, eq_of_beqL xs ys h.2⟩
theorem eq_of_beqO : ∀ a b : List (String × J), beqO a b = true → a = b
  | [], b => by cases b <;> simp [beqO]
  | (k, x) :: xs, b => by
    cases b with
    | nil => simp [beqO]
    | cons y ys =>
      obtain ⟨k', y⟩ := y
      simp only [beqO, Bool.and_eq_true, beq_iff_eq, List.cons.injEq, Prod.mk.injEq]
      intro h
      exact ⟨⟨h.1.1, eq_of_beq x y h.1.2⟩, eq_of_beqO xs ys h.2⟩
end

mutual
theorem beq_refl : ∀ a : J, beq a a = true
  | .null => by simp [beq]
  | .bool a => by simp [beq]
  | .int a => by simp [beq]
  | .flt a => by simp [beq]
  | .str a => by simp [beq]
  | .arr a => by simp [beq, beqL_refl a]
  | .obj a => by simp [beq, beqO_refl a]
theorem beqL_refl : ∀ a : List J, beqL a a = true
  | [] => by simp [beqL]
  | x :: xs => by simp [beqL, beq_refl x, beqL_refl xs]
theorem beqO_refl : ∀ a : List (String × J), beqO a a = true
  | [] => by simp [beqO]
  | (k, x) :: xs => by simp [beqO, beq_refl x, beqO_refl xs]
end

instance : DecidableEq J := fun a b =>
  if h : beq a b = true then isTrue (eq_of_beq a b h)
  else isFalse (fun e => h (e ▸ beq_refl a))

/-- Python truthiness -/
def truthy : J → Bool
  | .null => false
  | .bool b => b
  | .int i => i != 0
  | .flt b => b % 2 ^ 63 != 0
  | .str s => s != ""
  | .arr l => !l.isEmpty
  | .obj l => !l.isEmpty

def isObj : J → Bool | .obj _ => true | _ => false
def isArr : J → Bool | .arr _ => true | _ => false
def isStr : J → Bool | .str _ => true | _ => false

end J

/-- association-list view of a Python dict -/
abbrev Dict := List (String × J)

namespace Dict

/-- `k in d` -/
def has (d : Dict) (k : String) : Bool := d.any (fun kv => kv.1 == k)

/-- `d.get(k)` -/
def get? : Dict → String → Option J
  | [], _ => none
  | (k', v) :: t, k => if k' == k then some v else get? t k

/-- `del d[k]` / the remaining dict of `d.pop(k, None)` -/
def erase : Dict → String → Dict
  | [], _ => []
  | (k', v) :: t, k => if k' == k then erase t k else (k', v) :: erase t k

/-- `d[k] = v`: in place when the key exists, appended otherwise -/
def set : Dict → String → J → Dict
  | [], k, v => [(k, v)]
  | (k', v') :: t, k, v => if k' == k then (k', v) :: t else (k', v') :: set t k v

/-- `for k in d: d[k] = f(k, d[k])` -/
def mapVals (f : String → J → J) (d : Dict) : Dict := d.map (fun kv => (kv.1, f kv.1 kv.2))

def keys (d : Dict) : List String := d.map (·.1)

end Dict

/-- the error kinds the converters can raise before validation -/
abbrev PyR := Except String

def keyError (k : String) : PyR α := .error s!"KeyError:{k}"
def valueError (m : String) : PyR α := .error s!"ValueError:{m}"
def typeError (m : String) : PyR α := .error s!"TypeError:{m}"
def attributeError (m : String) : PyR α := .error s!"AttributeError:{m}"

/-- `d[k]` -/
def Dict.get (d : Dict) (k : String) : PyR J :=
  match d.get? k with
  | some v => pure v
  | none => keyError k

end Gnpy
