import GnpyModel.Scalar
/- model file Select (see DESIGN.md §2) -/
namespace Gnpy

end Gnpy
