import GnpyModel.Scalar
import GnpyModel.Edfa
/-
C10 — automatic amplifier selection (gnpy/core/network.py `select_edfa`, `filter_edfa_list_based_on_targets`,
`edfa_nf`, `get_node_restrictions`, `preselect_multiband_amps`, `raman_allowed` inside `set_one_amplifier`;
gnpy/core/equipment.py `find_type_varieties`).

The equipment library is an association list in dict (insertion) order. Frequencies are integer Hz.
The noise figure used for ranking is the C04 model (`Gnpy.Edfa.ampNfAvg`) at the load `edfa_nf` fixes
(`pin_db = 0`, `nch = 88`, `slot_width = 50e9`); `none` = −∞ dB (OpenROADM booster).
-/
namespace Gnpy.Select
open Gnpy.Edfa

section
variable {α : Type} [Add α] [Sub α] [Mul α] [Div α] [Neg α] [NatCast α] [LT α] [LE α]
  [DecidableLT α] [DecidableLE α] [Transc α]

/-- one library entry (`equipment['Edfa'][name]`) -/
structure AmpSpec (α : Type) where
  name : String
  /-- `type_def == 'multi_band'` ⇒ `some members` -/
  multiBand : Option (List String)
  raman : Bool
  allowedForDesign : Bool
  fMin : Nat
  fMax : Nat
  gainFlatmax : α
  gainMin : α
  pMax : α
  nf : AmpNf α

def AmpSpec.isMulti (a : AmpSpec α) : Bool := a.multiBand.isSome

structure Band where
  fMin : Nat
  fMax : Nat

def AmpSpec.covers (a : AmpSpec α) (b : Band) : Bool := decide (a.fMin ≤ b.fMin) && decide (b.fMax ≤ a.fMax)

/-! ### `get_node_restrictions` -/

/-- what `get_node_restrictions` looks at around the amplifier node -/
structure NodeCtx where
  /-- `node.params.type_variety` (`""` when the user gave none) -/
  typeVariety : String
  /-- `node.variety_list` (`None` or a list) -/
  varietyList : Option (List String)
  /-- `some booster_variety_list` when the previous node is a ROADM -/
  prevRoadmBooster : Option (List String)
  /-- `some preamp_variety_list` when the next node is a ROADM -/
  nextRoadmPreamp : Option (List String)

/-- the restriction list in force: own variety list, else ROADM booster list, else ROADM preamp list, else `[]`
(an empty list is falsy and falls through) -/
def restrictionList (c : NodeCtx) : List String :=
  match c.varietyList with
  | some (x :: xs) => x :: xs
  | _ =>
    match c.prevRoadmBooster with
    | some (x :: xs) => x :: xs
    | _ =>
      match c.nextRoadmPreamp with
      | some (x :: xs) => x :: xs
      | _ => []

/-- `n in restrictions or (not restrictions and a.allowed_for_design)` -/
def allowedBy (r : List String) (a : AmpSpec α) : Bool := r.contains a.name || (r.isEmpty && a.allowedForDesign)

/-- `get_node_restrictions` for an `Edfa` node; `band` = first design band -/
def nodeRestrictions (lib : List (AmpSpec α)) (c : NodeCtx) (band : Band) : List String :=
  if c.typeVariety ≠ "" then [c.typeVariety]
  else
    let r := restrictionList c
    (lib.filter (fun a => !a.isMulti && a.covers band && allowedBy r a)).map (fun a => a.name)

def lookup (lib : List (AmpSpec α)) (n : String) : Option (AmpSpec α) := lib.find? (fun a => a.name == n)

/-- `get_node_restrictions` for a `Multiband_amplifier` node -/
def nodeRestrictionsMulti (lib : List (AmpSpec α)) (c : NodeCtx) (bands : List Band) : List String :=
  if c.typeVariety ≠ "" then [c.typeVariety]
  else
    let r := restrictionList c
    let multi := lib.filter (fun a => a.isMulti && allowedBy r a)
    let members (m : AmpSpec α) : List String := m.multiBand.getD []
    let edfaEqpt : List String :=
      multi.flatMap (fun m => (members m).flatMap (fun t => bands.filterMap (fun b =>
        match lookup lib t with
        | some a => if a.covers b then some t else none
        | none => none)))
    (multi.filter (fun m => (members m).all (fun t => edfaEqpt.contains t))).map (fun a => a.name)

/-- `raman_allowed`: the previous node is a fibre and all its loss coefficients (dB/m) are below
`max_fiber_lineic_loss_for_raman * 1e-3` -/
def ramanAllowed (prevIsFiber : Bool) (lossCoef : List α) (limit : α) : Bool :=
  prevIsFiber && lossCoef.all (fun l => decide (l < limit * (((1:Nat) : α) / ((1000:Nat) : α))))

/-! ### `filter_edfa_list_based_on_targets`, `select_edfa` -/

/-- `Edfa_list(variety, power, gain_min, nf, …)` -/
structure Cand (α : Type) where
  variety : String
  power : α
  gainMin : α
  nf : Option α
  raman : Bool

/-- `edfa_nf(gain_target, amp)` -/
def edfaNf (a : AmpSpec α) (gain : α) : Option α :=
  (ampNfAvg a.nf { pinDb := Edfa.zero, nch := ((88:Nat) : α), slotWidth := c50G } gain).1

/-- `min(pin + gain_flatmax + target_extended_gain, p_max) - power_target` -/
def powerAttr (a : AmpSpec α) (gain power ext : α) : α :=
  smin (power - gain + a.gainFlatmax + ext) a.pMax - power

/-- `gain_target + 3 - gain_min` for EDFAs, `gain_target - gain_min` for Raman -/
def gainMinAttr (a : AmpSpec α) (gain : α) : α :=
  if a.raman then gain - a.gainMin else gain + ((3:Nat) : α) - a.gainMin

def cand (a : AmpSpec α) (gain power ext : α) : Cand α :=
  { variety := a.name, power := powerAttr a gain power ext, gainMin := gainMinAttr a gain,
    nf := edfaNf a gain, raman := a.raman }

/-- `edfa_list` (the non-Raman models, library order) -/
def edfaList (lib : List (AmpSpec α)) (gain power ext : α) : List (Cand α) :=
  (lib.filter (fun a => !a.raman)).map (fun a => cand a gain power ext)

/-- `raman_list` (empty unless Raman is allowed) -/
def ramanList (lib : List (AmpSpec α)) (ramanOk : Bool) (gain power ext : α) : List (Cand α) :=
  if ramanOk then (lib.filter (fun a => a.raman)).map (fun a => cand a gain power ext) else []

def maxPower : List (Cand α) → α
  | [] => Edfa.zero
  | c :: cs => cs.foldl (fun m x => if m < x.power then x.power else m) c.power

/-- the gain+power stage of the filter on a non-empty gain-acceptable list -/
def powerStage (l : List (Cand α)) : List (Cand α) :=
  let ok := l.filter (fun x => decide (Edfa.zero < x.power))
  if ok.isEmpty then
    let pm := maxPower l
    l.filter (fun x => decide (-(c03 : α) < x.power - pm))
  else ok

/-- `filter_edfa_list_based_on_targets` on the two candidate lists; `none` = ConfigurationError -/
def acceptable (edfaL ramanL : List (Cand α)) : Option (List (Cand α)) :=
  let gainOk := (edfaL ++ ramanL).filter (fun x => decide (Edfa.zero < x.gainMin))
  if gainOk.isEmpty then
    if edfaL.isEmpty then none else some (powerStage edfaL)
  else some (powerStage gainOk)

def nfLt : Option α → Option α → Bool
  | none, none => false
  | none, some _ => true
  | some _, none => false
  | some x, some y => decide (x < y)

/-- Python `min(l, key=attrgetter('nf'))`: the first minimum -/
def argminNf : List (Cand α) → Option (Cand α)
  | [] => none
  | c :: cs => some (cs.foldl (fun best x => if nfLt x.nf best.nf then x else best) c)

structure Choice (α : Type) where
  variety : String
  powerReduction : α
  nf : Option α
  power : α
  gainMin : α

/-- `select_edfa(raman_allowed, gain_target, power_target, edfa_eqpt, uid, target_extended_gain)`;
`none` = ConfigurationError -/
def selectEdfa (lib : List (AmpSpec α)) (ramanOk : Bool) (gain power ext : α) : Option (Choice α) :=
  match acceptable (edfaList lib gain power ext) (ramanList lib ramanOk gain power ext) with
  | none => none
  | some l =>
    match argminNf l with
    | none => none
    | some c => some { variety := c.variety, powerReduction := smin c.power Edfa.zero, nf := c.nf,
                       power := c.power, gainMin := c.gainMin }

/-- the library `set_one_amplifier` hands to `select_edfa`: no multiband entries, and — when the restriction
list is non-empty — only its members -/
def selectionLibrary (lib : List (AmpSpec α)) (restrictions : List String) : List (AmpSpec α) :=
  let single := lib.filter (fun a => !a.isMulti)
  if restrictions.isEmpty then single else single.filter (fun a => restrictions.contains a.name)

/-! ### multiband preselection (`preselect_multiband_amps`, `find_type_varieties`) -/

/-- insertion-ordered de-duplication (what building a dict from a comprehension does to its keys) -/
def dedup : List String → List String
  | [] => []
  | x :: xs => x :: (dedup xs).filter (fun y => y != x)

/-- `find_type_varieties(amps, equipment)`: for every single-band name the multiband entries listing it -/
def findTypeVarieties (lib : List (AmpSpec α)) (amps : List String) : List (List String) :=
  amps.map (fun t => (lib.filter (fun m => (m.multiBand.getD []).contains t)).map (fun m => m.name))

structure BandTarget (α : Type) where
  band : Band
  gain : α
  power : α

def membersOf (lib : List (AmpSpec α)) (ms : List String) : List String :=
  ms.flatMap (fun m => match lookup lib m with
    | some a => a.multiBand.getD []
    | none => [])

/-- the single-band models offered to the filter for one band: members of the selected multiband entries
(first occurrence order, as the dict comprehension keeps them) that cover the band -/
def bandEqpt (lib : List (AmpSpec α)) (selected : List String) (b : Band) : List (AmpSpec α) :=
  (dedup (membersOf lib selected)).filterMap (fun t => match lookup lib t with
    | some a => if a.covers b then some a else none
    | none => none)

/-- one band of the loop of `preselect_multiband_amps` (repaired behaviour, fix F10): of the multiband entries
selected so far keep those that list a model accepted for this band; `none` = ConfigurationError of the filter -/
def preselectStep (lib : List (AmpSpec α)) (ext : α) (selected : List String) (bt : BandTarget α) :
    Option (List String) :=
  let eqpt := bandEqpt lib selected bt.band
  match acceptable (edfaList eqpt bt.gain bt.power ext) (ramanList eqpt true bt.gain bt.power ext) with
  | none => none
  | some l =>
    let found := (findTypeVarieties lib (l.map (fun c => c.variety))).flatten
    some (selected.filter (fun m => found.contains m))

/-- the same step as the code had it before fix F10: the selected entries were REPLACED by every multiband
entry of the whole library that lists an accepted model -/
def preselectStepOld (lib : List (AmpSpec α)) (ext : α) (selected : List String) (bt : BandTarget α) :
    Option (List String) :=
  let eqpt := bandEqpt lib selected bt.band
  match acceptable (edfaList eqpt bt.gain bt.power ext) (ramanList eqpt true bt.gain bt.power ext) with
  | none => none
  | some l => some (dedup ((findTypeVarieties lib (l.map (fun c => c.variety))).flatten))

def preselectLoop (lib : List (AmpSpec α)) (ext : α) : List String → List (BandTarget α) → Option (List String)
  | sel, [] => some sel
  | sel, bt :: bts =>
    match preselectStep lib ext sel bt with
    | none => none
    | some sel' => preselectLoop lib ext sel' bts

/-- `preselect_multiband_amps`: the single-band names of the multiband entries surviving all bands -/
def preselect (lib : List (AmpSpec α)) (ext : α) (restrictions : List String) (bts : List (BandTarget α)) :
    Option (List String) :=
  (preselectLoop lib ext restrictions bts).map (membersOf lib)

/-! ### the whole `Multiband_amplifier` branch of `set_egress_amplifier` -/

/-- the multiband entries of the library as `(name, member names)` -/
def entriesOf (lib : List (AmpSpec α)) : List (String × List String) :=
  lib.filterMap (fun a => a.multiBand.map (fun ms => (a.name, ms)))

/-- `find_type_variety(picks, equipment)`: the entries that list every pick (intersection of the
`find_type_varieties` lists; the code holds them in a `set`, here: library order); `[]` = ConfigurationError
('amps do not belong to the same amp type') -/
def findTypeVarietyE (entries : List (String × List String)) (picks : List String) : List String :=
  if picks.isEmpty then []
  else (entries.filter (fun e => picks.all (fun p => e.2.contains p))).map (fun e => e.1)

def findTypeVariety (lib : List (AmpSpec α)) (picks : List String) : List String :=
  findTypeVarietyE (entriesOf lib) picks

/-- the restriction list `set_egress_amplifier` hands to `set_one_amplifier` for one band: the preselected
single-band names that cover the band (an EMPTY list means "no restriction" to `set_one_amplifier`) -/
def bandRestrictions (lib : List (AmpSpec α)) (redfa : List String) (b : Band) : List String :=
  redfa.filter (fun n => match lookup lib n with
    | some a => a.covers b
    | none => false)

/-- the amplifier chosen for one band -/
def bandPick (lib : List (AmpSpec α)) (ext : α) (ramanOk : Bool) (redfa : List String) (bt : BandTarget α) :
    Option String :=
  (selectEdfa (selectionLibrary lib (bandRestrictions lib redfa bt.band)) ramanOk bt.gain bt.power ext).map
    (fun ch => ch.variety)

/-- every band in turn (each band is chosen independently of the others) -/
def pickAll (lib : List (AmpSpec α)) (ext : α) (ramanOk : Bool) (redfa : List String) :
    List (BandTarget α) → Option (List String)
  | [] => some []
  | bt :: bts =>
    match bandPick lib ext ramanOk redfa bt with
    | none => none
    | some p =>
      match pickAll lib ext ramanOk redfa bts with
      | none => none
      | some ps => some (p :: ps)

structure MultiDesign where
  permitted : List String
  preselected : List String
  picks : List String
  candidates : List String

/-- auto-design of one `Multiband_amplifier` node without user type (`set_egress_amplifier`):
`get_node_restrictions` → `preselect_multiband_amps` → per band `set_one_amplifier`/`select_edfa` →
`find_type_variety`; `none` = ConfigurationError. `node.type_variety` is the head of `candidates`. -/
def multibandDesign (lib : List (AmpSpec α)) (ext : α) (c : NodeCtx) (ramanOk : Bool) (bts : List (BandTarget α)) :
    Option MultiDesign :=
  let rm := nodeRestrictionsMulti lib c (bts.map (fun bt => bt.band))
  match preselect lib ext rm bts with
  | none => none
  | some redfa =>
    match pickAll lib ext ramanOk redfa bts with
    | none => none
    | some picks =>
      match findTypeVariety lib picks with
      | [] => none
      | t :: ts => some { permitted := rm, preselected := redfa, picks := picks, candidates := t :: ts }

/-! ### a user-typed `Multiband_amplifier` -/

/-- `network_from_json`: a typed Multiband_amplifier whose `amplifiers` are listed (each with its own
type_variety) is accepted only if the given type is one of the entries listing all of them
(`false` = ConfigurationError 'not consistent with its amps type varieties'); nothing listed = accepted -/
def typedLoadOk (lib : List (AmpSpec α)) (tv : String) (listed : List String) : Bool :=
  listed.isEmpty || (findTypeVariety lib listed).contains tv

/-- one amplifier of a typed node: its own type_variety if it has one (`set_one_amplifier` keeps it), else a
choice among the members of the typed entry that cover the amplifier's design band -/
def typedPick (lib : List (AmpSpec α)) (ext : α) (ramanOk : Bool) (members : List String)
    (a : BandTarget α × String) : Option String :=
  if a.2 ≠ "" then some a.2 else bandPick lib ext ramanOk members a.1

def typedPickAll (lib : List (AmpSpec α)) (ext : α) (ramanOk : Bool) (members : List String) :
    List (BandTarget α × String) → Option (List String)
  | [] => some []
  | a :: as =>
    match typedPick lib ext ramanOk members a with
    | none => none
    | some p =>
      match typedPickAll lib ext ramanOk members as with
      | none => none
      | some ps => some (p :: ps)

/-- `set_egress_amplifier` on a Multiband_amplifier whose type_variety `tv` was given by the user:
`restrictions_edfa` = the members of `tv`; every amplifier of the node (own type or not) in turn; then
`find_type_variety` over the picks names the node again. `none` = ConfigurationError. -/
def typedDesign (lib : List (AmpSpec α)) (ext : α) (tv : String) (ramanOk : Bool)
    (amps : List (BandTarget α × String)) : Option MultiDesign :=
  match lookup lib tv with
  | none => none
  | some e =>
    let members := e.multiBand.getD []
    match typedPickAll lib ext ramanOk members amps with
    | none => none
    | some picks =>
      match findTypeVariety lib picks with
      | [] => none
      | t :: ts => some { permitted := [tv], preselected := members, picks := picks, candidates := t :: ts }

end
end Gnpy.Select
