import GnpyModel.Scalar
/-
C16 — the batch pipeline (gnpy/tools/worker_utils.py `planning`, gnpy/topology/request.py
`compute_path_with_disjunction`: `total_path = deepcopy(pathlist[i])` before every propagation;
gnpy/core/elements.py `Edfa.interpol_params`: `self.effective_gain = min(self.effective_gain, p_max − pin_db)`).

Two layers:
* the pipeline as a function: every request's result is `computeOne settings request`; only the slot assignment is
  a fold over the batch;
* a stateful amplifier machine: the repaired `Edfa` clamps from its SET gain on every call (a call leaves only the last
  effective gain behind, which nothing reads); the counter-model `callLeaky` keeps the gain it was clamped to, so that
  without the per-request copy a saturating request changed what the next request saw.
-/
namespace Gnpy.Plan

/-! ## the pipeline -/

/-- `planning` seen from outside: `computeOne` = route + mode + propagation on a private copy + verdict (everything
C11–C13 decide) for ONE request; `assign` = one iteration of `pth_assign_spectrum` (C14). -/
structure Pipeline (Settings Request Result Slots SlotOut : Type) where
  computeOne : Settings → Request → Result
  assign : Slots → Request × Result → Slots × SlotOut

variable {Settings Request Result Slots SlotOut : Type}

/-- the fold of the slot assignment over the batch, in batch order -/
def assignAll (P : Pipeline Settings Request Result Slots SlotOut) :
    Slots → List (Request × Result) → Slots × List SlotOut
  | s, [] => (s, [])
  | s, x :: xs =>
    let (s1, o) := P.assign s x
    let (s2, os) := assignAll P s1 xs
    (s2, o :: os)

structure PlanOut (Settings Result Slots SlotOut : Type) where
  settings : Settings          -- the network settings after the batch
  results : List Result
  slotOuts : List SlotOut
  slots : Slots

/-- `planning(network, equipment, requests)` -/
def plan (P : Pipeline Settings Request Result Slots SlotOut) (settings : Settings) (s0 : Slots)
    (reqs : List Request) : PlanOut Settings Result Slots SlotOut :=
  let results := reqs.map (P.computeOne settings)
  let (s, outs) := assignAll P s0 (reqs.zip results)
  { settings := settings, results := results, slotOuts := outs, slots := s }

/-! ## process-wide simulation parameters (`SimParams._shared_dict`) -/

/-- `NLIParams` as far as the channel selection of the GGN methods reads it -/
structure NliParams where
  method : String
  computedChannels : Option (List Nat)           -- 1-based channel numbers
  computedNumberOfChannels : Option Nat
deriving DecidableEq, Repr

/-- `RamanParams.flag` (+ the method name) -/
structure RamanParams where
  flag : Bool
  method : String
deriving DecidableEq, Repr

structure SimSettings where
  nli : NliParams
  raman : RamanParams
deriving DecidableEq, Repr

/-- what `planning` computes with: the designed network AND the process-wide simulation parameters -/
structure World (Net : Type) where
  network : Net
  sim : SimSettings

/-- Python `round(num / den)` for non-negative integers: nearest, ties to even -/
def roundDiv (num den : Nat) : Nat :=
  let q := num / den
  let r := num % den
  if 2 * r < den then q else if den < 2 * r then q + 1 else if q % 2 = 0 then q else q + 1

/-- the channels on which a GGN method evaluates the NLI explicitly (`NliSolver.compute_nli`): the listed
`computed_channels` minus one; else `round(i·(n−1)/(c−1))` for `i < c = computed_number_of_channels` (duplicates when the
comb has fewer carriers than `c`; `c = 1` divides by zero); else every channel.  READS the parameters only. -/
def cutIndices (p : NliParams) (nbCh : Nat) : Except String (List Nat) :=
  match p.computedChannels with
  | some l => .ok (l.map (· - 1))
  | none =>
    match p.computedNumberOfChannels with
    | some c => if c = 1 then .error "ZeroDivisionError"
                else .ok ((List.range c).map (fun i => roundDiv (i * (nbCh - 1)) (c - 1)))
    | none => .ok (List.range nbCh)

/-- the defect the SimParams monitor guards against (seeded change `nli_computed_channels_clamp`): a selection that
WRITES the clamped `computed_number_of_channels` back into the shared parameters -/
def cutIndicesClamping (p : NliParams) (nbCh : Nat) : NliParams × Except String (List Nat) :=
  match p.computedChannels, p.computedNumberOfChannels with
  | none, some c =>
    let p' := if c > nbCh then { p with computedNumberOfChannels := some nbCh } else p
    (p', cutIndices p' nbCh)
  | _, _ => (p, cutIndices p nbCh)

/-- a batch of combs (number of carriers each) evaluated one after the other with a selection that threads the
parameters (the defect) -/
def selectAllClamping (p : NliParams) : List Nat → NliParams × List (Except String (List Nat))
  | [] => (p, [])
  | n :: ns =>
    let (p1, r) := cutIndicesClamping p n
    let (p2, rs) := selectAllClamping p1 ns
    (p2, r :: rs)

/-! ## the amplifier machine -/
section machine
variable {α : Type} [Add α] [Sub α] [LE α] [DecidableLE α]

/-- an amplifier: the SET gain (constructor / design / user assignment: `effective_gain` setter records `_set_gain`), the gain
of the last call (`_effective_gain`, what `effective_gain` reads) and `p_max` -/
structure Edfa (α : Type) where
  setGain : α
  effGain : α
  pMax : α

/-- `Edfa.interpol_params` (as repaired): `self._effective_gain = min(self._set_gain, p_max − pin_db)` — the clamp always starts
from the SET gain — and the (flat, noiseless) output power `pin + effective_gain` -/
def Edfa.call (e : Edfa α) (pinDb : α) : Edfa α × α :=
  let g := if e.setGain ≤ e.pMax - pinDb then e.setGain else e.pMax - pinDb
  ({ e with effGain := g }, pinDb + g)

/-- COUNTER-MODEL, the behaviour before the repair: `effective_gain = min(effective_gain, p_max − pin_db)`, the clamp starts
from the gain the PREVIOUS call left behind.  Kept to document why the per-request deep copy was needed. -/
def Edfa.callLeaky (e : Edfa α) (pinDb : α) : Edfa α × α :=
  let g := if e.effGain ≤ e.pMax - pinDb then e.effGain else e.pMax - pinDb
  ({ e with effGain := g }, pinDb + g)

/-- successive calls of ONE amplifier object: final state and the output of every call -/
def callSeqWith (call : Edfa α → α → Edfa α × α) : Edfa α → List α → Edfa α × List α
  | e, [] => (e, [])
  | e, p :: ps =>
    let (e1, o) := call e p
    let (e2, os) := callSeqWith call e1 ps
    (e2, o :: os)

/-- a line: spans of (loss in dB, amplifier); a request is the total power (dBm) it launches -/
def propagateWith (call : Edfa α → α → Edfa α × α) : List (α × Edfa α) → α → List (α × Edfa α) × α
  | [], p => ([], p)
  | (loss, e) :: rest, p =>
    let (e', p1) := call e (p - loss)
    let (rest', p2) := propagateWith call rest p1
    ((loss, e') :: rest', p2)

/-- a batch WITH the per-request copy (`compute_path_with_disjunction`: propagate on a deep copy; the network is returned as it
was) -/
def planCopyWith (call : Edfa α → α → Edfa α × α) (net : List (α × Edfa α)) : List α → List (α × Edfa α) × List α
  | [] => (net, [])
  | p :: ps =>
    let r := (propagateWith call net p).2
    let (net2, rs) := planCopyWith call net ps
    (net2, r :: rs)

/-- a batch WITHOUT the copy: the amplifier objects thread from one request to the next -/
def planSharedWith (call : Edfa α → α → Edfa α × α) (net : List (α × Edfa α)) : List α → List (α × Edfa α) × List α
  | [] => (net, [])
  | p :: ps =>
    let (net1, r) := propagateWith call net p
    let (net2, rs) := planSharedWith call net1 ps
    (net2, r :: rs)

/-- the code as repaired -/
def propagate (net : List (α × Edfa α)) (p : α) := propagateWith Edfa.call net p
def propagateOnCopy (net : List (α × Edfa α)) (p : α) : List (α × Edfa α) × α := (net, (propagate net p).2)
def planCopy (net : List (α × Edfa α)) (ps : List α) := planCopyWith Edfa.call net ps
def planShared (net : List (α × Edfa α)) (ps : List α) := planSharedWith Edfa.call net ps
def callSeq (e : Edfa α) (ps : List α) := callSeqWith Edfa.call e ps
/-- the counter-model -/
def planCopyLeaky (net : List (α × Edfa α)) (ps : List α) := planCopyWith Edfa.callLeaky net ps
def planSharedLeaky (net : List (α × Edfa α)) (ps : List α) := planSharedWith Edfa.callLeaky net ps

/-- the settings of a line: losses, set gains and p_max (NOT the gain of the last call) -/
def settingsOf (net : List (α × Edfa α)) : List (α × α × α) := net.map (fun x => (x.1, x.2.setGain, x.2.pMax))

end machine
end Gnpy.Plan
