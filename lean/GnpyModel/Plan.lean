import GnpyModel.Scalar
/-
C16 — the batch pipeline (gnpy/tools/worker_utils.py `planning`, gnpy/topology/request.py
`compute_path_with_disjunction`: `total_path = deepcopy(pathlist[i])` before every propagation;
gnpy/core/elements.py `Edfa.interpol_params`: `self.effective_gain = min(self.effective_gain, p_max − pin_db)`).

Two layers:
* the pipeline as a function: every request's result is `computeOne settings request`; only the slot assignment is
  a fold over the batch;
* a stateful amplifier machine showing what the per-request deep copy protects against: an `Edfa` keeps the gain it
  was clamped to, so without the copy a saturating request changes what the next request sees.
-/
namespace Gnpy.Plan

/-! ## the pipeline -/

/-- `planning` seen from outside: `computeOne` = route + mode + propagation on a private copy + verdict (everything
C11–C13 decide) for ONE request; `assign` = one iteration of `pth_assign_spectrum` (C14). -/
structure Pipeline (Settings Request Result Slots SlotOut : Type) where
  computeOne : Settings → Request → Result
  assign : Slots → Request × Result → Slots × SlotOut

variable {Settings Request Result Slots SlotOut : Type}

/-- the fold of the slot assignment over the batch, in batch order -/
def assignAll (P : Pipeline Settings Request Result Slots SlotOut) :
    Slots → List (Request × Result) → Slots × List SlotOut
  | s, [] => (s, [])
  | s, x :: xs =>
    let (s1, o) := P.assign s x
    let (s2, os) := assignAll P s1 xs
    (s2, o :: os)

structure PlanOut (Settings Result Slots SlotOut : Type) where
  settings : Settings          -- the network settings after the batch
  results : List Result
  slotOuts : List SlotOut
  slots : Slots

/-- `planning(network, equipment, requests)` -/
def plan (P : Pipeline Settings Request Result Slots SlotOut) (settings : Settings) (s0 : Slots)
    (reqs : List Request) : PlanOut Settings Result Slots SlotOut :=
  let results := reqs.map (P.computeOne settings)
  let (s, outs) := assignAll P s0 (reqs.zip results)
  { settings := settings, results := results, slotOuts := outs, slots := s }

/-! ## the amplifier machine -/
section machine
variable {α : Type} [Add α] [Sub α] [LE α] [DecidableLE α]

/-- run-time state of an amplifier -/
structure Edfa (α : Type) where
  effGain : α
  pMax : α

/-- `Edfa.interpol_params`: `effective_gain = min(effective_gain, p_max − pin_db)` — written back to the object —
and the (flat, noiseless) output power `pin + effective_gain` -/
def Edfa.call (e : Edfa α) (pinDb : α) : Edfa α × α :=
  let g := if e.effGain ≤ e.pMax - pinDb then e.effGain else e.pMax - pinDb
  ({ e with effGain := g }, pinDb + g)

/-- a line: spans of (loss in dB, amplifier); a request is the total power (dBm) it launches -/
def propagate : List (α × Edfa α) → α → List (α × Edfa α) × α
  | [], p => ([], p)
  | (loss, e) :: rest, p =>
    let (e', p1) := e.call (p - loss)
    let (rest', p2) := propagate rest p1
    ((loss, e') :: rest', p2)

/-- what `compute_path_with_disjunction` does: propagate on a deep copy; the network is returned as it was -/
def propagateOnCopy (net : List (α × Edfa α)) (p : α) : List (α × Edfa α) × α := (net, (propagate net p).2)

/-- a batch WITH the per-request copy -/
def planCopy (net : List (α × Edfa α)) : List α → List (α × Edfa α) × List α
  | [] => (net, [])
  | p :: ps =>
    let (net1, r) := propagateOnCopy net p
    let (net2, rs) := planCopy net1 ps
    (net2, r :: rs)

/-- a batch WITHOUT the copy: the amplifiers' state threads from one request to the next -/
def planShared (net : List (α × Edfa α)) : List α → List (α × Edfa α) × List α
  | [] => (net, [])
  | p :: ps =>
    let (net1, r) := propagate net p
    let (net2, rs) := planShared net1 ps
    (net2, r :: rs)

end machine
end Gnpy.Plan
