import GnpyModel.Scalar
/- model file Plan (see DESIGN.md §2) -/
namespace Gnpy

end Gnpy
