import GnpyModel.Scalar
/- model file Interp (see DESIGN.md §2) -/
namespace Gnpy

end Gnpy
