import GnpyModel.Scalar
/-
Piecewise-linear interpolation as the code uses it:
* `numpy.interp(x, xp, fp)` (clamps to the end values outside `[xp[0], xp[-1]]`) – used by `Fiber.cr`;
* `scipy.interpolate.interp1d(xp, fp)(x)` with the default `bounds_error` (a `ValueError` outside the range,
  turned into `SpectrumError` by `Fiber.interpolate_parameter_over_spectrum`) – used for the per-frequency
  loss coefficient and the per-frequency dispersion.
Knots are `(x, y)` pairs.  `numpy.interp` requires ascending `x`; `interp1d` sorts its table itself, so per-frequency
tables may be listed in any order (`sortKnots`).
-/
namespace Gnpy.Interp

section
variable {α : Type} [Add α] [Sub α] [Mul α] [Div α] [Neg α] [NatCast α] [LT α] [LE α]
  [DecidableLT α] [DecidableLE α]

/-- value on the segment `(x0,y0)–(x1,y1)`: `slope * (x - x0) + y0` -/
def seg (x x0 y0 x1 y1 : α) : α := (y1 - y0) / (x1 - x0) * (x - x0) + y0

/-- walk the knots: `k` is the knot at or below `x` -/
def interpGo (x : α) : (α × α) → List (α × α) → α
  | k, [] => k.2
  | k, k1 :: rest => if x < k1.1 then seg x k.1 k.2 k1.1 k1.2 else interpGo x k1 rest

/-- `numpy.interp(x, xp, fp)`; the empty table (numpy raises) is given the value 0 -/
def interp (x : α) : List (α × α) → α
  | [] => ((0:Nat) : α)
  | k :: rest => if x ≤ k.1 then k.2 else interpGo x k rest

/-- `interp1d` sorts its table by abscissa (`assume_sorted=False`: stable argsort); tables may be listed in any
order (e.g. by increasing wavelength) -/
def insertKnot (k : α × α) : List (α × α) → List (α × α)
  | [] => [k]
  | q :: rest => if k.1 < q.1 then k :: q :: rest else q :: insertKnot k rest

def sortKnots : List (α × α) → List (α × α)
  | [] => []
  | k :: rest => insertKnot k (sortKnots rest)

/-- abscissa of the last knot -/
def lastX : (α × α) → List (α × α) → α
  | k, [] => k.1
  | _, k1 :: rest => lastX k1 rest

/-- `interp1d` on a table already sorted by abscissa, `bounds_error=True`: `none` stands for the `ValueError` -/
def interp1dSorted (x : α) : List (α × α) → Option α
  | [] => none
  | k :: rest => if x < k.1 then none else if lastX k rest < x then none else some (interp x (k :: rest))

/-- `interp1d(xp, fp)(x)`: the table is sorted first, whatever order it was listed in -/
def interp1d (x : α) (table : List (α × α)) : Option α := interp1dSorted x (sortKnots table)

end
end Gnpy.Interp
