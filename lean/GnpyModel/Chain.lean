import GnpyModel.Scalar
/-
C08 / C09 / C17 — OMS chains and what auto-design does to them.

Anchors: gnpy/core/network.py `calculate_new_length`, `split_fiber`, `add_roadm_preamp`, `add_roadm_booster`,
`add_inline_amplifier`, `add_missing_elements_in_network`, `add_connector_loss`, `add_fiber_padding`,
`prev_node_generator` / `next_node_generator`, `span_loss`.

A well-formed topology is a set of chains `endpoint · [line elements] · endpoint` (endpoint = ROADM /
Transceiver, line element = Fiber | RamanFiber | Fused | Edfa).  Every function of `add_missing_elements_in_network`
and `add_missing_fiber_attributes` acts on one chain at a time, so they are list transformations here.
The amplifier recurrence (C09) is in `GnpyModel/Design.lean`, export/reload and SimParams (C17) in
`GnpyModel/Redesign.lean`.
-/
namespace Gnpy.Chain

inductive EndKind
  | roadm
  | trx
  deriving DecidableEq, Repr, Inhabited

/-- `FiberParams` as far as design reads or writes them (lengths in m, loss coefficient in dB/m at the
reference frequency, `lumps` = the lumped losses as (position in km, loss in dB)) plus the two attributes design attaches to
the element: `estimated_gain` (RamanFiber only; the Raman solver is not modelled, the value is an input) and
`design_span_loss`. -/
structure FiberP (α : Type) where
  length : α
  lossCoef : α
  conIn : Option α
  conOut : Option α
  attIn : α
  lumps : List (α × α)
  raman : Bool
  ramanGain : Option α
  dsl : Option α

/-- `EdfaOperational` + `type_variety` (`""` = to be selected by auto-design); `multi` marks a `Multiband_amplifier`
(one amplifier per design band; its per-band settings are outside this model) -/
structure EdfaP (α : Type) where
  variety : String
  gain : Option α
  deltaP : Option α
  outVoa : Option α
  inVoa : Option α
  tilt : Option α
  multi : Bool := false

inductive Elem (α : Type)
  | fiber (uid : String) (p : FiberP α)
  | fused (uid : String) (loss : α)
  | edfa (uid : String) (p : EdfaP α)

def Elem.uid {α : Type} : Elem α → String
  | .fiber u _ => u
  | .fused u _ => u
  | .edfa u _ => u

def Elem.isFiber {α : Type} : Elem α → Bool
  | .fiber _ _ => true
  | _ => false

def Elem.isFused {α : Type} : Elem α → Bool
  | .fused _ _ => true
  | _ => false

def Elem.isEdfa {α : Type} : Elem α → Bool
  | .edfa _ _ => true
  | _ => false

/-- a `Multiband_amplifier` -/
def Elem.isMulti {α : Type} : Elem α → Bool
  | .edfa _ p => p.multi
  | _ => false

/-- a single-band `Edfa` -/
def Elem.isSingle {α : Type} : Elem α → Bool
  | .edfa _ p => !p.multi
  | _ => false

def Elem.isRaman {α : Type} : Elem α → Bool
  | .fiber _ p => p.raman
  | _ => false

/-- the amplifier `add_roadm_booster` / `add_roadm_preamp` / `add_inline_amplifier` create: an `Edfa` with
`operational={'gain_target': None, 'tilt_target': 0}`, `EdfaParams.default_values` (type_variety `''`;
`EdfaOperational` defaults `in_voa` to 0) — or, when `multi`, a `Multiband_amplifier` with `amplifiers=[]` and
`MultiBandParams.default_values`; both get the same uid -/
def newAmp {α : Type} [NatCast α] (multi : Bool) : EdfaP α :=
  { variety := "", gain := none, deltaP := none, outVoa := none, inVoa := some ((0:Nat) : α),
    tilt := some ((0:Nat) : α), multi := multi }

def newEdfa {α : Type} [NatCast α] : EdfaP α := newAmp false

def splitName (uid : String) (k n : Nat) : String := uid ++ "_(" ++ toString k ++ "/" ++ toString n ++ ")"
def inlineName (uid : String) : String := "Edfa_" ++ uid
def boosterName (roadm next : String) : String := "Edfa_booster_" ++ roadm ++ "_to_" ++ next
def preampName (roadm prev : String) : String := "Edfa_preamp_" ++ roadm ++ "_from_" ++ prev

section
variable {α : Type} [Add α] [Sub α] [Mul α] [Div α] [Neg α] [NatCast α] [LT α] [LE α]
  [DecidableLT α] [DecidableLE α] [Transc α]

/-- Python `sum(iterable)`: left fold starting from 0 -/
def sumLeft (l : List α) : α := l.foldl (· + ·) ((0:Nat) : α)

/-- total of the lumped losses of a fibre, dB -/
def FiberP.lumped (p : FiberP α) : α := sumLeft (p.lumps.map (fun l => l.2))

/-- `Fiber.loss`: `loss_coef(ref) * length + con_in + con_out + att_in + sum(lumped)` -/
def FiberP.loss (p : FiberP α) : α :=
  p.lossCoef * p.length + p.conIn.getD ((0:Nat) : α) + p.conOut.getD ((0:Nat) : α) + p.attIn + p.lumped

/-- the attenuation of the glass alone, `loss_coef * length` -/
def FiberP.glassLoss (p : FiberP α) : α := p.lossCoef * p.length

/-- `node.loss if node.passive else 0` -/
def Elem.loss : Elem α → α
  | .fiber _ p => p.loss
  | .fused _ l => l
  | .edfa _ _ => ((0:Nat) : α)

/-- `estimate_raman_gain` once the estimate is cached on the element (0.0 for everything but a RamanFiber) -/
def Elem.ramanGain : Elem α → α
  | .fiber _ p => if p.raman then p.ramanGain.getD ((0:Nat) : α) else ((0:Nat) : α)
  | _ => ((0:Nat) : α)

/-! ### calculate_new_length / split_fiber -/

/-- `int(a // b)` for `0 ≤ a`, `0 < b` by counting (fuel bounds the count) -/
def floorDivAux (a b : α) : Nat → Nat → Nat
  | 0, k => k
  | f + 1, k => if ((k + 1 : Nat) : α) * b ≤ a then floorDivAux a b f (k + 1) else k

def floorDiv (fuel : Nat) (a b : α) : Nat := floorDivAux a b fuel 0

/-- `bounds.start <= x <= bounds.stop` -/
def inBounds (lo hi x : α) : Prop := lo ≤ x ∧ x ≤ hi

instance (lo hi x : α) : Decidable (inBounds lo hi x) := by unfold inBounds; exact inferInstance

/-- `target_length = max(min_length, min(max_length, 90_000))` -/
def targetLength (lo hi : α) : α := smax lo (smin hi ((90000:Nat) : α))

/-- `calculate_new_length(fiber_length, bounds, target_length)` with `bounds = range(lo, hi)`;
`n2` is `int(fiber_length // target_length)` -/
def calcWith (L lo hi target : α) (n2 : Nat) : α × Nat :=
  if L < hi then (L, 1) else
    let n1 := n2 + 1
    let l1 := L / ((n1 : Nat) : α)
    let l2 := L / ((n2 : Nat) : α)
    if inBounds lo hi l1 ∧ ¬ inBounds lo hi l2 then (l1, n1)
    else if inBounds lo hi l2 ∧ ¬ inBounds lo hi l1 then (l2, n2)
    else if l2 - target ≤ target - l1 ∧ l2 ≤ hi then (l2, n2)
    else (l1, n1)

def calcNewLength (fuel : Nat) (L lo hi target : α) : α × Nat :=
  calcWith L lo hi target (floorDiv fuel L target)

/-- the Python code divides by `n_spans2`, which is 0 when `fiber_length < target_length`
(only possible when `min_length > max_length`): `ZeroDivisionError` -/
def calcRaises (fuel : Nat) (L hi target : α) : Bool :=
  if L < hi then false else floorDiv fuel L target == 0

structure SplitCfg (α : Type) where
  fuel : Nat
  lo : α
  hi : α
  target : α

/-- the literal `1e-3` -/
def milli : α := ((1:Nat) : α) / ((1000:Nat) : α)

/-- `_span_params`: the lumped losses of span number `k` (0-based) of spans of `len` metres: those whose position (km)
lies in `[k·len·1e-3, (k+1)·len·1e-3)`, positions made relative to the start of the span -/
def spanLumps (lumps : List (α × α)) (k : Nat) (len : α) : List (α × α) :=
  let start := ((k : Nat) : α) * len * milli
  let stop := ((k + 1 : Nat) : α) * len * milli
  (lumps.filter (fun l => decide (start ≤ l.1) && decide (l.1 < stop))).map (fun l => (l.1 - start, l.2))

/-- `split_fiber`: `n` spans of equal length named `uid_(k/n)`, each a copy of the fibre's parameters with the new
length; the input attenuation `att_in` stays on the first span only and every lumped loss goes to the span that
contains its position (`_span_params`, repaired behaviour: the unrepaired code repeated both on every span).
The new elements are created as plain `elements.Fiber` even when the original was a RamanFiber (`raman := false`). -/
def splitFiber (c : SplitCfg α) (uid : String) (p : FiberP α) : List (Elem α) :=
  let r := calcNewLength c.fuel p.length c.lo c.hi c.target
  if r.2 = 1 then [.fiber uid p]
  else (List.range r.2).map (fun k => .fiber (splitName uid (k + 1) r.2)
    { p with length := r.1, raman := false, attIn := (if k = 0 then p.attIn else ((0:Nat) : α)),
             lumps := spanLumps p.lumps k r.1 })

/-- the Fiber constructor rejects a lumped loss at position 0 of its span (NetworkTopologyError): a lumped loss that
sits exactly on a span boundary of a fibre that gets split -/
def splitRaises (c : SplitCfg α) (p : FiberP α) : Bool :=
  let r := calcNewLength c.fuel p.length c.lo c.hi c.target
  if r.2 = 1 then false
  else (List.range r.2).any (fun k => (spanLumps p.lumps k r.1).any (fun l => decide (l.1 ≤ ((0:Nat) : α))))

def splitElem (c : SplitCfg α) : Elem α → List (Elem α)
  | .fiber u p => splitFiber c u p
  | e => [e]

def splitLine (c : SplitCfg α) (l : List (Elem α)) : List (Elem α) := l.flatMap (splitElem c)

/-! ### add_roadm_preamp / add_roadm_booster / add_inline_amplifier -/

/-- `check_oms_single_type` on a stretch of line: does it hold a Multiband_amplifier / a single-band Edfa? -/
def hasMulti (l : List (Elem α)) : Bool := l.any Elem.isMulti
def hasSingle (l : List (Elem α)) : Bool := l.any Elem.isSingle

/-- a preamp is inserted iff the chain ends at a ROADM and its last element is a Fiber (not Fused / amplifier /
Transceiver); `multi` = it is a Multiband_amplifier -/
def addPreamp (dst : String) (dk : EndKind) (multi : Bool) (l : List (Elem α)) : List (Elem α) :=
  match dk, l.getLast? with
  | .roadm, some (.fiber u _) => l ++ [.edfa (preampName dst u) (newAmp multi)]
  | _, _ => l

def addBooster (src : String) (sk : EndKind) (multi : Bool) (l : List (Elem α)) : List (Elem α) :=
  match sk, l with
  | .roadm, .fiber u p :: rest => .edfa (boosterName src u) (newAmp multi) :: .fiber u p :: rest
  | _, _ => l

/-- `add_inline_amplifier`: an amplifier of kind `multi` (the kind of the OMS, `omsKind`) between two fibres -/
def addInline (multi : Bool) : List (Elem α) → List (Elem α)
  | [] => []
  | x :: rest =>
    match x, rest with
    | .fiber u _, .fiber _ _ :: _ => x :: .edfa (inlineName u) (newAmp multi) :: addInline multi rest
    | _, _ => x :: addInline multi rest

/-- the unrepaired `add_inline_amplifier`: a Multiband_amplifier iff the OMS DOWNSTREAM of the fibre already held one -/
def addInlineOld : List (Elem α) → List (Elem α)
  | [] => []
  | x :: rest =>
    match x, rest with
    | .fiber u _, .fiber _ _ :: _ => x :: .edfa (inlineName u) (newAmp (hasMulti rest)) :: addInlineOld rest
    | _, _ => x :: addInlineOld rest

/-- will `add_roadm_preamp` / `add_roadm_booster` insert something on this (split) line? -/
def preampInserted (dk : EndKind) (l : List (Elem α)) : Bool :=
  match dk, l.getLast? with
  | .roadm, some (.fiber _ _) => true
  | _, _ => false

def boosterInserted (sk : EndKind) (l : List (Elem α)) : Bool :=
  match sk, l with
  | .roadm, .fiber _ _ :: _ => true
  | _, _ => false

/-- `_oms_needs_multiband`: the kind of every amplifier auto-design inserts on an OMS — Multiband iff the OMS already holds
a Multiband_amplifier, or holds no Edfa and starts at a ROADM with more than one design band (the bands of that
degree if the user defined them, else the ROADM's). The same for booster, preamp and in-line amplifiers, whatever
the order of insertion (repaired behaviour). -/
def omsKind (sk : EndKind) (bands : Nat) (oms : List (Elem α)) : Bool :=
  hasMulti oms || (!hasSingle oms && sk == .roadm && decide (1 < bands))

/-- the unrepaired rules: the booster looked at `roadm.design_bands`, the preamp only at the amplifiers already in the OMS -/
def boosterRuleOld (bands : Nat) (oms : List (Elem α)) : Bool := hasMulti oms || (!hasSingle oms && decide (1 < bands))
def preampRuleOld (oms : List (Elem α)) : Bool := hasMulti oms

/-- the unrepaired kinds of booster and preamp of one line: the ROADMs were visited in node order, each adding its
preamps and then its boosters, so the result depended on which end of the line was visited first (`dstFirst`) -/
def endAmpKindsOld (sk dk : EndKind) (bands : Nat) (dstFirst : Bool) (l : List (Elem α)) : Bool × Bool :=
  if dstFirst then
    let pm := preampRuleOld l
    let seen := if preampInserted dk l then l ++ [.edfa "" (newAmp pm)] else l
    (boosterRuleOld bands seen, pm)
  else
    let bm := boosterRuleOld bands l
    let seen := if boosterInserted sk l then .edfa "" (newAmp bm) :: l else l
    (bm, preampRuleOld seen)

structure Chain (α : Type) where
  src : String
  srcKind : EndKind
  line : List (Elem α)
  dst : String
  dstKind : EndKind
  /-- number of design bands of this degree of the source ROADM as given by the user (`per_degree_design_bands` of the
  degree if defined, else `design_bands`) -/
  srcBands : Nat := 1
  /-- the destination ROADM comes before the source ROADM in `network.nodes()` (irrelevant since the repair) -/
  dstFirst : Bool := false

/-- `add_missing_elements_in_network` on one chain: split every fibre, then preamp/booster of the end ROADMs, then the
inline amplifiers, all of the kind of the OMS (`omsKind`) -/
def addMissingLine (c : SplitCfg α) (ch : Chain α) : List (Elem α) :=
  let s := splitLine c ch.line
  let m := omsKind ch.srcKind ch.srcBands s
  addInline m (addBooster ch.src ch.srcKind m (addPreamp ch.dst ch.dstKind m s))

/-- the unrepaired completion (kinds by `endAmpKindsOld` / `addInlineOld`) -/
def addMissingLineOld (c : SplitCfg α) (ch : Chain α) : List (Elem α) :=
  let s := splitLine c ch.line
  let k := endAmpKindsOld ch.srcKind ch.dstKind ch.srcBands ch.dstFirst s
  addInlineOld (addBooster ch.src ch.srcKind k.1 (addPreamp ch.dst ch.dstKind k.2 s))

/-- single-band and multiband amplifiers in one OMS: `check_oms_single_type` raises NetworkTopologyError; an OMS of
single-band amplifiers leaving a ROADM with several design bands is rejected by `set_per_degree_design_band`
("inconsistent design multiband/single band definition", NetworkTopologyError as well) -/
def kindsRaise (bands : Nat) (l : List (Elem α)) : Bool :=
  (hasMulti l && hasSingle l) || (decide (1 < bands) && hasSingle l && !hasMulti l)

def addMissing (c : SplitCfg α) (ch : Chain α) : Chain α := { ch with line := addMissingLine c ch }


/-! ### the graph view of a set of chains -/

/-- consecutive pairs of a node sequence -/
def pathEdges : List String → List (String × String)
  | a :: b :: rest => (a, b) :: pathEdges (b :: rest)
  | _ => []

/-- the node sequence of a chain: source endpoint, the line elements, destination endpoint -/
def chainNodes {α : Type} (ch : Chain α) : List String := ch.src :: (ch.line.map Elem.uid ++ [ch.dst])

def chainEdges {α : Type} (ch : Chain α) : List (String × String) := pathEdges (chainNodes ch)

/-- the directed graph (edge list over uids) of a topology given as a set of chains; endpoints are shared between chains -/
def toGraph {α : Type} (chs : List (Chain α)) : List (String × String) := chs.flatMap chainEdges

def inDeg (g : List (String × String)) (u : String) : Nat := g.countP (fun e => e.2 == u)
def outDeg (g : List (String × String)) (u : String) : Nat := g.countP (fun e => e.1 == u)

/-- which endpoint pairs are joined by a chain -/
def endpointPairs {α : Type} (chs : List (Chain α)) : List (String × String) := chs.map (fun ch => (ch.src, ch.dst))

/-! ### add_connector_loss -/

def addConn (dIn dOut eol : α) : List (Elem α) → List (Elem α)
  | [] => []
  | x :: rest =>
    (match x with
      | .fiber u p =>
        let ci := p.conIn.getD dIn
        let co := p.conOut.getD dOut
        let co' := match rest with
          | .fused _ _ :: _ => co
          | _ => co + eol
        Elem.fiber u { p with conIn := some ci, conOut := some co' }
      | e => e) :: addConn dIn dOut eol rest

/-! ### runs of spliced passive elements (prev_node_generator / next_node_generator) -/

/-- the two generators continue from `a` to its neighbour `b` iff both are Fiber/Fused and at least one is Fused -/
def joined (a b : Elem α) : Bool :=
  (a.isFused && (b.isFiber || b.isFused)) || ((a.isFiber || a.isFused) && b.isFused)

/-- maximal runs; an Edfa is always a run of its own; two adjacent Fibers are not joined -/
def runs (l : List (Elem α)) : List (List (Elem α)) := l.splitBy joined

/-- `span_loss` of any node of the run when nothing is cached: the run's losses minus the Raman gains in it.
The code adds the node's own loss first, then the predecessors nearest-first, then the successors; for the
last element of a run that is the order used here. -/
def runLoss (r : List (Elem α)) : α :=
  match r.reverse with
  | [] => ((0:Nat) : α)
  | last :: before =>
    (last.loss + sumLeft (before.map Elem.loss)) - (last.ramanGain + sumLeft (before.map Elem.ramanGain))

/-- same quantity, evaluated from the first element of the run (the order `span_loss(next_node)` uses) -/
def runLossFwd (r : List (Elem α)) : α :=
  match r with
  | [] => ((0:Nat) : α)
  | first :: after =>
    (first.loss + sumLeft (after.map Elem.loss)) - (first.ramanGain + sumLeft (after.map Elem.ramanGain))

def Elem.dsl : Elem α → Option α
  | .fiber _ p => p.dsl
  | _ => none

/-- `add_fiber_padding` on one run.  Only the run's LAST element is ever looked at, and only when it is a
non-Raman Fiber (a Fiber followed by a Fused is skipped, a RamanFiber is skipped).  Its `design_span_loss`
becomes the run loss; if that is below `padding`, and the FIRST element of the run is a Fiber, that first
fibre's `att_in` grows by the missing amount and `design_span_loss += padding - this_span_loss`
(repaired behaviour: the unrepaired code added the first fibre's whole `att_in`). -/
def padRun (padding : α) (r : List (Elem α)) : List (Elem α) :=
  match r.getLast? with
  | some (.fiber u p) =>
    if p.raman then r else
      let this := runLoss r
      if this < padding then
        match r with
        | [_] =>
          let a := p.attIn + padding - this
          [.fiber u { p with attIn := a, dsl := some (this + (padding - this)) }]
        | .fiber v q :: rest =>
          let a := q.attIn + padding - this
          .fiber v { q with attIn := a } :: (rest.dropLast ++ [.fiber u { p with dsl := some (this + (padding - this)) }])
        | _ => r.dropLast ++ [.fiber u { p with dsl := some this }]
      else r.dropLast ++ [.fiber u { p with dsl := some this }]
  | _ => r

/-- `add_fiber_padding` raises (TypeError in `dbm2watt(None)`) when it needs the loss of a run that contains a
RamanFiber whose gain has not been estimated yet -/
def padRaises (r : List (Elem α)) : Bool :=
  match r.getLast? with
  | some (.fiber _ p) => !p.raman && r.any (fun e => e.isRaman)
  | _ => false

def addPadding (padding : α) (l : List (Elem α)) : List (Elem α) := ((runs l).map (padRun padding)).flatten

/-- `add_missing_fiber_attributes` -/
def addAttributes (dIn dOut eol padding : α) (l : List (Elem α)) : List (Elem α) :=
  addPadding padding (addConn dIn dOut eol l)

/-- one chain after `add_missing_elements_in_network` + `add_missing_fiber_attributes` -/
def completeChain (c : SplitCfg α) (dIn dOut eol padding : α) (ch : Chain α) : Chain α :=
  { ch with line := addAttributes dIn dOut eol padding (addMissingLine c ch) }

end
end Gnpy.Chain
