import GnpyModel.Scalar
/- model file Chain (see DESIGN.md §2) -/
namespace Gnpy

end Gnpy
