import GnpyModel.Py
/-
Model of gnpy/topology/spectrum_assignment.py (+ order_slots/restore_order/find_common_range of core/utils.py and
compute_spectrum_slot_vs_bandwidth of topology/request.py) for properties C14 and C15.

Frequencies, bandwidths and bit rates are integer Hz / bit/s (`Int`): for such operands below 2^53 the float
expressions of the code (`int((f - 193.1e12) / grid)`, `193.1e12 + n * grid`, `ceil(bw / bit_rate)`) are exact, so
the ITU-grid logic is compared exactly with the implementation.
Errors of the implementation are `Except String` with the name of the exception class.
-/
namespace Gnpy.Slots
open Gnpy.Py

abbrev E := Except String

/-- BitmapValue -/
inductive Cell where
  | free | occupied | unusable
  deriving DecidableEq, Repr, Inhabited

def anchorHz : Int := 193100000000000
def defaultGrid : Int := 6250000000
def defaultGuardband : Int := 25000000000
def slotWidthHz : Int := 12500000000

/-- `frequency_to_n`: `(int)((freq - 193.1e12) / grid)` -/
def frequencyToN (f : Int) (grid : Int := defaultGrid) : Int := truncDiv (f - anchorHz) grid
/-- `nvalue_to_frequency` -/
def nToFrequency (n : Int) (grid : Int := defaultGrid) : Int := anchorHz + n * grid
/-- `mvalue_to_slots` -/
def mToSlots (n m : Int) : Int × Int := (n - m, n + m - 1)
/-- `slots_to_m` -/
def slotsToM (startn stopn : Int) : Int × Int := (truncDiv (startn + stopn + 1) 2, truncDiv (stopn - startn + 1) 2)
/-- `m_to_freq` -/
def mToFreq (n m : Int) (grid : Int := defaultGrid) : Int × Int :=
  (nToFrequency (mToSlots n m).1 grid, nToFrequency ((mToSlots n m).2 + 1) grid)

/-- class Bitmap -/
structure Bitmap where
  nMin : Int
  nMax : Int
  idxMin : Int          -- freq_index_min
  idxMax : Int          -- freq_index_max
  freqIndex : List Int
  cells : List Cell     -- bitmap
  guardband : Int
  deriving DecidableEq, Repr

/-- `Bitmap.__init__` (freq_index_min/max use the default grid, as in the code) -/
def Bitmap.create (fMin fMax grid guardband : Int) (bitmap : Option (List Cell)) : E Bitmap :=
  if grid = 0 then throw "ZeroDivisionError" else
  let nMin := frequencyToN fMin grid
  let nMax := frequencyToN fMax grid
  let fi := intRange nMin (nMax + 1)
  let mk (c : List Cell) : Bitmap :=
    { nMin := nMin, nMax := nMax, idxMin := frequencyToN (fMin + guardband), idxMax := frequencyToN (fMax - guardband),
      freqIndex := fi, cells := c, guardband := guardband }
  match bitmap with
  | none => pure (mk (rep (nMax - nMin + 1) Cell.free))
  | some c => if c.length = fi.length then pure (mk c) else throw "SpectrumError"

/-- `Bitmap.geti` -/
def Bitmap.geti (b : Bitmap) (n : Int) : Option Nat := indexOf? n b.freqIndex

/-- `Bitmap.insert_left` -/
def Bitmap.insertLeft (b : Bitmap) (newCells : List Cell) : E Bitmap :=
  let fi := intRange (b.nMin - newCells.length) b.nMin ++ b.freqIndex
  match fi with
  | [] => throw "IndexError"
  | f0 :: _ => pure { b with cells := newCells ++ b.cells, freqIndex := fi, nMin := f0 }

/-- `Bitmap.insert_right` -/
def Bitmap.insertRight (b : Bitmap) (newCells : List Cell) : E Bitmap :=
  let fi := b.freqIndex ++ intRange (b.nMax + 1) (b.nMax + 1 + newCells.length)
  match fi.getLast? with
  | none => throw "IndexError"
  | some fl => pure { b with cells := b.cells ++ newCells, freqIndex := fi, nMax := fl }

/-- `Bitmap.insert_right` as it was before the repair 5edacf9c (indices started at n_max): kept for the witness -/
def Bitmap.insertRightOld (b : Bitmap) (newCells : List Cell) : E Bitmap :=
  let fi := b.freqIndex ++ intRange b.nMax (b.nMax + newCells.length)
  match fi.getLast? with
  | none => throw "IndexError"
  | some fl => pure { b with cells := b.cells ++ newCells, freqIndex := fi, nMax := fl }

/-- the body of the loop of `align_grids` for one map -/
def alignLeft (nMin : Int) (b : Bitmap) : E Bitmap :=
  if b.nMin - nMin > 0 then b.insertLeft (rep (b.nMin - nMin) Cell.occupied) else pure b
def alignRight (nMax : Int) (b : Bitmap) : E Bitmap :=
  if nMax - b.nMax > 0 then b.insertRight (rep (nMax - b.nMax) Cell.occupied) else pure b
def alignOne (nMin nMax : Int) (b : Bitmap) : E Bitmap := do
  let b1 ← alignLeft nMin b
  alignRight nMax b1

/-- `align_grids` on the bitmaps (the OMS objects are otherwise untouched); `min()`/`max()` of an empty list: ValueError -/
def alignGrids (l : List Bitmap) : E (List Bitmap) :=
  match l with
  | [] => throw "ValueError"
  | b0 :: bs =>
    let nMin := bs.foldl (fun a b => if b.nMin < a then b.nMin else a) b0.nMin
    let nMax := bs.foldl (fun a b => if b.nMax > a then b.nMax else a) b0.nMax
    mapE (alignOne nMin nMax) l

/-- OMS: the spectrum map and the service bookkeeping -/
structure Oms where
  bm : Bitmap
  nbChannels : Int
  services : List String
  deriving DecidableEq, Repr

/-- `OMS.assign_spectrum` on the bitmap -/
def assignSpectrum (b : Bitmap) (n m : Int) : E Bitmap :=
  if m ≤ 0 then throw "SpectrumError" else
  if n > b.idxMax then throw "SpectrumError" else
  if n < b.idxMin then throw "SpectrumError" else
  if n + m - 1 > b.nMax then throw "SpectrumError" else
  if n - m ≤ b.nMin then throw "SpectrumError" else
  match b.geti (n - m), b.geti (n + m - 1) with
  | some i, some j =>
    pure { b with cells := sliceAssign b.cells i ((j : Int) + 1) (rep ((n + m - 1) - (n - m) + 1) Cell.occupied) }
  | _, _ => throw "ValueError"

/-- `bitmap_sum` -/
def bitmapSum (b1 b2 : List Cell) : List Cell :=
  List.zipWith (fun x y => if x = Cell.free ∧ y = Cell.free then Cell.free else Cell.occupied) b1 b2

/-- the loop of `aggregate_oms_bitmap` over `path_oms[1:]` -/
def aggCells (s : List Oms) : List Nat → List Cell → E (List Cell)
  | [], acc => pure acc
  | o :: os, acc =>
    match s[o]? with
    | none => throw "IndexError"
    | some x => aggCells s os (bitmapSum x.bm.cells acc)

/-- `aggregate_oms_bitmap`: a fresh bitmap (a value, never aliasing an OMS) -/
def aggregate (path : List Nat) (s : List Oms) : E Bitmap :=
  match path with
  | [] => throw "IndexError"
  | p0 :: rest =>
    match s[p0]? with
    | none => throw "IndexError"
    | some o0 => do
      let cells ← aggCells s rest o0.bm.cells
      Bitmap.create (nToFrequency o0.bm.nMin) (nToFrequency o0.bm.nMax) defaultGrid o0.bm.guardband (some cells)

inductive Policy where
  | firstFit | lastFit | other
  deriving DecidableEq, Repr

/-- one element of the candidate comprehension of `spectrum_selection` (requested_n is None):
    `some n` when position `i` is a candidate with centre `n` -/
def candAt (b : Bitmap) (m : Int) (i : Nat) : E (Option Int) :=
  if slice b.cells i ((i : Int) + 2 * m) = rep (2 * m) Cell.free then
    match index? b.freqIndex i with
    | none => throw "IndexError"
    | some fi =>
      if fi ≥ b.idxMin then
        match index? b.freqIndex ((i : Int) + 2 * m - 1) with
        | none => throw "IndexError"
        | some fj => if fj ≤ b.idxMax then pure (some (fi + m)) else pure none
      else pure none
  else pure none

/-- the candidate list (centres), in increasing position -/
def candidates (b : Bitmap) (m : Int) : List Nat → E (List Int)
  | [] => pure []
  | i :: is => do
    let c ← candAt b m i
    let r ← candidates b m is
    pure (match c with | some n => n :: r | none => r)

/-- `select_candidate` -/
def selectCandidate (c : List Int) (pol : Policy) : E (Option Int) :=
  match c with
  | [] => pure none
  | x :: xs =>
    match pol with
    | .firstFit => pure (some x)
    | .lastFit => pure (some ((x :: xs).getLast?.getD x))
    | .other => throw "ServiceError"

/-- `spectrum_selection(test_oms, requested_m, None, policy)` -/
def spectrumSelection (b : Bitmap) (m : Int) (pol : Policy) : E (Option Int) := do
  let c ← candidates b m (List.range b.cells.length)
  selectCandidate c pol

/-- the availability test shared by `spectrum_selection(requested_n=…)` and `determine_slot_numbers`:
    `avail[c-i:c+i] == [FREE]*(2i) and freq_index[c-i] >= idx_min and freq_index[c+i-1] <= idx_max` -/
def centredFree (b : Bitmap) (c : Nat) (i : Int) : E Bool :=
  if slice b.cells ((c : Int) - i) ((c : Int) + i) = rep (2 * i) Cell.free then
    match index? b.freqIndex ((c : Int) - i) with
    | none => throw "IndexError"
    | some fa =>
      if fa ≥ b.idxMin then
        match index? b.freqIndex ((c : Int) + i - 1) with
        | none => throw "IndexError"
        | some fb => pure (decide (fb ≤ b.idxMax))
      else pure false
  else pure false

/-- `spectrum_selection(test_oms, requested_m, requested_n)` -/
def spectrumSelectionAt (b : Bitmap) (m n : Int) : E (Option Int) :=
  match b.geti n with
  | none => throw "ValueError"
  | some c => do
    if (← centredFree b c m) then pure (some n) else pure none

/-- the `while` of `determine_slot_numbers`; the fuel bounds the number of iterations ("hang" when exhausted:
    the Python loop does not terminate for per_channel_m = 0 inside a free zone) -/
def dsnLoop (b : Bitmap) (c : Nat) (requiredM pcm : Int) : Nat → Int → E Int
  | 0, _ => throw "hang"
  | fuel + 1, i => do
    if (← centredFree b c i) then
      if i ≤ requiredM then dsnLoop b c requiredM pcm fuel (i + pcm) else pure (i - pcm)
    else pure (i - pcm)

/-- `determine_slot_numbers` (a centre outside the map offers no slot: 0, repair 70910493) -/
def determineSlotNumbers (b : Bitmap) (n requiredM pcm : Int) : E Int :=
  match b.geti n with
  | none => pure 0
  | some c => dsnLoop b c requiredM pcm (b.cells.length + 2) pcm

/-- one `{'N':…, 'M':…}` of effective_freq_slot -/
structure Entry where
  n : Option Int
  m : Option Int
  deriving DecidableEq, Repr

/-- comparison of the sort key of `order_slots`:
    `(-M, N) if M is given else (inf, N)`, a missing N counting as `inf` -/
def optLe (x y : Option Int) : Bool :=
  match x, y with
  | some a, some b => a ≤ b
  | some _, none => true
  | none, some _ => false
  | none, none => true

def optLt (x y : Option Int) : Bool :=
  match x, y with
  | some a, some b => a < b
  | some _, none => true
  | none, _ => false

def keyLe (a b : Nat × Entry) : Bool :=
  let ka := a.2.m.map (fun m => -m)
  let kb := b.2.m.map (fun m => -m)
  optLt ka kb || (ka == kb && optLe a.2.n b.2.n)

/-- `order_slots`: the entries with their original positions, larger M first, then N, undefined values last (stable) -/
def orderSlots (es : List Entry) : List (Nat × Entry) := sorted keyLe (enumerate es)

/-- `restore_order(elements, order)` -/
def restoreOrder {α : Type} (elements : List (Option α)) (order : List Nat) : List α :=
  (sorted (fun a b => decide (a.2 ≤ b.2)) (enumerate order)).filterMap (fun p => (elements[p.1]?).join)

/-- the body of the `for n, m in zip(rq_N, rq_M)` loop of `compute_n_m` up to the selection: `none` = `break` -/
def selectOne (t : Bitmap) (e : Entry) (remaining pcm : Int) (pol : Policy) : E (Option (Int × Int)) :=
  match e.m, e.n with
  | some m, some n => do
    let av ← determineSlotNumbers t n m m
    if av = 0 then pure none else pure (some (n, m))
  | some m, none => do
    match ← spectrumSelection t m pol with
    | none => pure none
    | some n => pure (some (n, m))
  | none, some n => do
    let m ← determineSlotNumbers t n remaining pcm
    if m = 0 ∨ remaining = 0 then pure none else pure (some (n, m))
  | none, none =>
    -- the demand is already served by the previous slots: the entry is left unused (repair 740f9477)
    if remaining ≤ 0 then pure none else do
    match ← spectrumSelection t remaining pol with
    | none => pure none
    | some n => pure (some (n, remaining))

/-- the loop of `compute_n_m` on the test bitmap: selected (N, M) in processing order, remaining slots -/
def nmLoop (pcm : Int) (pol : Policy) : Bitmap → Int → List Entry → E (List (Int × Int) × Int)
  | _, remaining, [] => pure ([], remaining)
  | t, remaining, e :: es => do
    match ← selectOne t e remaining pcm pol with
    | none => pure ([], remaining)
    | some (n, m) => do
      let t' ← assignSpectrum t n m
      let r ← nmLoop pcm pol t' (remaining - m) es
      pure ((n, m) :: r.1, r.2)

/-- `compute_n_m`: selected (N, M) in request order (unserved entries dropped), remaining slots to serve -/
def computeNM (requiredM : Int) (entries : List Entry) (path : List Nat) (s : List Oms) (pcm : Int) (pol : Policy) :
    E (List (Int × Int) × Int) := do
  let ord := orderSlots entries
  let t ← aggregate path s
  let r ← nmLoop pcm pol t requiredM (ord.map (·.2))
  let padded := r.1.map some ++ List.replicate (ord.length - r.1.length) none
  pure (restoreOrder padded (ord.map (·.1)), r.2)

/-- `compute_spectrum_slot_vs_bandwidth` -/
def slotsVsBandwidth (bandwidth spacing bitRate : Int) : E (Int × Int) :=
  if bitRate = 0 then throw "ZeroDivisionError" else
  let nb := ceilDiv bandwidth bitRate
  pure (nb, ceilDiv spacing slotWidthHz * nb)

structure Request where
  id : String
  preBlocked : Bool            -- hasattr(rq, 'blocking_reason')
  entries : List Entry         -- zip(rq.N, rq.M)
  pathBandwidth : Int
  bitRate : Int
  spacing : Int
  pathOms : List Nat           -- build_path_oms_id_list(pth + rpth)
  deriving Repr

inductive Outcome where
  | skipped                              -- already blocked: N = M = None, reason untouched
  | blocked (reason : String)            -- N = M = None
  | accepted (nm : List (Int × Int))     -- rq.N, rq.M
  deriving DecidableEq, Repr

/-- all assignments of one request on one OMS, then `add_service` -/
def applyOms (o : Oms) (sel : List (Int × Int)) (id : String) (nbWl : Int) : E Oms := do
  let b ← sel.foldlM (fun b nm => assignSpectrum b nm.1 nm.2) o.bm
  pure { bm := b, nbChannels := o.nbChannels + nbWl, services := o.services ++ [id] }

/-- the final `for oms_elem in path_oms` loop -/
def applyPath (sel : List (Int × Int)) (id : String) (nbWl : Int) : List Nat → List Oms → E (List Oms)
  | [], s => pure s
  | o :: os, s =>
    match s[o]? with
    | none => throw "IndexError"
    | some x => do
      let x' ← applyOms x sel id nbWl
      applyPath sel id nbWl os (s.set o x')

/-- the reserved-spectrum consistency check: `Some nb` = number of channels carried by the given M (all M given and
    non-zero), `none` = check not applicable -/
def reservedChannels (entries : List Entry) (pcm : Int) : E (Option Int) :=
  if entries.all (fun e => match e.m with | some m => m != 0 | none => false) then
    if pcm = 0 then (if entries.isEmpty then pure (some 0) else throw "ZeroDivisionError")
    else pure (some (sumInt (entries.map (fun e => floorDiv (e.m.getD 0) pcm))))
  else pure none

/-- `nb_wl > nb_channels_of_request` when the check applies -/
def reservedShort (entries : List Entry) (pcm nbWl : Int) : E Bool := do
  match ← reservedChannels entries pcm with
  | some nb => pure (decide (nbWl > nb))
  | none => pure false

/-- one iteration of `pth_assign_spectrum` -/
def step (pol : Policy) (s : List Oms) (r : Request) : E (List Oms × Outcome) :=
  if r.preBlocked then pure (s, Outcome.skipped) else do
  let nr ← slotsVsBandwidth r.pathBandwidth r.spacing r.bitRate
  let pc ← slotsVsBandwidth r.bitRate r.spacing r.bitRate
  if (← reservedShort r.entries pc.2 nr.1) then
    pure (s, Outcome.blocked "NOT_ENOUGH_RESERVED_SPECTRUM")
  else do
    let sr ← computeNM nr.2 r.entries r.pathOms s pc.2 pol
    if sr.2 > 0 then pure (s, Outcome.blocked "NO_SPECTRUM")
    else do
      let s' ← applyPath sr.1 r.id nr.1 r.pathOms s
      pure (s', Outcome.accepted sr.1)

/-- `pth_assign_spectrum` over a list of requests: final state and the outcome of every request -/
def run (pol : Policy) : List Oms → List Request → E (List Oms × List Outcome)
  | s, [] => pure (s, [])
  | s, r :: rs => do
    let (s1, o) ← step pol s r
    let (s2, os) ← run pol s1 rs
    pure (s2, o :: os)


/-! ### C15: OMS construction and the spectrum map of an OMS -/

/-- an amplifier band `(f_min, f_max)` in Hz (the `spacing` key plays no role for the spectrum map) -/
abbrev Band := Int × Int

/-- `sorted(amp, key=lambda x: x['f_min'])` -/
def sortBands (l : List Band) : List Band := sorted (fun a b => decide (a.1 ≤ b.1)) l

/-- `remove_duplicates`: first occurrences, order kept -/
def removeDuplicates : List (List Band) → List (List Band) → List (List Band)
  | acc, [] => acc
  | acc, a :: as => if a ∈ acc then removeDuplicates acc as else removeDuplicates (acc ++ [a]) as

/-- one round of step 3 of `find_common_range` -/
def intersectBands (common bands : List Band) : List Band :=
  common.flatMap (fun f => bands.filterMap (fun s =>
    let lo := if f.1 ≤ s.1 then s.1 else f.1
    let hi := if f.2 ≤ s.2 then f.2 else s.2
    if lo < hi then some (lo, hi) else none))

/-- `find_common_range` (f_min/f_max only): `ampBands` = the `params.bands` of the amplifiers of an OMS in element order,
    `dflt` = the SI band used when the OMS has no amplifier -/
def commonRange (ampBands : List (List Band)) (dflt : Option Band) : List Band :=
  match removeDuplicates [] (ampBands.map sortBands) with
  | [] => match dflt with
    | some d => [d]
    | none => []
  | c0 :: rest => sortBands ((c0 :: rest).foldl intersectBands c0)

/-- first / last slot index whose centre frequency lies inside a band: `ceil((f_min − 193.1e12) / grid)` and
    `floor((f_max − 193.1e12) / grid)` (band edges rounded inwards, repair d0f17fb2) -/
def bandLo (f grid : Int) : Int := ceilDiv (f - anchorHz) grid
def bandHi (f grid : Int) : Int := floorDiv (f - anchorHz) grid

/-- the cells contributed by the common bands after index `prevMax`: unusable up to the band, free inside
    `[bandLo f_min, bandHi f_max]`; returns the cells and the last index written -/
def bandCells (grid : Int) : Int → List Band → List Cell × Int
  | prevMax, [] => ([], prevMax)
  | prevMax, b :: bs =>
    let r := bandCells grid (bandHi b.2 grid) bs
    (rep (bandLo b.1 grid - prevMax - 1) Cell.unusable ++
      rep (bandHi b.2 grid - bandLo b.1 grid + 1) Cell.free ++ r.1, r.2)

/-- `create_oms_bitmap` (the first band is the case `prevMax = n_min − 1` of the loop; `n_max = frequency_to_n(f_max)`,
    repair ec64bb7b) -/
def createOmsBitmap (bands : List Band) (fMin fMax grid : Int) : E (List Cell) :=
  if grid = 0 then throw "ZeroDivisionError" else
  match bands with
  | [] => throw "IndexError"
  | _ :: _ =>
    let r := bandCells grid (frequencyToN fMin grid - 1) bands
    pure (r.1 ++ rep (frequencyToN fMax grid - r.2) Cell.unusable)

/-- `create_oms_bitmap` as it was before the repair (`n_max = frequency_to_n(f_max) − 1`): kept for the witness -/
def createOmsBitmapOld (bands : List Band) (fMin fMax grid : Int) : E (List Cell) :=
  if grid = 0 then throw "ZeroDivisionError" else
  match bands with
  | [] => throw "IndexError"
  | _ :: _ =>
    let r := bandCells grid (frequencyToN fMin grid - 1) bands
    pure (r.1 ++ rep (frequencyToN fMax grid - 1 - r.2) Cell.unusable)

/-- one line system between two ROADMs: uids from the ingress ROADM to the egress ROADM, and the bands of its amplifiers -/
structure Chain where
  els : List String
  ampBands : List (List Band)
  deriving Repr

structure OmsRec where
  id : Nat
  els : List String
  bm : Bitmap
  reversed : Option Nat
  deriving Repr

/-- `find_network_freq_range`: lowest f_min and highest f_max over all amplifier bands of the network -/
def networkRange (bands : List Band) : E (Int × Int) :=
  match bands with
  | [] => throw "ValueError"
  | b :: bs => pure (bs.foldl (fun a x => if x.1 < a then x.1 else a) b.1, bs.foldl (fun a x => if x.2 > a then x.2 else a) b.2)

/-- `reversed_oms`: the first OMS that runs between the same two ROADMs the other way -/
def reversedOms {α : Type} [DecidableEq α] (l : List (List α)) (i : Nat) : Option Nat :=
  match l[i]? with
  | none => none
  | some e => l.findIdx? (fun o => decide (e.head? = o.getLast? ∧ e.getLast? = o.head?))

/-- the spectrum map of one OMS: `create_oms_bitmap` + `update_spectrum` -/
def omsBitmap (fMin fMax : Int) (si : Option Band) (c : Chain) : E Bitmap := do
  let cells ← createOmsBitmap (commonRange c.ampBands si) fMin fMax defaultGrid
  Bitmap.create fMin fMax defaultGrid defaultGuardband (some cells)

/-- `build_oms_list` on the chain abstraction: ids in construction order, spectrum map from the common band of the OMS
    over the network-wide range with the default guard band, alignment, reverse pairing -/
def buildOmsList (chains : List Chain) (netBands : List Band) (si : Option Band) : E (List OmsRec) := do
  let (fMin, fMax) ← networkRange netBands
  let bms ← mapE (omsBitmap fMin fMax si) chains
  let aligned ← alignGrids bms
  let els := chains.map (·.els)
  pure (((chains.zip aligned).zipIdx).map (fun p =>
    ({ id := p.2, els := p.1.1.els, bm := p.1.2, reversed := reversedOms els p.2 } : OmsRec)))


/-! ### C15: the graph walk of `build_oms_list` -/

inductive NodeKind where
  | roadm | trx | line
  deriving DecidableEq, Repr

/-- the network as `build_oms_list` sees it: nodes are numbered in `network.nodes()` order, `kind[i]` tells whether node
    `i` is a Roadm, a Transceiver or a line element (Fiber, Edfa, Fused, …), `succ[i]` are its successors in
    `network.edges([node])` order. uids are unique, so "same uid" is "same number". -/
structure Net where
  kind : List NodeKind
  succ : List (List Nat)
  deriving Repr

def Net.size (g : Net) : Nat := g.kind.length
/-- kind of a node (numbers outside the graph never occur; they count as Roadm so that a walk would stop) -/
def Net.kindOf (g : Net) (i : Nat) : NodeKind := (g.kind[i]?).getD NodeKind.roadm
def Net.succOf (g : Net) (i : Nat) : List Nat := (g.succ[i]?).getD []

/-- the `while not isinstance(nd_out, Roadm)` loop: the elements added after the ingress node, ending with the egress
    ROADM. `next(n[1] for n in network.edges([n_temp]) if n[1].uid != nd_in.uid)` is the first successor that is not the
    node we came from (StopIteration when there is none). The fuel is the number of nodes ("hang": the Python loop does
    not terminate on a ring of line elements). -/
def walk (g : Net) : Nat → Nat → Nat → E (List Nat)
  | 0, _, _ => throw "hang"
  | fuel + 1, ndIn, ndOut =>
    if g.kindOf ndOut = NodeKind.roadm then pure [ndOut]
    else
      match (g.succOf ndOut).find? (fun y => decide (y ≠ ndIn)) with
      | none => throw "other:StopIteration"
      | some nxt => do
        let rest ← walk g fuel ndOut nxt
        pure (ndOut :: rest)

/-- is node `i` one of the `oms_vertices` contributed by the transceiver clause:
    `isinstance(n, Transceiver) and not isinstance(next(network.successors(n)), Roadm)` -/
def trxVertex (g : Net) (i : Nat) : E Bool :=
  if g.kindOf i = NodeKind.trx then
    match (g.succOf i).head? with
    | none => throw "other:StopIteration"
    | some h => pure (decide (g.kindOf h ≠ NodeKind.roadm))
  else pure false

/-- `oms_vertices`: the ROADMs, then the transceivers that are not next to a ROADM, each in node order -/
def omsVertices (g : Net) : E (List Nat) := do
  let t ← filterE (trxVertex g) (List.range g.size)
  pure ((List.range g.size).filter (fun i => decide (g.kindOf i = NodeKind.roadm)) ++ t)

/-- the (vertex, first hop) pairs from which an OMS is built, in construction order:
    `for node in oms_vertices: for edge in network.edges([node]): if not isinstance(edge[1], Transceiver)` -/
def omsStarts (g : Net) (vs : List Nat) : List (Nat × Nat) :=
  vs.flatMap (fun v => ((g.succOf v).filter (fun x => decide (g.kindOf x ≠ NodeKind.trx))).map (fun x => (v, x)))

/-- the `el_id_list` of the OMS that starts with the edge `st`: ingress node, line elements, egress ROADM -/
def omsEls (g : Net) (st : Nat × Nat) : E (List Nat) := do
  let w ← walk g g.size st.1 st.2
  pure (st.1 :: w)

/-- the element lists of all OMS, in `oms_id` order (`oms_id` = position in this list) -/
def buildWalks (g : Net) : E (List (List Nat)) := do
  let vs ← omsVertices g
  mapE (omsEls g) (omsStarts g vs)

/-- the elements that received `oms_id = i` / `oms = …` in the while loop of OMS `i`: all but the ingress node and the
    egress ROADM -/
def interior (els : List Nat) : List Nat := els.tail.dropLast

/-- `element.oms_id` after `build_oms_list` (the last assignment wins) -/
def omsIdOf (l : List (List Nat)) (node : Nat) : Option Nat :=
  (l.zipIdx.filter (fun p => decide (node ∈ interior p.1))).getLast?.map (·.2)

/-- `node.oms_list` after `build_oms_list`: the ids appended to the ingress node and to the egress ROADM of every OMS -/
def omsListOf (l : List (List Nat)) (node : Nat) : List Nat :=
  l.zipIdx.flatMap (fun p => (if p.1.head? = some node then [p.2] else []) ++ (if p.1.getLast? = some node then [p.2] else []))

end Gnpy.Slots
