import GnpyModel.Scalar
/- model file Slots (see DESIGN.md §2) -/
namespace Gnpy

end Gnpy
