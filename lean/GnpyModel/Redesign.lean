import GnpyModel.Design
/-
C17 — export (`to_json`), reload (`network_from_json`) and redesign of a designed chain; the SimParams save/restore
machine of `estimate_raman_gain`.

Anchors: gnpy/core/elements.py `Fiber.to_json`, `Fused.to_json`, `Edfa.to_json`; gnpy/core/parameters.py
`FiberParams` (unit conversion), `EdfaOperational`, `SimParams`, `RamanParams`, `NLIParams`;
gnpy/core/network.py `estimate_raman_gain` (lines 295-326).
-/
namespace Gnpy.Chain

section
variable {α : Type} [Add α] [Sub α] [Mul α] [Div α] [Neg α] [NatCast α] [LT α] [LE α]
  [DecidableLT α] [DecidableLE α] [Transc α] [Rint α]

def thousand : α := ((1000:Nat) : α)

/-- `Fiber.to_json` then `FiberParams(...)`: length is written in km rounded to 6 digits, the loss coefficient in
dB/km rounded to 6 digits; `att_in`, `con_in`, `con_out` and the lumped losses (position, loss) are written as they are;
the attributes design attached (`design_span_loss`, `estimated_gain`) are not part of the document. -/
def exportFiber (p : FiberP α) : FiberP α :=
  { p with length := round6 (p.length / thousand) * thousand,
           lossCoef := round6 (p.lossCoef * thousand) / thousand,
           ramanGain := none, dsl := none }

/-- the export before the repair: `lumped_losses` was not written (kept as a counter-model only) -/
def exportFiberOld (p : FiberP α) : FiberP α := { exportFiber p with lumps := [] }

/-- `Edfa.to_json` then `EdfaOperational(...)`: the designed operating point becomes the user setting of the next
design: `gain_target = round(effective_gain, 6)`, `delta_p` (None in gain mode), `out_voa`, `in_voa`, and the
selected `type_variety` -/
def exportEdfa (variety : String) (o : AmpOut α) (tilt : Option α) : EdfaP α :=
  { variety := variety, gain := some (round6 o.gain), deltaP := o.deltaP, outVoa := some o.outVoa,
    inVoa := some o.inVoa, tilt := tilt }

/-- export + reload of one designed line: `outs` / `varieties` list the design results of its Edfas in line order -/
def exportLine : List (Elem α) → List (AmpOut α) → List String → List (Elem α)
  | [], _, _ => []
  | .fiber u p :: rest, outs, vs => .fiber u (exportFiber p) :: exportLine rest outs vs
  | .fused u l :: rest, outs, vs => .fused u l :: exportLine rest outs vs
  | .edfa u p :: rest, o :: outs, v :: vs => .edfa u (exportEdfa v o p.tilt) :: exportLine rest outs vs
  | .edfa u p :: rest, _, _ => .edfa u p :: exportLine rest [] []

/-- the user-side view of a designed amplifier when nothing is rounded (used by the fixpoint theorem) -/
def reuseAmp (a : AmpIn α) (o : AmpOut α) : AmpIn α :=
  { a with user := { variety := (if a.user.variety == "" then "selected" else a.user.variety),
                     gain := some o.gain, deltaP := o.deltaP, outVoa := some o.outVoa, inVoa := some o.inVoa,
                     tilt := a.user.tilt } }

/-- the second design walk over the same spans, fed with the exported operating points -/
def redesignAmps (c : Cfg α) (pref prefTotal : α) : α → α → α → α → List (AmpIn α) → List (AmpOut α × AmpOut α)
  | _, _, _, _, [] => []
  | pd, pv, pd', pv', a :: rest =>
    let o := ampStep c pref prefTotal pd pv a
    let o' := ampStep c pref prefTotal pd' pv' (reuseAmp a o)
    (o, o') :: redesignAmps c pref prefTotal o.retDp o.retVoa o'.retDp o'.retVoa rest

end

/-! ### SimParams: `estimate_raman_gain` saves, overwrites and restores the process-wide simulation parameters -/

/-- `RamanParams` (floats are kept as bit patterns: nothing is computed with them here) -/
structure RamanParams where
  flag : Bool
  method : String
  order : Int
  resultRes : Nat
  solverRes : Nat
  deriving DecidableEq, Repr

/-- `NLIParams` -/
structure NLIParams where
  method : String
  dispTol : Nat
  phaseTol : Nat
  channels : Option (List Int)
  nChannels : Option Int
  deriving DecidableEq, Repr

/-- `SimParams._shared_dict` -/
structure SimState where
  nli : NLIParams
  raman : RamanParams
  deriving DecidableEq, Repr

/-- `NLIParams.__init__`: `self.method = method.lower()`, everything else stored as given -/
def mkNLI (lower : String → String) (n : NLIParams) : NLIParams := { n with method := lower n.method }

/-- `RamanParams.__init__`: everything stored as given -/
def mkRaman (r : RamanParams) : RamanParams := r

/-- `SimParams.set_params(d)`: both entries are rebuilt, from `d` or from the class defaults -/
def setParams (lower : String → String) (dflt : SimState) (n : Option NLIParams) (r : Option RamanParams) : SimState :=
  { nli := match n with
      | some x => mkNLI lower x
      | none => dflt.nli,
    raman := match r with
      | some x => mkRaman x
      | none => dflt.raman }

/-- `{"raman_params": ….to_json(), "nli_params": ….to_json()}`: every constructor argument is written -/
def saveParams (s : SimState) : NLIParams × RamanParams := (s.nli, s.raman)

/-- the parameter handling of `estimate_raman_gain` for one RamanFiber: save, `set_params({"raman_params": {...}})`,
(solver runs), `set_params(saved)`; `solverState` is what the solver sees -/
def estimateRamanGainParams (lower : String → String) (dflt : SimState) (ramanOn : RamanParams) (s : SimState) :
    SimState × SimState :=
  let saved := saveParams s
  let during := setParams lower dflt none (some ramanOn)
  (during, setParams lower dflt (some saved.1) (some saved.2))

/-- any number of RamanFibers estimated one after the other -/
def estimateMany (lower : String → String) (dflt : SimState) (ramanOn : RamanParams) : Nat → SimState → SimState
  | 0, s => s
  | n + 1, s => estimateMany lower dflt ramanOn n (estimateRamanGainParams lower dflt ramanOn s).2

/-! ### the design bands of a ROADM through export and reload -/

/-- one design band `(f_min, f_max, spacing)` in Hz -/
structure DesignBand where
  fmin : Int
  fmax : Int
  spacing : Int
  deriving DecidableEq, Repr

/-- `Roadm.to_json`: `design_bands` is written whenever the user gave any (`if self.params.design_bands:`) -/
def exportBands (bs : List DesignBand) : List DesignBand := bs

/-- the export before the repair: written only when there are SEVERAL bands (kept as a counter-model only) -/
def exportBandsOld (bs : List DesignBand) : List DesignBand := if bs.length > 1 then bs else []

/-- reload + `set_roadm_internal_paths`/`build_network`: a ROADM without `design_bands` in the document designs for the
band of the SI section -/
def reloadBands (si : DesignBand) (doc : List DesignBand) : List DesignBand := if doc = [] then [si] else doc

/-- a Transceiver may state design bands like a ROADM; `Transceiver.to_json` writes them whenever given (same rule:
`exportBands`). On reload a transceiver WITHOUT stated bands gets the bands of the amplifiers of its line
(`set_per_degree_design_band`), here `fromAmps` -/
def reloadBandsTrx (fromAmps : List DesignBand) (doc : List DesignBand) : List DesignBand :=
  if doc = [] then fromAmps else doc

/-- the transceiver export before the repair: no design bands at all (kept as a counter-model only) -/
def exportBandsTrxOld (_ : List DesignBand) : List DesignBand := []

/-- the design load (channel count) of a single-band OMS after reload, as `designChannels` counts it -/
def reloadedChannels (nbRef : Option Int) (si : DesignBand) (doc : List DesignBand) : Int :=
  match reloadBands si doc with
  | b :: _ => designChannels nbRef b.fmin b.fmax b.spacing
  | [] => designChannels nbRef si.fmin si.fmax si.spacing

/-! ### reload of an exported document -/

/-- `network_from_json` looks up both ends of every connection among the element uids (`nodes[from_node]`,
`nodes[to_node]`): a connection to a missing element raises NetworkTopologyError -/
def reloadAccepts (uids : List String) (cxs : List (String × String)) : Bool :=
  cxs.all (fun c => uids.contains c.1 && uids.contains c.2)

end Gnpy.Chain
