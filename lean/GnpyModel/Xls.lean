import GnpyModel.Scalar
/- model file Xls (see DESIGN.md §2) -/
namespace Gnpy

end Gnpy
