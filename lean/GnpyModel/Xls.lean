import GnpyModel.Json
import GnpyModel.Round
/-
Workbook rows -> network elements and connections (gnpy/tools/convert.py), service rows -> request
dictionaries and synchronisation vectors (gnpy/tools/service_sheet.py)  (C20).

Two layers:
* cell layer (`mkNode`, `mkLink`, `mkEqpt`, `mkRoadmRow`, `mkRequest`): the keyword dictionaries that
  `parse_sheet` yields (header name -> cell value, `null` for an empty cell) become typed rows, with
  the defaulting rules of the `update_attr` methods (a Link's west side defaults to its east side, an
  Eqpt's west side does NOT);
* row layer (`convert`): `parse_excel`'s and `sanity_check`'s rejections, the degree correction, and
  the element / connection lists of `xls_to_json_data`, built over *structured names* (`Name`) and
  rendered to GNPy's uid strings at the end (`Name.render`), so that the theorems about wiring do
  not depend on string manipulation.
-/
namespace Gnpy.Xls
open Gnpy

/-! ### names -/

inductive Name where
  | trx (c : String)            -- 'trx c'
  | roadm (c : String)          -- 'roadm c'
  | fusedW (c : String)         -- 'west fused spans in c'
  | fusedE (c : String)         -- 'east fused spans in c'
  | fiber (src dst cable : String)  -- 'fiber (src → dst)-cable'
  | ilaW (c : String)           -- 'west edfa in c'
  | ilaE (c : String)           -- 'east edfa in c'
  | eqE (a z : String)          -- 'east edfa in a to z'
  | eqW (a z : String)          -- 'west edfa in a to z'
  deriving DecidableEq, Repr, Inhabited

def Name.render : Name → String
  | .trx c => s!"trx {c}"
  | .roadm c => s!"roadm {c}"
  | .fusedW c => s!"west fused spans in {c}"
  | .fusedE c => s!"east fused spans in {c}"
  | .fiber s d cable => s!"fiber ({s} → {d})-{cable}"
  | .ilaW c => s!"west edfa in {c}"
  | .ilaE c => s!"east edfa in {c}"
  | .eqE a z => s!"east edfa in {a} to {z}"
  | .eqW a z => s!"west edfa in {a} to {z}"

/-! ### typed rows -/

structure Node where
  city : String
  region : J
  lat : J
  lon : J
  ntype : String
  booster : String
  preamp : String
  deriving Repr, Inhabited

structure LinkSide where
  distance : J
  fiber : J
  lineic : J
  conIn : J
  conOut : J
  pmd : J
  cable : String
  deriving Repr, Inhabited

structure Link where
  a : String
  z : String
  east : LinkSide
  west : LinkSide
  deriving Repr, Inhabited

structure EqptSide where
  ampType : String
  gain : J
  dp : J
  tilt : J
  attOut : J
  attIn : J
  deriving Repr, Inhabited

structure Eqpt where
  a : String
  z : String
  east : EqptSide
  west : EqptSide
  deriving Repr, Inhabited

structure RoadmRow where
  a : String
  z : String
  target : J
  typeVariety : J
  fromDegrees : J
  impairmentIds : J
  deriving Repr, Inhabited

structure Table where
  nodes : List Node
  links : List Link
  eqpts : List Eqpt
  roadms : List RoadmRow
  deriving Repr, Inhabited

/-! ### cell layer -/

/-- `clean_kwargs.get(k, default)`: empty string and None count as absent -/
def cleanGet (kw : Dict) (k : String) (dflt : J) : J :=
  match kw.get? k with
  | none => dflt
  | some .null => dflt
  | some (.str "") => dflt
  | some v => v

/-- f-string rendering of a cell value used inside a uid -/
def pyStr : J → String
  | .str s => s
  | .int i => toString i
  | .bool true => "True"
  | .bool false => "False"
  | .null => "None"
  | .flt b =>
    -- repr of an integral float below 1e16 ('12.0'); other floats never occur in the generated names
    match Round.fmtBits b 1 with
    | some s => s
    | none => "nan"
  | _ => "?"

def asStr (j : J) : String := pyStr j

/-- `Node(**kw)` followed by the node-type normalisation of `parse_excel` -/
def mkNode (kw : Dict) : Node :=
  let t := asStr (cleanGet kw "node_type" (.str "ILA"))
  { city := asStr (cleanGet kw "city" (.str "")),
    region := cleanGet kw "region" (.str ""),
    lat := cleanGet kw "latitude" (.int 0),
    lon := cleanGet kw "longitude" (.int 0),
    ntype := if t == "ROADM" || t == "ILA" || t == "FUSED" then t else "ILA",
    booster := asStr (cleanGet kw "booster_restriction" (.str "")),
    preamp := asStr (cleanGet kw "preamp_restriction" (.str "")) }

/-- `Link(**kw)`: every west attribute defaults to the (possibly defaulted) east attribute -/
def mkLink (kw : Dict) : Link :=
  let e : LinkSide :=
    { distance := cleanGet kw "east_distance" (.int 80),
      fiber := cleanGet kw "east_fiber" (.str "SSMF"),
      lineic := cleanGet kw "east_lineic" (.flt 4596373779694328218),   -- 0.2
      conIn := cleanGet kw "east_con_in" .null,
      conOut := cleanGet kw "east_con_out" .null,
      pmd := cleanGet kw "east_pmd" .null,
      cable := asStr (cleanGet kw "east_cable" (.str "")) }
  let w : LinkSide :=
    { distance := cleanGet kw "west_distance" e.distance,
      fiber := cleanGet kw "west_fiber" e.fiber,
      lineic := cleanGet kw "west_lineic" e.lineic,
      conIn := cleanGet kw "west_con_in" e.conIn,
      conOut := cleanGet kw "west_con_out" e.conOut,
      pmd := cleanGet kw "west_pmd" e.pmd,
      cable := asStr (cleanGet kw "west_cable" (.str e.cable)) }
  { a := asStr (cleanGet kw "from_city" (.str "")), z := asStr (cleanGet kw "to_city" (.str "")),
    east := e, west := w }

/-- `Eqpt(**kw)`: the west attributes default to the class defaults, not to the east values -/
def mkEqptSide (kw : Dict) (p : String) : EqptSide :=
  { ampType := asStr (cleanGet kw (p ++ "_amp_type") (.str "")),
    gain := cleanGet kw (p ++ "_amp_gain") .null,
    dp := cleanGet kw (p ++ "_amp_dp") .null,
    tilt := cleanGet kw (p ++ "_tilt_vs_wavelength") .null,
    attOut := cleanGet kw (p ++ "_att_out") .null,
    attIn := cleanGet kw (p ++ "_att_in") (.int 0) }

def mkEqpt (kw : Dict) : Eqpt :=
  { a := asStr (cleanGet kw "from_city" (.str "")), z := asStr (cleanGet kw "to_city" (.str "")),
    east := mkEqptSide kw "east", west := mkEqptSide kw "west" }

def mkRoadmRow (kw : Dict) : RoadmRow :=
  { a := asStr (cleanGet kw "from_node" (.str "")), z := asStr (cleanGet kw "to_node" (.str "")),
    target := cleanGet kw "target_pch_out_db" .null,
    typeVariety := cleanGet kw "type_variety" .null,
    fromDegrees := cleanGet kw "from_degrees" .null,
    impairmentIds := cleanGet kw "impairment_ids" .null }

/-! ### rejections -/

inductive XErr where
  | duplicateCity
  | linkUnknownNode
  | duplicateLink
  | unreferencedNode
  | eqptUnknownNode
  | eqptUnknownLink
  | duplicateEqpt
  | duplicateIla
  | impairmentMismatch
  | py (kind : String)      -- a Python error that is not a NetworkTopologyError
  deriving DecidableEq, Repr, Inhabited

def XErr.isTopology : XErr → Bool
  | .py _ => false
  | _ => true

abbrev XR := Except XErr

def lower (s : String) : String := s.toLower

/-- `Link.__eq__`: same or reversed end points -/
def sameLink (l1 l2 : Link) : Bool :=
  (l1.a == l2.a && l1.z == l2.z) || (l1.a == l2.z && l1.z == l2.a)

/-- is there a pair of rows at different positions that are the same link?  (the code's double loop
    `for l1 in links: for l2 in links: if l1 is not l2 and l1 == l2`; `sameLink` is symmetric, so
    looking at ordered pairs is enough) -/
def hasDuplicateLink (links : List Link) : Bool :=
  !decide (links.Pairwise (fun l1 l2 => sameLink l1 l2 = false))

def cities (nodes : List Node) : List String := nodes.map (·.city)

/-- links touching a city, in row order (`links_by_city[c]`) -/
def linksAt (links : List Link) (c : String) : List Link :=
  links.filter (fun l => l.a == c || l.z == c)

/-- Python appends a self-loop twice; the generators never produce one -/
def degree (links : List Link) (c : String) : Nat :=
  (links.map (fun l => (if l.a == c then 1 else 0) + (if l.z == c then 1 else 0))).foldl (· + ·) 0

def eqptsAt (eqpts : List Eqpt) (c : String) : List Eqpt := eqpts.filter (fun e => e.a == c)

def findNode (nodes : List Node) (c : String) : Option Node := nodes.find? (fun n => n.city == c)

def linkExists (links : List Link) (a z : String) : Bool :=
  links.any (fun l => (l.a == a && l.z == z) || (l.a == z && l.z == a))

/-- a duplicate Eqpt row is a row with an earlier twin (same Node A and Node Z) -/
def hasDuplicateEqpt (eqpts : List Eqpt) : Bool :=
  !decide (eqpts.Pairwise (fun e1 e2 => (e1.a == e2.a && e1.z == e2.z) = false))

def check (c : Bool) (e : XErr) : XR Unit := if c then .error e else .ok ()

/-- `parse_excel`: two Nodes rows with the same city -/
def badDuplicateCity (t : Table) : Bool := !decide (cities t.nodes).Nodup
/-- `parse_excel`: a Links row naming a city that is not in Nodes -/
def badLinkNode (t : Table) : Bool :=
  t.links.any (fun l => !(cities t.nodes).contains l.a || !(cities t.nodes).contains l.z)
/-- `sanity_check`: the same pair of cities in two Links rows (either orientation) -/
def badDuplicateLink (t : Table) : Bool := hasDuplicateLink t.links
/-- a city without any link -/
def badUnreferenced (t : Table) : Bool := t.nodes.any (fun n => degree t.links n.city == 0)
/-- an Eqpt row naming a city that is not in Nodes -/
def badEqptNode (t : Table) : Bool :=
  t.eqpts.any (fun e => !(cities t.nodes).contains e.a || !(cities t.nodes).contains e.z)
/-- an Eqpt row for a pair of cities without link -/
def badEqptLink (t : Table) : Bool := t.eqpts.any (fun e => !linkExists t.links e.a e.z)
/-- two Eqpt rows for the same (Node A, Node Z) -/
def badDuplicateEqpt (t : Table) : Bool := hasDuplicateEqpt t.eqpts
/-- a site declared ILA with more than one Eqpt row -/
def badDuplicateIla (t : Table) : Bool :=
  t.nodes.any (fun n => n.ntype == "ILA" && (eqptsAt t.eqpts n.city).length > 1)

/-- the checks of `parse_excel` and `sanity_check`, in the order the code performs them -/
def sanity (t : Table) : XR Unit := do
  check (badDuplicateCity t) .duplicateCity
  check (badLinkNode t) .linkUnknownNode
  check (badDuplicateLink t) .duplicateLink
  check (badUnreferenced t) .unreferencedNode
  check (badEqptNode t) .eqptUnknownNode
  check (badEqptLink t) .eqptUnknownLink
  check (badDuplicateEqpt t) .duplicateEqpt
  check (badDuplicateIla t) .duplicateIla

/-- degree correction: a site declared ILA whose degree is not 2 becomes a ROADM -/
def correctType (links : List Link) (n : Node) : Node :=
  if lower n.ntype == "ila" && degree links n.city != 2 then { n with ntype := "ROADM" } else n

/-! ### numbers -/

def toFloat? : J → Option Float
  | .int i => some (Float.ofInt i)
  | .flt b => some (Float.ofBits (UInt64.ofNat b))
  | _ => none

def jFlt (x : Float) : J := .flt x.toBits.toNat

/-- `round(x, 3)`: ints are returned unchanged, floats are rounded half-even on their exact value -/
def round3 : J → XR J
  | .int i => pure (.int i)
  | .flt b =>
    match Round.decode b with
    | none => pure (.flt b)
    | some x =>
      let r := Round.roundDigits x 3
      match Round.nearestDyadic r 1000 with
      | some (m, e) => pure (.flt (Round.encode x.neg m e))
      | none => pure (.flt b)
  | _ => throw (.py "TypeError")

/-- Python truthiness of a cell value -/
def truthy (j : J) : Bool := j.truthy

/-- `convert_pmd_lineic(pmd, length, 'km')` = pmd * 1e-12 / sqrt(length * 1e3) -/
def pmdLineic (pmd length : J) : XR J :=
  match toFloat? pmd, toFloat? length with
  | some p, some l => pure (jFlt (p * 1e-12 / Float.sqrt (l * 1e3)))
  | _, _ => throw (.py "TypeError")

/-- `sum((a, b)) / 2`, with the `except TypeError` fallback of `midpoint` -/
def half2 (a b : J) : J :=
  match a, b with
  | .int x, .int y =>
    -- exact integer sum, then true division
    jFlt (Float.ofInt (x + y) / 2)
  | _, _ =>
    match toFloat? a, toFloat? b with
    | some x, some y => jFlt ((0 + x + y) / 2)
    | _, _ => .int 0

def midpoint (na nb : Node) : J :=
  match toFloat? na.lat, toFloat? nb.lat, toFloat? na.lon, toFloat? nb.lon with
  | some _, some _, some _, some _ =>
    .obj [("latitude", half2 na.lat nb.lat), ("longitude", half2 na.lon nb.lon)]
  | _, _, _, _ => .obj [("latitude", .int 0), ("longitude", .int 0)]

/-! ### elements -/

structure Elem where
  name : Name
  body : Dict          -- everything except 'uid', in Python's key order
  uidFirst : Bool := true   -- whether 'uid' is the first key (always, in this converter)
  deriving Repr, Inhabited

def location (n : Node) : J :=
  .obj [("location", .obj [("city", .str n.city), ("region", n.region), ("latitude", n.lat), ("longitude", n.lon)])]

/-- `s.split(' | ')` -/
def splitBar (s : String) : List String := s.splitOn " | "

/-- `silent_remove(l, '')`: the first empty string only -/
def removeFirstEmpty : List String → List String
  | [] => []
  | x :: xs => if x == "" then xs else x :: removeFirstEmpty xs

/-- `transform_data` -/
def transformData : J → XR (Option (List Int))
  | .flt b =>
    match toFloat? (.flt b) with
    | some f => pure (some [Int.ofNat f.toUInt64.toNat])   -- int(data) for the non-negative ids used
    | none => pure none
  | .str s => do
    let ids ← (splitBar s).mapM (fun (x : String) => match Round.parseInt x.trimAscii.toString with
      | some i => (pure i : XR Int)
      | none => throw (XErr.py "ValueError"))
    return some ids
  | _ => pure none

/-- the body of `create_roadm_element` (everything except the uid) -/
def roadmBody (n : Node) (rows : List RoadmRow) : XR Dict := do
  let mut body : Dict := []
  let mut params : Option Dict := none
  if n.preamp != "" || n.booster != "" then
    params := some [("restrictions", .obj [
      ("preamp_variety_list", .arr ((removeFirstEmpty (splitBar n.preamp)).map J.str)),
      ("booster_variety_list", .arr ((removeFirstEmpty (splitBar n.booster)).map J.str))])]
  let mine := rows.filter (fun r => r.a == n.city)
  let mut tv : Option J := none
  if !mine.isEmpty then
    let mut p := params.getD []
    let mut perDeg : Dict := []
    let mut imps : Option (List J) := none
    for r in mine do
      let toNode := (Name.eqE n.city r.z).render
      if r.target != .null then perDeg := perDeg.set toNode r.target
      if r.fromDegrees != .null && r.impairmentIds != .null then
        let fds := splitBar (asStr r.fromDegrees)
        match ← transformData r.impairmentIds with
        | none => throw (.py "TypeError")
        | some ids =>
          if fds.length != ids.length then throw .impairmentMismatch
          let cur := imps.getD []
          imps := some (cur ++ (fds.zip ids).map (fun fi =>
            J.obj [("from_degree", .str (Name.eqW n.city fi.1).render), ("to_degree", .str toNode),
                   ("impairment_id", .int fi.2)]))
      if r.typeVariety != .null then tv := some r.typeVariety
    p := p.set "per_degree_pch_out_db" (.obj perDeg)
    match imps with
    | some l => p := p.set "per_degree_impairments" (.arr l)
    | none => pure ()
    params := some p
  match params with
  | some p => body := body.set "params" (.obj p)
  | none => pure ()
  match tv with
  | some v => body := body.set "type_variety" v
  | none => pure ()
  body := body.set "metadata" (location n)
  body := body.set "type" (.str "Roadm")
  return body

/-- `create_roadm_element` -/
def roadmElem (n : Node) (rows : List RoadmRow) : XR Elem := do
  let body ← roadmBody n rows
  return { name := .roadm n.city, body := body }

def operational (s : EqptSide) : J :=
  .obj [("gain_target", s.gain), ("delta_p", s.dp), ("tilt_target", s.tilt), ("out_voa", s.attOut), ("in_voa", s.attIn)]

/-- `create_east_eqpt_element` -/
def eastEqptElem (e : Eqpt) (n : Node) : Elem :=
  let t := lower e.east.ampType
  let body : Dict :=
    if t != "" && t != "fused" then
      [("metadata", location n), ("type", .str "Edfa"), ("type_variety", .str e.east.ampType),
       ("operational", operational e.east)]
    else if t == "" then
      [("metadata", location n), ("type", .str "Edfa"), ("operational", operational e.east)]
    else
      [("metadata", location n), ("type", .str "Fused"), ("params", .obj [("loss", .int 0)])]
  { name := .eqE e.a e.z, body := body }

/-- `create_west_eqpt_element` ('type' is set before the other keys here) -/
def westEqptElem (e : Eqpt) (n : Node) : Elem :=
  let t := lower e.west.ampType
  let body : Dict :=
    if t != "" && t != "fused" then
      [("metadata", location n), ("type", .str "Edfa"), ("type_variety", .str e.west.ampType),
       ("operational", operational e.west)]
    else if t == "" then
      [("metadata", location n), ("type", .str "Edfa"), ("operational", operational e.west)]
    else
      [("metadata", location n), ("type", .str "Fused"), ("params", .obj [("loss", .int 0)])]
  { name := .eqW e.a e.z, body := body }

/-- the `params` of a fibre element -/
def fiberParams (s : LinkSide) : XR Dict := do
  let len ← round3 s.distance
  let base : Dict := [("length", len), ("length_units", .str "km"), ("loss_coef", s.lineic),
    ("con_in", s.conIn), ("con_out", s.conOut)]
  if truthy s.pmd then return base ++ [("pmd_coef", ← pmdLineic s.pmd s.distance)] else return base

/-- `create_east_fiber_element` / `create_west_fiber_element` -/
def fiberElem (src dst : String) (s : LinkSide) (na nb : Node) : XR Elem := do
  let params ← fiberParams s
  return { name := .fiber src dst s.cable,
           body := [("metadata", .obj [("location", midpoint na nb)]), ("type", .str "Fiber"),
                    ("type_variety", s.fiber), ("params", .obj params)] }

def simpleElem (nm : Name) (n : Node) (type : String) (extra : Dict := []) : Elem :=
  { name := nm, body := [("metadata", location n), ("type", .str type)] ++ extra }

def ilaOperational : Dict := [("operational", .obj [("gain_target", .null), ("tilt_target", .null)])]

/-! ### connections -/

/-- `fiber_dest_from_source` -/
def neighbours (links : List Link) (c : String) : List String :=
  (linksAt links c).map (fun l => if l.a == c then l.z else l.a)

/-- `fiber_link(from, to)`: the first link at `from` joining the two cities -/
def fiberLink (links : List Link) (src dst : String) : XR Name :=
  match (linksAt links src).find? (fun l => (l.a == src || l.a == dst) && (l.z == src || l.z == dst)) with
  | none => throw (.py "StopIteration")
  | some l => if l.a == src then pure (.fiber l.a l.z l.east.cable) else pure (.fiber l.z l.a l.west.cable)

/-- the ILA branch of the loop of `eqpt_in_city_to_city` (the loop variable `direction` is flipped
    and stays flipped for the following rows) -/
def ilaLoop (to : String) : List Eqpt → Bool → Option Name → Option Name
  | [], _, acc => acc
  | e :: es, east, _ =>
    let east' := if e.z != to then !east else east
    ilaLoop to es east' (some (if east' then Name.eqE e.a e.z else Name.eqW e.a e.z))

/-- `eqpt_in_city_to_city(in_city, to_city, direction)`; `east = true` for direction 'east';
    `none` stands for the empty string (no element in between) -/
def eqptIn (t : Table) (n : Node) (to : String) (east : Bool) : Option Name :=
  let es := eqptsAt t.eqpts n.city
  let ty := lower n.ntype
  let r : Option Name :=
    if !es.isEmpty then
      if ty == "roadm" then
        (es.filter (fun e => e.z == to)).getLast?.map (fun e => if east then Name.eqE e.a e.z else Name.eqW e.a e.z)
      else if ty == "ila" then ilaLoop to es east none
      else none
    else if ty == "ila" then some (if east then Name.ilaE n.city else Name.ilaW n.city)
    else none
  if ty == "fused" then some (if east then Name.fusedE n.city else Name.fusedW n.city) else r

/-- `connect_eqpt` -/
def connectEqpt (src : Name) (mid : Option Name) (dst : Name) : List (Name × Name) :=
  match mid with
  | some m => [(src, m), (m, dst)]
  | none => [(src, dst)]

def nth (l : List String) (i : Nat) : XR String :=
  match l[i]? with
  | some x => pure x
  | none => throw (.py "IndexError")

/-- `eqpt_connection_by_city` -/
def connectionsAt (t : Table) (n : Node) : XR (List (Name × Name)) := do
  let others := neighbours t.links n.city
  let ty := lower n.ntype
  if ty == "ila" || ty == "fused" then
    let o0 ← nth others 0
    let o1 ← nth others 1
    -- i = 0: direction 'west'
    let f0 ← fiberLink t.links o0 n.city
    let t0 ← fiberLink t.links n.city o1
    let c0 := connectEqpt f0 (eqptIn t n o0 false) t0
    -- i = 1: direction 'east'
    let f1 ← fiberLink t.links o1 n.city
    let t1 ← fiberLink t.links n.city o0
    let c1 := connectEqpt f1 (eqptIn t n o0 true) t1
    return c0 ++ c1
  else if ty == "roadm" then
    let parts ← others.mapM (fun o => do
      let fo ← fiberLink t.links n.city o
      let fi ← fiberLink t.links o n.city
      return connectEqpt (.roadm n.city) (eqptIn t n o true) fo ++ connectEqpt fi (eqptIn t n o false) (.roadm n.city))
    return parts.flatten
  else return []

/-! ### the converter -/

structure Out where
  elements : List Elem
  connections : List (Name × Name)
  deriving Repr, Inhabited

def isType (s : String) (n : Node) : Bool := lower n.ntype == s

def nodeOf (nodes : List Node) (c : String) : XR Node :=
  match findNode nodes c with
  | some n => pure n
  | none => throw (.py "KeyError")

/-- `xls_to_json_data` after parsing -/
def convert (t0 : Table) : XR Out := do
  sanity t0
  let nodes := t0.nodes.map (correctType t0.links)
  let t : Table := { t0 with nodes := nodes }
  let roadmNodes := nodes.filter (isType "roadm")
  let fusedNodes := nodes.filter (isType "fused")
  let ilaBare := nodes.filter (fun n => isType "ila" n && (eqptsAt t.eqpts n.city).isEmpty)
  let roadmElems ← roadmNodes.mapM (fun n => roadmElem n t.roadms)
  let eastFibers ← t.links.mapM (fun l => do
    fiberElem l.a l.z l.east (← nodeOf nodes l.a) (← nodeOf nodes l.z))
  let westFibers ← t.links.mapM (fun l => do
    fiberElem l.z l.a l.west (← nodeOf nodes l.a) (← nodeOf nodes l.z))
  let eastEq ← t.eqpts.mapM (fun e => do return eastEqptElem e (← nodeOf nodes e.a))
  let westEq ← t.eqpts.mapM (fun e => do return westEqptElem e (← nodeOf nodes e.a))
  let elements :=
    roadmNodes.map (fun n => simpleElem (.trx n.city) n "Transceiver")
    ++ roadmElems
    ++ fusedNodes.map (fun n => simpleElem (.fusedW n.city) n "Fused")
    ++ fusedNodes.map (fun n => simpleElem (.fusedE n.city) n "Fused")
    ++ eastFibers ++ westFibers
    ++ ilaBare.map (fun n => simpleElem (.ilaW n.city) n "Edfa" ilaOperational)
    ++ ilaBare.map (fun n => simpleElem (.ilaE n.city) n "Edfa" ilaOperational)
    ++ eastEq ++ westEq
  let perCity ← nodes.mapM (connectionsAt t)
  let trxCx := (roadmNodes.map (fun n => [(Name.trx n.city, Name.roadm n.city), (Name.roadm n.city, Name.trx n.city)])).flatten
  return { elements := elements, connections := perCity.flatten ++ trxCx }

/-- the JSON document -/
def Out.toJson (o : Out) : J :=
  .obj [("elements", .arr (o.elements.map (fun e => J.obj (("uid", .str e.name.render) :: e.body)))),
        ("connections", .arr (o.connections.map (fun c =>
          J.obj [("from_node", .str c.1.render), ("to_node", .str c.2.render)])))]

/-! ### services (gnpy/tools/service_sheet.py) -/

/-- `correct_cell_int_to_str` -/
def intToStr : J → J
  | .int i => .str (toString i)
  | .flt b =>
    match toFloat? (.flt b) with
    | some f => .str (toString (if f < 0 then -(Int.ofNat (-f).toUInt64.toNat) else Int.ofNat f.toUInt64.toNat))
    | none => .flt b
  | j => j

structure Request where
  requestId : J
  source : J
  destination : J
  trxType : J
  mode : J
  spacing : J
  power : J
  nbChannel : J
  disjointFrom : J
  nodesList : J
  isLoose : Bool
  pathBandwidth : J
  deriving Repr, Inhabited

/-- `Request(**kw)` -/
def mkRequest (kw : Dict) : Request :=
  let loose := match kw.get? "is_loose" with
    | none => true
    | some .null => true
    | some (.str s) => s == "" || s == "yes" || s == "Yes" || s == "YES"
    | some _ => false
  { requestId := intToStr (cleanGet kw "request_id" .null),
    source := cleanGet kw "source" .null,
    destination := cleanGet kw "destination" .null,
    trxType := intToStr (cleanGet kw "trx_type" .null),
    mode := intToStr (cleanGet kw "mode" .null),
    spacing := cleanGet kw "spacing" .null,
    power := cleanGet kw "power" .null,
    nbChannel := cleanGet kw "nb_channel" .null,
    disjointFrom := intToStr (cleanGet kw "disjoint_from" (.str "")),
    nodesList := cleanGet kw "nodes_list" (.str ""),
    isLoose := loose,
    pathBandwidth := cleanGet kw "path_bandwidth" .null }

section units
variable {α : Type} [Add α] [Sub α] [Mul α] [Div α] [Neg α] [NatCast α] [LT α] [LE α]
  [DecidableLT α] [DecidableLE α] [Transc α]

/-- GHz -> Hz -/
def ghz2hz (x : α) : α := x * ((1000000000 : Nat) : α)
/-- Gbit/s -> bit/s -/
def gbps2bps (x : α) : α := x * ((1000000000 : Nat) : α)
/-- dBm -> W: `db2lin(p) * 1e-3` -/
def dbm2w (x : α) : α := db2lin x * (((1 : Nat) : α) / ((1000 : Nat) : α))
end units

structure ReqElem where
  requestId : J
  source : String
  destination : String
  bidir : Bool
  trxType : J
  mode : J
  spacing : Float
  power : Option Float
  nbChannel : Option Int
  disjointFrom : List String
  nodesList : List String
  loose : String
  pathBandwidth : J
  deriving Inhabited

inductive SErr where
  | service (what : String)
  | py (kind : String)
  deriving DecidableEq, Repr, Inhabited

def reqAvail (modes : Option (List String)) : Except SErr (List String) :=
  match modes with
  | none => throw (.service "unknown-transceiver")
  | some m => pure m

def reqMode (avail : List String) : J → Except SErr J
  | .null => pure J.null
  | .str "" => pure J.null
  | .str m => if avail.contains m then pure (J.str m) else throw (.service "unknown-mode")
  | _ => throw (.service "unknown-mode")

def reqSpacing (sp : J) : Except SErr Float :=
  match toFloat? sp with
  | some s => if sp.truthy then pure (ghz2hz s) else throw (.service "missing-spacing")
  | none => if sp.truthy then throw (.py "TypeError") else throw (.service "missing-spacing")

def reqPower : J → Except SErr (Option Float)
  | .null => pure none
  | p => match toFloat? p with
    | some x => pure (some (dbm2w x))
    | none => throw (.py "TypeError")

def reqNb : J → Except SErr (Option Int)
  | .null => pure none
  | .int i => pure (some i)
  | .flt b => match toFloat? (.flt b) with
    | some f => pure (some (if f < 0 then -(Int.ofNat (-f).toUInt64.toNat) else Int.ofNat f.toUInt64.toNat))
    | none => throw (.py "TypeError")
  | _ => throw (.py "TypeError")

def reqList (allowNull : Bool) : J → Except SErr (List String)
  | .str "" => pure []
  | .str s => pure (splitBar s)
  | .null => if allowNull then pure [] else throw (.py "AttributeError")
  | _ => throw (.py "AttributeError")

def reqBandwidth : J → J
  | .null => .int 0
  | p => match toFloat? p with
    | some x => jFlt (gbps2bps x)
    | none => .null

/-- `Request_element.__init__`; `modes` = formats available for the request's transceiver type
    (`none` when the type is not in the library) -/
def mkReqElem (r : Request) (modes : Option (List String)) (bidir : Bool) : Except SErr ReqElem := do
  let avail ← reqAvail modes
  let mode ← reqMode avail r.mode
  let spacing ← reqSpacing r.spacing
  let power ← reqPower r.power
  let nb ← reqNb r.nbChannel
  let dis ← reqList false r.disjointFrom
  let nl ← reqList true r.nodesList
  return { requestId := r.requestId, source := s!"trx {asStr r.source}", destination := s!"trx {asStr r.destination}",
           bidir := bidir, trxType := r.trxType, mode := mode, spacing := spacing, power := power,
           nbChannel := nb, disjointFrom := dis, nodesList := nl,
           loose := if r.isLoose then "LOOSE" else "STRICT", pathBandwidth := reqBandwidth r.pathBandwidth }

/-- `list.index(x)` -/
def indexOf (l : List String) (x : String) : Nat := l.idxOf x

/-- `Request_element.pathrequest` -/
def pathRequest (e : ReqElem) : J :=
  let te : Dict := [("technology", .str "flexi-grid"), ("trx_type", e.trxType), ("trx_mode", e.mode),
    ("effective-freq-slot", .arr [.obj [("N", .null), ("M", .null)]]),
    ("spacing", jFlt e.spacing),
    ("max-nb-of-channel", match e.nbChannel with | some n => .int n | none => .null),
    ("output-power", match e.power with | some p => jFlt p | none => .null),
    ("path_bandwidth", e.pathBandwidth)]
  let base : Dict := [("request-id", e.requestId), ("source", .str e.source), ("destination", .str e.destination),
    ("src-tp-id", .str e.source), ("dst-tp-id", .str e.destination), ("bidirectional", .bool e.bidir),
    ("path-constraints", .obj [("te-bandwidth", .obj te)])]
  if e.nodesList.isEmpty then .obj base
  else .obj (base ++ [("explicit-route-objects", .obj [("route-object-include-exclude",
    .arr (e.nodesList.map (fun n => J.obj [("index", .int (indexOf e.nodesList n)),
      ("explicit-route-usage", .str "route-include-ero"),
      ("num-unnum-hop", .obj [("node-id", .str n), ("link-tp-id", .str "link-tp-id is not used"),
        ("hop-type", .str e.loose)])])))])])

/-- `Request_element.pathsync` -/
def pathSync (e : ReqElem) : Option J :=
  if e.disjointFrom.isEmpty then none
  else some (.obj [("synchronization-id", e.requestId),
    ("svec", .obj [("relaxable", .bool false), ("disjointness", .str "node link"),
      ("request-id-number", .arr (e.requestId :: e.disjointFrom.map J.str))])])

/-- the part of `correct_xls_route_list` that does not need the designed network: end points must be
    transceivers of the topology; a leading source / trailing destination is dropped from the route;
    a ROADM city becomes 'roadm <city>'; exact ROADM/amplifier uids are kept; transceiver and fibre
    names and unknown names are dropped when loose and refused when strict.
    `ambiguous` = names (ILA / fused cities) whose direction has to be chosen with the designed
    network: not modelled, the route is then left to the monitor. -/
def correctRoute (trx roadmCities roadmEdfaUids trxFiberUids ambiguous : List String) (e : ReqElem) :
    Except SErr (Option ReqElem) := do
  if !trx.contains e.source then throw (.service "unknown-source")
  if !trx.contains e.destination then throw (.service "unknown-destination")
  let l1 := match e.nodesList with
    | x :: xs => if x == e.source then xs else x :: xs
    | [] => []
  let l2 := match l1.getLast? with
    | some x => if x == e.destination then l1.dropLast else l1
    | none => l1
  if l2.any (fun n => ambiguous.contains n) then return none
  let step (acc : List String) (n : String) : Except SErr (List String) :=
    if trxFiberUids.contains n then
      if e.loose == "LOOSE" then pure acc else throw (.service "unsupported-constraint")
    else if roadmEdfaUids.contains n then pure (acc ++ [n])
    else if roadmCities.contains n then pure (acc ++ [s!"roadm {n}"])
    else if e.loose == "LOOSE" then pure acc else throw (.service "unknown-node")
  let l3 ← l2.foldlM step []
  return some { e with nodesList := l3 }

end Gnpy.Xls
