import GnpyModel.Scalar
/- model file Response (see DESIGN.md §2) -/
namespace Gnpy

end Gnpy
