import GnpyModel.Scalar
import GnpyModel.RoundHE
import GnpyModel.Verdict
/-
C19 — the reported response (gnpy/topology/request.py `ResultElement`, `requests_aggregation`, `compare_reqs`,
`jsontocsv`, `_jsontoparams`, `_jsontopath_metric`, `get_penalty_from_receiver`; gnpy/tools/json_io.py
`results_to_json`).  Inputs of the model: the request objects as planning left them, the propagated paths
(element uids, which elements are transceivers) and the receivers' per-channel figures.
-/
namespace Gnpy.Response
open Gnpy.HE
open Gnpy.Verdict (Pen)

/-- JSON tree (numbers that are floats in Python are `num`, ints are `int`) -/
inductive J (α : Type) where
  | null
  | bool (b : Bool)
  | int (i : Int)
  | num (x : α)
  | str (s : String)
  | arr (l : List (J α))
  | obj (l : List (String × J α))

namespace J
variable {α : Type}
/-- `d[k]` -/
def get? (j : J α) (k : String) : Option (J α) :=
  match j with
  | .obj l => l.lookup k
  | _ => none
def hasKey (j : J α) (k : String) : Bool := (j.get? k).isSome
def items? : J α → Option (List (J α))
  | .arr l => some l
  | _ => none
def str? : J α → Option String
  | .str s => some s
  | _ => none
end J

section numeric
variable {α : Type} [Add α] [Sub α] [Mul α] [Div α] [Neg α] [NatCast α] [LT α] [LE α]
  [DecidableLT α] [DecidableLE α] [Transc α] [Rint α]

/-- `numpy.mean` -/
def mean (l : List α) : α := sumL l / ((l.length : Nat) : α)

def minL : List α → Option α
  | [] => none
  | x :: xs => some (xs.foldl (fun a b => if b < a then b else a) x)
def maxL : List α → Option α
  | [] => none
  | x :: xs => some (xs.foldl (fun a b => if a < b then b else a) x)

/-- the receiver (last element of a propagated path): per-channel figures and the penalties dict -/
structure Recv (α : Type) where
  snr : List α
  snr01 : List α
  osnrAse : List α
  osnrAse01 : List α
  pens : List (String × List (Pen α))

/-- `get_penalty_from_receiver`: `'not evaluated'`, `"Infinity"`, or `round(mean(penalties), 2)` -/
def penMetric (r : Recv α) (imp : String) : J α :=
  match r.pens.lookup imp with
  | none => .str "not evaluated"
  | some ps =>
    if ps.any (fun p => match p with | .inf => true | .fin _ => false) then .str "Infinity"
    else .num (round2 (mean (ps.map (fun p => match p with | .fin v => v | .inf => ((0:Nat) : α)))))

def metricEntry (name : String) (v : J α) : J α := .obj [("metric-type", .str name), ("accumulative-value", v)]

def optNum (o : Option α) : J α := match o with | some v => .num (round2 v) | none => .null

/-- `path_metric(pth, req)`: the eleven metrics, in the code's order, all read from `pth[-1]` -/
def pathMetric (r : Recv α) (power pathBandwidth : α) : J α :=
  .arr [ metricEntry "SNR-bandwidth" (.num (round2 (mean r.snr))),
         metricEntry "SNR-0.1nm" (.num (round2 (mean r.snr01))),
         metricEntry "OSNR-bandwidth" (.num (round2 (mean r.osnrAse))),
         metricEntry "OSNR-0.1nm" (.num (round2 (mean r.osnrAse01))),
         metricEntry "lowest_SNR-0.1nm" (optNum (minL r.snr01)),
         metricEntry "biggest_SNR-0.1nm" (optNum (maxL r.snr01)),
         metricEntry "PDL_penalty" (penMetric r "pdl"),
         metricEntry "CD_penalty" (penMetric r "chromatic_dispersion"),
         metricEntry "PMD_penalty" (penMetric r "pmd"),
         metricEntry "reference_power" (.num power),
         metricEntry "path_bandwidth" (.num pathBandwidth) ]

/-- an element of a propagated path -/
structure El where
  uid : String
  isTrx : Bool

/-- the request object after planning -/
structure Req (α : Type) where
  id : String
  bidir : Bool
  tsp : String
  tspMode : Option String
  blocking : Option String            -- `hasattr(req, 'blocking_reason')`
  n : Option (List (Option Int))
  m : Option (List (Option Int))
  power : α
  pathBandwidth : α

def blockingNoPath : List String :=
  ["NO_PATH", "NO_PATH_WITH_CONSTRAINT", "NO_FEASIBLE_BAUDRATE_WITH_SPACING", "NO_COMPUTED_SNR"]

def jOptInt : Option Int → J α
  | some i => .int i
  | none => .null
def jOptStr : Option String → J α
  | some s => .str s
  | none => .null

def pro (l : List (String × J α)) : J α := .obj [("path-route-object", .obj l)]

/-- the loop body of `detailed_path_json` for the remaining elements; `labels` = `some label-hop list` when the
request is not blocked -/
def hopObjs (tsp : String) (mode : Option String) (labels : Option (J α)) : Nat → List El → List (J α)
  | _, [] => []
  | idx, e :: rest =>
    let hop : J α := pro [("index", .int idx),
                          ("num-unnum-hop", .obj [("node-id", .str e.uid), ("link-tp-id", .str e.uid)])]
    let lab : List (J α) := match labels with
      | some l => [pro [("index", .int (idx + 1)), ("label-hop", l)]]
      | none => []
    let idx1 := idx + 1 + lab.length
    let tr : List (J α) :=
      if e.isTrx then [pro [("index", .int idx1),
                            ("transponder", .obj [("transponder-type", .str tsp),
                                                  ("transponder-mode", jOptStr mode)])]]
      else []
    hop :: (lab ++ tr ++ hopObjs tsp mode labels (idx1 + tr.length) rest)

/-- `ResultElement.detailed_path_json` (`ServiceError` when labels and blocking state disagree) -/
def detailedPath (req : Req α) (path : List El) : Except String (List (J α)) :=
  match path with
  | [] => .ok []
  | _ =>
    match req.blocking with
    | none =>
      match req.n, req.m with
      | some n, some m =>
        let lab : J α := .arr ((n.zip m).map (fun nm => .obj [("N", jOptInt nm.1), ("M", jOptInt nm.2)]))
        .ok (hopObjs req.tsp req.tspMode (some lab) 0 path)
      | _, _ => .error "ServiceError"
    | some _ =>
      match req.n, req.m with
      | none, none => .ok (hopObjs req.tsp req.tspMode none 0 path)
      | _, _ => .error "ServiceError"

/-- `ResultElement.path_properties` -/
def pathProperties (req : Req α) (path : List El) (fwd : Option (Recv α)) (rev : Option (Recv α)) :
    Except String (J α) :=
  match fwd with
  | none => .error "IndexError"
  | some f =>
    if req.bidir then
      match rev with
      | none => .error "IndexError"
      | some r =>
        match detailedPath req path with
        | .error e => .error e
        | .ok d => .ok (.obj [("path-metric", pathMetric f req.power req.pathBandwidth),
                              ("z-a-path-metric", pathMetric r req.power req.pathBandwidth),
                              ("path-route-objects", .arr d)])
    else
      match detailedPath req path with
      | .error e => .error e
      | .ok d => .ok (.obj [("path-metric", pathMetric f req.power req.pathBandwidth),
                            ("path-route-objects", .arr d)])

/-- `ResultElement.pathresult` (= `.json`): the three shapes -/
def pathResult (req : Req α) (path : List El) (fwd rev : Option (Recv α)) : Except String (J α) :=
  match req.blocking with
  | some b =>
    if blockingNoPath.contains b then
      .ok (.obj [("response-id", .str req.id), ("no-path", .obj [("no-path", .str b)])])
    else
      match pathProperties req path fwd rev with
      | .error e => .error e
      | .ok p => .ok (.obj [("response-id", .str req.id),
                            ("no-path", .obj [("no-path", .str b), ("path-properties", p)])])
  | none =>
    match pathProperties req path fwd rev with
    | .error e => .error e
    | .ok p => .ok (.obj [("response-id", .str req.id), ("path-properties", p)])

/-- one planning result: request, propagated path, receivers -/
structure Res (α : Type) where
  req : Req α
  path : List El
  fwd : Option (Recv α)
  rev : Option (Recv α)

/-- `results_to_json`: one entry per result, in order -/
def resultsToJson (rs : List (Res α)) : Except String (List (J α)) :=
  rs.mapM (fun r => pathResult r.req r.path r.fwd r.rev)

end numeric

/-! ## batch acceptance (worker_utils.check_request_path_ids, request.correct_json_route_list) -/

/-- in the order `planning` meets them: a request naming an unknown transceiver type → EquipmentConfigError
(`requests_from_json`); duplicate request ids → ValueError; unknown source/destination transceiver → ServiceError; an
include node that is not a non-transceiver node of the topology → ServiceError when STRICT (skipped when LOOSE) -/
def batchCheck (trxKnown : List Bool) (ids : List String) (endpointsKnown : List Bool)
    (strictUnknownInclude : List Bool) : Option String :=
  if trxKnown.any (fun b => !b) then some "EquipmentConfigError"
  else if ids.eraseDups.length ≠ ids.length then some "ValueError"
  else if endpointsKnown.any (fun b => !b) then some "ServiceError"
  else if strictUnknownInclude.any id then some "ServiceError"
  else none

/-! ## requests_aggregation -/

/-- what `compare_reqs` looks at (source, destination, transceiver type and mode, baud rate, route constraints, spacing,
power, channel count, band, format, OSNR, roll-off, tx power AND the bidirectional flag — /repo fix: a bidirectional
request is never merged with a unidirectional one; not: id, bandwidth, N/M, cost) is bundled in `key`;
`parts` = the ids joined so far (rendered with `" | "`) -/
structure AReq (κ α : Type) where
  pos : Nat                 -- position in the original request list
  parts : List String
  key : κ
  hasMode : Bool            -- `tsp_mode is not None`
  bw : α
  n : List (Option Int)
  m : List (Option Int)

def AReq.idStr {κ α : Type} (r : AReq κ α) : String := " | ".intercalate r.parts

section aggregation
variable {κ α : Type} [DecidableEq κ] [Add α]

/-- `this_r` absorbs `req`: bandwidths summed, N/M concatenated, id joined (`this_r` first) -/
def absorb (thisR req : AReq κ α) : AReq κ α :=
  { thisR with bw := thisR.bw + req.bw, n := thisR.n ++ req.n, m := thisR.m ++ req.m,
               parts := thisR.parts ++ req.parts }

/-- the inner `for this_r in local_list` : the first `this_r` with a different id, equal compared fields (no
disjunctions: `same_disj` is True) and a mode absorbs `req`; returns the updated list or `none` (no partner) -/
def absorbInto (req : AReq κ α) : List (AReq κ α) → Option (List (AReq κ α))
  | [] => none
  | t :: rest =>
    if req.idStr ≠ t.idStr ∧ req.key = t.key ∧ t.hasMode = true then some (absorb t req :: rest)
    else (absorbInto req rest).map (t :: ·)

/-- one turn of the outer `for req in pathreqlist` for the request at original position `i`: the object is looked up
in its CURRENT state (it may have absorbed earlier requests), a partner is searched in `local_list` order, and on
success `req` is removed from `local_list` -/
def aggStep (loc : List (AReq κ α)) (i : Nat) : List (AReq κ α) :=
  match loc.find? (fun r => r.pos == i) with
  | none => loc
  | some req =>
    match absorbInto req loc with
    | none => loc
    | some l' => l'.filter (fun r => r.pos != i)

/-- `requests_aggregation(pathreqlist, [])` -/
def requestsAggregation (rs : List (AReq κ α)) : List (AReq κ α) :=
  (List.range rs.length).foldl aggStep rs

end aggregation

/-! ## requests_aggregation with disjunctions -/

/-- a disjunction (synchronization vector): id and the request ids it lists -/
structure Disj where
  id : String
  reqs : List String

/-- `temp = []; for d in dis: temp.extend(d.disjunctions_req); temp.remove(rid)` -/
def othersOf (ds : List Disj) (rid : String) : List String :=
  ds.foldl (fun acc d => (acc ++ d.reqs).erase rid) []

def sameSet (a b : List String) : Bool := a.all (fun x => b.contains x) && b.all (fun x => a.contains x)

/-- the `same_disj` flag of `compare_reqs` -/
def sameDisj (ds : List Disj) (id1 id2 : String) : Bool :=
  let d1 := ds.filter (fun d => d.reqs.contains id1)
  let d2 := ds.filter (fun d => d.reqs.contains id2)
  if !d1.isEmpty && !d2.isEmpty then sameSet (othersOf d1 id1) (othersOf d2 id2)
  else d1.isEmpty && d2.isEmpty

section
variable {κ α : Type} [DecidableEq κ] [Add α]

/-- inner loop with disjunctions: returns the updated list and the absorbing request's OLD and NEW id -/
def absorbIntoD (ds : List Disj) (req : AReq κ α) : List (AReq κ α) → Option (List (AReq κ α) × String × String)
  | [] => none
  | t :: rest =>
    if req.idStr ≠ t.idStr ∧ req.key = t.key ∧ sameDisj ds req.idStr t.idStr = true ∧ t.hasMode = true then
      some (absorb t req :: rest, t.idStr, (absorb t req).idStr)
    else (absorbIntoD ds req rest).map (fun x => (t :: x.1, x.2))

/-- `d.disjunctions_req.remove(x); d.disjunctions_req.append(y)` when `x in d.disjunctions_req` -/
def renameIn (x y : String) (d : Disj) : Disj :=
  if d.reqs.contains x then { d with reqs := d.reqs.erase x ++ [y] } else d

/-- one turn of the outer loop, with the disjunction bookkeeping (as repaired in /repo 35835fb6): in every
disjunction the absorbed request's id, and then the absorbing request's OLD id, are replaced by the joined id; no
disjunction is dropped -/
def aggStepD (st : List (AReq κ α) × List Disj) (i : Nat) : List (AReq κ α) × List Disj :=
  match st.1.find? (fun r => r.pos == i) with
  | none => st
  | some req =>
    match absorbIntoD st.2 req st.1 with
    | none => st
    | some (l', oldId, newId) =>
      let ds1 := st.2.map (renameIn req.idStr newId)
      let ds2 := ds1.map (renameIn oldId newId)
      (l'.filter (fun r => r.pos != i), ds2)

/-- `requests_aggregation(pathreqlist, disjlist)` -/
def requestsAggregationD (rs : List (AReq κ α)) (ds : List Disj) : List (AReq κ α) × List Disj :=
  (List.range rs.length).foldl aggStepD (rs, ds)

end
/-! ## jsontocsv -/

section csv
variable {α : Type} [Add α] [Sub α] [Mul α] [Div α] [Neg α] [NatCast α] [LT α] [LE α]
  [DecidableLT α] [DecidableLE α] [Transc α] [Rint α]

/-- `read_property` -/
def readProperty (metrics : List (J α)) (name : String) : J α :=
  match metrics.find? (fun e => match e.get? "metric-type" with | some (.str s) => s == name | _ => false) with
  | some e => (e.get? "accumulative-value").getD (.str "")
  | none => .str ""

/-- `round(x, 2)` of a value read from the response: only numbers can be rounded (`TypeError` otherwise) -/
def roundJ (j : J α) : Except String (J α) :=
  match j with
  | .num x => .ok (.num (round2 x))
  | .int i => .ok (.int i)
  | _ => .error "TypeError"

/-- library facts `_jsontoparams` needs about one transceiver mode -/
structure ModeInfo (α : Type) where
  trxType : String
  format : String
  osnr : α
  baudRate : α
  bitRate : α
  cost : J α

def giga : α := ((1:Nat) : α) / ((1000000000:Nat) : α)

/-- `_jsontopath_metric`: (osnr, snr, snr_bw, snr_min, snr_max, pdl, cd, pmd, power_dBm, path_bandwidth_G) -/
def jsonToPathMetric (metrics : List (J α)) : Except String (List (J α)) := do
  let osnr ← roundJ (readProperty metrics "OSNR-0.1nm")
  let snr ← roundJ (readProperty metrics "SNR-0.1nm")
  let snrbw ← roundJ (readProperty metrics "SNR-bandwidth")
  let power ← match readProperty metrics "reference_power" with
    | .num p => pure (J.num (round2 (watt2dbm p)))
    | _ => throw "TypeError"
  let pbw ← match readProperty metrics "path_bandwidth" with
    | .num b => pure (J.num (round2 (b * giga)))
    | _ => throw "TypeError"
  return [osnr, snr, snrbw, readProperty metrics "lowest_SNR-0.1nm", readProperty metrics "biggest_SNR-0.1nm",
          readProperty metrics "PDL_penalty", readProperty metrics "CD_penalty", readProperty metrics "PMD_penalty",
          power, pbw]

def pyIntList (l : List (J α)) : String :=
  "[" ++ ", ".intercalate (l.map (fun j => match j with | .int i => toString i | _ => "None")) ++ "]"

def dedup (l : List String) : List String := l.foldl (fun acc s => if acc.contains s then acc else acc ++ [s]) []

def proOf (e : J α) : J α := (e.get? "path-route-object").getD .null

/-- `>=` on two row values that must be numbers -/
def geJ (a b : J α) : Except String Bool :=
  match a, b with
  | .num x, .num y => .ok (decide (y ≤ x))
  | _, _ => .error "TypeError"

/-- ceil(a / b) as the harness-side integer is not representable polymorphically; the number of transponder pairs is
returned as the quotient `a / b` and the driver applies `ceil` (class D near integers) -/
def quot (a b : J α) : Except String α :=
  match a, b with
  | .num x, .num y => .ok (x / y)
  | _, _ => .error "TypeError"

/-- the fifteen `jsontoparamsfields` values from the ten `_jsontopath_metric` values, the library mode, the margin,
the hop string and the spectrum string -/
def paramVals (pm : List (J α)) (mode : ModeInfo α) (margin : α) (pth sptrm : String) : Option (List (J α)) :=
  match pm with
  | [osnr, snr, snrbw, smin, smax, pdl, cd, pmd, power, pbw] =>
    some [pbw, osnr, snr, snrbw, smin, smax, pdl, cd, pmd, .num (mode.osnr + margin),
          .num (round2 (mode.baudRate * giga)), power, .str pth, .str sptrm, .num (round2 (mode.bitRate * giga))]
  | _ => none

/-- `values['Pass?'] = rsnr_min >= minosnr if rsnr_min != '' else rsnr >= minosnr` -/
def passFlag (rsnrMin rsnr minosnr : J α) : Except String Bool :=
  match rsnrMin with
  | .str "" => geJ rsnr minosnr
  | _ => geJ rsnrMin minosnr

/-- the fifteen `jsontoparamsfields` values and the cost -/
def jsonToParams (props : J α) (trxType : String) (trxMode : Option String) (lib : List (ModeInfo α)) (margin : α) :
    Except String (List (J α) × J α) := do
  let pros := ((props.get? "path-route-objects").bind J.items?).getD []
  let hops := pros.filterMap (fun e => ((proOf e).get? "num-unnum-hop").bind (fun h => (h.get? "node-id").bind J.str?))
  let pth := " | ".intercalate hops
  let labs := pros.filterMap (fun e => ((proOf e).get? "label-hop").bind J.items?)
  let sp := labs.map (fun l => pyIntList (l.map (fun e => (e.get? "N").getD .null)) ++ ", "
                                ++ pyIntList (l.map (fun e => (e.get? "M").getD .null)))
  let sptrm := " | ".intercalate (dedup sp)
  let mode ← match trxMode with
    | none => throw "TypeError"          -- `'' + sys_margins`
    | some f => match lib.find? (fun m => m.trxType == trxType && m.format == f) with
      | some m => pure m
      | none => throw "StopIteration"
  let pm ← jsonToPathMetric (((props.get? "path-metric").bind J.items?).getD [])
  match paramVals pm mode margin pth sptrm with
  | some vals => return (vals, mode.cost)
  | none => throw "internal"

/-- one CSV row as an association list field → value (missing fields are the empty string) -/
structure Row (α : Type) where
  fields : List (String × J α)

def paramFields : List String :=
  ["path_bandwidth", "OSNR-0.1nm (average)", "SNR-0.1nm (average)", "SNR-bandwidth (average)", "SNR-0.1nm (min)",
   "SNR-0.1nm (max)", "PDL_penalty", "CD_penalty", "PMD_penalty", "min required OSNR (inc. margin)",
   "baud rate (Gbaud)", "input power (dBm)", "path", "spectrum (N,M)", "bit rate"]

def revFields : List String :=
  ["reversed path OSNR-0.1nm (average)", "reversed path SNR-0.1nm (average)", "reversed path SNR-bandwidth (average)",
   "reversed path SNR-0.1nm (min)", "reversed path SNR-0.1nm (max)", "reversed path PDL_penalty",
   "reversed path CD_penalty", "reversed path PMD_penalty"]

/-- `_get_srce_dest_trx` with Python's negative index for the receiver hop -/
def srceDestTrx (pros : List (J α)) (emitter : Nat) (fromEnd : Nat) :
    Except String (String × String × String × Option String) := do
  let nodeOf (e : J α) : Except String String :=
    match ((proOf e).get? "num-unnum-hop").bind (fun h => (h.get? "node-id").bind J.str?) with
    | some s => pure s
    | none => throw "KeyError"
  let first ← match pros.head? with | some e => pure e | none => throw "IndexError"
  let src ← nodeOf first
  let recvIdx ← if fromEnd ≤ pros.length then pure (pros.length - fromEnd) else throw "IndexError"
  let dst ← match pros[recvIdx]? with | some e => nodeOf e | none => throw "IndexError"
  let tsp ← match pros[emitter]? with
    | some e => match (proOf e).get? "transponder" with | some t => pure t | none => throw "KeyError"
    | none => throw "IndexError"
  let ty ← match (tsp.get? "transponder-type").bind J.str? with | some s => pure s | none => throw "KeyError"
  let md := (tsp.get? "transponder-mode").bind J.str?
  return (src, dst, ty, md)

/-- one response element → the values `jsontocsv` writes. `nbTsp` is returned separately (quotient before `ceil`). -/
def csvRow (resp : J α) (lib : List (ModeInfo α)) (margin : α) : Except String (Row α × Option α × J α) := do
  let rid := (resp.get? "response-id").getD (.str "")
  match resp.get? "no-path" with
  | some np =>
    let reason := (np.get? "no-path").getD (.str "")
    let base : List (String × J α) := [("response-id", rid), ("Pass?", reason)]
    match reason with
    | .str r =>
      if blockingNoPath.contains r then return (⟨base⟩, none, .str "")
      else
        let props := (np.get? "path-properties").getD .null
        let pros := ((props.get? "path-route-objects").bind J.items?).getD []
        let (src, dst, ty, md) ← srceDestTrx pros 1 2
        let (vals, _) ← jsonToParams props ty md lib margin
        let rev ← match (props.get? "z-a-path-metric").bind J.items? with
          | some zm => do let l ← jsonToPathMetric zm; pure (revFields.zip l)
          | none => pure []
        let fields := base ++ [("source", .str src), ("destination", .str dst), ("transponder-type", .str ty),
                                ("transponder-mode", jOptStr md)] ++ (paramFields.zip vals) ++ rev
        -- `values['path_bandwidth'] = ''`
        return (⟨fields.map (fun kv => if kv.1 == "path_bandwidth" then (kv.1, .str "") else kv)⟩, none, .str "")
    | _ => throw "TypeError"
  | none =>
    let props := (resp.get? "path-properties").getD .null
    let pros := ((props.get? "path-route-objects").bind J.items?).getD []
    let (src, dst, ty, md) ← srceDestTrx pros 2 3
    let (vals, cost) ← jsonToParams props ty md lib margin
    let get (k : String) : J α := ((paramFields.zip vals).lookup k).getD (.str "")
    let minosnr := get "min required OSNR (inc. margin)"
    let rsnrMin := get "SNR-0.1nm (min)"
    let rsnr := get "SNR-0.1nm (average)"
    let pass ← passFlag rsnrMin rsnr minosnr
    let q ← quot (get "path_bandwidth") (get "bit rate")
    let rev ← match (props.get? "z-a-path-metric").bind J.items? with
      | some zm => do let l ← jsonToPathMetric zm; pure (revFields.zip l)
      | none => pure []
    let fields := [("response-id", rid), ("source", .str src), ("destination", .str dst),
                   ("transponder-type", .str ty), ("transponder-mode", jOptStr md), ("Pass?", .bool pass)]
                  ++ (paramFields.zip vals) ++ rev
    return (⟨fields⟩, some q, cost)

end csv

end Gnpy.Response
