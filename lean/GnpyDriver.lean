import GnpyDriver.Main
