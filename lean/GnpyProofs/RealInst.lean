import GnpyModel.Scalar
import Mathlib.Analysis.SpecialFunctions.Arsinh
import Mathlib.Analysis.SpecialFunctions.Log.Basic
import Mathlib.Analysis.SpecialFunctions.Sqrt
import Mathlib.Analysis.SpecialFunctions.Pow.Real
/-
The real-number instantiation of the model's transcendental interface: the object every numeric
theorem talks about (DESIGN.md §2.3).  The algebraic classes are Mathlib's own instances on ℝ.
-/
namespace Gnpy

noncomputable instance : Transc ℝ := ⟨Real.exp, Real.log, Real.sqrt, Real.arsinh, fun x => |x|⟩

@[simp] theorem transc_exp (x : ℝ) : Transc.exp x = Real.exp x := rfl
@[simp] theorem transc_log (x : ℝ) : Transc.log x = Real.log x := rfl
@[simp] theorem transc_sqrt (x : ℝ) : Transc.sqrt x = Real.sqrt x := rfl
@[simp] theorem transc_asinh (x : ℝ) : Transc.asinh x = Real.arsinh x := rfl
@[simp] theorem transc_abs (x : ℝ) : Transc.abs x = |x| := rfl

end Gnpy
