import GnpyModel.Verdict
import GnpyProofs.Lemmas.Db
import GnpyProofs.Lemmas.RoundHE
/- helper lemmas for C13 (Gnpy.Verdict) -/
namespace Gnpy.Verdict
open Gnpy.HE

/-- linear sum of the present contributions -/
noncomputable def linSum : List (Option ℝ) → ℝ
  | [] => 0
  | none :: rest => linSum rest
  | some v :: rest => db2lin (-v) + linSum rest

theorem addedLin_foldl (args : List (Option ℝ)) (acc : ℝ) :
    args.foldl addStep acc = acc + linSum args := by
  induction args generalizing acc with
  | nil => simp [linSum]
  | cons a rest ih =>
    cases a with
    | none => simp only [List.foldl_cons, linSum, addStep]; exact ih acc
    | some v => simp only [List.foldl_cons, linSum, addStep]; rw [ih]; ring

theorem addedLin_eq (args : List (Option ℝ)) : addedLin args = linSum args := by
  simp only [addedLin, Nat.cast_zero]
  rw [addedLin_foldl]; ring

theorem linSum_nonneg (args : List (Option ℝ)) : 0 ≤ linSum args := by
  induction args with
  | nil => simp [linSum]
  | cons a rest ih =>
    cases a with
    | none => simpa [linSum] using ih
    | some v => simp only [linSum]; have := db2lin_pos (-v); linarith

theorem linSum_append (a b : List (Option ℝ)) : linSum (a ++ b) = linSum a + linSum b := by
  induction a with
  | nil => simp [linSum]
  | cons x rest ih =>
    cases x with
    | none => simpa [linSum] using ih
    | some v => simp only [List.cons_append, linSum, ih]; ring

theorem linSum_pos_of_mem (args : List (Option ℝ)) (v : ℝ) (h : some v ∈ args) : 0 < linSum args := by
  induction args with
  | nil => simp at h
  | cons a rest ih =>
    rcases List.mem_cons.1 h with h1 | h2
    · subst h1; simp only [linSum]; have := db2lin_pos (-v); have := linSum_nonneg rest; linarith
    · cases a with
      | none => simpa [linSum] using ih h2
      | some w => simp only [linSum]; have := db2lin_pos (-w); have := ih h2; linarith

theorem bwRef_pos : (0:ℝ) < bwRef := by simp [bwRef]

/-- `snr_sum` in the linear domain -/
theorem snrSum_lin (snr bw a : ℝ) (hbw : 0 < bw) :
    db2lin (-(snrSum snr bw a)) = db2lin (-snr) + bw / bwRef * db2lin (-a) := by
  have hb := bwRef_pos
  have hq : 0 < bw / bwRef := div_pos hbw hb
  simp only [snrSum]
  rw [neg_neg]
  have h2 : db2lin (-(a - lin2db (bw / bwRef))) = bw / bwRef * db2lin (-a) := by
    rw [show -(a - lin2db (bw / bwRef)) = lin2db (bw / bwRef) + -a by ring, db2lin_add, db2lin_lin2db _ hq]
  rw [h2, db2lin_lin2db]
  have := db2lin_pos (-snr); have := db2lin_pos (-a); positivity

theorem snrAdded_lin (args : List (Option ℝ)) (h : 0 < linSum args) : db2lin (-(snrAdded args)) = linSum args := by
  simp only [snrAdded, neg_neg, addedLin_eq]
  exact db2lin_lin2db _ h

end Gnpy.Verdict
