import GnpyModel.Yang
import GnpyProofs.Lemmas.Json
import GnpyProofs.Lemmas.Yang
/- document-level lemmas: `legacy_to_yang` is the identity on the YANG normal form (C18) -/
namespace Gnpy.Dict

theorem set_same (d : Dict) (k : String) (v : J) (h : d.get? k = some v) : d.set k v = d := by
  induction d with
  | nil => simp [get?] at h
  | cons kv t ih =>
    obtain ⟨k', v'⟩ := kv
    by_cases h1 : k' = k
    · subst h1
      simp only [get?, beq_self_eq_true, if_true, Option.some.injEq] at h
      simp [set, h]
    · simp only [get?, beq_iff_eq, h1, if_false] at h
      simp [set, h1, ih h]

end Gnpy.Dict

namespace Gnpy.Yang
open Gnpy

theorem mapM_id {α : Type} (f : α → PyR α) : ∀ (l : List α), (∀ x ∈ l, f x = .ok x) → l.mapM f = .ok l
  | [], _ => rfl
  | x :: xs, h => by
    rw [List.mapM_cons]
    simp only [h x (by simp), mapM_id f xs (fun y hy => h y (by simp [hy])), bind, Except.bind, pure, Except.pure]

theorem forEachIn_id (d : Dict) (key : String) (f : Dict → PyR Dict) (l : List J)
    (hget : d.get? key = some (.arr l)) (h : ∀ ej ∈ l, ∃ e, ej = .obj e ∧ f e = .ok e) :
    forEachIn d key f = .ok d := by
  have hm : l.mapM (fun e => do return J.obj (← f (← asObj e))) = .ok l := by
    apply mapM_id
    intro ej hej
    obtain ⟨e, rfl, he⟩ := h ej hej
    simp [asObj, he, bind, Except.bind, pure, Except.pure]
  have hm' := hm
  simp only [bind, Except.bind, pure, Except.pure] at hm'
  simp only [forEachIn, Dict.get, hget, asArr, bind, Except.bind, pure, Except.pure, hm']
  rw [Dict.set_same d key _ hget]

theorem forEachIfPresent_id (d : Dict) (key : String) (f : Dict → PyR Dict) (ok : J → Bool)
    (hl : listAll d key ok = true) (h : ∀ ej, ok ej = true → ∃ e, ej = .obj e ∧ f e = .ok e) :
    forEachIfPresent d key f = .ok d := by
  unfold listAll at hl
  unfold forEachIfPresent
  split at hl
  · rename_i hn
    have : d.has key = false := (Dict.has_false_iff d key).2 hn
    simp [this, pure, Except.pure]
  · rename_i l hget
    have : d.has key = true := (Dict.has_true_iff d key).2 ⟨_, hget⟩
    simp only [this, if_true]
    exact forEachIn_id d key f l hget (fun ej hej => h ej (List.all_eq_true.1 hl ej hej))
  · cases hl

theorem onKey_id (d : Dict) (key : String) (f : Dict → PyR Dict) (inner : Dict)
    (hget : d.get? key = some (.obj inner)) (h : f inner = .ok inner) : onKey d key f = .ok d := by
  simp only [onKey, Dict.get, hget, asObj, h, bind, Except.bind, pure, Except.pure]
  rw [Dict.set_same d key _ hget]

/-! ### topology -/

theorem degreeToYang_absent (z : Dict) (z1 : z.get? "per_degree_pch_out_db" = none)
    (z2 : z.get? "per_degree_psd_out_mWperGHz" = none) (z3 : z.get? "per_degree_psd_out_mWperSlotWidth" = none) :
    degreeToYang z = .ok z := by
  have p : ∀ k, z.get? k = none → popTargets k z = .ok (z, []) := by
    intro k hk; simp [popTargets, hk, pure, Except.pure]
  simp [degreeToYang, p _ z1, p _ z2, p _ z3, bind, Except.bind, pure, Except.pure]

theorem designBandToYang_absent (z : Dict) (h : z.get? "per_degree_design_bands" = none) :
    designBandToYang z = .ok z := by
  simp [designBandToYang, h, pure, Except.pure]

theorem lossCoefToYang_nonobj (z : Dict) (h : ∀ lc, z.get? "loss_coef" ≠ some (.obj lc)) :
    lossCoefToYang z = .ok z := by
  unfold lossCoefToYang
  split
  · rename_i lc hlc; exact absurd hlc (h lc)
  · rfl

theorem paramsYangNormal_spec (p : Dict) (h : paramsYangNormal p = true) :
    p.get? "per_degree_pch_out_db" = none ∧ p.get? "per_degree_psd_out_mWperGHz" = none ∧
    p.get? "per_degree_psd_out_mWperSlotWidth" = none ∧ p.get? "per_degree_design_bands" = none ∧
    ∀ lc, p.get? "loss_coef" ≠ some (.obj lc) := by
  simp only [paramsYangNormal, Bool.and_eq_true, Bool.not_eq_true'] at h
  obtain ⟨⟨⟨⟨h1, h2⟩, h3⟩, h4⟩, h5⟩ := h
  refine ⟨(Dict.has_false_iff _ _).1 h1, (Dict.has_false_iff _ _).1 h2, (Dict.has_false_iff _ _).1 h3,
    (Dict.has_false_iff _ _).1 h4, ?_⟩
  intro lc hlc
  rw [hlc] at h5
  cases h5

/-- an element in normal form: the facts the converters look at -/
theorem elemYangNormal_spec (ej : J) (h : elemYangNormal ej = true) :
    ∃ e : Dict, ej = .obj e ∧ e.has "type" = true ∧ metaYangNormal e = true ∧
      (e.get? "params" = none ∨ ∃ p : Dict, e.get? "params" = some (.obj p) ∧ paramsYangNormal p = true) := by
  cases ej with
  | obj e =>
    simp only [elemYangNormal, Bool.and_eq_true] at h
    obtain ⟨⟨h1, h2⟩, h3⟩ := h
    refine ⟨e, rfl, h1, h2, ?_⟩
    split at h3
    · left; assumption
    · right; rename_i p hp; exact ⟨p, hp, h3⟩
    · cases h3
  | _ => simp [elemYangNormal] at h

theorem onRoadmParams_id (f : Dict → PyR Dict) (e : Dict) (ht : e.has "type" = true)
    (hp : e.get? "params" = none ∨ ∃ p, e.get? "params" = some (.obj p) ∧ f p = .ok p) :
    onRoadmParams f e = .ok e := by
  obtain ⟨t, htt⟩ := (Dict.has_true_iff e "type").1 ht
  rcases hp with hp | ⟨p, hp, hf⟩
  · have : e.has "params" = false := (Dict.has_false_iff _ _).2 hp
    simp [onRoadmParams, isRoadmWithParams, Dict.get, htt, this, bind, Except.bind, pure, Except.pure]
  · have hh : e.has "params" = true := (Dict.has_true_iff _ _).2 ⟨_, hp⟩
    by_cases hr : (t == J.str "Roadm") = true
    · simp only [onRoadmParams, isRoadmWithParams, Dict.get, htt, hh, hr, Bool.and_self, onParams, hp, asObj, hf,
        bind, Except.bind, pure, Except.pure, if_true]
      rw [Dict.set_same e "params" _ hp]
    · simp [onRoadmParams, isRoadmWithParams, Dict.get, htt, hh, hr, bind, Except.bind, pure, Except.pure]

theorem withParams_id (f : Dict → PyR Dict) (e : Dict)
    (hp : e.get? "params" = none ∨ ∃ p, e.get? "params" = some (.obj p) ∧ f p = .ok p) :
    withParams e f = .ok e := by
  rcases hp with hp | ⟨p, hp, hf⟩
  · have : e.has "params" = false := (Dict.has_false_iff _ _).2 hp
    simp [withParams, this, pure, Except.pure]
  · have hh : e.has "params" = true := (Dict.has_true_iff _ _).2 ⟨_, hp⟩
    simp only [withParams, hh, if_true, onParams, Dict.get, hp, asObj, hf, bind, Except.bind, pure, Except.pure]
    rw [Dict.set_same e "params" _ hp]

theorem fixNullName_id (l : Dict) (name : String) (h : l.get? name ≠ some .null) : fixNullName l name = l := by
  unfold fixNullName
  split
  · rename_i hh; exact absurd hh h
  · rfl

theorem fixRegionCity_id (e : Dict) (h : metaYangNormal e = true) : fixRegionCity e = .ok e := by
  unfold metaYangNormal at h
  unfold fixRegionCity
  split at h
  · rename_i hm; simp [hm, pure, Except.pure]
  · rename_i m hm
    simp only [hm]
    split at h
    · rename_i hl
      have : pyIn "location" (J.obj m) = false := by
        simp only [pyIn]; exact (Dict.has_false_iff _ _).2 hl
      simp [this, pure, Except.pure]
    · rename_i loc hl
      have hin : pyIn "location" (J.obj m) = true := by
        simp only [pyIn]; exact (Dict.has_true_iff _ _).2 ⟨_, hl⟩
      simp only [Bool.and_eq_true, bne_iff_ne, ne_eq] at h
      simp only [hin, if_true, asObj, Dict.get, hl, bind, Except.bind, pure, Except.pure]
      split
      · rfl
      · rw [fixNullName_id loc "city" h.1, fixNullName_id loc "region" h.2,
          Dict.set_same m "location" _ hl, Dict.set_same e "metadata" _ hm]
    · cases h
  · cases h

theorem topo_struct_id (inner : Dict) (h : topoYangNormal inner = true) :
    convertDegree inner = .ok inner ∧ convertDesignBand inner = .ok inner ∧
    convertLossCoefList inner = .ok inner ∧ removeNullRegionCity inner = .ok inner := by
  unfold topoYangNormal at h
  split at h
  · rename_i l hget
    have hall := List.all_eq_true.1 h
    refine ⟨?_, ?_, ?_, ?_⟩
    · apply forEachIn_id _ _ _ l hget
      intro ej hej
      obtain ⟨e, rfl, ht, _, hp⟩ := elemYangNormal_spec ej (hall ej hej)
      refine ⟨e, rfl, onRoadmParams_id _ e ht ?_⟩
      rcases hp with hp | ⟨p, hp, hn⟩
      · exact Or.inl hp
      · obtain ⟨a, b, c, _, _⟩ := paramsYangNormal_spec p hn
        exact Or.inr ⟨p, hp, degreeToYang_absent p a b c⟩
    · apply forEachIn_id _ _ _ l hget
      intro ej hej
      obtain ⟨e, rfl, ht, _, hp⟩ := elemYangNormal_spec ej (hall ej hej)
      refine ⟨e, rfl, onRoadmParams_id _ e ht ?_⟩
      rcases hp with hp | ⟨p, hp, hn⟩
      · exact Or.inl hp
      · obtain ⟨_, _, _, d, _⟩ := paramsYangNormal_spec p hn
        exact Or.inr ⟨p, hp, designBandToYang_absent p d⟩
    · apply forEachIn_id _ _ _ l hget
      intro ej hej
      obtain ⟨e, rfl, _, _, hp⟩ := elemYangNormal_spec ej (hall ej hej)
      refine ⟨e, rfl, withParams_id _ e ?_⟩
      rcases hp with hp | ⟨p, hp, hn⟩
      · exact Or.inl hp
      · obtain ⟨_, _, _, _, d⟩ := paramsYangNormal_spec p hn
        exact Or.inr ⟨p, hp, lossCoefToYang_nonobj p d⟩
    · apply forEachIn_id _ _ _ l hget
      intro ej hej
      obtain ⟨e, rfl, _, hm, _⟩ := elemYangNormal_spec ej (hall ej hej)
      exact ⟨e, rfl, fixRegionCity_id e hm⟩
  · cases h

/-! ### equipment -/

theorem ramanEffEntry_id (fj : J) (h : ramanFiberYangNormal fj = true) :
    ∃ fe : Dict, fj = .obj fe ∧ ramanEffEntryToYang fe = .ok fe := by
  cases fj with
  | obj fe =>
    refine ⟨fe, rfl, ?_⟩
    simp only [ramanFiberYangNormal, Bool.and_eq_true] at h
    obtain ⟨h1, h2⟩ := h
    have ha : ramanEffAcceptCoef fe = .ok fe := by
      unfold ramanEffAcceptCoef
      split
      · rename_i rcj hrc
        simp only [hrc, Bool.or_eq_true, Bool.not_eq_true'] at h1
        rcases h1 with h1 | h1 <;> simp [h1, pure, Except.pure]
      · rfl
    have hb : ramanEffToYang fe = .ok fe := by
      unfold ramanEffToYang
      split
      · rfl
      · rename_i rej hre
        simp only [hre, Bool.and_eq_true, Bool.not_eq_true'] at h2
        simp [h2.1, h2.2, pure, Except.pure]
    simp [ramanEffEntryToYang, ha, hb, bind, Except.bind]
  | _ => simp [ramanFiberYangNormal] at h

theorem rangeEntry_id (lk dk : String) (ej : J) (h : hasKeyEntry dk ej = true) :
    ∃ e : Dict, ej = .obj e ∧ rangeToYang lk dk e = .ok e := by
  cases ej with
  | obj e =>
    simp only [hasKeyEntry] at h
    exact ⟨e, rfl, by simp [rangeToYang, h, pure, Except.pure]⟩
  | _ => simp [hasKeyEntry] at h

theorem nfCoefEntry_id (ej : J) (h : edfaYangNormal ej = true) :
    ∃ e : Dict, ej = .obj e ∧ nfCoefToYang "nf_coef" e = .ok e := by
  cases ej with
  | obj e =>
    refine ⟨e, rfl, ?_⟩
    simp only [edfaYangNormal] at h
    unfold nfCoefToYang
    split at h
    · rename_i hn; simp [hn, pure, Except.pure]
    · rename_i first rest hc
      simp [hc, idx, h, bind, Except.bind, pure, Except.pure]
    · cases h
  | _ => simp [edfaYangNormal] at h

theorem addDefaultFirst_id : ∀ (l : List J), l.all (hasKeyEntry "type_variety") = true → addDefaultFirst l = .ok l
  | [], _ => rfl
  | x :: xs, h => by
    simp only [List.all_cons, Bool.and_eq_true] at h
    cases x with
    | obj d =>
      have hd : Dict.has d "type_variety" = true := h.1
      simp [addDefaultFirst, asObj, hd, addDefaultFirst_id xs h.2, bind, Except.bind, pure, Except.pure]
    | _ => simp [hasKeyEntry] at h

theorem addMissing_id (inner : Dict) (h : listAll inner "Roadm" (hasKeyEntry "type_variety") = true) :
    addMissingDefaultTypeVariety inner = .ok inner := by
  unfold listAll at h
  unfold addMissingDefaultTypeVariety
  split at h
  · rename_i hn; simp [hn, pure, Except.pure]
  · rename_i l hget
    simp only [hget, asArr, addDefaultFirst_id l h, bind, Except.bind, pure, Except.pure]
    rw [Dict.set_same inner "Roadm" _ hget]
  · cases h

theorem eqpt_struct_id (inner : Dict) (h : eqptYangNormal inner = true) :
    convertRamanEfficiency inner = .ok inner ∧ convertDeltaPowerRange inner = .ok inner ∧
    convertNfCoef inner = .ok inner ∧ addMissingDefaultTypeVariety inner = .ok inner := by
  simp only [eqptYangNormal, Bool.and_eq_true] at h
  obtain ⟨⟨⟨⟨h1, h2⟩, h3⟩, h4⟩, h5⟩ := h
  refine ⟨?_, ?_, ?_, addMissing_id inner h5⟩
  · exact forEachIfPresent_id inner "RamanFiber" _ _ h1 ramanEffEntry_id
  · have a := forEachIfPresent_id inner "Span" (rangeToYang "delta_power_range_db" "delta_power_range_dict_db") _ h2
      (rangeEntry_id _ _)
    have b := forEachIfPresent_id inner "SI" (rangeToYang "power_range_db" "power_range_dict_db") _ h3
      (rangeEntry_id _ _)
    simp [convertDeltaPowerRange, a, b, bind, Except.bind]
  · exact forEachIfPresent_id inner "Edfa" _ _ h4 nfCoefEntry_id

/-! ### services -/

theorem reorderKey_id (key : String) (ej : J) (h : keyFirst key ej = true) :
    ∃ e : Dict, ej = .obj e ∧ reorderKey key e = e := by
  cases ej with
  | obj e =>
    refine ⟨e, rfl, ?_⟩
    cases e with
    | nil => simp [reorderKey, Dict.get?]
    | cons kv rest =>
      obtain ⟨k, v⟩ := kv
      simp only [keyFirst] at h
      by_cases hk : (k == key) = true
      · simp only [hk, if_true, Bool.and_eq_true, bne_iff_ne, ne_eq, Bool.not_eq_true'] at h
        have hk' : k = key := by simpa using hk
        subst hk'
        have hr : Dict.get? rest k = none := (Dict.has_false_iff rest k).1 h.2
        cases v with
        | null => exact absurd rfl h.1
        | _ => simp [reorderKey, Dict.get?, Dict.erase, Dict.erase_of_get?_none rest k hr]
      · simp only [hk, Bool.false_eq_true, if_false, Bool.not_eq_true'] at h
        have : Dict.get? ((k, v) :: rest) key = none := (Dict.has_false_iff _ _).1 h
        simp [reorderKey, this]
  | _ => simp [keyFirst] at h

theorem reorderKeys_id (key : String) (l : List J) (h : l.all (keyFirst key) = true) :
    reorderKeys key (.arr l) = .ok (.arr l) := by
  have hm : l.mapM (fun e => do return J.obj (reorderKey key (← asObj e))) = (.ok l : PyR (List J)) := by
    apply mapM_id
    intro ej hej
    obtain ⟨e, rfl, he⟩ := reorderKey_id key ej (List.all_eq_true.1 h ej hej)
    simp [asObj, he, bind, Except.bind, pure, Except.pure]
  have hm' := hm
  simp only [bind, Except.bind, pure, Except.pure] at hm'
  simp only [reorderKeys, asArr, bind, Except.bind, pure, Except.pure, hm']

theorem dropIfNone_id (d : Dict) (k : String) (h : d.get? k ≠ some .null) : dropIfNone d k = d := by
  unfold dropIfNone
  split
  · rfl
  · rename_i hh; exact absurd hh h
  · rfl

theorem slotLoop_id : ∀ (fuel i : Nat) (l : List J), l.all slotYangNormal = true → slotLoop fuel i l = .ok l
  | 0, _, _, _ => rfl
  | fuel + 1, i, l, h => by
    unfold slotLoop
    cases hi : l[i]? with
    | none => rfl
    | some sj =>
      have hmem : sj ∈ l := List.mem_of_getElem? hi
      have hs := List.all_eq_true.1 h sj hmem
      cases sj with
      | obj s =>
        simp only [slotYangNormal, Bool.and_eq_true, bne_iff_ne, ne_eq, Bool.not_eq_true'] at hs
        obtain ⟨⟨hne, hN⟩, hM⟩ := hs
        have e1 : dropIfNone s "N" = s := dropIfNone_id s "N" hN
        have e2 : dropIfNone s "M" = s := dropIfNone_id s "M" hM
        have hset : l.set i (J.obj s) = l := by
          apply List.ext_getElem?
          intro j
          by_cases hj : i = j
          · subst hj
            rw [List.getElem?_set_self' , hi]
            simp
          · rw [List.getElem?_set_ne hj]
        simp only [asObj, e1, e2, hset, hne, bind, Except.bind, pure, Except.pure, Bool.false_eq_true, if_false]
        exact slotLoop_id fuel (i + 1) l h
      | _ => simp [slotYangNormal] at hs

theorem cleanTe_id (te : Dict) (h : teYangNormal te = true) : cleanTeBandwidth te = .ok te := by
  simp only [teYangNormal, Bool.and_eq_true, bne_iff_ne, ne_eq] at h
  obtain ⟨⟨⟨h1, h2⟩, h3⟩, h4⟩ := h
  have hd : dropIfNone (dropIfNone (dropIfNone te "max-nb-of-channel") "trx_mode") "output-power" = te := by
    rw [dropIfNone_id te _ h2, dropIfNone_id te _ h3, dropIfNone_id te _ h4]
  unfold cleanTeBandwidth
  split at h1
  · rename_i hn
    simp [hn, hd, bind, Except.bind, pure, Except.pure]
  · rename_i x xs hget
    have hl := slotLoop_id ((x :: xs).length + 1) 0 (x :: xs) h1
    simp only [hget, J.truthy, List.isEmpty_cons, Bool.not_false, Bool.not_true, Bool.false_eq_true, if_false, asArr, hl,
      bind, Except.bind, pure, Except.pure]
    rw [Dict.set_same te _ _ hget, hd]
  · cases h1

theorem req_id (rj : J) (h : reqYangNormal rj = true) :
    ∃ req : Dict, rj = .obj req ∧ reorderRouteReq req = .ok req ∧ cleanReq req = .ok req := by
  cases rj with
  | obj req =>
    refine ⟨req, rfl, ?_, ?_⟩
    · simp only [reqYangNormal, Bool.and_eq_true] at h
      have h1 := h.1
      unfold reorderRouteReq
      split at h1
      · rename_i hn; simp [hn, pure, Except.pure]
      · rename_i e he
        split at h1
        · rename_i l hl
          simp only [he, asObj, Dict.get, hl, reorderKeys_id "index" l h1, bind, Except.bind, pure, Except.pure]
          rw [Dict.set_same e _ _ hl, Dict.set_same req _ _ he]
        · cases h1
      · cases h1
    · simp only [reqYangNormal, Bool.and_eq_true] at h
      have h2 := h.2
      unfold cleanReq
      split at h2
      · rename_i pc hpc
        split at h2
        · rename_i te hte
          simp only [Dict.get, hpc, asObj, hte, cleanTe_id te h2, bind, Except.bind, pure, Except.pure]
          rw [Dict.set_same pc _ _ hte, Dict.set_same req _ _ hpc]
        · cases h2
      · cases h2
  | _ => simp [reqYangNormal] at h

theorem serv_struct_id (inner : Dict) (h : servYangNormal inner = true) :
    reorderRouteObjects inner = .ok inner ∧ removeUnionThatFail inner = .ok inner := by
  unfold servYangNormal at h
  split at h
  · rename_i l hget
    have hall := List.all_eq_true.1 h
    constructor
    · apply forEachIn_id _ _ _ l hget
      intro rj hrj
      obtain ⟨req, rfl, a, _⟩ := req_id rj (hall rj hrj)
      exact ⟨req, rfl, a⟩
    · apply forEachIn_id _ _ _ l hget
      intro rj hrj
      obtain ⟨req, rfl, _, b⟩ := req_id rj (hall rj hrj)
      exact ⟨req, rfl, b⟩
  · cases h

/-! ### nulls -/

mutual
theorem noneToEmpty_of_noBareNull : ∀ j : J, noBareNull j = true → noneToEmpty j = j
  | .null, h => by simp [noBareNull] at h
  | .bool _, _ => rfl
  | .int _, _ => rfl
  | .flt _, _ => rfl
  | .str _, _ => rfl
  | .arr l, h => by
    by_cases hb : J.beqL l [.null] = true
    · simp [noneToEmpty, hb]
    · simp only [noBareNull, hb, Bool.false_or] at h
      simp only [noneToEmpty, hb, if_false, Bool.false_eq_true]
      rw [noneToEmptyL_of_noBareNull l h]
  | .obj l, h => by
    simp only [noBareNull] at h
    simp only [noneToEmpty]
    rw [noneToEmptyO_of_noBareNull l h]
theorem noneToEmptyL_of_noBareNull : ∀ l : List J, noBareNullL l = true → noneToEmptyL l = l
  | [], _ => rfl
  | x :: xs, h => by
    simp only [noBareNullL, Bool.and_eq_true] at h
    simp only [noneToEmptyL]
    rw [noneToEmpty_of_noBareNull x h.1, noneToEmptyL_of_noBareNull xs h.2]
theorem noneToEmptyO_of_noBareNull : ∀ l : List (String × J), noBareNullO l = true → noneToEmptyO l = l
  | [], _ => rfl
  | (k, v) :: xs, h => by
    simp only [noBareNullO, Bool.and_eq_true] at h
    simp only [noneToEmptyO]
    rw [noneToEmpty_of_noBareNull v h.1, noneToEmptyO_of_noBareNull xs h.2]
end

/-! ### dispatch -/

/-- the structural part of `legacy_to_yang` is the identity on a YANG-normal document -/
theorem toYangStruct_fixpoint (k : String) (v : J) (h : yangNormal (.obj [(k, v)]) = true) :
    toYangStruct [(k, v)] = .ok [(k, v)] := by
  simp only [yangNormal] at h
  by_cases hT : (k == TOPO) = true
  · have hk : k = TOPO := by simpa using hT
    subst hk
    simp only [hT, if_true] at h
    cases v with
    | obj inner =>
      obtain ⟨a, b, c, d⟩ := topo_struct_id inner h
      have g : Dict.get? [(TOPO, J.obj inner)] TOPO = some (.obj inner) := by simp [Dict.get?]
      have o1 := onKey_id [(TOPO, J.obj inner)] TOPO convertDegree inner g a
      have o2 := onKey_id [(TOPO, J.obj inner)] TOPO convertDesignBand inner g b
      have o3 := onKey_id [(TOPO, J.obj inner)] TOPO convertLossCoefList inner g c
      have o4 := onKey_id [(TOPO, J.obj inner)] TOPO removeNullRegionCity inner g d
      have e1 : Dict.has [(TOPO, J.obj inner)] "elements" = false := by (simp only [Dict.has, List.any_cons, List.any_nil, Bool.or_false]; decide)
      have e2 : Dict.has [(TOPO, J.obj inner)] TOPO = true := by simp [Dict.has]
      simp only [toYangStruct, toYangStructWith, e1, e2, o1, o2, o3, o4, bind, Except.bind, Bool.false_eq_true, if_false, if_true]
    | _ => simp at h
  · simp only [hT, Bool.false_eq_true, if_false] at h
    by_cases hE : (k == EQPT) = true
    · have hk : k = EQPT := by simpa using hE
      subst hk
      simp only [hE, if_true] at h
      cases v with
      | obj inner =>
        obtain ⟨a, b, c, d⟩ := eqpt_struct_id inner h
        have g : Dict.get? [(EQPT, J.obj inner)] EQPT = some (.obj inner) := by simp [Dict.get?]
        have o1 := onKey_id [(EQPT, J.obj inner)] EQPT convertRamanEfficiency inner g a
        have o2 := onKey_id [(EQPT, J.obj inner)] EQPT convertDeltaPowerRange inner g b
        have o3 := onKey_id [(EQPT, J.obj inner)] EQPT convertNfCoef inner g c
        have o4 := onKey_id [(EQPT, J.obj inner)] EQPT addMissingDefaultTypeVariety inner g d
        have e1 : Dict.has [(EQPT, J.obj inner)] "elements" = false := by (simp only [Dict.has, List.any_cons, List.any_nil, Bool.or_false]; decide)
        have e2 : Dict.has [(EQPT, J.obj inner)] TOPO = false := by (simp only [Dict.has, List.any_cons, List.any_nil, Bool.or_false]; decide)
        have e3 : hasAny [(EQPT, J.obj inner)] eqptTypes = false := by simp [hasAny, eqptTypes, Dict.has, EQPT]
        have e4 : Dict.has [(EQPT, J.obj inner)] EQPT = true := by simp [Dict.has]
        simp only [toYangStruct, toYangStructWith, e1, e2, e3, e4, o1, o2, o3, o4, bind, Except.bind, Bool.false_eq_true,
          if_false, if_true]
      | _ => simp at h
    · simp only [hE, Bool.false_eq_true, if_false] at h
      by_cases hS : (k == SERV) = true
      · have hk : k = SERV := by simpa using hS
        subst hk
        simp only [hS, if_true] at h
        cases v with
        | obj inner =>
          obtain ⟨a, b⟩ := serv_struct_id inner h
          have g : Dict.get? [(SERV, J.obj inner)] SERV = some (.obj inner) := by simp [Dict.get?]
          have o1 := onKey_id [(SERV, J.obj inner)] SERV reorderRouteObjects inner g a
          have o2 := onKey_id [(SERV, J.obj inner)] SERV removeUnionThatFail inner g b
          have e1 : Dict.has [(SERV, J.obj inner)] "elements" = false := by (simp only [Dict.has, List.any_cons, List.any_nil, Bool.or_false]; decide)
          have e2 : Dict.has [(SERV, J.obj inner)] TOPO = false := by (simp only [Dict.has, List.any_cons, List.any_nil, Bool.or_false]; decide)
          have e3 : hasAny [(SERV, J.obj inner)] eqptTypes = false := by simp [hasAny, eqptTypes, Dict.has, SERV]
          have e4 : Dict.has [(SERV, J.obj inner)] EQPT = false := by (simp only [Dict.has, List.any_cons, List.any_nil, Bool.or_false]; decide)
          have e5 : Dict.has [(SERV, J.obj inner)] "path-request" = false := by (simp only [Dict.has, List.any_cons, List.any_nil, Bool.or_false]; decide)
          have e6 : Dict.has [(SERV, J.obj inner)] SERV = true := by simp [Dict.has]
          simp only [toYangStruct, toYangStructWith, e1, e2, e3, e4, e5, e6, o1, o2, bind, Except.bind, Bool.false_eq_true,
            if_false, if_true]
        | _ => simp at h
      · simp only [hS, Bool.false_eq_true, if_false, Bool.or_eq_true] at h
        rcases h with h | h
        · have hk : k = SPEC := by simpa using h
          subst hk
          have e : ∀ key, key ≠ SPEC → Dict.has [(SPEC, v)] key = false := by
            intro key hne; simp [Dict.has, Ne.symm hne]
          have e3 : hasAny [(SPEC, v)] eqptTypes = false := by simp [hasAny, eqptTypes, Dict.has, SPEC]
          have e4 : hasAny [(SPEC, v)] edfaConfigKeys = false := by simp [hasAny, edfaConfigKeys, Dict.has, SPEC]
          have e5 : hasAny [(SPEC, v)] simParamsKeys = false := by simp [hasAny, simParamsKeys, Dict.has, SPEC]
          have e6 : hasAny [(SPEC, v)] [SPEC, SIMP, RESP] = true := by simp [hasAny, Dict.has]
          simp only [toYangStruct, toYangStructWith, e "elements" (by decide), e TOPO (by decide), e3, e EQPT (by decide),
            e "path-request" (by decide), e SERV (by decide), e4, e EDFACFG (by decide), e "spectrum" (by decide), e5,
            e "response" (by decide), e API (by decide), e6, Bool.false_eq_true, if_false, if_true, pure, Except.pure]
        · have hk : k = SIMP := by simpa using h
          subst hk
          have e : ∀ key, key ≠ SIMP → Dict.has [(SIMP, v)] key = false := by
            intro key hne; simp [Dict.has, Ne.symm hne]
          have e3 : hasAny [(SIMP, v)] eqptTypes = false := by simp [hasAny, eqptTypes, Dict.has, SIMP]
          have e4 : hasAny [(SIMP, v)] edfaConfigKeys = false := by simp [hasAny, edfaConfigKeys, Dict.has, SIMP]
          have e5 : hasAny [(SIMP, v)] simParamsKeys = false := by simp [hasAny, simParamsKeys, Dict.has, SIMP]
          have e6 : hasAny [(SIMP, v)] [SPEC, SIMP, RESP] = true := by simp [hasAny, Dict.has]
          simp only [toYangStruct, toYangStructWith, e "elements" (by decide), e TOPO (by decide), e3, e EQPT (by decide),
            e "path-request" (by decide), e SERV (by decide), e4, e EDFACFG (by decide), e "spectrum" (by decide), e5,
            e "response" (by decide), e API (by decide), e6, Bool.false_eq_true, if_false, if_true, pure, Except.pure]

/-! ### the way back: `yang_to_legacy` on a legacy-normal document -/

mutual
theorem emptyToNone_of_noBoxedNull : ∀ j : J, noBoxedNull j = true → emptyToNone j = j
  | .null, _ => rfl
  | .bool _, _ => rfl
  | .int _, _ => rfl
  | .flt _, _ => rfl
  | .str _, _ => rfl
  | .arr l, h => by
    simp only [noBoxedNull, Bool.and_eq_true, Bool.not_eq_true'] at h
    simp only [emptyToNone, h.1, Bool.false_eq_true, if_false]
    rw [emptyToNoneL_of_noBoxedNull l h.2]
  | .obj l, h => by
    simp only [noBoxedNull] at h
    simp only [emptyToNone]
    rw [emptyToNoneO_of_noBoxedNull l h]
theorem emptyToNoneL_of_noBoxedNull : ∀ l : List J, noBoxedNullL l = true → emptyToNoneL l = l
  | [], _ => rfl
  | x :: xs, h => by
    simp only [noBoxedNullL, Bool.and_eq_true] at h
    simp only [emptyToNoneL]
    rw [emptyToNone_of_noBoxedNull x h.1, emptyToNoneL_of_noBoxedNull xs h.2]
theorem emptyToNoneO_of_noBoxedNull : ∀ l : List (String × J), noBoxedNullO l = true → emptyToNoneO l = l
  | [], _ => rfl
  | (k, v) :: xs, h => by
    simp only [noBoxedNullO, Bool.and_eq_true] at h
    simp only [emptyToNoneO]
    rw [emptyToNone_of_noBoxedNull v h.1, emptyToNoneO_of_noBoxedNull xs h.2]
end

theorem backStable_spec (j : J) (h : backStable j = true) : convertBack none j = .ok j := by
  unfold backStable at h
  split at h
  · rename_i r hr
    have : r = j := by simpa using h
    rw [hr, this]
  · cases h

theorem paramsLegacyNormal_spec (p : Dict) (h : paramsLegacyNormal p = true) :
    p.get? "per_degree_power_targets" = none ∧ p.get? "per_degree_design_bands_targets" = none ∧
    p.get? "loss_coef_per_frequency" = none ∧
    (p.get? "raman_coefficient" = none ∨ ∃ rcj, p.get? "raman_coefficient" = some rcj ∧ pyIn "g0_per_frequency" rcj = false) := by
  simp only [paramsLegacyNormal, Bool.and_eq_true, Bool.not_eq_true'] at h
  obtain ⟨⟨⟨h1, h2⟩, h3⟩, h4⟩ := h
  refine ⟨(Dict.has_false_iff _ _).1 h1, (Dict.has_false_iff _ _).1 h2, (Dict.has_false_iff _ _).1 h3, ?_⟩
  split at h4
  · left; assumption
  · right; rename_i rcj hr; exact ⟨rcj, hr, by simpa using h4⟩

theorem elemLegacyNormal_spec (ej : J) (h : elemLegacyNormal ej = true) :
    ∃ e : Dict, ej = .obj e ∧ e.has "type" = true ∧
      (e.get? "params" = none ∨ ∃ p : Dict, e.get? "params" = some (.obj p) ∧ paramsLegacyNormal p = true) := by
  cases ej with
  | obj e =>
    simp only [elemLegacyNormal, Bool.and_eq_true] at h
    obtain ⟨h1, h3⟩ := h
    refine ⟨e, rfl, h1, ?_⟩
    split at h3
    · left; assumption
    · right; rename_i p hp; exact ⟨p, hp, h3⟩
    · cases h3
  | _ => simp [elemLegacyNormal] at h

theorem topo_back_id (d : Dict) (h : topoLegacyNormal d = true) :
    convertBackDegree d = .ok d ∧ convertBackDesignBand d = .ok d ∧ convertBackLossCoefList d = .ok d ∧
    convertBackRamanCoef d = .ok d := by
  unfold topoLegacyNormal at h
  split at h
  · rename_i l hget
    have hall := List.all_eq_true.1 h
    refine ⟨?_, ?_, ?_, ?_⟩
    · apply forEachIn_id _ _ _ l hget
      intro ej hej
      obtain ⟨e, rfl, ht, hp⟩ := elemLegacyNormal_spec ej (hall ej hej)
      refine ⟨e, rfl, onRoadmParams_id _ e ht ?_⟩
      rcases hp with hp | ⟨p, hp, hn⟩
      · exact Or.inl hp
      · obtain ⟨a, _, _, _⟩ := paramsLegacyNormal_spec p hn
        exact Or.inr ⟨p, hp, by simp [degreeToLegacy, a, pure, Except.pure]⟩
    · apply forEachIn_id _ _ _ l hget
      intro ej hej
      obtain ⟨e, rfl, ht, hp⟩ := elemLegacyNormal_spec ej (hall ej hej)
      refine ⟨e, rfl, onRoadmParams_id _ e ht ?_⟩
      rcases hp with hp | ⟨p, hp, hn⟩
      · exact Or.inl hp
      · obtain ⟨_, b, _, _⟩ := paramsLegacyNormal_spec p hn
        exact Or.inr ⟨p, hp, by simp [designBandToLegacy, b, pure, Except.pure]⟩
    · apply forEachIn_id _ _ _ l hget
      intro ej hej
      obtain ⟨e, rfl, _, hp⟩ := elemLegacyNormal_spec ej (hall ej hej)
      refine ⟨e, rfl, withParams_id _ e ?_⟩
      rcases hp with hp | ⟨p, hp, hn⟩
      · exact Or.inl hp
      · obtain ⟨_, _, c, _⟩ := paramsLegacyNormal_spec p hn
        exact Or.inr ⟨p, hp, by simp [lossCoefToLegacy, c, pure, Except.pure]⟩
    · apply forEachIn_id _ _ _ l hget
      intro ej hej
      obtain ⟨e, rfl, _, hp⟩ := elemLegacyNormal_spec ej (hall ej hej)
      refine ⟨e, rfl, withParams_id _ e ?_⟩
      rcases hp with hp | ⟨p, hp, hn⟩
      · exact Or.inl hp
      · obtain ⟨_, _, _, dd⟩ := paramsLegacyNormal_spec p hn
        refine Or.inr ⟨p, hp, ?_⟩
        rcases dd with dd | ⟨rcj, hr, hin⟩
        · simp [ramanCoefToLegacy, dd, pure, Except.pure]
        · simp [ramanCoefToLegacy, hr, hin, pure, Except.pure]
  · cases h

theorem eqpt_back_id (d : Dict) (h : eqptLegacyNormal d = true) :
    convertBackDeltaPowerRange d = .ok d ∧ convertBackRamanEfficiency d = .ok d ∧ convertBackNfCoef d = .ok d := by
  simp only [eqptLegacyNormal, Bool.and_eq_true] at h
  obtain ⟨⟨⟨h1, h2⟩, h3⟩, h4⟩ := h
  have lack : ∀ (lk dk : String) (ej : J), lacksKeyEntry dk ej = true → ∃ e : Dict, ej = .obj e ∧ rangeToLegacy lk dk e = .ok e := by
    intro lk dk ej hh
    cases ej with
    | obj e =>
      simp only [lacksKeyEntry, Bool.not_eq_true'] at hh
      have := (Dict.has_false_iff e dk).1 hh
      exact ⟨e, rfl, by simp [rangeToLegacy, this, pure, Except.pure]⟩
    | _ => simp [lacksKeyEntry] at hh
  refine ⟨?_, ?_, ?_⟩
  · have a := forEachIfPresent_id d "Span" (rangeToLegacy "delta_power_range_db" "delta_power_range_dict_db") _ h1 (lack _ _)
    have b := forEachIfPresent_id d "SI" (rangeToLegacy "power_range_db" "power_range_dict_db") _ h2 (lack _ _)
    simp [convertBackDeltaPowerRange, a, b, bind, Except.bind]
  · apply forEachIfPresent_id d "RamanFiber" _ _ h3
    intro fj hf
    cases fj with
    | obj fe =>
      refine ⟨fe, rfl, ?_⟩
      simp only [ramanFiberLegacyNormal] at hf
      unfold ramanEffToLegacy
      split
      · rename_i re hre; simp [hre] at hf
      · rfl
    | _ => simp [ramanFiberLegacyNormal] at hf
  · apply forEachIfPresent_id d "Edfa" _ _ h4
    intro ej he
    cases ej with
    | obj e =>
      refine ⟨e, rfl, ?_⟩
      simp only [edfaLegacyNormal] at he
      unfold nfCoefToLegacy
      split at he
      · rename_i hn; simp [hn, pure, Except.pure]
      · rename_i first rest hc
        simp [hc, idx, he, bind, Except.bind, pure, Except.pure]
      · cases he
    | _ => simp [edfaLegacyNormal] at he

/-- the structural part of `yang_to_legacy` is the identity on a legacy-normal document -/
theorem toLegacyStruct_fixpoint (d : Dict) (h : legacyNormal (.obj d) = true) :
    toLegacyStruct convertBackDeltaPowerRange d = .ok (.obj d) := by
  simp only [legacyNormal] at h
  by_cases h1 : Dict.has d "elements" = true
  · simp only [h1, if_true, Bool.and_eq_true] at h
    obtain ⟨a, b, c, e⟩ := topo_back_id d h.1
    have hns : removeNamespace "gnpy-network-topology:" (.obj d) = .obj d := by
      have := h.2; simpa [nsFree] using this
    simp [toLegacyStruct, h1, topoToLegacy, a, b, c, e, hns, bind, Except.bind, pure, Except.pure]
  · simp only [h1, Bool.false_eq_true, if_false] at h
    by_cases h2 : Dict.has d TOPO = true
    · simp [h2] at h
    · simp only [h2, Bool.false_eq_true, if_false] at h
      by_cases h3 : hasAny d eqptTypes = true
      · simp only [h3, if_true, Bool.and_eq_true] at h
        obtain ⟨a, b, c⟩ := eqpt_back_id d h.1
        have hns : removeNamespace "gnpy-eqpt-config:" (.obj d) = .obj d := by
          have := h.2; simpa [nsFree] using this
        simp [toLegacyStruct, h1, h2, h3, eqptToLegacy, a, b, c, hns, bind, Except.bind, pure, Except.pure]
      · simp only [h3, Bool.false_eq_true, if_false, Bool.and_eq_true, Bool.not_eq_true'] at h
        obtain ⟨⟨⟨⟨⟨⟨⟨⟨g1, g2⟩, g3⟩, g4⟩, g5⟩, g6⟩, g7⟩, g8⟩, g9⟩ := h
        simp [toLegacyStruct, h1, h2, h3, g1, g2, g3, g4, g5, g6, g7, g8, g9, pure, Except.pure]

end Gnpy.Yang

namespace Gnpy.Yang
open Gnpy

/-! ### lifting per-entry round trips to documents (`forEachIn_congr`) -/

theorem mapM_pointwise {α β : Type} (f : α → PyR β) :
    ∀ l : List α, (∀ x ∈ l, ∃ y, f x = .ok y) →
      ∃ l', l.mapM f = .ok l' ∧ l'.length = l.length ∧
        ∀ (i : Nat) x, l[i]? = some x → ∃ y, f x = .ok y ∧ l'[i]? = some y
  | [], _ => ⟨[], rfl, rfl, by intro i x h; simp at h⟩
  | a :: as, h => by
    obtain ⟨y, hy⟩ := h a (by simp)
    obtain ⟨ys, hys, hlen, hpt⟩ := mapM_pointwise f as (fun x hx => h x (by simp [hx]))
    refine ⟨y :: ys, ?_, by simp [hlen], ?_⟩
    · rw [List.mapM_cons]; simp [hy, hys, bind, Except.bind, pure, Except.pure]
    · intro i x hi
      cases i with
      | zero => simp at hi; subst hi; exact ⟨y, hy, by simp⟩
      | succ j => simp at hi; obtain ⟨y', h1, h2⟩ := hpt j x hi; exact ⟨y', h1, by simpa using h2⟩

/-- `for x in d[key]: f(x)` entry by entry -/
theorem forEachIn_pointwise (d : Dict) (key : String) (f : Dict → PyR Dict) (l : List J)
    (hget : d.get? key = some (.arr l)) (hf : ∀ ej ∈ l, ∃ e r, ej = J.obj e ∧ f e = .ok r) :
    ∃ l', forEachIn d key f = .ok (d.set key (.arr l')) ∧ l'.length = l.length ∧
      ∀ (i : Nat) e, l[i]? = some (J.obj e) → ∃ r, f e = .ok r ∧ l'[i]? = some (J.obj r) := by
  obtain ⟨l', hm, hlen, hpt⟩ := mapM_pointwise (fun e => do return J.obj (← f (← asObj e))) l (by
    intro ej hej
    obtain ⟨e, r, rfl, hr⟩ := hf ej hej
    exact ⟨J.obj r, by simp [asObj, hr, bind, Except.bind, pure, Except.pure]⟩)
  have hm' := hm
  simp only [bind, Except.bind, pure, Except.pure] at hm'
  refine ⟨l', by simp only [forEachIn, Dict.get, hget, asArr, bind, Except.bind, pure, Except.pure, hm'], hlen, ?_⟩
  intro i e hi
  obtain ⟨y, hy, hy'⟩ := hpt i _ hi
  obtain ⟨ej, hmem⟩ : ∃ ej, ej = J.obj e := ⟨_, rfl⟩
  obtain ⟨e0, r, he0, hr⟩ := hf (J.obj e) (List.mem_of_getElem? hi)
  cases he0
  simp only [asObj, hr, bind, Except.bind, pure, Except.pure, Except.ok.injEq] at hy
  exact ⟨r, hr, by rw [hy', ← hy]⟩

/-- **`forEachIn_congr`**: if every entry `e` of `d[key]` makes the round trip `f` then `g` with
`R e e'`, the document makes the round trip with the same list length, every entry related to its
image at the same position, and every other member untouched. -/
theorem forEachIn_roundtrip (d : Dict) (key : String) (f g : Dict → PyR Dict) (l : List J) (R : Dict → Dict → Prop)
    (hget : d.get? key = some (.arr l))
    (h : ∀ ej ∈ l, ∃ e y q, ej = J.obj e ∧ f e = .ok y ∧ g y = .ok q ∧ R e q) :
    ∃ y q l', forEachIn d key f = .ok y ∧ forEachIn y key g = .ok q ∧
      q.get? key = some (.arr l') ∧ l'.length = l.length ∧ (∀ k, k ≠ key → q.get? k = d.get? k) ∧
      ∀ (i : Nat) e, l[i]? = some (J.obj e) → ∃ e', l'[i]? = some (J.obj e') ∧ R e e' := by
  obtain ⟨l1, h1, len1, pt1⟩ := forEachIn_pointwise d key f l hget (fun ej hej => by
    obtain ⟨e, y, _, rfl, hy, _, _⟩ := h ej hej; exact ⟨e, y, rfl, hy⟩)
  have hget1 : (d.set key (.arr l1)).get? key = some (.arr l1) := Dict.get?_set_same _ _ _
  have hg : ∀ yj ∈ l1, ∃ y q, yj = J.obj y ∧ g y = .ok q := by
    intro yj hyj
    obtain ⟨i, hi⟩ := List.getElem?_of_mem hyj
    have hil : i < l.length := by
      have := (List.getElem?_eq_some_iff.1 hi).1; omega
    have hli : l[i]? = some l[i] := List.getElem?_eq_getElem hil
    obtain ⟨e, y, q, he, hy, hq, _⟩ := h l[i] (List.getElem_mem hil)
    rw [he] at hli
    obtain ⟨r, hr, hr'⟩ := pt1 i e hli
    rw [hy] at hr; cases hr
    rw [hi] at hr'; cases hr'
    exact ⟨y, q, rfl, hq⟩
  obtain ⟨l2, h2, len2, pt2⟩ := forEachIn_pointwise (d.set key (.arr l1)) key g l1 hget1 hg
  refine ⟨_, _, l2, h1, h2, Dict.get?_set_same _ _ _, by omega, ?_, ?_⟩
  · intro k hk
    rw [Dict.get?_set_other _ _ _ _ (Ne.symm hk), Dict.get?_set_other _ _ _ _ (Ne.symm hk)]
  · intro i e hi
    obtain ⟨e0, y, q, he, hy, hq, hR⟩ := h (J.obj e) (List.mem_of_getElem? hi)
    cases he
    obtain ⟨r, hr, hr'⟩ := pt1 i e hi
    rw [hy] at hr; cases hr
    obtain ⟨r2, hr2, hr2'⟩ := pt2 i y hr'
    rw [hq] at hr2; cases hr2
    exact ⟨q, hr2', hR⟩

end Gnpy.Yang
