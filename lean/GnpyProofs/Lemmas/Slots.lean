import Mathlib.Data.List.Forall2
import GnpyModel.Slots
import GnpyProofs.Lemmas.PyList
/- Helper lemmas for C14/C15: specification view of a `Bitmap` (cell at an ITU index, range marking) and what the
   transliterated operations of GnpyModel/Slots.lean do in that view. Core Lean only. -/
namespace Gnpy.Slots
open Gnpy.Py

/-- the cell recorded for ITU slot index `x` (`none` outside the map) -/
def Bitmap.cellAt (b : Bitmap) (x : Int) : Option Cell :=
  if b.nMin ≤ x then b.cells[(x - b.nMin).toNat]? else none

/-- the index list is the contiguous range `n_min … n_max` and there is one cell per index -/
def Bitmap.WF (b : Bitmap) : Prop :=
  b.freqIndex = intRange b.nMin (b.nMax + 1) ∧ b.cells.length = b.freqIndex.length

/-- specification of an assignment: the cells with index in `[lo, hi]` become occupied -/
def Bitmap.markRange (b : Bitmap) (lo hi : Int) : Bitmap :=
  { b with cells := b.cells.mapIdx (fun k c => if lo ≤ b.nMin + (k : Int) ∧ b.nMin + (k : Int) ≤ hi then Cell.occupied else c) }

theorem Bitmap.cellAt_markRange (b : Bitmap) (lo hi x : Int) :
    (b.markRange lo hi).cellAt x = (b.cellAt x).map (fun c => if lo ≤ x ∧ x ≤ hi then Cell.occupied else c) := by
  unfold Bitmap.cellAt Bitmap.markRange
  by_cases h : b.nMin ≤ x
  · simp only [h, if_true, List.getElem?_mapIdx]
    rw [show b.nMin + ((x - b.nMin).toNat : Int) = x by omega]
  · simp [h]

theorem Bitmap.WF_markRange (b : Bitmap) (lo hi : Int) (h : b.WF) : (b.markRange lo hi).WF := by
  unfold Bitmap.WF Bitmap.markRange at *
  simpa using h

theorem Bitmap.cellAt_lt (b : Bitmap) (h : b.WF) (x : Int) (c : Cell) (hx : b.cellAt x = some c) :
    b.nMin ≤ x ∧ x ≤ b.nMax := by
  unfold Bitmap.cellAt at hx
  obtain ⟨h1, h2⟩ := h
  split at hx
  · next hle =>
    have : (x - b.nMin).toNat < b.cells.length := by
      rcases Nat.lt_or_ge (x - b.nMin).toNat b.cells.length with h | h
      · exact h
      · rw [List.getElem?_eq_none h] at hx; simp at hx
    rw [h2, h1, length_intRange] at this
    omega
  · simp at hx

theorem Bitmap.geti_WF (b : Bitmap) (h : b.WF) (n : Int) :
    b.geti n = if b.nMin ≤ n ∧ n ≤ b.nMax then some (n - b.nMin).toNat else none := by
  unfold Bitmap.geti
  rw [h.1, indexOf?_intRange]
  by_cases hc : b.nMin ≤ n ∧ n ≤ b.nMax
  · have : b.nMin ≤ n ∧ n < b.nMax + 1 := by omega
    simp [hc, this]
  · have : ¬ (b.nMin ≤ n ∧ n < b.nMax + 1) := by omega
    simp [hc, this]

theorem Bitmap.length_cells (b : Bitmap) (h : b.WF) : b.cells.length = (b.nMax + 1 - b.nMin).toNat := by
  rw [h.2, h.1, length_intRange]

theorem Bitmap.index?_freqIndex (b : Bitmap) (h : b.WF) (i : Int) (hi : 0 ≤ i) (f : Int)
    (hf : index? b.freqIndex i = some f) : f = b.nMin + i ∧ i < b.cells.length := by
  unfold index? at hf
  have : ¬ i < 0 := by omega
  simp only [this, if_false] at hf
  rw [h.1, getElem?_intRange] at hf
  split at hf
  · next hlt =>
    rw [h.2, h.1, length_intRange]
    simp at hf
    omega
  · simp at hf

/-- what `OMS.assign_spectrum` does on a well-formed map: the five checks, then exactly `[N−M, N+M−1]` is marked -/
theorem assignSpectrum_ok (b b' : Bitmap) (n m : Int) (hwf : b.WF) (h : assignSpectrum b n m = .ok b') :
    0 < m ∧ b.idxMin ≤ n ∧ n ≤ b.idxMax ∧ b.nMin < n - m ∧ n + m - 1 ≤ b.nMax ∧ b' = b.markRange (n - m) (n + m - 1) := by
  unfold assignSpectrum at h
  split at h; · cases h
  split at h; · cases h
  split at h; · cases h
  split at h; · cases h
  split at h; · cases h
  rename_i h1 h2 h3 h4 h5
  rw [Bitmap.geti_WF b hwf, Bitmap.geti_WF b hwf] at h
  have c1 : b.nMin ≤ n - m ∧ n - m ≤ b.nMax := by omega
  have c2 : b.nMin ≤ n + m - 1 ∧ n + m - 1 ≤ b.nMax := by omega
  simp only [c1, c2, and_self, if_true] at h
  refine ⟨by omega, by omega, by omega, by omega, by omega, ?_⟩
  have hb : b' = { b with cells := (sliceAssign b.cells ((n - m - b.nMin).toNat : Int)
      (((n + m - 1 - b.nMin).toNat : Int) + 1) (rep ((n + m - 1) - (n - m) + 1) Cell.occupied)) } := by
    simpa [pure, Except.pure] using h.symm
  rw [hb]
  unfold Bitmap.markRange
  congr 1
  have hlen := Bitmap.length_cells b hwf
  have e : (n + m - 1) - (n - m) + 1 = (((n + m - 1 - b.nMin).toNat : Int) - ((n - m - b.nMin).toNat : Int)) + 1 := by omega
  rw [e]
  apply List.ext_getElem?
  intro k
  rw [getElem?_sliceAssign_rep _ _ _ _ (by omega) (by omega), List.getElem?_mapIdx]
  by_cases hk : k < b.cells.length
  · rw [List.getElem?_eq_getElem hk]
    simp only [Option.map_some]
    by_cases hc : (n - m - b.nMin).toNat ≤ k ∧ k ≤ (n + m - 1 - b.nMin).toNat
    · have : n - m ≤ b.nMin + (k : Int) ∧ b.nMin + (k : Int) ≤ n + m - 1 := by omega
      rw [if_pos hc, if_pos this]
    · have : ¬ (n - m ≤ b.nMin + (k : Int) ∧ b.nMin + (k : Int) ≤ n + m - 1) := by omega
      rw [if_neg hc, if_neg this]
  · have hk' : b.cells.length ≤ k := by omega
    rw [List.getElem?_eq_none hk']
    have : ¬ ((n - m - b.nMin).toNat ≤ k ∧ k ≤ (n + m - 1 - b.nMin).toNat) := by omega
    rw [if_neg this]; rfl

/-- conversely the five checks suffice -/
theorem assignSpectrum_of (b : Bitmap) (n m : Int) (hwf : b.WF) (h1 : 0 < m) (h2 : b.idxMin ≤ n) (h3 : n ≤ b.idxMax)
    (h4 : b.nMin < n - m) (h5 : n + m - 1 ≤ b.nMax) : ∃ b', assignSpectrum b n m = .ok b' := by
  unfold assignSpectrum
  have e1 : ¬ m ≤ 0 := by omega
  have e2 : ¬ n > b.idxMax := by omega
  have e3 : ¬ n < b.idxMin := by omega
  have e4 : ¬ n + m - 1 > b.nMax := by omega
  have e5 : ¬ n - m ≤ b.nMin := by omega
  simp only [e1, e2, e3, e4, e5, if_false]
  rw [Bitmap.geti_WF b hwf, Bitmap.geti_WF b hwf]
  have c1 : b.nMin ≤ n - m ∧ n - m ≤ b.nMax := by omega
  have c2 : b.nMin ≤ n + m - 1 ∧ n + m - 1 ≤ b.nMax := by omega
  simp only [c1, c2, and_self, if_true]
  exact ⟨_, rfl⟩

/-- the slots `[n−m, n+m−1]` are all free in `b` and lie inside its guard-band limits -/
def RangeOK (b : Bitmap) (n m : Int) : Prop :=
  b.idxMin ≤ n - m ∧ n + m - 1 ≤ b.idxMax ∧ ∀ x : Int, n - m ≤ x → x ≤ n + m - 1 → b.cellAt x = some Cell.free

/-- two (N, M) assignments do not share a slot -/
def Disj (p q : Int × Int) : Prop := p.1 + p.2 - 1 < q.1 - q.2 ∨ q.1 + q.2 - 1 < p.1 - p.2

theorem Disj.symm {p q : Int × Int} (h : Disj p q) : Disj q p := by
  unfold Disj at *; omega


theorem Bitmap.index?_freqIndex_of (b : Bitmap) (h : b.WF) (i : Int) (hi : 0 ≤ i) (hl : i < b.cells.length) :
    index? b.freqIndex i = some (b.nMin + i) := by
  unfold index?
  have : ¬ i < 0 := by omega
  simp only [this, if_false]
  rw [h.1, getElem?_intRange]
  have hlen := Bitmap.length_cells b h
  have : i.toNat < (b.nMax + 1 - b.nMin).toNat := by omega
  simp only [this, if_true]
  congr 1; omega

theorem RangeOK.inGrid {b : Bitmap} {n m : Int} (hwf : b.WF) (hm : 0 < m) (h : RangeOK b n m) :
    b.nMin ≤ n - m ∧ n + m - 1 ≤ b.nMax := by
  obtain ⟨_, _, hc⟩ := h
  have h1 := Bitmap.cellAt_lt b hwf _ _ (hc (n - m) (by omega) (by omega))
  have h2 := Bitmap.cellAt_lt b hwf _ _ (hc (n + m - 1) (by omega) (by omega))
  omega

/-- the availability test around a centre -/
theorem centredFree_true (b : Bitmap) (hwf : b.WF) (c : Nat) (i : Int) (hi : 0 < i)
    (h : centredFree b c i = .ok true) : RangeOK b (b.nMin + c) i := by
  unfold centredFree at h
  split at h
  · next hs =>
    rw [show (c : Int) + i = ((c : Int) - i) + 2 * i by omega] at hs
    obtain ⟨ha, hak, hcells⟩ := slice_eq_rep _ _ _ _ (by omega) (by omega) hs
    split at h
    · cases h
    · next fa hfa =>
      obtain ⟨hfa1, _⟩ := Bitmap.index?_freqIndex b hwf _ ha _ hfa
      split at h
      · split at h
        · cases h
        · next fb hfb =>
          obtain ⟨hfb1, _⟩ := Bitmap.index?_freqIndex b hwf _ (by omega) _ hfb
          have hle : fb ≤ b.idxMax := by simpa [pure, Except.pure] using h
          refine ⟨by omega, by omega, ?_⟩
          intro x hx1 hx2
          unfold Bitmap.cellAt
          have : b.nMin ≤ x := by omega
          simp only [this, if_true]
          exact hcells (x - b.nMin) (by omega) (by omega)
      · cases h
  · cases h

theorem centredFree_of (b : Bitmap) (hwf : b.WF) (c : Nat) (i : Int) (hi : 0 < i) (h : RangeOK b (b.nMin + c) i) :
    centredFree b c i = .ok true := by
  obtain ⟨h1, h2, hc⟩ := h
  obtain ⟨g1, g2⟩ := RangeOK.inGrid hwf hi ⟨h1, h2, hc⟩
  have hlen := Bitmap.length_cells b hwf
  unfold centredFree
  have hs : slice b.cells ((c : Int) - i) ((c : Int) + i) = rep (2 * i) Cell.free := by
    rw [show (c : Int) + i = ((c : Int) - i) + 2 * i by omega]
    apply slice_eq_rep_of _ _ _ _ (by omega) (by omega) (by omega)
    intro j hj1 hj2
    have := hc (b.nMin + j) (by omega) (by omega)
    unfold Bitmap.cellAt at this
    have hh : b.nMin ≤ b.nMin + j := by omega
    simp only [hh, if_true] at this
    rwa [show b.nMin + j - b.nMin = j by omega] at this
  rw [if_pos hs, Bitmap.index?_freqIndex_of b hwf _ (by omega) (by omega)]
  simp only
  have e1 : b.nMin + ((c : Int) - i) ≥ b.idxMin := by omega
  rw [if_pos e1, Bitmap.index?_freqIndex_of b hwf _ (by omega) (by omega)]
  simp only
  have e2 : b.nMin + ((c : Int) + i - 1) ≤ b.idxMax := by omega
  simp [e2, pure, Except.pure]

/-- one element of the candidate comprehension, soundness -/
theorem candAt_some (b : Bitmap) (hwf : b.WF) (m : Int) (hm : 0 < m) (i : Nat) (n : Int)
    (h : candAt b m i = .ok (some n)) : n = b.nMin + i + m ∧ RangeOK b n m := by
  unfold candAt at h
  split at h
  · next hs =>
    obtain ⟨ha, hak, hcells⟩ := slice_eq_rep _ _ _ _ (by omega) (by omega) hs
    split at h
    · cases h
    · next fa hfa =>
      obtain ⟨hfa1, _⟩ := Bitmap.index?_freqIndex b hwf _ ha _ hfa
      split at h
      · split at h
        · cases h
        · next fb hfb =>
          obtain ⟨hfb1, _⟩ := Bitmap.index?_freqIndex b hwf _ (by omega) _ hfb
          split at h
          · next hle =>
            have hn : fa + m = n := by simpa [pure, Except.pure] using h
            refine ⟨by omega, by omega, by omega, ?_⟩
            intro x hx1 hx2
            unfold Bitmap.cellAt
            have : b.nMin ≤ x := by omega
            simp only [this, if_true]
            exact hcells (x - b.nMin) (by omega) (by omega)
          · cases h
      · cases h
  · cases h

/-- one element of the candidate comprehension, completeness -/
theorem candAt_of (b : Bitmap) (hwf : b.WF) (m : Int) (hm : 0 < m) (i : Nat) (h : RangeOK b (b.nMin + i + m) m) :
    candAt b m i = .ok (some (b.nMin + i + m)) := by
  obtain ⟨h1, h2, hc⟩ := h
  obtain ⟨g1, g2⟩ := RangeOK.inGrid hwf hm ⟨h1, h2, hc⟩
  have hlen := Bitmap.length_cells b hwf
  unfold candAt
  have hs : slice b.cells (i : Int) ((i : Int) + 2 * m) = rep (2 * m) Cell.free := by
    apply slice_eq_rep_of _ _ _ _ (by omega) (by omega) (by omega)
    intro j hj1 hj2
    have := hc (b.nMin + j) (by omega) (by omega)
    unfold Bitmap.cellAt at this
    have hh : b.nMin ≤ b.nMin + j := by omega
    simp only [hh, if_true] at this
    rwa [show b.nMin + j - b.nMin = j by omega] at this
  rw [if_pos hs, Bitmap.index?_freqIndex_of b hwf _ (by omega) (by omega)]
  simp only
  have e1 : b.nMin + (i : Int) ≥ b.idxMin := by omega
  rw [if_pos e1, Bitmap.index?_freqIndex_of b hwf _ (by omega) (by omega)]
  simp only
  have e2 : b.nMin + ((i : Int) + 2 * m - 1) ≤ b.idxMax := by omega
  rw [if_pos e2]
  rfl

theorem candidates_mem (b : Bitmap) (m : Int) (is : List Nat) (c : List Int) (n : Int)
    (h : candidates b m is = .ok c) (hn : n ∈ c) : ∃ i ∈ is, candAt b m i = .ok (some n) := by
  induction is generalizing c with
  | nil =>
    have : c = [] := by simpa [candidates, pure, Except.pure] using h.symm
    subst this; cases hn
  | cons i is ih =>
    simp only [candidates, bind, Except.bind] at h
    cases h1 : candAt b m i with
    | error e => rw [h1] at h; cases h
    | ok o =>
      rw [h1] at h
      cases h2 : candidates b m is with
      | error e => rw [h2] at h; cases h
      | ok r =>
        rw [h2] at h
        cases o with
        | none =>
          have : c = r := by simpa [pure, Except.pure] using h.symm
          subst this
          obtain ⟨j, hj, hc⟩ := ih c h2 hn
          exact ⟨j, List.mem_cons_of_mem _ hj, hc⟩
        | some x =>
          have : c = x :: r := by simpa [pure, Except.pure] using h.symm
          subst this
          rcases List.mem_cons.1 hn with rfl | hn
          · exact ⟨i, List.mem_cons_self, h1⟩
          · obtain ⟨j, hj, hc⟩ := ih r h2 hn
            exact ⟨j, List.mem_cons_of_mem _ hj, hc⟩

/-- the first candidate comes from the first position that qualifies -/
theorem candidates_head (b : Bitmap) (m : Int) (is : List Nat) (x : Int) (xs : List Int)
    (h : candidates b m is = .ok (x :: xs)) :
    ∃ pre i post, is = pre ++ i :: post ∧ candAt b m i = .ok (some x) ∧ ∀ j ∈ pre, candAt b m j = .ok none := by
  induction is with
  | nil => simp [candidates, pure, Except.pure] at h
  | cons i is ih =>
    simp only [candidates, bind, Except.bind] at h
    cases h1 : candAt b m i with
    | error e => rw [h1] at h; cases h
    | ok o =>
      rw [h1] at h
      cases h2 : candidates b m is with
      | error e => rw [h2] at h; cases h
      | ok r =>
        rw [h2] at h
        cases o with
        | none =>
          have : r = x :: xs := by simpa [pure, Except.pure] using h
          subst this
          obtain ⟨pre, j, post, e, hc, hp⟩ := ih h2
          refine ⟨i :: pre, j, post, by simp [e], hc, ?_⟩
          intro k hk
          rcases List.mem_cons.1 hk with rfl | hk
          · exact h1
          · exact hp k hk
        | some y =>
          have : y = x ∧ r = xs := by simpa [pure, Except.pure] using h
          obtain ⟨rfl, rfl⟩ := this
          exact ⟨[], i, is, rfl, h1, by simp⟩

theorem selectCandidate_mem (c : List Int) (pol : Policy) (n : Int) (h : selectCandidate c pol = .ok (some n)) : n ∈ c := by
  unfold selectCandidate at h
  cases c with
  | nil => simp [pure, Except.pure] at h
  | cons x xs =>
    cases pol with
    | firstFit =>
      have : x = n := by simpa [pure, Except.pure] using h
      subst this; exact List.mem_cons_self
    | lastFit =>
      have : (x :: xs).getLast?.getD x = n := by simpa [pure, Except.pure] using h
      rw [← this]
      cases hl : (x :: xs).getLast? with
      | none => simp
      | some y => simpa using List.mem_of_getLast? hl
    | other => cases h

/-- `spectrum_selection` (free N): the returned centre is free and inside the guard bands, whatever the policy -/
theorem spectrumSelection_sound (b : Bitmap) (hwf : b.WF) (m : Int) (hm : 0 < m) (pol : Policy) (n : Int)
    (h : spectrumSelection b m pol = .ok (some n)) : RangeOK b n m := by
  simp only [spectrumSelection, bind, Except.bind] at h
  cases h1 : candidates b m (List.range b.cells.length) with
  | error e => rw [h1] at h; cases h
  | ok c =>
    rw [h1] at h
    obtain ⟨i, _, hi⟩ := candidates_mem b m _ c n h1 (selectCandidate_mem c pol n h)
    exact (candAt_some b hwf m hm i n hi).2

/-- first fit: no feasible position below the returned one -/
theorem spectrumSelection_first (b : Bitmap) (hwf : b.WF) (m : Int) (hm : 0 < m) (n : Int)
    (h : spectrumSelection b m Policy.firstFit = .ok (some n)) :
    ∀ n' : Int, n' < n → ¬ RangeOK b n' m := by
  simp only [spectrumSelection, bind, Except.bind] at h
  cases h1 : candidates b m (List.range b.cells.length) with
  | error e => rw [h1] at h; cases h
  | ok c =>
    rw [h1] at h
    cases c with
    | nil => simp [selectCandidate, pure, Except.pure] at h
    | cons x xs =>
      have hx : x = n := by simpa [selectCandidate, pure, Except.pure] using h
      subst hx
      obtain ⟨pre, i, post, e, hc, hp⟩ := candidates_head b m _ x xs h1
      obtain ⟨hxi, _⟩ := candAt_some b hwf m hm i x hc
      intro n' hlt hok
      obtain ⟨g1, g2⟩ := RangeOK.inGrid hwf hm hok
      -- position of n' in the map
      have hj : (n' - m - b.nMin).toNat < i := by omega
      have hpre : pre.length = i := by
        have := congrArg (fun l => l[pre.length]?) e
        simp only [List.getElem?_append_right (Nat.le_refl _), Nat.sub_self, List.getElem?_cons_zero] at this
        obtain ⟨_, he⟩ := List.getElem?_eq_some_iff.1 this
        simpa using he
      have hL : pre.length < b.cells.length := by
        have := congrArg List.length e
        simp at this; omega
      have hjpre : (n' - m - b.nMin).toNat ∈ pre := by
        have hjl : (n' - m - b.nMin).toNat < pre.length := by omega
        have := congrArg (fun l => l[(n' - m - b.nMin).toNat]?) e
        simp only [List.getElem?_append_left hjl] at this
        rw [List.getElem?_range (by omega)] at this
        exact List.mem_of_getElem? this.symm
      have hnone := hp _ hjpre
      have hsome := candAt_of b hwf m hm (n' - m - b.nMin).toNat
        (by rwa [show b.nMin + ((n' - m - b.nMin).toNat : Int) + m = n' by omega])
      rw [hsome] at hnone; cases hnone

theorem candidates_nil (b : Bitmap) (m : Int) (is : List Nat) (h : candidates b m is = .ok []) :
    ∀ j ∈ is, candAt b m j = .ok none := by
  induction is with
  | nil => intro j hj; cases hj
  | cons i is ih =>
    simp only [candidates, bind, Except.bind] at h
    cases h1 : candAt b m i with
    | error e => rw [h1] at h; cases h
    | ok o =>
      rw [h1] at h
      cases h2 : candidates b m is with
      | error e => rw [h2] at h; cases h
      | ok r =>
        rw [h2] at h
        cases o with
        | none =>
          have : r = [] := by simpa [pure, Except.pure] using h
          subst this
          intro j hj
          rcases List.mem_cons.1 hj with rfl | hj
          · exact h1
          · exact ih h2 j hj
        | some y => simp [pure, Except.pure] at h

/-- the last candidate comes from the last position that qualifies -/
theorem candidates_last (b : Bitmap) (m : Int) (is : List Nat) (c : List Int) (x : Int)
    (h : candidates b m is = .ok c) (hx : c.getLast? = some x) :
    ∃ pre i post, is = pre ++ i :: post ∧ candAt b m i = .ok (some x) ∧ ∀ j ∈ post, candAt b m j = .ok none := by
  induction is generalizing c with
  | nil =>
    have : c = [] := by simpa [candidates, pure, Except.pure] using h.symm
    subst this; cases hx
  | cons i is ih =>
    simp only [candidates, bind, Except.bind] at h
    cases h1 : candAt b m i with
    | error e => rw [h1] at h; cases h
    | ok o =>
      rw [h1] at h
      cases h2 : candidates b m is with
      | error e => rw [h2] at h; cases h
      | ok r =>
        rw [h2] at h
        cases o with
        | none =>
          have : c = r := by simpa [pure, Except.pure] using h.symm
          subst this
          obtain ⟨pre, j, post, e, hc, hp⟩ := ih c h2 hx
          exact ⟨i :: pre, j, post, by simp [e], hc, hp⟩
        | some y =>
          have : c = y :: r := by simpa [pure, Except.pure] using h.symm
          subst this
          cases r with
          | nil =>
            have : y = x := by simpa using hx
            subst this
            exact ⟨[], i, is, rfl, h1, candidates_nil b m is h2⟩
          | cons z zs =>
            have hx' : (z :: zs).getLast? = some x := by
              rw [List.getLast?_cons_cons] at hx; exact hx
            obtain ⟨pre, j, post, e, hc, hp⟩ := ih (z :: zs) h2 hx'
            exact ⟨i :: pre, j, post, by simp [e], hc, hp⟩

/-- last fit: no feasible position above the returned one -/
theorem spectrumSelection_last (b : Bitmap) (hwf : b.WF) (m : Int) (hm : 0 < m) (n : Int)
    (h : spectrumSelection b m Policy.lastFit = .ok (some n)) :
    ∀ n' : Int, n < n' → ¬ RangeOK b n' m := by
  simp only [spectrumSelection, bind, Except.bind] at h
  cases h1 : candidates b m (List.range b.cells.length) with
  | error e => rw [h1] at h; cases h
  | ok c =>
    rw [h1] at h
    cases c with
    | nil => simp [selectCandidate, pure, Except.pure] at h
    | cons x xs =>
      have hx : (x :: xs).getLast? = some n := by
        have : (x :: xs).getLast?.getD x = n := by simpa [selectCandidate, pure, Except.pure] using h
        cases hl : (x :: xs).getLast? with
        | none => simp at hl
        | some y => rw [hl] at this; simpa using congrArg some this
      obtain ⟨pre, i, post, e, hc, hp⟩ := candidates_last b m _ _ n h1 hx
      obtain ⟨hxi, _⟩ := candAt_some b hwf m hm i n hc
      intro n' hlt hok
      obtain ⟨g1, g2⟩ := RangeOK.inGrid hwf hm hok
      have hlen := Bitmap.length_cells b hwf
      have hpre : pre.length = i := by
        have := congrArg (fun l => l[pre.length]?) e
        simp only [List.getElem?_append_right (Nat.le_refl _), Nat.sub_self, List.getElem?_cons_zero] at this
        obtain ⟨_, he⟩ := List.getElem?_eq_some_iff.1 this
        simpa using he
      have hL : pre.length + 1 + post.length = b.cells.length := by
        have := congrArg List.length e
        simp at this; omega
      have hjpost : (n' - m - b.nMin).toNat ∈ post := by
        have hjl : pre.length + 1 ≤ (n' - m - b.nMin).toNat := by omega
        have := congrArg (fun l => l[(n' - m - b.nMin).toNat]?) e
        beta_reduce at this
        rw [List.getElem?_range (by omega), List.getElem?_append_right (by omega),
          show (n' - m - b.nMin).toNat - pre.length = ((n' - m - b.nMin).toNat - pre.length - 1) + 1 by omega,
          List.getElem?_cons_succ] at this
        exact List.mem_of_getElem? this.symm
      have hnone := hp _ hjpost
      have hsome := candAt_of b hwf m hm (n' - m - b.nMin).toNat
        (by rwa [show b.nMin + ((n' - m - b.nMin).toNat : Int) + m = n' by omega])
      rw [hsome] at hnone; cases hnone

/-- the `while` of `determine_slot_numbers`: the result is either "nothing" (start − step) or a width that passed the test -/
theorem dsnLoop_spec (b : Bitmap) (c : Nat) (req pcm : Int) :
    ∀ (fuel : Nat) (i r : Int), dsnLoop b c req pcm fuel i = .ok r → r = i - pcm ∨ centredFree b c r = .ok true := by
  intro fuel
  induction fuel with
  | zero => intro i r h; simp [dsnLoop] at h
  | succ fuel ih =>
    intro i r h
    simp only [dsnLoop, bind, Except.bind] at h
    cases hc : centredFree b c i with
    | error e => rw [hc] at h; cases h
    | ok v =>
      rw [hc] at h
      cases v with
      | false =>
        left
        simpa [pure, Except.pure] using h.symm
      | true =>
        simp only [if_true] at h
        split at h
        · rcases ih _ _ h with h' | h'
          · right
            have : r = i := by omega
            rw [this]; exact hc
          · right; exact h'
        · left
          simpa [pure, Except.pure] using h.symm

theorem dsnLoop_first (b : Bitmap) (c : Nat) (req pcm : Int) (fuel : Nat) (i r : Int)
    (h : dsnLoop b c req pcm (fuel + 1) i = .ok r) (hr : r ≠ i - pcm) : centredFree b c i = .ok true := by
  simp only [dsnLoop, bind, Except.bind] at h
  cases hc : centredFree b c i with
  | error e => rw [hc] at h; cases h
  | ok v =>
    rw [hc] at h
    cases v with
    | false =>
      exfalso; apply hr
      simpa [pure, Except.pure] using h.symm
    | true => rfl

theorem determineSlotNumbers_geti (b : Bitmap) (hwf : b.WF) (n req pcm r : Int)
    (h : determineSlotNumbers b n req pcm = .ok r) :
    r = 0 ∨ ∃ c : Nat, b.nMin + (c : Int) = n ∧ dsnLoop b c req pcm (b.cells.length + 1 + 1) pcm = .ok r := by
  unfold determineSlotNumbers at h
  have hg := Bitmap.geti_WF b hwf n
  cases hgi : b.geti n with
  | none =>
    rw [hgi] at h
    left
    simpa [pure, Except.pure] using h.symm
  | some c =>
    rw [hgi] at h
    rw [hgi] at hg
    split at hg
    · next hin =>
      have : c = (n - b.nMin).toNat := by simpa using hg
      exact Or.inr ⟨c, by omega, h⟩
    · cases hg

theorem determineSlotNumbers_pos (b : Bitmap) (hwf : b.WF) (n req pcm r : Int)
    (h : determineSlotNumbers b n req pcm = .ok r) (hr : 0 < r) : RangeOK b n r := by
  rcases determineSlotNumbers_geti b hwf n req pcm r h with h0 | ⟨c, hc, hl⟩
  · omega
  rcases dsnLoop_spec b c req pcm _ _ _ hl with h' | h'
  · omega
  · have := centredFree_true b hwf c r hr h'
    rwa [hc] at this

theorem determineSlotNumbers_fixed (b : Bitmap) (hwf : b.WF) (n m av : Int)
    (h : determineSlotNumbers b n m m = .ok av) (hav : av ≠ 0) (hm : 0 < m) : RangeOK b n m := by
  rcases determineSlotNumbers_geti b hwf n m m av h with h0 | ⟨c, hc, hl⟩
  · exact absurd h0 hav
  have := dsnLoop_first b c m m _ m av hl (by omega)
  have := centredFree_true b hwf c m hm this
  rwa [hc] at this

/-- a returned pair carries the user's N (resp. M) unchanged -/
def Honoured (e : Entry) (nm : Int × Int) : Prop := (∀ n, e.n = some n → nm.1 = n) ∧ (∀ m, e.m = some m → nm.2 = m)

theorem selectOne_sound (t : Bitmap) (hwf : t.WF) (e : Entry) (rem pcm : Int) (pol : Policy) (n m : Int)
    (h : selectOne t e rem pcm pol = .ok (some (n, m))) (hm : 0 < m) : RangeOK t n m ∧ Honoured e (n, m) := by
  unfold selectOne at h
  split at h
  · next m0 n0 hem hen =>
    simp only [bind, Except.bind] at h
    cases hd : determineSlotNumbers t n0 m0 m0 with
    | error err => rw [hd] at h; cases h
    | ok av =>
      rw [hd] at h
      simp only at h
      split at h
      · cases h
      · next hav =>
        have : n0 = n ∧ m0 = m := by simpa [pure, Except.pure] using h
        obtain ⟨rfl, rfl⟩ := this
        exact ⟨determineSlotNumbers_fixed t hwf _ _ av hd hav hm, by simp [Honoured, hem, hen]⟩
  · next m0 hem hen =>
    simp only [bind, Except.bind] at h
    cases hd : spectrumSelection t m0 pol with
    | error err => rw [hd] at h; cases h
    | ok o =>
      rw [hd] at h
      cases o with
      | none => cases h
      | some n0 =>
        have : n0 = n ∧ m0 = m := by simpa [pure, Except.pure] using h
        obtain ⟨rfl, rfl⟩ := this
        exact ⟨spectrumSelection_sound t hwf _ hm pol _ hd, by simp [Honoured, hem, hen]⟩
  · next n0 hem hen =>
    simp only [bind, Except.bind] at h
    cases hd : determineSlotNumbers t n0 rem pcm with
    | error err => rw [hd] at h; cases h
    | ok r =>
      rw [hd] at h
      simp only at h
      split at h
      · cases h
      · have : n0 = n ∧ r = m := by simpa [pure, Except.pure] using h
        obtain ⟨rfl, rfl⟩ := this
        exact ⟨determineSlotNumbers_pos t hwf _ _ _ _ hd hm, by simp [Honoured, hem, hen]⟩
  · next hem hen =>
    split at h
    · cases h
    · simp only [bind, Except.bind] at h
      cases hd : spectrumSelection t rem pol with
      | error err => rw [hd] at h; cases h
      | ok o =>
        rw [hd] at h
        cases o with
        | none => cases h
        | some n0 =>
          have : n0 = n ∧ rem = m := by simpa [pure, Except.pure] using h
          obtain ⟨rfl, rfl⟩ := this
          exact ⟨spectrumSelection_sound t hwf _ hm pol _ hd, by simp [Honoured, hem, hen]⟩

theorem RangeOK_markRange (t : Bitmap) (n0 m0 n m : Int) (hm0 : 0 < m0) (hm : 0 < m)
    (h : RangeOK (t.markRange (n0 - m0) (n0 + m0 - 1)) n m) : RangeOK t n m ∧ Disj (n0, m0) (n, m) := by
  obtain ⟨h1, h2, hc⟩ := h
  have h1 : t.idxMin ≤ n - m := h1
  have h2 : n + m - 1 ≤ t.idxMax := h2
  have hfree : ∀ x : Int, n - m ≤ x → x ≤ n + m - 1 → t.cellAt x = some Cell.free ∧ ¬ (n0 - m0 ≤ x ∧ x ≤ n0 + m0 - 1) := by
    intro x hx1 hx2
    have := hc x hx1 hx2
    rw [Bitmap.cellAt_markRange] at this
    cases hcx : t.cellAt x with
    | none => rw [hcx] at this; simp at this
    | some v =>
      rw [hcx] at this
      simp only [Option.map_some, Option.some.injEq] at this
      by_cases hin : n0 - m0 ≤ x ∧ x ≤ n0 + m0 - 1
      · rw [if_pos hin] at this; cases this
      · rw [if_neg hin] at this; exact ⟨by rw [this], hin⟩
  refine ⟨⟨h1, h2, fun x a b => (hfree x a b).1⟩, ?_⟩
  unfold Disj
  simp only
  refine Classical.byContradiction fun hcon => ?_
  rcases Int.le_total (n0 - m0) (n - m) with hle | hle
  · have := (hfree (n - m) (by omega) (by omega)).2
    omega
  · have := (hfree (n0 - m0) (by omega) (by omega)).2
    omega

/-- invariant of the selection loop of `compute_n_m` on the test bitmap -/
theorem nmLoop_spec (pcm : Int) (pol : Policy) :
    ∀ (es : List Entry) (t : Bitmap) (rem : Int) (sel : List (Int × Int)) (r : Int), t.WF →
      nmLoop pcm pol t rem es = .ok (sel, r) →
      r = rem - sumInt (sel.map (·.2)) ∧
      (∀ nm ∈ sel, 0 < nm.2 ∧ RangeOK t nm.1 nm.2 ∧ t.nMin < nm.1 - nm.2 ∧ nm.1 + nm.2 - 1 ≤ t.nMax) ∧
      sel.Pairwise Disj ∧
      List.Forall₂ Honoured (es.take sel.length) sel := by
  intro es
  induction es with
  | nil =>
    intro t rem sel r _ h
    have : sel = [] ∧ r = rem := by
      simp only [nmLoop, pure, Except.pure, Except.ok.injEq, Prod.mk.injEq] at h
      exact ⟨h.1.symm, h.2.symm⟩
    obtain ⟨rfl, rfl⟩ := this
    simp [sumInt]
  | cons e es ih =>
    intro t rem sel r hwf h
    simp only [nmLoop, bind, Except.bind] at h
    cases hs : selectOne t e rem pcm pol with
    | error err => rw [hs] at h; cases h
    | ok o =>
      rw [hs] at h
      cases o with
      | none =>
        have : sel = [] ∧ r = rem := by
          simp only [pure, Except.pure, Except.ok.injEq, Prod.mk.injEq] at h
          exact ⟨h.1.symm, h.2.symm⟩
        obtain ⟨rfl, rfl⟩ := this
        simp [sumInt]
      | some nm =>
        obtain ⟨n, m⟩ := nm
        simp only at h
        cases ha : assignSpectrum t n m with
        | error err => rw [ha] at h; cases h
        | ok t' =>
          rw [ha] at h
          simp only at h
          cases hl : nmLoop pcm pol t' (rem - m) es with
          | error err => rw [hl] at h; cases h
          | ok res =>
            rw [hl] at h
            obtain ⟨sel', r'⟩ := res
            have : sel = (n, m) :: sel' ∧ r = r' := by
              simp only [pure, Except.pure, Except.ok.injEq, Prod.mk.injEq] at h
              exact ⟨h.1.symm, h.2.symm⟩
            obtain ⟨rfl, rfl⟩ := this
            obtain ⟨hm, a1, a2, a3, a4, ht'⟩ := assignSpectrum_ok t t' n m hwf ha
            obtain ⟨hok, hhon⟩ := selectOne_sound t hwf e rem pcm pol n m hs hm
            have hwf' : t'.WF := by rw [ht']; exact Bitmap.WF_markRange _ _ _ hwf
            obtain ⟨i1, i2, i3, i4⟩ := ih t' (rem - m) sel' r hwf' hl
            refine ⟨?_, ?_, ?_, ?_⟩
            · simp only [List.map_cons, sumInt, List.foldr_cons] at i1 ⊢
              omega
            · intro nm hnm
              rcases List.mem_cons.1 hnm with rfl | hnm
              · exact ⟨hm, hok, a3, a4⟩
              · obtain ⟨j1, j2, j3, j4⟩ := i2 nm hnm
                rw [ht'] at j2 j3 j4
                exact ⟨j1, (RangeOK_markRange t n m nm.1 nm.2 hm j1 j2).1, j3, j4⟩
            · refine List.pairwise_cons.2 ⟨?_, i3⟩
              intro nm hnm
              obtain ⟨j1, j2, _, _⟩ := i2 nm hnm
              rw [ht'] at j2
              exact (RangeOK_markRange t n m nm.1 nm.2 hm j1 j2).2
            · simp only [List.length_cons, List.take_succ_cons]
              exact List.Forall₂.cons hhon i4

/-! ### aggregate bitmap of a route -/

theorem getElem?_bitmapSum (a b : List Cell) (i : Nat) :
    (bitmapSum a b)[i]? = some Cell.free ↔ a[i]? = some Cell.free ∧ b[i]? = some Cell.free := by
  unfold bitmapSum
  rw [List.getElem?_zipWith]
  cases ha : a[i]? with
  | none => simp
  | some x =>
    cases hb : b[i]? with
    | none => simp
    | some y =>
      simp only [Option.some.injEq]
      by_cases h : x = Cell.free ∧ y = Cell.free
      · simp [h]
      · rw [if_neg h]
        constructor
        · intro hh; cases hh
        · intro hh; exact absurd hh h

theorem aggCells_spec (s : List Oms) (L : Nat) (hL : ∀ o ∈ s, o.bm.cells.length = L) :
    ∀ (os : List Nat) (acc r : List Cell), acc.length = L → aggCells s os acc = .ok r →
      r.length = L ∧ (∀ k ∈ os, ∃ o, s[k]? = some o) ∧
      ∀ i : Nat, r[i]? = some Cell.free ↔
        (acc[i]? = some Cell.free ∧ ∀ k ∈ os, ∀ o, s[k]? = some o → o.bm.cells[i]? = some Cell.free) := by
  intro os
  induction os with
  | nil =>
    intro acc r hacc h
    have : r = acc := by simpa [aggCells, pure, Except.pure] using h.symm
    subst this
    simp [hacc]
  | cons o os ih =>
    intro acc r hacc h
    unfold aggCells at h
    cases ho : s[o]? with
    | none => rw [ho] at h; cases h
    | some x =>
      rw [ho] at h
      simp only at h
      have hx : x.bm.cells.length = L := hL x (List.mem_of_getElem? ho)
      have hlen : (bitmapSum x.bm.cells acc).length = L := by
        unfold bitmapSum; rw [List.length_zipWith, hx, hacc]; omega
      obtain ⟨i1, i2, i3⟩ := ih _ r hlen h
      refine ⟨i1, ?_, ?_⟩
      · intro k hk
        rcases List.mem_cons.1 hk with rfl | hk
        · exact ⟨x, ho⟩
        · exact i2 k hk
      · intro i
        rw [i3 i, getElem?_bitmapSum]
        constructor
        · rintro ⟨⟨h1, h2⟩, h3⟩
          refine ⟨h2, ?_⟩
          intro k hk y hy
          rcases List.mem_cons.1 hk with rfl | hk
          · rw [ho] at hy; cases hy; exact h1
          · exact h3 k hk y hy
        · rintro ⟨h1, h2⟩
          exact ⟨⟨h2 o List.mem_cons_self x ho, h1⟩, fun k hk y hy => h2 k (List.mem_cons_of_mem _ hk) y hy⟩

theorem frequencyToN_nToFrequency (n : Int) : frequencyToN (nToFrequency n) = n := by
  unfold frequencyToN nToFrequency truncDiv anchorHz defaultGrid
  rw [show (193100000000000 + n * 6250000000 - 193100000000000 : Int) = n * 6250000000 by omega]
  exact Int.mul_tdiv_cancel n (by decide)

/-- guard-band limits of the test bitmap built by `aggregate_oms_bitmap`: recomputed from the first/last slot index -/
def Bitmap.aggIdxMin (b : Bitmap) : Int := frequencyToN (nToFrequency b.nMin + b.guardband)
def Bitmap.aggIdxMax (b : Bitmap) : Int := frequencyToN (nToFrequency b.nMax - b.guardband)

/-- the OMS list as `build_oms_list` leaves it: every map well formed, all maps over the same index range with the same
    guard band, and the limits recomputed by the aggregate are not looser than the recorded ones -/
structure StateWF (s : List Oms) : Prop where
  wf : ∀ o ∈ s, o.bm.WF
  same : ∀ o ∈ s, ∀ o' ∈ s, o.bm.nMin = o'.bm.nMin ∧ o.bm.nMax = o'.bm.nMax ∧ o.bm.guardband = o'.bm.guardband
  guard : ∀ o ∈ s, o.bm.idxMin ≤ o.bm.aggIdxMin ∧ o.bm.aggIdxMax ≤ o.bm.idxMax

theorem aggregate_spec (s : List Oms) (hs : StateWF s) (path : List Nat) (t : Bitmap) (h : aggregate path s = .ok t) :
    path ≠ [] ∧ t.WF ∧ (∀ k ∈ path, ∃ o, s[k]? = some o) ∧
    (∀ k ∈ path, ∀ o, s[k]? = some o → t.nMin = o.bm.nMin ∧ t.nMax = o.bm.nMax ∧ t.idxMin = o.bm.aggIdxMin ∧
      t.idxMax = o.bm.aggIdxMax) ∧
    (∀ x, t.cellAt x = some Cell.free ↔ ∀ k ∈ path, ∀ o, s[k]? = some o → o.bm.cellAt x = some Cell.free) := by
  unfold aggregate at h
  cases path with
  | nil => cases h
  | cons p0 rest =>
    simp only at h
    cases h0 : s[p0]? with
    | none => rw [h0] at h; cases h
    | some o0 =>
      rw [h0] at h
      simp only [bind, Except.bind] at h
      have hm0 : o0 ∈ s := List.mem_of_getElem? h0
      have hL : ∀ o ∈ s, o.bm.cells.length = o0.bm.cells.length := by
        intro o ho
        obtain ⟨e1, e2, _⟩ := hs.same o ho o0 hm0
        rw [Bitmap.length_cells _ (hs.wf o ho), Bitmap.length_cells _ (hs.wf o0 hm0), e1, e2]
      cases hc : aggCells s rest o0.bm.cells with
      | error e => rw [hc] at h; cases h
      | ok cells =>
        rw [hc] at h
        simp only at h
        obtain ⟨c1, c2, c3⟩ := aggCells_spec s _ hL rest _ cells rfl hc
        unfold Bitmap.create at h
        have hg : ¬ defaultGrid = 0 := by decide
        rw [if_neg hg] at h
        simp only [frequencyToN_nToFrequency] at h
        have hlen : cells.length = (intRange o0.bm.nMin (o0.bm.nMax + 1)).length := by
          rw [c1, Bitmap.length_cells _ (hs.wf o0 hm0), length_intRange]
        rw [if_pos hlen] at h
        have ht : t = { nMin := o0.bm.nMin, nMax := o0.bm.nMax,
                        idxMin := frequencyToN (nToFrequency o0.bm.nMin + o0.bm.guardband),
                        idxMax := frequencyToN (nToFrequency o0.bm.nMax - o0.bm.guardband),
                        freqIndex := intRange o0.bm.nMin (o0.bm.nMax + 1), cells := cells,
                        guardband := o0.bm.guardband } := by
          simpa [pure, Except.pure] using h.symm
        have hvalid : ∀ k ∈ p0 :: rest, ∃ o, s[k]? = some o := by
          intro k hk
          rcases List.mem_cons.1 hk with rfl | hk
          · exact ⟨o0, h0⟩
          · exact c2 k hk
        refine ⟨by simp, ?_, hvalid, ?_, ?_⟩
        · rw [ht]; exact ⟨rfl, hlen⟩
        · intro k hk o ho
          obtain ⟨e1, e2, e3⟩ := hs.same o (List.mem_of_getElem? ho) o0 hm0
          rw [ht]
          simp only [Bitmap.aggIdxMin, Bitmap.aggIdxMax, e1, e2, e3, and_self]
        · intro x
          have hcell : ∀ o ∈ s, o.bm.cellAt x = if o0.bm.nMin ≤ x then o.bm.cells[(x - o0.bm.nMin).toNat]? else none := by
            intro o ho
            unfold Bitmap.cellAt
            rw [(hs.same o ho o0 hm0).1]
          have htc : t.cellAt x = if o0.bm.nMin ≤ x then cells[(x - o0.bm.nMin).toNat]? else none := by
            rw [ht]; rfl
          rw [htc]
          by_cases hx : o0.bm.nMin ≤ x
          · simp only [hx, if_true]
            rw [c3]
            constructor
            · rintro ⟨a1, a2⟩ k hk o ho
              rw [hcell o (List.mem_of_getElem? ho)]
              simp only [hx, if_true]
              rcases List.mem_cons.1 hk with rfl | hk
              · rw [h0] at ho; cases ho; exact a1
              · exact a2 k hk o ho
            · intro a
              constructor
              · have := a p0 List.mem_cons_self o0 h0
                rw [hcell o0 hm0] at this
                simpa [hx] using this
              · intro k hk o ho
                have := a k (List.mem_cons_of_mem _ hk) o ho
                rw [hcell o (List.mem_of_getElem? ho)] at this
                simpa [hx] using this
          · simp only [hx, if_false]
            constructor
            · intro a; cases a
            · intro a
              have := a p0 List.mem_cons_self o0 h0
              rw [hcell o0 hm0] at this
              simp [hx] at this

/-! ### applying the selected slots on the OMS of the route -/

/-- all `[N−M, N+M−1]` of a list marked -/
def Bitmap.markAll (b : Bitmap) (sel : List (Int × Int)) : Bitmap :=
  sel.foldl (fun b nm => b.markRange (nm.1 - nm.2) (nm.1 + nm.2 - 1)) b

/-- slot `x` belongs to one of the assignments -/
def covers (sel : List (Int × Int)) (x : Int) : Bool := sel.any (fun nm => decide (nm.1 - nm.2 ≤ x ∧ x ≤ nm.1 + nm.2 - 1))

theorem covers_iff (sel : List (Int × Int)) (x : Int) :
    covers sel x = true ↔ ∃ nm ∈ sel, nm.1 - nm.2 ≤ x ∧ x ≤ nm.1 + nm.2 - 1 := by
  simp [covers]

theorem Bitmap.cellAt_markAll (sel : List (Int × Int)) : ∀ (b : Bitmap) (x : Int),
    (b.markAll sel).cellAt x = (b.cellAt x).map (fun c => if covers sel x then Cell.occupied else c) := by
  induction sel with
  | nil => intro b x; simp [Bitmap.markAll, covers]
  | cons nm sel ih =>
    intro b x
    have : b.markAll (nm :: sel) = (b.markRange (nm.1 - nm.2) (nm.1 + nm.2 - 1)).markAll sel := rfl
    rw [this, ih, Bitmap.cellAt_markRange]
    cases b.cellAt x with
    | none => rfl
    | some c =>
      have hcons : covers (nm :: sel) x = (decide (nm.1 - nm.2 ≤ x ∧ x ≤ nm.1 + nm.2 - 1) || covers sel x) := rfl
      simp only [Option.map_some, hcons]
      by_cases h1 : nm.1 - nm.2 ≤ x ∧ x ≤ nm.1 + nm.2 - 1
      · simp [h1]
      · simp [h1]

theorem Bitmap.markAll_fields (sel : List (Int × Int)) : ∀ (b : Bitmap),
    (b.markAll sel).nMin = b.nMin ∧ (b.markAll sel).nMax = b.nMax ∧ (b.markAll sel).idxMin = b.idxMin ∧
    (b.markAll sel).idxMax = b.idxMax ∧ (b.markAll sel).guardband = b.guardband ∧
    (b.markAll sel).freqIndex = b.freqIndex ∧ (b.markAll sel).cells.length = b.cells.length := by
  induction sel with
  | nil => intro b; simp [Bitmap.markAll]
  | cons nm sel ih =>
    intro b
    have : b.markAll (nm :: sel) = (b.markRange (nm.1 - nm.2) (nm.1 + nm.2 - 1)).markAll sel := rfl
    rw [this]
    obtain ⟨a1, a2, a3, a4, a5, a6, a7⟩ := ih (b.markRange (nm.1 - nm.2) (nm.1 + nm.2 - 1))
    refine ⟨a1, a2, a3, a4, a5, a6, ?_⟩
    rw [a7]; simp [Bitmap.markRange]

theorem Bitmap.WF_markAll (sel : List (Int × Int)) (b : Bitmap) (h : b.WF) : (b.markAll sel).WF := by
  obtain ⟨_, _, _, _, _, a6, a7⟩ := Bitmap.markAll_fields sel b
  unfold Bitmap.WF at *
  obtain ⟨a1, a2, _, _, _, _, _⟩ := Bitmap.markAll_fields sel b
  rw [a6, a7, a1, a2]; exact h

theorem foldlM_assign (sel : List (Int × Int)) : ∀ (b b' : Bitmap), b.WF →
    sel.foldlM (fun b nm => assignSpectrum b nm.1 nm.2) b = .ok b' →
    b' = b.markAll sel ∧ ∀ nm ∈ sel, 0 < nm.2 ∧ b.idxMin ≤ nm.1 ∧ nm.1 ≤ b.idxMax ∧ b.nMin < nm.1 - nm.2 ∧
      nm.1 + nm.2 - 1 ≤ b.nMax := by
  induction sel with
  | nil =>
    intro b b' _ h
    have : b' = b := by simpa [List.foldlM_nil, pure, Except.pure] using h.symm
    subst this
    simp [Bitmap.markAll]
  | cons nm sel ih =>
    intro b b' hwf h
    rw [List.foldlM_cons] at h
    simp only [bind, Except.bind] at h
    cases ha : assignSpectrum b nm.1 nm.2 with
    | error e => rw [ha] at h; cases h
    | ok b1 =>
      rw [ha] at h
      simp only at h
      obtain ⟨hm, a1, a2, a3, a4, hb1⟩ := assignSpectrum_ok b b1 _ _ hwf ha
      have hwf1 : b1.WF := by rw [hb1]; exact Bitmap.WF_markRange _ _ _ hwf
      obtain ⟨i1, i2⟩ := ih b1 b' hwf1 h
      refine ⟨?_, ?_⟩
      · rw [i1, hb1]; rfl
      · intro x hx
        rcases List.mem_cons.1 hx with rfl | hx
        · exact ⟨hm, a1, a2, a3, a4⟩
        · have := i2 x hx
          rw [hb1] at this
          exact this

/-- the state of an OMS of the route after an accepted request -/
def Oms.served (o : Oms) (sel : List (Int × Int)) (id : String) (nb : Int) : Oms :=
  { bm := o.bm.markAll sel, nbChannels := o.nbChannels + nb, services := o.services ++ [id] }

theorem applyOms_spec (o o' : Oms) (sel : List (Int × Int)) (id : String) (nb : Int) (hwf : o.bm.WF)
    (h : applyOms o sel id nb = .ok o') :
    o' = o.served sel id nb ∧ ∀ nm ∈ sel, 0 < nm.2 ∧ o.bm.idxMin ≤ nm.1 ∧ nm.1 ≤ o.bm.idxMax ∧
      o.bm.nMin < nm.1 - nm.2 ∧ nm.1 + nm.2 - 1 ≤ o.bm.nMax := by
  simp only [applyOms, bind, Except.bind] at h
  cases hf : sel.foldlM (fun b nm => assignSpectrum b nm.1 nm.2) o.bm with
  | error e => rw [hf] at h; cases h
  | ok b =>
    rw [hf] at h
    obtain ⟨i1, i2⟩ := foldlM_assign sel _ _ hwf hf
    refine ⟨?_, i2⟩
    have : o' = { bm := b, nbChannels := o.nbChannels + nb, services := o.services ++ [id] } := by
      simpa [pure, Except.pure] using h.symm
    rw [this, i1]; rfl

theorem applyPath_spec (sel : List (Int × Int)) (id : String) (nb : Int) :
    ∀ (path : List Nat) (s s' : List Oms), path.Nodup → (∀ o ∈ s, o.bm.WF) → applyPath sel id nb path s = .ok s' →
      s'.length = s.length ∧
      (∀ k, k ∉ path → s'[k]? = s[k]?) ∧
      (∀ k ∈ path, ∃ o, s[k]? = some o ∧ s'[k]? = some (o.served sel id nb) ∧
        ∀ nm ∈ sel, 0 < nm.2 ∧ o.bm.idxMin ≤ nm.1 ∧ nm.1 ≤ o.bm.idxMax ∧ o.bm.nMin < nm.1 - nm.2 ∧
          nm.1 + nm.2 - 1 ≤ o.bm.nMax) := by
  intro path
  induction path with
  | nil =>
    intro s s' _ _ h
    have : s' = s := by simpa [applyPath, pure, Except.pure] using h.symm
    subst this
    simp
  | cons p path ih =>
    intro s s' hnd hwf h
    unfold applyPath at h
    cases hp : s[p]? with
    | none => rw [hp] at h; cases h
    | some x =>
      rw [hp] at h
      simp only [bind, Except.bind] at h
      cases ha : applyOms x sel id nb with
      | error e => rw [ha] at h; cases h
      | ok x' =>
        rw [ha] at h
        simp only at h
        have hxm : x ∈ s := List.mem_of_getElem? hp
        obtain ⟨hx', hb⟩ := applyOms_spec x x' sel id nb (hwf x hxm) ha
        obtain ⟨hpn, hnd'⟩ := List.nodup_cons.1 hnd
        have hwf1 : ∀ o ∈ s.set p x', o.bm.WF := by
          intro o ho
          rcases List.mem_or_eq_of_mem_set ho with ho | rfl
          · exact hwf o ho
          · rw [hx']; exact Bitmap.WF_markAll _ _ (hwf x hxm)
        obtain ⟨i1, i2, i3⟩ := ih (s.set p x') s' hnd' hwf1 h
        have hplt : p < s.length := by
          rcases Nat.lt_or_ge p s.length with hh | hh
          · exact hh
          · rw [List.getElem?_eq_none hh] at hp; cases hp
        refine ⟨by rw [i1, List.length_set], ?_, ?_⟩
        · intro k hk
          have hkp : p ≠ k := fun e => hk (e ▸ List.mem_cons_self)
          rw [i2 k (fun hh => hk (List.mem_cons_of_mem _ hh)), List.getElem?_set_ne hkp]
        · intro k hk
          rcases List.mem_cons.1 hk with rfl | hk
          · refine ⟨x, hp, ?_, hb⟩
            rw [i2 k hpn, List.getElem?_set_self hplt, hx']
          · have hkp : p ≠ k := fun e => hpn (e ▸ hk)
            obtain ⟨o, ho, ho', hbb⟩ := i3 k hk
            rw [List.getElem?_set_ne hkp] at ho
            exact ⟨o, ho, ho', hbb⟩
end Gnpy.Slots
