import GnpyModel
import GnpyProofs.RealInst
import Mathlib.Tactic.Ring
import Mathlib.Tactic.Linarith
import Mathlib.Tactic.FieldSimp
import Mathlib.Tactic.Positivity
import Mathlib.Tactic.NormNum
import Mathlib.Tactic.Push
/-
Helper lemmas over ℝ for the chain model: the counting floor division, sums.
-/
namespace Gnpy.Chain

theorem floorDivAux_spec (a b : ℝ) : ∀ (f k : Nat), (k:ℝ) * b ≤ a → a < ((k + f + 1 : Nat) : ℝ) * b →
    ((floorDivAux a b f k : Nat) : ℝ) * b ≤ a ∧ a < ((floorDivAux a b f k + 1 : Nat) : ℝ) * b := by
  intro f
  induction f with
  | zero =>
    intro k h1 h2
    simp only [floorDivAux]
    exact ⟨h1, by simpa using h2⟩
  | succ f ih =>
    intro k h1 h2
    simp only [floorDivAux]
    split
    · rename_i h
      apply ih (k + 1)
      · exact h
      · have : k + 1 + f + 1 = k + (f + 1) + 1 := by omega
        rw [this]; exact h2
    · rename_i h
      exact ⟨h1, lt_of_not_ge h⟩

/-- the counting loop computes `⌊a / b⌋` when the fuel suffices -/
theorem floorDiv_spec' (fuel : Nat) (a b : ℝ) (ha : 0 ≤ a) (hf : a < ((fuel + 1 : Nat) : ℝ) * b) :
    ((floorDiv fuel a b : Nat) : ℝ) * b ≤ a ∧ a < ((floorDiv fuel a b + 1 : Nat) : ℝ) * b := by
  unfold floorDiv
  apply floorDivAux_spec
  · simpa using ha
  · simpa using hf

theorem sumLeft_eq_sum (l : List ℝ) : sumLeft l = l.sum := by
  unfold sumLeft
  have : ∀ (acc : ℝ) (l : List ℝ), l.foldl (· + ·) acc = acc + l.sum := by
    intro acc l
    induction l generalizing acc with
    | nil => simp
    | cons x xs ih => simp only [List.foldl_cons, List.sum_cons, ih]; ring
  rw [this]; simp

end Gnpy.Chain
