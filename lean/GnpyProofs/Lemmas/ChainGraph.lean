import GnpyModel
import Mathlib.Data.List.Chain
import Mathlib.Data.List.Nodup
import Mathlib.Tactic.Linarith
/-
Helper lemmas for the graph view of chains: degrees in a path.
-/
namespace Gnpy.Chain

theorem mem_pathEdges : ∀ (ns : List String) (e : String × String), e ∈ pathEdges ns → e.1 ∈ ns ∧ e.2 ∈ ns := by
  intro ns
  induction ns with
  | nil => intro e h; simp [pathEdges] at h
  | cons a t ih =>
    cases t with
    | nil => intro e h; simp [pathEdges] at h
    | cons b rest =>
      intro e h
      simp only [pathEdges, List.mem_cons] at h
      rcases h with h | h
      · subst h; simp
      · have := ih e h
        exact ⟨List.mem_cons_of_mem _ this.1, List.mem_cons_of_mem _ this.2⟩

theorem outDeg_zero_of_not_mem (ns : List String) (u : String) (h : u ∉ ns) : outDeg (pathEdges ns) u = 0 := by
  unfold outDeg
  rw [List.countP_eq_zero]
  intro e he hc
  have := (mem_pathEdges ns e he).1
  simp only [beq_iff_eq] at hc
  rw [hc] at this
  exact h this

theorem inDeg_zero_of_not_mem (ns : List String) (u : String) (h : u ∉ ns) : inDeg (pathEdges ns) u = 0 := by
  unfold inDeg
  rw [List.countP_eq_zero]
  intro e he hc
  have := (mem_pathEdges ns e he).2
  simp only [beq_iff_eq] at hc
  rw [hc] at this
  exact h this

/-- in a path without repeated nodes every node but the last has exactly one outgoing edge -/
theorem outDeg_pathEdges : ∀ (ns : List String), ns.Nodup → ∀ u, outDeg (pathEdges ns) u = if u ∈ ns.dropLast then 1 else 0 := by
  intro ns
  induction ns with
  | nil => intro _ u; simp [pathEdges, outDeg]
  | cons a t ih =>
    cases t with
    | nil => intro _ u; simp [pathEdges, outDeg]
    | cons b rest =>
      intro hn u
      have hn' : (b :: rest).Nodup := (List.nodup_cons.mp hn).2
      have ha : a ∉ b :: rest := (List.nodup_cons.mp hn).1
      have ih' := ih hn' u
      unfold outDeg at ih' ⊢
      simp only [pathEdges, List.countP_cons, List.dropLast_cons_cons, List.mem_cons, ih', beq_iff_eq]
      by_cases hau : a = u
      · subst hau
        have : a ∉ (b :: rest).dropLast := fun h => ha (List.dropLast_subset _ h)
        simp [this]
      · have hua : ¬ u = a := fun h => hau h.symm
        simp [hau, hua]

/-- … and every node but the first exactly one incoming edge -/
theorem inDeg_pathEdges : ∀ (ns : List String), ns.Nodup → ∀ u, inDeg (pathEdges ns) u = if u ∈ ns.tail then 1 else 0 := by
  intro ns
  induction ns with
  | nil => intro _ u; simp [pathEdges, inDeg]
  | cons a t ih =>
    cases t with
    | nil => intro _ u; simp [pathEdges, inDeg]
    | cons b rest =>
      intro hn u
      have hn' : (b :: rest).Nodup := (List.nodup_cons.mp hn).2
      have hb : b ∉ rest := (List.nodup_cons.mp hn').1
      have ih' := ih hn' u
      unfold inDeg at ih' ⊢
      simp only [pathEdges, List.countP_cons, List.tail_cons, List.mem_cons, ih', beq_iff_eq]
      by_cases hbu : b = u
      · subst hbu
        simp [hb]
      · have hub : ¬ u = b := fun h => hbu h.symm
        simp [hbu, hub]
        by_cases h : u ∈ rest <;> simp [h]

theorem toGraph_append {α : Type} (a b : List (Chain α)) : toGraph (a ++ b) = toGraph a ++ toGraph b := by
  simp [toGraph]

theorem toGraph_cons {α : Type} (c : Chain α) (b : List (Chain α)) : toGraph (c :: b) = chainEdges c ++ toGraph b := by
  simp [toGraph]

theorem inDeg_append (g h : List (String × String)) (u : String) : inDeg (g ++ h) u = inDeg g u + inDeg h u := by
  simp [inDeg]

theorem outDeg_append (g h : List (String × String)) (u : String) : outDeg (g ++ h) u = outDeg g u + outDeg h u := by
  simp [outDeg]

/-- chains that do not contain `u` contribute nothing to its degrees -/
theorem deg_zero_of_absent {α : Type} (cs : List (Chain α)) (u : String) (h : ∀ c ∈ cs, u ∉ chainNodes c) :
    inDeg (toGraph cs) u = 0 ∧ outDeg (toGraph cs) u = 0 := by
  induction cs with
  | nil => simp [toGraph, inDeg, outDeg]
  | cons c rest ih =>
    have hc := h c (by simp)
    have hr := ih (fun x hx => h x (by simp [hx]))
    rw [toGraph_cons, inDeg_append, outDeg_append, hr.1, hr.2]
    exact ⟨by simp [chainEdges, inDeg_zero_of_not_mem _ _ hc], by simp [chainEdges, outDeg_zero_of_not_mem _ _ hc]⟩

end Gnpy.Chain
