import GnpyProofs.Lemmas.SlotsStep
/- Helper lemmas for C14: `sorted` really sorts, and what `restore_order` returns position by position. -/
namespace Gnpy.Py

theorem mem_orderedInsert {α : Type} (le : α → α → Bool) (x z : α) (l : List α) (h : z ∈ orderedInsert le x l) :
    z = x ∨ z ∈ l := by
  have := (orderedInsert_perm le x l).mem_iff.1 h
  simpa using this

theorem orderedInsert_pairwise {α : Type} (le : α → α → Bool) (htot : ∀ a b, le a b = true ∨ le b a = true)
    (htr : ∀ a b c, le a b = true → le b c = true → le a c = true) (x : α) (l : List α)
    (h : l.Pairwise (fun a b => le a b = true)) : (orderedInsert le x l).Pairwise (fun a b => le a b = true) := by
  induction l with
  | nil => simp [orderedInsert]
  | cons y ys ih =>
    obtain ⟨h1, h2⟩ := List.pairwise_cons.1 h
    unfold orderedInsert
    by_cases hxy : le x y = true
    · rw [if_pos hxy]
      refine List.pairwise_cons.2 ⟨?_, h⟩
      intro z hz
      rcases List.mem_cons.1 hz with rfl | hz
      · exact hxy
      · exact htr _ _ _ hxy (h1 z hz)
    · rw [if_neg hxy]
      refine List.pairwise_cons.2 ⟨?_, ih h2⟩
      intro z hz
      rcases mem_orderedInsert le x z ys hz with rfl | hz
      · rcases htot z y with h' | h'
        · exact absurd h' hxy
        · exact h'
      · exact h1 z hz

theorem sorted_pairwise {α : Type} (le : α → α → Bool) (htot : ∀ a b, le a b = true ∨ le b a = true)
    (htr : ∀ a b c, le a b = true → le b c = true → le a c = true) (l : List α) :
    (sorted le l).Pairwise (fun a b => le a b = true) := by
  induction l with
  | nil => simp [sorted]
  | cons x xs ih => unfold sorted; exact orderedInsert_pairwise le htot htr x _ ih

theorem filterMap_eq_range {α β : Type} (f : α → Option β) (l : List α) :
    l.filterMap f = (List.range l.length).filterMap (fun k => (l[k]?).bind f) := by
  induction l with
  | nil => simp
  | cons x xs ih =>
    rw [List.length_cons, List.range_succ_eq_map, List.filterMap_cons, List.filterMap_cons, List.filterMap_map]
    have : ((fun k => ((x :: xs)[k]?).bind f) ∘ Nat.succ) = fun k => (xs[k]?).bind f := by
      funext k; simp
    rw [this, ← ih]
    simp

end Gnpy.Py

namespace Gnpy.Slots
open Gnpy.Py

/-- `restore_order(elements, order)` when `order` is a permutation of `0 … L−1`: position `k` of the original request
    receives the element that sits at the position `p` with `order[p] = k`, unserved positions are dropped -/
theorem restoreOrder_positional {α : Type} (elements : List (Option α)) (order : List Nat)
    (hperm : order.Perm (List.range order.length)) :
    ∃ g : Nat → Option α, restoreOrder elements order = (List.range order.length).filterMap g ∧
      ∀ (k : Nat) (a : α), g k = some a → ∃ p : Nat, order[p]? = some k ∧ elements[p]? = some (some a) := by
  unfold restoreOrder
  set S := sorted (fun a b : Nat × Nat => decide (a.2 ≤ b.2)) (enumerate order) with hS
  have hSperm : S.Perm (enumerate order) := sorted_perm _ _
  have hSsorted : (S.map (·.2)).Pairwise (· ≤ ·) := by
    rw [List.pairwise_map]
    have := sorted_pairwise (fun a b : Nat × Nat => decide (a.2 ≤ b.2))
      (by intro a b; simp only [decide_eq_true_eq]; omega)
      (by intro a b c; simp only [decide_eq_true_eq]; omega) (enumerate order)
    rw [← hS] at this
    exact this.imp (fun hh => by simpa using hh)
  have hSkeys : S.map (·.2) = List.range order.length := by
    apply List.Perm.eq_of_pairwise (le := (· ≤ ·)) (fun a b _ _ h1 h2 => Nat.le_antisymm h1 h2) hSsorted
      List.pairwise_le_range
    exact ((hSperm.map _).trans (by rw [enumerate_map_snd])).trans hperm
  have hlen : S.length = order.length := by
    have := congrArg List.length hSkeys
    simpa using this
  refine ⟨fun k => (S[k]?).bind (fun p => (elements[p.1]?).join), ?_, ?_⟩
  · rw [filterMap_eq_range, hlen]
  · intro k a hk
    simp only at hk
    cases hsk : S[k]? with
    | none => rw [hsk] at hk; simp at hk
    | some p =>
      rw [hsk] at hk
      simp only [Option.bind_some] at hk
      have hp2 : p.2 = k := by
        have h1 : (S.map (·.2))[k]? = some p.2 := by rw [List.getElem?_map, hsk]; rfl
        rw [hSkeys] at h1
        have hk' : k < order.length := by
          rcases Nat.lt_or_ge k order.length with hh | hh
          · exact hh
          · rw [List.getElem?_eq_none (by simpa using hh)] at h1; cases h1
        rw [List.getElem?_range hk'] at h1
        exact (Option.some.inj h1).symm
      have hmem : p ∈ enumerate order := hSperm.mem_iff.1 (List.mem_of_getElem? hsk)
      have hord := mem_enumerate order p hmem
      refine ⟨p.1, by rw [hord, hp2], ?_⟩
      cases he : elements[p.1]? with
      | none => rw [he] at hk; simp at hk
      | some v =>
        rw [he] at hk
        simp only [Option.join_some] at hk
        rw [hk]

end Gnpy.Slots
