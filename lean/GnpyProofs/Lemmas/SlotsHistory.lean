import GnpyProofs.Lemmas.SlotsStep
/- Helper lemmas for C14: histories of pth_assign_spectrum calls. -/
namespace Gnpy.Slots
open Gnpy.Py

theorem RangeOK_markAll (b : Bitmap) (sel : List (Int × Int)) (n m : Int) (hm : 0 < m) (hsel : ∀ nm ∈ sel, 0 < nm.2)
    (h : RangeOK (b.markAll sel) n m) : RangeOK b n m ∧ ∀ nm ∈ sel, Disj nm (n, m) := by
  obtain ⟨h1, h2, hc⟩ := h
  obtain ⟨_, _, f3, f4, _, _, _⟩ := Bitmap.markAll_fields sel b
  rw [f3] at h1
  rw [f4] at h2
  have hfree : ∀ x : Int, n - m ≤ x → x ≤ n + m - 1 → b.cellAt x = some Cell.free ∧ covers sel x = false := by
    intro x hx1 hx2
    have := hc x hx1 hx2
    rw [Bitmap.cellAt_markAll] at this
    cases hcx : b.cellAt x with
    | none => rw [hcx] at this; simp at this
    | some v =>
      rw [hcx] at this
      simp only [Option.map_some, Option.some.injEq] at this
      cases hcv : covers sel x with
      | true => rw [hcv] at this; simp at this
      | false => rw [hcv] at this; simp at this; exact ⟨by rw [this], rfl⟩
  refine ⟨⟨h1, h2, fun x a c => (hfree x a c).1⟩, ?_⟩
  intro nm hnm
  have hp := hsel nm hnm
  unfold Disj
  simp only
  refine Classical.byContradiction fun hcon => ?_
  have key : ∀ x : Int, n - m ≤ x → x ≤ n + m - 1 → nm.1 - nm.2 ≤ x → x ≤ nm.1 + nm.2 - 1 → False := by
    intro x a c d e
    have := (hfree x a c).2
    have h2 : covers sel x = true := (covers_iff sel x).2 ⟨nm, hnm, d, e⟩
    rw [h2] at this; cases this
  rcases Int.le_total (nm.1 - nm.2) (n - m) with hle | hle
  · exact key (n - m) (by omega) (by omega) (by omega) (by omega)
  · exact key (nm.1 - nm.2) (by omega) (by omega) (by omega) (by omega)

/-- a state obtained from a well-formed one by serving a request on some OMS is well formed -/
theorem StateWF_served (s s' : List Oms) (hs : StateWF s) (path : List Nat) (sel : List (Int × Int)) (id : String) (nb : Int)
    (h2 : ∀ k, k ∉ path → s'[k]? = s[k]?)
    (h3 : ∀ k ∈ path, ∃ o, s[k]? = some o ∧ s'[k]? = some (o.served sel id nb)) : StateWF s' := by
  have src : ∀ o' ∈ s', ∃ o ∈ s, o'.bm.nMin = o.bm.nMin ∧ o'.bm.nMax = o.bm.nMax ∧ o'.bm.guardband = o.bm.guardband ∧
      o'.bm.idxMin = o.bm.idxMin ∧ o'.bm.idxMax = o.bm.idxMax ∧ o'.bm.WF := by
    intro o' ho'
    obtain ⟨k, hk⟩ := List.mem_iff_getElem?.1 ho'
    by_cases hp : k ∈ path
    · obtain ⟨o, g1, g2⟩ := h3 k hp
      rw [g2] at hk
      cases hk
      obtain ⟨f1, f2, f3, f4, f5, _, _⟩ := Bitmap.markAll_fields sel o.bm
      exact ⟨o, List.mem_of_getElem? g1, f1, f2, f5, f3, f4, Bitmap.WF_markAll sel o.bm (hs.wf o (List.mem_of_getElem? g1))⟩
    · rw [h2 k hp] at hk
      have := List.mem_of_getElem? hk
      exact ⟨o', this, rfl, rfl, rfl, rfl, rfl, hs.wf o' this⟩
  refine ⟨fun o' ho' => ?_, fun o1 h1 o2 h2' => ?_, fun o' ho' => ?_⟩
  · obtain ⟨_, _, _, _, _, _, _, w⟩ := src o' ho'; exact w
  · obtain ⟨a, ha, a1, a2, a3, _, _, _⟩ := src o1 h1
    obtain ⟨b, hb, b1, b2, b3, _, _, _⟩ := src o2 h2'
    obtain ⟨c1, c2, c3⟩ := hs.same a ha b hb
    exact ⟨by omega, by omega, by omega⟩
  · obtain ⟨a, ha, a1, a2, a3, a4, a5, _⟩ := src o' ho'
    have := hs.guard a ha
    unfold Bitmap.aggIdxMin Bitmap.aggIdxMax at *
    rw [a1, a2, a3, a4, a5]; exact this

/-- one granted slot range with the OMS it was put on -/
structure Grant where
  path : List Nat
  n : Int
  m : Int

def grantsOf (r : Request) : Outcome → List Grant
  | .accepted nm => nm.map (fun p => ⟨r.pathOms, p.1, p.2⟩)
  | _ => []

/-- all grants of a history, in order -/
def grants : List Request → List Outcome → List Grant
  | r :: rs, o :: os => grantsOf r o ++ grants rs os
  | _, _ => []

/-- slot `x` of OMS `k` belongs to the grant -/
def Grant.covers (g : Grant) (k : Nat) (x : Int) : Bool :=
  decide (k ∈ g.path) && decide (g.n - g.m ≤ x ∧ x ≤ g.n + g.m - 1)

/-- two grants that share an OMS do not share a slot -/
def Grant.Compatible (g h : Grant) : Prop := (∃ k, k ∈ g.path ∧ k ∈ h.path) → Disj (g.n, g.m) (h.n, h.m)

theorem any_grantsOf_accepted (path : List Nat) (out : List (Int × Int)) (k : Nat) (x : Int) :
    (out.map (fun p => (⟨path, p.1, p.2⟩ : Grant))).any (fun g => g.covers k x) = (decide (k ∈ path) && covers out x) := by
  rw [List.any_map]
  unfold covers
  by_cases hk : k ∈ path
  · simp [Grant.covers, hk, Function.comp_def]
  · simp [Grant.covers, hk, Function.comp_def]

theorem run_cons (pol : Policy) (s s' : List Oms) (r : Request) (rs : List Request) (os : List Outcome)
    (h : run pol s (r :: rs) = .ok (s', os)) :
    ∃ s1 o os', step pol s r = .ok (s1, o) ∧ run pol s1 rs = .ok (s', os') ∧ os = o :: os' := by
  simp only [run, bind, Except.bind] at h
  cases h1 : step pol s r with
  | error e => rw [h1] at h; cases h
  | ok v =>
    rw [h1] at h
    obtain ⟨s1, o⟩ := v
    simp only at h
    cases h2 : run pol s1 rs with
    | error e => rw [h2] at h; cases h
    | ok w =>
      rw [h2] at h
      obtain ⟨s2, os'⟩ := w
      simp only [pure, Except.pure, Except.ok.injEq, Prod.mk.injEq] at h
      exact ⟨s1, o, os', rfl, by rw [h2, h.1], h.2.symm⟩

end Gnpy.Slots
