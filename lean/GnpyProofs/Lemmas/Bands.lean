import GnpyModel
import Mathlib.Data.List.Perm.Basic
import Mathlib.Data.List.Pairwise
import Mathlib.Tactic.Linarith
/-
Proof-side vocabulary and helper lemmas for C07 (model: GnpyModel/Bands.lean).  Discrete: what is proved is what
the driver executes.
-/
namespace Gnpy.Bands

/-- `a` ends before `b` starts (slot edges may touch) -/
def Before (a b : Ch) : Prop := 2 * a.f + a.slot ≤ 2 * b.f - b.slot

/-- the occupied slots of two channels do not overlap -/
def Disj (a b : Ch) : Prop := Before a b ∨ Before b a

theorem disj_symm {a b : Ch} (h : Disj a b) : Disj b a := h.symm
instance : Std.Symm Disj := ⟨fun _ _ h => disj_symm h⟩

/-- sorted by frequency -/
def SortedF (l : List Ch) : Prop := l.Pairwise (fun a b => a.f ≤ b.f)

/-- a well-formed spectrum: what the constructor accepts and returns unchanged -/
def Valid (s : List Ch) : Prop := mkSpectrum s = .ok s

/-! ### sorting -/

theorem insertF_perm (x : Ch) (l : List Ch) : (insertF x l).Perm (x :: l) := by
  induction l with
  | nil => simp [insertF]
  | cons y ys ih =>
    simp only [insertF]; split
    · exact List.Perm.refl _
    · exact (List.Perm.cons y ih).trans (List.Perm.swap x y ys)

theorem sortF_perm (l : List Ch) : (sortF l).Perm l := by
  induction l with
  | nil => exact List.Perm.refl _
  | cons x xs ih => exact (insertF_perm x (sortF xs)).trans (List.Perm.cons x ih)

theorem insertF_sorted (x : Ch) (l : List Ch) (h : SortedF l) : SortedF (insertF x l) := by
  induction l with
  | nil => simp [insertF, SortedF]
  | cons y ys ih =>
    simp only [insertF]; split
    · rename_i hxy
      simp only [SortedF] at h ⊢
      rw [List.pairwise_cons] at h
      refine List.pairwise_cons.2 ⟨?_, List.pairwise_cons.2 h⟩
      intro z hz
      rcases List.mem_cons.1 hz with rfl | hz
      · exact hxy
      · have := h.1 z hz; omega
    · rename_i hxy
      simp only [SortedF] at h ih ⊢
      rw [List.pairwise_cons] at h
      refine List.pairwise_cons.2 ⟨?_, ih h.2⟩
      intro z hz
      rcases List.mem_cons.1 ((insertF_perm x ys).subset hz) with rfl | hz
      · omega
      · exact h.1 z hz

theorem sortF_sorted (l : List Ch) : SortedF (sortF l) := by
  induction l with
  | nil => simp [sortF, SortedF]
  | cons x xs ih => exact insertF_sorted x _ ih

theorem insertF_of_le (x : Ch) (l : List Ch) (h : ∀ y ∈ l, x.f ≤ y.f) : insertF x l = x :: l := by
  cases l with
  | nil => rfl
  | cons y ys => simp [insertF, h y (List.mem_cons_self)]

/-- the sort is stable: a frequency-sorted list is returned as it is -/
theorem sortF_of_sorted (l : List Ch) (h : SortedF l) : sortF l = l := by
  induction l with
  | nil => rfl
  | cons x xs ih =>
    simp only [SortedF] at h
    rw [List.pairwise_cons] at h
    simp only [sortF]
    rw [ih h.2]
    exact insertF_of_le x xs h.1

/-! ### the adjacent-overlap check is the pairwise one -/

theorem before_trans {a b c : Ch} (hb : 0 ≤ b.slot) (h1 : Before a b) (h2 : Before b c) : Before a c := by
  simp only [Before] at *; omega

theorem pairwise_before_of_adj (l : List Ch) (hs : ∀ c ∈ l, 0 ≤ c.slot) (h : noOverlapAdj l = true) :
    l.Pairwise Before := by
  induction l with
  | nil => exact List.Pairwise.nil
  | cons a r ih =>
    cases r with
    | nil => simp
    | cons b r' =>
      simp only [noOverlapAdj, Bool.and_eq_true, decide_eq_true_eq] at h
      have ihr := ih (fun c hc => hs c (List.mem_cons_of_mem _ hc)) h.2
      refine List.pairwise_cons.2 ⟨?_, ihr⟩
      intro c hc
      rcases List.mem_cons.1 hc with rfl | hc
      · exact h.1
      · have hb : Before b c := (List.pairwise_cons.1 ihr).1 c hc
        exact before_trans (hs b (by simp)) h.1 hb

theorem adj_of_pairwise_before (l : List Ch) (h : l.Pairwise Before) : noOverlapAdj l = true := by
  induction l with
  | nil => rfl
  | cons a r ih =>
    cases r with
    | nil => rfl
    | cons b r' =>
      rw [List.pairwise_cons] at h
      simp only [noOverlapAdj, Bool.and_eq_true, decide_eq_true_eq]
      exact ⟨h.1 b (by simp), ih h.2⟩

/-- in a frequency-sorted list disjoint means "the earlier one ends first" -/
theorem before_of_disj_sorted {a b : Ch} (hab : a.f ≤ b.f) (h : Disj a b) :
    Before a b := by
  rcases h with h | h
  · exact h
  · simp only [Before] at *; omega

theorem baudOk_iff (l : List Ch) : baudOk l = true ↔ ∀ c ∈ l, c.baud ≤ c.slot := by
  simp [baudOk]

end Gnpy.Bands

namespace Gnpy.Bands

/-- the channel lies in one of the bands -/
def inAny (bs : List Band) (c : Ch) : Bool := bs.any (fun b => inBand b c)

/-- two bands do not share spectrum (edges may touch) -/
def BandDisj (b1 b2 : Band) : Prop := b1.fmax ≤ b2.fmin ∨ b2.fmax ≤ b1.fmin

theorem bandDisj_symm {a b : Band} (h : BandDisj a b) : BandDisj b a := h.symm
instance : Std.Symm BandDisj := ⟨fun _ _ h => bandDisj_symm h⟩

/-- all slot widths positive -/
def Pos (s : List Ch) : Prop := ∀ c ∈ s, 0 < c.slot

theorem inBand_iff (b : Band) (c : Ch) :
    inBand b c = true ↔ 2 * b.fmin ≤ 2 * c.f - c.slot ∧ 2 * c.f + c.slot ≤ 2 * b.fmax := by
  simp [inBand]

/-- a channel of positive width cannot lie in two disjoint bands -/
theorem not_two_bands {b1 b2 : Band} {c : Ch} (hc : 0 < c.slot) (hd : BandDisj b1 b2)
    (h1 : inBand b1 c = true) (h2 : inBand b2 c = true) : False := by
  rw [inBand_iff] at h1 h2
  rcases hd with h | h <;> omega

theorem valid_iff (s : List Ch) : Valid s ↔ SortedF s ∧ noOverlapAdj s = true ∧ baudOk s = true := by
  simp only [Valid, mkSpectrum]
  constructor
  · intro h
    cases h1 : noOverlapAdj (sortF s) <;> cases h2 : baudOk (sortF s) <;> simp [h1, h2] at h
    have hs := sortF_sorted s
    rw [h] at hs h1 h2
    exact ⟨hs, h1, h2⟩
  · rintro ⟨hs, h1, h2⟩
    rw [sortF_of_sorted s hs]
    simp [h1, h2]

/-- any selection of channels of a valid spectrum is a valid spectrum -/
theorem valid_sublist {s t : List Ch} (hv : Valid s) (hs : ∀ c ∈ s, 0 ≤ c.slot) (ht : t.Sublist s) : Valid t := by
  obtain ⟨h0, h1, h2⟩ := (valid_iff s).1 hv
  refine (valid_iff t).2 ⟨h0.sublist ht, ?_, ?_⟩
  · exact adj_of_pairwise_before t ((pairwise_before_of_adj s hs h1).sublist ht)
  · exact (baudOk_iff t).2 (fun c hc => (baudOk_iff s).1 h2 c (ht.subset hc))

theorem demux_valid (b : Band) (sp : List Ch) (hv : Valid sp) (hs : ∀ c ∈ sp, 0 ≤ c.slot) :
    demux b sp = if sp.filter (inBand b) = [] then none else some (.ok (sp.filter (inBand b))) := by
  simp only [demux]
  have hv' : Valid (sp.filter (inBand b)) := valid_sublist hv hs List.filter_sublist
  by_cases h : sp.filter (inBand b) = []
  · simp [h]
  · have : (sp.filter (inBand b)).isEmpty = false := by
      cases hh : sp.filter (inBand b) with
      | nil => exact absurd hh h
      | cons _ _ => rfl
    simp only [this, h, if_false]
    rw [show mkSpectrum (sp.filter (inBand b)) = .ok (sp.filter (inBand b)) from hv']
    simp

/-- the non-empty selections, in band order -/
def parts (bs : List Band) (sp : List Ch) : List (List Ch) :=
  bs.filterMap (fun b => if sp.filter (inBand b) = [] then none else some (sp.filter (inBand b)))

theorem demuxAll_valid (bs : List Band) (sp : List Ch) (hv : Valid sp) (hs : ∀ c ∈ sp, 0 ≤ c.slot) :
    demuxAll bs sp = .ok (parts bs sp) := by
  induction bs with
  | nil => rfl
  | cons b r ih =>
    simp only [demuxAll, demux_valid b sp hv hs, ih, parts, List.filterMap_cons]
    by_cases h : sp.filter (inBand b) = []
    · simp [h]
    · simp [h]

theorem filter_or_perm (p q : Ch → Bool) (l : List Ch) (hex : ∀ c ∈ l, ¬ (p c = true ∧ q c = true)) :
    (l.filter p ++ l.filter q).Perm (l.filter (fun c => p c || q c)) := by
  induction l with
  | nil => simp
  | cons x xs ih =>
    have ih' := ih (fun c hc => hex c (List.mem_cons_of_mem _ hc))
    have hx := hex x (List.mem_cons_self)
    cases hp : p x <;> cases hq : q x
    · simpa [List.filter_cons, hp, hq] using ih'
    · simp only [List.filter_cons, hp, hq, Bool.or_true, if_true, Bool.false_eq_true, if_false]
      exact (List.perm_middle).trans (List.Perm.cons x ih')
    · simp only [List.filter_cons, hp, hq, Bool.or_false, if_true, Bool.false_eq_true, if_false, List.cons_append]
      exact List.Perm.cons x ih'
    · exact absurd ⟨hp, hq⟩ hx

theorem inAny_cons (b : Band) (r : List Band) (c : Ch) : inAny (b :: r) c = (inBand b c || inAny r c) := by
  simp [inAny]

theorem parts_nil_iff (bs : List Band) (sp : List Ch) : parts bs sp = [] ↔ sp.filter (inAny bs) = [] := by
  induction bs with
  | nil => simp [parts, inAny]
  | cons b r ih =>
    simp only [parts, List.filterMap_cons] at ih ⊢
    by_cases h : sp.filter (inBand b) = []
    · simp only [h, if_true]
      rw [ih]
      simp only [List.filter_eq_nil_iff] at h ⊢
      constructor
      · intro hr c hc; rw [inAny_cons]; simp [h c hc, hr c hc]
      · intro hr c hc; have := hr c hc; rw [inAny_cons] at this; simp_all
    · simp only [h, if_false]
      constructor
      · intro hh; simp at hh
      · intro hh
        exfalso; apply h
        simp only [List.filter_eq_nil_iff] at hh ⊢
        intro c hc; have := hh c hc; rw [inAny_cons] at this; simp_all

end Gnpy.Bands

namespace Gnpy.Bands

/-! ### construction -/

theorem mk_ok_iff' (l s : List Ch) :
    mkSpectrum l = .ok s ↔ s = sortF l ∧ noOverlapAdj (sortF l) = true ∧ baudOk (sortF l) = true := by
  simp only [mkSpectrum]
  cases h1 : noOverlapAdj (sortF l) <;> cases h2 : baudOk (sortF l) <;> simp [eq_comm]

/-- the only error the constructor raises is a spectrum error -/
theorem mk_error_kind' (l : List Ch) (e : Err) (h : mkSpectrum l = .error e) : e = .spectrum := by
  simp only [mkSpectrum] at h
  cases h1 : noOverlapAdj (sortF l) <;> cases h2 : baudOk (sortF l) <;> simp_all

/-- **an accepted spectrum is the frequency-sorted permutation of what was supplied**: every channel exactly
once, with its own slot width, baud rate and payload -/
theorem mk_sorted_perm' (l s : List Ch) (h : mkSpectrum l = .ok s) : s.Perm l ∧ SortedF s := by
  obtain ⟨rfl, _, _⟩ := (mk_ok_iff' l s).1 h
  exact ⟨sortF_perm l, sortF_sorted l⟩

/-- **accepted iff no two channels overlap and no baud rate exceeds its slot** (slot widths ≥ 0) -/
theorem mk_accepts_iff' (l : List Ch) (hs : ∀ c ∈ l, 0 ≤ c.slot) :
    (∃ s, mkSpectrum l = .ok s) ↔ l.Pairwise Disj ∧ ∀ c ∈ l, c.baud ≤ c.slot := by
  have hp := sortF_perm l
  constructor
  · rintro ⟨s, h⟩
    obtain ⟨rfl, h1, h2⟩ := (mk_ok_iff' l s).1 h
    have hb := pairwise_before_of_adj (sortF l) (fun c hc => hs c (hp.subset hc)) h1
    have hd : (sortF l).Pairwise Disj := hb.imp (fun h => Or.inl h)
    refine ⟨hd.perm hp (fun h => disj_symm h), ?_⟩
    intro c hc
    exact (baudOk_iff _).1 h2 c (hp.symm.subset hc)
  · rintro ⟨hd, hb⟩
    refine ⟨sortF l, (mk_ok_iff' l _).2 ⟨rfl, ?_, ?_⟩⟩
    · have hd' : (sortF l).Pairwise Disj := hd.perm hp.symm (fun h => disj_symm h)
      have hboth := (sortF_sorted l).and hd'
      exact adj_of_pairwise_before _ (hboth.imp (fun h => before_of_disj_sorted h.1 h.2))
    · exact (baudOk_iff _).2 (fun c hc => hb c (hp.subset hc))

/-- **rejected with a spectrum error iff two channels overlap or a baud rate is wider than its slot** -/
theorem mk_rejects_iff' (l : List Ch) (hs : ∀ c ∈ l, 0 ≤ c.slot) :
    mkSpectrum l = .error .spectrum ↔ ¬ (l.Pairwise Disj ∧ ∀ c ∈ l, c.baud ≤ c.slot) := by
  rw [← mk_accepts_iff' l hs]
  cases h : mkSpectrum l with
  | ok s => simp
  | error e => simp [mk_error_kind' l e h]

theorem mk_rejects_overlap' (l : List Ch) (hs : ∀ c ∈ l, 0 ≤ c.slot) (h : ¬ l.Pairwise Disj) :
    mkSpectrum l = .error .spectrum :=
  (mk_rejects_iff' l hs).2 (fun hh => h hh.1)

theorem mk_rejects_baud' (l : List Ch) (hs : ∀ c ∈ l, 0 ≤ c.slot) (c : Ch) (hc : c ∈ l) (h : c.slot < c.baud) :
    mkSpectrum l = .error .spectrum :=
  (mk_rejects_iff' l hs).2 (fun hh => by have := hh.2 c hc; omega)

/-- two different channels of an accepted list with positive slot widths have different frequencies -/
theorem disj_pos_ne' {a b : Ch} (ha : 0 < a.slot) (hb : 0 < b.slot) (h : Disj a b) : a.f ≠ b.f := by
  rcases h with h | h <;> simp only [Before] at h <;> omega

/-- **the order in which the channels are supplied is irrelevant** (slot widths > 0): any permutation of the
input gives the same result – the same sorted spectrum or the same rejection -/
theorem mk_order_irrelevant' (l₁ l₂ : List Ch) (hp : l₁.Perm l₂) (hs : ∀ c ∈ l₁, 0 < c.slot) :
    mkSpectrum l₁ = mkSpectrum l₂ := by
  have hs1 : ∀ c ∈ l₁, 0 ≤ c.slot := fun c hc => le_of_lt (hs c hc)
  have hs2 : ∀ c ∈ l₂, 0 ≤ c.slot := fun c hc => hs1 c (hp.symm.subset hc)
  have hacc : (l₁.Pairwise Disj ∧ ∀ c ∈ l₁, c.baud ≤ c.slot) ↔ (l₂.Pairwise Disj ∧ ∀ c ∈ l₂, c.baud ≤ c.slot) :=
    ⟨fun h => ⟨h.1.perm hp (fun h => disj_symm h), fun c hc => h.2 c (hp.symm.subset hc)⟩,
     fun h => ⟨h.1.perm hp.symm (fun h => disj_symm h), fun c hc => h.2 c (hp.subset hc)⟩⟩
  by_cases hok : l₁.Pairwise Disj ∧ ∀ c ∈ l₁, c.baud ≤ c.slot
  · obtain ⟨s1, h1⟩ := (mk_accepts_iff' l₁ hs1).2 hok
    obtain ⟨s2, h2⟩ := (mk_accepts_iff' l₂ hs2).2 (hacc.1 hok)
    rw [h1, h2]
    obtain ⟨p1, o1⟩ := mk_sorted_perm' l₁ s1 h1
    obtain ⟨p2, o2⟩ := mk_sorted_perm' l₂ s2 h2
    have hperm : s1.Perm s2 := p1.trans (hp.trans p2.symm)
    have hd1 : s1.Pairwise Disj := hok.1.perm p1.symm (fun h => disj_symm h)
    congr 1
    refine List.Perm.eq_of_pairwise (le := fun a b => a.f ≤ b.f) ?_ (show s1.Pairwise (fun a b => a.f ≤ b.f) from o1)
      (show s2.Pairwise (fun a b => a.f ≤ b.f) from o2) hperm
    intro a b ha hb hab hba
    have hb1 : b ∈ s1 := hperm.symm.subset hb
    by_contra hne
    have := hd1.forall ha hb1 hne
    exact disj_pos_ne' (hs a (p1.subset ha)) (hs b (p1.subset hb1)) this (by omega)
  · rw [(mk_rejects_iff' l₁ hs1).2 hok, (mk_rejects_iff' l₂ hs2).2 (fun h => hok (hacc.2 h))]

/-- a valid spectrum is returned unchanged when it is constructed again (select / re-validate) -/
theorem valid_of_mk' (l s : List Ch) (h : mkSpectrum l = .ok s) : Valid s := by
  obtain ⟨rfl, h1, h2⟩ := (mk_ok_iff' l _).1 h
  have : sortF (sortF l) = sortF l := sortF_of_sorted _ (sortF_sorted l)
  exact (mk_ok_iff' _ _).2 ⟨this.symm, by rw [this]; exact h1, by rw [this]; exact h2⟩


end Gnpy.Bands

namespace Gnpy.Bands

theorem mk_of_perm_valid (l s : List Ch) (hv : Valid s) (hp : Pos s) (hperm : l.Perm s) : mkSpectrum l = .ok s := by
  rw [mk_order_irrelevant' l s hperm (fun c hc => hp c (hperm.subset hc))]; exact hv

theorem pos_sublist {s t : List Ch} (hp : Pos s) (ht : t.Sublist s) : Pos t := fun c hc => hp c (ht.subset hc)

theorem valid_filter {s : List Ch} (p : Ch → Bool) (hv : Valid s) (hp : Pos s) : Valid (s.filter p) :=
  valid_sublist hv (fun c hc => le_of_lt (hp c hc)) List.filter_sublist

/-- merging the per-band selections of a valid spectrum over pairwise disjoint bands gives back exactly the
channels that lie in one of the bands, in frequency order, each once -/
theorem mux_parts (bs : List Band) (sp : List Ch) (hv : Valid sp) (hp : Pos sp) (hd : bs.Pairwise BandDisj)
    (hne : parts bs sp ≠ []) : mux (parts bs sp) = .ok (sp.filter (inAny bs)) := by
  induction bs with
  | nil => simp [parts] at hne
  | cons b r ih =>
    rw [List.pairwise_cons] at hd
    have hex : ∀ c ∈ sp, ¬ (inBand b c = true ∧ inAny r c = true) := by
      intro c hc ⟨h1, h2⟩
      simp only [inAny, List.any_eq_true] at h2
      obtain ⟨b2, hb2, h2⟩ := h2
      exact not_two_bands (hp c hc) (hd.1 b2 hb2) h1 h2
    have hfe : sp.filter (inAny (b :: r)) = sp.filter (fun c => inBand b c || inAny r c) := by
      exact List.filter_congr (fun c _ => inAny_cons b r c)
    by_cases h : sp.filter (inBand b) = []
    · have hp' : parts (b :: r) sp = parts r sp := by simp only [parts, List.filterMap_cons, if_pos h]
      rw [hp'] at hne ⊢
      rw [ih hd.2 hne, hfe]
      congr 1
      apply List.filter_congr
      intro c hc
      have : inBand b c = false := by
        have := List.filter_eq_nil_iff.1 h c hc; simpa using this
      simp [this]
    · have hp' : parts (b :: r) sp = sp.filter (inBand b) :: parts r sp := by
        simp only [parts, List.filterMap_cons, if_neg h]
      rw [hp']
      cases hr : parts r sp with
      | nil =>
        simp only [mux]
        rw [hfe]
        congr 1
        apply List.filter_congr
        intro c hc
        have := List.filter_eq_nil_iff.1 ((parts_nil_iff r sp).1 hr) c hc
        simp at this; simp [this]
      | cons y r' =>
        have hne' : parts r sp ≠ [] := by rw [hr]; simp
        have ihr := ih hd.2 hne'
        rw [hr] at ihr
        simp only [mux, ihr, add2]
        rw [hfe]
        exact mk_of_perm_valid _ _ (valid_filter _ hv hp) (pos_sublist hp List.filter_sublist)
          (filter_or_perm _ _ sp hex)

/-- `filter_si` on a valid spectrum: the channels inside the common range, or a ValueError when there is none -/
theorem filterSi_spec' (cr : List Band) (sp : List Ch) (hv : Valid sp) (hp : Pos sp) (hd : cr.Pairwise BandDisj) :
    filterSi cr sp = if sp.filter (inAny cr) = [] then .error .value else .ok (sp.filter (inAny cr)) := by
  simp only [filterSi, demuxAll_valid cr sp hv (fun c hc => le_of_lt (hp c hc))]
  by_cases h : parts cr sp = []
  · rw [h]; simp [(parts_nil_iff cr sp).1 h]
  · have hne : sp.filter (inAny cr) ≠ [] := fun hh => h ((parts_nil_iff cr sp).2 hh)
    simp only [hne, if_false]
    rw [← mux_parts cr sp hv hp hd h]

theorem multibandCall_spec' (bs : List Band) (sp : List Ch) (hv : Valid sp) (hp : Pos sp) (hd : bs.Pairwise BandDisj) :
    multibandCall bs sp = if sp.filter (inAny bs) = [] then .error .value else .ok (sp.filter (inAny bs)) :=
  filterSi_spec' bs sp hv hp hd

theorem filter_all {l : List Ch} {p : Ch → Bool} (h : ∀ c ∈ l, p c = true) : l.filter p = l :=
  List.filter_eq_self.2 h

/-- a single-band amplifier whose band holds every channel returns the spectrum as it is -/
theorem edfaCall_id' (b : Band) (r : List Band) (sp : List Ch) (hv : Valid sp) (hp : Pos sp) (hne : sp ≠ [])
    (hin : ∀ c ∈ sp, inBand b c = true) : edfaCall (b :: r) sp = .ok sp := by
  simp only [edfaCall, demux_valid b sp hv (fun c hc => le_of_lt (hp c hc)), filter_all hin, hne, if_false]

/-- a multiband amplifier whose (disjoint) bands together hold every channel returns the spectrum as it is -/
theorem multibandCall_id' (bs : List Band) (sp : List Ch) (hv : Valid sp) (hp : Pos sp) (hne : sp ≠ [])
    (hd : bs.Pairwise BandDisj) (hin : ∀ c ∈ sp, inAny bs c = true) : multibandCall bs sp = .ok sp := by
  rw [multibandCall_spec' bs sp hv hp hd, filter_all hin]; simp [hne]

end Gnpy.Bands

namespace Gnpy.Bands

/-! ### the common range -/

theorem insertB_perm (x : Band) (l : List Band) : (insertB x l).Perm (x :: l) := by
  induction l with
  | nil => simp [insertB]
  | cons y ys ih =>
    simp only [insertB]; split
    · exact List.Perm.refl _
    · exact (List.Perm.cons y ih).trans (List.Perm.swap x y ys)

theorem sortB_perm (l : List Band) : (sortB l).Perm l := by
  induction l with
  | nil => exact List.Perm.refl _
  | cons x xs ih => exact (insertB_perm x (sortB xs)).trans (List.Perm.cons x ih)

theorem inAny_iff (bs : List Band) (c : Ch) : inAny bs c = true ↔ ∃ b ∈ bs, inBand b c = true := by
  simp [inAny]

theorem inAny_perm {l₁ l₂ : List Band} (h : l₁.Perm l₂) (c : Ch) : inAny l₁ c = true ↔ inAny l₂ c = true := by
  rw [inAny_iff, inAny_iff]
  exact ⟨fun ⟨b, hb, hc⟩ => ⟨b, h.subset hb, hc⟩, fun ⟨b, hb, hc⟩ => ⟨b, h.symm.subset hb, hc⟩⟩

theorem mem_removeDup (l : List (List Band)) (a : List Band) : a ∈ removeDup l ↔ a ∈ l := by
  induction l with
  | nil => simp [removeDup]
  | cons x r ih =>
    simp only [removeDup, List.mem_cons, List.mem_filter, ih]
    constructor
    · rintro (h | ⟨h, _⟩)
      · exact Or.inl h
      · exact Or.inr h
    · rintro (h | h)
      · exact Or.inl h
      · by_cases hx : a = x
        · exact Or.inl hx
        · exact Or.inr ⟨h, by simpa using hx⟩

theorem imax_cases (a b : Int) : (imax a b = a ∧ b ≤ a) ∨ (imax a b = b ∧ a ≤ b) := by
  unfold imax; split <;> omega
theorem imin_cases (a b : Int) : (imin a b = a ∧ a ≤ b) ∨ (imin a b = b ∧ b ≤ a) := by
  unfold imin; split <;> omega

theorem inter_some (f s : Band) (d : Int) (b : Band) (h : inter f s d = some b) :
    b.fmin = imax f.fmin s.fmin ∧ b.fmax = imin f.fmax s.fmax := by
  unfold inter at h
  split at h
  · simp only [Option.some.injEq] at h; subst h; exact ⟨rfl, rfl⟩
  · exact absurd h (by simp)

theorem inter_isSome (f s : Band) (d : Int) (h : imax f.fmin s.fmin < imin f.fmax s.fmax) :
    ∃ b, inter f s d = some b ∧ b.fmin = imax f.fmin s.fmin ∧ b.fmax = imin f.fmax s.fmax := by
  exact ⟨{ fmin := imax f.fmin s.fmin, fmax := imin f.fmax s.fmax, spacing := some (calcSpacing f s d) },
    by simp only [inter, h, if_true], rfl, rfl⟩

/-- one intersection round: a channel (positive width) is in a new band iff it was in an old common band and is in
a band of the amplifier -/
theorem inAny_intersectRound (common bands : List Band) (d : Int) (c : Ch) (hc : 0 < c.slot) :
    inAny (intersectRound common bands d) c = true ↔ inAny common c = true ∧ inAny bands c = true := by
  simp only [inAny_iff, intersectRound, List.mem_flatMap, List.mem_filterMap]
  constructor
  · rintro ⟨b, ⟨first, hf, second, hs, hb⟩, hin⟩
    obtain ⟨e1, e2⟩ := inter_some _ _ _ _ hb
    rw [inBand_iff, e1, e2] at hin
    refine ⟨⟨first, hf, ?_⟩, ⟨second, hs, ?_⟩⟩ <;> rw [inBand_iff] <;>
      rcases imax_cases first.fmin second.fmin with h | h <;>
      rcases imin_cases first.fmax second.fmax with h' | h' <;> omega
  · rintro ⟨⟨first, hf, h1⟩, ⟨second, hs, h2⟩⟩
    rw [inBand_iff] at h1 h2
    have hlt : imax first.fmin second.fmin < imin first.fmax second.fmax := by
      rcases imax_cases first.fmin second.fmin with h | h <;>
      rcases imin_cases first.fmax second.fmax with h' | h' <;> omega
    obtain ⟨b, hb, e1, e2⟩ := inter_isSome first second d hlt
    refine ⟨b, ⟨first, hf, second, hs, hb⟩, ?_⟩
    rw [inBand_iff, e1, e2]
    rcases imax_cases first.fmin second.fmin with h | h <;>
      rcases imin_cases first.fmax second.fmax with h' | h' <;> omega

/-- a band produced by `inter f s` lies inside `f` and inside `s` -/
theorem inter_inside (f s : Band) (d : Int) (b : Band) (h : inter f s d = some b) :
    f.fmin ≤ b.fmin ∧ s.fmin ≤ b.fmin ∧ b.fmax ≤ f.fmax ∧ b.fmax ≤ s.fmax ∧ b.fmin < b.fmax := by
  obtain ⟨e1, e2⟩ := inter_some _ _ _ _ h
  have hlt : imax f.fmin s.fmin < imin f.fmax s.fmax := by
    unfold inter at h; split at h
    · assumption
    · exact absurd h (by simp)
  rw [e1, e2]
  rcases imax_cases f.fmin s.fmin with h1 | h1 <;> rcases imin_cases f.fmax s.fmax with h2 | h2 <;> omega

theorem intersectRound_disj (common bands : List Band) (d : Int) (h1 : common.Pairwise BandDisj)
    (h2 : bands.Pairwise BandDisj) : (intersectRound common bands d).Pairwise BandDisj := by
  simp only [intersectRound]
  rw [List.pairwise_flatMap]
  constructor
  · intro first _
    refine List.Pairwise.filterMap _ ?_ h2
    intro s1 s2 hd x hx y hy
    have i1 := inter_inside _ _ _ _ hx
    have i2 := inter_inside _ _ _ _ hy
    simp only [BandDisj] at hd ⊢
    omega
  · refine h1.imp ?_
    intro f1 f2 hd x hx y hy
    simp only [List.mem_filterMap] at hx hy
    obtain ⟨s1, _, hx⟩ := hx
    obtain ⟨s2, _, hy⟩ := hy
    have i1 := inter_inside _ _ _ _ hx
    have i2 := inter_inside _ _ _ _ hy
    simp only [BandDisj] at hd ⊢
    omega

theorem foldl_intersect_inAny (rounds : List (List Band)) (init : List Band) (d : Int) (c : Ch) (hc : 0 < c.slot) :
    inAny (rounds.foldl (fun common bands => intersectRound common bands d) init) c = true ↔
      inAny init c = true ∧ ∀ a ∈ rounds, inAny a c = true := by
  induction rounds generalizing init with
  | nil => simp
  | cons a r ih =>
    simp only [List.foldl_cons, ih, inAny_intersectRound _ _ _ _ hc, List.mem_cons, forall_eq_or_imp, and_assoc]

theorem foldl_intersect_disj (rounds : List (List Band)) (init : List Band) (d : Int) (h0 : init.Pairwise BandDisj)
    (h : ∀ a ∈ rounds, a.Pairwise BandDisj) :
    (rounds.foldl (fun common bands => intersectRound common bands d) init).Pairwise BandDisj := by
  induction rounds generalizing init with
  | nil => exact h0
  | cons a r ih =>
    simp only [List.foldl_cons]
    exact ih _ (intersectRound_disj _ _ _ h0 (h a (by simp))) (fun x hx => h x (List.mem_cons_of_mem _ hx))

/-- **`find_common_range`**: with at least one amplifier, a channel of positive width lies in a band of the common
range iff it lies in a band of *every* amplifier -/
theorem commonRange_spec' (amps : List (List Band)) (lo hi : Option Int) (d : Int) (hne : amps ≠ []) (c : Ch)
    (hc : 0 < c.slot) :
    inAny (commonRange amps lo hi d) c = true ↔ ∀ a ∈ amps, inAny a c = true := by
  simp only [commonRange]
  have hmem : ∀ a, a ∈ removeDup (amps.map sortB) ↔ a ∈ amps.map sortB := mem_removeDup _
  cases hu : removeDup (amps.map sortB) with
  | nil =>
    exfalso
    cases amps with
    | nil => exact hne rfl
    | cons a r =>
      have : sortB a ∈ removeDup ((a :: r).map sortB) := (hmem _).2 (by simp)
      rw [hu] at this; simp at this
  | cons first rest =>
    simp only
    rw [inAny_perm (sortB_perm _), foldl_intersect_inAny _ _ _ _ hc]
    have hall : (∀ a ∈ first :: rest, inAny a c = true) ↔ ∀ a ∈ amps, inAny a c = true := by
      rw [← hu]
      constructor
      · intro h a ha
        have := h (sortB a) ((hmem _).2 (List.mem_map.2 ⟨a, ha, rfl⟩))
        exact (inAny_perm (sortB_perm a) c).1 this
      · intro h a ha
        obtain ⟨a0, ha0, rfl⟩ := List.mem_map.1 ((hmem a).1 ha)
        exact (inAny_perm (sortB_perm a0) c).2 (h a0 ha0)
    rw [hall]
    constructor
    · exact fun h => h.2
    · intro h
      refine ⟨?_, h⟩
      have hf : first ∈ first :: rest := by simp
      exact (hall.2 h) first hf

theorem commonRange_disj' (amps : List (List Band)) (lo hi : Option Int) (d : Int)
    (h : ∀ a ∈ amps, a.Pairwise BandDisj) : (commonRange amps lo hi d).Pairwise BandDisj := by
  simp only [commonRange]
  have hmem : ∀ a, a ∈ removeDup (amps.map sortB) ↔ a ∈ amps.map sortB := mem_removeDup _
  cases hu : removeDup (amps.map sortB) with
  | nil =>
    simp only
    cases lo <;> cases hi <;> simp
  | cons first rest =>
    simp only
    have hall : ∀ a ∈ first :: rest, a.Pairwise BandDisj := by
      intro a ha
      rw [← hu] at ha
      obtain ⟨a0, ha0, rfl⟩ := List.mem_map.1 ((hmem a).1 ha)
      exact (h a0 ha0).perm (sortB_perm a0).symm (fun h => bandDisj_symm h)
    exact (foldl_intersect_disj _ _ _ (hall first (by simp)) hall).perm (sortB_perm _).symm (fun h => bandDisj_symm h)

end Gnpy.Bands

namespace Gnpy.Bands

/-! ### paths -/

/-- a well-formed amplifier: a single-band amplifier has exactly one band; the bands of a multiband amplifier are
pairwise disjoint and its declared bands (`params.bands`) cover what its amplifiers cover -/
def Elem.WF : Elem → Prop
  | .edfa bands => ∃ b, bands = [b]
  | .multiband pb cb => pb.Pairwise BandDisj ∧ cb.Pairwise BandDisj ∧ ∀ c, inAny pb c = inAny cb c
  | .other => True

theorem ampBands_cons (e : Elem) (r : List Elem) :
    ampBands (e :: r) = (match e with
      | .edfa b => [b]
      | .multiband b _ => [b]
      | .other => []) ++ ampBands r := by
  cases e <;> simp [ampBands]

theorem ampBands_disj (path : List Elem) (h : ∀ e ∈ path, e.WF) : ∀ a ∈ ampBands path, a.Pairwise BandDisj := by
  induction path with
  | nil => simp [ampBands]
  | cons e r ih =>
    intro a ha
    rw [ampBands_cons] at ha
    have hr := ih (fun x hx => h x (List.mem_cons_of_mem _ hx))
    have he := h e (by simp)
    cases e with
    | edfa b =>
      simp only [List.singleton_append, List.mem_cons] at ha
      rcases ha with rfl | ha
      · obtain ⟨b0, rfl⟩ := he; simp
      · exact hr a ha
    | multiband pb cb =>
      simp only [List.singleton_append, List.mem_cons] at ha
      rcases ha with rfl | ha
      · exact he.1
      · exact hr a ha
    | other => simpa using hr a (by simpa using ha)

/-- **every element of a path returns the spectrum it was given** – same channels, same order, same records – once
every channel lies in a band of every amplifier of the path -/
theorem callAll_id' (path : List Elem) (sp : List Ch) (hv : Valid sp) (hp : Pos sp) (hne : sp ≠ [])
    (hwf : ∀ e ∈ path, e.WF) (hin : ∀ c ∈ sp, ∀ a ∈ ampBands path, inAny a c = true) : callAll path sp = .ok sp := by
  induction path with
  | nil => rfl
  | cons e r ih =>
    have hr := ih (fun x hx => hwf x (List.mem_cons_of_mem _ hx))
      (fun c hc a ha => hin c hc a (by rw [ampBands_cons]; exact List.mem_append_right _ ha))
    have he := hwf e (by simp)
    have hcall : e.call sp = .ok sp := by
      cases e with
      | edfa bands =>
        obtain ⟨b, rfl⟩ := he
        refine edfaCall_id' b [] sp hv hp hne (fun c hc => ?_)
        have := hin c hc [b] (by simp [ampBands])
        simpa [inAny] using this
      | multiband pb cb =>
        refine multibandCall_id' cb sp hv hp hne he.2.1 (fun c hc => ?_)
        rw [← he.2.2 c]
        exact hin c hc pb (by simp [ampBands])
      | other => rfl
    simp only [callAll, hcall, hr]

/-- **`request.propagate`, channel set**: the supplied channels are sorted (or rejected), those outside the common
range of the path's amplifiers are removed once, and what remains crosses every element unchanged -/
theorem propagate_spec' (path : List Elem) (lo hi : Option Int) (d : Int) (l si : List Ch)
    (hmk : mkSpectrum l = .ok si) (hp : Pos l) (hwf : ∀ e ∈ path, e.WF) :
    propagate path lo hi d l =
      if si.filter (inAny (commonRange (ampBands path) lo hi d)) = [] then .error .value
      else .ok (si.filter (inAny (commonRange (ampBands path) lo hi d))) := by
  have hv : Valid si := valid_of_mk' l si hmk
  have hps : Pos si := fun c hc => hp c ((mk_sorted_perm' l si hmk).1.subset hc)
  have hd := commonRange_disj' (ampBands path) lo hi d (ampBands_disj path hwf)
  simp only [propagate, hmk, filterSi_spec' _ si hv hps hd]
  by_cases hne : si.filter (inAny (commonRange (ampBands path) lo hi d)) = []
  · simp [hne]
  · simp only [hne, if_false]
    refine callAll_id' path _ (valid_filter _ hv hps) (pos_sublist hps List.filter_sublist) hne hwf ?_
    intro c hc a ha
    have hc' := List.mem_filter.1 hc
    have hane : ampBands path ≠ [] := fun h => by rw [h] at ha; simp at ha
    exact (commonRange_spec' (ampBands path) lo hi d hane c (hps c hc'.1)).1 hc'.2 a ha

end Gnpy.Bands

namespace Gnpy.Bands

/-! ### no silent duplicates -/

theorem mux_error_kind (ps : List (List Ch)) (e : Err) (hne : ps ≠ []) (h : mux ps = .error e) : e = .spectrum := by
  induction ps with
  | nil => exact absurd rfl hne
  | cons x r ih =>
    cases r with
    | nil => simp [mux] at h
    | cons y r' =>
      simp only [mux] at h
      cases hm : mux (y :: r') with
      | ok m => rw [hm] at h; exact mk_error_kind' _ e h
      | error e' =>
        rw [hm] at h
        simp only [Except.error.injEq] at h
        subst h
        exact ih (by simp) hm

theorem mux_ok (ps : List (List Ch)) (m : List Ch) (hv : ∀ p ∈ ps, Valid p) (h : mux ps = .ok m) :
    Valid m ∧ m.Perm ps.flatten := by
  induction ps generalizing m with
  | nil => simp [mux] at h
  | cons x r ih =>
    cases r with
    | nil =>
      simp only [mux, Except.ok.injEq] at h
      subst h
      exact ⟨hv _ (by simp), by simp⟩
    | cons y r' =>
      simp only [mux] at h
      cases hm : mux (y :: r') with
      | error e => rw [hm] at h; exact absurd h (by simp)
      | ok m' =>
        rw [hm] at h
        obtain ⟨_, hp'⟩ := ih m' (fun p hp => hv p (List.mem_cons_of_mem _ hp)) hm
        refine ⟨valid_of_mk' _ m h, ?_⟩
        rw [List.flatten_cons]
        exact (mk_sorted_perm' _ m h).1.trans (List.Perm.append_left x hp')

/-- in a valid spectrum with positive slot widths the frequencies are strictly increasing -/
theorem valid_strict (s : List Ch) (hv : Valid s) (hp : Pos s) : s.Pairwise (fun a b => a.f < b.f) := by
  obtain ⟨_, h1, _⟩ := (valid_iff s).1 hv
  have hb := pairwise_before_of_adj s (fun c hc => le_of_lt (hp c hc)) h1
  have hb' : s.Pairwise (fun a b => Before a b ∧ (0 < a.slot ∧ 0 < b.slot)) :=
    hb.and (List.pairwise_of_forall_mem_list (fun a ha b hb => ⟨hp a ha, hp b hb⟩))
  exact hb'.imp (fun h => by simp only [Before] at h; omega)

theorem valid_nodup (s : List Ch) (hv : Valid s) (hp : Pos s) : s.Nodup := by
  have := valid_strict s hv hp
  exact this.imp (fun h heq => by subst heq; omega)

theorem parts_valid (bs : List Band) (sp : List Ch) (hv : Valid sp) (hp : Pos sp) : ∀ p ∈ parts bs sp, Valid p := by
  intro p hpm
  simp only [parts, List.mem_filterMap] at hpm
  obtain ⟨b, _, hb⟩ := hpm
  split at hb
  · exact absurd hb (by simp)
  · simp only [Option.some.injEq] at hb; subst hb; exact valid_filter _ hv hp

/-- **no silent duplicate**: whatever the bands, an answer of a multiband amplifier is a strictly frequency-sorted
list – every channel at most once – made of exactly the selected channels -/
theorem multiband_no_dup' (bs : List Band) (sp out : List Ch) (hv : Valid sp) (hp : Pos sp)
    (h : multibandCall bs sp = .ok out) :
    out.Pairwise (fun a b => a.f < b.f) ∧ out.Perm (parts bs sp).flatten := by
  simp only [multibandCall, demuxAll_valid bs sp hv (fun c hc => le_of_lt (hp c hc))] at h
  have hmux : mux (parts bs sp) = .ok out := by
    cases hps : parts bs sp with
    | nil => rw [hps] at h; exact absurd h (by simp)
    | cons x xs => rw [hps] at h; exact h
  obtain ⟨hvo, hperm⟩ := mux_ok _ out (parts_valid bs sp hv hp) hmux
  refine ⟨valid_strict out hvo ?_, hperm⟩
  intro c hc
  obtain ⟨p, hpm, hcp⟩ := List.mem_flatten.1 (hperm.subset hc)
  simp only [parts, List.mem_filterMap] at hpm
  obtain ⟨b, _, hb⟩ := hpm
  split at hb
  · exact absurd hb (by simp)
  · simp only [Option.some.injEq] at hb; subst hb; exact hp c (List.mem_filter.1 hcp).1

theorem parts_append (l1 l2 : List Band) (sp : List Ch) : parts (l1 ++ l2) sp = parts l1 sp ++ parts l2 sp := by
  simp [parts, List.filterMap_append]

theorem parts_cons_mem (b : Band) (r : List Band) (sp : List Ch) (c : Ch) (hc : c ∈ sp) (hin : inBand b c = true) :
    parts (b :: r) sp = sp.filter (inBand b) :: parts r sp := by
  have : sp.filter (inBand b) ≠ [] := by
    intro h
    have := List.filter_eq_nil_iff.1 h c hc
    simp [hin] at this
  simp only [parts, List.filterMap_cons, if_neg this]

/-- **overlapping amplifier bands are rejected**: when a channel lies in the bands of two amplifiers of a multiband
amplifier the call raises a spectrum error (it never returns the channel twice, nor silently once) -/
theorem multiband_overlap_rejects' (l1 l2 l3 : List Band) (b1 b2 : Band) (sp : List Ch) (hv : Valid sp) (hp : Pos sp)
    (c : Ch) (hc : c ∈ sp) (h1 : inBand b1 c = true) (h2 : inBand b2 c = true) :
    multibandCall (l1 ++ b1 :: l2 ++ b2 :: l3) sp = .error .spectrum := by
  cases hres : multibandCall (l1 ++ b1 :: l2 ++ b2 :: l3) sp with
  | ok out =>
    exfalso
    obtain ⟨hstrict, hperm⟩ := multiband_no_dup' _ sp out hv hp hres
    have hnd : out.Nodup := hstrict.imp (fun h heq => by subst heq; omega)
    have hcnt : out.count c ≤ 1 := List.nodup_iff_count.1 hnd c
    rw [hperm.count_eq] at hcnt
    have e : parts (l1 ++ b1 :: l2 ++ b2 :: l3) sp =
        parts l1 sp ++ (sp.filter (inBand b1) :: (parts l2 sp ++ (sp.filter (inBand b2) :: parts l3 sp))) := by
      rw [show l1 ++ b1 :: l2 ++ b2 :: l3 = l1 ++ (b1 :: (l2 ++ (b2 :: l3))) by simp]
      rw [parts_append, parts_cons_mem b1 _ sp c hc h1, parts_append, parts_cons_mem b2 _ sp c hc h2]
    rw [e] at hcnt
    simp only [List.flatten_append, List.flatten_cons, List.count_append] at hcnt
    have c1 : 1 ≤ (sp.filter (inBand b1)).count c :=
      List.count_pos_iff.2 (List.mem_filter.2 ⟨hc, h1⟩)
    have c2 : 1 ≤ (sp.filter (inBand b2)).count c :=
      List.count_pos_iff.2 (List.mem_filter.2 ⟨hc, h2⟩)
    omega
  | error e =>
    simp only [multibandCall, demuxAll_valid _ sp hv (fun c hc => le_of_lt (hp c hc))] at hres
    have hne : parts (l1 ++ b1 :: l2 ++ b2 :: l3) sp ≠ [] := by
      rw [show l1 ++ b1 :: l2 ++ b2 :: l3 = l1 ++ (b1 :: (l2 ++ (b2 :: l3))) by simp, parts_append,
        parts_cons_mem b1 _ sp c hc h1]
      simp
    cases hps : parts (l1 ++ b1 :: l2 ++ b2 :: l3) sp with
    | nil => exact absurd hps hne
    | cons x xs =>
      rw [hps] at hres
      have := mux_error_kind (x :: xs) e (by simp) hres
      rw [this]

/-- `filter_si` removes once: filtering the filtered spectrum again changes nothing -/
theorem filter_idempotent' (cr : List Band) (sp s' : List Ch) (hv : Valid sp) (hp : Pos sp) (hd : cr.Pairwise BandDisj)
    (h : filterSi cr sp = .ok s') : filterSi cr s' = .ok s' := by
  rw [filterSi_spec' cr sp hv hp hd] at h
  by_cases hne : sp.filter (inAny cr) = []
  · simp [hne] at h
  · simp only [hne, if_false, Except.ok.injEq] at h
    subst h
    rw [filterSi_spec' cr _ (valid_filter _ hv hp) (pos_sublist hp List.filter_sublist) hd]
    simp [List.filter_filter, hne]

end Gnpy.Bands

namespace Gnpy.Bands

/-! ### uniform grid -/

theorem grid_before (fmin spacing baud : Int) (hs : 0 < spacing) (i j : Nat) (hij : i < j) :
    Before { f := fmin + spacing * ((i : Int) + 1), slot := spacing, baud := baud, pay := i }
           { f := fmin + spacing * ((j : Int) + 1), slot := spacing, baud := baud, pay := j } := by
  simp only [Before]
  have h : (i : Int) + 1 ≤ j := by exact_mod_cast hij
  nlinarith [mul_nonneg hs.le (sub_nonneg.2 h)]

/-- **a uniform grid is always a valid spectrum** (spacing > 0, baud rate ≤ spacing): sorted, non-overlapping,
`automatic_nch` channels -/
theorem grid_valid' (fmin fmax spacing baud : Int) (hs : 0 < spacing) (hb : baud ≤ spacing) :
    mkSpectrum (gridChans fmin fmax spacing baud) = .ok (gridChans fmin fmax spacing baud) ∧
    (gridChans fmin fmax spacing baud).length = automaticNch fmin fmax spacing := by
  have hpb : (gridChans fmin fmax spacing baud).Pairwise Before := by
    simp only [gridChans]
    rw [List.pairwise_map]
    exact (List.pairwise_lt_range).imp (fun h => grid_before fmin spacing baud hs _ _ h)
  have hslot : ∀ c ∈ gridChans fmin fmax spacing baud, c.slot = spacing ∧ c.baud = baud := by
    intro c hc
    simp only [gridChans, List.mem_map] at hc
    obtain ⟨i, _, rfl⟩ := hc
    exact ⟨rfl, rfl⟩
  refine ⟨(valid_iff _).2 ⟨?_, adj_of_pairwise_before _ hpb, (baudOk_iff _).2 ?_⟩, by simp [gridChans]⟩
  · have : (gridChans fmin fmax spacing baud).Pairwise (fun a b => Before a b ∧ (a.slot = spacing ∧ b.slot = spacing)) :=
      hpb.and (List.pairwise_of_forall_mem_list (fun a ha b hb => ⟨(hslot a ha).1, (hslot b hb).1⟩))
    exact this.imp (fun h => by simp only [Before] at h; omega)
  · intro c hc
    rw [(hslot c hc).1, (hslot c hc).2]; exact hb

/-- the centre frequencies of the grid lie in `(f_min, f_max]` -/
theorem grid_inside' (fmin fmax spacing baud : Int) (hs : 0 < spacing) (c : Ch)
    (hc : c ∈ gridChans fmin fmax spacing baud) : fmin < c.f ∧ c.f ≤ fmax := by
  simp only [gridChans, List.mem_map, List.mem_range] at hc
  obtain ⟨i, hi, rfl⟩ := hc
  simp only [automaticNch] at hi
  have h1 : ((i : Int) + 1) ≤ (fmax - fmin) / spacing := by omega
  have h2 : spacing * ((fmax - fmin) / spacing) ≤ fmax - fmin := Int.mul_ediv_self_le (ne_of_gt hs)
  constructor
  · nlinarith
  · nlinarith [mul_le_mul_of_nonneg_left h1 hs.le]


end Gnpy.Bands

namespace Gnpy.Bands

/-! ### how multiband elements are built -/

theorem mbStep_spec (s s' : MbState) (b : Band) (h : mbStep s b = .ok s') :
    s'.amps = s.amps ++ [(bandName b, b)] ∧ (∀ x, x ∈ s'.bands ↔ x ∈ s.bands ∨ x = b) ∧
    (s.bands.Nodup → s'.bands.Nodup) := by
  simp only [mbStep] at h
  split at h
  · exact absurd h (by simp)
  · split at h
    · rename_i hc
      simp only [Except.ok.injEq] at h; subst h
      have hb : b ∈ s.bands := by simpa using hc
      refine ⟨rfl, fun x => ⟨fun hx => Or.inl hx, fun hx => ?_⟩, fun hn => hn⟩
      rcases hx with hx | rfl
      · exact hx
      · exact hb
    · rename_i hc
      simp only [Except.ok.injEq] at h; subst h
      have hb : b ∉ s.bands := by simpa using hc
      refine ⟨rfl, fun x => by simp, fun hn => ?_⟩
      exact List.nodup_append.2 ⟨hn, by simp, by
        intro a ha c hc'
        simp only [List.mem_singleton] at hc'
        subst hc'
        intro heq; subst heq; exact hb ha⟩

theorem mbFold_spec (s s' : MbState) (l : List Band) (h : mbFold s l = .ok s') :
    s'.amps = s.amps ++ l.map (fun b => (bandName b, b)) ∧ (∀ x, x ∈ s'.bands ↔ x ∈ s.bands ∨ x ∈ l) ∧
    (s.bands.Nodup → s'.bands.Nodup) := by
  induction l generalizing s with
  | nil =>
    simp only [mbFold, Except.ok.injEq] at h; subst h
    simp
  | cons b r ih =>
    simp only [mbFold] at h
    cases hs : mbStep s b with
    | error e => rw [hs] at h; exact absurd h (by simp)
    | ok s1 =>
      rw [hs] at h
      obtain ⟨a1, m1, n1⟩ := mbStep_spec s s1 b hs
      obtain ⟨a2, m2, n2⟩ := ih s1 h
      refine ⟨by rw [a2, a1]; simp, fun x => ?_, fun hn => n2 (n1 hn)⟩
      rw [m2, m1]; simp only [List.mem_cons]; tauto

/-- two different members of a pairwise disjoint family are disjoint -/
theorem pairwise_of_nodup_subset {pb amps : List Band} (hn : pb.Nodup) (hsub : ∀ b ∈ pb, b ∈ amps)
    (hd : amps.Pairwise BandDisj) : pb.Pairwise BandDisj := by
  have : pb.Pairwise (fun a b => a ≠ b ∧ (a ∈ amps ∧ b ∈ amps)) :=
    (List.nodup_iff_pairwise_ne.1 hn).and (List.pairwise_of_forall_mem_list (fun a ha b hb => ⟨hsub a ha, hsub b hb⟩))
  exact this.imp (fun h => hd.forall h.2.1 h.2.2 h.1)

theorem inAny_congr_mem {l₁ l₂ : List Band} (h : ∀ b, b ∈ l₁ ↔ b ∈ l₂) (c : Ch) : inAny l₁ c = inAny l₂ c := by
  have e : inAny l₁ c = true ↔ inAny l₂ c = true := by
    rw [inAny_iff, inAny_iff]
    exact ⟨fun ⟨b, hb, hc⟩ => ⟨b, (h b).1 hb, hc⟩, fun ⟨b, hb, hc⟩ => ⟨b, (h b).2 hb, hc⟩⟩
  cases h1 : inAny l₁ c <;> cases h2 : inAny l₂ c <;> simp_all

/-- the general statement about `Multiband_amplifier.__init__`: starting from duplicate-free `params.bands` all of which
belong to amplifiers of the list, with pairwise disjoint amplifier bands, the element is well-formed -/
theorem mbFold_wf (pb0 amps : List Band) (s : MbState) (h : mbFold { bands := pb0, amps := [] } amps = .ok s)
    (hn : pb0.Nodup) (hsub : ∀ b ∈ pb0, b ∈ amps) (hd : amps.Pairwise BandDisj) :
    (Elem.multiband s.bands (s.amps.map (fun kv => kv.2))).WF ∧ s.amps.map (fun kv => kv.2) = amps := by
  obtain ⟨ha, hm, hnd⟩ := mbFold_spec _ s amps h
  have hcb : s.amps.map (fun kv => kv.2) = amps := by
    rw [ha]; simp [List.map_map, Function.comp_def]
  have hmem : ∀ b, b ∈ s.bands ↔ b ∈ amps := by
    intro b; rw [hm]; exact ⟨fun hb => hb.elim (hsub b) id, Or.inr⟩
  refine ⟨?_, hcb⟩
  rw [hcb]
  exact ⟨pairwise_of_nodup_subset (hnd hn) (fun b hb => (hmem b).1 hb) hd, hd, fun c => inAny_congr_mem hmem c⟩

theorem dedupBands_mem (l : List Band) (b : Band) : b ∈ dedupBands l ↔ b ∈ l := by
  induction l with
  | nil => simp [dedupBands]
  | cons x r ih =>
    simp only [dedupBands, List.mem_cons, List.mem_filter, ih]
    constructor
    · rintro (h | ⟨h, _⟩)
      · exact Or.inl h
      · exact Or.inr h
    · rintro (h | h)
      · exact Or.inl h
      · by_cases hx : b = x
        · exact Or.inl hx
        · exact Or.inr ⟨h, by simpa using hx⟩

theorem dedupBands_nodup (l : List Band) : (dedupBands l).Nodup := by
  induction l with
  | nil => simp [dedupBands]
  | cons x r ih =>
    simp only [dedupBands]
    refine List.nodup_cons.2 ⟨by simp [List.mem_filter], ih.filter _⟩

end Gnpy.Bands
