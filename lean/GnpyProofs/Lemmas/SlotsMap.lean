import GnpyProofs.Lemmas.Slots
/- Helper lemmas for C15: index conversions, band cells of an OMS map, insert_left/right and align_grids. -/
namespace Gnpy.Py

theorem mapE_ok {α β ε : Type} (f : α → Except ε β) : ∀ (l : List α) (r : List β), mapE f l = .ok r →
    r.length = l.length ∧ ∀ (i : Nat) (a : α), l[i]? = some a → ∃ b, r[i]? = some b ∧ f a = .ok b := by
  intro l
  induction l with
  | nil =>
    intro r h
    have : r = [] := by simpa [mapE, pure, Except.pure] using h.symm
    subst this; simp
  | cons x xs ih =>
    intro r h
    simp only [mapE, bind, Except.bind] at h
    cases hx : f x with
    | error e => rw [hx] at h; cases h
    | ok y =>
      rw [hx] at h
      simp only at h
      cases hr : mapE f xs with
      | error e => rw [hr] at h; cases h
      | ok ys =>
        rw [hr] at h
        have : r = y :: ys := by simpa [pure, Except.pure] using h.symm
        subst this
        obtain ⟨i1, i2⟩ := ih ys hr
        refine ⟨by simp [i1], ?_⟩
        intro i a ha
        cases i with
        | zero =>
          simp only [List.getElem?_cons_zero, Option.some.injEq] at ha
          subst ha
          exact ⟨y, by simp, hx⟩
        | succ i =>
          simp only [List.getElem?_cons_succ] at ha ⊢
          exact i2 i a ha

theorem intRange_append (a b c : Int) (h1 : a ≤ b) (h2 : b ≤ c) : intRange a b ++ intRange b c = intRange a c := by
  apply List.ext_getElem?
  intro k
  rw [List.getElem?_append, length_intRange, getElem?_intRange, getElem?_intRange, getElem?_intRange]
  by_cases hk : k < (b - a).toNat
  · have : k < (c - a).toNat := by omega
    simp [hk, this]
  · simp only [hk, if_false]
    by_cases hk2 : k - (b - a).toNat < (c - b).toNat
    · have : k < (c - a).toNat := by omega
      simp only [hk2, this, if_true]
      congr 1; omega
    · have : ¬ k < (c - a).toNat := by omega
      simp [hk2, this]

theorem head?_intRange (a b : Int) (h : a < b) : (intRange a b).head? = some a := by
  rw [List.head?_eq_getElem?, getElem?_intRange]
  have : 0 < (b - a).toNat := by omega
  simp [this]

theorem getLast?_intRange (a b : Int) (h : a < b) : (intRange a b).getLast? = some (b - 1) := by
  rw [List.getLast?_eq_getElem?, length_intRange, getElem?_intRange]
  have : (b - a).toNat - 1 < (b - a).toNat := by omega
  simp only [this, if_true]
  congr 1; omega

end Gnpy.Py

namespace Gnpy.Slots
open Gnpy.Py

/-! ### index conversions -/

theorem tdiv_grid' (a : Int) : a.tdiv 6250000000 = if 0 ≤ a then a / 6250000000 else -((-a) / 6250000000) := by
  split
  · next h => exact Int.tdiv_eq_ediv_of_nonneg h
  · next h =>
    have : a = -(-a) := by omega
    rw [this, Int.neg_tdiv, Int.tdiv_eq_ediv_of_nonneg (by omega)]
    simp

theorem slotsToM_mToSlots (n m : Int) :
    slotsToM (mToSlots n m).1 (mToSlots n m).2 = (n, m) ∧ (mToSlots n m).2 - (mToSlots n m).1 + 1 = 2 * m := by
  unfold slotsToM mToSlots truncDiv
  simp only
  refine ⟨?_, by omega⟩
  rw [show n - m + (n + m - 1) + 1 = 2 * n by omega, show n + m - 1 - (n - m) + 1 = 2 * m by omega,
    Int.mul_tdiv_cancel_left n (by decide), Int.mul_tdiv_cancel_left m (by decide)]

theorem frequencyToN_nToFrequency_grid (n grid : Int) (hg : grid ≠ 0) : frequencyToN (nToFrequency n grid) grid = n := by
  unfold frequencyToN nToFrequency truncDiv
  rw [show anchorHz + n * grid - anchorHz = n * grid by omega]
  exact Int.mul_tdiv_cancel n hg

/-! ### the cells of an OMS map -/

/-- the band layout fits: bands ascending in slot index, separated by at least one index from what precedes, and ending
    not above `nMax` -/
def LayoutOK (grid : Int) : Int → List Band → Int → Prop
  | prev, [], nMax => prev ≤ nMax
  | prev, b :: bs, nMax =>
    prev < bandLo b.1 grid ∧ bandLo b.1 grid ≤ bandHi b.2 grid ∧ LayoutOK grid (bandHi b.2 grid) bs nMax

/-- slot index `x` lies in one of the bands (index view) -/
def InBands (grid : Int) (bands : List Band) (x : Int) : Prop :=
  ∃ b ∈ bands, bandLo b.1 grid ≤ x ∧ x ≤ bandHi b.2 grid

theorem layout_le (grid : Int) : ∀ (bands : List Band) (prev nMax : Int), LayoutOK grid prev bands nMax → prev ≤ nMax := by
  intro bands
  induction bands with
  | nil => intro prev nMax h; exact h
  | cons b bs ih =>
    intro prev nMax h
    obtain ⟨h1, h2, h3⟩ := h
    have := ih _ _ h3
    omega

theorem layout_inBands (grid : Int) : ∀ (bands : List Band) (prev nMax : Int), LayoutOK grid prev bands nMax →
    ∀ x, InBands grid bands x → prev < x ∧ x ≤ nMax := by
  intro bands
  induction bands with
  | nil => intro prev nMax _ x hx; obtain ⟨c, hc, _⟩ := hx; cases hc
  | cons b bs ih =>
    intro prev nMax h x hx
    obtain ⟨h1, h2, h3⟩ := h
    obtain ⟨c, hc, hc1, hc2⟩ := hx
    rcases List.mem_cons.1 hc with rfl | hc
    · have := layout_le grid bs _ _ h3
      omega
    · have := ih _ _ h3 x ⟨c, hc, hc1, hc2⟩
      omega

theorem bandCells_spec (grid : Int) : ∀ (bands : List Band) (prev nMax : Int), LayoutOK grid prev bands nMax →
    prev ≤ (bandCells grid prev bands).2 ∧ (bandCells grid prev bands).2 ≤ nMax ∧
    (bandCells grid prev bands).1.length = ((bandCells grid prev bands).2 - prev).toNat ∧
    (∀ x, InBands grid bands x → x ≤ (bandCells grid prev bands).2) ∧
    ∀ k : Nat, k < (bandCells grid prev bands).1.length →
      ((bandCells grid prev bands).1[k]? = some Cell.free ∧ InBands grid bands (prev + 1 + k)) ∨
      ((bandCells grid prev bands).1[k]? = some Cell.unusable ∧ ¬ InBands grid bands (prev + 1 + k)) := by
  intro bands
  induction bands with
  | nil =>
    intro prev nMax h
    simp only [LayoutOK] at h
    refine ⟨by simp [bandCells], by simpa [bandCells] using h, by simp [bandCells], ?_, by simp [bandCells]⟩
    rintro x ⟨c, hc, _⟩; cases hc
  | cons b bs ih =>
    intro prev nMax h
    have hall := h
    simp only [LayoutOK] at h
    obtain ⟨h1, h2, h3⟩ := h
    obtain ⟨i1, i2, i3, i5, i4⟩ := ih (bandHi b.2 grid) nMax h3
    have later := layout_inBands grid bs _ _ h3
    simp only [bandCells]
    have hl1 : (rep (bandLo b.1 grid - prev - 1) Cell.unusable).length = (bandLo b.1 grid - prev - 1).toNat :=
      length_rep _ _
    have hl2 : (rep (bandHi b.2 grid - bandLo b.1 grid + 1) Cell.free).length =
        (bandHi b.2 grid - bandLo b.1 grid + 1).toNat := length_rep _ _
    refine ⟨by omega, i2, ?_, ?_, ?_⟩
    · simp only [List.length_append, hl1, hl2, i3]; omega
    · rintro x ⟨c, hc, hc1, hc2⟩
      rcases List.mem_cons.1 hc with rfl | hc
      · omega
      · exact i5 x ⟨c, hc, hc1, hc2⟩
    · intro k hk
      simp only [List.length_append, hl1, hl2] at hk
      rw [List.append_assoc, List.getElem?_append, hl1]
      by_cases c1 : k < (bandLo b.1 grid - prev - 1).toNat
      · right
        simp only [c1, if_true, getElem?_rep]
        refine ⟨trivial, ?_⟩
        rintro ⟨c, hc, hc1, hc2⟩
        rcases List.mem_cons.1 hc with rfl | hc
        · omega
        · have := (later _ ⟨c, hc, hc1, hc2⟩).1
          omega
      · simp only [c1, if_false]
        rw [List.getElem?_append, hl2]
        by_cases c2 : k - (bandLo b.1 grid - prev - 1).toNat < (bandHi b.2 grid - bandLo b.1 grid + 1).toNat
        · left
          simp only [c2, if_true, getElem?_rep]
          exact ⟨trivial, b, List.mem_cons_self, by omega, by omega⟩
        · simp only [c2, if_false]
          have hk' : k - (bandLo b.1 grid - prev - 1).toNat - (bandHi b.2 grid - bandLo b.1 grid + 1).toNat <
              (bandCells grid (bandHi b.2 grid) bs).1.length := by omega
          have hx : bandHi b.2 grid + 1 +
              ((k - (bandLo b.1 grid - prev - 1).toNat - (bandHi b.2 grid - bandLo b.1 grid + 1).toNat : Nat) : Int)
              = prev + 1 + (k : Int) := by omega
          rcases i4 _ hk' with ⟨g1, g2⟩ | ⟨g1, g2⟩
          · left
            rw [hx] at g2
            obtain ⟨c, hc, hc1, hc2⟩ := g2
            exact ⟨g1, c, List.mem_cons_of_mem _ hc, hc1, hc2⟩
          · right
            rw [hx] at g2
            refine ⟨g1, ?_⟩
            rintro ⟨c, hc, hc1, hc2⟩
            rcases List.mem_cons.1 hc with rfl | hc
            · omega
            · exact g2 ⟨c, hc, hc1, hc2⟩

/-- `create_oms_bitmap` for a fitting band layout: one cell per index of `[n(f_min), n(f_max)]`, free exactly on the
    indices of the bands, unusable elsewhere (never occupied) -/
theorem createOmsBitmap_spec (bands : List Band) (fMin fMax grid : Int) (cells : List Cell)
    (hl : LayoutOK grid (frequencyToN fMin grid - 1) bands (frequencyToN fMax grid))
    (h : createOmsBitmap bands fMin fMax grid = .ok cells) :
    cells.length = (frequencyToN fMax grid - frequencyToN fMin grid + 1).toNat ∧
    ∀ k : Nat, k < cells.length →
      (cells[k]? = some Cell.free ∧ InBands grid bands (frequencyToN fMin grid + k)) ∨
      (cells[k]? = some Cell.unusable ∧ ¬ InBands grid bands (frequencyToN fMin grid + k)) := by
  unfold createOmsBitmap at h
  split at h
  · cases h
  · cases bands with
    | nil => cases h
    | cons b bs =>
      simp only [pure, Except.pure, Except.ok.injEq] at h
      obtain ⟨i1, i2, i3, i5, i4⟩ := bandCells_spec grid (b :: bs) _ _ hl
      have hr : (rep (frequencyToN fMax grid - (bandCells grid (frequencyToN fMin grid - 1) (b :: bs)).2) Cell.unusable).length =
          (frequencyToN fMax grid - (bandCells grid (frequencyToN fMin grid - 1) (b :: bs)).2).toNat := length_rep _ _
      subst h
      refine ⟨by simp only [List.length_append, hr, i3]; omega, ?_⟩
      intro k hk
      simp only [List.length_append, hr] at hk
      rw [List.getElem?_append]
      by_cases c1 : k < (bandCells grid (frequencyToN fMin grid - 1) (b :: bs)).1.length
      · simp only [c1, if_true]
        have := i4 k c1
        rwa [show frequencyToN fMin grid - 1 + 1 + (k : Int) = frequencyToN fMin grid + k by omega] at this
      · right
        simp only [c1, if_false, getElem?_rep]
        have : k - (bandCells grid (frequencyToN fMin grid - 1) (b :: bs)).1.length <
            (frequencyToN fMax grid - (bandCells grid (frequencyToN fMin grid - 1) (b :: bs)).2).toNat := by omega
        simp only [this, if_true, true_and]
        intro hin
        have := i5 _ hin
        omega


/-! ### insert_left / insert_right / align_grids -/

/-- well formed and not degenerate (`n_min ≤ n_max + 1`, true for every map built with `f_min ≤ f_max`) -/
def Bitmap.WF1 (b : Bitmap) : Prop := b.WF ∧ b.nMin ≤ b.nMax + 1

theorem Bitmap.cellAt_none_of_gt (b : Bitmap) (h : b.WF) (x : Int) (hx : b.nMax < x) : b.cellAt x = none := by
  cases hc : b.cellAt x with
  | none => rfl
  | some c => have := Bitmap.cellAt_lt b h x c hc; omega

theorem Bitmap.cellAt_none_of_lt (b : Bitmap) (x : Int) (hx : x < b.nMin) : b.cellAt x = none := by
  unfold Bitmap.cellAt
  have : ¬ b.nMin ≤ x := by omega
  simp [this]

theorem insertLeft_spec (b b' : Bitmap) (hwf : b.WF1) (k : Int) (hk : 0 < k) (c : Cell)
    (h : b.insertLeft (rep k c) = .ok b') :
    b'.WF1 ∧ b'.nMin = b.nMin - k ∧ b'.nMax = b.nMax ∧
    ∀ x, b'.cellAt x = if b.nMin - k ≤ x ∧ x < b.nMin then some c else b.cellAt x := by
  obtain ⟨⟨w1, w2⟩, w3⟩ := hwf
  unfold Bitmap.insertLeft at h
  have hlen : ((rep k c).length : Int) = k := by rw [length_rep]; omega
  rw [hlen, w1, intRange_append _ _ _ (by omega) (by omega)] at h
  have hne : intRange (b.nMin - k) (b.nMax + 1) ≠ [] := by
    intro hh
    have := congrArg List.length hh
    rw [length_intRange] at this; simp at this; omega
  cases hfi : intRange (b.nMin - k) (b.nMax + 1) with
  | nil => exact absurd hfi hne
  | cons f0 rest =>
    rw [hfi] at h
    have hf0 : f0 = b.nMin - k := by
      have := head?_intRange (b.nMin - k) (b.nMax + 1) (by omega)
      rw [hfi] at this; simpa using this
    have hb' : b' = { b with cells := rep k c ++ b.cells, freqIndex := f0 :: rest, nMin := f0 } := by
      simpa [pure, Except.pure] using h.symm
    subst hb'
    subst hf0
    refine ⟨⟨⟨?_, ?_⟩, ?_⟩, rfl, rfl, ?_⟩
    · exact hfi.symm
    · show (rep k c ++ b.cells).length = ((b.nMin - k) :: rest).length
      rw [← hfi, List.length_append, length_rep, length_intRange, w2, w1, length_intRange]; omega
    · show b.nMin - k ≤ b.nMax + 1
      omega
    · intro x
      unfold Bitmap.cellAt
      simp only
      by_cases hx : b.nMin - k ≤ x
      · simp only [hx, if_true, true_and]
        rw [List.getElem?_append, length_rep]
        by_cases hx2 : x < b.nMin
        · have : (x - (b.nMin - k)).toNat < k.toNat := by omega
          simp only [this, hx2, if_true, getElem?_rep]
        · have : ¬ (x - (b.nMin - k)).toNat < k.toNat := by omega
          have h3 : b.nMin ≤ x := by omega
          simp only [this, hx2, if_false, h3, if_true]
          congr 1; omega
      · have h3 : ¬ b.nMin ≤ x := by omega
        simp [hx, h3]

theorem insertRight_spec (b b' : Bitmap) (hwf : b.WF1) (k : Int) (hk : 0 < k) (c : Cell)
    (h : b.insertRight (rep k c) = .ok b') :
    b'.WF1 ∧ b'.nMin = b.nMin ∧ b'.nMax = b.nMax + k ∧
    ∀ x, b'.cellAt x = if b.nMax < x ∧ x ≤ b.nMax + k then some c else b.cellAt x := by
  obtain ⟨⟨w1, w2⟩, w3⟩ := hwf
  unfold Bitmap.insertRight at h
  have hlen : ((rep k c).length : Int) = k := by rw [length_rep]; omega
  rw [hlen, w1, intRange_append _ _ _ (by omega) (by omega)] at h
  have hl := getLast?_intRange b.nMin (b.nMax + 1 + k) (by omega)
  dsimp only at h
  rw [hl] at h
  have hb' : b' = { b with cells := b.cells ++ rep k c, freqIndex := intRange b.nMin (b.nMax + 1 + k),
                           nMax := b.nMax + 1 + k - 1 } := by
    simpa [pure, Except.pure] using h.symm
  subst hb'
  have hcl : b.cells.length = (b.nMax + 1 - b.nMin).toNat := by rw [w2, w1, length_intRange]
  refine ⟨⟨⟨?_, ?_⟩, ?_⟩, rfl, by show b.nMax + 1 + k - 1 = b.nMax + k; omega, ?_⟩
  · show intRange b.nMin (b.nMax + 1 + k) = intRange b.nMin (b.nMax + 1 + k - 1 + 1)
    rw [show b.nMax + 1 + k - 1 + 1 = b.nMax + 1 + k by omega]
  · show (b.cells ++ rep k c).length = (intRange b.nMin (b.nMax + 1 + k)).length
    rw [List.length_append, length_rep, length_intRange, hcl]; omega
  · show b.nMin ≤ b.nMax + 1 + k - 1 + 1
    omega
  · intro x
    unfold Bitmap.cellAt
    simp only
    by_cases hx : b.nMin ≤ x
    · simp only [hx, if_true]
      rw [List.getElem?_append, hcl]
      by_cases hx2 : x ≤ b.nMax
      · have : (x - b.nMin).toNat < (b.nMax + 1 - b.nMin).toNat := by omega
        have h4 : ¬ (b.nMax < x ∧ x ≤ b.nMax + k) := by omega
        simp only [this, if_true, h4, if_false]
      · have : ¬ (x - b.nMin).toNat < (b.nMax + 1 - b.nMin).toNat := by omega
        simp only [this, if_false, getElem?_rep]
        by_cases hx3 : x ≤ b.nMax + k
        · have h5 : (x - b.nMin).toNat - (b.nMax + 1 - b.nMin).toNat < k.toNat := by omega
          have h6 : b.nMax < x ∧ x ≤ b.nMax + k := by omega
          simp only [h5, h6, and_self, if_true]
        · have h5 : ¬ (x - b.nMin).toNat - (b.nMax + 1 - b.nMin).toNat < k.toNat := by omega
          have h6 : ¬ (b.nMax < x ∧ x ≤ b.nMax + k) := by omega
          simp only [h5, h6, if_false]
          rw [List.getElem?_eq_none (by omega)]
    · have h6 : ¬ (b.nMax < x ∧ x ≤ b.nMax + k) := by omega
      simp [hx, h6]

/-- one map through the loop body of `align_grids` -/
theorem alignOne_spec (lo hi : Int) (b b' : Bitmap) (hwf : b.WF1) (hlo : lo ≤ b.nMin) (hhi : b.nMax ≤ hi)
    (h : alignOne lo hi b = .ok b') :
    b'.WF1 ∧ b'.nMin = lo ∧ b'.nMax = hi ∧
    ∀ x, b'.cellAt x = if b.nMin ≤ x ∧ x ≤ b.nMax then b.cellAt x
                       else if lo ≤ x ∧ x ≤ hi then some Cell.occupied else none := by
  simp only [alignOne, bind, Except.bind] at h
  cases e1 : alignLeft lo b with
  | error e => rw [e1] at h; cases h
  | ok b1 =>
  rw [e1] at h
  simp only at h
  -- left part
  have left : b1.WF1 ∧ b1.nMin = lo ∧ b1.nMax = b.nMax ∧
      ∀ x, b1.cellAt x = if lo ≤ x ∧ x < b.nMin then some Cell.occupied else b.cellAt x := by
    unfold alignLeft at e1
    by_cases hc : b.nMin - lo > 0
    · rw [if_pos hc] at e1
      obtain ⟨a1, a2, a3, a4⟩ := insertLeft_spec b b1 hwf _ hc _ e1
      refine ⟨a1, by omega, a3, ?_⟩
      intro x; rw [a4 x, show b.nMin - (b.nMin - lo) = lo by omega]
    · rw [if_neg hc] at e1
      have : b1 = b := by simpa [pure, Except.pure] using e1.symm
      subst this
      refine ⟨hwf, by omega, rfl, ?_⟩
      intro x
      have : ¬ (lo ≤ x ∧ x < b1.nMin) := by omega
      simp [this]
  obtain ⟨w1, n1, n2, c1⟩ := left
  unfold alignRight at h
  have key : ∀ x, (if lo ≤ x ∧ x < b.nMin then some Cell.occupied else b.cellAt x) =
      if b.nMin ≤ x ∧ x ≤ b.nMax then b.cellAt x else if lo ≤ x ∧ x ≤ b.nMax then some Cell.occupied else none := by
    intro x
    have hw := hwf.2
    by_cases hx1 : x < b.nMin
    · have h1 : ¬ (b.nMin ≤ x ∧ x ≤ b.nMax) := by omega
      by_cases hx0 : lo ≤ x
      · have h2 : lo ≤ x ∧ x < b.nMin := ⟨hx0, hx1⟩
        have h3 : lo ≤ x ∧ x ≤ b.nMax := by omega
        rw [if_pos h2, if_neg h1, if_pos h3]
      · have h2 : ¬ (lo ≤ x ∧ x < b.nMin) := by omega
        have h3 : ¬ (lo ≤ x ∧ x ≤ b.nMax) := by omega
        rw [if_neg h2, if_neg h1, if_neg h3]
        exact Bitmap.cellAt_none_of_lt b x hx1
    · have h2 : ¬ (lo ≤ x ∧ x < b.nMin) := by omega
      rw [if_neg h2]
      by_cases hx2 : x ≤ b.nMax
      · have h1 : b.nMin ≤ x ∧ x ≤ b.nMax := by omega
        rw [if_pos h1]
      · have h1 : ¬ (b.nMin ≤ x ∧ x ≤ b.nMax) := by omega
        have h3 : ¬ (lo ≤ x ∧ x ≤ b.nMax) := by omega
        rw [if_neg h1, if_neg h3]
        exact Bitmap.cellAt_none_of_gt b hwf.1 x (by omega)
  by_cases hc : hi - b1.nMax > 0
  · rw [if_pos hc] at h
    obtain ⟨a1, a2, a3, a4⟩ := insertRight_spec b1 b' w1 _ hc _ h
    refine ⟨a1, by omega, by omega, ?_⟩
    intro x
    rw [a4 x, c1 x, key x, n2]
    have hw := hwf.2
    by_cases hx : b.nMax < x ∧ x ≤ b.nMax + (hi - b.nMax)
    · have h1 : ¬ (b.nMin ≤ x ∧ x ≤ b.nMax) := by omega
      have h3 : lo ≤ x ∧ x ≤ hi := by omega
      rw [if_pos hx, if_neg h1, if_pos h3]
    · rw [if_neg hx]
      by_cases h1 : b.nMin ≤ x ∧ x ≤ b.nMax
      · rw [if_pos h1, if_pos h1]
      · rw [if_neg h1, if_neg h1]
        by_cases h3 : lo ≤ x ∧ x ≤ b.nMax
        · have h4 : lo ≤ x ∧ x ≤ hi := by omega
          rw [if_pos h3, if_pos h4]
        · have h4 : ¬ (lo ≤ x ∧ x ≤ hi) := by omega
          rw [if_neg h3, if_neg h4]
  · rw [if_neg hc] at h
    have : b' = b1 := by simpa [pure, Except.pure] using h.symm
    subst this
    have hh : hi = b.nMax := by omega
    refine ⟨w1, n1, by omega, ?_⟩
    intro x
    rw [c1 x, key x, hh]

theorem foldl_min_spec (bs : List Bitmap) : ∀ a : Int,
    bs.foldl (fun a b => if b.nMin < a then b.nMin else a) a ≤ a ∧
    (∀ b ∈ bs, bs.foldl (fun a b => if b.nMin < a then b.nMin else a) a ≤ b.nMin) ∧
    (bs.foldl (fun a b => if b.nMin < a then b.nMin else a) a = a ∨
      ∃ b ∈ bs, bs.foldl (fun a b => if b.nMin < a then b.nMin else a) a = b.nMin) := by
  induction bs with
  | nil => intro a; simp
  | cons c cs ih =>
    intro a
    simp only [List.foldl_cons]
    obtain ⟨i1, i2, i3⟩ := ih (if c.nMin < a then c.nMin else a)
    by_cases hca : c.nMin < a
    · simp only [hca, if_true] at i1 i2 i3 ⊢
      refine ⟨by omega, ?_, ?_⟩
      · intro b hb
        rcases List.mem_cons.1 hb with rfl | hb
        · exact i1
        · exact i2 b hb
      · right
        rcases i3 with i3 | ⟨b, hb, i3⟩
        · exact ⟨c, List.mem_cons_self, i3⟩
        · exact ⟨b, List.mem_cons_of_mem _ hb, i3⟩
    · simp only [hca, if_false] at i1 i2 i3 ⊢
      refine ⟨i1, ?_, ?_⟩
      · intro b hb
        rcases List.mem_cons.1 hb with rfl | hb
        · omega
        · exact i2 b hb
      · rcases i3 with i3 | ⟨b, hb, i3⟩
        · exact Or.inl i3
        · exact Or.inr ⟨b, List.mem_cons_of_mem _ hb, i3⟩

theorem foldl_max_spec (bs : List Bitmap) : ∀ a : Int,
    a ≤ bs.foldl (fun a b => if b.nMax > a then b.nMax else a) a ∧
    (∀ b ∈ bs, b.nMax ≤ bs.foldl (fun a b => if b.nMax > a then b.nMax else a) a) ∧
    (bs.foldl (fun a b => if b.nMax > a then b.nMax else a) a = a ∨
      ∃ b ∈ bs, bs.foldl (fun a b => if b.nMax > a then b.nMax else a) a = b.nMax) := by
  induction bs with
  | nil => intro a; simp
  | cons c cs ih =>
    intro a
    simp only [List.foldl_cons]
    obtain ⟨i1, i2, i3⟩ := ih (if c.nMax > a then c.nMax else a)
    by_cases hca : c.nMax > a
    · simp only [hca, if_true] at i1 i2 i3 ⊢
      refine ⟨by omega, ?_, ?_⟩
      · intro b hb
        rcases List.mem_cons.1 hb with rfl | hb
        · exact i1
        · exact i2 b hb
      · right
        rcases i3 with i3 | ⟨b, hb, i3⟩
        · exact ⟨c, List.mem_cons_self, i3⟩
        · exact ⟨b, List.mem_cons_of_mem _ hb, i3⟩
    · simp only [hca, if_false] at i1 i2 i3 ⊢
      refine ⟨i1, ?_, ?_⟩
      · intro b hb
        rcases List.mem_cons.1 hb with rfl | hb
        · omega
        · exact i2 b hb
      · rcases i3 with i3 | ⟨b, hb, i3⟩
        · exact Or.inl i3
        · exact Or.inr ⟨b, List.mem_cons_of_mem _ hb, i3⟩

/-- `align_grids`: every map ends on the common range `[lo, hi]` (lowest `n_min`, highest `n_max`), with the contiguous
    index list of that range (each index once), every old cell at its old index and the added cells occupied -/
theorem alignGrids_spec (l l' : List Bitmap) (hwf : ∀ b ∈ l, b.WF1) (h : alignGrids l = .ok l') :
    ∃ lo hi, (∀ b ∈ l, lo ≤ b.nMin ∧ b.nMax ≤ hi) ∧ (∃ b ∈ l, b.nMin = lo) ∧ (∃ b ∈ l, b.nMax = hi) ∧
      l'.length = l.length ∧
      ∀ (i : Nat) (b : Bitmap), l[i]? = some b → ∃ b', l'[i]? = some b' ∧ b'.WF1 ∧ b'.nMin = lo ∧ b'.nMax = hi ∧
        ∀ x, b'.cellAt x = if b.nMin ≤ x ∧ x ≤ b.nMax then b.cellAt x
                           else if lo ≤ x ∧ x ≤ hi then some Cell.occupied else none := by
  unfold alignGrids at h
  cases l with
  | nil => cases h
  | cons b0 bs =>
    simp only at h
    obtain ⟨m1, m2, m3⟩ := foldl_min_spec bs b0.nMin
    obtain ⟨x1, x2, x3⟩ := foldl_max_spec bs b0.nMax
    have hb : ∀ b ∈ b0 :: bs, bs.foldl (fun a b => if b.nMin < a then b.nMin else a) b0.nMin ≤ b.nMin ∧
        b.nMax ≤ bs.foldl (fun a b => if b.nMax > a then b.nMax else a) b0.nMax := by
      intro b hb
      rcases List.mem_cons.1 hb with rfl | hb
      · exact ⟨m1, x1⟩
      · exact ⟨m2 b hb, x2 b hb⟩
    obtain ⟨e1, e2⟩ := mapE_ok _ _ _ h
    refine ⟨_, _, hb, ?_, ?_, e1, ?_⟩
    · rcases m3 with m3 | ⟨b, hb', m3⟩
      · exact ⟨b0, List.mem_cons_self, m3.symm⟩
      · exact ⟨b, List.mem_cons_of_mem _ hb', m3.symm⟩
    · rcases x3 with x3 | ⟨b, hb', x3⟩
      · exact ⟨b0, List.mem_cons_self, x3.symm⟩
      · exact ⟨b, List.mem_cons_of_mem _ hb', x3.symm⟩
    intro i b hib
    obtain ⟨b', g1, g2⟩ := e2 i b hib
    have hmem : b ∈ b0 :: bs := List.mem_of_getElem? hib
    obtain ⟨a1, a2, a3, a4⟩ := alignOne_spec _ _ b b' (hwf b hmem) (hb b hmem).1 (hb b hmem).2 g2
    exact ⟨b', g1, a1, a2, a3, a4⟩

end Gnpy.Slots
