import GnpyModel.RoundHE
import GnpyProofs.RealInst
import Mathlib.Algebra.Order.Floor.Ring
import Mathlib.Algebra.Order.Round
import Mathlib.Algebra.Ring.Parity
import Mathlib.Tactic.Ring
import Mathlib.Tactic.Linarith
import Mathlib.Tactic.NormNum
import Mathlib.Tactic.FieldSimp
/-
The real-number instance of round-half-even (`numpy.rint`) and of `round(x, 2)`; monotone, within half a unit,
identity on the grid.
-/
namespace Gnpy.HE

/-- `numpy.rint` on ℝ, written like `rintFloat` -/
noncomputable def rintR (x : ℝ) : ℝ :=
  if Int.fract x < 1 / 2 then (⌊x⌋ : ℝ)
  else if 1 / 2 < Int.fract x then (⌊x⌋ : ℝ) + 1
  else if Even ⌊x⌋ then (⌊x⌋ : ℝ) else (⌊x⌋ : ℝ) + 1

noncomputable instance : Rint ℝ := ⟨rintR⟩

@[simp] theorem rint_real (x : ℝ) : Rint.rint x = rintR x := rfl

theorem floor_le_rintR (x : ℝ) : (⌊x⌋ : ℝ) ≤ rintR x := by
  unfold rintR; split_ifs <;> linarith

theorem rintR_le_floor_add_one (x : ℝ) : rintR x ≤ (⌊x⌋ : ℝ) + 1 := by
  unfold rintR; split_ifs <;> linarith

theorem abs_rintR_sub_le (x : ℝ) : |rintR x - x| ≤ 1 / 2 := by
  have h1 := Int.self_sub_floor x
  have h0 := Int.fract_nonneg x
  have h2 := Int.fract_lt_one x
  unfold rintR
  rw [abs_le]
  split_ifs with a b c <;> constructor <;> linarith

theorem rintR_intCast (n : ℤ) : rintR (n : ℝ) = n := by
  unfold rintR
  simp

theorem rintR_mono {x y : ℝ} (h : x ≤ y) : rintR x ≤ rintR y := by
  rcases lt_or_eq_of_le (Int.floor_le_floor h) with hf | hf
  · have : (⌊x⌋ : ℝ) + 1 ≤ (⌊y⌋ : ℝ) := by exact_mod_cast hf
    exact le_trans (rintR_le_floor_add_one x) (le_trans this (floor_le_rintR y))
  · have hx := Int.self_sub_floor x
    have hy := Int.self_sub_floor y
    have hfr : Int.fract x ≤ Int.fract y := by rw [← hx, ← hy, hf]; linarith
    unfold rintR
    rw [hf]
    split_ifs <;> linarith

section
/-- `round(x, 2)` over ℝ -/
theorem round2_real (x : ℝ) : round2 x = rintR (x * 100) / 100 := by
  simp [round2]

theorem round2_mono {x y : ℝ} (h : x ≤ y) : round2 x ≤ round2 y := by
  rw [round2_real, round2_real]
  have : rintR (x * 100) ≤ rintR (y * 100) := rintR_mono (by linarith)
  linarith

theorem abs_round2_sub_le (x : ℝ) : |round2 x - x| ≤ 1 / 200 := by
  rw [round2_real]
  have h := abs_rintR_sub_le (x * 100)
  rw [abs_le] at h ⊢
  constructor <;> linarith [h.1, h.2]

/-- a value with two decimals is its own rounding -/
theorem round2_grid (k : ℤ) : round2 ((k : ℝ) / 100) = (k : ℝ) / 100 := by
  rw [round2_real]
  have : (k : ℝ) / 100 * 100 = (k : ℝ) := by ring
  rw [this, rintR_intCast]

end
end Gnpy.HE
