import GnpyProofs.RealInst
import Mathlib.Tactic.Ring
import Mathlib.Tactic.Linarith
import Mathlib.Tactic.FieldSimp
import Mathlib.Tactic.Positivity
import Mathlib.Tactic.NormNum
/-
Algebra of the dB helpers over ℝ: `db2lin` is a positive strictly monotone homomorphism
(ℝ,+) → (ℝ>0,·) with inverse `lin2db`.
-/
namespace Gnpy

theorem log10_pos : (0:ℝ) < Real.log 10 := Real.log_pos (by norm_num)
theorem log10_ne : Real.log 10 ≠ 0 := ne_of_gt log10_pos

theorem db2lin_eq (x : ℝ) : db2lin x = Real.exp (x / 10 * Real.log 10) := by
  simp [db2lin]

theorem lin2db_eq (x : ℝ) : lin2db x = 10 * (Real.log x / Real.log 10) := by
  simp [lin2db]

theorem db2lin_pos (x : ℝ) : 0 < db2lin x := by
  rw [db2lin_eq]; exact Real.exp_pos _

theorem db2lin_zero : db2lin (0:ℝ) = 1 := by
  rw [db2lin_eq]; simp

theorem db2lin_add (x y : ℝ) : db2lin (x + y) = db2lin x * db2lin y := by
  rw [db2lin_eq, db2lin_eq, db2lin_eq, ← Real.exp_add]; congr 1; ring

theorem db2lin_neg (x : ℝ) : db2lin (-x) = (db2lin x)⁻¹ := by
  rw [db2lin_eq, db2lin_eq, ← Real.exp_neg]; congr 1; ring

theorem db2lin_sub (x y : ℝ) : db2lin (x - y) = db2lin x / db2lin y := by
  rw [sub_eq_add_neg, db2lin_add, db2lin_neg, div_eq_mul_inv]

theorem db2lin_lin2db (x : ℝ) (hx : 0 < x) : db2lin (lin2db x) = x := by
  rw [db2lin_eq, lin2db_eq]
  have h : 10 * (Real.log x / Real.log 10) / 10 * Real.log 10 = Real.log x := by
    field_simp [log10_ne]
  rw [h]; exact Real.exp_log hx

theorem lin2db_db2lin (x : ℝ) : lin2db (db2lin x) = x := by
  rw [db2lin_eq, lin2db_eq, Real.log_exp]; field_simp [log10_ne]

theorem db2lin_le_iff (x y : ℝ) : db2lin x ≤ db2lin y ↔ x ≤ y := by
  rw [db2lin_eq, db2lin_eq, Real.exp_le_exp]
  constructor
  · intro h
    have := (mul_le_mul_iff_of_pos_right log10_pos).1 h
    linarith
  · intro h
    exact mul_le_mul_of_nonneg_right (by linarith) (le_of_lt log10_pos)

theorem db2lin_lt_iff (x y : ℝ) : db2lin x < db2lin y ↔ x < y := by
  rw [← not_le, ← not_le, db2lin_le_iff]

theorem lin2db_mul (x y : ℝ) (hx : 0 < x) (hy : 0 < y) : lin2db (x * y) = lin2db x + lin2db y := by
  rw [lin2db_eq, lin2db_eq, lin2db_eq, Real.log_mul (ne_of_gt hx) (ne_of_gt hy)]; ring

theorem lin2db_div (x y : ℝ) (hx : 0 < x) (hy : 0 < y) : lin2db (x / y) = lin2db x - lin2db y := by
  rw [lin2db_eq, lin2db_eq, lin2db_eq, Real.log_div (ne_of_gt hx) (ne_of_gt hy)]; ring

theorem lin2db_le_iff (x y : ℝ) (hx : 0 < x) (hy : 0 < y) : lin2db x ≤ lin2db y ↔ x ≤ y := by
  rw [← db2lin_le_iff, db2lin_lin2db x hx, db2lin_lin2db y hy]

end Gnpy
