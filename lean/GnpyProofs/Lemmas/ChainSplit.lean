import GnpyModel
import GnpyProofs.Lemmas.ChainNum
import GnpyProofs.Lemmas.ChainList
import Mathlib.Algebra.BigOperators.Group.List.Basic
/-
Helper lemmas over ℝ for `_span_params`: the lumped losses of a split fibre are distributed over the spans, each to
exactly one span.
-/
namespace Gnpy.Chain

/-- what is neither glass nor connector in a fibre: fibre attenuation + input attenuation + lumped losses -/
def Elem.body : Elem ℝ → ℝ
  | .fiber _ p => p.glassLoss + p.attIn + p.lumped
  | _ => 0

/-- the loss of lumped loss `l` if it lies in span `k` of spans of `s` km, else 0 -/
noncomputable def indW (s : ℝ) (k : ℕ) (l : ℝ × ℝ) : ℝ :=
  if (k : ℝ) * s ≤ l.1 ∧ l.1 < ((k + 1 : ℕ) : ℝ) * s then l.2 else 0

theorem spanLumps_lumped (lumps : List (ℝ × ℝ)) (k : ℕ) (len : ℝ) :
    sumLeft ((spanLumps lumps k len).map (fun l => l.2)) = (lumps.map (indW (len * milli) k)).sum := by
  rw [sumLeft_eq_sum]
  unfold spanLumps
  induction lumps with
  | nil => simp
  | cons l ls ih =>
    simp only [List.filter_cons, List.map_cons, List.sum_cons]
    by_cases h : (k : ℝ) * (len * milli) ≤ l.1 ∧ l.1 < ((k + 1 : ℕ) : ℝ) * (len * milli)
    · have h' : ((k : ℕ) : ℝ) * len * milli ≤ l.1 ∧ l.1 < ((k + 1 : ℕ) : ℝ) * len * milli := by
        constructor
        · rw [mul_assoc]; exact h.1
        · rw [mul_assoc]; exact h.2
      simp only [indW, h, and_self, if_true]
      simp only [h'.1, h'.2, decide_true, Bool.and_self, if_true, List.map_cons, List.sum_cons]
      rw [ih]
    · have h' : ¬ (((k : ℕ) : ℝ) * len * milli ≤ l.1 ∧ l.1 < ((k + 1 : ℕ) : ℝ) * len * milli) := by
        intro hc; apply h
        constructor
        · rw [← mul_assoc]; exact hc.1
        · rw [← mul_assoc]; exact hc.2
      simp only [indW, h, if_false, zero_add]
      have hb : (decide (((k : ℕ) : ℝ) * len * milli ≤ l.1) && decide (l.1 < ((k + 1 : ℕ) : ℝ) * len * milli)) = false := by
        by_contra hc
        simp only [Bool.not_eq_false, Bool.and_eq_true, decide_eq_true_eq] at hc
        exact h' hc
      simp only [hb, Bool.false_eq_true, if_false]
      exact ih

/-- a position inside `[0, n·s)` lies in exactly one of the `n` spans -/
theorem indW_partition (s : ℝ) (hs : 0 ≤ s) (l : ℝ × ℝ) :
    ∀ n : ℕ, ((List.range n).map (fun k => indW s k l)).sum = if 0 ≤ l.1 ∧ l.1 < (n : ℝ) * s then l.2 else 0 := by
  intro n
  induction n with
  | zero =>
    simp only [List.range_zero, List.map_nil, List.sum_nil, Nat.cast_zero, zero_mul]
    rw [if_neg]; intro h; linarith [h.1, h.2]
  | succ n ih =>
    rw [List.range_succ, List.map_append, List.sum_append, ih]
    simp only [List.map_cons, List.map_nil, List.sum_cons, List.sum_nil, add_zero, indW]
    have hn : (0:ℝ) ≤ (n : ℝ) * s := mul_nonneg (Nat.cast_nonneg n) hs
    have hsucc : ((n + 1 : ℕ) : ℝ) * s = (n : ℝ) * s + s := by push_cast; ring
    by_cases h1 : 0 ≤ l.1 ∧ l.1 < (n : ℝ) * s
    · have h2 : ¬ ((n : ℝ) * s ≤ l.1 ∧ l.1 < ((n + 1 : ℕ) : ℝ) * s) := by intro h; linarith [h.1, h1.2]
      have h3 : 0 ≤ l.1 ∧ l.1 < ((n + 1 : ℕ) : ℝ) * s := ⟨h1.1, by rw [hsucc]; linarith [h1.2]⟩
      rw [if_pos h1, if_neg h2, if_pos h3]; ring
    · by_cases h2 : (n : ℝ) * s ≤ l.1 ∧ l.1 < ((n + 1 : ℕ) : ℝ) * s
      · have h3 : 0 ≤ l.1 ∧ l.1 < ((n + 1 : ℕ) : ℝ) * s := ⟨by linarith [h2.1], h2.2⟩
        rw [if_neg h1, if_pos h2, if_pos h3]; ring
      · have h3 : ¬ (0 ≤ l.1 ∧ l.1 < ((n + 1 : ℕ) : ℝ) * s) := by
          intro h
          by_cases h4 : l.1 < (n : ℝ) * s
          · exact h1 ⟨h.1, h4⟩
          · exact h2 ⟨not_lt.mp h4, h.2⟩
        rw [if_neg h1, if_neg h2, if_neg h3]; ring

/-- summed over all spans, the distributed lumped losses are the lumped losses of the fibre -/
theorem spanLumps_total (lumps : List (ℝ × ℝ)) (n : ℕ) (s : ℝ) (hs : 0 ≤ s)
    (hin : ∀ l ∈ lumps, 0 ≤ l.1 ∧ l.1 < (n : ℝ) * s) :
    ((List.range n).map (fun k => (lumps.map (indW s k)).sum)).sum = (lumps.map (fun l => l.2)).sum := by
  induction lumps with
  | nil => simp
  | cons l ls ih =>
    simp only [List.map_cons, List.sum_cons]
    rw [List.sum_map_add, indW_partition s hs l n, if_pos (hin l (by simp)), ih (fun x hx => hin x (by simp [hx]))]

theorem sum_first_only (a : ℝ) (n : ℕ) (hn : 1 ≤ n) :
    ((List.range n).map (fun k => if k = 0 then a else (0:ℝ))).sum = a := by
  obtain ⟨m, rfl⟩ : ∃ m, n = m + 1 := ⟨n - 1, by omega⟩
  rw [List.range_succ_eq_map]
  simp only [List.map_cons, List.sum_cons, if_true, List.map_map]
  have : (List.map ((fun k => if k = 0 then a else (0:ℝ)) ∘ Nat.succ) (List.range m)) = List.map (fun _ => (0:ℝ)) (List.range m) := by
    apply List.map_congr_left
    intro k _
    simp
  rw [this]
  simp

end Gnpy.Chain
