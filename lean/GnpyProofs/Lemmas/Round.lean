import GnpyModel.Round
import Mathlib.Tactic.Linarith
import Mathlib.Tactic.Ring
import Mathlib.Tactic.FieldSimp
import Mathlib.Tactic.Positivity
import Mathlib.Algebra.Order.Field.Basic
import Mathlib.Data.Rat.Defs
import Mathlib.Algebra.Order.AbsoluteValue.Basic
/- helper lemmas about half-even rounding of n/d (C18) -/
namespace Gnpy.Round

theorem roundHalfEvenDiv_cases (n d : Nat) :
    roundHalfEvenDiv n d = n / d ∨ roundHalfEvenDiv n d = n / d + 1 := by
  unfold roundHalfEvenDiv
  simp only
  split
  · left; rfl
  · split
    · right; rfl
    · split
      · left; rfl
      · right; rfl

/-- twice the distance: `|2·d·R − 2·n| ≤ d` for `R = roundHalfEvenDiv n d` -/
theorem roundHalfEvenDiv_bound (n d : Nat) (hd : 0 < d) :
    2 * d * roundHalfEvenDiv n d ≤ 2 * n + d ∧ 2 * n ≤ 2 * d * roundHalfEvenDiv n d + d := by
  have h1 := Nat.div_add_mod n d
  have h2 := Nat.mod_lt n hd
  unfold roundHalfEvenDiv
  simp only
  generalize n / d = q at *
  generalize n % d = r at *
  subst h1
  split
  · constructor <;> nlinarith
  · split
    · constructor <;> nlinarith
    · have : 2 * r = d := by omega
      split
      · constructor <;> nlinarith
      · constructor <;> nlinarith

/-- the rounded quotient is within one half of the exact quotient -/
theorem roundHalfEvenDiv_err (n d : Nat) (hd : 0 < d) :
    |(roundHalfEvenDiv n d : ℚ) - (n : ℚ) / d| ≤ 1 / 2 := by
  obtain ⟨h1, h2⟩ := roundHalfEvenDiv_bound n d hd
  have hdq : (0 : ℚ) < d := by exact_mod_cast hd
  have h1q : (2 : ℚ) * d * roundHalfEvenDiv n d ≤ 2 * n + d := by exact_mod_cast h1
  have h2q : (2 : ℚ) * n ≤ 2 * d * roundHalfEvenDiv n d + d := by exact_mod_cast h2
  have hx : (n : ℚ) / d * d = n := div_mul_cancel₀ _ (ne_of_gt hdq)
  generalize (n : ℚ) / d = x at *
  generalize (roundHalfEvenDiv n d : ℚ) = R at *
  have a1 : 2 * R ≤ 2 * x + 1 := by
    by_contra hc
    rw [not_le] at hc
    nlinarith [mul_lt_mul_of_pos_left hc hdq]
  have a2 : 2 * x ≤ 2 * R + 1 := by
    by_contra hc
    rw [not_le] at hc
    nlinarith [mul_lt_mul_of_pos_left hc hdq]
  rw [abs_le]
  constructor <;> linarith

/-- uniqueness: a natural number strictly closer than one half to n/d is the rounded quotient
    (this is what makes a second formatting pass a no-op) -/
theorem roundHalfEvenDiv_unique (n d R : Nat) (hd : 0 < d)
    (h : |(R : ℚ) - (n : ℚ) / d| < 1 / 2) : roundHalfEvenDiv n d = R := by
  have hdq : (0 : ℚ) < d := by exact_mod_cast hd
  have he := roundHalfEvenDiv_err n d hd
  have hlt : |(roundHalfEvenDiv n d : ℚ) - R| < 1 := by
    calc |(roundHalfEvenDiv n d : ℚ) - R|
        = |((roundHalfEvenDiv n d : ℚ) - (n : ℚ) / d) - ((R : ℚ) - (n : ℚ) / d)| := by ring_nf
      _ ≤ |(roundHalfEvenDiv n d : ℚ) - (n : ℚ) / d| + |(R : ℚ) - (n : ℚ) / d| := abs_sub _ _
      _ < 1 := by linarith
  rw [abs_lt] at hlt
  have h3 : ((roundHalfEvenDiv n d : ℤ) : ℚ) - (R : ℤ) < 1 := by push_cast; linarith [hlt.2]
  have h4 : -1 < ((roundHalfEvenDiv n d : ℤ) : ℚ) - (R : ℤ) := by push_cast; linarith [hlt.1]
  have h5 : (roundHalfEvenDiv n d : ℤ) - R < 1 := by exact_mod_cast h3
  have h6 : -1 < (roundHalfEvenDiv n d : ℤ) - R := by exact_mod_cast h4
  omega

/-- |x| as a rational: man · 2^exp -/
def Dyadic.absVal (x : Dyadic) : ℚ := (x.man : ℚ) * (2 : ℚ) ^ x.exp

theorem scaled_spec (x : Dyadic) (d : Nat) :
    0 < (scaled x d).2 ∧ ((scaled x d).1 : ℚ) / ((scaled x d).2 : ℚ) = x.absVal * (10 : ℚ) ^ d := by
  unfold scaled Dyadic.absVal
  by_cases h : 0 ≤ x.exp
  · simp only [h, if_true]
    refine ⟨Nat.one_pos, ?_⟩
    have : x.exp = (x.exp.toNat : ℤ) := (Int.toNat_of_nonneg h).symm
    rw [this, zpow_natCast]
    push_cast
    rw [Int.toNat_natCast]
    ring
  · simp only [h, if_false]
    have hneg : 0 ≤ -x.exp := by omega
    refine ⟨Nat.pow_pos (by norm_num), ?_⟩
    have : x.exp = -((-x.exp).toNat : ℤ) := by rw [Int.toNat_of_nonneg hneg]; ring
    rw [this, zpow_neg, zpow_natCast]
    push_cast
    have h2 : ((2 : ℚ) ^ (- -((-x.exp).toNat : ℤ)).toNat) ≠ 0 := by positivity
    simp only [neg_neg, Int.toNat_natCast]
    field_simp

end Gnpy.Round
