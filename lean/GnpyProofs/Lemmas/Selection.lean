import GnpyModel
import Mathlib.Data.List.Basic
/- helper lemmas for C12: the candidate selection (steps 2-5 of compute_path_dsjctn) -/
namespace Gnpy.Route

/-- step-4 acceptability of one candidate: no include list, or list honoured, or list all-LOOSE -/
def accCand (inp : SelInput) (c : Cand) : Bool := !(inp.hasInc c.1) || inp.okInc c || !(inp.hasStrict c.1)

theorem mem_candsOf (inp : SelInput) (r : Nat) (c : Cand) : c ∈ candsOf inp r ↔ c.1 = r ∧ c.2 < inp.ncand r := by
  unfold candsOf
  simp only [List.mem_map, List.mem_range]
  constructor
  · rintro ⟨i, hi, rfl⟩; exact ⟨rfl, hi⟩
  · rintro ⟨h1, h2⟩; exact ⟨c.2, h2, by cases c; simp_all⟩

/-- Python's remove-while-iterating changes nothing when nothing is to be removed -/
theorem pyRemove_id {α : Type} (cond : α → Bool) : ∀ l : List α, (∀ x ∈ l, cond x = false) →
    pyRemoveWhileIterating cond l = l
  | [], _ => rfl
  | [x], h => by simp [pyRemoveWhileIterating, h x (by simp)]
  | x :: y :: rest, h => by
    have hx := h x (by simp)
    have ih := pyRemove_id cond (y :: rest) (fun z hz => h z (List.mem_cons_of_mem _ hz))
    simp [pyRemoveWhileIterating, hx, ih]

/-- what survives Python's remove-while-iterating was there before -/
theorem pyRemove_subset {α : Type} (cond : α → Bool) : ∀ l : List α, ∀ x ∈ pyRemoveWhileIterating cond l, x ∈ l
  | [], x, h => by simp [pyRemoveWhileIterating] at h
  | [a], x, h => by
    simp only [pyRemoveWhileIterating] at h
    split at h
    · simp at h
    · exact h
  | a :: b :: rest, x, h => by
    simp only [pyRemoveWhileIterating] at h
    split at h
    · rcases List.mem_cons.1 h with rfl | h
      · simp
      · have := pyRemove_subset cond rest x h
        simp [this]
    · rcases List.mem_cons.1 h with rfl | h
      · simp
      · have := pyRemove_subset cond (b :: rest) x h
        exact List.mem_cons_of_mem _ this

/-- step 2 for a pair: the combinations are exactly the pairs of candidates passing the implementation's test -/
theorem mem_step2_pair (inp : SelInput) (r0 r1 : Nat) (sol : List Cand) :
    sol ∈ step2 inp [r0, r1] ↔
      ∃ i, i < inp.ncand r0 ∧ ∃ j, j < inp.ncand r1 ∧ sol = [(r0, i), (r1, j)] ∧ inp.dis (r1, j) (r0, i) = true := by
  simp only [step2, List.foldl_cons, List.foldl_nil, List.mem_flatMap, List.mem_filterMap, List.mem_map]
  constructor
  · rintro ⟨c1, hc1, cndt, ⟨c0, hc0, rfl⟩, hsol⟩
    obtain ⟨h01, h02⟩ := (mem_candsOf inp r0 c0).1 hc0
    obtain ⟨h11, h12⟩ := (mem_candsOf inp r1 c1).1 hc1
    split at hsol
    next hall =>
      simp only [Option.some.injEq] at hsol
      simp only [List.all_cons, List.all_nil, Bool.and_true] at hall
      refine ⟨c0.2, h02, c1.2, h12, ?_, ?_⟩
      · rw [← hsol]; cases c0; cases c1; simp_all
      · cases c0; cases c1; simp_all
    next => simp at hsol
  · rintro ⟨i, hi, j, hj, rfl, hd⟩
    refine ⟨(r1, j), (mem_candsOf inp r1 _).2 ⟨rfl, hj⟩, [(r0, i)], ⟨(r0, i), (mem_candsOf inp r0 _).2 ⟨rfl, hi⟩, rfl⟩, ?_⟩
    simp [hd]

/-- with a single synchronisation vector step 3 removes nothing -/
theorem step3One_single (d : Nat) (combos : List (List Cand)) (concerned : List Nat)
    (hcon : ∀ x ∈ concerned, x = d) (c : Cand) :
    step3One concerned c [(d, combos)] = [(d, combos)] := by
  unfold step3One
  simp only
  split
  next hmiss =>
    simp only [List.any_eq_true] at hmiss
    obtain ⟨d', hd', hm⟩ := hmiss
    have hdd : d' = d := hcon d' hd'
    subst hdd
    simp only [List.lookup, beq_self_eq_true, Bool.not_eq_true', List.any_eq_false] at hm
    have hnone : ∀ x ∈ combos, (fun cndt : List Cand => cndt.contains c) x = false := by
      intro x hx
      have := hm x hx
      simpa using this
    simp only [List.map_cons, List.map_nil]
    rw [pyRemove_id _ combos hnone]
    split <;> rfl
  next => rfl

theorem step3_single (inp : SelInput) (d : Nat) (dl : List Nat) (reqs : List Nat) (combos : List (List Cand)) :
    step3 inp [(d, dl)] reqs [(d, combos)] = [(d, combos)] := by
  unfold step3
  induction reqs with
  | nil => rfl
  | cons r rest ih =>
    simp only [List.foldl_cons]
    have hcon : ∀ x ∈ (List.filter (fun g : Nat × List Nat => g.2.contains r) [(d, dl)]).map (·.1), x = d := by
      intro x hx
      simp only [List.mem_map, List.mem_filter, List.mem_singleton] at hx
      obtain ⟨g, ⟨hg, _⟩, rfl⟩ := hx
      rw [hg]
    have hinner : ∀ (cs : List Cand),
        List.foldl (fun cs c => step3One ((List.filter (fun g : Nat × List Nat => g.2.contains r) [(d, dl)]).map (·.1)) c cs)
          [(d, combos)] cs = [(d, combos)] := by
      intro cs
      induction cs with
      | nil => rfl
      | cons c cs ihc => simp only [List.foldl_cons]; rw [step3One_single d combos _ hcon c]; exact ihc
    rw [hinner]
    exact ih

end Gnpy.Route
