import GnpyModel
import Mathlib.Data.List.Basic
/- helper lemmas for C12: the candidate selection (steps 2-5 of compute_path_dsjctn) -/
namespace Gnpy.Route

/-- step-4 acceptability of one candidate: no include list, or list honoured, or list all-LOOSE -/
def accCand (inp : SelInput) (c : Cand) : Bool := !(inp.hasInc c.1) || inp.okInc c || !(inp.hasStrict c.1)

theorem mem_candsOf (inp : SelInput) (r : Nat) (c : Cand) : c ∈ candsOf inp r ↔ c.1 = r ∧ c.2 < inp.ncand r := by
  unfold candsOf
  simp only [List.mem_map, List.mem_range]
  constructor
  · rintro ⟨i, hi, rfl⟩; exact ⟨rfl, hi⟩
  · rintro ⟨h1, h2⟩; exact ⟨c.2, h2, by cases c; simp_all⟩

/-- Python's remove-while-iterating changes nothing when nothing is to be removed -/
theorem pyRemove_id {α : Type} (cond : α → Bool) : ∀ l : List α, (∀ x ∈ l, cond x = false) →
    pyRemoveWhileIterating cond l = l
  | [], _ => rfl
  | [x], h => by simp [pyRemoveWhileIterating, h x (by simp)]
  | x :: y :: rest, h => by
    have hx := h x (by simp)
    have ih := pyRemove_id cond (y :: rest) (fun z hz => h z (List.mem_cons_of_mem _ hz))
    simp [pyRemoveWhileIterating, hx, ih]

/-- what survives Python's remove-while-iterating was there before -/
theorem pyRemove_subset {α : Type} (cond : α → Bool) : ∀ l : List α, ∀ x ∈ pyRemoveWhileIterating cond l, x ∈ l
  | [], x, h => by simp [pyRemoveWhileIterating] at h
  | [a], x, h => by
    simp only [pyRemoveWhileIterating] at h
    split at h
    · simp at h
    · exact h
  | a :: b :: rest, x, h => by
    simp only [pyRemoveWhileIterating] at h
    split at h
    · rcases List.mem_cons.1 h with rfl | h
      · simp
      · have := pyRemove_subset cond rest x h
        simp [this]
    · rcases List.mem_cons.1 h with rfl | h
      · simp
      · have := pyRemove_subset cond (b :: rest) x h
        exact List.mem_cons_of_mem _ this

/-- step 2 for a pair: the combinations are exactly the pairs of candidates passing the implementation's test -/
theorem mem_step2_pair (inp : SelInput) (r0 r1 : Nat) (sol : List Cand) :
    sol ∈ step2 inp [r0, r1] ↔
      ∃ i, i < inp.ncand r0 ∧ ∃ j, j < inp.ncand r1 ∧ sol = [(r0, i), (r1, j)] ∧ inp.dis (r1, j) (r0, i) = true := by
  simp only [step2, List.foldl_cons, List.foldl_nil, List.mem_flatMap, List.mem_filterMap, List.mem_map]
  constructor
  · rintro ⟨c1, hc1, cndt, ⟨c0, hc0, rfl⟩, hsol⟩
    obtain ⟨h01, h02⟩ := (mem_candsOf inp r0 c0).1 hc0
    obtain ⟨h11, h12⟩ := (mem_candsOf inp r1 c1).1 hc1
    split at hsol
    next hall =>
      simp only [Option.some.injEq] at hsol
      simp only [List.all_cons, List.all_nil, Bool.and_true] at hall
      refine ⟨c0.2, h02, c1.2, h12, ?_, ?_⟩
      · rw [← hsol]; cases c0; cases c1; simp_all
      · cases c0; cases c1; simp_all
    next => simp at hsol
  · rintro ⟨i, hi, j, hj, rfl, hd⟩
    refine ⟨(r1, j), (mem_candsOf inp r1 _).2 ⟨rfl, hj⟩, [(r0, i)], ⟨(r0, i), (mem_candsOf inp r0 _).2 ⟨rfl, hi⟩, rfl⟩, ?_⟩
    simp [hd]

/-- no candidate is "orphaned": whenever a combination holds a path equal (by value) to `c`, some combination uses
`c` for its own request -/
def NoOrphan (vid : Cand → Nat) (c : Cand) (C : List (List Cand)) : Prop :=
  (∃ combo ∈ C, holdsValue vid c combo = true) → ∃ combo ∈ C, usedBy vid c combo = true

/-- when no two candidates are equal by value (e.g. the requests of the vector have pairwise different end points) no
candidate is ever orphaned -/
theorem noOrphan_of_injective (vid : Cand → Nat) (hinj : ∀ c c', vid c = vid c' → c = c') (c : Cand)
    (C : List (List Cand)) : NoOrphan vid c C := by
  rintro ⟨combo, hc, hold⟩
  refine ⟨combo, hc, ?_⟩
  unfold usedBy
  cases h : combo.find? (fun x => vid x == vid c) with
  | none =>
    have hn := List.find?_eq_none.1 h
    unfold holdsValue at hold
    obtain ⟨x, hx, hxv⟩ := List.any_eq_true.1 hold
    exact absurd hxv (hn x hx)
  | some x =>
    have hp := List.find?_some h
    have : x = c := hinj x c (by simpa using hp)
    simp [this]

/-- with a single synchronisation vector and no orphan, step 3 removes nothing -/
theorem step3One_single (vid : Cand → Nat) (d : Nat) (combos : List (List Cand)) (concerned : List Nat)
    (hcon : ∀ x ∈ concerned, x = d) (c : Cand) (hno : NoOrphan vid c combos) :
    step3One vid concerned c [(d, combos)] = [(d, combos)] := by
  unfold step3One
  simp only
  split
  next hmiss =>
    simp only [List.any_eq_true] at hmiss
    obtain ⟨d', hd', hm⟩ := hmiss
    have hdd : d' = d := hcon d' hd'
    subst hdd
    simp only [List.lookup, beq_self_eq_true, Bool.not_eq_true', List.any_eq_false] at hm
    have hnone : ∀ x ∈ combos, holdsValue vid c x = false := by
      intro x hx
      by_contra hcon'
      have hx' : holdsValue vid c x = true := by simpa using hcon'
      obtain ⟨y, hy, hu⟩ := hno ⟨x, hx, hx'⟩
      have := hm y hy
      simp [hu] at this
    simp only [List.map_cons, List.map_nil]
    rw [pyRemove_id _ combos hnone]
    split <;> rfl
  next => rfl

theorem step3_single (inp : SelInput) (d : Nat) (dl : List Nat) (reqs : List Nat) (combos : List (List Cand))
    (hno : ∀ r ∈ reqs, r ∈ dl → ∀ c ∈ candsOf inp r, NoOrphan inp.vid c combos) :
    step3 inp [(d, dl)] reqs [(d, combos)] = [(d, combos)] := by
  unfold step3
  induction reqs with
  | nil => rfl
  | cons r rest ih =>
    simp only [List.foldl_cons]
    have hcon : ∀ x ∈ (List.filter (fun g : Nat × List Nat => g.2.contains r) [(d, dl)]).map (·.1), x = d := by
      intro x hx
      simp only [List.mem_map, List.mem_filter, List.mem_singleton] at hx
      obtain ⟨g, ⟨hg, _⟩, rfl⟩ := hx
      rw [hg]
    have hinner : ∀ (cs : List Cand), (∀ c ∈ cs, c ∈ candsOf inp r) →
        List.foldl (fun cs c => step3One inp.vid
            ((List.filter (fun g : Nat × List Nat => g.2.contains r) [(d, dl)]).map (·.1)) c cs)
          [(d, combos)] cs = [(d, combos)] := by
      intro cs
      induction cs with
      | nil => intro _; rfl
      | cons c cs ihc =>
        intro hmem
        simp only [List.foldl_cons]
        by_cases hr : r ∈ dl
        · rw [step3One_single inp.vid d combos _ hcon c
              (hno r (by simp) hr c (hmem c (by simp)))]
          exact ihc (fun c' hc' => hmem c' (List.mem_cons_of_mem _ hc'))
        · have hempty : (List.filter (fun g : Nat × List Nat => g.2.contains r) [(d, dl)]).map (·.1) = [] := by
            simp [List.filter, hr]
          rw [hempty]
          have : step3One inp.vid [] c [(d, combos)] = [(d, combos)] := by
            simp [step3One]
          rw [this]
          have := ihc (fun c' hc' => hmem c' (List.mem_cons_of_mem _ hc'))
          rw [hempty] at this
          exact this
    rw [hinner _ (fun c hc => hc)]
    exact ih (fun r' hr' => hno r' (List.mem_cons_of_mem _ hr'))

/-- the facts about the candidate lists of a pair of requests the completeness argument uses:
* `inj`   two different candidates of one request are different paths,
* `self`  a path never passes the disjointness test against an equal path,
* `swap`  the test only looks at the paths (not at who owns them) and is symmetric,
* `close` when a candidate of one request equals a candidate of the other (same end points), every candidate of either
          request also is a candidate of the other. -/
structure PairFacts (inp : SelInput) (r0 r1 : Nat) : Prop where
  inj : ∀ r i j, inp.vid (r, i) = inp.vid (r, j) → i = j
  self : ∀ i j, inp.dis (r1, j) (r0, i) = true → inp.vid (r1, j) ≠ inp.vid (r0, i)
  swap : ∀ i j i' j', inp.vid (r0, i) = inp.vid (r1, j') → inp.vid (r1, j) = inp.vid (r0, i') →
            inp.dis (r1, j) (r0, i) = inp.dis (r1, j') (r0, i')
  close01 : ∀ i j, i < inp.ncand r0 → j < inp.ncand r1 → inp.vid (r0, i) = inp.vid (r1, j) →
            ∀ i', i' < inp.ncand r0 → ∃ j', j' < inp.ncand r1 ∧ inp.vid (r1, j') = inp.vid (r0, i')
  close10 : ∀ i j, i < inp.ncand r0 → j < inp.ncand r1 → inp.vid (r0, i) = inp.vid (r1, j) →
            ∀ j', j' < inp.ncand r1 → ∃ i', i' < inp.ncand r0 ∧ inp.vid (r0, i') = inp.vid (r1, j')

theorem usedBy_pair (vid : Cand → Nat) (c a b : Cand) :
    usedBy vid c [a, b] = if vid a = vid c then a.1 == c.1 else if vid b = vid c then b.1 == c.1 else false := by
  unfold usedBy
  by_cases h1 : vid a = vid c
  · have : (vid a == vid c) = true := by simp [h1]
    simp [List.find?, this, h1]
  · have h1' : (vid a == vid c) = false := by simp [h1]
    by_cases h2 : vid b = vid c
    · have : (vid b == vid c) = true := by simp [h2]
      simp [List.find?, h1', this, h1, h2]
    · have : (vid b == vid c) = false := by simp [h2]
      simp [List.find?, h1', this, h1, h2]

theorem holdsValue_pair (vid : Cand → Nat) (c a b : Cand) :
    holdsValue vid c [a, b] = true ↔ vid a = vid c ∨ vid b = vid c := by
  simp [holdsValue]

/-- for one pair of requests no candidate is orphaned (so step 3 leaves the combinations of step 2 untouched) -/
theorem noOrphan_pair (inp : SelInput) (r0 r1 : Nat) (hne : r0 ≠ r1) (hf : PairFacts inp r0 r1) :
    ∀ r, r ∈ [r0, r1] → ∀ c ∈ candsOf inp r, NoOrphan inp.vid c (step2 inp [r0, r1]) := by
  intro r hr c hc
  obtain ⟨hc1, hc2⟩ := (mem_candsOf inp r c).1 hc
  rintro ⟨combo, hcombo, hold⟩
  obtain ⟨i', hi', j', hj', rfl, hd⟩ := (mem_step2_pair inp r0 r1 combo).1 hcombo
  rw [holdsValue_pair] at hold
  simp only [List.mem_cons, List.mem_nil_iff, or_false] at hr
  rcases hr with rfl | rfl
  · -- c is a candidate of r0
    obtain ⟨cr, i⟩ := c
    simp only at hc1 hc2
    subst hc1
    by_cases h1 : inp.vid (cr, i') = inp.vid (cr, i)
    · have : i' = i := hf.inj cr i' i h1
      subst this
      exact ⟨_, hcombo, by rw [usedBy_pair]; simp⟩
    · have h2 : inp.vid (r1, j') = inp.vid (cr, i) := by
        rcases hold with h | h
        · exact absurd h h1
        · exact h
      obtain ⟨j'', hj'', hv⟩ := hf.close01 i j' hc2 hj' h2.symm i' hi'
      have hsw := hf.swap i j'' i' j' h2.symm hv
      rw [hd] at hsw
      refine ⟨[(cr, i), (r1, j'')], (mem_step2_pair inp cr r1 _).2 ⟨i, hc2, j'', hj'', rfl, hsw⟩, ?_⟩
      rw [usedBy_pair]; simp
  · -- c is a candidate of r1
    obtain ⟨cr, j⟩ := c
    simp only at hc1 hc2
    subst hc1
    by_cases h1 : inp.vid (r0, i') = inp.vid (cr, j)
    · by_cases hj : j' = j
      · subst hj
        exact absurd h1.symm (hf.self i' j' hd)
      · obtain ⟨i'', hi'', hv⟩ := hf.close10 i' j hi' hc2 h1 j' hj'
        have hsw := hf.swap i'' j i' j' hv h1.symm
        rw [hd] at hsw
        refine ⟨[(r0, i''), (cr, j)], (mem_step2_pair inp r0 cr _).2 ⟨i'', hi'', j, hc2, rfl, hsw⟩, ?_⟩
        rw [usedBy_pair]
        have hne' : inp.vid (r0, i'') ≠ inp.vid (cr, j) := by
          rw [hv]; intro h; exact hj (hf.inj cr j' j h)
        simp [hne']
    · have h2 : inp.vid (cr, j') = inp.vid (cr, j) := by
        rcases hold with h | h
        · exact absurd h h1
        · exact h
      have : j' = j := hf.inj cr j' j h2
      subst this
      refine ⟨_, hcombo, ?_⟩
      rw [usedBy_pair]; simp [h1]

end Gnpy.Route
