import GnpyProofs.Lemmas.SlotsStep
/- Helper lemmas for C15: `find_common_range` computes the intersection of the amplifiers' band sets. -/
namespace Gnpy.Slots
open Gnpy.Py

/-- frequency `f` lies strictly inside one of the bands -/
def Inside (bands : List Band) (f : Int) : Prop := ∃ b ∈ bands, b.1 < f ∧ f < b.2

theorem inside_intersectBands (C B : List Band) (f : Int) :
    Inside (intersectBands C B) f ↔ Inside C f ∧ Inside B f := by
  unfold Inside intersectBands
  constructor
  · rintro ⟨b, hb, h1, h2⟩
    obtain ⟨c, hc, hb⟩ := List.mem_flatMap.1 hb
    obtain ⟨s, hs, hb⟩ := List.mem_filterMap.1 hb
    simp only at hb
    by_cases hlt : (if c.1 ≤ s.1 then s.1 else c.1) < (if c.2 ≤ s.2 then c.2 else s.2)
    · rw [if_pos hlt] at hb
      cases hb
      simp only at h1 h2
      refine ⟨⟨c, hc, ?_, ?_⟩, ⟨s, hs, ?_, ?_⟩⟩ <;> (split at h1 <;> split at h2 <;> omega)
    · rw [if_neg hlt] at hb
      cases hb
  · rintro ⟨⟨c, hc, c1, c2⟩, ⟨s, hs, s1, s2⟩⟩
    refine ⟨(if c.1 ≤ s.1 then s.1 else c.1, if c.2 ≤ s.2 then c.2 else s.2), ?_, ?_, ?_⟩
    · refine List.mem_flatMap.2 ⟨c, hc, List.mem_filterMap.2 ⟨s, hs, ?_⟩⟩
      simp only
      have : (if c.1 ≤ s.1 then s.1 else c.1) < (if c.2 ≤ s.2 then c.2 else s.2) := by
        split <;> split <;> omega
      rw [if_pos this]
    · simp only; split <;> omega
    · simp only; split <;> omega

theorem inside_foldl (f : Int) : ∀ (u : List (List Band)) (c0 : List Band),
    Inside (u.foldl intersectBands c0) f ↔ Inside c0 f ∧ ∀ a ∈ u, Inside a f := by
  intro u
  induction u with
  | nil => intro c0; simp
  | cons a as ih =>
    intro c0
    rw [List.foldl_cons, ih, inside_intersectBands]
    constructor
    · rintro ⟨⟨h1, h2⟩, h3⟩
      refine ⟨h1, ?_⟩
      intro x hx
      rcases List.mem_cons.1 hx with rfl | hx
      · exact h2
      · exact h3 x hx
    · rintro ⟨h1, h2⟩
      exact ⟨⟨h1, h2 a List.mem_cons_self⟩, fun x hx => h2 x (List.mem_cons_of_mem _ hx)⟩

theorem mem_removeDuplicates (x : List Band) : ∀ (l acc : List (List Band)),
    x ∈ removeDuplicates acc l ↔ x ∈ acc ∨ x ∈ l := by
  intro l
  induction l with
  | nil => intro acc; simp [removeDuplicates]
  | cons a as ih =>
    intro acc
    unfold removeDuplicates
    split
    · next hin =>
      rw [ih]
      constructor
      · rintro (h | h)
        · exact Or.inl h
        · exact Or.inr (List.mem_cons_of_mem _ h)
      · rintro (h | h)
        · exact Or.inl h
        · rcases List.mem_cons.1 h with rfl | h
          · exact Or.inl hin
          · exact Or.inr h
    · rw [ih]
      simp only [List.mem_append, List.mem_cons, List.not_mem_nil, or_false]
      constructor
      · rintro ((h | h) | h)
        · exact Or.inl h
        · exact Or.inr (Or.inl h)
        · exact Or.inr (Or.inr h)
      · rintro (h | h | h)
        · exact Or.inl (Or.inl h)
        · exact Or.inl (Or.inr h)
        · exact Or.inr h

theorem inside_sortBands (l : List Band) (f : Int) : Inside (sortBands l) f ↔ Inside l f := by
  unfold Inside sortBands
  constructor
  · rintro ⟨b, hb, h⟩; exact ⟨b, (sorted_perm _ _).mem_iff.1 hb, h⟩
  · rintro ⟨b, hb, h⟩; exact ⟨b, (sorted_perm _ _).mem_iff.2 hb, h⟩

/-- `find_common_range`: a frequency lies inside the common range exactly when it lies inside a band of EVERY
    amplifier of the OMS (the intersection of the amplifiers' band sets); without amplifier the SI band is used -/
theorem commonRange_inside (amps : List (List Band)) (dflt : Option Band) (f : Int) (hne : amps ≠ []) :
    Inside (commonRange amps dflt) f ↔ ∀ a ∈ amps, Inside a f := by
  unfold commonRange
  have hmem : ∀ x, x ∈ removeDuplicates [] (amps.map sortBands) ↔ x ∈ amps.map sortBands := by
    intro x; rw [mem_removeDuplicates]; simp
  cases hu : removeDuplicates [] (amps.map sortBands) with
  | nil =>
    exfalso
    cases amps with
    | nil => exact hne rfl
    | cons a as =>
      have : sortBands a ∈ removeDuplicates [] ((a :: as).map sortBands) := (hmem _).2 (by simp)
      rw [hu] at this; cases this
  | cons c0 rest =>
    simp only
    rw [inside_sortBands, inside_foldl]
    rw [hu] at hmem
    constructor
    · rintro ⟨_, h2⟩ a ha
      have := h2 (sortBands a) ((hmem _).2 (List.mem_map.2 ⟨a, ha, rfl⟩))
      exact (inside_sortBands a f).1 this
    · intro h
      have hall : ∀ x ∈ c0 :: rest, Inside x f := by
        intro x hx
        obtain ⟨a, ha, rfl⟩ := List.mem_map.1 ((hmem x).1 hx)
        exact (inside_sortBands a f).2 (h a ha)
      exact ⟨hall c0 List.mem_cons_self, hall⟩

theorem commonRange_no_amp (dflt : Option Band) : commonRange [] dflt = dflt.toList := by
  cases dflt <;> rfl

end Gnpy.Slots
