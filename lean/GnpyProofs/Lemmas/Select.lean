import GnpyModel
import GnpyProofs.Lemmas.Edfa
/-
Helper lemmas for C10 (amplifier selection): the NF order on `Option ℝ` (`none` = −∞), first-minimum folds,
the power stage and the acceptable list of `filter_edfa_list_based_on_targets`.
-/
namespace Gnpy.Select
open Gnpy.Edfa

/-! ### the NF order (`none` = −∞ dB) -/

theorem nfLt_irrefl (a : Option ℝ) : nfLt a a = false := by
  cases a <;> simp [nfLt]

theorem nfLt_asymm (a b : Option ℝ) (h : nfLt a b = true) : nfLt b a = false := by
  cases a <;> cases b <;> simp_all [nfLt]
  linarith

/-- `≥` is transitive -/
theorem nfLt_ge_trans (a b c : Option ℝ) (h1 : nfLt a b = false) (h2 : nfLt b c = false) : nfLt a c = false := by
  cases a <;> cases b <;> cases c <;> simp_all [nfLt]
  linarith

/-- first-minimum fold (Python `min(key=…)`): the result is the seed or an element, and nothing is smaller -/
theorem foldl_min_spec (l : List (Cand ℝ)) (c : Cand ℝ) :
    let r := l.foldl (fun best x => if nfLt x.nf best.nf then x else best) c
    (r = c ∨ r ∈ l) ∧ nfLt c.nf r.nf = false ∧ ∀ x ∈ l, nfLt x.nf r.nf = false := by
  induction l generalizing c with
  | nil => simp [nfLt_irrefl]
  | cons y ys ih =>
    simp only [List.foldl]
    by_cases hy : nfLt y.nf c.nf = true
    · simp only [hy, if_true]
      obtain ⟨h1, h2, h3⟩ := ih y
      refine ⟨?_, ?_, ?_⟩
      · rcases h1 with h | h
        · right; rw [h]; simp
        · right; simp [h]
      · exact nfLt_ge_trans _ _ _ (nfLt_asymm _ _ hy) h2
      · intro x hx
        rcases List.mem_cons.1 hx with h | h
        · rw [h]; exact h2
        · exact h3 x h
    · have hy' : nfLt y.nf c.nf = false := by simpa using hy
      simp only [hy', Bool.false_eq_true, if_false]
      obtain ⟨h1, h2, h3⟩ := ih c
      refine ⟨?_, h2, ?_⟩
      · rcases h1 with h | h
        · left; exact h
        · right; simp [h]
      · intro x hx
        rcases List.mem_cons.1 hx with h | h
        · rw [h]; exact nfLt_ge_trans _ _ _ hy' h2
        · exact h3 x h

theorem argminNf_spec (l : List (Cand ℝ)) (c : Cand ℝ) (h : argminNf l = some c) :
    c ∈ l ∧ ∀ x ∈ l, nfLt x.nf c.nf = false := by
  cases l with
  | nil => simp [argminNf] at h
  | cons y ys =>
    simp only [argminNf, Option.some.injEq] at h
    obtain ⟨h1, h2, h3⟩ := foldl_min_spec ys y
    rw [h] at h1 h2 h3
    refine ⟨?_, ?_⟩
    · rcases h1 with e | e
      · rw [e]; simp
      · simp [e]
    · intro x hx
      rcases List.mem_cons.1 hx with e | e
      · rw [e]; exact h2
      · exact h3 x e

theorem argminNf_some (l : List (Cand ℝ)) (h : l ≠ []) : ∃ c, argminNf l = some c := by
  cases l with
  | nil => exact absurd rfl h
  | cons y ys => exact ⟨_, rfl⟩

/-! ### `maxPower` -/

theorem foldl_max_spec (l : List (Cand ℝ)) (m : ℝ) :
    let r := l.foldl (fun m x => if m < x.power then x.power else m) m
    m ≤ r ∧ (∀ x ∈ l, x.power ≤ r) ∧ (r = m ∨ ∃ x ∈ l, x.power = r) := by
  induction l generalizing m with
  | nil => simp
  | cons y ys ih =>
    simp only [List.foldl]
    by_cases hy : m < y.power
    · simp only [hy, if_true]
      obtain ⟨h1, h2, h3⟩ := ih y.power
      refine ⟨by linarith, ?_, ?_⟩
      · intro x hx
        rcases List.mem_cons.1 hx with e | e
        · rw [e]; exact h1
        · exact h2 x e
      · right
        rcases h3 with e | ⟨x, hx, e⟩
        · exact ⟨y, by simp, e.symm⟩
        · exact ⟨x, by simp [hx], e⟩
    · simp only [hy, if_false]
      obtain ⟨h1, h2, h3⟩ := ih m
      refine ⟨h1, ?_, ?_⟩
      · intro x hx
        rcases List.mem_cons.1 hx with e | e
        · rw [e]; linarith [not_lt.1 hy]
        · exact h2 x e
      · rcases h3 with e | ⟨x, hx, e⟩
        · left; exact e
        · right; exact ⟨x, by simp [hx], e⟩

theorem maxPower_spec (l : List (Cand ℝ)) (h : l ≠ []) :
    (∀ x ∈ l, x.power ≤ maxPower l) ∧ ∃ x ∈ l, x.power = maxPower l := by
  cases l with
  | nil => exact absurd rfl h
  | cons y ys =>
    simp only [maxPower]
    obtain ⟨h1, h2, h3⟩ := foldl_max_spec ys y.power
    refine ⟨?_, ?_⟩
    · intro x hx
      rcases List.mem_cons.1 hx with e | e
      · rw [e]; exact h1
      · exact h2 x e
    · rcases h3 with e | ⟨x, hx, e⟩
      · exact ⟨y, by simp, e.symm⟩
      · exact ⟨x, by simp [hx], e⟩

/-! ### the power stage -/

theorem powerStage_sub (l : List (Cand ℝ)) (y : Cand ℝ) (h : y ∈ powerStage l) : y ∈ l := by
  simp only [powerStage] at h
  split at h
  · exact (List.mem_filter.1 h).1
  · exact (List.mem_filter.1 h).1

/-- somebody can deliver the power: exactly those who can are kept -/
theorem powerStage_capable (l : List (Cand ℝ)) (h : ∃ x ∈ l, 0 < x.power) :
    powerStage l = l.filter (fun x => decide (0 < x.power)) := by
  obtain ⟨x, hx, hp⟩ := h
  simp only [powerStage, Edfa.zero, Nat.cast_zero]
  have : (l.filter (fun x => decide (0 < x.power))).isEmpty = false := by
    rw [List.isEmpty_eq_false_iff]
    intro hn
    have : x ∈ l.filter (fun x => decide (0 < x.power)) := List.mem_filter.2 ⟨hx, by simpa using hp⟩
    rw [hn] at this; simp at this
  simp [this]

/-- nobody can: those within 0.3 dB of the best power are kept (the best one included) -/
theorem powerStage_fallback (l : List (Cand ℝ)) (hne : l ≠ []) (h : ∀ x ∈ l, ¬ 0 < x.power) :
    (∀ y, y ∈ powerStage l ↔ y ∈ l ∧ maxPower l - 3 / 10 < y.power) ∧ powerStage l ≠ [] := by
  have hemp : (l.filter (fun x => decide (Edfa.zero < x.power))).isEmpty = true := by
    rw [List.isEmpty_iff, List.filter_eq_nil_iff]
    intro x hx
    simpa [Edfa.zero] using h x hx
  have key : ∀ y, y ∈ powerStage l ↔ y ∈ l ∧ maxPower l - 3 / 10 < y.power := by
    intro y
    simp only [powerStage, hemp, if_true, List.mem_filter, c03, Nat.cast_ofNat]
    constructor
    · rintro ⟨a, b⟩
      have b' := of_decide_eq_true b
      exact ⟨a, by linarith⟩
    · rintro ⟨a, b⟩
      exact ⟨a, decide_eq_true (by linarith)⟩
  refine ⟨key, ?_⟩
  obtain ⟨_, x, hx, e⟩ := maxPower_spec l hne
  intro hn
  have : x ∈ powerStage l := (key x).2 ⟨hx, by rw [e]; linarith⟩
  rw [hn] at this; simp at this

theorem powerStage_ne (l : List (Cand ℝ)) (hne : l ≠ []) : powerStage l ≠ [] := by
  by_cases h : ∃ x ∈ l, 0 < x.power
  · rw [powerStage_capable l h]
    obtain ⟨x, hx, hp⟩ := h
    intro hn
    have : x ∈ l.filter (fun x => decide (0 < x.power)) := List.mem_filter.2 ⟨hx, by simpa using hp⟩
    rw [hn] at this; simp at this
  · exact (powerStage_fallback l hne (by simpa using h)).2

/-! ### the acceptable list -/

theorem acceptable_sub (e r l : List (Cand ℝ)) (h : acceptable e r = some l) : (∀ y ∈ l, y ∈ e ++ r) ∧ l ≠ [] := by
  simp only [acceptable] at h
  split at h
  · split at h
    · cases h
    · rename_i _ he
      simp only [Option.some.injEq] at h
      subst h
      have hne : e ≠ [] := by simpa [List.isEmpty_iff] using he
      exact ⟨fun y hy => List.mem_append_left _ (powerStage_sub _ _ hy), powerStage_ne _ hne⟩
  · rename_i hg
    simp only [Option.some.injEq] at h
    subst h
    have hne : (e ++ r).filter (fun x => decide (Edfa.zero < x.gainMin)) ≠ [] := by
      simpa [List.isEmpty_iff] using hg
    exact ⟨fun y hy => (List.mem_filter.1 (powerStage_sub _ _ hy)).1, powerStage_ne _ hne⟩

/-- some candidate is capable (gain and power): the acceptable list is exactly the capable candidates -/
theorem acceptable_capable (e r : List (Cand ℝ)) (h : ∃ x ∈ e ++ r, 0 < x.gainMin ∧ 0 < x.power) :
    acceptable e r = some ((e ++ r).filter (fun x => decide (0 < x.gainMin) && decide (0 < x.power))) := by
  obtain ⟨x, hx, hg, hp⟩ := h
  have hmem : x ∈ (e ++ r).filter (fun x => decide (Edfa.zero < x.gainMin)) :=
    List.mem_filter.2 ⟨hx, by simpa [Edfa.zero] using hg⟩
  have hne : ((e ++ r).filter (fun x => decide (Edfa.zero < x.gainMin))).isEmpty = false := by
    rw [List.isEmpty_eq_false_iff]; intro hn; rw [hn] at hmem; simp at hmem
  simp only [acceptable, hne, Bool.false_eq_true, if_false]
  rw [powerStage_capable _ ⟨x, hmem, hp⟩, List.filter_filter]
  simp only [Edfa.zero, Nat.cast_zero, Bool.and_comm]

theorem acceptable_none_iff (e r : List (Cand ℝ)) :
    acceptable e r = none ↔ e = [] ∧ ∀ x ∈ r, ¬ 0 < x.gainMin := by
  simp only [acceptable]
  constructor
  · intro h
    split at h
    · rename_i hg
      split at h
      · rename_i he
        have he' : e = [] := by simpa [List.isEmpty_iff] using he
        refine ⟨he', ?_⟩
        intro x hx
        rw [List.isEmpty_iff, List.filter_eq_nil_iff] at hg
        simpa [Edfa.zero] using hg x (List.mem_append_right _ hx)
      · cases h
    · cases h
  · rintro ⟨he, hr⟩
    subst he
    have : (([] ++ r).filter (fun (x : Cand ℝ) => decide (Edfa.zero < x.gainMin))).isEmpty = true := by
      rw [List.isEmpty_iff, List.filter_eq_nil_iff]
      intro x hx
      simpa [Edfa.zero] using hr x (by simpa using hx)
    rw [if_pos this]
    simp

end Gnpy.Select
