import GnpyModel
import GnpyProofs.RealInst
import Mathlib.Algebra.Order.Floor.Ring
import Mathlib.Algebra.Order.Round
import Mathlib.Tactic.Ring
import Mathlib.Tactic.Linarith
import Mathlib.Tactic.FieldSimp
import Mathlib.Tactic.Positivity
import Mathlib.Tactic.NormNum
/-
The real-number instance of `Rint` (Python's `round(x, 0)`: nearest integer, ties to even) and the error bounds of the
decimal roundings built on it.
-/
namespace Gnpy.Chain

/-- nearest integer, ties to even -/
noncomputable def realRint (x : ℝ) : ℝ :=
  if x - (⌊x⌋ : ℝ) < 1 / 2 then (⌊x⌋ : ℝ)
  else if 1 / 2 < x - (⌊x⌋ : ℝ) then (⌊x⌋ : ℝ) + 1
  else if Even ⌊x⌋ then (⌊x⌋ : ℝ) else (⌊x⌋ : ℝ) + 1

noncomputable instance : Rint ℝ := ⟨realRint⟩

@[simp] theorem rint_real (x : ℝ) : Rint.rint x = realRint x := rfl

theorem realRint_error (x : ℝ) : |realRint x - x| ≤ 1 / 2 := by
  have h0 : (⌊x⌋ : ℝ) ≤ x := Int.floor_le x
  have h1 : x < (⌊x⌋ : ℝ) + 1 := Int.lt_floor_add_one x
  unfold realRint
  split_ifs with a b c
  · rw [abs_le]; constructor <;> linarith
  · rw [abs_le]; constructor <;> linarith
  · have : x - (⌊x⌋ : ℝ) = 1 / 2 := le_antisymm (not_lt.mp b) (not_lt.mp a)
    rw [abs_le]; constructor <;> linarith
  · have : x - (⌊x⌋ : ℝ) = 1 / 2 := le_antisymm (not_lt.mp b) (not_lt.mp a)
    rw [abs_le]; constructor <;> linarith

/-- the result of `rint` is an integer -/
theorem realRint_int (x : ℝ) : ∃ n : ℤ, realRint x = (n : ℝ) := by
  unfold realRint
  split_ifs
  · exact ⟨⌊x⌋, rfl⟩
  · exact ⟨⌊x⌋ + 1, by push_cast; ring⟩
  · exact ⟨⌊x⌋, rfl⟩
  · exact ⟨⌊x⌋ + 1, by push_cast; ring⟩

theorem round1_error (x : ℝ) : |round1 x - x| ≤ 1 / 20 := by
  simp only [round1, rint_real, Nat.cast_ofNat]
  have h := realRint_error (x * 10)
  rw [abs_le] at h ⊢
  constructor
  · have : realRint (x * 10) / 10 - x = (realRint (x * 10) - x * 10) / 10 := by ring
    rw [this]; linarith [h.1]
  · have : realRint (x * 10) / 10 - x = (realRint (x * 10) - x * 10) / 10 := by ring
    rw [this]; linarith [h.2]

theorem round2_error (x : ℝ) : |round2 x - x| ≤ 1 / 200 := by
  simp only [round2, rint_real, Nat.cast_ofNat]
  have h := realRint_error (x * 100)
  rw [abs_le] at h ⊢
  constructor
  · have : realRint (x * 100) / 100 - x = (realRint (x * 100) - x * 100) / 100 := by ring
    rw [this]; linarith [h.1]
  · have : realRint (x * 100) / 100 - x = (realRint (x * 100) - x * 100) / 100 := by ring
    rw [this]; linarith [h.2]

theorem round6_error (x : ℝ) : |round6 x - x| ≤ 1 / 2000000 := by
  simp only [round6, rint_real, Nat.cast_ofNat]
  have h := realRint_error (x * 1000000)
  rw [abs_le] at h ⊢
  constructor
  · have : realRint (x * 1000000) / 1000000 - x = (realRint (x * 1000000) - x * 1000000) / 1000000 := by ring
    rw [this]; linarith [h.1]
  · have : realRint (x * 1000000) / 1000000 - x = (realRint (x * 1000000) - x * 1000000) / 1000000 := by ring
    rw [this]; linarith [h.2]


theorem realRint_of_lt_half (n : ℤ) (x : ℝ) (h1 : (n : ℝ) ≤ x) (h2 : x < (n : ℝ) + 1 / 2) : realRint x = n := by
  have hf : ⌊x⌋ = n := by
    rw [Int.floor_eq_iff]; constructor <;> linarith
  unfold realRint
  rw [hf, if_pos (by linarith)]

theorem realRint_of_gt_half (n : ℤ) (x : ℝ) (h1 : (n : ℝ) + 1 / 2 < x) (h2 : x < (n : ℝ) + 1) :
    realRint x = (n : ℝ) + 1 := by
  have hf : ⌊x⌋ = n := by
    rw [Int.floor_eq_iff]; constructor <;> linarith
  unfold realRint
  rw [hf, if_neg (by linarith), if_pos (by linarith)]

theorem realRint_int_cast (n : ℤ) : realRint (n : ℝ) = n :=
  realRint_of_lt_half n n (le_refl _) (by linarith)

theorem pmax_eq (a b : ℝ) : pmax a b = max a b := by
  unfold pmax
  split_ifs with h
  · exact (max_eq_right (le_of_lt h)).symm
  · exact (max_eq_left (not_lt.mp h)).symm

theorem pmin_eq (a b : ℝ) : pmin a b = min a b := by
  unfold pmin
  split_ifs with h
  · exact (min_eq_right (le_of_lt h)).symm
  · exact (min_eq_left (not_lt.mp h)).symm

theorem truthy_eq (v : Option ℝ) : truthy v = v.getD 0 := by
  cases v with
  | none => simp [truthy]
  | some x =>
    simp only [truthy, Nat.cast_zero, Option.getD_some]
    split_ifs with h
    · rfl
    · have h1 : ¬ x < 0 := fun hx => h (Or.inl hx)
      have h2 : ¬ 0 < x := fun hx => h (Or.inr hx)
      linarith [not_lt.mp h1, not_lt.mp h2]

end Gnpy.Chain
