import GnpyProofs.Lemmas.SlotsStep
/- Helper lemmas for C14, completeness direction: operations succeed when their preconditions hold. -/
namespace Gnpy.Slots
open Gnpy.Py

theorem aggCells_total (s : List Oms) : ∀ (os : List Nat) (acc : List Cell), (∀ k ∈ os, ∃ o, s[k]? = some o) →
    ∃ r, aggCells s os acc = .ok r := by
  intro os
  induction os with
  | nil => intro acc _; exact ⟨acc, rfl⟩
  | cons o os ih =>
    intro acc h
    obtain ⟨x, hx⟩ := h o List.mem_cons_self
    unfold aggCells
    rw [hx]
    exact ih _ (fun k hk => h k (List.mem_cons_of_mem _ hk))

/-- the test bitmap of a route can always be built on a well-formed OMS list when the route is not empty and names
    existing OMS -/
theorem aggregate_total (s : List Oms) (hs : StateWF s) (path : List Nat) (hne : path ≠ [])
    (hvalid : ∀ k ∈ path, ∃ o, s[k]? = some o) : ∃ t, aggregate path s = .ok t := by
  cases path with
  | nil => exact absurd rfl hne
  | cons p0 rest =>
    obtain ⟨o0, h0⟩ := hvalid p0 List.mem_cons_self
    have hm0 : o0 ∈ s := List.mem_of_getElem? h0
    obtain ⟨cells, hc⟩ := aggCells_total s rest o0.bm.cells (fun k hk => hvalid k (List.mem_cons_of_mem _ hk))
    have hL : ∀ o ∈ s, o.bm.cells.length = o0.bm.cells.length := by
      intro o ho
      obtain ⟨e1, e2, _⟩ := hs.same o ho o0 hm0
      rw [Bitmap.length_cells _ (hs.wf o ho), Bitmap.length_cells _ (hs.wf o0 hm0), e1, e2]
    obtain ⟨c1, _, _⟩ := aggCells_spec s _ hL rest _ cells rfl hc
    unfold aggregate
    simp only [h0, bind, Except.bind, hc]
    unfold Bitmap.create
    have hg : ¬ defaultGrid = 0 := by decide
    rw [if_neg hg]
    simp only [frequencyToN_nToFrequency]
    have hlen : cells.length = (intRange o0.bm.nMin (o0.bm.nMax + 1)).length := by
      rw [c1, Bitmap.length_cells _ (hs.wf o0 hm0), length_intRange]
    rw [if_pos hlen]
    exact ⟨_, rfl⟩

/-- the availability test never raises on a well-formed map -/
theorem centredFree_total (b : Bitmap) (hwf : b.WF) (c : Nat) (i : Int) (hi : 0 < i) : ∃ v, centredFree b c i = .ok v := by
  unfold centredFree
  by_cases hs : slice b.cells ((c : Int) - i) ((c : Int) + i) = rep (2 * i) Cell.free
  · rw [if_pos hs]
    rw [show (c : Int) + i = ((c : Int) - i) + 2 * i by omega] at hs
    obtain ⟨ha, hak, _⟩ := slice_eq_rep _ _ _ _ (by omega) (by omega) hs
    rw [Bitmap.index?_freqIndex_of b hwf _ ha (by omega)]
    simp only
    split
    · rw [Bitmap.index?_freqIndex_of b hwf _ (by omega) (by omega)]
      exact ⟨_, rfl⟩
    · exact ⟨false, rfl⟩
  · rw [if_neg hs]; exact ⟨false, rfl⟩

/-- a fixed (N, M) whose range is free on the test bitmap is found available -/
theorem determineSlotNumbers_of (b : Bitmap) (hwf : b.WF) (n m : Int) (hm : 0 < m) (h : RangeOK b n m) :
    determineSlotNumbers b n m m = .ok m := by
  obtain ⟨g1, g2⟩ := RangeOK.inGrid hwf hm h
  unfold determineSlotNumbers
  rw [Bitmap.geti_WF b hwf, if_pos ⟨by omega, by omega⟩]
  simp only
  have hc : centredFree b (n - b.nMin).toNat m = .ok true :=
    centredFree_of b hwf _ m hm (by rwa [show b.nMin + (((n - b.nMin).toNat : Nat) : Int) = n by omega])
  obtain ⟨v, hv⟩ := centredFree_total b hwf (n - b.nMin).toNat (m + m) (by omega)
  have e : b.cells.length + 2 = (b.cells.length + 1) + 1 := rfl
  rw [e]
  simp only [dsnLoop, bind, Except.bind, hc, if_true, Int.le_refl, hv]
  have hle : ¬ (m + m ≤ m) := by omega
  cases v with
  | true => simp only [if_true, hle, if_false, pure, Except.pure]; congr 1; omega
  | false => simp only [Bool.false_eq_true, if_false, pure, Except.pure]; congr 1; omega

theorem foldlM_assign_single (b : Bitmap) (n m : Int) (b' : Bitmap) (h : assignSpectrum b n m = .ok b') :
    [(n, m)].foldlM (fun b nm => assignSpectrum b nm.1 nm.2) b = .ok b' := by
  simp only [List.foldlM_cons, List.foldlM_nil, bind, Except.bind, h]
  rfl

/-- the final loop of `pth_assign_spectrum` succeeds when the single slot passes the checks of every OMS of the route -/
theorem applyPath_total (n m : Int) (id : String) (nb : Int) : ∀ (path : List Nat) (s : List Oms), path.Nodup →
    (∀ k ∈ path, ∃ o, s[k]? = some o ∧ o.bm.WF ∧ 0 < m ∧ o.bm.idxMin ≤ n ∧ n ≤ o.bm.idxMax ∧ o.bm.nMin < n - m ∧
      n + m - 1 ≤ o.bm.nMax) → ∃ s', applyPath [(n, m)] id nb path s = .ok s' := by
  intro path
  induction path with
  | nil => intro s _ _; exact ⟨s, rfl⟩
  | cons p path ih =>
    intro s hnd h
    obtain ⟨o, ho, hwf, c1, c2, c3, c4, c5⟩ := h p List.mem_cons_self
    obtain ⟨b', hb'⟩ := assignSpectrum_of o.bm n m hwf c1 c2 c3 c4 c5
    obtain ⟨hpn, hnd'⟩ := List.nodup_cons.1 hnd
    unfold applyPath
    rw [ho]
    simp only [applyOms, bind, Except.bind, foldlM_assign_single o.bm n m b' hb']
    apply ih _ hnd'
    intro k hk
    obtain ⟨o', ho', rest⟩ := h k (List.mem_cons_of_mem _ hk)
    have hkp : p ≠ k := fun e => hpn (e ▸ hk)
    exact ⟨o', by rw [List.getElem?_set_ne hkp]; exact ho', rest⟩

end Gnpy.Slots
