import GnpyModel.Verdict
import Mathlib.Data.List.Basic
import Mathlib.Data.List.Perm.Basic
import Mathlib.Data.List.Pairwise
import Mathlib.Tactic.Linarith
/- order/membership lemmas for the mode loop of C13 (Gnpy.Verdict, discrete part) -/
namespace Gnpy.Verdict

theorem pairGt_iff (a b : Int × Int) : pairGt a b = true ↔ a.1 > b.1 ∨ (a.1 = b.1 ∧ a.2 > b.2) := by
  simp [pairGt]

/-- lexicographic ≥ -/
def PairGe (a b : Int × Int) : Prop := a.1 > b.1 ∨ (a.1 = b.1 ∧ a.2 ≥ b.2)

theorem pairGe_of_not_gt (a b : Int × Int) (h : pairGt b a = false) : PairGe a b := by
  have : ¬ (b.1 > a.1 ∨ (b.1 = a.1 ∧ b.2 > a.2)) := by rw [← pairGt_iff]; simp [h]
  unfold PairGe
  omega

theorem pairGe_of_gt (a b : Int × Int) (h : pairGt a b = true) : PairGe a b := by
  rw [pairGt_iff] at h; unfold PairGe; omega

theorem PairGe.trans {a b c : Int × Int} (h1 : PairGe a b) (h2 : PairGe b c) : PairGe a c := by
  unfold PairGe at *; omega

/-! ### insertDesc / pairsDesc / baudsDesc -/

theorem mem_insertDesc (p q : Int × Int) (l : List (Int × Int)) : q ∈ insertDesc p l ↔ q = p ∨ q ∈ l := by
  induction l with
  | nil => simp [insertDesc]
  | cons x xs ih =>
    simp only [insertDesc]
    split
    · simp
    · split
      · rename_i h; subst h; simp
      · simp only [List.mem_cons, ih]; tauto

/-- strictly descending -/
def DescSorted (l : List (Int × Int)) : Prop := l.Pairwise (fun a b => pairGt a b = true)

theorem pairGt_trans {a b c : Int × Int} (h1 : pairGt a b = true) (h2 : pairGt b c = true) : pairGt a c = true := by
  rw [pairGt_iff] at *; omega

theorem pairGt_total (a b : Int × Int) : pairGt a b = true ∨ a = b ∨ pairGt b a = true := by
  rw [pairGt_iff, pairGt_iff]
  rcases a with ⟨a1, a2⟩; rcases b with ⟨b1, b2⟩
  simp only [Prod.mk.injEq]
  omega

theorem insertDesc_sorted (p : Int × Int) (l : List (Int × Int)) (h : DescSorted l) : DescSorted (insertDesc p l) := by
  induction l with
  | nil => simp [insertDesc, DescSorted]
  | cons x xs ih =>
    unfold DescSorted at h ih ⊢
    rw [List.pairwise_cons] at h
    simp only [insertDesc]
    split
    · rename_i hgt
      rw [List.pairwise_cons]
      refine ⟨?_, List.pairwise_cons.2 h⟩
      intro b hb
      rcases List.mem_cons.1 hb with hb | hb
      · subst hb; exact hgt
      · exact pairGt_trans hgt (h.1 b hb)
    · split
      · exact List.pairwise_cons.2 h
      · rename_i hngt hne
        rw [List.pairwise_cons]
        refine ⟨?_, ih h.2⟩
        intro b hb
        rcases (mem_insertDesc p b xs).1 hb with hb | hb
        · subst hb
          rcases pairGt_total b x with h1 | h1 | h1
          · exact absurd h1 hngt
          · exact absurd h1 hne
          · exact h1
        · exact h.1 b hb

theorem foldl_insertDesc_sorted (f : Mode → Int × Int) (ms : List Mode) (acc : List (Int × Int)) (h : DescSorted acc) :
    DescSorted (ms.foldl (fun acc m => insertDesc (f m) acc) acc) := by
  induction ms generalizing acc with
  | nil => exact h
  | cons m rest ih => exact ih _ (insertDesc_sorted _ _ h)

theorem mem_foldl_insertDesc (f : Mode → Int × Int) (ms : List Mode) (acc : List (Int × Int)) (q : Int × Int) :
    q ∈ ms.foldl (fun acc m => insertDesc (f m) acc) acc ↔ q ∈ acc ∨ ∃ m ∈ ms, f m = q := by
  induction ms generalizing acc with
  | nil => simp
  | cons m rest ih =>
    simp only [List.foldl_cons, ih, mem_insertDesc, List.mem_cons]
    constructor
    · rintro (h | h)
      · rcases h with h | h
        · right; exact ⟨m, Or.inl rfl, h.symm⟩
        · left; exact h
      · obtain ⟨m', hm', he⟩ := h; right; exact ⟨m', Or.inr hm', he⟩
    · rintro (h | ⟨m', hm', he⟩)
      · left; right; exact h
      · rcases hm' with hm' | hm'
        · subst hm'; left; left; exact he.symm
        · right; exact ⟨m', hm', he⟩

theorem mem_pairsDesc (modes : List Mode) (spacing : Int) (q : Int × Int) :
    q ∈ pairsDesc modes spacing ↔ ∃ m ∈ modes, fits spacing m = true ∧ (m.baud, m.offset) = q := by
  unfold pairsDesc
  rw [mem_foldl_insertDesc]
  simp only [List.not_mem_nil, false_or, List.mem_filter]
  constructor
  · rintro ⟨m, ⟨h1, h2⟩, h3⟩; exact ⟨m, h1, h2, h3⟩
  · rintro ⟨m, h1, h2, h3⟩; exact ⟨m, ⟨h1, h2⟩, h3⟩

theorem mem_baudsDesc (modes : List Mode) (spacing : Int) (b : Int) :
    b ∈ baudsDesc modes spacing ↔ ∃ m ∈ modes, fits spacing m = true ∧ m.baud = b := by
  unfold baudsDesc
  simp only [List.mem_map]
  constructor
  · rintro ⟨q, hq, rfl⟩
    rw [mem_foldl_insertDesc] at hq
    simp only [List.not_mem_nil, false_or, List.mem_filter] at hq
    obtain ⟨m, ⟨h1, h2⟩, h3⟩ := hq
    exact ⟨m, h1, h2, by rw [← h3]⟩
  · rintro ⟨m, h1, h2, h3⟩
    refine ⟨(b, 0), ?_, rfl⟩
    rw [mem_foldl_insertDesc]
    right
    exact ⟨m, List.mem_filter.2 ⟨h1, h2⟩, by rw [h3]⟩

/-- the baud rates are explored in strictly descending order -/
theorem baudsDesc_sorted (modes : List Mode) (spacing : Int) :
    (baudsDesc modes spacing).Pairwise (fun a b => a > b) := by
  unfold baudsDesc
  have hs := foldl_insertDesc_sorted (fun m => (m.baud, (0:Int))) (modes.filter (fits spacing)) [] (by simp [DescSorted])
  have hm : ∀ q ∈ (modes.filter (fits spacing)).foldl (fun acc m => insertDesc (m.baud, 0) acc) [], q.2 = 0 := by
    intro q hq
    rw [mem_foldl_insertDesc] at hq
    simp only [List.not_mem_nil, false_or] at hq
    obtain ⟨m, _, he⟩ := hq
    rw [← he]
  rw [List.pairwise_map]
  unfold DescSorted at hs
  refine List.Pairwise.imp_of_mem ?_ hs
  intro a b ha hb hab
  rw [pairGt_iff] at hab
  have := hm a ha; have := hm b hb
  omega

/-! ### sortKeyDesc / modesOf -/

theorem insertKeyDesc_perm (m : Mode) (l : List Mode) : (insertKeyDesc m l).Perm (m :: l) := by
  induction l with
  | nil => simp [insertKeyDesc]
  | cons y ys ih =>
    simp only [insertKeyDesc]
    split
    · exact ((List.Perm.cons y ih).trans (List.Perm.swap m y ys))
    · exact List.Perm.refl _

theorem sortKeyDesc_perm (l : List Mode) : (sortKeyDesc l).Perm l := by
  induction l with
  | nil => simp [sortKeyDesc]
  | cons m rest ih =>
    simp only [sortKeyDesc, List.foldr_cons]
    exact (insertKeyDesc_perm m _).trans (List.Perm.cons m ih)

/-- key-descending (not necessarily strictly) -/
def KeySorted (l : List Mode) : Prop := l.Pairwise (fun a b => PairGe (key a) (key b))

theorem insertKeyDesc_sorted (m : Mode) (l : List Mode) (h : KeySorted l) : KeySorted (insertKeyDesc m l) := by
  induction l with
  | nil => simp [insertKeyDesc, KeySorted]
  | cons y ys ih =>
    unfold KeySorted at h ih ⊢
    rw [List.pairwise_cons] at h
    simp only [insertKeyDesc]
    split
    · rename_i hgt
      rw [List.pairwise_cons]
      refine ⟨?_, ih h.2⟩
      intro b hb
      rcases List.mem_cons.1 ((insertKeyDesc_perm m ys).subset hb) with hb | hb
      · subst hb; exact pairGe_of_gt _ _ hgt
      · exact h.1 b hb
    · rename_i hngt
      have hge : PairGe (key m) (key y) := pairGe_of_not_gt _ _ (by simpa using hngt)
      rw [List.pairwise_cons]
      refine ⟨?_, List.pairwise_cons.2 h⟩
      intro b hb
      rcases List.mem_cons.1 hb with hb | hb
      · subst hb; exact hge
      · exact hge.trans (h.1 b hb)

theorem sortKeyDesc_sorted (l : List Mode) : KeySorted (sortKeyDesc l) := by
  induction l with
  | nil => simp [sortKeyDesc, KeySorted]
  | cons m rest ih =>
    simp only [sortKeyDesc, List.foldr_cons]
    exact insertKeyDesc_sorted m _ ih

theorem mem_modesOf (modes : List Mode) (spacing baud : Int) (m : Mode) :
    m ∈ modesOf modes spacing baud ↔ m ∈ modes ∧ m.baud = baud ∧ fits spacing m = true := by
  unfold modesOf
  rw [(sortKeyDesc_perm _).mem_iff, List.mem_filter]
  simp

theorem mem_modeOrder (modes : List Mode) (spacing : Int) (m : Mode) :
    m ∈ modeOrder modes spacing ↔ m ∈ modes ∧ fits spacing m = true := by
  unfold modeOrder
  simp only [List.mem_flatMap, mem_baudsDesc, mem_modesOf]
  constructor
  · rintro ⟨b, _, h1, _, h3⟩; exact ⟨h1, h3⟩
  · rintro ⟨h1, h2⟩; exact ⟨m.baud, ⟨m, h1, h2, rfl⟩, h1, rfl, h2⟩

/-- `a` is explored no later than `b` only if (baud, bit rate) of `a` is lexicographically ≥ that of `b` -/
def RateGe (a b : Mode) : Prop := a.baud > b.baud ∨ (a.baud = b.baud ∧ a.bitRate ≥ b.bitRate)

theorem modeOrder_sorted (modes : List Mode) (spacing : Int) : (modeOrder modes spacing).Pairwise RateGe := by
  unfold modeOrder
  rw [List.pairwise_flatMap]
  constructor
  · intro b _
    have hs := sortKeyDesc_sorted (modes.filter (fun m => decide (m.baud = b) && fits spacing m))
    unfold KeySorted at hs
    refine List.Pairwise.imp_of_mem ?_ hs
    intro x y hx hy hxy
    have hx' := ((sortKeyDesc_perm _).mem_iff).1 hx
    have hy' := ((sortKeyDesc_perm _).mem_iff).1 hy
    simp only [List.mem_filter, Bool.and_eq_true, decide_eq_true_eq] at hx' hy'
    unfold PairGe key at hxy
    unfold RateGe
    simp only at hxy
    omega
  · refine List.Pairwise.imp ?_ (baudsDesc_sorted modes spacing)
    intro a b hab x hx y hy
    rw [mem_modesOf] at hx hy
    unfold RateGe
    omega

end Gnpy.Verdict
