import Mathlib.Data.List.Nodup
import Mathlib.Data.List.Perm.Subperm
import GnpyModel.Slots
import GnpyProofs.Lemmas.SlotsMap
/- Helper lemmas for C15: the graph walk of build_oms_list on well-formed networks. -/
namespace Gnpy.Slots
open Gnpy.Py

/-- A well-formed network as the walk of `build_oms_list` needs it. `pos` numbers the line elements along their line
    system (0 for the one fed by a ROADM/transceiver, +1 at every hop): its existence says that there is no ring made
    of line elements only. -/
structure Net.WF (g : Net) (pos : Nat → Nat) : Prop where
  len : g.succ.length = g.kind.length
  inRange : ∀ i x, x ∈ g.succOf i → x < g.size
  succNodup : ∀ i, (g.succOf i).Nodup
  /-- a line element has exactly one successor, a line element or a ROADM -/
  lineSucc : ∀ l, g.kindOf l = NodeKind.line → ∃ s, g.succOf l = [s] ∧ g.kindOf s ≠ NodeKind.trx
  /-- … and exactly one predecessor -/
  uniquePred : ∀ a b l, g.kindOf l = NodeKind.line → l ∈ g.succOf a → l ∈ g.succOf b → a = b
  hasPred : ∀ l, g.kindOf l = NodeKind.line → ∃ a, l ∈ g.succOf a
  noBounce : ∀ a l, g.kindOf l = NodeKind.line → l ∈ g.succOf a → g.succOf l ≠ [a]
  posStart : ∀ a l, g.kindOf l = NodeKind.line → l ∈ g.succOf a → g.kindOf a ≠ NodeKind.line → pos l = 0
  posStep : ∀ a l, g.kindOf l = NodeKind.line → l ∈ g.succOf a → g.kindOf a = NodeKind.line → pos l = pos a + 1
  /-- every transceiver has a successor; one that feeds a line element is not "ROADM first" -/
  trxSucc : ∀ t, t < g.size → g.kindOf t = NodeKind.trx → g.succOf t ≠ []
  trxFeed : ∀ t l, g.kindOf t = NodeKind.trx → l ∈ g.succOf t → g.kindOf l = NodeKind.line →
    ∃ h, (g.succOf t).head? = some h ∧ g.kindOf h ≠ NodeKind.roadm

theorem Net.kindOf_lt (g : Net) (i : Nat) (h : g.kindOf i ≠ NodeKind.roadm) : i < g.size := by
  unfold Net.kindOf at h
  unfold Net.size
  rcases Nat.lt_or_ge i g.kind.length with hh | hh
  · exact hh
  · rw [List.getElem?_eq_none hh] at h; simp at h

/-- the result of the walk from the edge `(p, x)`, as a relation: line elements up to the next ROADM -/
inductive OmsPath (g : Net) : Nat → Nat → List Nat → Prop
  | stop (p x : Nat) : x ∈ g.succOf p → g.kindOf x = NodeKind.roadm → OmsPath g p x [x]
  | step (p x s : Nat) (w : List Nat) : x ∈ g.succOf p → g.kindOf x = NodeKind.line → g.succOf x = [s] →
      OmsPath g x s w → OmsPath g p x (x :: w)

theorem nodup_length_le (l : List Nat) (n : Nat) (hnd : l.Nodup) (h : ∀ x ∈ l, x < n) : l.length ≤ n := by
  have := (List.subperm_of_subset hnd (fun x hx => List.mem_range.2 (h x hx))).length_le
  simpa using this

/-- **the walk terminates within the fuel** on a well-formed network and yields an `OmsPath`.
    `vis` are the nodes already on the route (ingress node and line elements), all different from what follows. -/
theorem walk_ok (g : Net) (pos : Nat → Nat) (hwf : g.WF pos) :
    ∀ (fuel p x : Nat) (vis : List Nat), x ∈ g.succOf p → g.kindOf x ≠ NodeKind.trx → vis.Nodup →
      (∀ y ∈ vis, y < g.size) →
      (g.kindOf x = NodeKind.line → ∀ y ∈ vis, g.kindOf y ≠ NodeKind.line ∨ pos y < pos x) →
      g.size + 1 ≤ fuel + vis.length →
      ∃ w, walk g fuel p x = .ok w ∧ OmsPath g p x w := by
  intro fuel
  induction fuel with
  | zero =>
    intro p x vis _ _ hnd hlt _ hf
    have := nodup_length_le vis g.size hnd hlt
    omega
  | succ fuel ih =>
    intro p x vis hx hk hnd hlt hpos hf
    unfold walk
    by_cases hr : g.kindOf x = NodeKind.roadm
    · rw [if_pos hr]
      exact ⟨[x], rfl, OmsPath.stop p x hx hr⟩
    · rw [if_neg hr]
      have hline : g.kindOf x = NodeKind.line := by
        cases hkx : g.kindOf x with
        | roadm => exact absurd hkx hr
        | trx => exact absurd hkx hk
        | line => rfl
      obtain ⟨s, hs, hst⟩ := hwf.lineSucc x hline
      have hsp : s ≠ p := by
        intro e; subst e
        exact hwf.noBounce s x hline hx hs
      rw [hs]
      have hfind : List.find? (fun y => decide (y ≠ p)) [s] = some s := by simp [hsp]
      rw [hfind]
      simp only [bind, Except.bind]
      have hxs : s ∈ g.succOf x := by rw [hs]; exact List.mem_singleton_self _
      have hxvis : x ∉ vis := by
        intro hin
        rcases hpos hline x hin with h1 | h1
        · exact h1 hline
        · omega
      have hxlt : x < g.size := g.kindOf_lt x hr
      have hposs : g.kindOf s = NodeKind.line → pos s = pos x + 1 := fun hsl => hwf.posStep x s hsl hxs hline
      obtain ⟨w, hw, hp⟩ := ih x s (x :: vis) hxs hst (List.nodup_cons.2 ⟨hxvis, hnd⟩)
        (by intro y hy; rcases List.mem_cons.1 hy with rfl | hy; exact hxlt; exact hlt y hy)
        (by
          intro hsl y hy
          have := hposs hsl
          rcases List.mem_cons.1 hy with rfl | hy
          · right; omega
          · rcases hpos hline y hy with h1 | h1
            · exact Or.inl h1
            · right; omega)
        (by simp only [List.length_cons]; omega)
      rw [hw]
      exact ⟨x :: w, rfl, OmsPath.step p x s w hx hline hs hp⟩


theorem OmsPath.functional {g : Net} {p x : Nat} {w w' : List Nat} (h : OmsPath g p x w) (h' : OmsPath g p x w') :
    w = w' := by
  induction h generalizing w' with
  | stop p x hx hr =>
    cases h' with
    | stop => rfl
    | step _ _ _ _ _ hl => rw [hr] at hl; cases hl
  | step p x s w hx hl hs _ ih =>
    cases h' with
    | stop _ _ _ hr => rw [hl] at hr; cases hr
    | step _ _ s' w'' _ _ hs' hp' =>
      rw [hs] at hs'
      have : s = s' := by simpa using hs'
      subst this
      rw [ih hp']

theorem OmsPath.head {g : Net} {p x : Nat} {w : List Nat} (h : OmsPath g p x w) : w.head? = some x ∧ x ∈ g.succOf p := by
  cases h with
  | stop _ _ hx => exact ⟨rfl, hx⟩
  | step _ _ _ _ hx => exact ⟨rfl, hx⟩

/-- an OMS route: line elements only, then the egress ROADM -/
theorem OmsPath.shape {g : Net} {p x : Nat} {w : List Nat} (h : OmsPath g p x w) :
    ∃ ls r, w = ls ++ [r] ∧ (∀ y ∈ ls, g.kindOf y = NodeKind.line) ∧ g.kindOf r = NodeKind.roadm := by
  induction h with
  | stop p x _ hr => exact ⟨[], x, rfl, by simp, hr⟩
  | step p x s w _ hl _ _ ih =>
    obtain ⟨ls, r, e, h1, h2⟩ := ih
    refine ⟨x :: ls, r, by rw [e]; rfl, ?_, h2⟩
    intro y hy
    rcases List.mem_cons.1 hy with rfl | hy
    · exact hl
    · exact h1 y hy

/-- consecutive elements of the route (ingress node included) are joined by an edge of the network -/
def Linked (g : Net) : List Nat → Prop
  | [] => True
  | [_] => True
  | a :: b :: rest => b ∈ g.succOf a ∧ Linked g (b :: rest)

theorem OmsPath.linked {g : Net} {p x : Nat} {w : List Nat} (h : OmsPath g p x w) : Linked g (p :: w) := by
  induction h with
  | stop p x hx _ => exact ⟨hx, trivial⟩
  | step p x s w hx _ _ hp ih =>
    refine ⟨hx, ?_⟩
    cases hp with
    | stop => exact ih
    | step => exact ih

/-- a line element of the route is the first hop or the only successor of another line element of the route -/
theorem OmsPath.mem_pred {g : Net} {p x : Nat} {w : List Nat} (h : OmsPath g p x w) (y : Nat) (hy : y ∈ w) :
    y = x ∨ ∃ b ∈ w, g.kindOf b = NodeKind.line ∧ g.succOf b = [y] := by
  induction h with
  | stop p x _ _ =>
    left; simpa using hy
  | step p x s w _ hl hs hp ih =>
    rcases List.mem_cons.1 hy with rfl | hy
    · exact Or.inl rfl
    · right
      rcases ih hy with rfl | ⟨b, hb, hbl, hbs⟩
      · exact ⟨x, List.mem_cons_self, hl, hs⟩
      · exact ⟨b, List.mem_cons_of_mem _ hb, hbl, hbs⟩

/-- the route follows every line element it contains to its successor -/
theorem OmsPath.closed {g : Net} {p x : Nat} {w : List Nat} (h : OmsPath g p x w) (b s : Nat) (hb : b ∈ w)
    (hbl : g.kindOf b = NodeKind.line) (hbs : g.succOf b = [s]) : s ∈ w := by
  induction h with
  | stop p x _ hr =>
    have : b = x := by simpa using hb
    subst this
    rw [hbl] at hr; cases hr
  | step p x s' w _ hl hs hp ih =>
    rcases List.mem_cons.1 hb with rfl | hb
    · rw [hs] at hbs
      have : s' = s := by simpa using hbs
      subst this
      exact List.mem_cons_of_mem _ (by have := hp.head.1; exact List.mem_of_mem_head? this)
    · exact List.mem_cons_of_mem _ (ih hb)

/-! ### the OMS vertices and the list of OMS -/

theorem filterE_ok {α : Type} (p : α → E Bool) : ∀ (l r : List α), filterE p l = .ok r →
    r.Sublist l ∧ ∀ x, x ∈ r ↔ x ∈ l ∧ p x = .ok true := by
  intro l
  induction l with
  | nil =>
    intro r h
    have : r = [] := by simpa [filterE, pure, Except.pure] using h.symm
    subst this; simp
  | cons a as ih =>
    intro r h
    simp only [filterE, bind, Except.bind] at h
    cases ha : p a with
    | error e => rw [ha] at h; cases h
    | ok b =>
      rw [ha] at h
      simp only at h
      cases hr : filterE p as with
      | error e => rw [hr] at h; cases h
      | ok r' =>
        rw [hr] at h
        obtain ⟨i1, i2⟩ := ih r' hr
        have hre : r = if b = true then a :: r' else r' := by simpa [pure, Except.pure] using h.symm
        cases b with
        | true =>
          simp only [if_true] at hre
          subst hre
          refine ⟨List.Sublist.cons_cons a i1, ?_⟩
          intro x
          simp only [List.mem_cons, i2]
          constructor
          · rintro (rfl | ⟨h1, h2⟩)
            · exact ⟨Or.inl rfl, ha⟩
            · exact ⟨Or.inr h1, h2⟩
          · rintro ⟨h1 | h1, h2⟩
            · exact Or.inl h1
            · exact Or.inr ⟨h1, h2⟩
        | false =>
          simp only [Bool.false_eq_true, if_false] at hre
          subst hre
          refine ⟨List.Sublist.cons a i1, ?_⟩
          intro x
          rw [i2]
          constructor
          · rintro ⟨h1, h2⟩; exact ⟨List.mem_cons_of_mem _ h1, h2⟩
          · rintro ⟨h1, h2⟩
            rcases List.mem_cons.1 h1 with rfl | h1
            · rw [ha] at h2; cases h2
            · exact ⟨h1, h2⟩

theorem filterE_total {α : Type} (p : α → E Bool) : ∀ (l : List α), (∀ x ∈ l, ∃ b, p x = .ok b) →
    ∃ r, filterE p l = .ok r := by
  intro l
  induction l with
  | nil => intro _; exact ⟨[], rfl⟩
  | cons a as ih =>
    intro h
    obtain ⟨b, hb⟩ := h a List.mem_cons_self
    obtain ⟨r, hr⟩ := ih (fun x hx => h x (List.mem_cons_of_mem _ hx))
    simp only [filterE, bind, Except.bind, hb, hr]
    exact ⟨_, rfl⟩

theorem mapE_total {α β : Type} (f : α → E β) : ∀ (l : List α), (∀ x ∈ l, ∃ b, f x = .ok b) → ∃ r, mapE f l = .ok r := by
  intro l
  induction l with
  | nil => intro _; exact ⟨[], rfl⟩
  | cons a as ih =>
    intro h
    obtain ⟨b, hb⟩ := h a List.mem_cons_self
    obtain ⟨r, hr⟩ := ih (fun x hx => h x (List.mem_cons_of_mem _ hx))
    simp only [mapE, bind, Except.bind, hb, hr]
    exact ⟨_, rfl⟩

/-- the OMS vertices of a well-formed network: all ROADMs and the transceivers that feed a line element, each once,
    none of them a line element -/
theorem omsVertices_ok (g : Net) (pos : Nat → Nat) (hwf : g.WF pos) :
    ∃ vs, omsVertices g = .ok vs ∧ vs.Nodup ∧ (∀ v ∈ vs, v < g.size ∧ g.kindOf v ≠ NodeKind.line) ∧
      (∀ v, v < g.size → g.kindOf v = NodeKind.roadm → v ∈ vs) ∧
      (∀ t l, g.kindOf t = NodeKind.trx → l ∈ g.succOf t → g.kindOf l = NodeKind.line → t ∈ vs) := by
  have htot : ∀ x ∈ List.range g.size, ∃ b, trxVertex g x = .ok b := by
    intro x hx
    unfold trxVertex
    by_cases hk : g.kindOf x = NodeKind.trx
    · rw [if_pos hk]
      have hne := hwf.trxSucc x (List.mem_range.1 hx) hk
      cases hs : g.succOf x with
      | nil => exact absurd hs hne
      | cons h t => exact ⟨_, rfl⟩
    · rw [if_neg hk]; exact ⟨false, rfl⟩
  obtain ⟨t, ht⟩ := filterE_total _ _ htot
  obtain ⟨t1, t2⟩ := filterE_ok _ _ _ ht
  refine ⟨_, by simp only [omsVertices, bind, Except.bind, ht]; rfl, ?_, ?_, ?_, ?_⟩
  · refine List.Nodup.append (List.Nodup.filter _ List.nodup_range) (List.nodup_range.sublist t1) ?_
    intro x hx1 hx2
    have h1 : g.kindOf x = NodeKind.roadm := by simpa using (List.mem_filter.1 hx1).2
    have h2 := ((t2 x).1 hx2).2
    unfold trxVertex at h2
    rw [h1] at h2
    simp at h2
    cases h2
  · intro v hv
    rcases List.mem_append.1 hv with hv | hv
    · obtain ⟨h1, h2⟩ := List.mem_filter.1 hv
      have h2 : g.kindOf v = NodeKind.roadm := by simpa using h2
      exact ⟨List.mem_range.1 h1, by rw [h2]; decide⟩
    · obtain ⟨h1, h2⟩ := (t2 v).1 hv
      refine ⟨List.mem_range.1 h1, ?_⟩
      intro hl
      unfold trxVertex at h2
      rw [hl] at h2
      simp at h2
      cases h2
  · intro v hv hr
    exact List.mem_append_left _ (List.mem_filter.2 ⟨List.mem_range.2 hv, by simpa using hr⟩)
  · intro tr l hk hl hll
    apply List.mem_append_right
    have hlt : tr < g.size := g.kindOf_lt tr (by rw [hk]; decide)
    refine (t2 tr).2 ⟨List.mem_range.2 hlt, ?_⟩
    obtain ⟨h, hh, hhk⟩ := hwf.trxFeed tr l hk hl hll
    unfold trxVertex
    rw [if_pos hk, hh]
    simp [hhk, pure, Except.pure]

theorem mem_omsStarts (g : Net) (vs : List Nat) (st : Nat × Nat) :
    st ∈ omsStarts g vs ↔ st.1 ∈ vs ∧ st.2 ∈ g.succOf st.1 ∧ g.kindOf st.2 ≠ NodeKind.trx := by
  unfold omsStarts
  rw [List.mem_flatMap]
  constructor
  · rintro ⟨v, hv, hst⟩
    obtain ⟨x, hx, rfl⟩ := List.mem_map.1 hst
    obtain ⟨h1, h2⟩ := List.mem_filter.1 hx
    exact ⟨hv, h1, by simpa using h2⟩
  · rintro ⟨h1, h2, h3⟩
    exact ⟨st.1, h1, List.mem_map.2 ⟨st.2, List.mem_filter.2 ⟨h2, by simpa using h3⟩, rfl⟩⟩

theorem nodup_omsStarts (g : Net) (pos : Nat → Nat) (hwf : g.WF pos) (vs : List Nat) (hvs : vs.Nodup) :
    (omsStarts g vs).Nodup := by
  unfold omsStarts
  rw [List.nodup_flatMap]
  refine ⟨?_, ?_⟩
  · intro v _
    refine List.Nodup.map ?_ (List.Nodup.filter _ (hwf.succNodup v))
    intro a b hab
    simpa using hab
  · refine List.Pairwise.imp_of_mem ?_ hvs
    intro a b _ _ hab
    intro st h1 h2
    obtain ⟨x, _, rfl⟩ := List.mem_map.1 h1
    obtain ⟨y, _, hy⟩ := List.mem_map.1 h2
    have : b = a := by simpa using congrArg Prod.fst hy
    exact hab this.symm


/-- `build_oms_list` succeeds on a well-formed network; OMS number `i` is the walk from the `i`-th (vertex, first hop)
    pair: ingress node, then the `OmsPath` -/
theorem buildWalks_ok (g : Net) (pos : Nat → Nat) (hwf : g.WF pos) :
    ∃ vs L, omsVertices g = .ok vs ∧ vs.Nodup ∧ (∀ v ∈ vs, v < g.size ∧ g.kindOf v ≠ NodeKind.line) ∧
      (∀ v, v < g.size → g.kindOf v = NodeKind.roadm → v ∈ vs) ∧
      (∀ t l, g.kindOf t = NodeKind.trx → l ∈ g.succOf t → g.kindOf l = NodeKind.line → t ∈ vs) ∧
      buildWalks g = .ok L ∧ L.length = (omsStarts g vs).length ∧
      ∀ (i : Nat) (st : Nat × Nat), (omsStarts g vs)[i]? = some st →
        ∃ w, L[i]? = some (st.1 :: w) ∧ OmsPath g st.1 st.2 w := by
  obtain ⟨vs, hv, hnd, hk, hr, ht⟩ := omsVertices_ok g pos hwf
  have hall : ∀ st ∈ omsStarts g vs, ∃ w, walk g g.size st.1 st.2 = .ok w ∧ OmsPath g st.1 st.2 w := by
    intro st hst
    obtain ⟨h1, h2, h3⟩ := (mem_omsStarts g vs st).1 hst
    refine walk_ok g pos hwf g.size st.1 st.2 [st.1] h2 h3 (by simp) ?_ ?_ (by simp)
    · intro y hy
      have : y = st.1 := by simpa using hy
      rw [this]; exact (hk _ h1).1
    · intro _ y hy
      have : y = st.1 := by simpa using hy
      rw [this]; exact Or.inl (hk _ h1).2
  have htot : ∀ st ∈ omsStarts g vs, ∃ b, omsEls g st = .ok b := by
    intro st hst
    obtain ⟨w, hw, _⟩ := hall st hst
    exact ⟨st.1 :: w, by simp only [omsEls, bind, Except.bind, hw]; rfl⟩
  obtain ⟨L, hL⟩ := mapE_total _ _ htot
  obtain ⟨m1, m2⟩ := mapE_ok _ _ _ hL
  refine ⟨vs, L, hv, hnd, hk, hr, ht, by simp only [buildWalks, bind, Except.bind, hv]; exact hL, m1, ?_⟩
  intro i st hi
  obtain ⟨b, hb1, hb2⟩ := m2 i st hi
  obtain ⟨w, hw, hp⟩ := hall st (List.mem_of_getElem? hi)
  refine ⟨w, ?_, hp⟩
  simp only [omsEls, bind, Except.bind, hw] at hb2
  have : b = st.1 :: w := by simpa [pure, Except.pure] using hb2.symm
  rw [hb1, this]

/-- two routes that contain the same line element start with the same edge (unique predecessors, by induction on the
    position of the element along its line system) -/
theorem OmsPath.same_start (g : Net) (pos : Nat → Nat) (hwf : g.WF pos) :
    ∀ (k l : Nat), pos l = k → g.kindOf l = NodeKind.line →
      ∀ (p1 x1 p2 x2 : Nat) (w1 w2 : List Nat), g.kindOf p1 ≠ NodeKind.line → g.kindOf p2 ≠ NodeKind.line →
        OmsPath g p1 x1 w1 → OmsPath g p2 x2 w2 → l ∈ w1 → l ∈ w2 → p1 = p2 ∧ x1 = x2 := by
  intro k
  induction k using Nat.strongRecOn with
  | ind k ih =>
    intro l hpos hl p1 x1 p2 x2 w1 w2 hp1 hp2 h1 h2 m1 m2
    rcases h1.mem_pred l m1 with e1 | ⟨b1, hb1, hbl1, hbs1⟩
    · rcases h2.mem_pred l m2 with e2 | ⟨b2, hb2, hbl2, hbs2⟩
      · subst e1 e2
        exact ⟨hwf.uniquePred p1 p2 l hl h1.head.2 h2.head.2, rfl⟩
      · subst e1
        have : p1 = b2 := hwf.uniquePred p1 b2 l hl h1.head.2 (by rw [hbs2]; exact List.mem_singleton_self _)
        rw [this] at hp1
        exact absurd hbl2 hp1
    · rcases h2.mem_pred l m2 with e2 | ⟨b2, hb2, hbl2, hbs2⟩
      · subst e2
        have : p2 = b1 := hwf.uniquePred p2 b1 l hl h2.head.2 (by rw [hbs1]; exact List.mem_singleton_self _)
        rw [this] at hp2
        exact absurd hbl1 hp2
      · have hb : b1 = b2 := hwf.uniquePred b1 b2 l hl (by rw [hbs1]; exact List.mem_singleton_self _)
          (by rw [hbs2]; exact List.mem_singleton_self _)
        subst hb
        have hposb : pos l = pos b1 + 1 := hwf.posStep b1 l hl (by rw [hbs1]; exact List.mem_singleton_self _) hbl1
        exact ih (pos b1) (by omega) b1 rfl hbl1 p1 x1 p2 x2 w1 w2 hp1 hp2 h1 h2 hb1 hb2

/-- every line element lies on the route of some OMS start (induction on its position along the line system) -/
theorem line_on_some_route (g : Net) (pos : Nat → Nat) (hwf : g.WF pos) (vs : List Nat)
    (hr : ∀ v, v < g.size → g.kindOf v = NodeKind.roadm → v ∈ vs)
    (ht : ∀ t l, g.kindOf t = NodeKind.trx → l ∈ g.succOf t → g.kindOf l = NodeKind.line → t ∈ vs)
    (hroute : ∀ st ∈ omsStarts g vs, ∃ w, OmsPath g st.1 st.2 w) :
    ∀ (k l : Nat), pos l = k → g.kindOf l = NodeKind.line →
      ∃ st ∈ omsStarts g vs, ∃ w, OmsPath g st.1 st.2 w ∧ l ∈ w := by
  intro k
  induction k using Nat.strongRecOn with
  | ind k ih =>
    intro l hpos hl
    obtain ⟨a, ha⟩ := hwf.hasPred l hl
    by_cases hal : g.kindOf a = NodeKind.line
    · have hp := hwf.posStep a l hl ha hal
      obtain ⟨st, hst, w, hw, haw⟩ := ih (pos a) (by omega) a rfl hal
      obtain ⟨s, hs, _⟩ := hwf.lineSucc a hal
      have hsl : s = l := by rw [hs] at ha; exact (List.mem_singleton.1 ha).symm
      subst hsl
      exact ⟨st, hst, w, hw, hw.closed a s haw hal hs⟩
    · have hav : a ∈ vs := by
        cases hka : g.kindOf a with
        | line => exact absurd hka hal
        | roadm =>
          have hlt : a < g.size := by
            have : a < g.succ.length := by
              unfold Net.succOf at ha
              rcases Nat.lt_or_ge a g.succ.length with hh | hh
              · exact hh
              · rw [List.getElem?_eq_none hh] at ha; simp at ha
            rw [hwf.len] at this; exact this
          exact hr a hlt hka
        | trx => exact ht a l hka ha hl
      have hst : (a, l) ∈ omsStarts g vs := (mem_omsStarts g vs (a, l)).2 ⟨hav, ha, by rw [hl]; decide⟩
      obtain ⟨w, hw⟩ := hroute (a, l) hst
      exact ⟨(a, l), hst, w, hw, List.mem_of_mem_head? hw.head.1⟩

end Gnpy.Slots
