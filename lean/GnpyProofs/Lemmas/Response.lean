import GnpyModel.Response
import GnpyProofs.RealInst
import Mathlib.Data.List.Basic
import Mathlib.Data.List.Perm.Basic
import Mathlib.Data.List.Nodup
import Mathlib.Algebra.BigOperators.Group.List.Basic
import Mathlib.Tactic.Ring
import Mathlib.Tactic.Linarith
/- lemmas about requests_aggregation (Gnpy.Response) -/
namespace Gnpy.Response

variable {κ : Type} [DecidableEq κ]

/-- all id components of a request list, in order -/
def allParts (l : List (AReq κ ℝ)) : List String := l.flatMap (·.parts)
/-- total bandwidth -/
def totalBw (l : List (AReq κ ℝ)) : ℝ := (l.map (·.bw)).sum

theorem absorbInto_split (req : AReq κ ℝ) (l l' : List (AReq κ ℝ)) (h : absorbInto req l = some l') :
    ∃ pre t post, l = pre ++ t :: post ∧ l' = pre ++ absorb t req :: post ∧
      req.idStr ≠ t.idStr ∧ req.key = t.key ∧ t.hasMode = true ∧
      ∀ u ∈ pre, ¬ (req.idStr ≠ u.idStr ∧ req.key = u.key ∧ u.hasMode = true) := by
  induction l generalizing l' with
  | nil => simp [absorbInto] at h
  | cons t rest ih =>
    simp only [absorbInto] at h
    split at h
    · rename_i hc
      simp only [Option.some.injEq] at h
      exact ⟨[], t, rest, rfl, h.symm, hc.1, hc.2.1, hc.2.2, by simp⟩
    · rename_i hc
      cases hr : absorbInto req rest with
      | none => rw [hr] at h; simp at h
      | some r' =>
        rw [hr] at h
        simp only [Option.map_some, Option.some.injEq] at h
        obtain ⟨pre, t', post, h1, h2, h3, h4, h5, h6⟩ := ih r' hr
        refine ⟨t :: pre, t', post, by rw [h1]; rfl, by rw [← h, h2]; rfl, h3, h4, h5, ?_⟩
        intro u hu
        rcases List.mem_cons.1 hu with hu | hu
        · subst hu; exact hc
        · exact h6 u hu

theorem perm_filter_unique (l : List (AReq κ ℝ)) (req : AReq κ ℝ) (hmem : req ∈ l)
    (hnd : (l.map (·.pos)).Nodup) : l.Perm (req :: l.filter (fun r => r.pos != req.pos)) := by
  induction l with
  | nil => simp at hmem
  | cons x xs ih =>
    simp only [List.map_cons, List.nodup_cons] at hnd
    rcases List.mem_cons.1 hmem with h | h
    · subst h
      have hall : ∀ y ∈ xs, (y.pos != req.pos) = true := by
        intro y hy
        have : y.pos ≠ req.pos := fun he => hnd.1 (by rw [← he]; exact List.mem_map_of_mem hy)
        simpa using this
      have : (req :: xs).filter (fun r => r.pos != req.pos) = xs := by
        simp only [List.filter_cons, bne_self_eq_false, Bool.false_eq_true, if_false]
        exact List.filter_eq_self.2 hall
      rw [this]
    · have hne : x.pos ≠ req.pos := fun he => hnd.1 (by rw [he]; exact List.mem_map_of_mem h)
      have hb : (x.pos != req.pos) = true := by simpa using hne
      simp only [List.filter_cons, hb, if_true]
      exact ((ih h hnd.2).cons x).trans (List.Perm.swap req x _)

theorem allParts_perm {l1 l2 : List (AReq κ ℝ)} (h : l1.Perm l2) : (allParts l1).Perm (allParts l2) :=
  List.Perm.flatMap_right _ h

theorem totalBw_perm {l1 l2 : List (AReq κ ℝ)} (h : l1.Perm l2) : totalBw l1 = totalBw l2 :=
  (List.Perm.map _ h).sum_eq

/-- per-request invariant: the bandwidth, N and M of an (aggregated) request are those of its components -/
def Consistent (bw0 : String → ℝ) (n0 m0 : String → List (Option Int)) (r : AReq κ ℝ) : Prop :=
  r.bw = (r.parts.map bw0).sum ∧ r.n = r.parts.flatMap n0 ∧ r.m = r.parts.flatMap m0

theorem absorb_consistent (bw0 : String → ℝ) (n0 m0 : String → List (Option Int)) (t req : AReq κ ℝ)
    (ht : Consistent bw0 n0 m0 t) (hr : Consistent bw0 n0 m0 req) : Consistent bw0 n0 m0 (absorb t req) := by
  obtain ⟨a1, a2, a3⟩ := ht
  obtain ⟨b1, b2, b3⟩ := hr
  refine ⟨?_, ?_, ?_⟩
  · simp only [absorb, List.map_append, List.sum_append, a1, b1]
  · simp only [absorb, List.flatMap_append, a2, b2]
  · simp only [absorb, List.flatMap_append, a3, b3]

/-- the state invariant of the aggregation loop -/
structure Inv (bw0 : String → ℝ) (n0 m0 : String → List (Option Int)) (orig l : List (AReq κ ℝ)) : Prop where
  nodup : (l.map (·.pos)).Nodup
  parts : (allParts l).Perm (allParts orig)
  bw : totalBw l = totalBw orig
  cons : ∀ r ∈ l, Consistent bw0 n0 m0 r

theorem aggStep_inv (bw0 : String → ℝ) (n0 m0 : String → List (Option Int)) (orig l : List (AReq κ ℝ)) (i : Nat)
    (h : Inv bw0 n0 m0 orig l) : Inv bw0 n0 m0 orig (aggStep l i) := by
  unfold aggStep
  cases hf : l.find? (fun r => r.pos == i) with
  | none => exact h
  | some req =>
    simp only
    cases ha : absorbInto req l with
    | none => exact h
    | some l' =>
      simp only
      have hreq_mem : req ∈ l := List.mem_of_find?_eq_some hf
      have hpos : req.pos = i := by
        have := List.find?_some hf; simpa using this
      obtain ⟨pre, t, post, hl, hl', hid, _, _, _⟩ := absorbInto_split req l l' ha
      have hposmap : l'.map (·.pos) = l.map (·.pos) := by rw [hl, hl']; simp [absorb]
      have hnd' : (l'.map (·.pos)).Nodup := by rw [hposmap]; exact h.nodup
      have hne : req ≠ t := fun he => hid (by rw [he])
      have hreq_mem' : req ∈ l' := by
        rw [hl] at hreq_mem; rw [hl']
        rcases List.mem_append.1 hreq_mem with hm | hm
        · exact List.mem_append_left _ hm
        · rcases List.mem_cons.1 hm with hm | hm
          · exact absurd hm hne
          · exact List.mem_append_right _ (List.mem_cons_of_mem _ hm)
      have hperm := perm_filter_unique l' req hreq_mem' hnd'
      rw [hpos] at hperm
      -- parts
      have hparts' : (allParts l').Perm (allParts l ++ req.parts) := by
        rw [hl, hl']
        simp only [allParts, List.flatMap_append, List.flatMap_cons, absorb]
        rw [List.append_assoc, List.append_assoc, List.append_assoc]
        refine List.Perm.append_left _ ?_
        refine List.Perm.append_left _ ?_
        exact List.perm_append_comm
      have hbw' : totalBw l' = totalBw l + req.bw := by
        rw [hl, hl']
        simp only [totalBw, List.map_append, List.map_cons, List.sum_append, List.sum_cons, absorb]
        ring
      refine ⟨?_, ?_, ?_, ?_⟩
      · exact (List.Nodup.sublist ((List.filter_sublist).map _) hnd')
      · have h1 := allParts_perm hperm
        simp only [allParts, List.flatMap_cons] at h1 hparts' ⊢
        have h2 : (req.parts ++ List.flatMap (·.parts) (l'.filter (fun r => r.pos != i))).Perm
            (req.parts ++ List.flatMap (·.parts) l) :=
          (h1.symm.trans hparts').trans List.perm_append_comm
        exact ((List.perm_append_left_iff _).1 h2).trans h.parts
      · have h1 := totalBw_perm hperm
        simp only [totalBw, List.map_cons, List.sum_cons] at h1 hbw' ⊢
        have := h.bw
        simp only [totalBw] at this
        linarith
      · intro r hr
        have hr' : r ∈ l' := (List.mem_filter.1 hr).1
        rw [hl'] at hr'
        rcases List.mem_append.1 hr' with hm | hm
        · exact h.cons r (by rw [hl]; exact List.mem_append_left _ hm)
        · rcases List.mem_cons.1 hm with hm | hm
          · subst hm
            exact absorb_consistent bw0 n0 m0 t req (h.cons t (by rw [hl]; simp)) (h.cons req hreq_mem)
          · exact h.cons r (by rw [hl]; exact List.mem_append_right _ (List.mem_cons_of_mem _ hm))

theorem foldl_aggStep_inv (bw0 : String → ℝ) (n0 m0 : String → List (Option Int)) (orig l : List (AReq κ ℝ))
    (idx : List Nat) (h : Inv bw0 n0 m0 orig l) : Inv bw0 n0 m0 orig (idx.foldl aggStep l) := by
  induction idx generalizing l with
  | nil => exact h
  | cons i rest ih => exact ih _ (aggStep_inv bw0 n0 m0 orig l i h)

theorem sameDisj_nil (a b : String) : sameDisj [] a b = true := by simp [sameDisj]

theorem absorbIntoD_nil (req : AReq κ ℝ) (l : List (AReq κ ℝ)) :
    (absorbIntoD [] req l).map (·.1) = absorbInto req l := by
  induction l with
  | nil => rfl
  | cons t rest ih =>
    simp only [absorbIntoD, absorbInto, sameDisj_nil, true_and]
    split
    · rfl
    · rw [← ih]; cases absorbIntoD [] req rest <;> rfl

theorem aggStepD_nil (l : List (AReq κ ℝ)) (i : Nat) : aggStepD (l, []) i = (aggStep l i, []) := by
  unfold aggStepD aggStep
  simp only
  cases hf : l.find? (fun r => r.pos == i) with
  | none => rfl
  | some req =>
    simp only
    have h := absorbIntoD_nil req l
    cases ha : absorbIntoD [] req l with
    | none => rw [ha] at h; simp only [Option.map_none] at h; rw [← h]
    | some x =>
      obtain ⟨l', o, n⟩ := x
      rw [ha] at h; simp only [Option.map_some] at h; rw [← h]
      simp

/-- without disjunctions the aggregation with disjunction bookkeeping is the plain aggregation (to which
`aggregation_spec` applies) -/
theorem requestsAggregationD_nil (rs : List (AReq κ ℝ)) :
    requestsAggregationD rs [] = (requestsAggregation rs, []) := by
  unfold requestsAggregationD requestsAggregation
  have key : ∀ (l : List (AReq κ ℝ)) (idx : List Nat),
      idx.foldl aggStepD (l, []) = (idx.foldl aggStep l, []) := by
    intro l idx
    induction idx generalizing l with
    | nil => rfl
    | cons j js ihj => simp only [List.foldl_cons, aggStepD_nil]; exact ihj _
  exact key _ _

end Gnpy.Response
