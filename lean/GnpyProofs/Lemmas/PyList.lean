import GnpyModel.Py
/- Lemmas about the Python list semantics of GnpyModel/Py.lean (core Lean only). -/
namespace Gnpy.Py

theorem length_rep {α : Type} (n : Int) (x : α) : (rep n x).length = n.toNat := by
  simp [rep]

theorem getElem?_rep {α : Type} (n : Int) (x : α) (k : Nat) :
    (rep n x)[k]? = if k < n.toNat then some x else none := by
  simp [rep, List.getElem?_replicate]

theorem length_intRange (a b : Int) : (intRange a b).length = (b - a).toNat := by
  simp [intRange]

theorem getElem?_intRange (a b : Int) (k : Nat) :
    (intRange a b)[k]? = if k < (b - a).toNat then some (a + (k : Int)) else none := by
  unfold intRange
  rw [List.getElem?_map]
  by_cases h : k < (b - a).toNat
  · simp [h]
  · simp [h]

theorem indexOf?_some {α : Type} [DecidableEq α] (x : α) (l : List α) (k : Nat) (h : indexOf? x l = some k) :
    l[k]? = some x ∧ ∀ j, j < k → l[j]? ≠ some x := by
  induction l generalizing k with
  | nil => simp [indexOf?] at h
  | cons y ys ih =>
    unfold indexOf? at h
    by_cases hy : y = x
    · simp [hy] at h
      subst h
      simp [hy]
    · simp only [hy, if_false, Option.map_eq_some_iff] at h
      obtain ⟨k', hk', rfl⟩ := h
      obtain ⟨h1, h2⟩ := ih k' hk'
      refine ⟨by simpa using h1, ?_⟩
      intro j hj
      cases j with
      | zero => simpa using hy
      | succ j => simpa using h2 j (by omega)

theorem indexOf?_none {α : Type} [DecidableEq α] (x : α) (l : List α) (h : indexOf? x l = none) : x ∉ l := by
  induction l with
  | nil => simp
  | cons y ys ih =>
    unfold indexOf? at h
    by_cases hy : y = x
    · simp [hy] at h
    · simp only [hy, if_false, Option.map_eq_none_iff] at h
      simp [ih h, Ne.symm hy]

/-- `range(a, b).index(n)` -/
theorem indexOf?_intRange (a b n : Int) :
    indexOf? n (intRange a b) = if a ≤ n ∧ n < b then some (n - a).toNat else none := by
  cases h : indexOf? n (intRange a b) with
  | none =>
    have := indexOf?_none _ _ h
    split
    · next hc =>
      exfalso; apply this
      rw [List.mem_iff_getElem?]
      refine ⟨(n - a).toNat, ?_⟩
      rw [getElem?_intRange]
      have : (n - a).toNat < (b - a).toNat := by omega
      simp [this]; omega
    · rfl
  | some k =>
    obtain ⟨h1, _⟩ := indexOf?_some _ _ _ h
    rw [getElem?_intRange] at h1
    split at h1
    · next hk =>
      have : a + (k : Int) = n := by simpa using h1
      have hc : a ≤ n ∧ n < b := by omega
      simp [hc]; omega
    · simp at h1

theorem sliceBound_le (len : Nat) (i : Int) : sliceBound len i ≤ len := by
  unfold sliceBound; split <;> split <;> omega

theorem sliceBound_cases (len : Nat) (i : Int) :
    (i < 0 ∧ i + len < 0 ∧ sliceBound len i = 0) ∨ (i < 0 ∧ 0 ≤ i + len ∧ (sliceBound len i : Int) = i + len) ∨
    (0 ≤ i ∧ i > len ∧ sliceBound len i = len) ∨ (0 ≤ i ∧ i ≤ len ∧ (sliceBound len i : Int) = i) := by
  unfold sliceBound; split <;> split <;> omega

theorem length_slice {α : Type} (l : List α) (i j : Int) :
    (slice l i j).length = min (sliceBound l.length j - sliceBound l.length i) (l.length - sliceBound l.length i) := by
  simp [slice]

theorem getElem?_slice {α : Type} (l : List α) (i j : Int) (k : Nat) :
    (slice l i j)[k]? = if k < sliceBound l.length j - sliceBound l.length i then l[sliceBound l.length i + k]? else none := by
  simp [slice, List.getElem?_take, List.getElem?_drop]

/-- a slice `l[a : a+k]` (k > 0, stop not negative) equal to `[x]*k` lies inside the list and every cell is `x` -/
theorem slice_eq_rep {α : Type} (l : List α) (a k : Int) (x : α) (hk : 0 < k) (hb : 0 ≤ a + k)
    (h : slice l a (a + k) = rep k x) :
    0 ≤ a ∧ a + k ≤ l.length ∧ ∀ j : Int, a ≤ j → j < a + k → l[j.toNat]? = some x := by
  have hlen : (slice l a (a + k)).length = k.toNat := by rw [h, length_rep]
  rw [length_slice] at hlen
  have ha : 0 ≤ a := by
    rcases sliceBound_cases l.length a with h1 | h1 | h1 | h1 <;>
      rcases sliceBound_cases l.length (a + k) with h2 | h2 | h2 | h2 <;> omega
  have hak : a + k ≤ l.length := by
    rcases sliceBound_cases l.length a with h1 | h1 | h1 | h1 <;>
      rcases sliceBound_cases l.length (a + k) with h2 | h2 | h2 | h2 <;> omega
  refine ⟨ha, hak, ?_⟩
  intro j hj1 hj2
  have hsa : sliceBound l.length a = a.toNat := by unfold sliceBound; split <;> split <;> omega
  have hsb : sliceBound l.length (a + k) = (a + k).toNat := by unfold sliceBound; split <;> split <;> omega
  have := congrArg (fun t => t[(j - a).toNat]?) h
  simp only [getElem?_slice, getElem?_rep, hsa, hsb] at this
  have h1 : (j - a).toNat < (a + k).toNat - a.toNat := by omega
  have h2 : (j - a).toNat < k.toNat := by omega
  simp only [h1, h2, if_true] at this
  rw [show a.toNat + (j - a).toNat = j.toNat by omega] at this
  exact this

/-- converse of `slice_eq_rep` -/
theorem slice_eq_rep_of {α : Type} (l : List α) (a k : Int) (x : α) (ha : 0 ≤ a) (hk : 0 ≤ k) (hak : a + k ≤ l.length)
    (h : ∀ j : Int, a ≤ j → j < a + k → l[j.toNat]? = some x) : slice l a (a + k) = rep k x := by
  have hsa : sliceBound l.length a = a.toNat := by unfold sliceBound; split <;> split <;> omega
  have hsb : sliceBound l.length (a + k) = (a + k).toNat := by unfold sliceBound; split <;> split <;> omega
  apply List.ext_getElem?
  intro i
  simp only [getElem?_slice, getElem?_rep, hsa, hsb]
  by_cases hi : i < k.toNat
  · have h1 : i < (a + k).toNat - a.toNat := by omega
    simp only [h1, hi, if_true]
    have := h (a + i) (by omega) (by omega)
    rwa [show (a + (i : Int)).toNat = a.toNat + i by omega] at this
  · have h1 : ¬ i < (a + k).toNat - a.toNat := by omega
    simp [h1, hi]

/-- `l[i : j+1] = [x] * (j - i + 1)` for in-range `i ≤ j`: exactly the cells i..j are replaced -/
theorem getElem?_sliceAssign_rep {α : Type} (l : List α) (i j : Nat) (x : α) (hij : i ≤ j) (hj : j < l.length) (k : Nat) :
    (sliceAssign l i ((j : Int) + 1) (rep (((j : Int) - i) + 1) x))[k]? = if i ≤ k ∧ k ≤ j then some x else l[k]? := by
  have hsa : sliceBound l.length (i : Int) = i := by unfold sliceBound; split <;> split <;> omega
  have hsb : sliceBound l.length ((j : Int) + 1) = j + 1 := by unfold sliceBound; split <;> split <;> omega
  simp only [sliceAssign, hsa, hsb]
  have hm : max i (j + 1) = j + 1 := by omega
  rw [hm, List.append_assoc, List.getElem?_append]
  have hl1 : (List.take i l).length = i := by simp; omega
  rw [hl1]
  by_cases h1 : k < i
  · simp only [h1, if_true, List.getElem?_take]
    have : ¬ (i ≤ k ∧ k ≤ j) := by omega
    simp [this]
  · simp only [h1, if_false]
    rw [List.getElem?_append, length_rep]
    have hr : (((j : Int) - (i : Int)) + 1).toNat = j - i + 1 := by omega
    rw [hr]
    by_cases h2 : k - i < j - i + 1
    · have : i ≤ k ∧ k ≤ j := by omega
      simp only [h2, this, and_self, if_true, getElem?_rep, hr]
    · have : ¬ (i ≤ k ∧ k ≤ j) := by omega
      simp only [h2, this, if_false, List.getElem?_drop]
      congr 1; omega

theorem length_sliceAssign_rep {α : Type} (l : List α) (i j : Nat) (x : α) (hij : i ≤ j) (hj : j < l.length) :
    (sliceAssign l i ((j : Int) + 1) (rep (((j : Int) - i) + 1) x)).length = l.length := by
  have hsa : sliceBound l.length (i : Int) = i := by unfold sliceBound; split <;> split <;> omega
  have hsb : sliceBound l.length ((j : Int) + 1) = j + 1 := by unfold sliceBound; split <;> split <;> omega
  simp only [sliceAssign, hsa, hsb, List.length_append, length_rep, List.length_take, List.length_drop]
  omega

end Gnpy.Py
