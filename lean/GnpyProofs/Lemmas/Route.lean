import GnpyModel
import Mathlib.Data.List.Perm.Subperm
import Mathlib.Data.List.Nodup
import Mathlib.Data.List.Range
import Mathlib.Tactic.Ring
/- helper lemmas for C11 / C12 (graphs, simple paths, argmin) -/
namespace Gnpy.Route

/-! ### checkers = predicates -/

theorem isWalkB_iff (g : Graph) : ∀ p, isWalkB g p = true ↔ IsWalk g p
  | [] => by simp [isWalkB, IsWalk]
  | [_] => by simp [isWalkB, IsWalk]
  | u :: v :: rest => by
    have ih := isWalkB_iff g (v :: rest)
    simp [isWalkB, IsWalk, ih]

theorem nodupB_iff : ∀ p : List V, nodupB p = true ↔ p.Nodup
  | [] => by simp [nodupB]
  | x :: xs => by
    have ih := nodupB_iff xs
    simp [nodupB, ih]

/-! ### DFS enumeration: sound and complete -/

theorem pathsFrom_sound (g : Graph) (t : V) : ∀ (fuel : Nat) (u : V) (vis : List V) (p : List V),
    p ∈ pathsFrom g t fuel u vis → IsSimplePath g u t vis p := by
  intro fuel
  induction fuel with
  | zero => intro u vis p h; simp [pathsFrom] at h
  | succ n ih =>
    intro u vis p h
    unfold pathsFrom at h
    split at h
    · simp at h
    next hu =>
      split at h
      next hut =>
        subst hut
        simp at h; subst h
        refine ⟨rfl, rfl, trivial, by simp, ?_⟩
        intro x hx; simp at hx; subst hx; exact hu
      next hut =>
        simp only [List.mem_flatMap, List.mem_filter, List.mem_map] at h
        obtain ⟨v, ⟨hv, hvn⟩, q, hq, rfl⟩ := h
        have := ih v (u :: vis) q hq
        obtain ⟨h1, h2, h3, h4, h5⟩ := this
        cases q with
        | nil => simp at h1
        | cons q0 qs =>
          simp at h1; subst h1
          refine ⟨rfl, ?_, ⟨hv, h3⟩, ?_, ?_⟩
          · simpa [List.getLast?_cons_cons] using h2
          · refine List.nodup_cons.2 ⟨?_, h4⟩
            intro hmem; exact (h5 u hmem) (by simp)
          · intro x hx
            rcases List.mem_cons.1 hx with rfl | hx
            · exact hu
            · intro hxa; exact (h5 x hx) (by simp [hxa])

theorem pathsFrom_complete (g : Graph) (t : V) : ∀ (fuel : Nat) (u : V) (vis : List V) (p : List V),
    IsSimplePath g u t vis p → p.length ≤ fuel → p ∈ pathsFrom g t fuel u vis := by
  intro fuel
  induction fuel with
  | zero =>
    intro u vis p h hl
    obtain ⟨h1, _⟩ := h
    cases p <;> simp_all
  | succ n ih =>
    intro u vis p h hl
    obtain ⟨h1, h2, h3, h4, h5⟩ := h
    cases p with
    | nil => simp at h1
    | cons p0 ps =>
      simp at h1; subst h1
      unfold pathsFrom
      have hu : p0 ∉ vis := h5 p0 (by simp)
      simp only [hu, if_false]
      cases ps with
      | nil =>
        simp at h2; subst h2; simp
      | cons v rest =>
        have hne : p0 ≠ t := by
          intro he; subst he
          have : (p0 :: v :: rest).getLast? = some p0 := h2
          have hmem : p0 ∈ v :: rest := by
            have := List.getLast?_cons_cons (a := p0) (b := v) (l := rest) ▸ this
            exact List.mem_of_getLast? this
          exact (List.nodup_cons.1 h4).1 hmem
        simp only [hne, if_false, List.mem_flatMap, List.mem_filter, List.mem_map]
        obtain ⟨hv, hw⟩ := h3
        have hnd := List.nodup_cons.1 h4
        refine ⟨v, ⟨hv, ?_⟩, v :: rest, ?_, rfl⟩
        · simp only [decide_eq_true_eq]
          intro hm
          rcases List.mem_cons.1 hm with rfl | hm
          · exact hnd.1 (by simp)
          · exact h5 v (by simp) hm
        · apply ih
          · refine ⟨rfl, ?_, hw, hnd.2, ?_⟩
            · simpa [List.getLast?_cons_cons] using h2
            · intro x hx hxa
              rcases List.mem_cons.1 hxa with rfl | hxa
              · exact hnd.1 hx
              · exact h5 x (List.mem_cons_of_mem _ hx) hxa
          · simp at hl ⊢; omega

/-- the nodes of a walk with at least one edge are nodes of the graph -/
theorem walk_nodes_lt (g : Graph) (hg : g.WF) : ∀ p : List V, IsWalk g p → 2 ≤ p.length → ∀ x ∈ p, x < g.n
  | [], _, hl => by simp at hl
  | [_], _, hl => by simp at hl
  | [u, v], hw, _ => by
    intro x hx
    have := hg u v hw.1
    simp at hx
    rcases hx with h | h
    · rw [h]; exact this.1
    · rw [h]; exact this.2
  | u :: v :: w :: rest, hw, _ => by
    intro x hx
    have h1 := hg u v hw.1
    rcases List.mem_cons.1 hx with rfl | hx
    · exact h1.1
    · exact walk_nodes_lt g hg (v :: w :: rest) hw.2 (by simp) x hx

theorem nodup_lt_length_le (p : List V) (n : Nat) (hnd : p.Nodup) (h : ∀ x ∈ p, x < n) : p.length ≤ n := by
  have hsub : p ⊆ List.range n := fun x hx => List.mem_range.2 (h x hx)
  have := (List.subperm_of_subset hnd hsub).length_le
  simpa using this

/-- a simple path has at most `n` nodes (or is a single node) -/
theorem simple_length_le (g : Graph) (hg : g.WF) (p : List V) (hw : IsWalk g p) (hnd : p.Nodup) :
    p.length ≤ g.n + 1 := by
  by_cases h2 : 2 ≤ p.length
  · have := nodup_lt_length_le p g.n hnd (walk_nodes_lt g hg p hw h2)
    omega
  · omega

/-! ### argmin -/

theorem argmin_none_iff {α : Type} (w : α → Nat) : ∀ l : List α, argmin w l = none ↔ l = []
  | [] => by simp [argmin]
  | x :: xs => by
    simp only [argmin]
    cases h : argmin w xs with
    | none => simp
    | some y => simp; split <;> simp

theorem argmin_mem {α : Type} (w : α → Nat) : ∀ (l : List α) (x : α), argmin w l = some x → x ∈ l
  | [], x, h => by simp [argmin] at h
  | a :: as, x, h => by
    simp only [argmin] at h
    cases h' : argmin w as with
    | none => rw [h'] at h; simp at h; subst h; simp
    | some y =>
      rw [h'] at h
      have ih := argmin_mem w as y h'
      simp only at h
      split at h
      · simp at h; subst h; simp
      · simp at h; subst h; simp [ih]

theorem argmin_le {α : Type} (w : α → Nat) : ∀ (l : List α) (x : α), argmin w l = some x → ∀ y ∈ l, w x ≤ w y
  | [], x, h => by simp [argmin] at h
  | a :: as, x, h => by
    intro y hy
    simp only [argmin] at h
    cases h' : argmin w as with
    | none =>
      rw [h'] at h; simp at h; subst h
      have : as = [] := (argmin_none_iff w as).1 h'
      subst this; simp at hy; subst hy; exact Nat.le_refl _
    | some z =>
      rw [h'] at h
      have ih := argmin_le w as z h'
      simp only at h
      split at h
      next hle =>
        simp at h; subst h
        rcases List.mem_cons.1 hy with rfl | hy
        · exact Nat.le_refl _
        · exact Nat.le_trans hle (ih y hy)
      next hgt =>
        simp at h; subst h
        rcases List.mem_cons.1 hy with rfl | hy
        · omega
        · exact ih y hy

/-! ### weights -/

theorem pathSum_add (f h : V → V → Nat) : ∀ p : List V,
    pathSum (fun u v => f u v + h u v) p = pathSum f p + pathSum h p
  | [] => by simp [pathSum]
  | [_] => by simp [pathSum]
  | u :: v :: rest => by
    have ih := pathSum_add f h (v :: rest)
    simp only [pathSum, ih]; omega

theorem pathSum_mul (c : Nat) (f : V → V → Nat) : ∀ p : List V,
    pathSum (fun u v => c * f u v) p = c * pathSum f p
  | [] => by simp [pathSum]
  | [_] => by simp [pathSum]
  | u :: v :: rest => by
    have ih := pathSum_mul c f (v :: rest)
    simp only [pathSum, ih]; ring

theorem pathWeight_eq (g : Graph) (p : List V) : pathWeight g p = 100 * pathLen g p + pathPseudo g p := by
  unfold pathWeight pathLen pathPseudo
  have : g.wt = fun u v => (fun u v => 100 * g.len u v) u v + g.pseudo u v := by
    funext u v; simp [Graph.wt]
  rw [this, pathSum_add, pathSum_mul]

theorem pathSum_dvd (k : Nat) (f : V → V → Nat) (h : ∀ u v, k ∣ f u v) : ∀ p : List V, k ∣ pathSum f p
  | [] => by simp [pathSum]
  | [_] => by simp [pathSum]
  | u :: v :: rest => by
    simp only [pathSum]
    exact Nat.dvd_add (h u v) (pathSum_dvd k f h (v :: rest))

theorem pathSum_le_length (f : V → V → Nat) (h : ∀ u v, f u v ≤ 1) : ∀ p : List V, pathSum f p ≤ p.length - 1
  | [] => by simp [pathSum]
  | [_] => by simp [pathSum]
  | u :: v :: rest => by
    have ih := pathSum_le_length f h (v :: rest)
    have := h u v
    simp only [pathSum, List.length_cons] at ih ⊢; omega

/-! ### `unique_ordered` -/

theorem uniqueOrdered_fold_nodup : ∀ (l acc : List V), acc.Nodup →
    (l.foldl (fun acc x => if acc.contains x then acc else acc ++ [x]) acc).Nodup
  | [], acc, h => h
  | x :: l, acc, h => by
    simp only [List.foldl_cons]
    apply uniqueOrdered_fold_nodup l
    split
    · exact h
    next hc =>
      have hx : x ∉ acc := by simpa using hc
      exact List.nodup_append.2 ⟨h, by simp, by
        intro a ha b hb
        simp only [List.mem_singleton] at hb
        subst hb
        exact fun e => hx (e ▸ ha)⟩

theorem uniqueOrdered_nodup (l : List V) : (uniqueOrdered l).Nodup :=
  uniqueOrdered_fold_nodup l [] List.nodup_nil

/-! ### forced hops: uniqueness of a route along line elements -/

/-- every hop `a → b` of the list is forced: `b` is the only successor of `a`, or `a` is the only predecessor of `b`
and `b` is known to be visited (`mem b`) -/
def ForcedChain (g : Graph) (mem : V → Prop) : List V → Prop
  | a :: b :: rest => (g.succ a = [b] ∨ ((∀ w, b ∈ g.succ w → w = a) ∧ mem b)) ∧ ForcedChain g mem (b :: rest)
  | _ => True

theorem ForcedChain.mono (g : Graph) (mem mem' : V → Prop) : ∀ l : List V,
    (∀ b ∈ l.tail, mem b → mem' b) → ForcedChain g mem l → ForcedChain g mem' l
  | [], _, _ => trivial
  | [_], _, _ => trivial
  | a :: b :: rest, h, hf => by
    refine ⟨?_, ForcedChain.mono g mem mem' (b :: rest)
      (fun x hx => h x (by simp only [List.tail_cons] at hx ⊢; exact List.mem_cons_of_mem _ hx)) hf.2⟩
    rcases hf.1 with h1 | ⟨h1, h2⟩
    · exact Or.inl h1
    · exact Or.inr ⟨h1, h b (by simp) h2⟩

/-- in a walk every element but the first has a predecessor on the walk -/
theorem walk_has_pred (g : Graph) : ∀ (y : V) (l : List V) (x : V), IsWalk g (y :: l) → x ∈ l →
    ∃ w ∈ y :: l, x ∈ g.succ w
  | _, [], x, _, hx => by simp at hx
  | y, z :: l, x, hw, hx => by
    rcases List.mem_cons.1 hx with rfl | hx
    · exact ⟨y, by simp, hw.1⟩
    · obtain ⟨w, hwm, hws⟩ := walk_has_pred g z l x hw.2 hx
      exact ⟨w, List.mem_cons_of_mem _ hwm, hws⟩

/-- an element whose only predecessor is the head of a loop-free walk sits right behind the head -/
theorem second_of_unique_pred (g : Graph) (a y : V) (l : List V) (x : V) (hw : IsWalk g (a :: y :: l))
    (hnd : (a :: y :: l).Nodup) (hx : x ∈ y :: l) (hpred : ∀ w, x ∈ g.succ w → w = a) : x = y := by
  rcases List.mem_cons.1 hx with h | h
  · exact h
  · obtain ⟨w, hwm, hws⟩ := walk_has_pred g y l x hw.2 h
    have := hpred w hws
    subst this
    exact absurd hwm (List.nodup_cons.1 hnd).1

/-- the predecessor of a visited element is visited (when it is the only one) -/
theorem pred_on_walk (g : Graph) (q : List V) (s x u : V) (hw : IsWalk g q) (hs : q.head? = some s) (hx : x ∈ q)
    (hne : x ≠ s) (hpred : ∀ w, x ∈ g.succ w → w = u) : u ∈ q := by
  cases q with
  | nil => simp at hx
  | cons a l =>
    simp at hs; subst hs
    rcases List.mem_cons.1 hx with h | h
    · exact absurd h hne
    · obtain ⟨w, hwm, hws⟩ := walk_has_pred g a l x hw h
      rw [← hpred w hws]; exact hwm

theorem forced_path_unique (g : Graph) (t : V) : ∀ (p q : List V), IsWalk g q → q.Nodup → p.Nodup →
    p.head? = q.head? → p ≠ [] → p.getLast? = some t → q.getLast? = some t →
    ForcedChain g (fun b => b ∈ q) p → q = p
  | [], _, _, _, _, _, hne, _, _, _ => absurd rfl hne
  | [x0], q, _, hqnd, _, hhead, _, hpl, hql, _ => by
    simp at hpl; subst hpl
    cases q with
    | nil => simp at hhead
    | cons a l =>
      simp at hhead; subst hhead
      cases l with
      | nil => rfl
      | cons y r =>
        have : (x0 :: y :: r).getLast? = some x0 := hql
        rw [List.getLast?_cons_cons] at this
        have hm : x0 ∈ y :: r := List.mem_of_getLast? this
        exact absurd hm (List.nodup_cons.1 hqnd).1
  | x0 :: x1 :: rest, q, hqw, hqnd, hpnd, hhead, _, hpl, hql, hf => by
    cases q with
    | nil => simp at hhead
    | cons a l =>
      simp at hhead; subst hhead
      have hpnd' := List.nodup_cons.1 hpnd
      have hx01 : x1 ≠ x0 := fun e => hpnd'.1 (e ▸ (by simp))
      -- q has a second element
      cases l with
      | nil =>
        -- then x0 = t, but t is also the last element of p, later than x0
        simp at hql; subst hql
        rw [List.getLast?_cons_cons] at hpl
        exact absurd (List.mem_of_getLast? hpl) hpnd'.1
      | cons y r =>
        have hy : y = x1 := by
          rcases hf.1 with h1 | ⟨h1, h2⟩
          · have := hqw.1; rw [h1] at this; simpa using this
          · have hx1 : x1 ∈ y :: r := by
              rcases List.mem_cons.1 h2 with h | h
              · exact absurd h hx01
              · exact h
            exact (second_of_unique_pred g x0 y r x1 hqw hqnd hx1 h1).symm
        subst hy
        have hq1nd := (List.nodup_cons.1 hqnd).2
        have ih := forced_path_unique g t (y :: rest) (y :: r) hqw.2 hq1nd hpnd'.2 rfl (by simp)
          (by rw [List.getLast?_cons_cons] at hpl; exact hpl)
          (by rw [List.getLast?_cons_cons] at hql; exact hql)
          (ForcedChain.mono g _ _ (y :: rest) (fun b hb hbq => by
              simp only [List.tail_cons] at hb
              rcases List.mem_cons.1 hbq with h | h
              · exact absurd (h ▸ List.mem_cons_of_mem _ hb) hpnd'.1
              · exact h) hf.2)
        rw [ih]

end Gnpy.Route
