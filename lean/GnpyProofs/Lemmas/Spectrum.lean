import GnpyModel
import GnpyProofs.Lemmas.Db
import Mathlib.Algebra.BigOperators.Group.List.Basic
import Mathlib.Data.List.Perm.Basic
/-
Proof-side vocabulary and helper lemmas for C01/C02 (model: GnpyModel/Spectrum.lean), over ℝ.
-/
namespace Gnpy.Spectrum

/-- the bookkeeping invariant of one channel: positive total power, three non-negative shares
that sum to one -/
def Inv (c : Chan ℝ) : Prop := 0 < c.p ∧ 0 ≤ c.s ∧ 0 ≤ c.a ∧ 0 ≤ c.n ∧ c.s + c.a + c.n = 1

/-- there is signal left (needed to speak about ratios to the signal) -/
def Live (c : Chan ℝ) : Prop := Inv c ∧ 0 < c.s

/-- guard of one mutating call in state `c`: linear factors positive, added ASE non-negative,
added NLI non-negative and below the channel power (what the +10 dBm clause of the property is
about; the monitor measures it on the implementation) -/
def OpOk (c : Chan ℝ) : Op ℝ → Prop
  | .attLin g => 0 < g
  | .attDb _ => True
  | .gainLin g => 0 < g
  | .gainDb _ => True
  | .addAse e => 0 ≤ e
  | .addNli x => 0 ≤ x ∧ x < c.p

/-- every call of a sequence is guarded in the state it meets -/
def RunOk : List (Op ℝ) → Chan ℝ → Prop
  | [], _ => True
  | o :: r, c => OpOk c o ∧ RunOk r (step c o)

/-- every element of a path is guarded in the state it meets -/
def PathOk : List (Elem ℝ) → Chan ℝ → Prop
  | [], _ => True
  | e :: r, c => RunOk e.ops c ∧ PathOk r (e.apply c)

theorem run_nil (c : Chan ℝ) : run [] c = c := rfl
theorem run_cons (o : Op ℝ) (r : List (Op ℝ)) (c : Chan ℝ) : run (o :: r) c = run r (step c o) := rfl
theorem run_append (l r : List (Op ℝ)) (c : Chan ℝ) : run (l ++ r) c = run r (run l c) := by
  simp [run, List.foldl_append]

theorem runOk_append (l r : List (Op ℝ)) (c : Chan ℝ) :
    RunOk (l ++ r) c ↔ RunOk l c ∧ RunOk r (run l c) := by
  induction l generalizing c with
  | nil => simp [RunOk, run_nil]
  | cons o l ih => simp [RunOk, run_cons, ih, and_assoc]

theorem path_nil (c : Chan ℝ) : path [] c = c := rfl
theorem path_cons (e : Elem ℝ) (r : List (Elem ℝ)) (c : Chan ℝ) : path (e :: r) c = path r (e.apply c) := rfl

/-- a path is the run of the concatenated op lists -/
theorem path_eq_run (es : List (Elem ℝ)) (c : Chan ℝ) : path es c = run (es.flatMap Elem.ops) c := by
  induction es generalizing c with
  | nil => rfl
  | cons e r ih => rw [path_cons, ih, List.flatMap_cons, run_append]; rfl

theorem pathOk_iff (es : List (Elem ℝ)) (c : Chan ℝ) : PathOk es c ↔ RunOk (es.flatMap Elem.ops) c := by
  induction es generalizing c with
  | nil => simp [PathOk, RunOk]
  | cons e r ih => rw [List.flatMap_cons, runOk_append, PathOk, ih]; rfl

theorem sumL_eq_sum (l : List ℝ) : sumL l = l.sum := by
  induction l with
  | nil => simp [sumL]
  | cons x xs ih => simp [sumL, ih]

/-! ### sorting / merging keyed channels -/

theorem insertK_perm (x : Int × Chan ℝ) (l : List (Int × Chan ℝ)) : (insertK x l).Perm (x :: l) := by
  induction l with
  | nil => simp [insertK]
  | cons y ys ih =>
    simp only [insertK]; split
    · exact List.Perm.refl _
    · exact (List.Perm.cons y ih).trans (List.Perm.swap x y ys)

theorem sortK_perm (l : List (Int × Chan ℝ)) : (sortK l).Perm l := by
  induction l with
  | nil => exact List.Perm.refl _
  | cons x xs ih => exact (insertK_perm x (sortK xs)).trans (List.Perm.cons x ih)

theorem insertK_sorted (x : Int × Chan ℝ) (l : List (Int × Chan ℝ))
    (h : l.Pairwise (fun u v => u.1 ≤ v.1)) : (insertK x l).Pairwise (fun u v => u.1 ≤ v.1) := by
  induction l with
  | nil => simp [insertK]
  | cons y ys ih =>
    simp only [insertK]; split
    · rename_i hxy
      rw [List.pairwise_cons] at h ⊢
      refine ⟨?_, List.pairwise_cons.2 h⟩
      intro z hz
      rcases List.mem_cons.1 hz with rfl | hz
      · omega
      · have := h.1 z hz; omega
    · rename_i hxy
      rw [List.pairwise_cons] at h ⊢
      refine ⟨?_, ih h.2⟩
      intro z hz
      rcases List.mem_cons.1 ((insertK_perm x ys).subset hz) with rfl | hz
      · omega
      · exact h.1 z hz

theorem sortK_sorted (l : List (Int × Chan ℝ)) : (sortK l).Pairwise (fun u v => u.1 ≤ v.1) := by
  induction l with
  | nil => simp [sortK]
  | cons x xs ih => exact insertK_sorted x _ ih

theorem mux_perm (parts : List (List (Int × Chan ℝ))) (m : List (Int × Chan ℝ))
    (h : mux parts = some m) : m.Perm parts.flatten := by
  induction parts generalizing m with
  | nil => simp [mux] at h
  | cons x r ih =>
    cases r with
    | nil => simp [mux] at h; subst h; simp
    | cons y r' =>
      simp only [mux] at h
      cases hm : mux (y :: r') with
      | none => simp [hm] at h
      | some m' =>
        simp only [hm, Option.some.injEq] at h
        subst h
        have := ih m' hm
        rw [List.flatten_cons]
        exact (sortK_perm _).trans (List.Perm.append_left x this)

theorem mux_isSome (parts : List (List (Int × Chan ℝ))) (h : parts ≠ []) : (mux parts).isSome := by
  induction parts with
  | nil => exact absurd rfl h
  | cons x r ih =>
    cases r with
    | nil => simp [mux]
    | cons y r' =>
      have := ih (by simp)
      simp only [mux]
      cases hm : mux (y :: r') with
      | none => simp [hm] at this
      | some m' => simp

theorem snrAddedLin_eq (args : List ℝ) (z : ℝ) :
    args.foldl (fun acc s => acc + db2lin (-s)) z = z + (args.map (fun s => db2lin (-s))).sum := by
  induction args generalizing z with
  | nil => simp
  | cons a r ih => simp only [List.foldl_cons, ih, List.map_cons, List.sum_cons]; ring


end Gnpy.Spectrum
