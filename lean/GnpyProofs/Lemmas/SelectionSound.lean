import GnpyModel
import GnpyProofs.Lemmas.Selection
import Mathlib.Data.List.Basic
import Mathlib.Data.List.Nodup
/- soundness of the candidate selection (steps 2-5 of compute_path_dsjctn) for ANY set of synchronisation vectors -/
namespace Gnpy.Route

/-- a combination for the vector `dl`: one candidate per request, in order, each tested against all earlier ones -/
def GoodCombo (inp : SelInput) (dl : List Nat) (sol : List Cand) : Prop :=
  sol.map Prod.fst = dl ∧ sol.Pairwise (fun a b => inp.dis b a = true)

/-- the table of candidates only holds good combinations of the vector it is filed under -/
def GoodTable (inp : SelInput) (groups : List (Nat × List Nat)) (cands : List (Nat × List (List Cand))) : Prop :=
  ∀ e ∈ cands, ∃ g ∈ groups, g.1 = e.1 ∧ ∀ sol ∈ e.2, GoodCombo inp g.2 sol

/-! ### step 2 -/

theorem step2_fold_good (inp : SelInput) : ∀ (others pre : List Nat) (dpath : List (List Cand)),
    (∀ sol ∈ dpath, GoodCombo inp pre sol) →
    ∀ sol ∈ others.foldl (fun dpath r =>
        (candsOf inp r).flatMap (fun c1 =>
          dpath.filterMap (fun cndt => if cndt.all (fun c => inp.dis c1 c) then some (cndt ++ [c1]) else none)))
        dpath,
      GoodCombo inp (pre ++ others) sol
  | [], pre, dpath, h => by simpa using h
  | r :: others, pre, dpath, h => by
    simp only [List.foldl_cons]
    have := step2_fold_good inp others (pre ++ [r])
      ((candsOf inp r).flatMap (fun c1 =>
          dpath.filterMap (fun cndt => if cndt.all (fun c => inp.dis c1 c) then some (cndt ++ [c1]) else none)))
      (by
        intro sol hsol
        simp only [List.mem_flatMap, List.mem_filterMap] at hsol
        obtain ⟨c1, hc1, cndt, hcndt, hs⟩ := hsol
        split at hs
        next hall =>
          simp only [Option.some.injEq] at hs
          subst hs
          obtain ⟨hm, hp⟩ := h cndt hcndt
          have hc := (mem_candsOf inp r c1).1 hc1
          refine ⟨by simp [hm, hc.1], ?_⟩
          rw [List.pairwise_append]
          refine ⟨hp, by simp, ?_⟩
          intro a ha b hb
          simp only [List.mem_singleton] at hb
          subst hb
          exact (List.all_eq_true.1 hall) a ha
        next => simp at hs)
    simpa using this

theorem step2_good (inp : SelInput) (dl : List Nat) : ∀ sol ∈ step2 inp dl, GoodCombo inp dl sol := by
  cases dl with
  | nil => intro sol h; simp [step2] at h
  | cons r0 others =>
    intro sol h
    have := step2_fold_good inp others [r0] ((candsOf inp r0).map (fun c => [c]))
      (by
        intro s hs
        simp only [List.mem_map] at hs
        obtain ⟨c, hc, rfl⟩ := hs
        exact ⟨by simp [((mem_candsOf inp r0 c).1 hc).1], by simp⟩)
      sol h
    simpa using this

/-- step 2 is exhaustive: every extension of a combination of `dpath` by valid candidates of `others`, each passing
the test against everything before it, is produced -/
theorem step2_fold_complete (inp : SelInput) : ∀ (others : List Nat) (ext base : List Cand) (dpath : List (List Cand)),
    base ∈ dpath → ext.map Prod.fst = others → (∀ c ∈ ext, c.2 < inp.ncand c.1) →
    (base ++ ext).Pairwise (fun a b => inp.dis b a = true) →
    base ++ ext ∈ others.foldl (fun dpath r =>
        (candsOf inp r).flatMap (fun c1 =>
          dpath.filterMap (fun cndt => if cndt.all (fun c => inp.dis c1 c) then some (cndt ++ [c1]) else none)))
        dpath
  | [], ext, base, dpath, hb, hm, _, _ => by
    have : ext = [] := by simpa using hm
    subst this; simpa using hb
  | r :: others, [], _, _, _, hm, _, _ => by simp at hm
  | r :: others, c :: ext, base, dpath, hb, hm, hv, hp => by
    simp only [List.map_cons, List.cons.injEq] at hm
    simp only [List.foldl_cons]
    have hp' : ((base ++ [c]) ++ ext).Pairwise (fun a b => inp.dis b a = true) := by simpa using hp
    have hall : base.all (fun a => inp.dis c a) = true := by
      rw [List.all_eq_true]
      intro a ha
      have := (List.pairwise_append.1 hp).2.2 a ha c (by simp)
      exact this
    have hvc : c.2 < inp.ncand r := by have := hv c (by simp); rw [hm.1] at this; exact this
    have hmem : base ++ [c] ∈ (candsOf inp r).flatMap (fun c1 =>
        dpath.filterMap (fun cndt => if cndt.all (fun c => inp.dis c1 c) then some (cndt ++ [c1]) else none)) := by
      simp only [List.mem_flatMap, List.mem_filterMap]
      refine ⟨c, (mem_candsOf inp r c).2 ⟨hm.1, hvc⟩, base, hb, ?_⟩
      rw [if_pos hall]
    have := step2_fold_complete inp others ext (base ++ [c]) _ hmem hm.2
      (fun x hx => hv x (List.mem_cons_of_mem _ hx)) hp'
    rw [List.append_assoc, List.singleton_append] at this
    exact this

theorem step2_complete (inp : SelInput) (dl : List Nat) (sol : List Cand) (hne : dl ≠ [])
    (hg : GoodCombo inp dl sol) (hv : ∀ c ∈ sol, c.2 < inp.ncand c.1) : sol ∈ step2 inp dl := by
  cases dl with
  | nil => exact absurd rfl hne
  | cons r0 others =>
    obtain ⟨hm, hp⟩ := hg
    cases sol with
    | nil => simp at hm
    | cons c0 ext =>
      simp only [List.map_cons, List.cons.injEq] at hm
      have hv0 : c0.2 < inp.ncand r0 := by have := hv c0 (by simp); rw [hm.1] at this; exact this
      have := step2_fold_complete inp others ext [c0] ((candsOf inp r0).map (fun c => [c]))
        (List.mem_map.2 ⟨c0, (mem_candsOf inp r0 c0).2 ⟨hm.1, hv0⟩, rfl⟩) hm.2
        (fun x hx => hv x (List.mem_cons_of_mem _ hx)) (by simpa using hp)
      simpa [step2] using this

theorem step2_fold_valid (inp : SelInput) : ∀ (others : List Nat) (dpath : List (List Cand)),
    (∀ sol ∈ dpath, ∀ c ∈ sol, c.2 < inp.ncand c.1) →
    ∀ sol ∈ others.foldl (fun dpath r =>
        (candsOf inp r).flatMap (fun c1 =>
          dpath.filterMap (fun cndt => if cndt.all (fun c => inp.dis c1 c) then some (cndt ++ [c1]) else none)))
        dpath, ∀ c ∈ sol, c.2 < inp.ncand c.1
  | [], dpath, h => by simpa using h
  | r :: others, dpath, h => by
    simp only [List.foldl_cons]
    apply step2_fold_valid inp others
    intro sol hsol c hc
    simp only [List.mem_flatMap, List.mem_filterMap] at hsol
    obtain ⟨c1, hc1, cndt, hcndt, hs⟩ := hsol
    split at hs
    · simp only [Option.some.injEq] at hs
      subst hs
      rcases List.mem_append.1 hc with hc | hc
      · exact h cndt hcndt c hc
      · simp only [List.mem_singleton] at hc; subst hc
        have := (mem_candsOf inp r c).1 hc1
        rw [this.1]; exact this.2
    · simp at hs

theorem step2_valid (inp : SelInput) (dl : List Nat) : ∀ sol ∈ step2 inp dl, ∀ c ∈ sol, c.2 < inp.ncand c.1 := by
  cases dl with
  | nil => intro sol h; simp [step2] at h
  | cons r0 others =>
    intro sol h
    apply step2_fold_valid inp others ((candsOf inp r0).map (fun c => [c])) _ sol h
    intro s hs c hc
    simp only [List.mem_map] at hs
    obtain ⟨c0, hc0, rfl⟩ := hs
    simp only [List.mem_singleton] at hc; subst hc
    have := (mem_candsOf inp r0 c).1 hc0
    rw [this.1]; exact this.2

/-! ### table updates that only remove combinations keep the table good -/

theorem goodTable_map (inp : SelInput) (groups : List (Nat × List Nat)) (cands : List (Nat × List (List Cand)))
    (F : Nat × List (List Cand) → Nat × List (List Cand))
    (hF : ∀ e, (F e).1 = e.1 ∧ ∀ x ∈ (F e).2, x ∈ e.2) (h : GoodTable inp groups cands) :
    GoodTable inp groups (cands.map F) := by
  intro e' he'
  obtain ⟨e, he, rfl⟩ := List.mem_map.1 he'
  obtain ⟨g, hg, hk, hgood⟩ := h e he
  exact ⟨g, hg, by rw [(hF e).1]; exact hk, fun sol hsol => hgood sol ((hF e).2 sol hsol)⟩

theorem step3One_good (inp : SelInput) (groups : List (Nat × List Nat)) (concerned : List Nat) (c : Cand)
    (cands : List (Nat × List (List Cand))) (h : GoodTable inp groups cands) :
    GoodTable inp groups (step3One inp.vid concerned c cands) := by
  unfold step3One
  simp only
  split
  · apply goodTable_map inp groups cands _ _ h
    intro e
    obtain ⟨d, combos⟩ := e
    simp only
    split
    · exact ⟨rfl, fun x hx => pyRemove_subset _ combos x hx⟩
    · exact ⟨rfl, fun x hx => hx⟩
  · exact h

theorem step3_good (inp : SelInput) (groups : List (Nat × List Nat)) (reqs : List Nat)
    (cands : List (Nat × List (List Cand))) (h : GoodTable inp groups cands) :
    GoodTable inp groups (step3 inp groups reqs cands) := by
  unfold step3
  induction reqs generalizing cands with
  | nil => exact h
  | cons r rest ih =>
    simp only [List.foldl_cons]
    apply ih
    generalize (List.filter (fun g : Nat × List Nat => g.2.contains r) groups).map (·.1) = concerned
    generalize candsOf inp r = cs
    induction cs generalizing cands with
    | nil => exact h
    | cons c cs ihc =>
      simp only [List.foldl_cons]
      exact ihc _ (step3One_good inp groups concerned c cands h)

theorem step4_subset (inp : SelInput) (combos : List (List Cand)) : ∀ x ∈ step4 inp combos, x ∈ combos := by
  intro x hx
  unfold step4 at hx
  simp only at hx
  split at hx
  · exact (List.mem_filter.1 hx).1
  · exact (List.mem_filter.1 hx).1

theorem removeCandidate_good (inp : SelInput) (groups : List (Nat × List Nat)) (c : Cand)
    (cands : List (Nat × List (List Cand))) (h : GoodTable inp groups cands) :
    GoodTable inp groups (removeCandidate c cands) := by
  unfold removeCandidate
  apply goodTable_map inp groups cands _ _ h
  intro e
  obtain ⟨d, combos⟩ := e
  exact ⟨rfl, fun x hx => (List.mem_filter.1 hx).1⟩

/-! ### step 5 -/

/-- every combination still in the table agrees with the paths already chosen -/
def Consistent (chosen : List Cand) (cands : List (Nat × List (List Cand))) : Prop :=
  ∀ c ∈ chosen, ∀ e ∈ cands, ∀ sol ∈ e.2, ∀ x ∈ sol, x.1 = c.1 → x = c

structure Inv (inp : SelInput) (groups : List (Nat × List Nat)) (reqs : List Nat)
    (cands : List (Nat × List (List Cand))) (todo : List Nat) (chosen : List Cand) : Prop where
  good : GoodTable inp groups cands
  cons : Consistent chosen cands
  cover : ∀ r ∈ reqs, r ∈ todo ∨ ∃ c ∈ chosen, c.1 = r
  done : ∀ c ∈ chosen, c.1 ∉ todo
  uniq : ∀ c ∈ chosen, ∀ c' ∈ chosen, c.1 = c'.1 → c = c'
  nodup : todo.Nodup

/-- the state transformer applied to every path of the selected combination -/
def pick (st : List (Nat × List (List Cand)) × List Nat × List Cand) (c : Cand) :
    List (Nat × List (List Cand)) × List Nat × List Cand :=
  if st.2.1.contains c.1 then (removeCandidate c st.1, st.2.1.erase c.1, st.2.2 ++ [c]) else st

theorem mem_removeCandidate (c : Cand) (cands : List (Nat × List (List Cand))) (e : Nat × List (List Cand))
    (he : e ∈ removeCandidate c cands) : ∃ e0 ∈ cands, e.1 = e0.1 ∧
      ∀ sol ∈ e.2, sol ∈ e0.2 ∧ ∀ x ∈ sol, x.1 = c.1 → x = c := by
  unfold removeCandidate at he
  obtain ⟨e0, he0, rfl⟩ := List.mem_map.1 he
  obtain ⟨d, combos⟩ := e0
  refine ⟨(d, combos), he0, rfl, ?_⟩
  intro sol hsol
  simp only [List.mem_filter, List.all_eq_true, Bool.or_eq_true, bne_iff_ne, ne_eq, beq_iff_eq] at hsol
  refine ⟨hsol.1, ?_⟩
  intro x hx hxc
  rcases hsol.2 x hx with h | h
  · exact absurd hxc h
  · exact h

/-- one step of the fold over the selected combination `sol` -/
theorem pick_inv (inp : SelInput) (groups : List (Nat × List Nat)) (reqs : List Nat) (sol : List Cand)
    (hsoluniq : ∀ x ∈ sol, ∀ y ∈ sol, x.1 = y.1 → x = y) (hsolreq : ∀ x ∈ sol, x.1 ∈ reqs)
    (st : List (Nat × List (List Cand)) × List Nat × List Cand) (c : Cand) (hc : c ∈ sol)
    (hinv : Inv inp groups reqs st.1 st.2.1 st.2.2)
    (hagree : ∀ c0 ∈ st.2.2, ∀ x ∈ sol, x.1 = c0.1 → x = c0) :
    Inv inp groups reqs (pick st c).1 (pick st c).2.1 (pick st c).2.2 ∧
    (∀ c0 ∈ (pick st c).2.2, ∀ x ∈ sol, x.1 = c0.1 → x = c0) ∧
    c ∈ (pick st c).2.2 ∧ (∀ x ∈ st.2.2, x ∈ (pick st c).2.2) := by
  obtain ⟨cands, todo, chosen⟩ := st
  simp only at hinv hagree
  unfold pick
  simp only
  by_cases hin : todo.contains c.1 = true
  · simp only [hin, if_true]
    have hmem : c.1 ∈ todo := by simpa using hin
    refine ⟨⟨removeCandidate_good inp groups c cands hinv.good, ?_, ?_, ?_, ?_, hinv.nodup.erase _⟩, ?_, by simp,
      fun x hx => List.mem_append_left _ hx⟩
    · -- consistency
      intro c0 hc0 e he s hs x hx hxc
      obtain ⟨e0, he0, _, hsub⟩ := mem_removeCandidate c cands e he
      rcases List.mem_append.1 hc0 with h | h
      · exact hinv.cons c0 h e0 he0 s (hsub s hs).1 x hx hxc
      · simp only [List.mem_singleton] at h; subst h
        exact (hsub s hs).2 x hx hxc
    · -- cover
      intro r hr
      by_cases hrc : r = c.1
      · exact Or.inr ⟨c, by simp, hrc.symm⟩
      · rcases hinv.cover r hr with h | ⟨c0, hc0, h0⟩
        · exact Or.inl ((List.mem_erase_of_ne hrc).2 h)
        · exact Or.inr ⟨c0, List.mem_append_left _ hc0, h0⟩
    · -- done
      intro c0 hc0 hcon
      rcases List.mem_append.1 hc0 with h | h
      · exact hinv.done c0 h (List.mem_of_mem_erase hcon)
      · simp only [List.mem_singleton] at h; subst h
        exact (List.Nodup.not_mem_erase hinv.nodup) hcon
    · -- uniq
      intro a ha b hb hab
      rcases List.mem_append.1 ha with ha1 | ha1 <;> rcases List.mem_append.1 hb with hb1 | hb1
      · exact hinv.uniq a ha1 b hb1 hab
      · simp only [List.mem_singleton] at hb1
        have : a.1 ∈ todo := by rw [hab, hb1]; exact hmem
        exact absurd this (hinv.done a ha1)
      · simp only [List.mem_singleton] at ha1
        have : b.1 ∈ todo := by rw [← hab, ha1]; exact hmem
        exact absurd this (hinv.done b hb1)
      · simp only [List.mem_singleton] at ha1 hb1; rw [ha1, hb1]
    · -- agreement of sol with chosen
      intro c0 hc0 x hx hxc
      rcases List.mem_append.1 hc0 with h | h
      · exact hagree c0 h x hx hxc
      · simp only [List.mem_singleton] at h; subst h
        exact hsoluniq x hx c0 hc hxc
  · have hin' : todo.contains c.1 = false := by simpa using hin
    simp only [hin', Bool.false_eq_true, if_false]
    refine ⟨hinv, hagree, ?_, fun x hx => hx⟩
    have hnot : c.1 ∉ todo := by simpa using hin'
    rcases hinv.cover c.1 (hsolreq c hc) with h | ⟨c0, hc0, h0⟩
    · exact absurd h hnot
    · have := hagree c0 hc0 c hc h0.symm
      rw [this]; exact hc0

theorem fold_pick_inv (inp : SelInput) (groups : List (Nat × List Nat)) (reqs : List Nat) (sol : List Cand)
    (hsoluniq : ∀ x ∈ sol, ∀ y ∈ sol, x.1 = y.1 → x = y) (hsolreq : ∀ x ∈ sol, x.1 ∈ reqs) :
    ∀ (part : List Cand) (st : List (Nat × List (List Cand)) × List Nat × List Cand),
      (∀ x ∈ part, x ∈ sol) → Inv inp groups reqs st.1 st.2.1 st.2.2 →
      (∀ c0 ∈ st.2.2, ∀ x ∈ sol, x.1 = c0.1 → x = c0) →
      Inv inp groups reqs (part.foldl pick st).1 (part.foldl pick st).2.1 (part.foldl pick st).2.2 ∧
      (∀ x ∈ part, x ∈ (part.foldl pick st).2.2) ∧ (∀ x ∈ st.2.2, x ∈ (part.foldl pick st).2.2)
  | [], st, _, hinv, _ => ⟨hinv, by simp, fun x hx => hx⟩
  | c :: part, st, hpart, hinv, hagree => by
    obtain ⟨h1, h2, h3, h4⟩ := pick_inv inp groups reqs sol hsoluniq hsolreq st c (hpart c (by simp)) hinv hagree
    obtain ⟨k1, k2, k3⟩ := fold_pick_inv inp groups reqs sol hsoluniq hsolreq part (pick st c)
      (fun x hx => hpart x (List.mem_cons_of_mem _ hx)) h1 h2
    simp only [List.foldl_cons]
    refine ⟨k1, ?_, fun x hx => k3 x (h4 x hx)⟩
    intro x hx
    rcases List.mem_cons.1 hx with rfl | hx
    · exact k3 x h3
    · exact k2 x hx

theorem go_cons (d : Nat) (ds : List Nat) (cands : List (Nat × List (List Cand))) (todo : List Nat)
    (chosen : List Cand) :
    step5.go (d :: ds) cands todo chosen =
      match (cands.lookup d).bind (·.head?) with
      | none => none
      | some sol =>
        step5.go ds (sol.foldl pick (cands, todo, chosen)).1 (sol.foldl pick (cands, todo, chosen)).2.1
          (sol.foldl pick (cands, todo, chosen)).2.2 := by
  rw [step5.go]
  cases h : (cands.lookup d).bind (·.head?) with
  | none => rfl
  | some sol => rfl

theorem lookup_mem {β : Type} (d : Nat) (v : β) : ∀ (l : List (Nat × β)), l.lookup d = some v → (d, v) ∈ l
  | [], h => by simp [List.lookup] at h
  | (k, w) :: rest, h => by
    simp only [List.lookup] at h
    by_cases hk : d = k
    · subst hk
      simp at h
      subst h
      simp
    · have : (d == k) = false := by simpa using hk
      rw [this] at h
      exact List.mem_cons_of_mem _ (lookup_mem d v rest h)

theorem go_sound (inp : SelInput) (groups : List (Nat × List Nat)) (reqs : List Nat)
    (hids : (groups.map (·.1)).Nodup) (hdl : ∀ g ∈ groups, g.2.Nodup)
    (hreqs : ∀ g ∈ groups, ∀ r ∈ g.2, r ∈ reqs) :
    ∀ (order : List Nat) (cands : List (Nat × List (List Cand))) (todo : List Nat) (chosen result : List Cand),
      Inv inp groups reqs cands todo chosen →
      step5.go order cands todo chosen = some result →
      (∀ x ∈ chosen, x ∈ result) ∧
      (∀ c ∈ result, ∀ c' ∈ result, c.1 = c'.1 → c = c') ∧
      ∀ d ∈ order, ∀ g ∈ groups, g.1 = d → ∃ sol, GoodCombo inp g.2 sol ∧ ∀ x ∈ sol, x ∈ result
  | [], cands, todo, chosen, result, hinv, hgo => by
    simp only [step5.go, Option.some.injEq] at hgo
    subst hgo
    exact ⟨fun x hx => hx, hinv.uniq, by simp⟩
  | d :: ds, cands, todo, chosen, result, hinv, hgo => by
    rw [go_cons] at hgo
    cases hl : (cands.lookup d).bind (·.head?) with
    | none => rw [hl] at hgo; simp at hgo
    | some sol =>
      rw [hl] at hgo
      simp only at hgo
      -- where sol comes from
      obtain ⟨combos, hcombos, hhead⟩ := Option.bind_eq_some_iff.1 hl
      have he : (d, combos) ∈ cands := lookup_mem d combos cands hcombos
      have hsolmem : sol ∈ combos := List.mem_of_mem_head? hhead
      obtain ⟨g0, hg0, hg0d, hgood⟩ := hinv.good (d, combos) he
      have hgsol := hgood sol hsolmem
      have hsoluniq : ∀ x ∈ sol, ∀ y ∈ sol, x.1 = y.1 → x = y := by
        have hnd : (sol.map Prod.fst).Nodup := by rw [hgsol.1]; exact hdl g0 hg0
        exact fun x hx y hy hxy => List.inj_on_of_nodup_map hnd hx hy hxy
      have hsolreq : ∀ x ∈ sol, x.1 ∈ reqs := by
        intro x hx
        apply hreqs g0 hg0
        rw [← hgsol.1]
        exact List.mem_map.2 ⟨x, hx, rfl⟩
      have hagree : ∀ c0 ∈ chosen, ∀ x ∈ sol, x.1 = c0.1 → x = c0 :=
        fun c0 hc0 x hx hxc => hinv.cons c0 hc0 (d, combos) he sol hsolmem x hx hxc
      obtain ⟨k1, k2, k3⟩ := fold_pick_inv inp groups reqs sol hsoluniq hsolreq sol (cands, todo, chosen)
        (fun x hx => hx) hinv hagree
      obtain ⟨r1, r2, r3⟩ := go_sound inp groups reqs hids hdl hreqs ds _ _ _ result k1 hgo
      refine ⟨fun x hx => r1 x (k3 x hx), r2, ?_⟩
      intro d' hd' g hg hgd
      rcases List.mem_cons.1 hd' with rfl | hd'
      · have : g = g0 := by
          apply List.inj_on_of_nodup_map hids hg hg0
          rw [hgd, hg0d]
        subst this
        exact ⟨sol, hgsol, fun x hx => r1 x (k2 x hx)⟩
      · exact r3 d' hd' g hg hgd

end Gnpy.Route
