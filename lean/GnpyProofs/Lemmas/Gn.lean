import GnpyModel
import GnpyProofs.Lemmas.Db
import Mathlib.Analysis.SpecialFunctions.Trigonometric.Basic
import Mathlib.Analysis.SpecialFunctions.Arsinh
import Mathlib.Algebra.BigOperators.Group.List.Basic
import Mathlib.Data.List.Perm.Basic
/-
Helper lemmas for C03 (model: GnpyModel/Gn.lean), all over ℝ with π := Real.pi.
-/
namespace Gnpy.Gn

noncomputable instance : HasPi ℝ := ⟨Real.pi⟩
@[simp] theorem haspi_real : (HasPi.pi : ℝ) = Real.pi := rfl

theorem sumL_eq_sum (l : List ℝ) : sumL l = l.sum := by
  induction l with
  | nil => simp [sumL]
  | cons x xs ih => simp [sumL, ih]

/-- `alpha = loss[dB/m] · ln 10 / 10` -/
theorem alphaOfLoss_eq (c : ℝ) : alphaOfLoss c = c * Real.log 10 / 10 := by
  simp only [alphaOfLoss, transc_log, transc_exp, Nat.cast_ofNat, Nat.cast_one, Real.log_exp]
  have := log10_ne
  field_simp

/-- physically meaningful loaded channel: positive loss coefficient and baud rate, non-negative power -/
structure WF (c : LCh ℝ) : Prop where
  alpha_pos : 0 < c.alpha
  b_pos : 0 < c.b
  p_nonneg : 0 ≤ c.p

/-- `c'` is `c` with its power raised (or kept) -/
structure Raised (c c' : LCh ℝ) : Prop where
  f : c'.f = c.f
  b : c'.b = c.b
  alpha : c'.alpha = c.alpha
  beta2 : c'.beta2 = c.beta2
  gamma : c'.gamma = c.gamma
  p : c.p ≤ c'.p

theorem Raised.refl (c : LCh ℝ) : Raised c c := ⟨rfl, rfl, rfl, rfl, rfl, le_refl _⟩

theorem Raised.wf {c c' : LCh ℝ} (h : Raised c c') (w : WF c) : WF c' :=
  ⟨by rw [h.alpha]; exact w.alpha_pos, by rw [h.b]; exact w.b_pos, le_trans w.p_nonneg h.p⟩

theorem spmW_nonneg : (0:ℝ) ≤ spmW := by simp only [spmW, Nat.cast_ofNat]; norm_num
theorem xpmW_nonneg : (0:ℝ) ≤ xpmW := by simp only [xpmW, Nat.cast_ofNat]; norm_num
theorem wIdx_nonneg (i j : Nat) : (0:ℝ) ≤ (if i = j then spmW else xpmW) := by
  split
  · exact spmW_nonneg
  · exact xpmW_nonneg
theorem wgtF_nonneg (ci cj : LCh ℝ) : 0 ≤ wgtF ci cj := by
  simp only [wgtF]; split
  · exact xpmW_nonneg
  · exact spmW_nonneg

/-- the asinh kernel is non-negative (arsinh is monotone and the pump band has non-negative width) -/
theorem psi_nonneg' (len : ℝ) (ci cj : LCh ℝ) (ha : 0 < cj.alpha) (hbi : 0 ≤ ci.b) (hbj : 0 ≤ cj.b) :
    0 ≤ psi len ci cj := by
  simp only [psi, effLength, transc_abs, transc_asinh, transc_exp, haspi_real, Nat.cast_ofNat, Nat.cast_one]
  have hpi := Real.pi_pos
  have hK : 0 ≤ Real.pi * Real.pi * (1 / cj.alpha) * |(ci.beta2 + cj.beta2) / 2| * ci.b := by positivity
  apply mul_nonneg
  · apply div_nonneg _ (by norm_num)
    rw [sub_nonneg]
    apply Real.arsinh_le_arsinh.2
    apply mul_le_mul_of_nonneg_left _ hK
    linarith
  · exact div_nonneg (mul_self_nonneg _) (by positivity)

theorem eta_nonneg (w len : ℝ) (ci cj : LCh ℝ) (hw : 0 ≤ w) (ha : 0 < cj.alpha) (hbi : 0 ≤ ci.b) (hbj : 0 ≤ cj.b) :
    0 ≤ eta w len ci cj := by
  have h := psi_nonneg' len ci cj ha hbi hbj
  simp only [eta]
  exact mul_nonneg hbi (div_nonneg (mul_nonneg (mul_nonneg (mul_self_nonneg _) hw) h)
    (mul_nonneg hbi (mul_self_nonneg _)))

theorem term_nonneg' (w len : ℝ) (ci cj : LCh ℝ) (hw : 0 ≤ w) (hi : WF ci) (hj : WF cj) :
    0 ≤ term w len ci cj := by
  simp only [term]
  exact mul_nonneg (mul_nonneg hi.p_nonneg (mul_self_nonneg _))
    (eta_nonneg w len ci cj hw hj.alpha_pos (le_of_lt hi.b_pos) (le_of_lt hj.b_pos))

theorem rowSum_nonneg (len : ℝ) (i : Nat) (ci : LCh ℝ) (hi : WF ci) :
    ∀ (l : List (LCh ℝ)) (j : Nat), (∀ c ∈ l, WF c) → 0 ≤ rowSum len i ci j l := by
  intro l
  induction l with
  | nil => intro j _; simp [rowSum]
  | cons cj rest ih =>
    intro j h
    simp only [rowSum]
    have h1 := term_nonneg' (if i = j then spmW else xpmW) len ci cj (wIdx_nonneg i j) hi (h cj (by simp))
    have h2 := ih (j + 1) (fun c hc => h c (by simp [hc]))
    linarith

theorem nliFrom_nonneg (len : ℝ) (all : List (LCh ℝ)) (hall : ∀ c ∈ all, WF c) :
    ∀ (l : List (LCh ℝ)) (i : Nat), (∀ c ∈ l, WF c) → ∀ x ∈ nliFrom len all i l, 0 ≤ x := by
  intro l
  induction l with
  | nil => intro i _ x hx; simp [nliFrom] at hx
  | cons ci rest ih =>
    intro i h x hx
    simp only [nliFrom, List.mem_cons] at hx
    rcases hx with hx | hx
    · rw [hx]; exact rowSum_nonneg len i ci (h ci (by simp)) all 0 hall
    · exact ih (i + 1) (fun c hc => h c (by simp [hc])) x hx

theorem nliFrom_length (len : ℝ) (all : List (LCh ℝ)) :
    ∀ (l : List (LCh ℝ)) (i : Nat), (nliFrom len all i l).length = l.length := by
  intro l
  induction l with
  | nil => intro i; simp [nliFrom]
  | cons ci rest ih => intro i; simp [nliFrom, ih]

/-! ### index form = frequency form on combs with pairwise distinct frequencies -/

theorem rowSum_eq_spec (len : ℝ) (i : Nat) (ci : LCh ℝ) :
    ∀ (l : List (LCh ℝ)) (j0 : Nat),
      (∀ k (hk : k < l.length), (i = j0 + k ↔ ci.f = l[k].f)) →
      rowSum len i ci j0 l = sumL (l.map (fun cj => term (wgtF ci cj) len ci cj)) := by
  intro l
  induction l with
  | nil => intro j0 _; simp [rowSum, sumL]
  | cons cj rest ih =>
    intro j0 H
    simp only [rowSum, List.map_cons, sumL]
    have h0 := H 0 (by simp)
    simp only [Nat.add_zero, List.getElem_cons_zero] at h0
    have hw : (if i = j0 then (spmW : ℝ) else xpmW) = wgtF ci cj := by
      simp only [wgtF]
      by_cases hij : i = j0
      · have hf := h0.1 hij
        simp [hij, hf]
      · have hf : ci.f ≠ cj.f := fun e => hij (h0.2 e)
        have : ci.f < cj.f ∨ cj.f < ci.f := lt_or_gt_of_ne hf
        simp [hij, this]
    rw [hw, ih (j0 + 1)]
    intro k hk
    have := H (k + 1) (by simp; omega)
    simp only [List.getElem_cons_succ] at this
    rw [show j0 + 1 + k = j0 + (k + 1) by omega]
    exact this

theorem nliFrom_eq_spec (len : ℝ) (all : List (LCh ℝ)) (hd : all.Pairwise (fun a b => a.f ≠ b.f)) :
    ∀ (l : List (LCh ℝ)) (i0 : Nat), (∀ k (hk : k < l.length), all[i0 + k]? = some l[k]) →
      nliFrom len all i0 l = l.map (nliOf len all) := by
  intro l
  induction l with
  | nil => intro i0 _; simp [nliFrom]
  | cons ci rest ih =>
    intro i0 H
    simp only [nliFrom, List.map_cons]
    have h0 := H 0 (by simp)
    simp only [Nat.add_zero, List.getElem_cons_zero] at h0
    obtain ⟨hi0, hget⟩ := List.getElem?_eq_some_iff.1 h0
    congr 1
    · simp only [nliOf]
      apply rowSum_eq_spec
      intro k hk
      simp only [Nat.zero_add]
      constructor
      · intro e; subst e; rw [hget]
      · intro e
        by_contra hne
        rw [List.pairwise_iff_getElem] at hd
        rcases Nat.lt_or_gt_of_ne hne with hlt | hlt
        · have := hd i0 k hi0 hk hlt
          rw [hget] at this; exact this e
        · have := hd k i0 hk hi0 hlt
          rw [hget] at this; exact this e.symm
    · apply ih (i0 + 1)
      intro k hk
      have := H (k + 1) (by simp; omega)
      simp only [List.getElem_cons_succ] at this
      rw [show i0 + 1 + k = i0 + (k + 1) by omega]
      exact this

/-! ### cubic scaling -/

theorem term_scale (w len k : ℝ) (ci cj : LCh ℝ) :
    term w len (scale k ci) (scale k cj) = k ^ 3 * term w len ci cj := by
  simp only [term, eta, psi, scale]
  ring

theorem rowSum_scale (len k : ℝ) (i : Nat) (ci : LCh ℝ) :
    ∀ (l : List (LCh ℝ)) (j : Nat),
      rowSum len i (scale k ci) j (l.map (scale k)) = k ^ 3 * rowSum len i ci j l := by
  intro l
  induction l with
  | nil => intro j; simp [rowSum]
  | cons cj rest ih =>
    intro j
    simp only [List.map_cons, rowSum, term_scale, ih]
    ring

theorem nliFrom_scale (len k : ℝ) (all : List (LCh ℝ)) :
    ∀ (l : List (LCh ℝ)) (i : Nat),
      nliFrom len (all.map (scale k)) i (l.map (scale k)) = (nliFrom len all i l).map (fun x => k ^ 3 * x) := by
  intro l
  induction l with
  | nil => intro i; simp [nliFrom]
  | cons ci rest ih =>
    intro i
    simp only [List.map_cons, nliFrom, rowSum_scale, ih]

/-! ### monotone in every power -/

theorem eta_raised (w len : ℝ) {ci ci' cj cj' : LCh ℝ} (hi : Raised ci ci') (hj : Raised cj cj') :
    eta w len ci' cj' = eta w len ci cj := by
  simp only [eta, psi, effLength, hi.f, hi.b, hi.beta2, hi.gamma, hj.f, hj.b, hj.alpha, hj.beta2]

theorem term_mono (w len : ℝ) {ci ci' cj cj' : LCh ℝ} (hw : 0 ≤ w) (hi : Raised ci ci') (hj : Raised cj cj')
    (wi : WF ci) (wj : WF cj) : term w len ci cj ≤ term w len ci' cj' := by
  simp only [term, eta_raised w len hi hj]
  have hE := eta_nonneg w len ci cj hw wj.alpha_pos (le_of_lt wi.b_pos) (le_of_lt wj.b_pos)
  apply mul_le_mul_of_nonneg_right _ hE
  apply mul_le_mul hi.p (mul_self_le_mul_self wj.p_nonneg hj.p) (mul_self_nonneg _) (le_trans wi.p_nonneg hi.p)

theorem rowSum_mono (len : ℝ) (i : Nat) {ci ci' : LCh ℝ} (hi : Raised ci ci') (wi : WF ci) :
    ∀ {l l' : List (LCh ℝ)}, List.Forall₂ Raised l l' → (∀ c ∈ l, WF c) → ∀ j,
      rowSum len i ci j l ≤ rowSum len i ci' j l' := by
  intro l l' h
  induction h with
  | nil => intro _ j; simp [rowSum]
  | cons hab _ ih =>
    intro hw j
    simp only [rowSum]
    have h1 := term_mono (if i = j then spmW else xpmW) len (wIdx_nonneg i j) hi hab wi (hw _ (by simp))
    have h2 := ih (fun c hc => hw c (by simp [hc])) (j + 1)
    linarith

theorem nliFrom_mono (len : ℝ) {all all' : List (LCh ℝ)} (hall : List.Forall₂ Raised all all')
    (wall : ∀ c ∈ all, WF c) :
    ∀ {l l' : List (LCh ℝ)}, List.Forall₂ Raised l l' → (∀ c ∈ l, WF c) → ∀ i,
      List.Forall₂ (· ≤ ·) (nliFrom len all i l) (nliFrom len all' i l') := by
  intro l l' h
  induction h with
  | nil => intro _ i; simp [nliFrom]
  | cons hab _ ih =>
    intro hw i
    simp only [nliFrom]
    exact List.Forall₂.cons (rowSum_mono len i hab (hw _ (by simp)) hall wall 0)
      (ih (fun c hc => hw c (by simp [hc])) (i + 1))

/-! ### pairs (channel, value) -/

theorem mem_zip_map {β γ : Type} (g : β → γ) : ∀ (l : List β) (a : β) (x : γ), (a, x) ∈ l.zip (l.map g) → x = g a := by
  intro l
  induction l with
  | nil => intro a x h; simp at h
  | cons b rest ih =>
    intro a x h
    simp only [List.map_cons, List.zip_cons_cons, List.mem_cons, Prod.mk.injEq] at h
    rcases h with ⟨h1, h2⟩ | h
    · rw [h1, h2]
    · exact ih a x h

theorem zip_map_eq {β γ : Type} (g : β → γ) (l : List β) : l.zip (l.map g) = l.map (fun c => (c, g c)) := by
  induction l with
  | nil => simp
  | cons b rest ih => simp [ih]

/-! ### sorting by frequency -/

theorem insertByF_perm (c : ℝ × ℝ × ℝ) : ∀ (l : List (ℝ × ℝ × ℝ)), (insertByF c l).Perm (c :: l) := by
  intro l
  induction l with
  | nil => simp [insertByF]
  | cons d rest ih =>
    simp only [insertByF]
    split
    · exact List.Perm.refl _
    · exact (List.Perm.cons d ih).trans (List.Perm.swap c d rest)

theorem sortByF_perm : ∀ (l : List (ℝ × ℝ × ℝ)), (sortByF l).Perm l := by
  intro l
  induction l with
  | nil => simp [sortByF]
  | cons c rest ih =>
    simp only [sortByF]
    exact (insertByF_perm c (sortByF rest)).trans (List.Perm.cons c ih)

theorem insertByF_sorted (c : ℝ × ℝ × ℝ) : ∀ (l : List (ℝ × ℝ × ℝ)), l.Pairwise (fun a b => a.1 < b.1) →
    (∀ d ∈ l, d.1 ≠ c.1) → (insertByF c l).Pairwise (fun a b => a.1 < b.1) := by
  intro l
  induction l with
  | nil => intro _ _; simp [insertByF]
  | cons d rest ih =>
    intro hs hne
    rw [List.pairwise_cons] at hs
    simp only [insertByF]
    split
    · rename_i h
      rw [List.pairwise_cons]
      refine ⟨?_, List.pairwise_cons.2 hs⟩
      intro x hx
      rw [List.mem_cons] at hx
      rcases hx with rfl | hx
      · exact h
      · exact lt_trans h (hs.1 x hx)
    · rename_i h
      rw [List.pairwise_cons]
      refine ⟨?_, ih hs.2 (fun x hx => hne x (by simp [hx]))⟩
      intro x hx
      have := (insertByF_perm c rest).mem_iff.1 hx
      rw [List.mem_cons] at this
      rcases this with rfl | hx'
      · exact lt_of_le_of_ne (not_lt.1 h) (hne d (by simp))
      · exact hs.1 x hx'

theorem sortByF_sorted : ∀ (l : List (ℝ × ℝ × ℝ)), l.Pairwise (fun a b => a.1 ≠ b.1) →
    (sortByF l).Pairwise (fun a b => a.1 < b.1) := by
  intro l
  induction l with
  | nil => intro _; simp [sortByF]
  | cons c rest ih =>
    intro h
    rw [List.pairwise_cons] at h
    simp only [sortByF]
    apply insertByF_sorted c _ (ih h.2)
    intro d hd
    exact (h.1 d ((sortByF_perm rest).mem_iff.1 hd)).symm

end Gnpy.Gn
