import GnpyModel.Json
/- association-list lemmas for the Python-dict view of JSON objects (C18) -/
namespace Gnpy.Dict

@[simp] theorem get?_nil (k : String) : get? [] k = none := rfl

theorem get?_cons (k' : String) (v : J) (t : Dict) (k : String) :
    get? ((k', v) :: t) k = if k' == k then some v else get? t k := rfl

@[simp] theorem get?_set_same (d : Dict) (k : String) (v : J) : (d.set k v).get? k = some v := by
  induction d with
  | nil => simp [set, get?]
  | cons kv t ih =>
    obtain ⟨k', v'⟩ := kv
    by_cases h : k' = k
    · simp [set, get?, h]
    · simp [set, get?, h, ih]

theorem get?_set_other (d : Dict) (k k2 : String) (v : J) (h : k ≠ k2) :
    (d.set k v).get? k2 = d.get? k2 := by
  induction d with
  | nil => simp [set, get?, h]
  | cons kv t ih =>
    obtain ⟨k', v'⟩ := kv
    by_cases h1 : k' = k
    · subst h1
      simp [set, get?, h]
    · simp only [set, beq_iff_eq, h1, if_false, get?]
      rw [ih]

@[simp] theorem get?_erase_same (d : Dict) (k : String) : (d.erase k).get? k = none := by
  induction d with
  | nil => rfl
  | cons kv t ih =>
    obtain ⟨k', v'⟩ := kv
    by_cases h : k' = k
    · simp [erase, h, ih]
    · simp [erase, get?, h, ih]

theorem get?_erase_other (d : Dict) (k k2 : String) (h : k ≠ k2) :
    (d.erase k).get? k2 = d.get? k2 := by
  induction d with
  | nil => rfl
  | cons kv t ih =>
    obtain ⟨k', v'⟩ := kv
    by_cases h1 : k' = k
    · subst h1
      simp [erase, get?, h, ih]
    · by_cases h2 : k' = k2
      · subst h2
        have h3 : ¬ k' = k := h1
        simp [erase, get?, h3]
      · simp [erase, get?, h1, h2, ih]

theorem has_eq_isSome (d : Dict) (k : String) : d.has k = (d.get? k).isSome := by
  induction d with
  | nil => rfl
  | cons kv t ih =>
    obtain ⟨k', v'⟩ := kv
    by_cases h : k' = k
    · simp [has, get?, h]
    · have hb : (k' == k) = false := by simp [h]
      simp only [has, List.any_cons, get?, hb, Bool.false_or]
      exact ih

theorem has_false_iff (d : Dict) (k : String) : d.has k = false ↔ d.get? k = none := by
  rw [has_eq_isSome]; cases d.get? k <;> simp

theorem has_true_iff (d : Dict) (k : String) : d.has k = true ↔ ∃ v, d.get? k = some v := by
  rw [has_eq_isSome]; cases d.get? k <;> simp

theorem erase_of_get?_none (d : Dict) (k : String) (h : d.get? k = none) : d.erase k = d := by
  induction d with
  | nil => rfl
  | cons kv t ih =>
    obtain ⟨k', v'⟩ := kv
    by_cases h1 : k' = k
    · simp [get?, h1] at h
    · simp only [get?, beq_iff_eq, h1, if_false] at h
      simp [erase, h1, ih h]

end Gnpy.Dict

namespace Gnpy.Dict

theorem set_append_of_get?_none (d : Dict) (k : String) (v : J) (h : d.get? k = none) :
    d.set k v = d ++ [(k, v)] := by
  induction d with
  | nil => rfl
  | cons kv t ih =>
    obtain ⟨k', v'⟩ := kv
    by_cases h1 : k' = k
    · simp [get?, h1] at h
    · simp only [get?, beq_iff_eq, h1, if_false] at h
      simp [set, h1, ih h]

theorem get?_none_iff_not_mem_keys (d : Dict) (k : String) : d.get? k = none ↔ k ∉ d.map (·.1) := by
  induction d with
  | nil => simp [get?]
  | cons kv t ih =>
    obtain ⟨k', v'⟩ := kv
    by_cases h1 : k' = k
    · simp [get?, h1]
    · simp only [get?, beq_iff_eq, h1, if_false, List.map_cons, List.mem_cons, not_or]
      rw [ih]
      constructor
      · intro h; exact ⟨fun e => h1 e.symm, h⟩
      · intro h; exact h.2

end Gnpy.Dict
