import GnpyModel
import GnpyProofs.Lemmas.ChainNum
import GnpyProofs.Lemmas.ChainList
/-
Helper lemmas over ℝ for `add_fiber_padding` on one run.
-/
namespace Gnpy.Chain

/-- over ℝ the order of summation is irrelevant: a run's loss is the sum of its losses minus its Raman gains -/
theorem runLoss_eq (r : List (Elem ℝ)) :
    runLoss r = (r.map Elem.loss).sum - (r.map Elem.ramanGain).sum := by
  unfold runLoss
  cases h : r.reverse with
  | nil =>
    have : r = [] := by simpa using h
    subst this; simp
  | cons last before =>
    have hr : r = before.reverse ++ [last] := by
      have := congrArg List.reverse h
      simpa using this
    subst hr
    simp only [sumLeft_eq_sum, List.map_append, List.map_reverse, List.sum_append, List.sum_reverse,
      List.map_cons, List.map_nil, List.sum_cons, List.sum_nil]
    ring

theorem runLossFwd_eq (r : List (Elem ℝ)) :
    runLossFwd r = (r.map Elem.loss).sum - (r.map Elem.ramanGain).sum := by
  unfold runLossFwd
  cases r with
  | nil => simp
  | cons a t => simp only [sumLeft_eq_sum, List.map_cons, List.sum_cons]

theorem loss_attIn (u : String) (p : FiberP ℝ) (a : ℝ) (d : Option ℝ) :
    (Elem.fiber u { p with attIn := a, dsl := d }).loss = (Elem.fiber u p).loss + (a - p.attIn) := by
  simp only [Elem.loss, FiberP.loss, FiberP.lumped]; ring

theorem loss_dsl (u : String) (p : FiberP ℝ) (d : Option ℝ) :
    (Elem.fiber u { p with dsl := d }).loss = (Elem.fiber u p).loss := by
  simp only [Elem.loss, FiberP.loss, FiberP.lumped]

theorem gain_attIn (u : String) (p : FiberP ℝ) (a : ℝ) (d : Option ℝ) :
    (Elem.fiber u { p with attIn := a, dsl := d }).ramanGain = (Elem.fiber u p).ramanGain := by
  simp only [Elem.ramanGain]

theorem gain_dsl (u : String) (p : FiberP ℝ) (d : Option ℝ) :
    (Elem.fiber u { p with dsl := d }).ramanGain = (Elem.fiber u p).ramanGain := by
  simp only [Elem.ramanGain]

theorem eq_dropLast_append {β : Type} (l : List β) (x : β) (h : l.getLast? = some x) : l = l.dropLast ++ [x] := by
  have hne : l ≠ [] := by intro hn; subst hn; simp at h
  have := List.dropLast_append_getLast hne
  rw [List.getLast?_eq_some_getLast hne] at h
  cases h
  exact this.symm

end Gnpy.Chain
