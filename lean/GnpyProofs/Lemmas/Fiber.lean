import GnpyModel
import GnpyProofs.Lemmas.Db
import GnpyProofs.Lemmas.Gn
import Mathlib.Algebra.BigOperators.Group.List.Basic
import Mathlib.Data.List.Perm.Basic
/-
Helper lemmas for C05 (model: GnpyModel/Fiber.lean), over ℝ.
-/
namespace Gnpy.Fiber
open Gnpy.Gn

theorem prodL_eq_prod (l : List ℝ) : prodL l = l.prod := by
  induction l with
  | nil => simp [prodL]
  | cons x xs ih => simp [prodL, ih]

theorem prodL_append (l m : List ℝ) : prodL (l ++ m) = prodL l * prodL m := by
  rw [prodL_eq_prod, prodL_eq_prod, prodL_eq_prod, List.prod_append]

/-! ### `_create_lumped_losses` -/

/-- inserting a point multiplies the running product by its loss, wherever it lands (new position or merged) -/
theorem insertPoint_prod (pt : ℝ × ℝ) : ∀ (l : List (ℝ × ℝ)),
    prodL ((insertPoint pt l).map (·.2)) = pt.2 * prodL (l.map (·.2)) := by
  intro l
  induction l with
  | nil => simp [insertPoint, prodL]
  | cons q rest ih =>
    simp only [insertPoint]
    split
    · simp [prodL]
    · split
      · simp only [List.map_cons, prodL, ih]; ring
      · simp only [List.map_cons, prodL]; ring

theorem foldl_insert_prod : ∀ (pts acc : List (ℝ × ℝ)),
    prodL ((pts.foldl (fun a pt => insertPoint pt a) acc).map (·.2)) = prodL (pts.map (·.2)) * prodL (acc.map (·.2)) := by
  intro pts
  induction pts with
  | nil => intro acc; simp [prodL]
  | cons pt rest ih =>
    intro acc
    simp only [List.foldl_cons, ih, insertPoint_prod, List.map_cons, prodL]; ring

/-- the positions are kept sorted and distinct (what `numpy.unique` returns) -/
theorem insertPoint_sorted (pt : ℝ × ℝ) : ∀ (l : List (ℝ × ℝ)), (l.map (·.1)).Pairwise (· < ·) →
    ((insertPoint pt l).map (·.1)).Pairwise (· < ·) ∧
      ∀ x ∈ (insertPoint pt l).map (·.1), x = pt.1 ∨ x ∈ l.map (·.1) := by
  intro l
  induction l with
  | nil => intro _; simp [insertPoint]
  | cons q rest ih =>
    intro hs
    simp only [List.map_cons, List.pairwise_cons] at hs
    simp only [insertPoint]
    split
    · rename_i h1
      refine ⟨?_, by simp⟩
      simp only [List.map_cons, List.pairwise_cons, List.mem_cons]
      refine ⟨?_, hs.1, hs.2⟩
      rintro x (rfl | hx)
      · exact h1
      · exact lt_trans h1 (hs.1 x hx)
    · split
      · rename_i h1 h2
        obtain ⟨ih1, ih2⟩ := ih hs.2
        refine ⟨?_, ?_⟩
        · simp only [List.map_cons, List.pairwise_cons]
          refine ⟨?_, ih1⟩
          intro x hx
          rcases ih2 x hx with rfl | hx'
          · exact h2
          · exact hs.1 x hx'
        · intro x hx
          simp only [List.map_cons, List.mem_cons] at hx ⊢
          rcases hx with rfl | hx
          · exact Or.inr (Or.inl rfl)
          · rcases ih2 x hx with h | h
            · exact Or.inl h
            · exact Or.inr (Or.inr h)
      · refine ⟨?_, ?_⟩
        · simp only [List.map_cons, List.pairwise_cons]; exact hs
        · intro x hx; simp only [List.map_cons, List.mem_cons] at hx ⊢; exact Or.inr hx

/-! ### dB algebra of the lumped losses -/

theorem prod_lumpedLin (l : List ℝ) : prodL (l.map lumpedLin) = db2lin (-(sumL l)) := by
  induction l with
  | nil => simp [prodL, sumL, db2lin_zero]
  | cons x xs ih =>
    simp only [List.map_cons, prodL, sumL, ih, lumpedLin]
    rw [← db2lin_add]; congr 1; ring

/-! ### quadrature accumulation -/

theorem quadStep_nonneg (x b : ℝ) : 0 ≤ quadStep x b := by
  simp only [quadStep, transc_sqrt]; exact Real.sqrt_nonneg _

theorem quadStep_sq (x b : ℝ) : quadStep x b ^ 2 = x ^ 2 + b ^ 2 := by
  simp only [quadStep, transc_sqrt]
  rw [Real.sq_sqrt (add_nonneg (mul_self_nonneg _) (mul_self_nonneg _))]; ring

theorem foldl_quad (bs : List ℝ) : ∀ (x0 : ℝ), 0 ≤ x0 →
    bs.foldl quadStep x0 = Real.sqrt (x0 ^ 2 + (bs.map (fun b => b ^ 2)).sum) := by
  induction bs with
  | nil => intro x0 h; simp [Real.sqrt_sq h]
  | cons b rest ih =>
    intro x0 _
    simp only [List.foldl_cons, List.map_cons, List.sum_cons]
    rw [ih (quadStep x0 b) (quadStep_nonneg x0 b), quadStep_sq]
    congr 1; ring

end Gnpy.Fiber
