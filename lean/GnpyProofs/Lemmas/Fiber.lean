import GnpyModel
import GnpyProofs.Lemmas.Db
import GnpyProofs.Lemmas.Gn
import Mathlib.Algebra.BigOperators.Group.List.Basic
import Mathlib.Data.List.Perm.Basic
/-
Helper lemmas for C05 (model: GnpyModel/Fiber.lean), over ℝ.
-/
namespace Gnpy.Fiber
open Gnpy.Gn

theorem prodL_eq_prod (l : List ℝ) : prodL l = l.prod := by
  induction l with
  | nil => simp [prodL]
  | cons x xs ih => simp [prodL, ih]

theorem prodL_append (l m : List ℝ) : prodL (l ++ m) = prodL l * prodL m := by
  rw [prodL_eq_prod, prodL_eq_prod, prodL_eq_prod, List.prod_append]

/-! ### `_create_lumped_losses` -/

theorem insertPoint_keys (pt : ℝ × ℝ) : ∀ (l : List (ℝ × ℝ)) (x : ℝ),
    x ∈ (insertPoint pt l).map (·.1) ↔ x = pt.1 ∨ x ∈ l.map (·.1) := by
  intro l
  induction l with
  | nil => intro x; simp [insertPoint]
  | cons q rest ih =>
    intro x
    simp only [insertPoint]
    split
    · simp
    · split
      · simp only [List.map_cons, List.mem_cons, ih]
        tauto
      · rename_i h1 h2
        have : pt.1 = q.1 := le_antisymm (not_lt.1 h2) (not_lt.1 h1)
        simp only [List.map_cons, List.mem_cons, this]
        tauto

theorem insertPoint_prod_new (pt : ℝ × ℝ) : ∀ (l : List (ℝ × ℝ)), pt.1 ∉ l.map (·.1) →
    prodL ((insertPoint pt l).map (·.2)) = pt.2 * prodL (l.map (·.2)) := by
  intro l
  induction l with
  | nil => intro _; simp [insertPoint, prodL]
  | cons q rest ih =>
    intro h
    simp only [List.map_cons, List.mem_cons, not_or] at h
    simp only [insertPoint]
    split
    · simp [prodL]
    · split
      · simp only [List.map_cons, prodL, ih h.2]; ring
      · rename_i h1 h2
        exact absurd (le_antisymm (not_lt.1 h2) (not_lt.1 h1)) h.1

/-- a later point whose position is already present is dropped: the earlier one wins (current code) -/
theorem insertPoint_prod_dup (pt : ℝ × ℝ) : ∀ (l : List (ℝ × ℝ)), pt.1 ∈ l.map (·.1) →
    (l.map (·.1)).Pairwise (· < ·) →
    prodL ((insertPoint pt l).map (·.2)) = prodL (l.map (·.2)) := by
  intro l
  induction l with
  | nil => intro h; simp at h
  | cons q rest ih =>
    intro h hs
    simp only [List.map_cons, List.pairwise_cons] at hs
    simp only [insertPoint]
    split
    · rename_i h1
      simp only [List.map_cons, List.mem_cons] at h
      rcases h with h | h
      · rw [h] at h1; exact absurd h1 (lt_irrefl _)
      · exact absurd (lt_trans h1 (hs.1 _ h)) (lt_irrefl _)
    · split
      · rename_i h1 h2
        simp only [List.map_cons, List.mem_cons] at h
        rcases h with h | h
        · rw [h] at h2; exact absurd h2 (lt_irrefl _)
        · simp only [List.map_cons, prodL, ih h hs.2]
      · rfl

theorem foldl_insert_prod : ∀ (pts acc : List (ℝ × ℝ)), (pts.map (·.1)).Nodup →
    (∀ p ∈ pts, p.1 ∉ acc.map (·.1)) →
    prodL ((pts.foldl (fun a pt => insertPoint pt a) acc).map (·.2)) = prodL (pts.map (·.2)) * prodL (acc.map (·.2)) := by
  intro pts
  induction pts with
  | nil => intro acc _ _; simp [prodL]
  | cons pt rest ih =>
    intro acc hnd hacc
    simp only [List.map_cons, List.nodup_cons] at hnd
    simp only [List.foldl_cons]
    rw [ih (insertPoint pt acc) hnd.2]
    · rw [insertPoint_prod_new pt acc (hacc pt (by simp))]
      simp only [List.map_cons, prodL]; ring
    · intro p hp hmem
      rw [insertPoint_keys] at hmem
      rcases hmem with h | h
      · apply hnd.1
        rw [← h]
        exact List.mem_map_of_mem hp
      · exact hacc p (by simp [hp]) h

/-! ### dB algebra of the lumped losses -/

theorem prod_lumpedLin (l : List ℝ) : prodL (l.map lumpedLin) = db2lin (-(sumL l)) := by
  induction l with
  | nil => simp [prodL, sumL, db2lin_zero]
  | cons x xs ih =>
    simp only [List.map_cons, prodL, sumL, ih, lumpedLin]
    rw [← db2lin_add]; congr 1; ring

/-! ### quadrature accumulation -/

theorem quadStep_nonneg (x b : ℝ) : 0 ≤ quadStep x b := by
  simp only [quadStep, transc_sqrt]; exact Real.sqrt_nonneg _

theorem quadStep_sq (x b : ℝ) : quadStep x b ^ 2 = x ^ 2 + b ^ 2 := by
  simp only [quadStep, transc_sqrt]
  rw [Real.sq_sqrt (add_nonneg (mul_self_nonneg _) (mul_self_nonneg _))]; ring

theorem foldl_quad (bs : List ℝ) : ∀ (x0 : ℝ), 0 ≤ x0 →
    bs.foldl quadStep x0 = Real.sqrt (x0 ^ 2 + (bs.map (fun b => b ^ 2)).sum) := by
  induction bs with
  | nil => intro x0 h; simp [Real.sqrt_sq h]
  | cons b rest ih =>
    intro x0 _
    simp only [List.foldl_cons, List.map_cons, List.sum_cons]
    rw [ih (quadStep x0 b) (quadStep_nonneg x0 b), quadStep_sq]
    congr 1; ring

end Gnpy.Fiber
