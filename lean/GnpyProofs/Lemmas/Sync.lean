import GnpyModel
import Mathlib.Data.List.Basic
import Mathlib.Data.List.Nodup
import Mathlib.Data.List.Forall2
/- helper lemmas for C12: deduplicate_disjunctions and the vector bookkeeping of requests_aggregation -/
namespace Gnpy.Sync
open Gnpy.Response

/-! ### `set(a) == set(b)` -/

theorem sameSet_iff (a b : List String) : sameSet a b = true ↔ ∀ x, x ∈ a ↔ x ∈ b := by
  unfold sameSet
  simp only [Bool.and_eq_true, List.all_eq_true, List.contains_iff_mem]
  constructor
  · rintro ⟨h1, h2⟩ x; exact ⟨h1 x, h2 x⟩
  · intro h; exact ⟨fun x hx => (h x).1 hx, fun x hx => (h x).2 hx⟩

theorem sameSet_refl (a : List String) : sameSet a a = true := (sameSet_iff a a).2 (fun _ => Iff.rfl)

theorem sameSet_symm {a b : List String} (h : sameSet a b = true) : sameSet b a = true :=
  (sameSet_iff b a).2 (fun x => ((sameSet_iff a b).1 h x).symm)

theorem sameSet_trans {a b c : List String} (h1 : sameSet a b = true) (h2 : sameSet b c = true) :
    sameSet a c = true :=
  (sameSet_iff a c).2 (fun x => ((sameSet_iff a b).1 h1 x).trans ((sameSet_iff b c).1 h2 x))

/-! ### `deduplicate_disjunctions` -/

/-- every vector of `l0` still has a vector over the same set of requests in `l` -/
def Covers (l0 l : List Disj) : Prop := ∀ d ∈ l0, ∃ d' ∈ l, sameSet d.reqs d'.reqs = true

theorem mem_eraseIdx_of_ne {α : Type} (x d : α) : ∀ (l : List α) (j : Nat), x ∈ l → l[j]? = some d → x ≠ d →
    x ∈ l.eraseIdx j
  | [], _, h, _, _ => by simp at h
  | a :: l, 0, h, hj, hne => by
    simp at hj; subst hj
    rcases List.mem_cons.1 h with rfl | h
    · exact absurd rfl hne
    · simpa using h
  | a :: l, j + 1, h, hj, hne => by
    simp only [List.getElem?_cons_succ] at hj
    simp only [List.eraseIdx_cons_succ]
    rcases List.mem_cons.1 h with rfl | h
    · simp
    · exact List.mem_cons_of_mem _ (mem_eraseIdx_of_ne x d l j h hj hne)

theorem dedupInner_spec (l0 : List Disj) (elem : Disj) : ∀ (fuel j : Nat) (l : List Disj),
    elem ∈ l → Covers l0 l →
    elem ∈ dedupInner elem fuel j l ∧ Covers l0 (dedupInner elem fuel j l) ∧ (dedupInner elem fuel j l).Sublist l
  | 0, _, l, he, hc => ⟨he, hc, List.Sublist.refl _⟩
  | fuel + 1, j, l, he, hc => by
    unfold dedupInner
    cases hj : l[j]? with
    | none => exact ⟨he, hc, List.Sublist.refl _⟩
    | some d =>
      simp only
      by_cases hcond : (sameSet elem.reqs d.reqs && elem.id != d.id) = true
      · simp only [hcond, if_true]
        simp only [Bool.and_eq_true, bne_iff_ne, ne_eq] at hcond
        have hne : elem ≠ d := fun e => hcond.2 (by rw [e])
        have he' : elem ∈ l.eraseIdx j := mem_eraseIdx_of_ne elem d l j he hj hne
        have hc' : Covers l0 (l.eraseIdx j) := by
          intro d0 hd0
          obtain ⟨w, hw, hs⟩ := hc d0 hd0
          by_cases hwd : w = d
          · subst hwd
            exact ⟨elem, he', sameSet_trans hs (sameSet_symm hcond.1)⟩
          · exact ⟨w, mem_eraseIdx_of_ne w d l j hw hj hwd, hs⟩
        obtain ⟨r1, r2, r3⟩ := dedupInner_spec l0 elem fuel (j + 1) (l.eraseIdx j) he' hc'
        exact ⟨r1, r2, r3.trans (List.eraseIdx_sublist l j)⟩
      · simp only [hcond, Bool.false_eq_true, if_false]
        exact dedupInner_spec l0 elem fuel (j + 1) l he hc

theorem dedupOuter_spec (l0 : List Disj) : ∀ (fuel i : Nat) (l : List Disj), Covers l0 l →
    Covers l0 (dedupOuter fuel i l) ∧ (dedupOuter fuel i l).Sublist l
  | 0, _, l, hc => ⟨hc, List.Sublist.refl _⟩
  | fuel + 1, i, l, hc => by
    unfold dedupOuter
    cases hi : l[i]? with
    | none => exact ⟨hc, List.Sublist.refl _⟩
    | some e =>
      simp only
      have he : e ∈ l := List.mem_of_getElem? hi
      obtain ⟨_, r2, r3⟩ := dedupInner_spec l0 e l.length 0 l he hc
      obtain ⟨s1, s2⟩ := dedupOuter_spec l0 fuel (i + 1) _ r2
      exact ⟨s1, s2.trans r3⟩

/-! ### renaming of request ids in the vectors -/

theorem rn_mem_renameIn (a b x : String) (d : Disj) (hx : x ∈ d.reqs) : rn a b x ∈ (renameIn a b d).reqs := by
  unfold renameIn rn
  by_cases hc : d.reqs.contains a = true
  · simp only [hc, if_true]
    by_cases hxa : x = a
    · simp [hxa]
    · simp only [hxa, if_false]
      exact List.mem_append_left _ ((List.mem_erase_of_ne hxa).2 hx)
  · simp only [hc, Bool.false_eq_true, if_false]
    have : x ≠ a := by
      intro e; apply hc; rw [← e]; simpa using hx
    simp [this, hx]

theorem renameIn_id (a b : String) (d : Disj) : (renameIn a b d).id = d.id := by
  unfold renameIn; split <;> rfl

/-- `ds'` are the vectors `ds`, same ids, same order, with every request id `x` replaced by `ren x` -/
def Renamed (ren : String → String) (ds ds' : List Disj) : Prop :=
  List.Forall₂ (fun d d' => d'.id = d.id ∧ ∀ x ∈ d.reqs, ren x ∈ d'.reqs) ds ds'

theorem renamed_refl (ds : List Disj) : Renamed (fun x => x) ds ds := by
  unfold Renamed
  induction ds with
  | nil => exact List.Forall₂.nil
  | cons d ds ih => exact List.Forall₂.cons ⟨rfl, fun x hx => hx⟩ ih

theorem renamed_step (ren : String → String) (a b : String) (ds cur : List Disj) (h : Renamed ren ds cur) :
    Renamed (fun x => rn a b (ren x)) ds (cur.map (renameIn a b)) := by
  unfold Renamed at *
  induction h with
  | nil => exact List.Forall₂.nil
  | cons hd _ ih =>
    refine List.Forall₂.cons ⟨?_, ?_⟩ ih
    · rw [renameIn_id]; exact hd.1
    · intro x hx; exact rn_mem_renameIn a b (ren x) _ (hd.2 x hx)

/-! ### the traced aggregation is the aggregation, and its renaming describes the output vectors -/

section
variable {κ α : Type} [DecidableEq κ] [Add α]

theorem aggStepT_fst (st : (List (AReq κ α) × List Disj) × (String → String)) (i : Nat) :
    (aggStepT st i).1 = aggStepD st.1 i := by
  unfold aggStepT aggStepD
  cases h1 : st.1.1.find? (fun r => r.pos == i) with
  | none => simp
  | some req =>
    simp only
    cases h2 : absorbIntoD st.1.2 req st.1.1 with
    | none => simp
    | some v =>
      obtain ⟨l', oldId, newId⟩ := v
      simp [aggStepD, h1, h2]

theorem aggStepT_renamed (ds : List Disj) (st : (List (AReq κ α) × List Disj) × (String → String)) (i : Nat)
    (h : Renamed st.2 ds st.1.2) : Renamed (aggStepT st i).2 ds (aggStepT st i).1.2 := by
  unfold aggStepT
  cases h1 : st.1.1.find? (fun r => r.pos == i) with
  | none => simpa using h
  | some req =>
    simp only
    cases h2 : absorbIntoD st.1.2 req st.1.1 with
    | none => simpa using h
    | some v =>
      obtain ⟨l', oldId, newId⟩ := v
      simp only [aggStepD, h1, h2]
      have s1 := renamed_step st.2 req.idStr newId ds st.1.2 h
      have s2 := renamed_step _ oldId newId ds _ s1
      exact s2

theorem fold_aggStepT (ds : List Disj) : ∀ (idx : List Nat) (st : (List (AReq κ α) × List Disj) × (String → String)),
    Renamed st.2 ds st.1.2 →
    (idx.foldl aggStepT st).1 = idx.foldl aggStepD st.1 ∧
    Renamed (idx.foldl aggStepT st).2 ds (idx.foldl aggStepT st).1.2
  | [], st, h => ⟨rfl, h⟩
  | i :: idx, st, h => by
    simp only [List.foldl_cons]
    obtain ⟨r1, r2⟩ := fold_aggStepT ds idx (aggStepT st i) (aggStepT_renamed ds st i h)
    rw [aggStepT_fst] at r1
    exact ⟨r1, r2⟩

/-- what a successful inner loop found: a request `t` of the list, other than `req`, for which `compare_reqs` (incl.
`same_disj`) holds; `oldId`/`newId` are its id before/after absorbing `req` -/
theorem absorbIntoD_spec (ds : List Disj) (req : AReq κ α) : ∀ (loc l' : List (AReq κ α)) (oldId newId : String),
    absorbIntoD ds req loc = some (l', oldId, newId) →
    ∃ t ∈ loc, oldId = t.idStr ∧ newId = (absorb t req).idStr ∧ req.idStr ≠ t.idStr ∧
      sameDisj ds req.idStr t.idStr = true ∧ absorb t req ∈ l'
  | [], _, _, _, h => by simp [absorbIntoD] at h
  | t :: rest, l', oldId, newId, h => by
    unfold absorbIntoD at h
    split at h
    next hc =>
      simp only [Option.some.injEq, Prod.mk.injEq] at h
      obtain ⟨rfl, rfl, rfl⟩ := h
      exact ⟨t, by simp, rfl, rfl, hc.1, hc.2.2.1, by simp⟩
    next =>
      cases hr : absorbIntoD ds req rest with
      | none => rw [hr] at h; simp at h
      | some v =>
        rw [hr] at h
        obtain ⟨l2, o2, n2⟩ := v
        simp only [Option.map_some, Option.some.injEq, Prod.mk.injEq] at h
        obtain ⟨rfl, rfl, rfl⟩ := h
        obtain ⟨t', ht', h1, h2, h3, h4, h5⟩ := absorbIntoD_spec ds req rest l2 o2 n2 hr
        exact ⟨t', List.mem_cons_of_mem _ ht', h1, h2, h3, h4, List.mem_cons_of_mem _ h5⟩

end

/-! ### `same_disj` never holds for two requests of one vector -/

theorem mem_othersOf_of_mem (rid y : String) (hy : y ≠ rid) : ∀ (ds : List Disj) (acc : List String),
    (y ∈ acc ∨ ∃ d ∈ ds, y ∈ d.reqs) → y ∈ ds.foldl (fun acc d => (acc ++ d.reqs).erase rid) acc
  | [], acc, h => by
    rcases h with h | ⟨d, hd, _⟩
    · exact h
    · simp at hd
  | d :: ds, acc, h => by
    simp only [List.foldl_cons]
    apply mem_othersOf_of_mem rid y hy ds
    rcases h with h | ⟨d', hd', hyd⟩
    · exact Or.inl ((List.mem_erase_of_ne hy).2 (List.mem_append_left _ h))
    · rcases List.mem_cons.1 hd' with rfl | hd'
      · exact Or.inl ((List.mem_erase_of_ne hy).2 (List.mem_append_right _ hyd))
      · exact Or.inr ⟨d', hd', hyd⟩

theorem not_mem_othersOf_self (rid : String) : ∀ (ds : List Disj) (acc : List String),
    (∀ d ∈ ds, d.reqs.Nodup) → rid ∉ acc → rid ∉ ds.foldl (fun acc d => (acc ++ d.reqs).erase rid) acc
  | [], acc, _, h => h
  | d :: ds, acc, hnd, h => by
    simp only [List.foldl_cons]
    apply not_mem_othersOf_self rid ds _ (fun d' hd' => hnd d' (List.mem_cons_of_mem _ hd'))
    rw [List.erase_append_right _ h]
    intro hm
    rcases List.mem_append.1 hm with hm | hm
    · exact h hm
    · exact (List.Nodup.not_mem_erase (hnd d (by simp))) hm

theorem sameDisj_false_of_common_vector (ds : List Disj) (hnd : ∀ d ∈ ds, d.reqs.Nodup) (d : Disj) (hd : d ∈ ds)
    (x y : String) (hx : x ∈ d.reqs) (hy : y ∈ d.reqs) (hxy : x ≠ y) : sameDisj ds x y = false := by
  unfold sameDisj
  simp only
  have h1 : d ∈ ds.filter (fun d => d.reqs.contains x) := List.mem_filter.2 ⟨hd, by simpa using hx⟩
  have h2 : d ∈ ds.filter (fun d => d.reqs.contains y) := List.mem_filter.2 ⟨hd, by simpa using hy⟩
  have e1 : (ds.filter (fun d => d.reqs.contains x)).isEmpty = false := by
    cases h : ds.filter (fun d => d.reqs.contains x) with
    | nil => rw [h] at h1; simp at h1
    | cons _ _ => rfl
  have e2 : (ds.filter (fun d => d.reqs.contains y)).isEmpty = false := by
    cases h : ds.filter (fun d => d.reqs.contains y) with
    | nil => rw [h] at h2; simp at h2
    | cons _ _ => rfl
  simp only [e1, e2, Bool.not_false, Bool.and_self, if_true]
  by_contra hcon
  have hs : sameSet (othersOf (ds.filter (fun d => d.reqs.contains x)) x)
      (othersOf (ds.filter (fun d => d.reqs.contains y)) y) = true := by simpa using hcon
  have hyin : y ∈ othersOf (ds.filter (fun d => d.reqs.contains x)) x :=
    mem_othersOf_of_mem x y (Ne.symm hxy) _ [] (Or.inr ⟨d, h1, hy⟩)
  have hynot : y ∉ othersOf (ds.filter (fun d => d.reqs.contains y)) y :=
    not_mem_othersOf_self y _ [] (fun d' hd' => hnd d' (List.mem_filter.1 hd').1) (by simp)
  exact hynot (((sameSet_iff _ _).1 hs y).1 hyin)

end Gnpy.Sync
