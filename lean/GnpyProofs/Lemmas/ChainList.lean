import GnpyModel
import Mathlib.Data.List.Chain
import Mathlib.Data.List.SplitBy
import Mathlib.Data.List.Sublists
import Mathlib.Tactic.Ring
import Mathlib.Tactic.Linarith
/-
Helper lemmas (discrete) for the chain model: amplifier insertion as list transformation.
-/
namespace Gnpy.Chain

set_option linter.unusedSectionVars false

section
variable {α : Type} [Add α] [Sub α] [Mul α] [Div α] [Neg α] [NatCast α] [LT α] [LE α]
  [DecidableLT α] [DecidableLE α] [Transc α]

/-- no Fiber directly followed by a Fiber -/
def NoAdjFib (l : List (Elem α)) : Prop :=
  List.IsChain (fun a b => ¬ (a.isFiber = true ∧ b.isFiber = true)) l

theorem addInline_head (m : Bool) (l : List (Elem α)) : (addInline m l).head? = l.head? := by
  cases l with
  | nil => simp [addInline]
  | cons x rest =>
    simp only [addInline]
    split <;> simp

theorem addInline_noAdj (m : Bool) (l : List (Elem α)) : NoAdjFib (addInline m l) := by
  unfold NoAdjFib
  induction l with
  | nil => simp [addInline]
  | cons x rest ih =>
    simp only [addInline]
    split
    · -- fiber followed by fiber: x :: edfa :: addInline rest
      rename_i u p v q t
      refine List.IsChain.cons_cons ?_ (List.IsChain.cons ih ?_)
      · simp [Elem.isFiber]
      · intro y _
        simp [Elem.isFiber]
    · rename_i hne
      cases rest with
      | nil => simp [addInline]
      | cons y t =>
        have hy : (addInline m (y :: t)).head? = some y := by rw [addInline_head]; rfl
        refine List.IsChain.cons ih ?_
        intro z hz
        rw [hy] at hz
        cases hz
        intro ⟨hx, hyf⟩
        cases x <;> cases y <;> simp [Elem.isFiber] at hx hyf
        exact hne _ _ _ _ _ rfl rfl

theorem addInline_getLast (m : Bool) (l : List (Elem α)) : (addInline m l).getLast? = l.getLast? := by
  induction l with
  | nil => simp [addInline]
  | cons x rest ih =>
    simp only [addInline]
    split
    · rename_i u p v q t
      have hne : addInline m (Elem.fiber v q :: t) ≠ [] := by
        simp only [addInline]; split <;> simp
      rw [List.getLast?_cons_cons, List.getLast?_cons_cons, ← ih]
      cases h : addInline m (Elem.fiber v q :: t) with
      | nil => exact absurd h hne
      | cons a b => simp [List.getLast?_cons_cons]
    · cases rest with
      | nil => simp [addInline]
      | cons y t =>
        have hne : addInline m (y :: t) ≠ [] := by
          simp only [addInline]; split <;> simp
        cases h : addInline m (y :: t) with
        | nil => exact absurd h hne
        | cons a b =>
          rw [List.getLast?_cons_cons, List.getLast?_cons_cons, ← h, ih]

theorem addInline_sublist (m : Bool) (l : List (Elem α)) : List.Sublist l (addInline m l) := by
  induction l with
  | nil => simp [addInline]
  | cons x rest ih =>
    simp only [addInline]
    split
    · exact List.Sublist.cons_cons _ (List.Sublist.cons _ ih)
    · exact List.Sublist.cons_cons _ ih

theorem addBooster_sublist (src : String) (sk : EndKind) (m : Bool) (l : List (Elem α)) :
    List.Sublist l (addBooster src sk m l) := by
  unfold addBooster
  split
  · exact List.Sublist.cons _ (List.Sublist.refl _)
  · exact List.Sublist.refl _

theorem addPreamp_sublist (dst : String) (dk : EndKind) (m : Bool) (l : List (Elem α)) :
    List.Sublist l (addPreamp dst dk m l) := by
  unfold addPreamp
  split
  · exact List.sublist_append_left _ _
  · exact List.Sublist.refl _

theorem addBooster_getLast (src : String) (sk : EndKind) (m : Bool) (l : List (Elem α)) :
    (addBooster src sk m l).getLast? = l.getLast? := by
  unfold addBooster
  split
  · simp [List.getLast?_cons_cons]
  · rfl

/-- after `addBooster` a chain that starts at a ROADM does not start with a Fiber -/
theorem addBooster_head (src : String) (m : Bool) (l : List (Elem α)) :
    ∀ e, (addBooster src .roadm m l).head? = some e → e.isFiber = false := by
  intro e he
  cases l with
  | nil => simp [addBooster] at he
  | cons x t =>
    cases x with
    | fiber u p => simp [addBooster] at he; subst he; rfl
    | fused u l => simp [addBooster] at he; subst he; rfl
    | edfa u p => simp [addBooster] at he; subst he; rfl

/-- after `addPreamp` a chain that ends at a ROADM does not end with a Fiber -/
theorem addPreamp_getLast (dst : String) (m : Bool) (l : List (Elem α)) :
    ∀ e, (addPreamp dst .roadm m l).getLast? = some e → e.isFiber = false := by
  intro e he
  unfold addPreamp at he
  cases hl : l.getLast? with
  | none => rw [hl] at he; simp [hl] at he
  | some x =>
    rw [hl] at he
    cases x with
    | fiber u p => simp at he; subst he; rfl
    | fused u l => simp [hl] at he; subst he; rfl
    | edfa u p => simp [hl] at he; subst he; rfl


/-- length of a line element (0 for anything but a fibre) -/
def Elem.length : Elem α → α
  | .fiber _ p => p.length
  | _ => ((0:Nat) : α)

/-- attenuation of the glass of a line element (0 for anything but a fibre) -/
def Elem.glass : Elem α → α
  | .fiber _ p => p.glassLoss
  | _ => ((0:Nat) : α)

/-- a fibre has both connector losses defined -/
def ConnOK : Elem α → Prop
  | .fiber _ p => p.conIn.isSome = true ∧ p.conOut.isSome = true
  | _ => True

theorem addConn_connOK (dIn dOut eol : α) (l : List (Elem α)) : ∀ e ∈ addConn dIn dOut eol l, ConnOK e := by
  induction l with
  | nil => simp [addConn]
  | cons x rest ih =>
    intro e he
    simp only [addConn, List.mem_cons] at he
    rcases he with h | h
    · subst h
      cases x with
      | fiber u p => simp [ConnOK]
      | fused u l => simp [ConnOK]
      | edfa u p => simp [ConnOK]
    · exact ih e h

theorem addConn_kinds (dIn dOut eol : α) (l : List (Elem α)) :
    (addConn dIn dOut eol l).map Elem.uid = l.map Elem.uid := by
  induction l with
  | nil => simp [addConn]
  | cons x rest ih =>
    simp only [addConn, List.map_cons, ih]
    cases x <;> simp [Elem.uid]


/-- the names `add_inline_amplifier` generates on a line -/
def inlineNames : List (Elem α) → List String
  | [] => []
  | x :: rest =>
    match x, rest with
    | .fiber u _, .fiber _ _ :: _ => inlineName u :: inlineNames rest
    | _, _ => inlineNames rest

theorem addInline_uids (m : Bool) (l : List (Elem α)) :
    ((addInline m l).map Elem.uid).Perm (l.map Elem.uid ++ inlineNames l) := by
  induction l with
  | nil => simp [addInline, inlineNames]
  | cons x rest ih =>
    simp only [addInline, inlineNames]
    split
    · rename_i u p v q t
      simp only [List.map_cons, List.cons_append]
      refine List.Perm.cons _ ?_
      refine (List.Perm.cons _ ih).trans ?_
      exact List.perm_middle.symm
    · simp only [List.map_cons, List.cons_append]
      exact List.Perm.cons _ ih


/-- no amplifier among the elements -/
def NoAmp (l : List (Elem α)) : Prop := ∀ e ∈ l, e.isEdfa = false

theorem hasMulti_noAmp (l : List (Elem α)) (h : NoAmp l) : hasMulti l = false ∧ hasSingle l = false := by
  unfold hasMulti hasSingle
  constructor
  · rw [List.any_eq_false]
    intro e he
    have := h e he
    cases e <;> simp [Elem.isEdfa, Elem.isMulti] at this ⊢
  · rw [List.any_eq_false]
    intro e he
    have := h e he
    cases e <;> simp [Elem.isEdfa, Elem.isSingle] at this ⊢

/-- whatever `addInline m` adds is an amplifier of kind `m`; everything else was there before -/
theorem addInline_kinds (m : Bool) (l : List (Elem α)) :
    ∀ e ∈ addInline m l, e ∈ l ∨ (e.isEdfa = true ∧ e.isMulti = m) := by
  induction l with
  | nil => intro e he; simp [addInline] at he
  | cons x rest ih =>
    intro e he
    simp only [addInline] at he
    split at he
    · simp only [List.mem_cons] at he
      rcases he with he | he | he
      · exact Or.inl (by simp [he])
      · subst he; exact Or.inr (by simp [Elem.isEdfa, Elem.isMulti, newAmp])
      · rcases ih e he with h | h
        · exact Or.inl (List.mem_cons_of_mem _ h)
        · exact Or.inr h
    · simp only [List.mem_cons] at he
      rcases he with he | he
      · exact Or.inl (by simp [he])
      · rcases ih e he with h | h
        · exact Or.inl (List.mem_cons_of_mem _ h)
        · exact Or.inr h

end
end Gnpy.Chain
