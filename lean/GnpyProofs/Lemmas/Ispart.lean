import GnpyModel
import Mathlib.Data.List.Basic
import Mathlib.Data.List.Chain
import Mathlib.Data.List.Nodup
/- `ispart` (request.py) versus the subsequence relation -/
namespace Gnpy.Route

/-- what `ispart` computes: every element of `a` is in `b` and the positions in `b` never decrease -/
theorem ispartAux_iff (b : List V) : ∀ (a : List V) (j : Nat),
    ispartAux b j a = true ↔ (∀ x ∈ a, x ∈ b) ∧ List.IsChain (· ≤ ·) (j :: a.map (fun x => b.idxOf x))
  | [], j => by simp [ispartAux]
  | e :: rest, j => by
    have ih := ispartAux_iff b rest (b.idxOf e)
    simp only [ispartAux, List.contains_iff_mem, List.map_cons, List.isChain_cons_cons, List.mem_cons,
      forall_eq_or_imp]
    by_cases he : e ∈ b
    · by_cases hj : j ≤ b.idxOf e
      · simp only [he, hj, ge_iff_le, if_true, ih, true_and]
      · simp [he, hj]
    · simp [he]

theorem idxOf_pos_of_ne {h x : V} {t : List V} (hx : x ≠ h) : List.idxOf x (h :: t) = List.idxOf x t + 1 := by
  rw [List.idxOf_cons_ne t (Ne.symm hx)]

/-- positions never decreasing + no repetition + all present ⇒ subsequence -/
theorem sublist_of_idx_mono : ∀ (b a : List V), a.Nodup → (∀ x ∈ a, x ∈ b) →
    a.Pairwise (fun x y => b.idxOf x ≤ b.idxOf y) → a.Sublist b
  | [], a, _, hsub, _ => by
    cases a with
    | nil => exact List.Sublist.slnil
    | cons x _ => exact absurd (hsub x (by simp)) (by simp)
  | h :: t, [], _, _, _ => List.nil_sublist _
  | h :: t, x :: a', hnd, hsub, hp => by
    have hnd' := List.nodup_cons.1 hnd
    have hp' := List.pairwise_cons.1 hp
    by_cases hxh : x = h
    · subst hxh
      have hsub' : ∀ y ∈ a', y ∈ t := by
        intro y hy
        have := hsub y (List.mem_cons_of_mem _ hy)
        rcases List.mem_cons.1 this with rfl | h'
        · exact absurd hy hnd'.1
        · exact h'
      have hpw : a'.Pairwise (fun u v => t.idxOf u ≤ t.idxOf v) := by
        refine List.Pairwise.imp_of_mem ?_ hp'.2
        intro u v hu hv huv
        have hu' : u ≠ x := fun e => hnd'.1 (e ▸ hu)
        have hv' : v ≠ x := fun e => hnd'.1 (e ▸ hv)
        rw [idxOf_pos_of_ne hu', idxOf_pos_of_ne hv'] at huv
        omega
      exact (sublist_of_idx_mono t a' hnd'.2 hsub' hpw).cons₂ x
    · -- h is not in the list at all
      have hnot : h ∉ x :: a' := by
        intro hm
        rcases List.mem_cons.1 hm with rfl | hm
        · exact hxh rfl
        · have := hp'.1 h hm
          rw [List.idxOf_cons_self, idxOf_pos_of_ne hxh] at this
          omega
      have hsub' : ∀ y ∈ x :: a', y ∈ t := by
        intro y hy
        rcases List.mem_cons.1 (hsub y hy) with rfl | h'
        · exact absurd hy hnot
        · exact h'
      have hpw : (x :: a').Pairwise (fun u v => t.idxOf u ≤ t.idxOf v) := by
        refine List.Pairwise.imp_of_mem ?_ hp
        intro u v hu hv huv
        have hu' : u ≠ h := fun e => hnot (e ▸ hu)
        have hv' : v ≠ h := fun e => hnot (e ▸ hv)
        rw [idxOf_pos_of_ne hu', idxOf_pos_of_ne hv'] at huv
        omega
      exact (sublist_of_idx_mono t (x :: a') hnd hsub' hpw).cons h

/-- in a list without repetition the positions are strictly increasing -/
theorem pairwise_idx_of_nodup : ∀ b : List V, b.Nodup → b.Pairwise (fun x y => b.idxOf x < b.idxOf y)
  | [], _ => List.Pairwise.nil
  | h :: t, hnd => by
    have hnd' := List.nodup_cons.1 hnd
    refine List.pairwise_cons.2 ⟨?_, ?_⟩
    · intro y hy
      have : y ≠ h := fun e => hnd'.1 (e ▸ hy)
      rw [List.idxOf_cons_self, idxOf_pos_of_ne this]; omega
    · refine List.Pairwise.imp_of_mem ?_ (pairwise_idx_of_nodup t hnd'.2)
      intro u v hu hv huv
      have hu' : u ≠ h := fun e => hnd'.1 (e ▸ hu)
      have hv' : v ≠ h := fun e => hnd'.1 (e ▸ hv)
      rw [idxOf_pos_of_ne hu', idxOf_pos_of_ne hv']; omega

/-! ### the route-list clean-up -/

/-- an include entry that cannot be used: not a node of the topology, or a transceiver -/
def badNode (isNode isTrx : V → Bool) (x : V) : Bool := !(isNode x) || isTrx x

theorem eraseFirst_skip (x : V) (h : Bool) (rest : List (V × Bool)) : ∀ pre : List (V × Bool),
    (∀ p ∈ pre, p.1 ≠ x) → eraseFirst x (pre ++ (x, h) :: rest) = pre ++ rest
  | [], _ => by simp [eraseFirst]
  | (y, hy) :: pre, hp => by
    have hne : y ≠ x := hp (y, hy) (by simp)
    have ih := eraseFirst_skip x h rest pre (fun p hp' => hp p (List.mem_cons_of_mem _ hp'))
    simp [eraseFirst, hne, ih]

theorem cleanLoop_ok (isNode isTrx : V → Bool) : ∀ (temp pre : List (V × Bool)),
    (∀ p ∈ pre, badNode isNode isTrx p.1 = false) →
    (∀ p ∈ temp, badNode isNode isTrx p.1 = true → p.2 = false) →
    cleanLoop isNode isTrx temp (pre ++ temp) =
      .ok (pre ++ temp.filter (fun p => !(badNode isNode isTrx p.1)))
  | [], pre, _, _ => by simp [cleanLoop]
  | (x, st) :: temp, pre, hpre, hloose => by
    by_cases hb : badNode isNode isTrx x = true
    · have hst : st = false := hloose (x, st) (by simp) hb
      subst hst
      have hb' : (!(isNode x) || isTrx x) = true := hb
      have hskip := eraseFirst_skip x false temp pre (fun p hp he => by
        have := hpre p hp; rw [he] at this; rw [this] at hb; exact absurd hb (by simp))
      have ih := cleanLoop_ok isNode isTrx temp pre hpre
        (fun p hp => hloose p (List.mem_cons_of_mem _ hp))
      simp only [cleanLoop, hb', if_true, Bool.not_false, hskip, ih, List.filter_cons, hb, Bool.not_true,
        Bool.false_eq_true, if_false]
    · have hb0 : badNode isNode isTrx x = false := by simpa using hb
      have hb' : (!(isNode x) || isTrx x) = false := hb0
      have ih := cleanLoop_ok isNode isTrx temp (pre ++ [(x, st)])
        (fun p hp => by
          rcases List.mem_append.1 hp with h | h
          · exact hpre p h
          · simp at h; rw [h]; exact hb0)
        (fun p hp => hloose p (List.mem_cons_of_mem _ hp))
      simp only [List.append_assoc, List.singleton_append] at ih
      simp only [cleanLoop, hb', Bool.false_eq_true, if_false, ih, List.filter_cons, hb0, Bool.not_false, if_true]

theorem cleanLoop_error (isNode isTrx : V → Bool) : ∀ (temp cur : List (V × Bool)),
    (∃ p ∈ temp, badNode isNode isTrx p.1 = true ∧ p.2 = true) →
    cleanLoop isNode isTrx temp cur = .error .strictUnknown
  | [], _, h => by simp at h
  | (x, st) :: temp, cur, h => by
    by_cases hb : badNode isNode isTrx x = true
    · have hb' : (!(isNode x) || isTrx x) = true := hb
      cases st with
      | true => simp [cleanLoop, hb']
      | false =>
        have h' : ∃ p ∈ temp, badNode isNode isTrx p.1 = true ∧ p.2 = true := by
          obtain ⟨p, hp, h1, h2⟩ := h
          rcases List.mem_cons.1 hp with rfl | hp
          · simp at h2
          · exact ⟨p, hp, h1, h2⟩
        simp [cleanLoop, hb', cleanLoop_error isNode isTrx temp _ h']
    · have hb0 : badNode isNode isTrx x = false := by simpa using hb
      have hb' : (!(isNode x) || isTrx x) = false := hb0
      have h' : ∃ p ∈ temp, badNode isNode isTrx p.1 = true ∧ p.2 = true := by
        obtain ⟨p, hp, h1, h2⟩ := h
        rcases List.mem_cons.1 hp with rfl | hp
        · rw [hb0] at h1; simp at h1
        · exact ⟨p, hp, h1, h2⟩
      simp [cleanLoop, hb', cleanLoop_error isNode isTrx temp _ h']

end Gnpy.Route
