import GnpyModel
import GnpyProofs.Lemmas.ChainPad
import Mathlib.Data.List.SplitBy
import Mathlib.Data.List.Chain
/-
Helper lemmas for padding at line level: `padRun` keeps the kinds of the elements, hence the decomposition of the
line into runs.
-/
namespace Gnpy.Chain

/-- 0 = Fiber, 1 = Fused, 2 = Edfa -/
def Elem.kindNo : Elem ℝ → Nat
  | .fiber _ _ => 0
  | .fused _ _ => 1
  | .edfa _ _ => 2

theorem joined_kind (a b a' b' : Elem ℝ) (ha : a.kindNo = a'.kindNo) (hb : b.kindNo = b'.kindNo) :
    joined a b = joined a' b' := by
  cases a <;> cases a' <;> simp [Elem.kindNo] at ha <;> cases b <;> cases b' <;> simp [Elem.kindNo] at hb <;>
    simp [joined, Elem.isFused, Elem.isFiber]

theorem kinds_dropLast_concat (r : List (Elem ℝ)) (x y : Elem ℝ) (h : r.getLast? = some x) (hk : y.kindNo = x.kindNo) :
    (r.dropLast ++ [y]).map Elem.kindNo = r.map Elem.kindNo := by
  conv_rhs => rw [eq_dropLast_append r x h]
  simp [hk]

/-- `padRun` changes `att_in` / `design_span_loss` only: element kinds, in order, stay -/
theorem padRun_kinds (padding : ℝ) (r : List (Elem ℝ)) : (padRun padding r).map Elem.kindNo = r.map Elem.kindNo := by
  unfold padRun
  cases hl : r.getLast? with
  | none => rfl
  | some x =>
    cases x with
    | fused u l => rfl
    | edfa u p => rfl
    | fiber u p =>
      dsimp only
      split_ifs with h1 h2
      · rfl
      · -- padded
        cases r with
        | nil => simp at hl
        | cons a t =>
          cases t with
          | nil =>
            simp at hl; subst hl
            simp [Elem.kindNo]
          | cons b t' =>
            have hl' : (b :: t').getLast? = some (.fiber u p) := by
              rw [List.getLast?_cons_cons] at hl; exact hl
            cases a with
            | fiber v q =>
              simp only [List.map_cons, Elem.kindNo]
              congr 1
              exact kinds_dropLast_concat (b :: t') _ _ hl' rfl
            | fused v l => exact kinds_dropLast_concat _ _ _ hl rfl
            | edfa v q => exact kinds_dropLast_concat _ _ _ hl rfl
      · exact kinds_dropLast_concat _ _ _ hl rfl

theorem isChain_of_kinds : ∀ (l l' : List (Elem ℝ)), l.map Elem.kindNo = l'.map Elem.kindNo →
    List.IsChain (fun x y => joined x y = true) l → List.IsChain (fun x y => joined x y = true) l' := by
  intro l
  induction l with
  | nil => intro l' h _; cases l' with
    | nil => exact List.isChain_nil
    | cons a t => simp at h
  | cons a t ih =>
    intro l' h hc
    cases l' with
    | nil => simp at h
    | cons a' t' =>
      simp only [List.map_cons, List.cons.injEq] at h
      cases t with
      | nil =>
        cases t' with
        | nil => exact List.isChain_singleton _
        | cons b' t'' => simp at h
      | cons b t2 =>
        cases t' with
        | nil => simp at h
        | cons b' t'' =>
          have hcc := List.isChain_cons_cons.mp hc
          simp only [List.map_cons, List.cons.injEq] at h
          refine List.isChain_cons_cons.mpr ⟨?_, ih (b' :: t'') (by simp [h.2.1, h.2.2]) hcc.2⟩
          rw [← joined_kind a b a' b' h.1 h.2.1]; exact hcc.1

theorem padRun_ne_nil (padding : ℝ) (r : List (Elem ℝ)) (h : r ≠ []) : padRun padding r ≠ [] := by
  intro hc
  have := padRun_kinds padding r
  rw [hc] at this
  simp at this
  exact h this

theorem kind_getLast (l l' : List (Elem ℝ)) (h : l.map Elem.kindNo = l'.map Elem.kindNo) (hl : l ≠ []) (hl' : l' ≠ []) :
    (l.getLast hl).kindNo = (l'.getLast hl').kindNo := by
  have h1 : (l.map Elem.kindNo).getLast (by simpa using hl) = (l.getLast hl).kindNo := List.getLast_map _
  have h2 : (l'.map Elem.kindNo).getLast (by simpa using hl') = (l'.getLast hl').kindNo := List.getLast_map _
  rw [← h1, ← h2]
  congr 1

theorem kind_head (l l' : List (Elem ℝ)) (h : l.map Elem.kindNo = l'.map Elem.kindNo) (hl : l ≠ []) (hl' : l' ≠ []) :
    (l.head hl).kindNo = (l'.head hl').kindNo := by
  have h1 : (l.map Elem.kindNo).head (by simpa using hl) = (l.head hl).kindNo := List.head_map _
  have h2 : (l'.map Elem.kindNo).head (by simpa using hl') = (l'.head hl').kindNo := List.head_map _
  rw [← h1, ← h2]
  congr 1

/-- padding every run of a line and splitting the result into runs again gives the padded runs back -/
theorem runs_addPadding (padding : ℝ) (l : List (Elem ℝ)) :
    runs (addPadding padding l) = (runs l).map (padRun padding) := by
  unfold addPadding runs
  apply List.splitBy_flatten
  · intro hmem
    obtain ⟨r, hr, he⟩ := List.mem_map.mp hmem
    exact padRun_ne_nil padding r (List.ne_nil_of_mem_splitBy hr) he
  · intro m hm
    obtain ⟨r, hr, he⟩ := List.mem_map.mp hm
    subst he
    exact isChain_of_kinds r _ (padRun_kinds padding r).symm (List.isChain_of_mem_splitBy hr)
  · rw [List.isChain_map]
    have hb := List.isChain_getLast_head_splitBy joined l
    -- the boundary condition only looks at kinds; empty lists cannot occur among runs: strengthen with membership
    have hne : ∀ r ∈ List.splitBy joined l, r ≠ [] := fun r hr => List.ne_nil_of_mem_splitBy hr
    revert hb hne
    generalize List.splitBy joined l = rs
    intro hb hne
    induction rs with
    | nil => exact List.isChain_nil
    | cons a t ih =>
      cases t with
      | nil => exact List.isChain_singleton _
      | cons b t' =>
        have hcc := List.isChain_cons_cons.mp hb
        refine List.isChain_cons_cons.mpr ⟨?_, ih hcc.2 (fun r hr => hne r (by simp [hr]))⟩
        obtain ⟨ha, hb', hj⟩ := hcc.1
        have ha' := padRun_ne_nil padding a ha
        have hb'' := padRun_ne_nil padding b hb'
        refine ⟨ha', hb'', ?_⟩
        rw [joined_kind _ _ (a.getLast ha) (b.head hb')
          (kind_getLast _ _ (padRun_kinds padding a) ha' ha) (kind_head _ _ (padRun_kinds padding b) hb'' hb')]
        exact hj

theorem runLoss_dsl_last (r : List (Elem ℝ)) (u : String) (p : FiberP ℝ) (d : Option ℝ)
    (hl : r.getLast? = some (.fiber u p)) :
    runLoss (r.dropLast ++ [.fiber u { p with dsl := d }]) = runLoss r := by
  have hsplit := eq_dropLast_append r _ hl
  simp only [runLoss_eq]
  conv_rhs => rw [hsplit]
  simp only [List.map_append, List.map_cons, List.map_nil, List.sum_append, List.sum_cons, List.sum_nil]
  simp only [Elem.loss, Elem.ramanGain, FiberP.loss, FiberP.lumped]

/-- a run whose first element is not a fibre (Fused first) only gets its `design_span_loss` recorded -/
theorem padRun_nonfibre_first (padding : ℝ) (a b : Elem ℝ) (t : List (Elem ℝ)) (u : String) (p : FiberP ℝ)
    (ha : a.isFiber = false) (hl : (a :: b :: t).getLast? = some (.fiber u p)) (hnr : p.raman = false) :
    padRun padding (a :: b :: t)
      = (a :: b :: t).dropLast ++ [.fiber u { p with dsl := some (runLoss (a :: b :: t)) }] := by
  have hne : ¬ (p.raman = true) := by simp [hnr]
  unfold padRun
  rw [hl]
  dsimp only
  rw [if_neg hne]
  cases a with
  | fiber v q => simp [Elem.isFiber] at ha
  | fused v l => split_ifs <;> rfl
  | edfa v q => split_ifs <;> rfl

theorem padRun_idem_nonfibre_first (padding : ℝ) (a b : Elem ℝ) (t : List (Elem ℝ)) (u : String) (p : FiberP ℝ)
    (ha : a.isFiber = false) (hl : (a :: b :: t).getLast? = some (.fiber u p)) (hnr : p.raman = false) :
    padRun padding (padRun padding (a :: b :: t)) = padRun padding (a :: b :: t) := by
  have h1 := padRun_nonfibre_first padding a b t u p ha hl hnr
  rw [h1]
  set x : Elem ℝ := .fiber u { p with dsl := some (runLoss (a :: b :: t)) } with hx
  obtain ⟨c, s', hs⟩ : ∃ c s', (b :: t).dropLast ++ [x] = c :: s' := by
    cases hq : (b :: t).dropLast ++ [x] with
    | nil => simp at hq
    | cons c s' => exact ⟨c, s', rfl⟩
  have hr' : (a :: b :: t).dropLast ++ [x] = a :: c :: s' := by
    rw [List.dropLast_cons_cons, List.cons_append, hs]
  have hlast : (a :: c :: s').getLast? = some x := by rw [← hr', List.getLast?_concat]
  have hloss : runLoss (a :: c :: s') = runLoss (a :: b :: t) := by
    rw [← hr']; exact runLoss_dsl_last _ u p _ hl
  have hdrop : (a :: c :: s').dropLast = (a :: b :: t).dropLast := by
    rw [← hr', List.dropLast_concat]
  rw [hr', padRun_nonfibre_first padding a c s' u _ ha hlast hnr, hloss, hdrop, ← hr']

end Gnpy.Chain
