import GnpyModel
import GnpyProofs.Lemmas.Db
import Mathlib.Tactic.Ring
import Mathlib.Tactic.Linarith
import Mathlib.Tactic.FieldSimp
import Mathlib.Tactic.Positivity
import Mathlib.Tactic.NormNum
/-
Helper lemmas for C04 (amplifier): `smin`/`smax` as `min`/`max`, sums of lists, constant lists.
-/
namespace Gnpy

theorem smin_eq_min (x y : ℝ) : smin x y = min x y := by
  simp only [smin]; split <;> rename_i h
  · exact (min_eq_left h).symm
  · exact (min_eq_right (le_of_lt (not_le.1 h))).symm

theorem smax_eq_max (x y : ℝ) : smax x y = max x y := by
  simp only [smax]; split <;> rename_i h
  · exact (max_eq_right h).symm
  · exact (max_eq_left (le_of_lt (not_le.1 h))).symm

theorem sumL_eq_sum (l : List ℝ) : sumL l = l.sum := by
  induction l with
  | nil => simp [sumL]
  | cons x xs ih => simp [sumL, ih]

theorem sumL_map_mul_right (l : List ℝ) (c : ℝ) : sumL (l.map (fun x => x * c)) = sumL l * c := by
  induction l with
  | nil => simp [sumL]
  | cons x xs ih => simp only [List.map, sumL, ih]; ring

theorem sumL_pos (l : List ℝ) (hne : l ≠ []) (h : ∀ x ∈ l, 0 < x) : 0 < sumL l := by
  induction l with
  | nil => exact absurd rfl hne
  | cons x xs ih =>
    simp only [sumL]
    by_cases hx : xs = []
    · subst hx; simp only [sumL, Nat.cast_zero, add_zero]; exact h x (by simp)
    · have := ih hx (fun y hy => h y (by simp [hy])); have := h x (by simp); linarith

theorem sumL_replicate (n : Nat) (c : ℝ) : sumL (List.replicate n c) = n * c := by
  induction n with
  | zero => simp [sumL]
  | succ k ih => simp only [List.replicate, sumL, ih]; push_cast; ring

theorem watt2dbm_mul_db2lin (p g : ℝ) (hp : 0 < p) : watt2dbm (p * db2lin g) = watt2dbm p + g := by
  simp only [watt2dbm, Nat.cast_ofNat]
  rw [show p * db2lin g * 1000 = (p * 1000) * db2lin g by ring,
      lin2db_mul _ _ (by positivity) (db2lin_pos g), lin2db_db2lin]

theorem lin2db_lt_iff (x y : ℝ) (hx : 0 < x) (hy : 0 < y) : lin2db x < lin2db y ↔ x < y := by
  rw [← not_le, ← not_le, lin2db_le_iff y x hy hx]

theorem lin2db_inj (x y : ℝ) (hx : 0 < x) (hy : 0 < y) (h : lin2db x = lin2db y) : x = y := by
  have := congrArg db2lin h
  rwa [db2lin_lin2db x hx, db2lin_lin2db y hy] at this

namespace Edfa

theorem maxL_const (l : List ℝ) (c : ℝ) (hne : l ≠ []) (h : ∀ x ∈ l, x = c) : maxL l = c := by
  cases l with
  | nil => exact absurd rfl hne
  | cons x xs =>
    have hx : x = c := h x (by simp)
    subst hx
    simp only [maxL]
    have : ∀ (ys : List ℝ), (∀ y ∈ ys, y = x) → ys.foldl (fun a b => if a < b then b else a) x = x := by
      intro ys
      induction ys with
      | nil => intro _; rfl
      | cons y ys ih =>
        intro hy
        have hy1 : y = x := hy y (by simp)
        subst hy1
        simp only [List.foldl, lt_irrefl, if_false]
        exact ih (fun z hz => hy z (by simp [hz]))
    exact this xs (fun y hy => h y (by simp [hy]))

theorem minL_const (l : List ℝ) (c : ℝ) (hne : l ≠ []) (h : ∀ x ∈ l, x = c) : minL l = c := by
  cases l with
  | nil => exact absurd rfl hne
  | cons x xs =>
    have hx : x = c := h x (by simp)
    subst hx
    simp only [minL]
    have : ∀ (ys : List ℝ), (∀ y ∈ ys, y = x) → ys.foldl (fun a b => if b < a then b else a) x = x := by
      intro ys
      induction ys with
      | nil => intro _; rfl
      | cons y ys ih =>
        intro hy
        have hy1 : y = x := hy y (by simp)
        subst hy1
        simp only [List.foldl, lt_irrefl, if_false]
        exact ih (fun z hz => hy z (by simp [hz]))
    exact this xs (fun y hy => h y (by simp [hy]))

theorem mean_const (l : List ℝ) (c : ℝ) (hne : l ≠ []) (h : ∀ x ∈ l, x = c) : mean l = c := by
  have hl : l = List.replicate l.length c := List.eq_replicate_iff.2 ⟨rfl, h⟩
  have hn : (0:ℝ) < l.length := by
    have : 0 < l.length := List.length_pos_iff.2 hne
    exact_mod_cast this
  simp only [mean]
  rw [hl, sumL_replicate, List.length_replicate]
  field_simp

end Edfa
end Gnpy
