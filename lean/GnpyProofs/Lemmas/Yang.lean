import GnpyModel.Yang
import GnpyProofs.Lemmas.Json
/- helper lemmas for the legacy <-> YANG converters (C18) -/
namespace Gnpy.Yang
open Gnpy

theorem beqL_single_null (l : List J) : J.beqL l [.null] = true ↔ l = [.null] := by
  constructor
  · exact J.eq_of_beqL l _
  · intro h; subst h; exact J.beqL_refl _

theorem noneToEmpty_ne_null (j : J) : noneToEmpty j ≠ .null := by
  cases j <;> simp [noneToEmpty]
  split <;> simp

theorem noneToEmptyL_ne_single_null (l : List J) : noneToEmptyL l ≠ [.null] := by
  cases l with
  | nil => simp [noneToEmptyL]
  | cons x xs =>
    simp only [noneToEmptyL, ne_eq, List.cons.injEq, not_and]
    intro h
    exact absurd h (noneToEmpty_ne_null x)

mutual
theorem emptyToNone_noneToEmpty : ∀ j : J, noBoxedNull j = true → emptyToNone (noneToEmpty j) = j
  | .null, _ => by simp [noneToEmpty, emptyToNone, J.beqL, J.beq]
  | .bool _, _ => rfl
  | .int _, _ => rfl
  | .flt _, _ => rfl
  | .str _, _ => rfl
  | .arr l, h => by
    simp only [noBoxedNull, Bool.and_eq_true, Bool.not_eq_true'] at h
    have hne : J.beqL (noneToEmptyL l) [.null] = false := by
      rw [Bool.eq_false_iff, ne_eq, beqL_single_null]
      exact noneToEmptyL_ne_single_null l
    simp only [noneToEmpty, h.1, Bool.false_eq_true, if_false, emptyToNone, hne]
    rw [emptyToNoneL_noneToEmptyL l h.2]
  | .obj l, h => by
    simp only [noBoxedNull] at h
    simp only [noneToEmpty, emptyToNone]
    rw [emptyToNoneO_noneToEmptyO l h]
theorem emptyToNoneL_noneToEmptyL : ∀ l : List J, noBoxedNullL l = true → emptyToNoneL (noneToEmptyL l) = l
  | [], _ => rfl
  | x :: xs, h => by
    simp only [noBoxedNullL, Bool.and_eq_true] at h
    simp only [noneToEmptyL, emptyToNoneL]
    rw [emptyToNone_noneToEmpty x h.1, emptyToNoneL_noneToEmptyL xs h.2]
theorem emptyToNoneO_noneToEmptyO : ∀ l : List (String × J), noBoxedNullO l = true →
    emptyToNoneO (noneToEmptyO l) = l
  | [], _ => rfl
  | (k, v) :: xs, h => by
    simp only [noBoxedNullO, Bool.and_eq_true] at h
    simp only [noneToEmptyO, emptyToNoneO]
    rw [emptyToNone_noneToEmpty v h.1, emptyToNoneO_noneToEmptyO xs h.2]
end

mutual
theorem noneToEmpty_idem : ∀ j : J, noneToEmpty (noneToEmpty j) = noneToEmpty j
  | .null => by simp [noneToEmpty, J.beqL, J.beq]
  | .bool _ => rfl
  | .int _ => rfl
  | .flt _ => rfl
  | .str _ => rfl
  | .arr l => by
    by_cases h : J.beqL l [.null] = true
    · simp [noneToEmpty, h]
    · have hne : J.beqL (noneToEmptyL l) [.null] = false := by
        rw [Bool.eq_false_iff, ne_eq, beqL_single_null]
        exact noneToEmptyL_ne_single_null l
      simp only [noneToEmpty, h, if_false, hne, Bool.false_eq_true]
      rw [noneToEmptyL_idem l]
  | .obj l => by
    simp only [noneToEmpty]
    rw [noneToEmptyO_idem l]
theorem noneToEmptyL_idem : ∀ l : List J, noneToEmptyL (noneToEmptyL l) = noneToEmptyL l
  | [] => rfl
  | x :: xs => by
    simp only [noneToEmptyL]
    rw [noneToEmpty_idem x, noneToEmptyL_idem xs]
theorem noneToEmptyO_idem : ∀ l : List (String × J), noneToEmptyO (noneToEmptyO l) = noneToEmptyO l
  | [] => rfl
  | (k, v) :: xs => by
    simp only [noneToEmptyO]
    rw [noneToEmpty_idem v, noneToEmptyO_idem xs]
end

theorem bind_ok {α β : Type} (m : PyR α) (f : α → PyR β) (r : β) :
    (m >>= f) = .ok r ↔ ∃ x, m = .ok x ∧ f x = .ok r := by
  cases m with
  | error e => simp [bind, Except.bind]
  | ok x => simp [bind, Except.bind]

theorem pure_ok {α : Type} (x r : α) : (pure x : PyR α) = .ok r ↔ x = r := by
  simp [pure, Except.pure]

mutual
/-- a tree produced by `convert_dict` that contains no float any more is a fixpoint of
    `convert_dict` (same declared digits) -/
theorem convertDict_second : ∀ (rp rp' : List (Nat × String)) (fd : Int) (j r : J),
    convertDict rp fd j = .ok r → noFlt r = true → convertDict rp' fd r = .ok r
  | rp, rp', fd, .obj l, r, h, hn => by
    simp only [convertDict, bind_ok, pure_ok] at h
    obtain ⟨l', hl, rfl⟩ := h
    simp only [noFlt] at hn
    simp only [convertDict, convertDictO_second rp rp' l l' hl hn, bind, Except.bind, pure, Except.pure]
  | rp, rp', fd, .arr l, r, h, hn => by
    simp only [convertDict, bind_ok, pure_ok] at h
    obtain ⟨l', hl, rfl⟩ := h
    simp only [noFlt] at hn
    simp only [convertDict, convertDictL_second rp rp' fd l l' hl hn, bind, Except.bind, pure, Except.pure]
  | rp, rp', fd, .bool b, r, h, hn => by
    simp only [convertDict, pure_ok] at h; subst h; simp [convertDict, pure, Except.pure]
  | rp, rp', fd, .null, r, h, hn => by
    simp only [convertDict, pure_ok] at h; subst h; simp [convertDict, pure, Except.pure]
  | rp, rp', fd, .str s, r, h, hn => by
    simp only [convertDict, pure_ok] at h; subst h; simp [convertDict, pure, Except.pure]
  | rp, rp', fd, .int i, r, h, hn => by
    simp only [convertDict] at h
    split at h
    · simp only [pure_ok] at h; subst h; simp [convertDict, pure, Except.pure]
    · split at h
      · simp only [pure_ok] at h; subst h; simp [noFlt] at hn
      · simp only [pure_ok] at h; subst h
        rename_i h1 h2
        simp [convertDict, h1, h2, pure, Except.pure]
  | rp, rp', fd, .flt b, r, h, hn => by
    simp only [convertDict, bind_ok, pure_ok] at h
    obtain ⟨s, _, rfl⟩ := h
    simp [convertDict, pure, Except.pure]
theorem convertDictL_second : ∀ (rp rp' : List (Nat × String)) (fd : Int) (l r : List J),
    convertDictL rp fd l = .ok r → noFltL r = true → convertDictL rp' fd r = .ok r
  | rp, rp', fd, [], r, h, hn => by
    simp only [convertDictL, pure_ok] at h; subst h; simp [convertDictL, pure, Except.pure]
  | rp, rp', fd, x :: xs, r, h, hn => by
    simp only [convertDictL, bind_ok, pure_ok] at h
    obtain ⟨y, hy, ys, hys, rfl⟩ := h
    simp only [noFltL, Bool.and_eq_true] at hn
    simp only [convertDictL, convertDict_second rp rp' fd x y hy hn.1,
      convertDictL_second rp rp' fd xs ys hys hn.2, bind, Except.bind, pure, Except.pure]
theorem convertDictO_second : ∀ (rp rp' : List (Nat × String)) (l r : List (String × J)),
    convertDictO rp l = .ok r → noFltO r = true → convertDictO rp' r = .ok r
  | rp, rp', [], r, h, hn => by
    simp only [convertDictO, pure_ok] at h; subst h; simp [convertDictO, pure, Except.pure]
  | rp, rp', (k, v) :: xs, r, h, hn => by
    simp only [convertDictO, bind_ok, pure_ok] at h
    obtain ⟨y, hy, ys, hys, rfl⟩ := h
    simp only [noFltO, Bool.and_eq_true] at hn
    simp only [convertDictO, convertDict_second rp rp' (precisionD k) v y hy hn.1,
      convertDictO_second rp rp' xs ys hys hn.2, bind, Except.bind, pure, Except.pure]
end

/-! ### per-degree targets -/

theorem applyTargets_append : ∀ (l1 l2 : List J) (p : Dict),
    applyTargets (l1 ++ l2) p = applyTargets l1 p >>= applyTargets l2
  | [], l2, p => by simp [applyTargets, bind, Except.bind, pure, Except.pure]
  | t :: ts, l2, p => by
    simp only [List.cons_append, applyTargets]
    cases h1 : asObj t with
    | error e => simp [bind, Except.bind]
    | ok o =>
      cases h2 : applyTarget p o with
      | error e => simp [bind, Except.bind, h2]
      | ok p' =>
        simp only [bind, Except.bind, h2]
        have := applyTargets_append ts l2 p'
        simp only [bind, Except.bind] at this
        exact this

/-- one generated target `{degree_uid: d, kind: v}` sets exactly `params[kind][d] = v` -/
theorem applyTarget_generated (p : Dict) (kind d : String) (v : J) (hk : kind ∈ eqTypes) :
    applyTarget p [("degree_uid", .str d), (kind, v)] = setDegree p kind d v := by
  simp only [eqTypes, List.mem_cons, List.not_mem_nil, or_false] at hk
  rcases hk with rfl | rfl | rfl
  · cases h : setDegree p "per_degree_pch_out_db" d v with
    | error e => simp [applyTarget, applyKind, Dict.get, Dict.get?, h, bind, Except.bind, pure, Except.pure]
    | ok q => simp [applyTarget, applyKind, Dict.get, Dict.get?, h, bind, Except.bind, pure, Except.pure]
  · cases h : setDegree p "per_degree_psd_out_mWperGHz" d v with
    | error e => simp [applyTarget, applyKind, Dict.get, Dict.get?, h, bind, Except.bind, pure, Except.pure]
    | ok q => simp [applyTarget, applyKind, Dict.get, Dict.get?, h, bind, Except.bind, pure, Except.pure]
  · cases h : setDegree p "per_degree_psd_out_mWperSlotWidth" d v with
    | error e => simp [applyTarget, applyKind, Dict.get, Dict.get?, h, bind, Except.bind, pure, Except.pure]
    | ok q => simp [applyTarget, applyKind, Dict.get, Dict.get?, h, bind, Except.bind, pure, Except.pure]

/-- replaying the generated targets of one kind rebuilds that kind's degree dict, entry by entry in
    the original order, and touches no other key -/
theorem applyTargets_targetsOf (kind : String) (hk : kind ∈ eqTypes) :
    ∀ (ts pre : Dict) (p : Dict), p.get? kind = some (.obj pre) →
      (pre.map (·.1) ++ ts.map (·.1)).Nodup →
      ∃ q, applyTargets (targetsOf kind ts) p = .ok q ∧ q.get? kind = some (.obj (pre ++ ts)) ∧
        ∀ k, k ≠ kind → q.get? k = p.get? k
  | [], pre, p, hp, _ => ⟨p, by simp [targetsOf, applyTargets, pure, Except.pure], by simpa using hp, fun _ _ => rfl⟩
  | (d, v) :: ts, pre, p, hp, hnd => by
    have hd : d ∉ pre.map (·.1) := by
      intro hmem
      have := (List.nodup_append.1 hnd).2.2
      exact this d hmem d (by simp) rfl
    have hset : Dict.set pre d v = pre ++ [(d, v)] :=
      Dict.set_append_of_get?_none pre d v ((Dict.get?_none_iff_not_mem_keys pre d).2 hd)
    have hstep : applyTarget p [("degree_uid", .str d), (kind, v)] = .ok (p.set kind (.obj (pre ++ [(d, v)]))) := by
      rw [applyTarget_generated p kind d v hk]
      simp [setDegree, hp, hset, pure, Except.pure]
    have hnd' : ((pre ++ [(d, v)]).map (·.1) ++ ts.map (·.1)).Nodup := by
      simpa [List.map_append, List.append_assoc] using hnd
    obtain ⟨q, hq, hq1, hq2⟩ := applyTargets_targetsOf kind hk ts (pre ++ [(d, v)]) (p.set kind (.obj (pre ++ [(d, v)])))
      (Dict.get?_set_same _ _ _) hnd'
    refine ⟨q, ?_, ?_, ?_⟩
    · simp only [targetsOf, List.map_cons, applyTargets, asObj, bind, Except.bind, pure, Except.pure, hstep]
      exact hq
    · simpa [List.append_assoc] using hq1
    · intro k hkk
      rw [hq2 k hkk, Dict.get?_set_other _ _ _ _ (Ne.symm hkk)]

/-- the same when the kind is not yet in `params` (first target creates the dict) -/
theorem applyTargets_targetsOf_fresh (kind : String) (hk : kind ∈ eqTypes) (ts : Dict) (p : Dict)
    (hp : p.get? kind = none) (hne : ts ≠ []) (hnd : (ts.map (·.1)).Nodup) :
    ∃ q, applyTargets (targetsOf kind ts) p = .ok q ∧ q.get? kind = some (.obj ts) ∧
      ∀ k, k ≠ kind → q.get? k = p.get? k := by
  cases ts with
  | nil => exact absurd rfl hne
  | cons dv ts =>
    obtain ⟨d, v⟩ := dv
    have hstep : applyTarget p [("degree_uid", .str d), (kind, v)] = .ok (p.set kind (.obj [(d, v)])) := by
      rw [applyTarget_generated p kind d v hk]
      simp [setDegree, hp, pure, Except.pure]
    obtain ⟨q, hq, hq1, hq2⟩ := applyTargets_targetsOf kind hk ts [(d, v)] (p.set kind (.obj [(d, v)]))
      (Dict.get?_set_same _ _ _) (by simpa using hnd)
    refine ⟨q, ?_, by simpa using hq1, ?_⟩
    · simp only [targetsOf, List.map_cons, applyTargets, asObj, bind, Except.bind, pure, Except.pure, hstep]
      exact hq
    · intro k hkk
      rw [hq2 k hkk, Dict.get?_set_other _ _ _ _ (Ne.symm hkk)]

/-! ### design bands, per-frequency lists -/

theorem bandOf_generated (d : String) (v : J) :
    bandOf (J.obj [("degree_uid", .str d), ("design_bands", v)]) = .ok (d, v) := by
  have h : (("degree_uid" : String) == "design_bands") = false := by decide
  simp [bandOf, asObj, Dict.get, Dict.get?, h, bind, Except.bind, pure, Except.pure]

theorem collectBands_generated : ∀ (ts pre : Dict), (pre.map (·.1) ++ ts.map (·.1)).Nodup →
    collectBands (ts.map (fun dv => J.obj [("degree_uid", .str dv.1), ("design_bands", dv.2)])) pre
      = .ok (pre ++ ts)
  | [], pre, _ => by simp [collectBands, pure, Except.pure]
  | (d, v) :: ts, pre, hnd => by
    have hd : d ∉ pre.map (·.1) := by
      intro hmem
      exact (List.nodup_append.1 hnd).2.2 d hmem d (by simp) rfl
    have hset : Dict.set pre d v = pre ++ [(d, v)] :=
      Dict.set_append_of_get?_none pre d v ((Dict.get?_none_iff_not_mem_keys pre d).2 hd)
    have hnd' : ((pre ++ [(d, v)]).map (·.1) ++ ts.map (·.1)).Nodup := by
      simpa [List.map_append, List.append_assoc] using hnd
    have ih := collectBands_generated ts (pre ++ [(d, v)]) hnd'
    simp only [List.map_cons, collectBands, bandOf_generated, bind, Except.bind]
    rw [hset]
    simpa [List.append_assoc] using ih

/-- reading a column back from the zipped list of two-key dicts -/
theorem column_zipDicts_fst (ka kb : String) (hne : ka ≠ kb) : ∀ (a b : List J), a.length = b.length →
    column ka (zipDicts ka kb a b) = .ok a
  | [], [], _ => by simp [zipDicts, column, pure, Except.pure]
  | x :: xs, y :: ys, h => by
    have ih := column_zipDicts_fst ka kb hne xs ys (by simpa using h)
    simp only [zipDicts] at ih
    simp [zipDicts, column, asObj, Dict.get, Dict.get?, ih, bind, Except.bind, pure, Except.pure]
  | [], _ :: _, h => by simp at h
  | _ :: _, [], h => by simp at h

theorem column_zipDicts_snd (ka kb : String) (hne : ka ≠ kb) : ∀ (a b : List J), a.length = b.length →
    column kb (zipDicts ka kb a b) = .ok b
  | [], [], _ => by simp [zipDicts, column, pure, Except.pure]
  | x :: xs, y :: ys, h => by
    have ih := column_zipDicts_snd ka kb hne xs ys (by simpa using h)
    simp only [zipDicts] at ih
    simp [zipDicts, column, asObj, Dict.get, Dict.get?, hne, ih, bind, Except.bind, pure, Except.pure]
  | [], _ :: _, h => by simp at h
  | _ :: _, [], h => by simp at h

theorem zipDicts_ne_nil (ka kb : String) (a b : List J) (ha : a ≠ []) (h : a.length = b.length) :
    zipDicts ka kb a b ≠ [] := by
  cases a with
  | nil => exact absurd rfl ha
  | cons x xs =>
    cases b with
    | nil => simp at h
    | cons y ys => simp [zipDicts]

end Gnpy.Yang
