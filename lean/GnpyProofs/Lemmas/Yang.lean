import GnpyModel.Yang
import GnpyProofs.Lemmas.Json
/- helper lemmas for the legacy <-> YANG converters (C18) -/
namespace Gnpy.Yang
open Gnpy

theorem beqL_single_null (l : List J) : J.beqL l [.null] = true ↔ l = [.null] := by
  constructor
  · exact J.eq_of_beqL l _
  · intro h; subst h; exact J.beqL_refl _

theorem noneToEmpty_ne_null (j : J) : noneToEmpty j ≠ .null := by
  cases j <;> simp [noneToEmpty]
  split <;> simp

theorem noneToEmptyL_ne_single_null (l : List J) : noneToEmptyL l ≠ [.null] := by
  cases l with
  | nil => simp [noneToEmptyL]
  | cons x xs =>
    simp only [noneToEmptyL, ne_eq, List.cons.injEq, not_and]
    intro h
    exact absurd h (noneToEmpty_ne_null x)

mutual
theorem emptyToNone_noneToEmpty : ∀ j : J, noBoxedNull j = true → emptyToNone (noneToEmpty j) = j
  | .null, _ => by simp [noneToEmpty, emptyToNone, J.beqL, J.beq]
  | .bool _, _ => rfl
  | .int _, _ => rfl
  | .flt _, _ => rfl
  | .str _, _ => rfl
  | .arr l, h => by
    simp only [noBoxedNull, Bool.and_eq_true, Bool.not_eq_true'] at h
    have hne : J.beqL (noneToEmptyL l) [.null] = false := by
      rw [Bool.eq_false_iff, ne_eq, beqL_single_null]
      exact noneToEmptyL_ne_single_null l
    simp only [noneToEmpty, h.1, Bool.false_eq_true, if_false, emptyToNone, hne]
    rw [emptyToNoneL_noneToEmptyL l h.2]
  | .obj l, h => by
    simp only [noBoxedNull] at h
    simp only [noneToEmpty, emptyToNone]
    rw [emptyToNoneO_noneToEmptyO l h]
theorem emptyToNoneL_noneToEmptyL : ∀ l : List J, noBoxedNullL l = true → emptyToNoneL (noneToEmptyL l) = l
  | [], _ => rfl
  | x :: xs, h => by
    simp only [noBoxedNullL, Bool.and_eq_true] at h
    simp only [noneToEmptyL, emptyToNoneL]
    rw [emptyToNone_noneToEmpty x h.1, emptyToNoneL_noneToEmptyL xs h.2]
theorem emptyToNoneO_noneToEmptyO : ∀ l : List (String × J), noBoxedNullO l = true →
    emptyToNoneO (noneToEmptyO l) = l
  | [], _ => rfl
  | (k, v) :: xs, h => by
    simp only [noBoxedNullO, Bool.and_eq_true] at h
    simp only [noneToEmptyO, emptyToNoneO]
    rw [emptyToNone_noneToEmpty v h.1, emptyToNoneO_noneToEmptyO xs h.2]
end

mutual
theorem noneToEmpty_idem : ∀ j : J, noneToEmpty (noneToEmpty j) = noneToEmpty j
  | .null => by simp [noneToEmpty, J.beqL, J.beq]
  | .bool _ => rfl
  | .int _ => rfl
  | .flt _ => rfl
  | .str _ => rfl
  | .arr l => by
    by_cases h : J.beqL l [.null] = true
    · simp [noneToEmpty, h]
    · have hne : J.beqL (noneToEmptyL l) [.null] = false := by
        rw [Bool.eq_false_iff, ne_eq, beqL_single_null]
        exact noneToEmptyL_ne_single_null l
      simp only [noneToEmpty, h, if_false, hne, Bool.false_eq_true]
      rw [noneToEmptyL_idem l]
  | .obj l => by
    simp only [noneToEmpty]
    rw [noneToEmptyO_idem l]
theorem noneToEmptyL_idem : ∀ l : List J, noneToEmptyL (noneToEmptyL l) = noneToEmptyL l
  | [] => rfl
  | x :: xs => by
    simp only [noneToEmptyL]
    rw [noneToEmpty_idem x, noneToEmptyL_idem xs]
theorem noneToEmptyO_idem : ∀ l : List (String × J), noneToEmptyO (noneToEmptyO l) = noneToEmptyO l
  | [] => rfl
  | (k, v) :: xs => by
    simp only [noneToEmptyO]
    rw [noneToEmpty_idem v, noneToEmptyO_idem xs]
end

theorem bind_ok {α β : Type} (m : PyR α) (f : α → PyR β) (r : β) :
    (m >>= f) = .ok r ↔ ∃ x, m = .ok x ∧ f x = .ok r := by
  cases m with
  | error e => simp [bind, Except.bind]
  | ok x => simp [bind, Except.bind]

theorem pure_ok {α : Type} (x r : α) : (pure x : PyR α) = .ok r ↔ x = r := by
  simp [pure, Except.pure]

mutual
/-- a tree produced by `convert_dict` that contains no float any more is a fixpoint of
    `convert_dict` (same declared digits) -/
theorem convertDict_second : ∀ (rp rp' : List (Nat × String)) (fd : Int) (j r : J),
    convertDict rp fd j = .ok r → noFlt r = true → convertDict rp' fd r = .ok r
  | rp, rp', fd, .obj l, r, h, hn => by
    simp only [convertDict, bind_ok, pure_ok] at h
    obtain ⟨l', hl, rfl⟩ := h
    simp only [noFlt] at hn
    simp only [convertDict, convertDictO_second rp rp' l l' hl hn, bind, Except.bind, pure, Except.pure]
  | rp, rp', fd, .arr l, r, h, hn => by
    simp only [convertDict, bind_ok, pure_ok] at h
    obtain ⟨l', hl, rfl⟩ := h
    simp only [noFlt] at hn
    simp only [convertDict, convertDictL_second rp rp' fd l l' hl hn, bind, Except.bind, pure, Except.pure]
  | rp, rp', fd, .bool b, r, h, hn => by
    simp only [convertDict, pure_ok] at h; subst h; simp [convertDict, pure, Except.pure]
  | rp, rp', fd, .null, r, h, hn => by
    simp only [convertDict, pure_ok] at h; subst h; simp [convertDict, pure, Except.pure]
  | rp, rp', fd, .str s, r, h, hn => by
    simp only [convertDict, pure_ok] at h; subst h; simp [convertDict, pure, Except.pure]
  | rp, rp', fd, .int i, r, h, hn => by
    simp only [convertDict] at h
    split at h
    · simp only [pure_ok] at h; subst h; simp [convertDict, pure, Except.pure]
    · split at h
      · simp only [pure_ok] at h; subst h; simp [noFlt] at hn
      · simp only [pure_ok] at h; subst h
        rename_i h1 h2
        simp [convertDict, h1, h2, pure, Except.pure]
  | rp, rp', fd, .flt b, r, h, hn => by
    simp only [convertDict, bind_ok, pure_ok] at h
    obtain ⟨s, _, rfl⟩ := h
    simp [convertDict, pure, Except.pure]
theorem convertDictL_second : ∀ (rp rp' : List (Nat × String)) (fd : Int) (l r : List J),
    convertDictL rp fd l = .ok r → noFltL r = true → convertDictL rp' fd r = .ok r
  | rp, rp', fd, [], r, h, hn => by
    simp only [convertDictL, pure_ok] at h; subst h; simp [convertDictL, pure, Except.pure]
  | rp, rp', fd, x :: xs, r, h, hn => by
    simp only [convertDictL, bind_ok, pure_ok] at h
    obtain ⟨y, hy, ys, hys, rfl⟩ := h
    simp only [noFltL, Bool.and_eq_true] at hn
    simp only [convertDictL, convertDict_second rp rp' fd x y hy hn.1,
      convertDictL_second rp rp' fd xs ys hys hn.2, bind, Except.bind, pure, Except.pure]
theorem convertDictO_second : ∀ (rp rp' : List (Nat × String)) (l r : List (String × J)),
    convertDictO rp l = .ok r → noFltO r = true → convertDictO rp' r = .ok r
  | rp, rp', [], r, h, hn => by
    simp only [convertDictO, pure_ok] at h; subst h; simp [convertDictO, pure, Except.pure]
  | rp, rp', (k, v) :: xs, r, h, hn => by
    simp only [convertDictO, bind_ok, pure_ok] at h
    obtain ⟨y, hy, ys, hys, rfl⟩ := h
    simp only [noFltO, Bool.and_eq_true] at hn
    simp only [convertDictO, convertDict_second rp rp' (precisionD k) v y hy hn.1,
      convertDictO_second rp rp' xs ys hys hn.2, bind, Except.bind, pure, Except.pure]
end

end Gnpy.Yang
