import GnpyProofs.Lemmas.Slots
/- Helper lemmas for C14: sorting (order_slots / restore_order), compute_n_m and one step of pth_assign_spectrum. -/
namespace Gnpy.Py

theorem orderedInsert_perm {α : Type} (le : α → α → Bool) (x : α) (l : List α) : (orderedInsert le x l).Perm (x :: l) := by
  induction l with
  | nil => exact List.Perm.refl _
  | cons y ys ih =>
    unfold orderedInsert
    split
    · exact List.Perm.refl _
    · exact ((List.Perm.cons y ih).trans (List.Perm.swap x y ys))

theorem sorted_perm {α : Type} (le : α → α → Bool) (l : List α) : (sorted le l).Perm l := by
  induction l with
  | nil => exact List.Perm.refl _
  | cons x xs ih =>
    unfold sorted
    exact (orderedInsert_perm le x _).trans (List.Perm.cons x ih)

theorem enumerate_map_fst {α : Type} (l : List α) : (enumerate l).map (·.1) = List.range l.length := by
  unfold enumerate
  rw [List.map_map]
  have : ((fun x : Nat × α => x.1) ∘ fun p : α × Nat => (p.2, p.1)) = Prod.snd := rfl
  rw [this, List.zipIdx_map_snd, List.range_eq_range']

theorem enumerate_map_snd {α : Type} (l : List α) : (enumerate l).map (·.2) = l := by
  unfold enumerate
  rw [List.map_map]
  have : ((fun x : Nat × α => x.2) ∘ fun p : α × Nat => (p.2, p.1)) = Prod.fst := rfl
  rw [this, List.zipIdx_map_fst]

theorem mem_enumerate {α : Type} (l : List α) (p : Nat × α) (h : p ∈ enumerate l) : l[p.1]? = some p.2 := by
  unfold enumerate at h
  obtain ⟨q, hq, rfl⟩ := List.mem_map.1 h
  obtain ⟨a, i⟩ := q
  have := List.mem_zipIdx hq
  simp only at this ⊢
  obtain ⟨_, h2, h3⟩ := this
  simp at h2 h3
  rw [h3]
  exact List.getElem?_eq_getElem h2

theorem filterMap_range_getElem? {α : Type} (l : List (Option α)) :
    (List.range l.length).filterMap (fun i => (l[i]?).join) = l.filterMap id := by
  induction l with
  | nil => simp
  | cons x xs ih =>
    rw [List.length_cons, List.range_succ_eq_map, List.filterMap_cons, List.filterMap_map]
    have : ((fun i => ((x :: xs)[i]?).join) ∘ Nat.succ) = fun i => (xs[i]?).join := by
      funext i; simp
    rw [this, ih]
    cases x <;> simp

end Gnpy.Py

namespace Gnpy.Slots
open Gnpy.Py

/-- `restore_order` returns the selected pairs (a permutation of them; the unserved positions are dropped) -/
theorem restoreOrder_perm {α : Type} (sel : List α) (order : List Nat) (h : sel.length ≤ order.length) :
    (restoreOrder (sel.map some ++ List.replicate (order.length - sel.length) none) order).Perm sel := by
  unfold restoreOrder
  set padded := sel.map some ++ List.replicate (order.length - sel.length) none with hp
  have hlen : padded.length = order.length := by simp [hp]; omega
  refine (List.Perm.filterMap _ (sorted_perm _ (enumerate order))).trans ?_
  have e1 : (enumerate order).filterMap (fun p => (padded[p.1]?).join) =
      ((enumerate order).map (·.1)).filterMap (fun i => (padded[i]?).join) := by
    rw [List.filterMap_map]; rfl
  rw [e1, enumerate_map_fst, ← hlen, filterMap_range_getElem?, hp, List.filterMap_append, List.filterMap_map]
  simp [List.filterMap_replicate]

theorem orderSlots_length (es : List Entry) : (orderSlots es).length = es.length := by
  unfold orderSlots
  rw [(sorted_perm _ _).length_eq]
  simp [enumerate]

theorem nmLoop_length (pcm : Int) (pol : Policy) (es : List Entry) (t : Bitmap) (rem : Int) (sel : List (Int × Int))
    (r : Int) (hwf : t.WF) (h : nmLoop pcm pol t rem es = .ok (sel, r)) : sel.length ≤ es.length := by
  obtain ⟨_, _, _, h4⟩ := nmLoop_spec pcm pol es t rem sel r hwf h
  have := h4.length_eq
  rw [List.length_take] at this
  omega

/-- `compute_n_m`: the returned pairs are a permutation of what the selection loop chose on the test bitmap -/
theorem computeNM_spec (s : List Oms) (hs : StateWF s) (req : Int) (entries : List Entry) (path : List Nat) (pcm : Int)
    (pol : Policy) (out : List (Int × Int)) (r : Int) (h : computeNM req entries path s pcm pol = .ok (out, r)) :
    ∃ t sel, aggregate path s = .ok t ∧ nmLoop pcm pol t req ((orderSlots entries).map (·.2)) = .ok (sel, r) ∧
      out.Perm sel ∧
      out = restoreOrder (sel.map some ++ List.replicate ((orderSlots entries).length - sel.length) none)
              ((orderSlots entries).map (·.1)) := by
  simp only [computeNM, bind, Except.bind] at h
  cases ha : aggregate path s with
  | error e => rw [ha] at h; cases h
  | ok t =>
    rw [ha] at h
    simp only at h
    cases hl : nmLoop pcm pol t req ((orderSlots entries).map (·.2)) with
    | error e => rw [hl] at h; cases h
    | ok res =>
      rw [hl] at h
      obtain ⟨sel, r'⟩ := res
      simp only [pure, Except.pure, Except.ok.injEq, Prod.mk.injEq] at h
      obtain ⟨h1, h2⟩ := h
      subst h2
      refine ⟨t, sel, rfl, hl, ?_, h1.symm⟩
      rw [← h1]
      obtain ⟨_, hwf, _, _, _⟩ := aggregate_spec s hs path t ha
      have hle := nmLoop_length pcm pol _ t req sel r' hwf hl
      rw [List.length_map] at hle
      have := restoreOrder_perm sel ((orderSlots entries).map (·.1)) (by rw [List.length_map]; exact hle)
      rwa [List.length_map] at this

theorem sumInt_perm (l l' : List Int) (h : l.Perm l') : sumInt l = sumInt l' := by
  induction h with
  | nil => rfl
  | cons x _ ih => simp only [sumInt, List.foldr_cons] at ih ⊢; omega
  | swap x y l => simp only [sumInt, List.foldr_cons]; omega
  | trans _ _ ih1 ih2 => omega

/-- everything that follows from an accepted step -/
theorem step_accepted_spec (pol : Policy) (s s' : List Oms) (r : Request) (out : List (Int × Int)) (hs : StateWF s)
    (hnd : r.pathOms.Nodup) (h : step pol s r = .ok (s', Outcome.accepted out)) :
    ∃ nbWl requiredM pcm t sel,
      slotsVsBandwidth r.pathBandwidth r.spacing r.bitRate = .ok (nbWl, requiredM) ∧
      aggregate r.pathOms s = .ok t ∧
      nmLoop pcm pol t requiredM ((orderSlots r.entries).map (·.2)) = .ok (sel, requiredM - sumInt (sel.map (·.2))) ∧
      out.Perm sel ∧
      out = restoreOrder (sel.map some ++ List.replicate ((orderSlots r.entries).length - sel.length) none)
              ((orderSlots r.entries).map (·.1)) ∧
      requiredM ≤ sumInt (out.map (·.2)) ∧
      applyPath out r.id nbWl r.pathOms s = .ok s' := by
  unfold step at h
  split at h
  · simp only [pure, Except.pure, Except.ok.injEq, Prod.mk.injEq] at h
    cases h.2
  · simp only [bind, Except.bind] at h
    cases h1 : slotsVsBandwidth r.pathBandwidth r.spacing r.bitRate with
    | error e => rw [h1] at h; cases h
    | ok nr =>
      rw [h1] at h
      simp only at h
      cases h2 : slotsVsBandwidth r.bitRate r.spacing r.bitRate with
      | error e => rw [h2] at h; cases h
      | ok pc =>
        rw [h2] at h
        simp only at h
        cases h3 : reservedShort r.entries pc.2 nr.1 with
        | error e => rw [h3] at h; cases h
        | ok blk =>
          rw [h3] at h
          cases blk with
          | true =>
            simp only [if_true, pure, Except.pure, Except.ok.injEq, Prod.mk.injEq] at h
            cases h.2
          | false =>
            simp only [Bool.false_eq_true, if_false] at h
            cases h4 : computeNM nr.2 r.entries r.pathOms s pc.2 pol with
            | error e => rw [h4] at h; cases h
            | ok sr =>
              rw [h4] at h
              simp only at h
              split at h
              · simp only [pure, Except.pure, Except.ok.injEq, Prod.mk.injEq] at h
                cases h.2
              · next hrem =>
                cases h5 : applyPath sr.1 r.id nr.1 r.pathOms s with
                | error e => rw [h5] at h; cases h
                | ok s1 =>
                  rw [h5] at h
                  simp only [pure, Except.pure, Except.ok.injEq, Prod.mk.injEq, Outcome.accepted.injEq] at h
                  obtain ⟨e1, e2⟩ := h
                  subst e1 e2
                  obtain ⟨sel0, remaining⟩ := sr
                  obtain ⟨nbWl, requiredM⟩ := nr
                  obtain ⟨x, pcm⟩ := pc
                  simp only at h4 h5 hrem ⊢
                  obtain ⟨t, sel, a1, a2, a3, a4⟩ := computeNM_spec s hs _ _ _ _ _ _ _ h4
                  obtain ⟨_, hwf, _, _, _⟩ := aggregate_spec s hs _ t a1
                  obtain ⟨b1, _, _, _⟩ := nmLoop_spec pcm pol _ t requiredM sel remaining hwf a2
                  have hsum : sumInt (sel0.map (·.2)) = sumInt (sel.map (·.2)) := sumInt_perm _ _ (a3.map _)
                  refine ⟨nbWl, requiredM, pcm, t, sel, rfl, a1, ?_, a3, a4, ?_, h5⟩
                  · rw [← b1]; exact a2
                  · rw [hsum]; omega

end Gnpy.Slots
