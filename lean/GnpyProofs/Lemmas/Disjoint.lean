import GnpyModel
import GnpyProofs.Lemmas.Route
import Mathlib.Data.List.Chain
/- helper lemmas for C12: OMS chains, short lists, pairwise edges -/
namespace Gnpy.Route

/-- consecutive OMS of a chain share their ROADM -/
def Adjacent (c : List Oms) : Prop := List.IsChain (fun a b => a.dst = b.src) c

/-- the two consecutive pairs an OMS contributes to `pairwise(short_list)` -/
def omsPairs (o : Oms) : List (V × V) := [(o.src, o.first), (o.first, o.dst)]

theorem shortOf_cons (o : Oms) (rest : List Oms) :
    ∃ tl, shortOf (o :: rest) = o.src :: o.first :: tl := by
  cases rest with
  | nil => exact ⟨[o.dst], rfl⟩
  | cons o' r => exact ⟨shortOf (o' :: r), rfl⟩

/-- `pairwise(short_list)` of a path = the pairs of the OMS it crosses -/
theorem pairsOf_shortOf : ∀ c : List Oms, Adjacent c → pairsOf (shortOf c) = c.flatMap omsPairs
  | [], _ => by simp [shortOf, pairsOf]
  | [o], _ => by simp [shortOf, pairsOf, omsPairs]
  | o :: o' :: rest, h => by
    have hadj : o.dst = o'.src := by
      unfold Adjacent at h
      exact (List.isChain_cons_cons.1 h).1
    have htail : Adjacent (o' :: rest) := by
      unfold Adjacent at h ⊢
      exact (List.isChain_cons_cons.1 h).2
    have ih := pairsOf_shortOf (o' :: rest) htail
    obtain ⟨tl, htl⟩ := shortOf_cons o' rest
    have : shortOf (o :: o' :: rest) = o.src :: o.first :: shortOf (o' :: rest) := rfl
    rw [this, htl]
    rw [htl] at ih
    simp only [pairsOf, List.flatMap_cons, omsPairs, List.cons_append, List.nil_append]
    simp only [List.flatMap_cons, omsPairs, List.cons_append, List.nil_append, pairsOf] at ih
    rw [hadj]
    simp [ih]

theorem mem_flatMap_omsPairs (c : List Oms) (e : V × V) :
    e ∈ c.flatMap omsPairs ↔ ∃ o ∈ c, e = (o.src, o.first) ∨ e = (o.first, o.dst) := by
  simp [List.mem_flatMap, omsPairs]

/-- line elements are not ROADMs and the first line element identifies its OMS -/
def Separated (c1 c2 : List Oms) : Prop :=
  ∀ o ∈ c1, ∀ o' ∈ c2, (o.first = o'.first → o = o') ∧ o.first ≠ o'.src ∧ o.first ≠ o'.dst ∧ o'.first ≠ o.src ∧
    o'.first ≠ o.dst

theorem isdisjointPy_eq_zero_iff (a b : List V) :
    isdisjointPy a b = 0 ↔ ∀ e ∈ pairsOf a, e ∉ pairsOf b := by
  unfold isdisjointPy
  split
  next h =>
    simp only [List.any_eq_true, List.contains_iff_mem] at h
    obtain ⟨e, he, he'⟩ := h
    constructor
    · intro h0; simp at h0
    · intro hall; exact absurd he' (hall e he)
  next h =>
    simp only [List.any_eq_true, List.contains_iff_mem, not_exists, not_and] at h
    simp only [true_iff]
    exact h

/-- the code's test on the short lists of two paths is 0 exactly when the paths share no OMS -/
theorem isdisjoint_chain_iff (c1 c2 : List Oms) (h1 : Adjacent c1) (h2 : Adjacent c2) (hs : Separated c1 c2) :
    isdisjointPy (shortOf c1) (shortOf c2) = 0 ↔ ∀ o ∈ c1, o ∉ c2 := by
  rw [isdisjointPy_eq_zero_iff, pairsOf_shortOf c1 h1, pairsOf_shortOf c2 h2]
  constructor
  · intro h o ho ho'
    exact h (o.src, o.first) ((mem_flatMap_omsPairs c1 _).2 ⟨o, ho, Or.inl rfl⟩)
      ((mem_flatMap_omsPairs c2 _).2 ⟨o, ho', Or.inl rfl⟩)
  · intro h e he he'
    obtain ⟨o, ho, hoe⟩ := (mem_flatMap_omsPairs c1 e).1 he
    obtain ⟨o', ho', hoe'⟩ := (mem_flatMap_omsPairs c2 e).1 he'
    obtain ⟨hinj, hn1, hn2, hn3, hn4⟩ := hs o ho o' ho'
    rcases hoe with rfl | rfl <;> rcases hoe' with h' | h' <;> simp only [Prod.mk.injEq] at h'
    · exact h o ho (hinj h'.2 ▸ ho')
    · exact hn3 h'.1.symm
    · exact hn1 h'.1
    · exact h o ho (hinj h'.1 ▸ ho')

/-- the reversed OMS runs between the same ROADMs in the opposite direction -/
def RevOk (rev : Oms → Oms) (c : List Oms) : Prop := ∀ o ∈ c, (rev o).src = o.dst ∧ (rev o).dst = o.src

theorem adjacent_revChain (rev : Oms → Oms) (c : List Oms) (h : Adjacent c) (hr : RevOk rev c) :
    Adjacent (revChain rev c) := by
  unfold Adjacent revChain at *
  rw [List.isChain_reverse, List.isChain_map]
  refine List.IsChain.imp_of_mem_imp ?_ h
  intro a b ha hb hab
  rw [(hr a ha).1, (hr b hb).2, hab]

theorem mem_revChain (rev : Oms → Oms) (c : List Oms) (x : Oms) : x ∈ revChain rev c ↔ ∃ o ∈ c, rev o = x := by
  simp [revChain]

theorem sitesOf_append_singleton (l : List Oms) (x : Oms) (hl : l ≠ []) :
    sitesOf (l ++ [x]) = sitesOf l ++ [x.dst] := by
  cases l with
  | nil => exact absurd rfl hl
  | cons a t => simp [sitesOf]

theorem revChain_cons (rev : Oms → Oms) (o : Oms) (c : List Oms) :
    revChain rev (o :: c) = revChain rev c ++ [rev o] := by
  simp [revChain]

theorem revChain_ne_nil (rev : Oms → Oms) (c : List Oms) (h : c ≠ []) : revChain rev c ≠ [] := by
  cases c with
  | nil => exact absurd rfl h
  | cons a t => simp [revChain]

/-! ### links as ROADM pairs -/

theorem linkDisjointB_iff (isRoadm : V → Bool) (p q : List V) :
    linkDisjointB isRoadm p q = true ↔ LinkDisjoint isRoadm p q := by
  unfold linkDisjointB LinkDisjoint
  simp [List.all_eq_true]

theorem allDisjointB_iff (isRoadm : V → Bool) : ∀ ps : List (List V),
    allDisjointB isRoadm ps = true ↔ ps.Pairwise (LinkDisjoint isRoadm)
  | [] => by simp [allDisjointB]
  | p :: rest => by
    have ih := allDisjointB_iff isRoadm rest
    simp only [allDisjointB, Bool.and_eq_true, List.all_eq_true, linkDisjointB_iff, ih, List.pairwise_cons]

end Gnpy.Route
