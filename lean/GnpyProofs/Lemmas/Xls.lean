import GnpyModel.Xls
import Mathlib.Data.List.Nodup
import Mathlib.Data.List.Pairwise
/- helper lemmas for the workbook converter (C20) -/
namespace Gnpy.Xls

theorem bind_ok {ε α β : Type} (m : Except ε α) (f : α → Except ε β) (r : β) :
    (m >>= f) = .ok r ↔ ∃ x, m = .ok x ∧ f x = .ok r := by
  cases m with
  | error e => simp [bind, Except.bind]
  | ok x => simp [bind, Except.bind]

theorem pure_ok {ε α : Type} (x r : α) : (pure x : Except ε α) = .ok r ↔ x = r := by
  simp [pure, Except.pure]

theorem bind_error {ε α β : Type} (m : Except ε α) (f : α → Except ε β) (e : ε) (h : m = .error e) :
    (m >>= f) = .error e := by
  subst h; rfl

theorem mapM_ok_mem {ε α β : Type} (f : α → Except ε β) :
    ∀ (l : List α) (r : List β), l.mapM f = .ok r → ∀ x ∈ l, ∃ y ∈ r, f x = .ok y
  | [], r, h, x, hx => by cases hx
  | a :: as, r, h, x, hx => by
    rw [List.mapM_cons] at h
    simp only [bind_ok, pure_ok] at h
    obtain ⟨y, hy, ys, hys, rfl⟩ := h
    rcases List.mem_cons.1 hx with rfl | hx'
    · exact ⟨y, List.mem_cons_self, hy⟩
    · obtain ⟨y', hy', hf⟩ := mapM_ok_mem f as ys hys x hx'
      exact ⟨y', List.mem_cons_of_mem _ hy', hf⟩

theorem mapM_ok_mem_rev {ε α β : Type} (f : α → Except ε β) :
    ∀ (l : List α) (r : List β), l.mapM f = .ok r → ∀ y ∈ r, ∃ x ∈ l, f x = .ok y
  | [], r, h, y, hy => by
    simp [List.mapM_nil, pure, Except.pure] at h
    subst h; cases hy
  | a :: as, r, h, y, hy => by
    rw [List.mapM_cons] at h
    simp only [bind_ok, pure_ok] at h
    obtain ⟨y0, hy0, ys, hys, rfl⟩ := h
    rcases List.mem_cons.1 hy with rfl | hy'
    · exact ⟨a, List.mem_cons_self, hy0⟩
    · obtain ⟨x, hx, hf⟩ := mapM_ok_mem_rev f as ys hys y hy'
      exact ⟨x, List.mem_cons_of_mem _ hx, hf⟩

theorem fiberElem_name (src dst : String) (s : LinkSide) (na nb : Node) (e : Elem)
    (h : fiberElem src dst s na nb = .ok e) : e.name = .fiber src dst s.cable := by
  simp only [fiberElem, bind_ok, pure_ok] at h
  obtain ⟨_, _, rfl⟩ := h
  rfl

theorem roadmElem_name (n : Node) (rows : List RoadmRow) (e : Elem)
    (h : roadmElem n rows = .ok e) : e.name = .roadm n.city := by
  simp only [roadmElem, bind_ok, pure_ok] at h
  obtain ⟨_, _, rfl⟩ := h
  rfl

theorem fiberLink_mem (links : List Link) (src dst : String) (nm : Name)
    (h : fiberLink links src dst = .ok nm) :
    ∃ l ∈ links, nm = .fiber l.a l.z l.east.cable ∨ nm = .fiber l.z l.a l.west.cable := by
  unfold fiberLink at h
  split at h
  · simp at h
  · rename_i l hl
    have hmem : l ∈ links := by
      have := List.mem_of_find?_eq_some hl
      exact (List.mem_filter.1 this).1
    refine ⟨l, hmem, ?_⟩
    split at h
    · left; simp only [pure_ok] at h; exact h.symm
    · right; simp only [pure_ok] at h; exact h.symm

/-- names of the results of a successful `mapM` -/
theorem mapM_ok_map {ε α β γ : Type} (f : α → Except ε β) (g : β → γ) (h : α → γ)
    (hfg : ∀ x y, f x = .ok y → g y = h x) :
    ∀ (l : List α) (r : List β), l.mapM f = .ok r → r.map g = l.map h
  | [], r, hm => by
    simp [List.mapM_nil, pure, Except.pure] at hm
    subst hm; rfl
  | a :: as, r, hm => by
    rw [List.mapM_cons] at hm
    simp only [bind_ok, pure_ok] at hm
    obtain ⟨y, hy, ys, hys, rfl⟩ := hm
    simp [hfg a y hy, mapM_ok_map f g h hfg as ys hys]

end Gnpy.Xls
