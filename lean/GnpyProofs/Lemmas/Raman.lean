import GnpyModel
import GnpyProofs.Lemmas.Fiber
import Mathlib.Analysis.SpecialFunctions.Log.Deriv
/-
Helper lemmas for the Raman sentence of C05 (model: namespace Gnpy.Raman in GnpyModel/Fiber.lean), over ℝ.
-/
namespace Gnpy.Raman

/-- a matrix / vector whose entries are all zero -/
def VZero (v : List ℝ) : Prop := ∀ x ∈ v, x = 0
def MZero (m : List (List ℝ)) : Prop := ∀ r ∈ m, VZero r

theorem dot_zero_left : ∀ (r p : List ℝ), VZero r → dot r p = 0 := by
  intro r
  induction r with
  | nil => intro p _; cases p <;> simp [dot]
  | cons x xs ih =>
    intro p h
    cases p with
    | nil => simp [dot]
    | cons y ys =>
      have hx : x = 0 := h x (by simp)
      simp only [dot, hx, zero_mul, zero_add]
      exact ih ys (fun z hz => h z (by simp [hz]))

/-! ### explicit Euler with zero Raman efficiency -/

/-- the plain attenuation step on every frequency -/
def plainStep (dz l : ℝ) : List ℝ → List ℝ → List ℝ
  | pa :: ps, a :: as => pa * (1 - a * dz) * l :: plainStep dz l ps as
  | _, _ => []

theorem eulerStepGo_zero (pAll : List ℝ) (dz l : ℝ) : ∀ (ps as : List ℝ) (rows : List (List ℝ)),
    MZero rows → rows.length = ps.length → eulerStepGo pAll dz l ps as rows = plainStep dz l ps as := by
  intro ps
  induction ps with
  | nil => intro as rows _ _; simp [eulerStepGo, plainStep]
  | cons pa ps ih =>
    intro as rows hz hl
    cases as with
    | nil => simp [eulerStepGo, plainStep]
    | cons a as =>
      cases rows with
      | nil => simp at hl
      | cons row rows =>
        simp only [eulerStepGo, plainStep, Nat.cast_one]
        rw [dot_zero_left row pAll (hz row (by simp)),
          ih as rows (fun r hr => hz r (by simp [hr])) (by simpa using hl)]
        congr 1; ring

theorem plainStep_length (dz l : ℝ) : ∀ (ps as : List ℝ), ps.length = as.length →
    (plainStep dz l ps as).length = ps.length := by
  intro ps
  induction ps with
  | nil => intro as _; simp [plainStep]
  | cons pa ps ih =>
    intro as h
    cases as with
    | nil => simp at h
    | cons a as => simp [plainStep, ih as (by simpa using h)]

/-- per-frequency factor of the Euler scheme without Raman: `Π (1 − α Δz_k) · lumped_k` -/
def eulerFactor (a : ℝ) : List (ℝ × ℝ) → ℝ
  | g0 :: g1 :: rest => (1 - a * (g1.1 - g0.1)) * g0.2 * eulerFactor a (g1 :: rest)
  | _ => 1

/-- `p_a · F(a)` on every frequency -/
def scaleBy (F : ℝ → ℝ) : List ℝ → List ℝ → List ℝ
  | pa :: ps, a :: as => pa * F a :: scaleBy F ps as
  | _, _ => []

theorem scaleBy_plainStep (F : ℝ → ℝ) (dz l : ℝ) : ∀ (ps as : List ℝ),
    scaleBy F (plainStep dz l ps as) as = scaleBy (fun a => (1 - a * dz) * l * F a) ps as := by
  intro ps
  induction ps with
  | nil => intro as; simp [plainStep, scaleBy]
  | cons pa ps ih =>
    intro as
    cases as with
    | nil => simp [plainStep, scaleBy]
    | cons a as => simp only [plainStep, scaleBy, ih as]; congr 1; ring

theorem scaleBy_one : ∀ (ps as : List ℝ), ps.length = as.length → scaleBy (fun _ => 1) ps as = ps := by
  intro ps
  induction ps with
  | nil => intro as _; simp [scaleBy]
  | cons pa ps ih =>
    intro as h
    cases as with
    | nil => simp at h
    | cons a as => simp [scaleBy, ih as (by simpa using h)]

/-! ### bounds of one Euler step -/

/-- `exp(−x − 2x²) ≤ 1 − x ≤ exp(−x)` for `0 ≤ x ≤ 1/2` -/
theorem one_sub_bounds (x : ℝ) (_h0 : 0 ≤ x) (h1 : x ≤ 1 / 2) :
    Real.exp (-x - 2 * x ^ 2) ≤ 1 - x ∧ 1 - x ≤ Real.exp (-x) := by
  constructor
  · have hpos : 0 < 1 - x := by linarith
    rw [← Real.exp_log hpos]
    apply Real.exp_le_exp.2
    have h := Real.one_sub_inv_le_log_of_pos hpos
    have h2 : -x - 2 * x ^ 2 ≤ 1 - (1 - x)⁻¹ := by
      rw [show (1:ℝ) - (1 - x)⁻¹ = -x / (1 - x) by field_simp; ring]
      rw [le_div_iff₀ hpos]
      nlinarith [sq_nonneg x, mul_nonneg _h0 (sq_nonneg x)]
    linarith
  · have := Real.add_one_le_exp (-x)
    linarith

/-! ### vectors -/

theorem vadd_nonneg : ∀ (u v : List ℝ), (∀ x ∈ u, 0 ≤ x) → (∀ x ∈ v, 0 ≤ x) → ∀ x ∈ vadd u v, 0 ≤ x := by
  intro u
  induction u with
  | nil => intro v _ _ x hx; cases v <;> simp [vadd] at hx
  | cons a u ih =>
    intro v hu hv x hx
    cases v with
    | nil => simp [vadd] at hx
    | cons b v =>
      simp only [vadd, List.mem_cons] at hx
      rcases hx with rfl | hx
      · exact add_nonneg (hu _ (by simp)) (hv _ (by simp))
      · exact ih v (fun y hy => hu y (by simp [hy])) (fun y hy => hv y (by simp [hy])) x hx

theorem zeros_nonneg (n : Nat) : ∀ x ∈ (zeros n : List ℝ), 0 ≤ x := by
  intro x hx
  simp only [zeros, List.mem_replicate, Nat.cast_zero] at hx
  rw [hx.2]

theorem rowTimes_nonneg (T : Nat) : ∀ (row : List ℝ) (m : List (List ℝ)), (∀ c ∈ row, 0 ≤ c) →
    (∀ r ∈ m, ∀ x ∈ r, 0 ≤ x) → ∀ x ∈ rowTimes T row m, 0 ≤ x := by
  intro row
  induction row with
  | nil => intro m _ _ x hx; cases m <;> exact zeros_nonneg T x (by simpa [rowTimes] using hx)
  | cons c cs ih =>
    intro m hr hm x hx
    cases m with
    | nil => exact zeros_nonneg T x (by simpa [rowTimes] using hx)
    | cons mb ms =>
      simp only [rowTimes] at hx
      apply vadd_nonneg _ _ _ _ x hx
      · intro y hy
        simp only [vscale, List.mem_map] at hy
        obtain ⟨w, hw, rfl⟩ := hy
        exact mul_nonneg (hr c (by simp)) (hm mb (by simp) w hw)
      · exact ih ms (fun y hy => hr y (by simp [hy])) (fun r hr' => hm r (by simp [hr']))

theorem vmul_nonneg : ∀ (u v : List ℝ), (∀ x ∈ u, 0 ≤ x) → (∀ x ∈ v, 0 ≤ x) → ∀ x ∈ vmul u v, 0 ≤ x := by
  intro u
  induction u with
  | nil => intro v _ _ x hx; cases v <;> simp [vmul] at hx
  | cons a u ih =>
    intro v hu hv x hx
    cases v with
    | nil => simp [vmul] at hx
    | cons b v =>
      simp only [vmul, List.mem_cons] at hx
      rcases hx with rfl | hx
      · exact mul_nonneg (hu _ (by simp)) (hv _ (by simp))
      · exact ih v (fun y hy => hu y (by simp [hy])) (fun y hy => hv y (by simp [hy])) x hx

/-- entries of `eff_length` are non-negative for positive loss coefficients and non-negative positions -/
theorem effLenM_nonneg (alpha zs : List ℝ) (ha : ∀ a ∈ alpha, 0 < a) (hz : ∀ z ∈ zs, 0 ≤ z) :
    ∀ r ∈ effLenM alpha zs, ∀ x ∈ r, 0 ≤ x := by
  intro r hr x hx
  simp only [effLenM, expzM, alphazM, List.mem_map] at hr
  obtain ⟨⟨a, e⟩, hae, rfl⟩ := hr
  have hmem := List.of_mem_zip hae
  have ha0 : 0 < a := ha a hmem.1
  simp only [List.mem_map] at hx
  obtain ⟨ex, hex, rfl⟩ := hx
  -- `ex` is an entry of the expz row of some coefficient `a'`
  have hle : ex ≤ 1 ∧ 0 ≤ ex := by
    have := hmem.2
    simp only [List.map_map, List.mem_map, Function.comp] at this
    obtain ⟨a', ha', rfl⟩ := this
    simp only [List.mem_map, Function.comp] at hex
    obtain ⟨z, hz', rfl⟩ := hex
    simp only [transc_exp]
    have h1 : 0 ≤ a' * z := mul_nonneg (le_of_lt (ha a' ha')) (hz z hz')
    exact ⟨by rw [Real.exp_le_one_iff]; linarith, le_of_lt (Real.exp_pos _)⟩
  simp only [Nat.cast_one]
  exact mul_nonneg (by positivity) (by linarith [hle.1])

/-! ### linearity of the first-order term in the launch powers -/

theorem vmul_vscale (t : ℝ) : ∀ (row p : List ℝ), vmul row (vscale t p) = vscale t (vmul row p) := by
  intro row
  induction row with
  | nil => intro p; cases p <;> simp [vmul, vscale]
  | cons r rs ih =>
    intro p
    cases p with
    | nil => simp [vmul, vscale]
    | cons x xs =>
      have := ih xs
      simp only [vscale] at this ⊢
      simp only [List.map_cons, vmul, this]
      congr 1; ring

theorem vadd_vscale (t : ℝ) : ∀ (u v : List ℝ), vadd (vscale t u) (vscale t v) = vscale t (vadd u v) := by
  intro u
  induction u with
  | nil => intro v; cases v <;> simp [vadd, vscale]
  | cons a u ih =>
    intro v
    cases v with
    | nil => simp [vadd, vscale]
    | cons b v =>
      have := ih v
      simp only [vscale] at this ⊢
      simp only [List.map_cons, vadd, this]
      congr 1; ring

theorem vscale_zeros (t : ℝ) (n : Nat) : vscale t (zeros n : List ℝ) = zeros n := by
  simp [vscale, zeros]

theorem vscale_vscale (t c : ℝ) (v : List ℝ) : vscale (t * c) v = vscale t (vscale c v) := by
  simp [vscale, mul_assoc]

theorem rowTimes_vscale (T : Nat) (t : ℝ) : ∀ (row : List ℝ) (m : List (List ℝ)),
    rowTimes T (vscale t row) m = vscale t (rowTimes T row m) := by
  intro row
  induction row with
  | nil => intro m; cases m <;> simp [rowTimes, vscale, zeros]
  | cons c cs ih =>
    intro m
    cases m with
    | nil => simp [rowTimes, vscale, zeros]
    | cons mb ms =>
      show rowTimes T (t * c :: vscale t cs) (mb :: ms) = _
      simp only [rowTimes]
      rw [ih ms, vscale_vscale, vadd_vscale]

/-- `γ₁(t · p₀) = t · γ₁(p₀)` -/
theorem gamma1_scale (alpha : List ℝ) (cr : List (List ℝ)) (p0 zs : List ℝ) (t : ℝ) :
    gamma1 alpha cr (vscale t p0) zs = (gamma1 alpha cr p0 zs).map (vscale t) := by
  simp only [gamma1, crTimes, crpM, List.map_map]
  apply List.map_congr_left
  intro row _
  simp only [Function.comp, vmul_vscale, rowTimes_vscale]

/-! ### lengths (needed because `vadd` truncates to the shorter operand) -/

theorem vadd_length : ∀ (u v : List ℝ), u.length = v.length → (vadd u v).length = u.length := by
  intro u
  induction u with
  | nil => intro v _; cases v <;> simp [vadd]
  | cons a u ih =>
    intro v h
    cases v with
    | nil => simp at h
    | cons b v => simp [vadd, ih v (by simpa using h)]

theorem rowTimes_length (T : Nat) : ∀ (row : List ℝ) (m : List (List ℝ)), (∀ r ∈ m, r.length = T) →
    (rowTimes T row m).length = T := by
  intro row
  induction row with
  | nil => intro m _; cases m <;> simp [rowTimes, zeros]
  | cons c cs ih =>
    intro m hm
    cases m with
    | nil => simp [rowTimes, zeros]
    | cons mb ms =>
      simp only [rowTimes]
      have h1 : (vscale c mb).length = T := by simp [vscale, hm mb (by simp)]
      have h2 := ih ms (fun r hr => hm r (by simp [hr]))
      rw [vadd_length _ _ (by rw [h1, h2]), h1]

theorem vadd_vzero_right : ∀ (u v : List ℝ), u.length = v.length → VZero v → vadd u v = u := by
  intro u
  induction u with
  | nil => intro v _ _; cases v <;> simp [vadd]
  | cons a u ih =>
    intro v h hz
    cases v with
    | nil => simp at h
    | cons b v =>
      have hb : b = 0 := hz b (by simp)
      simp only [vadd, hb, add_zero]
      rw [ih v (by simpa using h) (fun y hy => hz y (by simp [hy]))]

theorem vzero_vadd : ∀ (u v : List ℝ), VZero u → VZero v → VZero (vadd u v) := by
  intro u
  induction u with
  | nil => intro v _ _ x hx; cases v <;> simp [vadd] at hx
  | cons a u ih =>
    intro v hu hv x hx
    cases v with
    | nil => simp [vadd] at hx
    | cons b v =>
      simp only [vadd, List.mem_cons] at hx
      rcases hx with rfl | hx
      · rw [hu a (by simp), hv b (by simp)]; ring
      · exact ih v (fun y hy => hu y (by simp [hy])) (fun y hy => hv y (by simp [hy])) x hx

theorem vzero_zeros (n : Nat) : VZero (zeros n : List ℝ) := by
  intro x hx
  simp only [zeros, List.mem_replicate, Nat.cast_zero] at hx
  exact hx.2

theorem vzero_vscale_of_zero (c : ℝ) (v : List ℝ) (hc : c = 0) : VZero (vscale c v) := by
  intro x hx
  simp only [vscale, List.mem_map] at hx
  obtain ⟨w, _, rfl⟩ := hx
  rw [hc]; ring

theorem vzero_vmul_left : ∀ (u v : List ℝ), VZero u → VZero (vmul u v) := by
  intro u
  induction u with
  | nil => intro v _ x hx; cases v <;> simp [vmul] at hx
  | cons a u ih =>
    intro v hu x hx
    cases v with
    | nil => simp [vmul] at hx
    | cons b v =>
      simp only [vmul, List.mem_cons] at hx
      rcases hx with rfl | hx
      · rw [hu a (by simp)]; ring
      · exact ih v (fun y hy => hu y (by simp [hy])) x hx

theorem vzero_vmul_right : ∀ (u v : List ℝ), VZero v → VZero (vmul u v) := by
  intro u
  induction u with
  | nil => intro v _ x hx; cases v <;> simp [vmul] at hx
  | cons a u ih =>
    intro v hv x hx
    cases v with
    | nil => simp [vmul] at hx
    | cons b v =>
      simp only [vmul, List.mem_cons] at hx
      rcases hx with rfl | hx
      · rw [hv b (by simp)]; ring
      · exact ih v (fun y hy => hv y (by simp [hy])) x hx

/-- a zero row of `crp` gives a zero row of the Raman term, whatever it multiplies -/
theorem vzero_rowTimes (T : Nat) : ∀ (row : List ℝ) (m : List (List ℝ)), VZero row → VZero (rowTimes T row m) := by
  intro row
  induction row with
  | nil => intro m _; cases m <;> exact vzero_zeros T
  | cons c cs ih =>
    intro m h
    cases m with
    | nil => exact vzero_zeros T
    | cons mb ms =>
      simp only [rowTimes]
      exact vzero_vadd _ _ (vzero_vscale_of_zero c mb (h c (by simp))) (ih ms (fun y hy => h y (by simp [hy])))

/-! ### rectangular matrices, zero Raman terms -/

/-- every row has length `T` -/
def Rect (T : Nat) (m : List (List ℝ)) : Prop := ∀ r ∈ m, r.length = T
/-- every row has length `T` and only zero entries -/
def ZeroRect (T : Nat) (m : List (List ℝ)) : Prop := ∀ r ∈ m, r.length = T ∧ VZero r

theorem ZeroRect.rect {T : Nat} {m : List (List ℝ)} (h : ZeroRect T m) : Rect T m := fun r hr => (h r hr).1

theorem rect_alphazM (alpha zs : List ℝ) : Rect zs.length (alphazM alpha zs) := by
  intro r hr
  simp only [alphazM, List.mem_map] at hr
  obtain ⟨a, _, rfl⟩ := hr
  simp

theorem rect_expo0 (alpha zs : List ℝ) : Rect zs.length (expo0 alpha zs) := by
  intro r hr
  simp only [expo0, List.mem_map] at hr
  obtain ⟨q, hq, rfl⟩ := hr
  simp [rect_alphazM alpha zs q hq]

theorem rect_expzM (alpha zs : List ℝ) : Rect zs.length (expzM alpha zs) := by
  intro r hr
  simp only [expzM, List.mem_map] at hr
  obtain ⟨q, hq, rfl⟩ := hr
  simp [rect_alphazM alpha zs q hq]

theorem rect_effLenM (alpha zs : List ℝ) : Rect zs.length (effLenM alpha zs) := by
  intro r hr
  simp only [effLenM, List.mem_map] at hr
  obtain ⟨⟨a, e⟩, hae, rfl⟩ := hr
  simp [rect_expzM alpha zs e (List.of_mem_zip hae).2]

theorem rect_crTimes (T : Nat) (crp m : List (List ℝ)) (hm : Rect T m) : Rect T (crTimes T crp m) := by
  intro r hr
  simp only [crTimes, List.mem_map] at hr
  obtain ⟨row, _, rfl⟩ := hr
  exact rowTimes_length T row m hm

theorem zeroRect_crTimes (T : Nat) (crp m : List (List ℝ)) (hz : MZero crp) (hm : Rect T m) :
    ZeroRect T (crTimes T crp m) := by
  intro r hr
  simp only [crTimes, List.mem_map] at hr
  obtain ⟨row, hrow, rfl⟩ := hr
  exact ⟨rowTimes_length T row m hm, vzero_rowTimes T row m (hz row hrow)⟩

theorem mzero_crpM (cr : List (List ℝ)) (p0 : List ℝ) (hz : MZero cr) : MZero (crpM cr p0) := by
  intro r hr
  simp only [crpM, List.mem_map] at hr
  obtain ⟨row, hrow, rfl⟩ := hr
  exact vzero_vmul_left row p0 (hz row hrow)

theorem madd_zeroRect (T : Nat) : ∀ (x g : List (List ℝ)), x.length = g.length → Rect T x → ZeroRect T g →
    madd x g = x := by
  intro x
  induction x with
  | nil => intro g _ _ _; simp [madd]
  | cons r x ih =>
    intro g hl hx hg
    cases g with
    | nil => simp at hl
    | cons s g =>
      simp only [madd, List.zip_cons_cons, List.map_cons]
      have hs := hg s (by simp)
      rw [vadd_vzero_right r s (by rw [hx r (by simp), hs.1]) hs.2]
      congr 1
      exact ih g (by simpa using hl) (fun q hq => hx q (by simp [hq])) (fun q hq => hg q (by simp [hq]))

theorem vmul_length : ∀ (u v : List ℝ), u.length = v.length → (vmul u v).length = u.length := by
  intro u
  induction u with
  | nil => intro v _; cases v <;> simp [vmul]
  | cons a u ih =>
    intro v h
    cases v with
    | nil => simp at h
    | cons b v => simp [vmul, ih v (by simpa using h)]

theorem vscale_length (c : ℝ) (v : List ℝ) : (vscale c v).length = v.length := by simp [vscale]

theorem trapGo_length (acc : ℝ) : ∀ (ys zs : List ℝ), ys.length = zs.length →
    (trapGo acc ys zs).length = zs.length - 1 := by
  intro ys
  induction ys generalizing acc with
  | nil => intro zs h; cases zs <;> simp_all [trapGo]
  | cons y0 ys ih =>
    intro zs h
    cases zs with
    | nil => simp at h
    | cons z0 zs =>
      cases ys with
      | nil =>
        cases zs with
        | nil => simp [trapGo]
        | cons z1 zs => simp at h
      | cons y1 ys =>
        cases zs with
        | nil => simp at h
        | cons z1 zs =>
          simp only [trapGo, List.length_cons]
          rw [ih _ (z1 :: zs) (by simpa using h)]
          simp

theorem trapCum_length (ys zs : List ℝ) (h : ys.length = zs.length) (hz : zs ≠ []) :
    (trapCum ys zs).length = zs.length := by
  have h1 := trapGo_length (((0:Nat):ℝ)) ys zs h
  have : 0 < zs.length := List.length_pos_iff.2 hz
  simp only [trapCum, List.length_cons, h1]
  omega

/-! ### size of the first-order term -/

/-- `Σ_b |c_b| · B_b` -/
def rowBound : List ℝ → List ℝ → ℝ
  | c :: cs, b :: bs => |c| * b + rowBound cs bs
  | _, _ => 0

theorem vadd_abs_le (bu bv : ℝ) : ∀ (u v : List ℝ), (∀ x ∈ u, |x| ≤ bu) → (∀ x ∈ v, |x| ≤ bv) →
    ∀ x ∈ vadd u v, |x| ≤ bu + bv := by
  intro u
  induction u with
  | nil => intro v _ _ x hx; cases v <;> simp [vadd] at hx
  | cons a u ih =>
    intro v hu hv x hx
    cases v with
    | nil => simp [vadd] at hx
    | cons b v =>
      simp only [vadd, List.mem_cons] at hx
      rcases hx with rfl | hx
      · exact le_trans (abs_add_le a b) (add_le_add (hu a (by simp)) (hv b (by simp)))
      · exact ih v (fun y hy => hu y (by simp [hy])) (fun y hy => hv y (by simp [hy])) x hx

theorem rowBound_nonneg : ∀ (row bs : List ℝ), (∀ b ∈ bs, 0 ≤ b) → 0 ≤ rowBound row bs := by
  intro row
  induction row with
  | nil => intro bs _; simp [rowBound]
  | cons c cs ih =>
    intro bs h
    cases bs with
    | nil => simp [rowBound]
    | cons b bs =>
      simp only [rowBound]
      exact add_nonneg (mul_nonneg (abs_nonneg c) (h b (by simp))) (ih bs (fun y hy => h y (by simp [hy])))

theorem rowTimes_abs_le (T : Nat) : ∀ (row : List ℝ) (m : List (List ℝ)) (bs : List ℝ),
    List.Forall₂ (fun mb b => 0 ≤ b ∧ ∀ x ∈ mb, |x| ≤ b) m bs →
    ∀ x ∈ rowTimes T row m, |x| ≤ rowBound row bs := by
  intro row
  induction row with
  | nil =>
    intro m bs _ x hx
    have : x = 0 := by cases m <;> exact vzero_zeros T x (by simpa [rowTimes] using hx)
    simp [this, rowBound]
  | cons c cs ih =>
    intro m bs h x hx
    cases h with
    | nil =>
      have : x = 0 := vzero_zeros T x (by simpa [rowTimes] using hx)
      simp [this, rowBound]
    | cons hb hrest =>
      simp only [rowTimes] at hx
      simp only [rowBound]
      apply vadd_abs_le _ _ _ _ _ _ x hx
      · intro y hy
        simp only [vscale, List.mem_map] at hy
        obtain ⟨w, hw, rfl⟩ := hy
        rw [abs_mul]
        exact mul_le_mul_of_nonneg_left (hb.2 w hw) (abs_nonneg c)
      · exact ih _ _ hrest

theorem effLenM_cons (a : ℝ) (as zs : List ℝ) :
    effLenM (a :: as) zs = zs.map (fun z => 1 / a * (1 - Real.exp (-(a * z)))) :: effLenM as zs := by
  simp [effLenM, expzM, alphazM, List.map_map, Function.comp_def]

/-- every entry of the row of `eff_length` belonging to `α_b` lies in `[0, 1/α_b]` -/
theorem effLenM_bounds : ∀ (alpha zs : List ℝ), (∀ a ∈ alpha, 0 < a) → (∀ z ∈ zs, 0 ≤ z) →
    List.Forall₂ (fun mb b => 0 ≤ b ∧ ∀ x ∈ mb, |x| ≤ b) (effLenM alpha zs) (alpha.map (fun a => 1 / a)) := by
  intro alpha
  induction alpha with
  | nil => intro zs _ _; simp [effLenM, expzM, alphazM]
  | cons a as ih =>
    intro zs ha hz
    rw [effLenM_cons, List.map_cons]
    have ha0 : 0 < a := ha a (by simp)
    refine List.Forall₂.cons ⟨by positivity, ?_⟩ (ih zs (fun y hy => ha y (by simp [hy])) hz)
    intro x hx
    simp only [List.mem_map] at hx
    obtain ⟨z, hz', rfl⟩ := hx
    have h1 : 0 ≤ a * z := mul_nonneg (le_of_lt ha0) (hz z hz')
    have h2 : Real.exp (-(a * z)) ≤ 1 := by rw [Real.exp_le_one_iff]; linarith
    have h3 : 0 < Real.exp (-(a * z)) := Real.exp_pos _
    rw [abs_of_nonneg (mul_nonneg (by positivity) (by linarith))]
    calc 1 / a * (1 - Real.exp (-(a * z))) ≤ 1 / a * 1 :=
          mul_le_mul_of_nonneg_left (by linarith) (by positivity)
      _ = 1 / a := by ring

/-! ### the perturbative loop over the intervals between lumped losses -/

theorem lastD_cons_ne (d e x : ℝ) (t : List ℝ) : lastD d (x :: t) = lastD e (x :: t) := by
  induction t generalizing x with
  | nil => simp [lastD]
  | cons y t ih => simp only [lastD]; exact ih y

theorem lastD_cons (d x : ℝ) (t : List ℝ) : lastD d (x :: t) = lastD x t := by
  cases t with
  | nil => simp [lastD]
  | cons y t => simp only [lastD]; exact lastD_cons_ne d x y t

theorem lastD_append_cons (d h : ℝ) : ∀ (pre t : List ℝ), lastD d (pre ++ h :: t) = lastD h t := by
  intro pre
  induction pre generalizing d with
  | nil => intro t; exact lastD_cons d h t
  | cons x pre ih => intro t; rw [List.cons_append, lastD_cons, ih]

theorem lastD_map_ne (f : ℝ → ℝ) (d e : ℝ) : ∀ (l : List ℝ), l ≠ [] → lastD d (l.map f) = f (lastD e l) := by
  intro l
  induction l generalizing d e with
  | nil => intro h; exact absurd rfl h
  | cons x t ih =>
    intro _
    cases t with
    | nil => simp [lastD]
    | cons y t => simp only [List.map_cons, lastD]; exact ih d e (by simp)

theorem scaleBy_length (F : ℝ → ℝ) : ∀ (ps as : List ℝ), ps.length = as.length → (scaleBy F ps as).length = as.length := by
  intro ps
  induction ps with
  | nil => intro as h; cases as <;> simp_all [scaleBy]
  | cons p ps ih =>
    intro as h
    cases as with
    | nil => simp at h
    | cons a as => simp [scaleBy, ih as (by simpa using h)]

theorem scaleBy_scaleBy (F G : ℝ → ℝ) : ∀ (ps as : List ℝ),
    scaleBy F (scaleBy G ps as) as = scaleBy (fun a => G a * F a) ps as := by
  intro ps
  induction ps with
  | nil => intro as; simp [scaleBy]
  | cons p ps ih =>
    intro as
    cases as with
    | nil => simp [scaleBy]
    | cons a as => simp only [scaleBy, ih as]; congr 1; ring

theorem scaleBy_congr (F G : ℝ → ℝ) (h : ∀ a, F a = G a) (ps as : List ℝ) : scaleBy F ps as = scaleBy G ps as := by
  have : F = G := funext h
  rw [this]

/-- the powers handed to the next interval when the exponent is the plain `−α z` -/
theorem pinNext_zero (ll : ℝ) (zs : List ℝ) (hzs : zs ≠ []) : ∀ (alpha pin : List ℝ), pin.length = alpha.length →
    ((((expo0 alpha zs).zip (pin.map (fun x => x * ll))).map
        (fun x => x.1.map (fun e => x.2 * Transc.exp e))).zip pin).map (fun x => lastD x.2 x.1)
      = scaleBy (fun a => ll * Real.exp (-(a * lastD 0 zs))) pin alpha := by
  intro alpha
  induction alpha with
  | nil => intro pin h; cases pin <;> simp_all [expo0, alphazM, scaleBy]
  | cons a as ih =>
    intro pin h
    cases pin with
    | nil => simp at h
    | cons p ps =>
      have ih' := ih ps (by simpa using h)
      simp only [expo0, alphazM, List.map_cons, List.zip_cons_cons, scaleBy] at ih' ⊢
      rw [ih']
      congr 1
      rw [List.map_map, List.map_map]
      rw [lastD_map_ne _ p 0 zs hzs]
      simp only [Function.comp, transc_exp]
      ring

/-- the walk to the next lumped loss: either there is none (all remaining factors are 1), or the list splits at the
first factor ≠ 1 -/
theorem splitGo_spec : ∀ (l : List (ℝ × ℝ)),
    ((∀ h ∈ l, h.2 = 1) ∧ splitGo l = (l, [])) ∨
    (∃ pre h t, l = pre ++ h :: t ∧ (∀ x ∈ pre, x.2 = 1) ∧ h.2 ≠ 1 ∧ splitGo l = (pre ++ [h], h :: t)) := by
  intro l
  induction l with
  | nil => left; simp [splitGo]
  | cons h t ih =>
    by_cases hne : h.2 < 1 ∨ 1 < h.2
    · right
      refine ⟨[], h, t, by simp, by simp, ?_, ?_⟩
      · rcases hne with h1 | h1
        · exact ne_of_lt h1
        · exact ne_of_gt h1
      · simp [splitGo, hne]
    · have h1 : h.2 = 1 := by
        rw [not_or, not_lt, not_lt] at hne
        exact le_antisymm hne.2 hne.1
      rcases ih with ⟨hall, hs⟩ | ⟨pre, k, t', hl, hpre, hk, hs⟩
      · left
        refine ⟨?_, ?_⟩
        · intro x hx
          rw [List.mem_cons] at hx
          rcases hx with rfl | hx
          · exact h1
          · exact hall x hx
        · simp [splitGo, hne, hs]
      · right
        refine ⟨h :: pre, k, t', by simp [hl], ?_, hk, ?_⟩
        · intro x hx
          rw [List.mem_cons] at hx
          rcases hx with rfl | hx
          · exact h1
          · exact hpre x hx
        · simp [splitGo, hne, hs]

/-- per-frequency factor accumulated by the perturbative loop at zero Raman efficiency -/
noncomputable def pertFactor (a : ℝ) : Nat → ℝ → List (ℝ × ℝ) → ℝ
  | 0, _, _ => 1
  | fuel + 1, ll, grid =>
    match grid with
    | [] => 1
    | [_] => 1
    | g0 :: _ =>
      ll * Real.exp (-(a * lastD 0 ((takeInterval grid).1.map (fun g => g.1 - g0.1))))
        * pertFactor a fuel (match (takeInterval grid).2 with
            | [] => 1
            | h :: _ => h.2) (takeInterval grid).2

theorem pertFactor_nil (a : ℝ) (fuel : Nat) (ll : ℝ) : pertFactor a fuel ll [] = 1 := by
  cases fuel <;> simp [pertFactor]

theorem pertFactor_single (a : ℝ) (fuel : Nat) (ll : ℝ) (x : ℝ × ℝ) : pertFactor a fuel ll [x] = 1 := by
  cases fuel <;> simp [pertFactor]

theorem prodL_ones : ∀ (l : List (ℝ × ℝ)), (∀ h ∈ l, h.2 = 1) → Gnpy.Fiber.prodL (l.map (·.2)) = 1 := by
  intro l
  induction l with
  | nil => intro _; simp [Gnpy.Fiber.prodL]
  | cons h t ih =>
    intro hall
    simp only [List.map_cons, Gnpy.Fiber.prodL, hall h (by simp), ih (fun x hx => hall x (by simp [hx]))]
    simp

/-- closed form of the accumulated factor: `ll · exp(−α (z_last − z_first)) · Π (lumped factors strictly inside)` -/
theorem pertFactor_closed (a : ℝ) : ∀ (fuel : Nat) (ll : ℝ) (g0 : ℝ × ℝ) (rest : List (ℝ × ℝ)),
    rest.length < fuel → rest ≠ [] →
    pertFactor a fuel ll (g0 :: rest)
      = ll * Real.exp (-(a * (lastD g0.1 (rest.map (·.1)) - g0.1))) * Gnpy.Fiber.prodL (rest.dropLast.map (·.2)) := by
  intro fuel
  induction fuel with
  | zero => intro ll g0 rest h; simp at h
  | succ fuel ih =>
    intro ll g0 rest hlen hne
    cases rest with
    | nil => exact absurd rfl hne
    | cons g1 rest' =>
      have hz : ∀ (l : List (ℝ × ℝ)), lastD 0 ((g0 :: l).map (fun g => g.1 - g0.1))
          = lastD g0.1 (l.map (·.1)) - g0.1 := by
        intro l
        rw [List.map_cons, lastD_cons]
        cases l with
        | nil => simp [lastD]
        | cons x l =>
          have := lastD_map_ne (fun z => z - g0.1) (g0.1 - g0.1) g0.1 ((x :: l).map (·.1)) (by simp)
          rw [List.map_map] at this
          exact this
      simp only [pertFactor, takeInterval]
      rcases splitGo_spec (g1 :: rest') with ⟨hall, hs⟩ | ⟨pre, h, t, hl, hpre, _, hs⟩
      · rw [hs]
        simp only [pertFactor_nil, mul_one]
        rw [hz, prodL_ones]
        · ring
        · intro x hx
          exact hall x (List.mem_of_mem_dropLast hx)
      · rw [hs]
        simp only
        rw [hz]
        have hpos : lastD g0.1 ((pre ++ [h]).map (·.1)) = h.1 := by
          rw [List.map_append, List.map_cons, List.map_nil, lastD_append_cons]; simp [lastD]
        rw [hpos, hl]
        have hlast : lastD g0.1 ((pre ++ h :: t).map (·.1)) = lastD h.1 (t.map (·.1)) := by
          rw [List.map_append, List.map_cons, lastD_append_cons]
        rw [hlast]
        cases t with
        | nil =>
          rw [pertFactor_single]
          have hd : (pre ++ [h]).dropLast = pre := by simp
          rw [hd, prodL_ones pre hpre]
          simp [lastD]
        | cons t0 t' =>
          have hlt : (t0 :: t').length < fuel := by
            have : (g1 :: rest').length = pre.length + 1 + (t0 :: t').length := by
              rw [hl]; simp; omega
            omega
          rw [ih h.2 h (t0 :: t') hlt (by simp)]
          have hd : (pre ++ h :: t0 :: t').dropLast = pre ++ h :: (t0 :: t').dropLast := by
            rw [List.dropLast_append_of_ne_nil (by simp), List.dropLast_cons_of_ne_nil (by simp)]
          have hpr : Gnpy.Fiber.prodL (List.map (·.2) (h :: (t0 :: t').dropLast))
              = h.2 * Gnpy.Fiber.prodL (List.map (·.2) (t0 :: t').dropLast) := by
            simp [Gnpy.Fiber.prodL]
          rw [hd, List.map_append, Gnpy.Fiber.prodL_append, prodL_ones pre hpre, hpr]
          rw [show ll * Real.exp (-(a * (h.1 - g0.1))) *
              (h.2 * Real.exp (-(a * (lastD h.1 ((t0 :: t').map (·.1)) - h.1))) *
                Gnpy.Fiber.prodL ((t0 :: t').dropLast.map (·.2)))
              = ll * (Real.exp (-(a * (h.1 - g0.1))) * Real.exp (-(a * (lastD h.1 ((t0 :: t').map (·.1)) - h.1)))) *
                (1 * (h.2 * Gnpy.Fiber.prodL ((t0 :: t').dropLast.map (·.2)))) by ring,
            ← Real.exp_add]
          congr 2
          · congr 1; ring

/-! ### spontaneous Raman scattering -/

theorem planckH_pos : (0:ℝ) < planckH := by simp only [planckH, Nat.cast_ofNat]; norm_num
theorem boltzK_pos : (0:ℝ) < boltzK := by simp only [boltzK, Nat.cast_ofNat]; norm_num

/-- the trapezoid rule of a non-negative profile on an ascending grid is non-negative -/
theorem trapz_nonneg' : ∀ (ys zs : List ℝ), (∀ y ∈ ys, 0 ≤ y) → zs.Pairwise (· ≤ ·) → 0 ≤ trapz ys zs := by
  intro ys
  induction ys with
  | nil => intro zs _ _; cases zs <;> simp [trapz]
  | cons y0 ys ih =>
    intro zs hy hz
    cases ys with
    | nil => cases zs with
      | nil => simp [trapz]
      | cons z0 zs => cases zs <;> simp [trapz]
    | cons y1 ys =>
      cases zs with
      | nil => simp [trapz]
      | cons z0 zs =>
        cases zs with
        | nil => simp [trapz]
        | cons z1 zs =>
          simp only [trapz, Nat.cast_ofNat]
          rw [List.pairwise_cons] at hz
          have h01 : 0 ≤ z1 - z0 := by linarith [hz.1 z1 (by simp)]
          have hy0 := hy y0 (by simp)
          have hy1 := hy y1 (by simp)
          have := ih (z1 :: zs) (fun y h => hy y (by simp [h])) hz.2
          have h2 : 0 ≤ (z1 - z0) * ((y1 + y0) / 2) := mul_nonneg h01 (by linarith)
          linarith

theorem vdiv_nonneg : ∀ (u v : List ℝ), (∀ x ∈ u, 0 ≤ x) → (∀ x ∈ v, 0 < x) → ∀ x ∈ vdiv u v, 0 ≤ x := by
  intro u
  induction u with
  | nil => intro v _ _ x hx; cases v <;> simp [vdiv] at hx
  | cons a u ih =>
    intro v hu hv x hx
    cases v with
    | nil => simp [vdiv] at hx
    | cons b v =>
      simp only [vdiv, List.mem_cons] at hx
      rcases hx with rfl | hx
      · exact div_nonneg (hu a (by simp)) (le_of_lt (hv b (by simp)))
      · exact ih v (fun y hy => hu y (by simp [hy])) (fun y hy => hv y (by simp [hy])) x hx

/-- the Bose–Einstein factor: for a pump above the channel (`df > 0`) `1 + η = 1 + 1/(e^x − 1) > 1`, `x = h·df/(k·T)` -/
theorem one_add_eta_pos (df temp : ℝ) (hd : 0 < df) (ht : 0 < temp) : 1 < 1 + etaBE df temp := by
  simp only [etaBE, transc_exp, Nat.cast_one]
  have hx : 0 < planckH * df / (boltzK * temp) := by
    have := planckH_pos; have := boltzK_pos; positivity
  have he : 1 < Real.exp (planckH * df / (boltzK * temp)) := by
    rw [← Real.exp_zero]; exact Real.exp_lt_exp.2 hx
  have hneg : 1 - Real.exp (planckH * df / (boltzK * temp)) < 0 := by linarith
  have : 0 < (-1 : ℝ) / (1 - Real.exp (planckH * df / (boltzK * temp))) := div_pos_of_neg_of_neg (by norm_num) hneg
  linarith

end Gnpy.Raman
