import GnpyModel
import GnpyProofs.Lemmas.DesignNum
import GnpyProofs.Lemmas.ChainList
/-
Helper definitions and lemmas for the redesign fixpoint (C17).
-/
namespace Gnpy.Chain

/-- along the first design walk no amplifier is left above its p_max, so that the saturation check of the second
design finds nothing to reduce: in power mode `pref_total + _delta_p ≤ p_max`, in gain mode the output as the code
estimates it, `pref_total + prev_dp − node_loss − prev_voa + gain ≤ p_max`.  (The first design guarantees this by
`saturation_minimal…` / `saturation_auto_selected`, except when the VOA optimisation rounds up past p_max — finding
voa-rounding-above-pmax — and, in gain mode with `in_voa ≠ 0`, for auto-selected models — finding
gain-mode-in-voa-saturation.) -/
def FitsAll (c : Cfg ℝ) (pref prefTotal : ℝ) : ℝ → ℝ → List (AmpIn ℝ) → Prop
  | _, _, [] => True
  | pd, pv, a :: rest =>
    let o := ampStep c pref prefTotal pd pv a
    (c.powerMode = true → prefTotal + o.dpInt ≤ a.sel.pMax) ∧
    (c.powerMode = false → prefTotal + pd - a.nodeLoss - pv + o.gain ≤ a.sel.pMax) ∧
    FitsAll c pref prefTotal o.retDp o.retVoa rest

/-- the designed operating point agrees with the first design on everything that is exported -/
def SamePoint (o o' : AmpOut ℝ) : Prop :=
  o'.gain = o.gain ∧ o'.dpInt = o.dpInt ∧ o'.outVoa = o.outVoa ∧ o'.deltaP = o.deltaP ∧ o'.inVoa = o.inVoa

theorem reuse_variety (v : String) : ((if (v == "") = true then "selected" else v) == "") = false := by
  by_cases h : (v == "") = true
  · simp [h]
  · simp [h]

theorem deltaP_spec (c : Cfg ℝ) (pref prefTotal pd pv : ℝ) (a : AmpIn ℝ) :
    (c.powerMode = true → (ampStep c pref prefTotal pd pv a).deltaP = some (ampStep c pref prefTotal pd pv a).dpInt) ∧
    (c.powerMode = false → (ampStep c pref prefTotal pd pv a).deltaP = none) := by
  constructor
  · intro h; simp [ampStep, h]
  · intro h; simp [ampStep, h]

end Gnpy.Chain
