import GnpyModel
import GnpyProofs.Lemmas.Select
/- Property theorems for C10 — auto-selected amplifiers are allowed (own variety list, else adjacent ROADM
   restriction, else allowed_for_design; band cover; Raman only where allowed), capable whenever a permitted
   model is capable, and the quietest capable choice.  Model: GnpyModel/Select.lean.  Statements over ℝ. -/
namespace Gnpy.Select
open Gnpy.Edfa

/-! ### precedence of the restriction sources -/

/-- the amplifier's own (non-empty) variety list wins -/
theorem restriction_own_list_first (c : NodeCtx) (x : String) (xs : List String)
    (h : c.varietyList = some (x :: xs)) : restrictionList c = x :: xs := by
  simp [restrictionList, h]

/-- else the booster restriction of the ROADM the amplifier follows -/
theorem restriction_booster_second (c : NodeCtx) (x : String) (xs : List String)
    (h0 : c.varietyList = none ∨ c.varietyList = some [])
    (h : c.prevRoadmBooster = some (x :: xs)) : restrictionList c = x :: xs := by
  rcases h0 with h0 | h0 <;> simp [restrictionList, h0, h]

/-- else the preamp restriction of the ROADM the amplifier precedes -/
theorem restriction_preamp_third (c : NodeCtx) (x : String) (xs : List String)
    (h0 : c.varietyList = none ∨ c.varietyList = some [])
    (h1 : c.prevRoadmBooster = none ∨ c.prevRoadmBooster = some [])
    (h : c.nextRoadmPreamp = some (x :: xs)) : restrictionList c = x :: xs := by
  rcases h0 with h0 | h0 <;> rcases h1 with h1 | h1 <;> simp [restrictionList, h0, h1, h]

/-- else there is no restriction list (and `allowed_for_design` decides) -/
theorem restriction_none (c : NodeCtx)
    (h0 : c.varietyList = none ∨ c.varietyList = some [])
    (h1 : c.prevRoadmBooster = none ∨ c.prevRoadmBooster = some [])
    (h2 : c.nextRoadmPreamp = none ∨ c.nextRoadmPreamp = some []) : restrictionList c = [] := by
  rcases h0 with h0 | h0 <;> rcases h1 with h1 | h1 <;> rcases h2 with h2 | h2 <;>
    simp [restrictionList, h0, h1, h2]

/-- a type_variety given by the user is the only permitted model -/
theorem user_variety_wins (lib : List (AmpSpec ℝ)) (c : NodeCtx) (b : Band) (h : c.typeVariety ≠ "") :
    nodeRestrictions lib c b = [c.typeVariety] := by
  simp [nodeRestrictions, h]

/-- **the permitted set is sound**: every permitted name is a single-band library model that covers the design
band and is in the restriction list in force (or, without one, allowed for design) -/
theorem nodeRestrictions_permitted (lib : List (AmpSpec ℝ)) (c : NodeCtx) (b : Band) (n : String)
    (h0 : c.typeVariety = "") (h : n ∈ nodeRestrictions lib c b) :
    ∃ a ∈ lib, a.name = n ∧ a.isMulti = false ∧ a.fMin ≤ b.fMin ∧ b.fMax ≤ a.fMax ∧
      (n ∈ restrictionList c ∨ (restrictionList c = [] ∧ a.allowedForDesign = true)) := by
  simp only [nodeRestrictions, h0, ne_eq, not_true_eq_false, if_false, List.mem_map, List.mem_filter] at h
  obtain ⟨a, ⟨ha, hc⟩, rfl⟩ := h
  simp only [Bool.and_eq_true, Bool.not_eq_true', AmpSpec.covers, decide_eq_true_eq, allowedBy, Bool.or_eq_true,
    List.contains_iff_mem, List.isEmpty_iff] at hc
  exact ⟨a, ha, rfl, hc.1.1, hc.1.2.1, hc.1.2.2, hc.2⟩

/-- … and complete: nothing that qualifies is left out -/
theorem nodeRestrictions_complete (lib : List (AmpSpec ℝ)) (c : NodeCtx) (b : Band) (a : AmpSpec ℝ)
    (h0 : c.typeVariety = "") (ha : a ∈ lib) (hm : a.isMulti = false) (h1 : a.fMin ≤ b.fMin) (h2 : b.fMax ≤ a.fMax)
    (h3 : a.name ∈ restrictionList c ∨ (restrictionList c = [] ∧ a.allowedForDesign = true)) :
    a.name ∈ nodeRestrictions lib c b := by
  simp only [nodeRestrictions, h0, ne_eq, not_true_eq_false, if_false, List.mem_map, List.mem_filter]
  refine ⟨a, ⟨ha, ?_⟩, rfl⟩
  simp only [Bool.and_eq_true, Bool.not_eq_true', AmpSpec.covers, decide_eq_true_eq, allowedBy, Bool.or_eq_true,
    List.contains_iff_mem, List.isEmpty_iff]
  exact ⟨⟨hm, h1, h2⟩, h3⟩

/-- Raman is allowed exactly after a fibre all of whose loss coefficients are below the configured limit -/
theorem ramanAllowed_spec (isFiber : Bool) (loss : List ℝ) (limit : ℝ) :
    ramanAllowed isFiber loss limit = true ↔ isFiber = true ∧ ∀ l ∈ loss, l < limit * (1 / 1000) := by
  simp [ramanAllowed]

/-! ### the selection -/

private theorem cand_mem (lib : List (AmpSpec ℝ)) (ok : Bool) (g p e : ℝ) (y : Cand ℝ)
    (h : y ∈ edfaList lib g p e ++ ramanList lib ok g p e) :
    ∃ a ∈ lib, y = cand a g p e ∧ (a.raman = false ∨ ok = true) := by
  rcases List.mem_append.1 h with h | h
  · simp only [edfaList, List.mem_map, List.mem_filter, Bool.not_eq_true'] at h
    obtain ⟨a, ⟨ha, hr⟩, rfl⟩ := h
    exact ⟨a, ha, rfl, Or.inl hr⟩
  · simp only [ramanList] at h
    split at h
    · rename_i hok
      simp only [List.mem_map, List.mem_filter] at h
      obtain ⟨a, ⟨ha, _⟩, rfl⟩ := h
      exact ⟨a, ha, rfl, Or.inr hok⟩
    · simp at h

private theorem mem_cand (lib : List (AmpSpec ℝ)) (ok : Bool) (g p e : ℝ) (a : AmpSpec ℝ) (ha : a ∈ lib)
    (hr : a.raman = false ∨ ok = true) : cand a g p e ∈ edfaList lib g p e ++ ramanList lib ok g p e := by
  by_cases hra : a.raman = true
  · have hok : ok = true := by
      rcases hr with h | h
      · rw [h] at hra; cases hra
      · exact h
    apply List.mem_append_right
    simp only [ramanList, hok, if_true, List.mem_map, List.mem_filter]
    exact ⟨a, ⟨ha, hra⟩, rfl⟩
  · apply List.mem_append_left
    simp only [edfaList, List.mem_map, List.mem_filter, Bool.not_eq_true']
    exact ⟨a, ⟨ha, by simpa using hra⟩, rfl⟩

/-- unfolding `selectEdfa` -/
private theorem select_unfold (lib : List (AmpSpec ℝ)) (ok : Bool) (g p e : ℝ) (ch : Choice ℝ)
    (h : selectEdfa lib ok g p e = some ch) :
    ∃ l c, acceptable (edfaList lib g p e) (ramanList lib ok g p e) = some l ∧ argminNf l = some c ∧
      ch = { variety := c.variety, powerReduction := smin c.power Edfa.zero, nf := c.nf, power := c.power,
             gainMin := c.gainMin } := by
  simp only [selectEdfa] at h
  split at h
  · cases h
  · rename_i l hl
    split at h
    · cases h
    · rename_i c hc
      simp only [Option.some.injEq] at h
      exact ⟨l, c, hl, hc, h.symm⟩

/-- **the chosen model is one of the models offered** (the permitted set) and is Raman only if Raman is allowed -/
theorem selected_mem_permitted (lib : List (AmpSpec ℝ)) (ok : Bool) (g p e : ℝ) (ch : Choice ℝ)
    (h : selectEdfa lib ok g p e = some ch) :
    ∃ a ∈ lib, a.name = ch.variety ∧ (a.raman = false ∨ ok = true) ∧ ch.power = powerAttr a g p e ∧
      ch.gainMin = gainMinAttr a g ∧ ch.nf = edfaNf a g := by
  obtain ⟨l, c, hl, hc, rfl⟩ := select_unfold lib ok g p e ch h
  have hmem := (acceptable_sub _ _ _ hl).1 c (argminNf_spec l c hc).1
  obtain ⟨a, ha, rfl, hr⟩ := cand_mem lib ok g p e c hmem
  exact ⟨a, ha, rfl, hr, rfl, rfl, rfl⟩

/-- **Raman models are used only where allowed** -/
theorem raman_only_if_allowed (lib : List (AmpSpec ℝ)) (g p e : ℝ) (ch : Choice ℝ)
    (h : selectEdfa lib false g p e = some ch) : ∃ a ∈ lib, a.name = ch.variety ∧ a.raman = false := by
  obtain ⟨a, ha, hn, hr, _⟩ := selected_mem_permitted lib false g p e ch h
  rcases hr with hr | hr
  · exact ⟨a, ha, hn, hr⟩
  · cases hr

/-- with the library `set_one_amplifier` builds from the permitted names, the chosen model is a permitted,
single-band library model … -/
theorem selected_in_restrictions (lib : List (AmpSpec ℝ)) (r : List String) (ok : Bool) (g p e : ℝ) (ch : Choice ℝ)
    (hr : r ≠ []) (h : selectEdfa (selectionLibrary lib r) ok g p e = some ch) :
    ch.variety ∈ r ∧ ∃ a ∈ lib, a.name = ch.variety ∧ a.isMulti = false := by
  obtain ⟨a, ha, hn, _⟩ := selected_mem_permitted _ ok g p e ch h
  have hre : r.isEmpty = false := by simpa [List.isEmpty_iff] using hr
  simp only [selectionLibrary, hre, Bool.false_eq_true, if_false, List.mem_filter, Bool.not_eq_true',
    List.contains_iff_mem] at ha
  exact ⟨hn ▸ ha.2, a, ha.1.1, hn, ha.1.2⟩

/-- … which **covers the design band** when the permitted names come from `get_node_restrictions` -/
theorem selected_covers_band (lib : List (AmpSpec ℝ)) (c : NodeCtx) (b : Band) (ok : Bool) (g p e : ℝ)
    (ch : Choice ℝ) (h0 : c.typeVariety = "") (hne : nodeRestrictions lib c b ≠ [])
    (h : selectEdfa (selectionLibrary lib (nodeRestrictions lib c b)) ok g p e = some ch) :
    ∃ a ∈ lib, a.name = ch.variety ∧ a.isMulti = false ∧ a.fMin ≤ b.fMin ∧ b.fMax ≤ a.fMax ∧
      (ch.variety ∈ restrictionList c ∨ (restrictionList c = [] ∧ a.allowedForDesign = true)) := by
  obtain ⟨hin, _⟩ := selected_in_restrictions lib _ ok g p e ch hne h
  exact nodeRestrictions_permitted lib c b ch.variety h0 hin

/-- **capable if anybody is**: if some offered model (Raman only where allowed) can deliver the gain
(`gain_min` attribute > 0) and the power (`power` attribute > 0, extended-gain allowance included) then so can
the chosen one -/
theorem capable_if_any_capable (lib : List (AmpSpec ℝ)) (ok : Bool) (g p e : ℝ) (ch : Choice ℝ)
    (hcap : ∃ a ∈ lib, (a.raman = false ∨ ok = true) ∧ 0 < gainMinAttr a g ∧ 0 < powerAttr a g p e)
    (h : selectEdfa lib ok g p e = some ch) : 0 < ch.gainMin ∧ 0 < ch.power := by
  obtain ⟨l, c, hl, hc, rfl⟩ := select_unfold lib ok g p e ch h
  obtain ⟨a, ha, hr, hg, hp⟩ := hcap
  have hex : ∃ x ∈ edfaList lib g p e ++ ramanList lib ok g p e, 0 < x.gainMin ∧ 0 < x.power :=
    ⟨cand a g p e, mem_cand lib ok g p e a ha hr, hg, hp⟩
  rw [acceptable_capable _ _ hex] at hl
  simp only [Option.some.injEq] at hl
  subst hl
  have := (List.mem_filter.1 (argminNf_spec _ c hc).1).2
  simp only [Bool.and_eq_true, decide_eq_true_eq] at this
  exact this

/-- **quietest**: no acceptable candidate has a lower NF than the chosen one -/
theorem nf_minimal_among_acceptable (lib : List (AmpSpec ℝ)) (ok : Bool) (g p e : ℝ) (ch : Choice ℝ)
    (l : List (Cand ℝ)) (hl : acceptable (edfaList lib g p e) (ramanList lib ok g p e) = some l)
    (h : selectEdfa lib ok g p e = some ch) : ∀ x ∈ l, nfLt x.nf ch.nf = false := by
  obtain ⟨l', c, hl', hc, rfl⟩ := select_unfold lib ok g p e ch h
  rw [hl] at hl'; simp only [Option.some.injEq] at hl'; subst hl'
  exact (argminNf_spec l c hc).2

/-- **no permitted capable model has a lower noise figure at that gain** -/
theorem nf_minimal_among_capable (lib : List (AmpSpec ℝ)) (ok : Bool) (g p e : ℝ) (ch : Choice ℝ)
    (h : selectEdfa lib ok g p e = some ch) (a : AmpSpec ℝ) (ha : a ∈ lib) (hr : a.raman = false ∨ ok = true)
    (hg : 0 < gainMinAttr a g) (hp : 0 < powerAttr a g p e) : nfLt (edfaNf a g) ch.nf = false := by
  have hex : ∃ x ∈ edfaList lib g p e ++ ramanList lib ok g p e, 0 < x.gainMin ∧ 0 < x.power :=
    ⟨cand a g p e, mem_cand lib ok g p e a ha hr, hg, hp⟩
  have hl := acceptable_capable _ _ hex
  have := nf_minimal_among_acceptable lib ok g p e ch _ hl h (cand a g p e)
    (List.mem_filter.2 ⟨mem_cand lib ok g p e a ha hr, by simp [cand, hg, hp]⟩)
  exact this

/-- **fall-back**: when nobody among the gain-acceptable candidates can deliver the power, the chosen one is
within 0.3 dB of the best available power, and NF-minimal among those -/
theorem fallback_spec (l : List (Cand ℝ)) (c : Cand ℝ) (hne : l ≠ []) (hno : ∀ x ∈ l, ¬ 0 < x.power)
    (hc : argminNf (powerStage l) = some c) :
    c ∈ l ∧ maxPower l - 3 / 10 < c.power ∧ (∀ x ∈ l, x.power ≤ maxPower l) ∧
    ∀ x ∈ l, maxPower l - 3 / 10 < x.power → nfLt x.nf c.nf = false := by
  obtain ⟨key, _⟩ := powerStage_fallback l hne hno
  obtain ⟨hm, hmin⟩ := argminNf_spec _ c hc
  have := (key c).1 hm
  exact ⟨this.1, this.2, (maxPower_spec l hne).1, fun x hx hp => hmin x ((key x).2 ⟨hx, hp⟩)⟩

/-- the power reduction is `min(power attribute of the chosen model, 0)` -/
theorem reduction_spec (lib : List (AmpSpec ℝ)) (ok : Bool) (g p e : ℝ) (ch : Choice ℝ)
    (h : selectEdfa lib ok g p e = some ch) : ch.powerReduction = min ch.power 0 ∧ ch.powerReduction ≤ 0 := by
  obtain ⟨l, c, _, _, rfl⟩ := select_unfold lib ok g p e ch h
  simp only [smin_eq_min, Edfa.zero, Nat.cast_zero]
  exact ⟨trivial, min_le_right _ _⟩

/-- no reduction when somebody is capable -/
theorem reduction_zero_if_capable (lib : List (AmpSpec ℝ)) (ok : Bool) (g p e : ℝ) (ch : Choice ℝ)
    (hcap : ∃ a ∈ lib, (a.raman = false ∨ ok = true) ∧ 0 < gainMinAttr a g ∧ 0 < powerAttr a g p e)
    (h : selectEdfa lib ok g p e = some ch) : ch.powerReduction = 0 := by
  have hp := (capable_if_any_capable lib ok g p e ch hcap h).2
  rw [(reduction_spec lib ok g p e ch h).1]
  exact min_eq_right (le_of_lt hp)

/-- the selection is refused (ConfigurationError) exactly when there is no non-Raman model to fall back on and
no (allowed) Raman model reaches its minimum gain -/
theorem select_none_iff (lib : List (AmpSpec ℝ)) (ok : Bool) (g p e : ℝ) :
    selectEdfa lib ok g p e = none ↔
      edfaList lib g p e = [] ∧ ∀ x ∈ ramanList lib ok g p e, ¬ 0 < x.gainMin := by
  rw [← acceptable_none_iff]
  simp only [selectEdfa]
  constructor
  · intro h
    split at h
    · assumption
    · rename_i l hl
      obtain ⟨c, hc⟩ := argminNf_some l (acceptable_sub _ _ _ hl).2
      rw [hc] at h; cases h
  · intro h; rw [h]

/-- Python's `min(key=…)`: the result is an element and no element is smaller -/
theorem argminNf_first (l : List (Cand ℝ)) (c : Cand ℝ) (h : argminNf l = some c) :
    c ∈ l ∧ ∀ x ∈ l, nfLt x.nf c.nf = false := argminNf_spec l c h

/-- **Raman only after a fibre whose every loss entry is below the limit** (per-frequency loss tables): with the
`raman_allowed` flag the code computes from the previous node, a Raman model can only be chosen when that node
is a fibre and ALL entries of its loss-coefficient table are below `max_fiber_lineic_loss_for_raman` -/
theorem raman_only_after_low_loss_fibre (lib : List (AmpSpec ℝ)) (isFiber : Bool) (loss : List ℝ) (limit g p e : ℝ)
    (ch : Choice ℝ) (h : selectEdfa lib (ramanAllowed isFiber loss limit) g p e = some ch) :
    ∃ a ∈ lib, a.name = ch.variety ∧
      (a.raman = true → isFiber = true ∧ ∀ l ∈ loss, l < limit * (1 / 1000)) := by
  obtain ⟨a, ha, hn, hr, _⟩ := selected_mem_permitted lib _ g p e ch h
  refine ⟨a, ha, hn, ?_⟩
  intro hra
  rcases hr with hr | hr
  · rw [hr] at hra; cases hra
  · exact (ramanAllowed_spec isFiber loss limit).1 hr

/-- one entry of the table at or above the limit is enough to forbid Raman (a table straddling the limit) -/
theorem ramanAllowed_table_straddling (isFiber : Bool) (loss : List ℝ) (limit x : ℝ) (hx : x ∈ loss)
    (hge : limit * (1 / 1000) ≤ x) : ramanAllowed isFiber loss limit = false := by
  by_contra hne
  have ht : ramanAllowed isFiber loss limit = true := by simpa using hne
  have := ((ramanAllowed_spec isFiber loss limit).1 ht).2 x hx
  linarith

/-! ### gain fall-back, multiband permitted set, and the statement in one piece -/

/-- when no candidate reaches its minimum gain (3 dB allowance for EDFAs, none for Raman) the non-Raman models
are used with input padding — a Raman model is never chosen below its minimum gain -/
theorem gain_fallback_spec (e r : List (Cand ℝ)) (hno : ∀ x ∈ e ++ r, ¬ 0 < x.gainMin) (hne : e ≠ []) :
    acceptable e r = some (powerStage e) := by
  have h1 : ((e ++ r).filter (fun x => decide (Edfa.zero < x.gainMin))).isEmpty = true := by
    rw [List.isEmpty_iff, List.filter_eq_nil_iff]
    intro x hx; simpa [Edfa.zero] using hno x hx
  have h2 : e.isEmpty = false := by simpa [List.isEmpty_iff] using hne
  simp only [acceptable, h1, h2, if_true, Bool.false_eq_true, if_false]

theorem mem_selectionLibrary (lib : List (AmpSpec ℝ)) (r : List String) (a : AmpSpec ℝ) :
    a ∈ selectionLibrary lib r ↔ a ∈ lib ∧ a.isMulti = false ∧ (r = [] ∨ a.name ∈ r) := by
  simp only [selectionLibrary]
  by_cases hr : r = []
  · subst hr; simp
  · have : r.isEmpty = false := by simpa [List.isEmpty_iff] using hr
    simp only [this, hr, Bool.false_eq_true, if_false, List.mem_filter, Bool.not_eq_true', List.contains_iff_mem,
      false_or]
    tauto

/-- the permitted multiband entries: multiband, in the restriction list in force (or allowed for design when
there is none), and every member covers one of the design bands -/
theorem nodeRestrictionsMulti_permitted (lib : List (AmpSpec ℝ)) (c : NodeCtx) (bands : List Band) (n : String)
    (h0 : c.typeVariety = "") (h : n ∈ nodeRestrictionsMulti lib c bands) :
    ∃ m ∈ lib, m.name = n ∧ m.isMulti = true ∧
      (n ∈ restrictionList c ∨ (restrictionList c = [] ∧ m.allowedForDesign = true)) ∧
      ∀ t ∈ m.multiBand.getD [], ∃ a b, lookup lib t = some a ∧ b ∈ bands ∧ a.covers b = true := by
  simp only [nodeRestrictionsMulti, h0, ne_eq, not_true_eq_false, if_false, List.mem_map, List.mem_filter] at h
  obtain ⟨m, ⟨⟨hm, hc⟩, hall⟩, rfl⟩ := h
  simp only [Bool.and_eq_true, allowedBy, Bool.or_eq_true, List.contains_iff_mem, List.isEmpty_iff] at hc
  refine ⟨m, hm, rfl, hc.1, hc.2, ?_⟩
  intro t ht
  have := List.all_eq_true.1 hall t ht
  simp only [List.contains_iff_mem, List.mem_flatMap, List.mem_filterMap] at this
  obtain ⟨m', _, t', _, b, hb, hopt⟩ := this
  cases hlk : lookup lib t' with
  | none => simp [hlk] at hopt
  | some a =>
    simp only [hlk] at hopt
    split at hopt
    · rename_i hcov
      simp only [Option.some.injEq] at hopt
      subst hopt
      exact ⟨a, b, hlk, hb, hcov⟩
    · cases hopt

/-- **C10 in one statement** (single-band `Edfa` node without user type): whatever auto-design chooses is a
single-band library model that covers the design band, comes from the restriction source in force (own list,
else ROADM booster, else ROADM preamp, else allowed_for_design), is Raman only if Raman is allowed, is capable
whenever some permitted model is capable, and no permitted capable model is quieter at that gain. -/
theorem auto_selection_main (lib : List (AmpSpec ℝ)) (c : NodeCtx) (b : Band) (ok : Bool) (g p e : ℝ)
    (ch : Choice ℝ) (h0 : c.typeVariety = "") (hne : nodeRestrictions lib c b ≠ [])
    (h : selectEdfa (selectionLibrary lib (nodeRestrictions lib c b)) ok g p e = some ch) :
    (∃ a ∈ lib, a.name = ch.variety ∧ a.isMulti = false ∧ a.fMin ≤ b.fMin ∧ b.fMax ≤ a.fMax ∧
      (ch.variety ∈ restrictionList c ∨ (restrictionList c = [] ∧ a.allowedForDesign = true))) ∧
    (ok = false → ∃ a ∈ lib, a.name = ch.variety ∧ a.raman = false) ∧
    (∀ a ∈ lib, a.isMulti = false → a.name ∈ nodeRestrictions lib c b → (a.raman = false ∨ ok = true) →
      0 < gainMinAttr a g → 0 < powerAttr a g p e →
      0 < ch.gainMin ∧ 0 < ch.power ∧ ch.powerReduction = 0 ∧ nfLt (edfaNf a g) ch.nf = false) := by
  refine ⟨selected_covers_band lib c b ok g p e ch h0 hne h, ?_, ?_⟩
  · intro hok
    subst hok
    obtain ⟨a, ha, hn, hr⟩ := raman_only_if_allowed _ g p e ch h
    exact ⟨a, ((mem_selectionLibrary lib _ a).1 ha).1, hn, hr⟩
  · intro a ha hm hin hr hg hp
    have ha' : a ∈ selectionLibrary lib (nodeRestrictions lib c b) :=
      (mem_selectionLibrary lib _ a).2 ⟨ha, hm, Or.inr hin⟩
    have hcap : ∃ a ∈ selectionLibrary lib (nodeRestrictions lib c b),
        (a.raman = false ∨ ok = true) ∧ 0 < gainMinAttr a g ∧ 0 < powerAttr a g p e := ⟨a, ha', hr, hg, hp⟩
    obtain ⟨c1, c2⟩ := capable_if_any_capable _ ok g p e ch hcap h
    exact ⟨c1, c2, reduction_zero_if_capable _ ok g p e ch hcap h,
      nf_minimal_among_capable _ ok g p e ch h a ha' hr hg hp⟩

/-! ### multiband preselection -/

private theorem preselectLoop_sub (lib : List (AmpSpec ℝ)) (e : ℝ) (bts : List (BandTarget ℝ)) :
    ∀ (sel out : List String), preselectLoop lib e sel bts = some out → ∀ m ∈ out, m ∈ sel := by
  induction bts with
  | nil => intro sel out h m hm; simp only [preselectLoop, Option.some.injEq] at h; subst h; exact hm
  | cons bt rest ih =>
    intro sel out h m hm
    simp only [preselectLoop] at h
    split at h
    · cases h
    · rename_i sel' hs
      have h1 := ih sel' out h m hm
      simp only [preselectStep] at hs
      split at hs
      · cases hs
      · simp only [Option.some.injEq] at hs
        subst hs
        exact (List.mem_filter.1 h1).1

/-- **multiband preselection stays inside the permitted set** (repaired behaviour, fix F10): every single-band
model returned by `preselect_multiband_amps` is a member of one of the permitted multiband entries -/
theorem preselect_sound (lib : List (AmpSpec ℝ)) (e : ℝ) (r : List String) (bts : List (BandTarget ℝ))
    (out : List String) (h : preselect lib e r bts = some out) :
    ∀ t ∈ out, ∃ m ∈ r, ∃ a, lookup lib m = some a ∧ t ∈ a.multiBand.getD [] := by
  simp only [preselect, Option.map_eq_some_iff] at h
  obtain ⟨sel, hsel, rfl⟩ := h
  intro t ht
  simp only [membersOf, List.mem_flatMap] at ht
  obtain ⟨m, hm, hmem⟩ := ht
  have hr := preselectLoop_sub lib e bts r sel hsel m hm
  cases hlk : lookup lib m with
  | none => simp [hlk] at hmem
  | some a => exact ⟨m, hr, a, hlk, by simpa [hlk] using hmem⟩

/-- every multiband entry that survives one band lists a model which the filter accepted for that band
(`preselect_sound_partial`: the part of "eligible for all the bands" that is proved; the final per-band choice
and `find_type_variety` are monitored on designed topologies, not modelled) -/
theorem preselect_sound_partial (lib : List (AmpSpec ℝ)) (e : ℝ) (sel out : List String) (bt : BandTarget ℝ)
    (h : preselectStep lib e sel bt = some out) :
    ∀ m ∈ out, m ∈ sel ∧ ∃ l, acceptable (edfaList (bandEqpt lib sel bt.band) bt.gain bt.power e)
        (ramanList (bandEqpt lib sel bt.band) true bt.gain bt.power e) = some l ∧
      ∃ c ∈ l, ∃ a ∈ lib, a.name = m ∧ (a.multiBand.getD []).contains c.variety = true := by
  simp only [preselectStep] at h
  split at h
  · cases h
  · rename_i l hl
    simp only [Option.some.injEq] at h
    subst h
    intro m hm
    obtain ⟨h1, h2⟩ := List.mem_filter.1 hm
    refine ⟨h1, l, hl, ?_⟩
    simp only [List.contains_iff_mem, findTypeVarieties, List.mem_flatten, List.mem_map] at h2
    obtain ⟨lst, ⟨t, ⟨c, hc, rfl⟩, rfl⟩, hm2⟩ := h2
    simp only [List.mem_map, List.mem_filter] at hm2
    obtain ⟨a, ⟨ha, hcont⟩, rfl⟩ := hm2
    exact ⟨c, hc, a, ha, rfl, hcont⟩

private theorem mem_dedup (l : List String) (x : String) : x ∈ dedup l ↔ x ∈ l := by
  induction l with
  | nil => simp [dedup]
  | cons y ys ih =>
    simp only [dedup, List.mem_cons, List.mem_filter, ih, bne_iff_ne, ne_eq]
    constructor
    · rintro (h | ⟨h, _⟩)
      · exact Or.inl h
      · exact Or.inr h
    · rintro (h | h)
      · exact Or.inl h
      · by_cases hxy : x = y
        · exact Or.inl hxy
        · exact Or.inr ⟨h, hxy⟩

private def wC1 : AmpSpec ℝ :=
  { name := "c1", multiBand := none, raman := false, allowedForDesign := true, fMin := 0, fMax := 10,
    gainFlatmax := 20, gainMin := 10, pMax := 20,
    nf := .single { model := .fixedGain 5, gainMin := 10, gainFlatmax := 20 } }
private def wM (n : String) (allowed : Bool) : AmpSpec ℝ :=
  { wC1 with name := n, multiBand := some ["c1"], allowedForDesign := allowed }

/-- **the code before fix F10 left the permitted set**: library `c1`, multiband `M1 = [c1]` (permitted) and
`M2 = [c1]` (not permitted); after one band the selected multiband entries contain `M2`. -/
theorem preselect_old_leaves_permitted_set :
    ∃ out, preselectStepOld [wC1, wM "M1" true, wM "M2" false] 0 ["M1"] ⟨⟨1, 9⟩, 15, 10⟩ = some out ∧
      "M2" ∈ out ∧ "M2" ∉ ["M1"] := by
  have hb : bandEqpt [wC1, wM "M1" true, wM "M2" false] ["M1"] ⟨1, 9⟩ = [wC1] := by
    simp [bandEqpt, membersOf, lookup, wM, wC1, dedup, AmpSpec.covers]
  simp only [preselectStepOld, hb]
  cases hacc : acceptable (edfaList [wC1] (15:ℝ) 10 0) (ramanList [wC1] true (15:ℝ) 10 0) with
  | none =>
    have := (acceptable_none_iff _ _).1 hacc
    simp [edfaList, wC1] at this
  | some l =>
    refine ⟨_, rfl, ?_, by decide⟩
    obtain ⟨hsub, hne⟩ := acceptable_sub _ _ _ hacc
    obtain ⟨y, hy⟩ := List.exists_mem_of_ne_nil l hne
    have hv : y.variety = "c1" := by
      have := hsub y hy
      simp [edfaList, ramanList, wC1, cand] at this
      rw [this]
    rw [mem_dedup]
    simp only [findTypeVarieties, List.mem_flatten, List.mem_map]
    refine ⟨_, ⟨"c1", ⟨y, hy, hv⟩, rfl⟩, ?_⟩
    simp [wM, wC1]

/-! ### the whole Multiband_amplifier branch (`multibandDesign`) -/

theorem findTypeVarietyE_mem (es : List (String × List String)) (picks : List String) (t : String) :
    t ∈ findTypeVarietyE es picks ↔ picks ≠ [] ∧ ∃ e ∈ es, e.1 = t ∧ ∀ p ∈ picks, p ∈ e.2 := by
  simp only [findTypeVarietyE]
  by_cases hp : picks = []
  · subst hp; simp
  · have : picks.isEmpty = false := by simpa [List.isEmpty_iff] using hp
    simp only [this, Bool.false_eq_true, if_false, List.mem_map, List.mem_filter, List.all_eq_true,
      List.contains_iff_mem, ne_eq, hp, not_false_eq_true, true_and]
    constructor
    · rintro ⟨e, ⟨he, hall⟩, rfl⟩; exact ⟨e, he, rfl, hall⟩
    · rintro ⟨e, he, rfl, hall⟩; exact ⟨e, ⟨he, hall⟩, rfl⟩

private theorem multibandDesign_unfold (lib : List (AmpSpec ℝ)) (ext : ℝ) (c : NodeCtx) (ok : Bool)
    (bts : List (BandTarget ℝ)) (d : MultiDesign) (h : multibandDesign lib ext c ok bts = some d) :
    d.permitted = nodeRestrictionsMulti lib c (bts.map (fun bt => bt.band)) ∧
    preselect lib ext d.permitted bts = some d.preselected ∧
    pickAll lib ext ok d.preselected bts = some d.picks ∧
    d.candidates = findTypeVariety lib d.picks ∧ d.candidates ≠ [] := by
  simp only [multibandDesign] at h
  split at h
  · cases h
  · rename_i redfa hpre
    split at h
    · cases h
    · rename_i picks hpick
      split at h
      · cases h
      · rename_i t ts hc
        simp only [Option.some.injEq] at h
        subst h
        exact ⟨rfl, hpre, hpick, hc.symm, by simp⟩

/-- **(a)** when all per-band picks are members of ONE permitted entry `m` (and no other entry of the library
lists them all — libraries with twin entries are out of scope), the node receives exactly that entry:
`type_variety = m`, a permitted multiband type whose members contain every pick -/
theorem multiband_choice_sound_if_single_entry (lib : List (AmpSpec ℝ)) (ext : ℝ) (c : NodeCtx) (ok : Bool)
    (bts : List (BandTarget ℝ)) (d : MultiDesign) (m : String) (ms : List String)
    (h : multibandDesign lib ext c ok bts = some d)
    (hm : (m, ms) ∈ entriesOf lib) (hperm : m ∈ d.permitted) (hall : ∀ p ∈ d.picks, p ∈ ms)
    (huniq : ∀ e ∈ entriesOf lib, (∀ p ∈ d.picks, p ∈ e.2) → e.1 = m) :
    d.candidates.head? = some m ∧ (∀ t ∈ d.candidates, t = m) ∧ m ∈ d.permitted ∧ ∀ p ∈ d.picks, p ∈ ms := by
  obtain ⟨_, _, _, hc, hne⟩ := multibandDesign_unfold lib ext c ok bts d h
  have hallm : ∀ t ∈ d.candidates, t = m := by
    intro t ht
    rw [hc, findTypeVariety, findTypeVarietyE_mem] at ht
    obtain ⟨_, e, he, rfl, hp⟩ := ht
    exact huniq e he hp
  refine ⟨?_, hallm, hperm, hall⟩
  cases hcd : d.candidates with
  | nil => exact absurd hcd hne
  | cons t ts => simp [hallm t (by rw [hcd]; simp)]

/-- **(b) the open finding `multiband-per-band-choices-form-unpermitted-type`, characterised**: (twin entries
excluded) the type the node receives lies outside the permitted set **iff** the independently chosen per-band
picks are not jointly listed by any permitted entry -/
theorem multiband_result_unpermitted_iff (lib : List (AmpSpec ℝ)) (ext : ℝ) (c : NodeCtx) (ok : Bool)
    (bts : List (BandTarget ℝ)) (d : MultiDesign) (t : String)
    (h : multibandDesign lib ext c ok bts = some d) (ht : d.candidates.head? = some t)
    (huniq : ∀ e ∈ entriesOf lib, ∀ e' ∈ entriesOf lib, (∀ p ∈ d.picks, p ∈ e.2) → (∀ p ∈ d.picks, p ∈ e'.2) → e.1 = e'.1) :
    t ∉ d.permitted ↔ ¬ ∃ e ∈ entriesOf lib, e.1 ∈ d.permitted ∧ ∀ p ∈ d.picks, p ∈ e.2 := by
  obtain ⟨_, _, _, hc, _⟩ := multibandDesign_unfold lib ext c ok bts d h
  have htm : t ∈ d.candidates := by
    cases hcd : d.candidates with
    | nil => rw [hcd] at ht; simp at ht
    | cons x xs => rw [hcd] at ht; simp only [List.head?_cons, Option.some.injEq] at ht; simp [ht]
  rw [hc, findTypeVariety, findTypeVarietyE_mem] at htm
  obtain ⟨_, et, het, hname, hpt⟩ := htm
  constructor
  · rintro hnot ⟨e, he, hperm, hp⟩
    have := huniq e he et het hp hpt
    rw [this, hname] at hperm
    exact hnot hperm
  · intro hno hperm
    exact hno ⟨et, het, by rw [hname]; exact hperm, hpt⟩

/-- the witness of the open finding (library of corpus/C10/per_band_mix.json): permitted `m0=(c1,l0)`,
`m2=(c1,l1)`, `m3=(c0,l0)`; the independent picks `l1` (a member of m2) and `c0` (a member of m3) are grouped only
by `m1=(c0,l1)`, which is not permitted -/
theorem per_band_mix_witness :
    let es := [("m0", ["c1", "l0"]), ("m1", ["c0", "l1"]), ("m2", ["c1", "l1"]), ("m3", ["c0", "l0"])]
    let permitted := ["m0", "m2", "m3"]
    findTypeVarietyE es ["l1", "c0"] = ["m1"] ∧ "m1" ∉ permitted ∧
    (∀ p ∈ ["l1", "c0"], ∃ e ∈ es, e.1 ∈ permitted ∧ p ∈ e.2) ∧
    ¬ ∃ e ∈ es, e.1 ∈ permitted ∧ ∀ p ∈ ["l1", "c0"], p ∈ e.2 := by
  decide

private theorem pickAll_forall₂ (lib : List (AmpSpec ℝ)) (ext : ℝ) (ok : Bool) (redfa : List String) :
    ∀ (bts : List (BandTarget ℝ)) (picks : List String), pickAll lib ext ok redfa bts = some picks →
      List.Forall₂ (fun bt pk => bandPick lib ext ok redfa bt = some pk) bts picks := by
  intro bts
  induction bts with
  | nil => intro picks h; simp only [pickAll, Option.some.injEq] at h; subst h; exact List.Forall₂.nil
  | cons bt rest ih =>
    intro picks h
    simp only [pickAll] at h
    split at h
    · cases h
    · rename_i p hp
      split at h
      · cases h
      · rename_i ps hps
        simp only [Option.some.injEq] at h
        subst h
        exact List.Forall₂.cons hp (ih ps hps)

/-- **(c) each band's pick, by the single-band theorems**: the pick of a band is the result of `select_edfa` on the
library restricted to the preselected models covering that band; it is capable whenever one of those models is,
no capable one is quieter, and — when that restriction list is not empty — it is a preselected model covering the
band, hence a member of a permitted multiband entry -/
theorem band_pick_spec (lib : List (AmpSpec ℝ)) (ext : ℝ) (ok : Bool) (r redfa : List String) (bts : List (BandTarget ℝ))
    (bt : BandTarget ℝ) (pk : String) (hpre : preselect lib ext r bts = some redfa)
    (h : bandPick lib ext ok redfa bt = some pk) :
    ∃ ch, selectEdfa (selectionLibrary lib (bandRestrictions lib redfa bt.band)) ok bt.gain bt.power ext = some ch ∧
      ch.variety = pk ∧
      (∀ a ∈ selectionLibrary lib (bandRestrictions lib redfa bt.band), (a.raman = false ∨ ok = true) →
        0 < gainMinAttr a bt.gain → 0 < powerAttr a bt.gain bt.power ext →
        0 < ch.gainMin ∧ 0 < ch.power ∧ nfLt (edfaNf a bt.gain) ch.nf = false) ∧
      (bandRestrictions lib redfa bt.band ≠ [] →
        (∃ a, lookup lib pk = some a ∧ a.covers bt.band = true) ∧
        ∃ m ∈ r, ∃ am, lookup lib m = some am ∧ pk ∈ am.multiBand.getD []) := by
  simp only [bandPick, Option.map_eq_some_iff] at h
  obtain ⟨ch, hsel, rfl⟩ := h
  refine ⟨ch, hsel, rfl, ?_, ?_⟩
  · intro a ha hr hg hp
    have hcap : ∃ a ∈ selectionLibrary lib (bandRestrictions lib redfa bt.band),
        (a.raman = false ∨ ok = true) ∧ 0 < gainMinAttr a bt.gain ∧ 0 < powerAttr a bt.gain bt.power ext :=
      ⟨a, ha, hr, hg, hp⟩
    obtain ⟨c1, c2⟩ := capable_if_any_capable _ ok _ _ _ ch hcap hsel
    exact ⟨c1, c2, nf_minimal_among_capable _ ok _ _ _ ch hsel a ha hr hg hp⟩
  · intro hne
    obtain ⟨hin, _⟩ := selected_in_restrictions lib _ ok _ _ _ ch hne hsel
    simp only [bandRestrictions, List.mem_filter] at hin
    obtain ⟨hmem, hcov⟩ := hin
    refine ⟨?_, preselect_sound lib ext r bts redfa hpre ch.variety hmem⟩
    cases hl : lookup lib ch.variety with
    | none => simp [hl] at hcov
    | some a => exact ⟨a, rfl, by simpa [hl] using hcov⟩

/-- … for every band of a designed node -/
theorem multiband_band_picks (lib : List (AmpSpec ℝ)) (ext : ℝ) (c : NodeCtx) (ok : Bool)
    (bts : List (BandTarget ℝ)) (d : MultiDesign) (h : multibandDesign lib ext c ok bts = some d) :
    preselect lib ext d.permitted bts = some d.preselected ∧
    List.Forall₂ (fun bt pk => bandPick lib ext ok d.preselected bt = some pk) bts d.picks := by
  obtain ⟨_, hpre, hpick, _, _⟩ := multibandDesign_unfold lib ext c ok bts d h
  exact ⟨hpre, pickAll_forall₂ lib ext ok d.preselected bts d.picks hpick⟩

/-! ### a user-typed Multiband_amplifier -/

/-- a typed node whose listed amplifiers were accepted at load time lists only members of its type -/
theorem typedLoad_members (lib : List (AmpSpec ℝ)) (tv : String) (listed : List String)
    (h : typedLoadOk lib tv listed = true) (hne : listed ≠ []) :
    ∃ e ∈ entriesOf lib, e.1 = tv ∧ ∀ p ∈ listed, p ∈ e.2 := by
  simp only [typedLoadOk, Bool.or_eq_true, List.isEmpty_iff, List.contains_iff_mem] at h
  rcases h with h | h
  · exact absurd h hne
  · rw [findTypeVariety, findTypeVarietyE_mem] at h
    exact h.2

private theorem typedPickAll_forall₂ (lib : List (AmpSpec ℝ)) (ext : ℝ) (ok : Bool) (members : List String) :
    ∀ (amps : List (BandTarget ℝ × String)) (picks : List String), typedPickAll lib ext ok members amps = some picks →
      List.Forall₂ (fun a pk => typedPick lib ext ok members a = some pk) amps picks := by
  intro amps
  induction amps with
  | nil => intro picks h; simp only [typedPickAll, Option.some.injEq] at h; subst h; exact List.Forall₂.nil
  | cons a rest ih =>
    intro picks h
    simp only [typedPickAll] at h
    split at h
    · cases h
    · rename_i p hp
      split at h
      · cases h
      · rename_i ps hps
        simp only [Option.some.injEq] at h
        subst h
        exact List.Forall₂.cons hp (ih ps hps)

/-- one amplifier of a typed node: it keeps its own type_variety, or receives a model chosen by `select_edfa`
which — the typed entry having a member that covers the amplifier's band — is a member of the typed entry
covering that band (and capable / quietest among those members by `band_pick_spec`) -/
theorem typedPick_spec (lib : List (AmpSpec ℝ)) (ext : ℝ) (ok : Bool) (members : List String)
    (a : BandTarget ℝ × String) (pk : String) (h : typedPick lib ext ok members a = some pk) :
    (a.2 ≠ "" ∧ pk = a.2) ∨
    (a.2 = "" ∧ bandPick lib ext ok members a.1 = some pk ∧
      (bandRestrictions lib members a.1.band ≠ [] →
        pk ∈ members ∧ ∃ s, lookup lib pk = some s ∧ s.covers a.1.band = true)) := by
  simp only [typedPick] at h
  split at h
  · rename_i hown
    simp only [Option.some.injEq] at h
    exact Or.inl ⟨hown, h.symm⟩
  · rename_i hown
    refine Or.inr ⟨by simpa using hown, h, ?_⟩
    intro hne
    simp only [bandPick, Option.map_eq_some_iff] at h
    obtain ⟨ch, hsel, rfl⟩ := h
    obtain ⟨hin, _⟩ := selected_in_restrictions lib _ ok _ _ _ ch hne hsel
    simp only [bandRestrictions, List.mem_filter] at hin
    obtain ⟨hmem, hcov⟩ := hin
    refine ⟨hmem, ?_⟩
    cases hl : lookup lib ch.variety with
    | none => simp [hl] at hcov
    | some s => exact ⟨s, rfl, by simpa [hl] using hcov⟩

/-- **typed element**: when the design is not rejected, every amplifier of the node keeps its own type or gets
a member of the typed entry covering its band, and the name the node ends with is an entry listing all of them;
if the typed entry is the only entry listing them, the user's type_variety is kept -/
theorem typed_design_sound (lib : List (AmpSpec ℝ)) (ext : ℝ) (tv : String) (ok : Bool)
    (amps : List (BandTarget ℝ × String)) (d : MultiDesign) (h : typedDesign lib ext tv ok amps = some d) :
    ∃ e, lookup lib tv = some e ∧
      List.Forall₂ (fun a pk => typedPick lib ext ok (e.multiBand.getD []) a = some pk) amps d.picks ∧
      (∀ t ∈ d.candidates, ∃ en ∈ entriesOf lib, en.1 = t ∧ ∀ p ∈ d.picks, p ∈ en.2) ∧
      ((∀ en ∈ entriesOf lib, (∀ p ∈ d.picks, p ∈ en.2) → en.1 = tv) → d.candidates.head? = some tv) := by
  simp only [typedDesign] at h
  split at h
  · cases h
  · rename_i e he
    split at h
    · cases h
    · rename_i picks hp
      split at h
      · cases h
      · rename_i t ts hc
        simp only [Option.some.injEq] at h
        subst h
        refine ⟨e, he, typedPickAll_forall₂ lib ext ok _ amps picks hp, ?_, ?_⟩
        · intro t' ht'
          simp only at ht'
          rw [← hc, findTypeVariety, findTypeVarietyE_mem] at ht'
          exact ht'.2
        · intro huniq
          have : t ∈ findTypeVariety lib picks := by rw [hc]; simp
          rw [findTypeVariety, findTypeVarietyE_mem] at this
          obtain ⟨_, en, hen, rfl, hall⟩ := this
          simp [huniq en hen hall]

/-! ### non-vacuity -/
example : restrictionList ⟨"", some [], some ["b"], some ["p"]⟩ = ["b"] := by decide
example : nfLt (none : Option ℝ) (some 3) = true := rfl
example : ramanAllowed true [(2:ℝ) / 10000] (25 / 100) = true := by
  rw [ramanAllowed_spec]; constructor; · rfl
  intro l hl; simp at hl; subst hl; norm_num

end Gnpy.Select
