import GnpyModel
import GnpyProofs.Lemmas.Db
import GnpyProofs.Lemmas.RoundHE
import GnpyProofs.Lemmas.Verdict
import GnpyProofs.Lemmas.VerdictDiscrete
/- Property theorems for C13 — a service is accepted exactly when its worst channel clears the mode's threshold.
   Model: GnpyModel/Verdict.lean (+ RoundHE.lean).  Numeric statements over ℝ, the mode loop over Int/List. -/
namespace Gnpy.Verdict
open Gnpy.HE

/-! ### receiver figures: transmitter and add/drop noise counted exactly once, from the raw values -/

/-- **update_snr formula.** With at least one contribution present, each receiver figure is, in the linear domain,
the line-only (raw) figure plus the sum of the listed contributions — every one exactly once — scaled to the
figure's bandwidth (`baud/12.5 GHz` for the in-band figures, 1 for the 0.1 nm figures). -/
theorem updateSnr_formula (r : Rx ℝ) (args : List (Option ℝ)) (hb : 0 < r.baud) (hS : 0 < linSum args) :
    db2lin (-(updateSnr r args).snr01) = db2lin (-r.rawSnr01) + linSum args ∧
    db2lin (-(updateSnr r args).osnrAse01) = db2lin (-r.rawOsnrAse01) + linSum args ∧
    db2lin (-(updateSnr r args).snr) = db2lin (-r.rawSnr) + r.baud / bwRef * linSum args ∧
    db2lin (-(updateSnr r args).osnrAse) = db2lin (-r.rawOsnrAse) + r.baud / bwRef * linSum args := by
  have hbr := bwRef_pos
  have h1 : (bwRef : ℝ) / bwRef = 1 := div_self (ne_of_gt hbr)
  simp only [updateSnr]
  refine ⟨?_, ?_, ?_, ?_⟩
  · rw [snrSum_lin _ _ _ hbr, snrAdded_lin _ hS, h1, one_mul]
  · rw [snrSum_lin _ _ _ hbr, snrAdded_lin _ hS, h1, one_mul]
  · rw [snrSum_lin _ _ _ hb, snrAdded_lin _ hS]
  · rw [snrSum_lin _ _ _ hb, snrAdded_lin _ hS]

/-- `None` arguments are ignored; the present ones add up, each once, in any position -/
theorem linSum_spec (a b : List (Option ℝ)) (v : ℝ) :
    linSum (a ++ none :: b) = linSum (a ++ b) ∧ linSum (a ++ some v :: b) = linSum (a ++ b) + db2lin (-v) := by
  refine ⟨by simp [linSum_append, linSum], ?_⟩
  simp only [linSum_append, linSum]; ring

/-- an update never touches the raw figures -/
theorem updateSnr_raw (r : Rx ℝ) (args : List (Option ℝ)) :
    (updateSnr r args).rawSnr01 = r.rawSnr01 ∧ (updateSnr r args).rawSnr = r.rawSnr ∧
    (updateSnr r args).rawOsnrAse01 = r.rawOsnrAse01 ∧ (updateSnr r args).rawOsnrAse = r.rawOsnrAse ∧
    (updateSnr r args).baud = r.baud := by
  simp [updateSnr]

/-- two successive updates = the second alone -/
theorem updateSnr_twice (r : Rx ℝ) (a b : List (Option ℝ)) : updateSnr (updateSnr r a) b = updateSnr r b := by
  simp [updateSnr]

/-- **history-free.** However many times the receiver figures were recomputed before (successive modes), the state
after the last `update_snr` is the state that call alone produces from the propagated receiver. -/
theorem updateSnr_history_free (r : Rx ℝ) (calls : List (List (Option ℝ))) (last : List (Option ℝ)) :
    updateSnrSeq r (calls ++ [last]) = updateSnr r last := by
  unfold updateSnrSeq
  rw [List.foldl_append]
  simp only [List.foldl_cons, List.foldl_nil]
  induction calls using List.reverseRecOn with
  | nil => rfl
  | append_singleton xs x ih =>
    rw [List.foldl_append]; simp only [List.foldl_cons, List.foldl_nil]
    rw [updateSnr_twice]; exact ih

/-! ### the list of contributions: transmitter once, every ROADM crossing once -/

theorem roadmOsnr_length (path : List (PathEl ℝ)) :
    (roadmOsnr path).length = (path.filter (fun e => match e with | .roadm _ => true | .other => false)).length := by
  induction path with
  | nil => rfl
  | cons e rest ih => cases e <;> simp [roadmOsnr, ih]

/-- **tx and add/drop once (fixed mode).** `propagate` hands the receiver one entry per ROADM crossing, in path
order, followed by exactly one transmitter entry; in the linear sum the transmitter term appears once. -/
theorem tx_and_adddrop_once (path : List (PathEl ℝ)) (tx : ℝ) :
    propagateArgs path tx = roadmOsnr path ++ [some tx] ∧
    (propagateArgs path tx).length = (roadmOsnr path).length + 1 ∧
    linSum (propagateArgs path tx) = linSum (roadmOsnr path) + db2lin (-tx) := by
  refine ⟨rfl, by simp [propagateArgs], ?_⟩
  simp [propagateArgs, linSum_append, linSum]

/-- **tx once per iteration of the mode loop**, for any number of iterations: iteration `k` hands the receiver the
ROADM entries and the transmitter OSNR of mode `k` only — the append/delete pair leaves the list as it was. -/
theorem loopArgs_spec (st : List (Option ℝ)) (txs : List ℝ) :
    loopArgs st txs = txs.map (fun tx => st ++ [some tx]) := by
  induction txs generalizing st with
  | nil => rfl
  | cons tx rest ih =>
    simp only [loopArgs, loopStep, List.map_cons, List.dropLast_concat]
    rw [ih]

/-! ### penalties -/

/-- below the first boundary: blocking (infinite) penalty -/
theorem penalty_below_blocks (x a fa : ℝ) (rest : List (ℝ × ℝ)) (h : x < a) :
    interpPenalty x ((a, fa) :: rest) = Pen.inf := by
  simp [interpPenalty, h]

theorem interpFrom_above (x : ℝ) (t : List (ℝ × ℝ)) (h : ∀ p ∈ t, p.1 < x) : interpFrom x t = Pen.inf := by
  match t with
  | [] => rfl
  | [(a, fa)] =>
    have := h (a, fa) (by simp)
    simp only [interpFrom]; rw [if_pos this]
  | (a, fa) :: (b, fb) :: rest =>
    have hb : ¬ x < b := not_lt.2 (le_of_lt (h (b, fb) (by simp)))
    simp only [interpFrom]; rw [if_neg hb]
    exact interpFrom_above x ((b, fb) :: rest) (fun p hp => h p (List.mem_cons_of_mem _ hp))

/-- **an impairment outside the mode's penalty table always blocks** (above every boundary) -/
theorem penalty_above_blocks (x : ℝ) (t : List (ℝ × ℝ)) (h : ∀ p ∈ t, p.1 < x) : interpPenalty x t = Pen.inf := by
  match t with
  | [] => rfl
  | (a, fa) :: rest =>
    have ha : ¬ x < a := not_lt.2 (le_of_lt (h (a, fa) (by simp)))
    simp only [interpPenalty]; rw [if_neg ha]
    exact interpFrom_above x _ h

theorem interpFrom_inside (x : ℝ) (t : List (ℝ × ℝ)) (hs : t.Pairwise (fun p q => p.1 ≤ q.1))
    (hhead : ∀ p, t.head? = some p → p.1 ≤ x) (hex : ∃ p ∈ t, x ≤ p.1) : ∃ v, interpFrom x t = Pen.fin v := by
  match t with
  | [] => obtain ⟨p, hp, _⟩ := hex; simp at hp
  | [(a, fa)] =>
    obtain ⟨p, hp, hx⟩ := hex
    simp only [List.mem_singleton] at hp; subst hp
    simp only [interpFrom]; rw [if_neg (not_lt.2 hx)]; exact ⟨fa, rfl⟩
  | (a, fa) :: (b, fb) :: rest =>
    simp only [interpFrom]
    by_cases hxb : x < b
    · rw [if_pos hxb]; split <;> exact ⟨_, rfl⟩
    · rw [if_neg hxb]
      have hbx : b ≤ x := not_lt.1 hxb
      rw [List.pairwise_cons] at hs
      apply interpFrom_inside x ((b, fb) :: rest) hs.2
      · intro p hp; simp only [List.head?_cons, Option.some.injEq] at hp; subst hp; exact hbx
      · obtain ⟨p, hp, hx⟩ := hex
        rcases List.mem_cons.1 hp with hp | hp
        · subst hp
          have hab : a ≤ b := hs.1 (b, fb) (by simp)
          exact ⟨(b, fb), by simp, by simp only at hx ⊢; linarith⟩
        · exact ⟨p, hp, hx⟩

/-- inside the (ascending) table the penalty is finite -/
theorem penalty_inside_finite (x : ℝ) (t : List (ℝ × ℝ)) (hs : t.Pairwise (fun p q => p.1 ≤ q.1))
    (hlo : ∀ p, t.head? = some p → p.1 ≤ x) (hhi : ∃ p ∈ t, x ≤ p.1) : ∃ v, interpPenalty x t = Pen.fin v := by
  match t with
  | [] => obtain ⟨p, hp, _⟩ := hhi; simp at hp
  | (a, fa) :: rest =>
    have ha : ¬ x < a := not_lt.2 (hlo (a, fa) rfl)
    simp only [interpPenalty]; rw [if_neg ha]
    exact interpFrom_inside x _ hs hlo hhi

/-- between two consecutive boundaries the penalty is the linear interpolation; on a boundary it is the tabulated
value -/
theorem penalty_segment (x a fa b fb : ℝ) (rest : List (ℝ × ℝ)) (h1 : a ≤ x) (h2 : x < b) :
    interpPenalty x ((a, fa) :: (b, fb) :: rest) =
      if a < x then Pen.fin ((fb - fa) / (b - a) * (x - a) + fa) else Pen.fin fa := by
  simp only [interpPenalty, interpFrom]
  rw [if_neg (not_lt.2 h1), if_pos h2]

theorem foldl_add_inf (ps : List (Pen ℝ)) : ps.foldl Pen.add Pen.inf = Pen.inf := by
  induction ps with
  | nil => rfl
  | cons p rest ih => simpa [List.foldl_cons, Pen.add] using ih

theorem foldl_add_mem_inf (ps : List (Pen ℝ)) (p : Pen ℝ) (h : Pen.inf ∈ ps) : ps.foldl Pen.add p = Pen.inf := by
  induction ps generalizing p with
  | nil => simp at h
  | cons q rest ih =>
    rcases List.mem_cons.1 h with h | h
    · subst h
      have : Pen.add p Pen.inf = Pen.inf := by cases p <;> rfl
      simp only [List.foldl_cons, this]; exact foldl_add_inf rest
    · simp only [List.foldl_cons]; exact ih _ h

/-- one infinite penalty makes the total infinite -/
theorem totalPenalty_inf (ps : List (Pen ℝ)) (h : Pen.inf ∈ ps) : totalPenalty ps = Pen.inf := by
  match ps with
  | [] => simp at h
  | p :: rest =>
    simp only [totalPenalty]
    rcases List.mem_cons.1 h with h | h
    · subst h; exact foldl_add_inf rest
    · exact foldl_add_mem_inf rest p h

theorem minMetric_none_of_mem (ms : List (Option ℝ)) (h : none ∈ ms) : minMetric ms = none := by
  match ms with
  | [] => rfl
  | [m] => simp only [List.mem_singleton] at h; subst h; rfl
  | m :: m' :: rest =>
    simp only [minMetric]
    rcases List.mem_cons.1 h with h | h
    · subst h; rfl
    · have := minMetric_none_of_mem (m' :: rest) h
      rw [this]; cases m <;> rfl

/-- **outside the table ⇒ blocked**: a channel whose total penalty is infinite makes the request infeasible under
both verdicts, whatever the GSNR and the threshold -/
theorem penalty_outside_blocks (snrs : List ℝ) (pens : List (Pen ℝ)) (osnr margin : ℝ)
    (hlen : snrs.length = pens.length) (h : Pen.inf ∈ pens) :
    passFixed (minMetric ((snrs.zip pens).map (fun x => metric x.1 x.2))) osnr margin = false ∧
    passAuto (minMetric ((snrs.zip pens).map (fun x => metric x.1 x.2))) osnr margin = false := by
  have : none ∈ (snrs.zip pens).map (fun x => metric x.1 x.2) := by
    obtain ⟨i, hi, hpi⟩ := List.getElem_of_mem h
    have hi' : i < snrs.length := by omega
    refine List.mem_map.2 ⟨(snrs[i], pens[i]), ?_, by simp [metric, hpi]⟩
    rw [List.mem_iff_getElem]
    exact ⟨i, by simp [hi, hi'], by simp⟩
  rw [minMetric_none_of_mem _ this]
  exact ⟨rfl, rfl⟩

/-- the worst channel: `minMetric` returns a member that is ≤ every channel's metric -/
theorem minMetric_spec (ms : List (Option ℝ)) (v : ℝ) (h : minMetric ms = some v) :
    some v ∈ ms ∧ ∀ m ∈ ms, ∃ w, m = some w ∧ v ≤ w := by
  match ms with
  | [] => simp [minMetric] at h
  | [m] => simp only [minMetric] at h; subst h; simp
  | m :: m' :: rest =>
    simp only [minMetric] at h
    cases hm : m with
    | none => rw [hm] at h; simp at h
    | some a =>
      cases hr : minMetric (m' :: rest) with
      | none => rw [hm, hr] at h; simp at h
      | some b =>
        rw [hm, hr] at h
        obtain ⟨hb1, hb2⟩ := minMetric_spec (m' :: rest) b hr
        simp only at h
        split at h
        · rename_i hlt
          simp only [Option.some.injEq] at h; subst h
          refine ⟨List.mem_cons_of_mem _ hb1, ?_⟩
          intro x hx
          rcases List.mem_cons.1 hx with hx | hx
          · subst hx; exact ⟨a, rfl, le_of_lt hlt⟩
          · exact hb2 x hx
        · rename_i hnlt
          simp only [Option.some.injEq] at h; subst h
          refine ⟨List.mem_cons_self, ?_⟩
          intro x hx
          rcases List.mem_cons.1 hx with hx | hx
          · subst hx; exact ⟨_, rfl, le_refl _⟩
          · obtain ⟨w, hw, hbw⟩ := hb2 x hx
            exact ⟨w, hw, le_trans (not_lt.1 hnlt) hbw⟩

/-! ### penalty tables normalised at load -/

theorem insertAsc_perm (e : ℝ × ℝ) (l : List (ℝ × ℝ)) : (insertAsc e l).Perm (e :: l) := by
  induction l with
  | nil => simp [insertAsc]
  | cons y ys ih =>
    simp only [insertAsc]
    split
    · exact (List.Perm.cons y ih).trans (List.Perm.swap e y ys)
    · exact List.Perm.refl _

theorem sortAsc_perm (l : List (ℝ × ℝ)) : (sortAsc l).Perm l := by
  induction l with
  | nil => simp [sortAsc]
  | cons e rest ih =>
    simp only [sortAsc, List.foldr_cons]
    exact (insertAsc_perm e _).trans (List.Perm.cons e ih)

theorem insertAsc_sorted (e : ℝ × ℝ) (l : List (ℝ × ℝ)) (h : l.Pairwise (fun p q => p.1 ≤ q.1)) :
    (insertAsc e l).Pairwise (fun p q => p.1 ≤ q.1) := by
  induction l with
  | nil => simp [insertAsc]
  | cons y ys ih =>
    rw [List.pairwise_cons] at h
    simp only [insertAsc]
    split
    · rename_i hlt
      rw [List.pairwise_cons]
      refine ⟨?_, ih h.2⟩
      intro b hb
      rcases List.mem_cons.1 ((insertAsc_perm e ys).subset hb) with hb | hb
      · subst hb; exact le_of_lt hlt
      · exact h.1 b hb
    · rename_i hnlt
      have hle : e.1 ≤ y.1 := not_lt.1 hnlt
      rw [List.pairwise_cons]
      refine ⟨?_, List.pairwise_cons.2 h⟩
      intro b hb
      rcases List.mem_cons.1 hb with hb | hb
      · subst hb; exact hle
      · exact le_trans hle (h.1 b hb)

theorem sortAsc_sorted (l : List (ℝ × ℝ)) : (sortAsc l).Pairwise (fun p q => p.1 ≤ q.1) := by
  induction l with
  | nil => simp [sortAsc]
  | cons e rest ih =>
    simp only [sortAsc, List.foldr_cons]
    exact insertAsc_sorted e _ ih

/-- **penalty tables are normalised at load**: the result is ascending in the boundary; it consists of exactly the
library's entries, plus the point (0, 0) iff every boundary is positive — in which case (0, 0) is the first point. -/
theorem penalty_normalised (entries : List (ℝ × ℝ)) :
    (normalise entries).Pairwise (fun p q => p.1 ≤ q.1) ∧
    ((∀ e ∈ entries, 0 < e.1) → (normalise entries).Perm ((0, 0) :: entries) ∧
        (normalise entries).head? = some (0, 0)) ∧
    ((∃ e ∈ entries, ¬ 0 < e.1) → (normalise entries).Perm entries) := by
  refine ⟨?_, ?_, ?_⟩
  · simp only [normalise]; exact sortAsc_sorted _
  · intro hall
    have hc : (entries.all fun e => decide ((0:ℝ) < e.1)) = true := by
      rw [List.all_eq_true]; intro e he; simpa using hall e he
    have hn : normalise entries = sortAsc ((0, 0) :: entries) := by
      simp only [normalise, Nat.cast_zero, hc, if_true]
    refine ⟨by rw [hn]; exact sortAsc_perm _, ?_⟩
    rw [hn]
    simp only [sortAsc, List.foldr_cons]
    have hs : (List.foldr insertAsc [] entries) = sortAsc entries := rfl
    rw [hs]
    have hpos : ∀ y ∈ sortAsc entries, (0:ℝ) < y.1 := fun y hy => hall y ((sortAsc_perm entries).subset hy)
    cases hl : sortAsc entries with
    | nil => simp [insertAsc]
    | cons y ys =>
      have := hpos y (by rw [hl]; simp)
      simp only [insertAsc]
      rw [if_neg (not_lt.2 (le_of_lt this))]; rfl
  · rintro ⟨e, he, hneg⟩
    have hc : (entries.all fun e => decide ((0:ℝ) < e.1)) = false := by
      rw [List.all_eq_false]; exact ⟨e, he, by simpa using hneg⟩
    have hn : normalise entries = sortAsc entries := by
      simp only [normalise, Nat.cast_zero, hc]; rfl
    rw [hn]; exact sortAsc_perm _

/-! ### the verdict -/

/-- fixed mode: a direction passes iff its worst-channel metric exists (no infinite penalty) and, rounded to two
decimals, is at least OSNR + margin -/
theorem passFixed_iff (m : Option ℝ) (osnr margin : ℝ) :
    passFixed m osnr margin = true ↔ ∃ v, m = some v ∧ osnr + margin ≤ round2 v := by
  cases m with
  | none => simp [passFixed]
  | some v => simp [passFixed]

/-- automatic selection: strictly above -/
theorem passAuto_iff (m : Option ℝ) (osnr margin : ℝ) :
    passAuto m osnr margin = true ↔ ∃ v, m = some v ∧ osnr + margin < round2 v := by
  cases m with
  | none => simp [passAuto]
  | some v => simp [passAuto]

/-- **verdict_iff (fixed mode, one direction).** For a threshold given with two decimals: the direction passes
whenever the worst-channel metric is at least the threshold, and whenever it passes — unless the rounded metric
equals the threshold exactly, the case the property does not judge — the worst-channel metric is above it. The two
verdict flavours (`≥` fixed, `>` automatic) differ only in that unjudged case. -/
theorem verdict_iff (v : ℝ) (k : ℤ) (osnr margin : ℝ) (hthr : osnr + margin = (k : ℝ) / 100) :
    (osnr + margin ≤ v → passFixed (some v) osnr margin = true) ∧
    (passFixed (some v) osnr margin = true → round2 v ≠ osnr + margin → osnr + margin < v) ∧
    (round2 v ≠ osnr + margin → passAuto (some v) osnr margin = passFixed (some v) osnr margin) := by
  refine ⟨?_, ?_, ?_⟩
  · intro h
    rw [passFixed_iff]
    refine ⟨v, rfl, ?_⟩
    have := round2_mono h
    rw [hthr, round2_grid] at this
    rw [hthr]; exact this
  · intro hp hne
    rw [passFixed_iff] at hp
    obtain ⟨w, hw, hle⟩ := hp
    simp only [Option.some.injEq] at hw; subst hw
    by_contra hcon
    have hvle : v ≤ osnr + margin := not_lt.1 hcon
    have := round2_mono hvle
    rw [hthr, round2_grid] at this
    rw [hthr] at hle hne
    exact hne (le_antisymm this hle)
  · intro hne
    simp only [passAuto, passFixed]
    rcases lt_trichotomy (round2 v) (osnr + margin) with h | h | h
    · simp [h, not_lt.2 (le_of_lt h)]
    · exact absurd h hne
    · simp [h, not_lt.2 (le_of_lt h)]

/-- whatever the threshold: rounding moves the metric by at most 0.005 dB, so a direction whose worst channel is
0.005 dB or more above the threshold passes, and one more than 0.005 dB below it fails -/
theorem verdict_margin (v osnr margin : ℝ) :
    (osnr + margin + 1 / 200 ≤ v → passFixed (some v) osnr margin = true) ∧
    (v < osnr + margin - 1 / 200 → passFixed (some v) osnr margin = false) := by
  have h := abs_round2_sub_le v
  rw [abs_le] at h
  constructor
  · intro hv; rw [passFixed_iff]; exact ⟨v, rfl, by linarith [h.1]⟩
  · intro hv
    have : round2 v < osnr + margin := by linarith [h.2]
    simp [passFixed, this]

/-- **request-level verdict, fixed mode**: reported feasible iff the forward direction passes and, when
bidirectional, the reverse direction passes too; otherwise MODE_NOT_FEASIBLE -/
theorem fixedReason_spec (f b r : Bool) :
    (fixedReason f b r = Reason.none ↔ (f = true ∧ (b = true → r = true))) ∧
    (fixedReason f b r ≠ Reason.none → fixedReason f b r = Reason.modeNotFeasible) := by
  cases f <;> cases b <;> cases r <;> simp [fixedReason]

/-! ### automatic mode selection -/

/-- what "feasible" means for a candidate: it passes on the propagation made with its own baud rate and offset -/
def FeasOwn (feas : (Int × Int) → Mode → Bool) (m : Mode) : Prop := feas (own m) m = true

/-- **selectMode_spec.** The mode returned by the (repaired) loop is a library mode that fits the spacing, is
feasible on its own propagation — which is also the propagation whose figures are reported — and no feasible
fitting mode has a higher baud rate, or the same baud rate and a higher bit rate. -/
theorem selectMode_spec (feas : (Int × Int) → Mode → Bool) (modes : List Mode) (spacing : Int) (m : Mode)
    (p : Int × Int) (h : selectMode feas modes spacing = Outcome.served m p) :
    p = own m ∧ m ∈ modes ∧ fits spacing m = true ∧ FeasOwn feas m ∧
    ∀ m' ∈ modes, fits spacing m' = true → FeasOwn feas m' →
      ¬ (m'.baud > m.baud ∨ (m'.baud = m.baud ∧ m'.bitRate > m.bitRate)) := by
  unfold selectMode at h
  simp only at h
  cases hf : (modeOrder modes spacing).find? (fun m => feas (own m) m) with
  | none =>
    rw [hf] at h
    cases hl : (modeOrder modes spacing).getLast? <;> rw [hl] at h <;> simp at h
  | some m0 =>
    rw [hf] at h
    simp only [Outcome.served.injEq] at h
    obtain ⟨rfl, rfl⟩ := h
    obtain ⟨hfe, as, bs, hsplit, hnot⟩ := List.find?_eq_some_iff_append.1 hf
    have hmem : m0 ∈ modeOrder modes spacing := by rw [hsplit]; simp
    have hm := (mem_modeOrder modes spacing m0).1 hmem
    refine ⟨rfl, hm.1, hm.2, by simpa [FeasOwn] using hfe, ?_⟩
    intro m' hm' hfit hfeas hgt
    have hmem' : m' ∈ modeOrder modes spacing := (mem_modeOrder modes spacing m').2 ⟨hm', hfit⟩
    have hsorted := modeOrder_sorted modes spacing
    rw [hsplit] at hmem' hsorted
    rcases List.mem_append.1 hmem' with hin | hin
    · have := hnot m' hin
      simp only [FeasOwn] at hfeas
      simp [hfeas] at this
    · rcases List.mem_cons.1 hin with hin | hin
      · subst hin; omega
      · have hp := (List.pairwise_append.1 hsorted).2.1
        have := (List.pairwise_cons.1 hp).1 m' hin
        unfold RateGe at this
        omega

/-- **none_feasible_reason.** The loop answers NO_FEASIBLE_BAUDRATE_WITH_SPACING iff no library mode fits the
spacing, and NO_FEASIBLE_MODE iff some mode fits but none of the fitting modes is feasible on its own propagation;
the mode it then reports is a fitting library mode with its own propagation. -/
theorem none_feasible_reason (feas : (Int × Int) → Mode → Bool) (modes : List Mode) (spacing : Int) :
    (selectMode feas modes spacing = Outcome.noBaud ↔ ∀ m ∈ modes, fits spacing m = false) ∧
    ((∃ l p, selectMode feas modes spacing = Outcome.noFeasibleMode l p) ↔
      (∃ m ∈ modes, fits spacing m = true) ∧ ∀ m ∈ modes, fits spacing m = true → ¬ FeasOwn feas m) ∧
    (∀ l p, selectMode feas modes spacing = Outcome.noFeasibleMode l p →
      l ∈ modes ∧ fits spacing l = true ∧ p = own l) := by
  have hnil : modeOrder modes spacing = [] ↔ ∀ m ∈ modes, fits spacing m = false := by
    rw [List.eq_nil_iff_forall_not_mem]
    constructor
    · intro h m hm
      by_contra hc
      exact h m ((mem_modeOrder modes spacing m).2 ⟨hm, by simpa using hc⟩)
    · intro h m hm
      have := (mem_modeOrder modes spacing m).1 hm
      rw [h m this.1] at this; simp at this
  have hfind : (modeOrder modes spacing).find? (fun m => feas (own m) m) = none ↔
      ∀ m ∈ modes, fits spacing m = true → ¬ FeasOwn feas m := by
    rw [List.find?_eq_none]
    constructor
    · intro h m hm hfit; simpa [FeasOwn] using h m ((mem_modeOrder modes spacing m).2 ⟨hm, hfit⟩)
    · intro h m hm
      have := (mem_modeOrder modes spacing m).1 hm
      simpa [FeasOwn] using h m this.1 this.2
  refine ⟨?_, ?_, ?_⟩
  · unfold selectMode
    simp only
    constructor
    · intro h
      cases hf : (modeOrder modes spacing).find? (fun m => feas (own m) m) with
      | some m0 => rw [hf] at h; simp at h
      | none =>
        rw [hf] at h
        cases hl : (modeOrder modes spacing).getLast? with
        | some l => rw [hl] at h; simp at h
        | none => exact hnil.1 (List.getLast?_eq_none_iff.1 hl)
    · intro h
      have := hnil.2 h
      rw [this]; rfl
  · unfold selectMode
    simp only
    constructor
    · rintro ⟨l, p, h⟩
      cases hf : (modeOrder modes spacing).find? (fun m => feas (own m) m) with
      | some m0 => rw [hf] at h; simp at h
      | none =>
        rw [hf] at h
        cases hl : (modeOrder modes spacing).getLast? with
        | none => rw [hl] at h; simp at h
        | some l0 =>
          have hmem := List.mem_of_getLast? hl
          have := (mem_modeOrder modes spacing l0).1 hmem
          exact ⟨⟨l0, this.1, this.2⟩, hfind.1 hf⟩
    · rintro ⟨⟨m, hm, hfit⟩, hnone⟩
      rw [hfind.2 hnone]
      have hne : modeOrder modes spacing ≠ [] := by
        intro hc; have := hnil.1 hc m hm; rw [this] at hfit; simp at hfit
      cases hl : (modeOrder modes spacing).getLast? with
      | none => exact absurd (List.getLast?_eq_none_iff.1 hl) hne
      | some l0 => exact ⟨l0, own l0, rfl⟩
  · intro l p h
    unfold selectMode at h
    simp only at h
    cases hf : (modeOrder modes spacing).find? (fun m => feas (own m) m) with
    | some m0 => rw [hf] at h; simp at h
    | none =>
      rw [hf] at h
      cases hl : (modeOrder modes spacing).getLast? with
      | none => rw [hl] at h; simp at h
      | some l0 =>
        rw [hl] at h
        simp only [Outcome.noFeasibleMode.injEq] at h
        obtain ⟨rfl, rfl⟩ := h
        have := (mem_modeOrder modes spacing l0).1 (List.mem_of_getLast? hl)
        exact ⟨this.1, this.2, rfl⟩

/-- request-level reason after automatic selection -/
theorem autoReason_spec (o : Outcome) (b r : Bool) :
    (autoReason o b r = Reason.none ↔ (∃ m p, o = Outcome.served m p) ∧ (b = true → r = true)) := by
  cases o <;> cases b <;> cases r <;> simp [autoReason]

/-- **request-level statement, fixed mode**: the request is reported feasible iff on the computed path — and on the
reverse path when bidirectional — no channel has an infinite penalty and the worst channel's GSNR(0.1 nm) minus
penalties, rounded to two decimals, is at least OSNR + margin -/
theorem request_verdict_iff (fwd rev : Option ℝ) (osnr margin : ℝ) (bidir : Bool) :
    fixedReason (passFixed fwd osnr margin) bidir (passFixed rev osnr margin) = Reason.none ↔
      (∃ v, fwd = some v ∧ osnr + margin ≤ round2 v) ∧
      (bidir = true → ∃ w, rev = some w ∧ osnr + margin ≤ round2 w) := by
  rw [(fixedReason_spec _ _ _).1, passFixed_iff, passFixed_iff]

/-- the propagation whose figures are reported for a served request is one on which the selected mode passes -/
theorem selectMode_served_feasible (feas : (Int × Int) → Mode → Bool) (modes : List Mode) (spacing : Int) (m : Mode)
    (p : Int × Int) (h : selectMode feas modes spacing = Outcome.served m p) : feas p m = true := by
  obtain ⟨hp, _, _, hf, _⟩ := selectMode_spec feas modes spacing m p h
  rw [hp]; exact hf

/-- a request document is accepted iff its transceiver type is known and, when a mode is named, the mode exists,
its baud rate does not exceed its min_spacing and the requested spacing is at least that min_spacing; otherwise the
error kind is the stated one -/
theorem requestCheck_spec (k g f : Bool) (baud ms sp : Int) :
    (requestCheck k g f baud ms sp = none ↔ k = true ∧ (g = true → f = true ∧ baud ≤ ms ∧ ms ≤ sp)) ∧
    (requestCheck k g f baud ms sp = some "ServiceError" ↔ k = true ∧ g = true ∧ f = true ∧ baud ≤ ms ∧ sp < ms) := by
  unfold requestCheck
  cases k <;> cases g <;> cases f <;> simp <;> (try split) <;> (try split) <;> simp_all <;> omega

/-! ### which roadm-osnr each crossing contributes (profiles of GnpyModel/Roadm.lean) -/

section crossings
open Gnpy.Roadm (PType Band Profile selectProfile lookupBands firstOfType)

/-- linear noise contribution of one crossing for the carrier at `f` (0 when it contributes nothing) -/
noncomputable def crossingLin (c : Crossing ℝ) (f : ℝ) : ℝ :=
  match crossingOsnr c f with
  | .ok (some v) => db2lin (-v)
  | _ => 0

theorem crossingsOsnr_cons (c : Crossing ℝ) (cs : List (Crossing ℝ)) (f : ℝ) (l : List (Option ℝ))
    (h : crossingsOsnr (c :: cs) f = .ok l) :
    ∃ o l', crossingOsnr c f = .ok o ∧ crossingsOsnr cs f = .ok l' ∧ l = o :: l' := by
  unfold crossingsOsnr at h ⊢
  rw [List.mapM_cons] at h
  cases ho : crossingOsnr c f with
  | error e => rw [ho] at h; simp [bind, Except.bind] at h
  | ok o =>
    rw [ho] at h
    cases hl : List.mapM (fun c => crossingOsnr c f) cs with
    | error e => rw [hl] at h; simp [bind, Except.bind] at h
    | ok l' =>
      rw [hl] at h
      simp only [bind, Except.bind, pure, Except.pure, Except.ok.injEq] at h
      exact ⟨o, l', rfl, rfl, h.symm⟩

theorem crossingsOsnr_spec (cs : List (Crossing ℝ)) (f : ℝ) (l : List (Option ℝ)) (h : crossingsOsnr cs f = .ok l) :
    l.length = cs.length ∧ linSum l = (cs.map (fun c => crossingLin c f)).sum := by
  induction cs generalizing l with
  | nil =>
    simp only [crossingsOsnr, List.mapM_nil, pure, Except.pure, Except.ok.injEq] at h
    subst h; simp [linSum]
  | cons c cs ih =>
    obtain ⟨o, l', ho, hl', rfl⟩ := crossingsOsnr_cons c cs f l h
    obtain ⟨i1, i2⟩ := ih l' hl'
    refine ⟨by simp [i1], ?_⟩
    simp only [List.map_cons, List.sum_cons]
    cases o with
    | none =>
      have hc : crossingLin c f = 0 := by simp [crossingLin, ho]
      simp only [linSum]; rw [i2, hc]; ring
    | some v =>
      have hc : crossingLin c f = db2lin (-v) := by simp [crossingLin, ho]
      simp only [linSum]; rw [i2, hc]

/-- **add/drop OSNR once per crossing.** For every carrier the receiver's `update_snr` is handed exactly one entry per
ROADM crossing of the path, in path order, followed by the transmitter OSNR; the linear noise added to the line GSNR
is the sum over the crossings of each crossing's own contribution — counted once — plus the transmitter's. -/
theorem adddrop_osnr_once_per_crossing (cs : List (Crossing ℝ)) (f tx : ℝ) (args : List (Option ℝ))
    (h : receiverArgs cs f tx = .ok args) :
    args.length = cs.length + 1 ∧
    linSum args = (cs.map (fun c => crossingLin c f)).sum + db2lin (-tx) := by
  unfold receiverArgs at h
  cases hl : crossingsOsnr cs f with
  | error e => rw [hl] at h; simp at h
  | ok l =>
    rw [hl] at h
    simp only [Except.ok.injEq] at h
    subst h
    obtain ⟨i1, i2⟩ := crossingsOsnr_spec cs f l hl
    refine ⟨by simp [i1], ?_⟩
    rw [linSum_append, i2]; simp [linSum]

/-- the concrete values: without a library profile and without a user entry an add or drop crossing contributes
`add_drop_osnr + 10·log10(2)`, i.e. HALF of the node's combined add/drop noise `1/add_drop_osnr` (so add and drop of one
node type together count `add_drop_osnr` once), and an express crossing contributes nothing -/
theorem crossing_default_values (ad f : ℝ) :
    crossingLin { profiles := [], user := none, ptype := PType.add, addDropOsnr := ad } f = db2lin (-ad) / 2 ∧
    crossingLin { profiles := [], user := none, ptype := PType.drop, addDropOsnr := ad } f = db2lin (-ad) / 2 ∧
    crossingLin { profiles := [], user := none, ptype := PType.express, addDropOsnr := ad } f = 0 := by
  have h2 : db2lin (-(ad + lin2db ((2:ℕ):ℝ))) = db2lin (-ad) / 2 := by
    rw [show -(ad + lin2db ((2:ℕ):ℝ)) = -ad - lin2db ((2:ℕ):ℝ) by ring, db2lin_sub, db2lin_lin2db _ (by norm_num)]
    norm_num
  have h3 : db2lin (-lin2db (2:ℝ) + -ad) = db2lin (-ad) / 2 := by
    rw [← h2]; congr 1; simp
  refine ⟨?_, ?_, ?_⟩ <;> simp [crossingLin, crossingOsnr, selectProfile, firstOfType, h3]

/-- with a selected profile (the user's `per_degree_impairments` entry, else the first library profile of the path
type) the contribution is that profile's `roadm-osnr` of the first frequency range containing the carrier; a profile
without the key (express profiles) contributes nothing -/
theorem crossing_profile_value (c : Crossing ℝ) (p : Profile ℝ) (f : ℝ)
    (hsel : selectProfile c.profiles c.user c.ptype = .ok (some p)) :
    crossingOsnr c f = .ok (lookupBands p.bands f) ∧
    (lookupBands p.bands f = none → crossingLin c f = 0) ∧
    (∀ v, lookupBands p.bands f = some v → crossingLin c f = db2lin (-v)) := by
  have h1 : crossingOsnr c f = .ok (lookupBands p.bands f) := by simp [crossingOsnr, hsel]
  refine ⟨h1, ?_, ?_⟩
  · intro hn; simp [crossingLin, h1, hn]
  · intro v hv; simp [crossingLin, h1, hv]

/-- a trx-to-trx route over default ROADMs of one type: add + express… + drop + tx = `1/add_drop_osnr + 1/tx_osnr` -/
theorem adddrop_route_default (ad f tx : ℝ) (k : Nat) (args : List (Option ℝ))
    (h : receiverArgs
      ({ profiles := [], user := none, ptype := PType.add, addDropOsnr := ad } ::
        (List.replicate k { profiles := [], user := none, ptype := PType.express, addDropOsnr := ad } ++
          [{ profiles := [], user := none, ptype := PType.drop, addDropOsnr := ad }])) f tx = .ok args) :
    linSum args = db2lin (-ad) + db2lin (-tx) := by
  rw [(adddrop_osnr_once_per_crossing _ f tx args h).2]
  obtain ⟨a, d, e⟩ := crossing_default_values ad f
  simp only [List.map_cons, List.map_append, List.map_replicate, List.sum_cons, List.sum_append, List.sum_replicate,
    List.map_nil, List.sum_nil, a, d, e]
  simp

end crossings

/-! ### finding F9 (fixed in /repo as 5d202380): the loop as it was does not satisfy `selectMode_spec` -/

def f9A : Mode := { id := 0, baud := 32, bitRate := 200, minSpacing := 50, offset := 0 }
def f9B : Mode := { id := 1, baud := 32, bitRate := 100, minSpacing := 50, offset := 3 }
/-- A passes only on its own propagation (offset 0); B passes everywhere -/
def f9Feas (p : Int × Int) (m : Mode) : Bool := if m.id = 0 then decide (p.2 = 0) else true

/-- with two modes of one baud rate and different offsets the old loop judged A on B's propagation: it
returns B (100G) although A (200G) is feasible on its own propagation; the repaired loop returns A -/
theorem selectMode_fails_old :
    selectModeOld f9Feas [f9A, f9B] 50 = Outcome.served f9B (32, 3) ∧
    FeasOwn f9Feas f9A ∧ f9A.bitRate > f9B.bitRate ∧
    selectMode f9Feas [f9A, f9B] 50 = Outcome.served f9A (32, 0) := by
  refine ⟨by decide, by unfold FeasOwn; decide, by decide, by decide⟩

/-- conversely the old loop could serve a mode that is NOT feasible on its own propagation (and report the other
propagation's figures): here A passes only on B's propagation -/
theorem selectModeOld_accepts_infeasible :
    selectModeOld (fun p m => if m.id = 0 then decide (p.2 = 3) else false) [f9A, f9B] 50
      = Outcome.served f9A (32, 3) ∧
    ¬ FeasOwn (fun p m => if m.id = 0 then decide (p.2 = 3) else false) f9A := by
  refine ⟨by decide, by unfold FeasOwn; decide⟩

/-! ### non-vacuity -/
example : passFixed (some (27.262 : ℝ)) 24.9 2 = true := by
  rw [(verdict_margin 27.262 24.9 2).1]; norm_num
example : linSum [some (41 : ℝ), none, some 40] = db2lin (-41) + (db2lin (-40) + 0) := by simp [linSum]
example : selectMode f9Feas [f9A, f9B] 50 = Outcome.served f9A (32, 0) := by decide
example : (normalise [((4000:ℝ), (0:ℝ)), (10000, 1.5)]).head? = some (0, 0) :=
  ((penalty_normalised _).2.1 (by intro e he; simp at he; rcases he with rfl | rfl <;> norm_num)).2

end Gnpy.Verdict
