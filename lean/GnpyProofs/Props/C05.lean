import GnpyModel
import GnpyProofs.Lemmas.Fiber
/- Property theorems for C05 — fibre spans apply exactly their loss budget and accumulate CD, PMD, PDL, latency.
   Model: GnpyModel/Fiber.lean (+ Gn.lean for the loss coefficient).  All statements over ℝ. -/
namespace Gnpy.Fiber
open Gnpy.Gn

/-! ### the loss budget (Raman off) -/

/-- `exp(−α L)` with `α = loss / (10 log10 e)` is exactly `loss · L` dB of attenuation -/
theorem exp_alpha_is_db (c len : ℝ) : Real.exp (-(alphaOfLoss c * len)) = db2lin (-(c * len)) := by
  rw [alphaOfLoss_eq, db2lin_eq]; congr 1; ring

/-- **each lumped loss multiplies exactly once** (no-Raman profile): the attenuation at the fibre end is
`exp(−αL) · Π lumped`, wherever the losses sit (also several at one position, also on a grid point) -/
theorem lumped_once (alpha len : ℝ) (lumped : List (ℝ × ℝ)) :
    fibreLossLin alpha len lumped = Real.exp (-(alpha * len)) * prodL (lumped.map (·.2)) := by
  simp only [fibreLossLin, createLumped, transc_exp]
  congr 1
  rw [foldl_insert_prod]
  simp [prodL_append, prodL]

/-- `_create_lumped_losses` returns strictly increasing positions (`numpy.unique`) -/
theorem createLumped_sorted (lumped : List (ℝ × ℝ)) (z : List ℝ) :
    ((createLumped lumped z).map (·.1)).Pairwise (· < ·) := by
  simp only [createLumped]
  generalize (lumped ++ z.map (fun x => (x, ((1:Nat):ℝ)))) = pts
  suffices h : ∀ (acc : List (ℝ × ℝ)), (acc.map (·.1)).Pairwise (· < ·) →
      ((pts.foldl (fun a pt => insertPoint pt a) acc).map (·.1)).Pairwise (· < ·) from h [] (by simp)
  induction pts with
  | nil => intro acc h; exact h
  | cons pt rest ih => intro acc h; exact ih _ (insertPoint_sorted pt acc h).1

/-- the whole of `Fiber.propagate` (Raman off) on one channel is one multiplication by `db2lin(−budget)` -/
theorem propagateP_eq (p conIn attIn c len conOut : ℝ) (lumpedKm : List (ℝ × ℝ)) :
    propagateP p conIn attIn (alphaOfLoss c) len (mkLumped lumpedKm) conOut
      = p * db2lin (-(attIn + conIn + c * len + sumL (lumpedKm.map (·.2)) + conOut)) := by
  have hprod : prodL ((mkLumped lumpedKm).map (·.2)) = db2lin (-(sumL (lumpedKm.map (·.2)))) := by
    rw [← prod_lumpedLin]
    simp [mkLumped, List.map_map, Function.comp_def]
  simp only [propagateP, applyAttDb, Nat.cast_one]
  rw [lumped_once, exp_alpha_is_db, hprod, one_div, one_div, ← db2lin_neg, ← db2lin_neg]
  rw [mul_assoc, mul_assoc, ← db2lin_add, ← db2lin_add, ← db2lin_add]
  congr 2; ring

/-- **loss budget**: with Raman off every channel is attenuated, in dB, by exactly
`padding + input connector + length × loss coefficient + Σ lumped losses + output connector` -/
theorem loss_budget (p conIn attIn c len conOut : ℝ) (lumpedKm : List (ℝ × ℝ)) (hp : 0 < p) :
    lin2db (p / propagateP p conIn attIn (alphaOfLoss c) len (mkLumped lumpedKm) conOut)
      = attIn + conIn + c * len + sumL (lumpedKm.map (·.2)) + conOut := by
  rw [propagateP_eq p conIn attIn c len conOut lumpedKm]
  have h := db2lin_pos (-(attIn + conIn + c * len + sumL (lumpedKm.map (·.2)) + conOut))
  rw [show p / (p * db2lin (-(attIn + conIn + c * len + sumL (lumpedKm.map (·.2)) + conOut)))
      = (db2lin (-(attIn + conIn + c * len + sumL (lumpedKm.map (·.2)) + conOut)))⁻¹ by field_simp]
  rw [← db2lin_neg, neg_neg, lin2db_db2lin]

/-- the same on the span record: the loss coefficient is the one of the channel's own frequency
(scalar or interpolated per frequency) -/
theorem span_loss_budget (s : Span ℝ) (lumpedKm : List (ℝ × ℝ)) (f p c : ℝ) (hl : s.lumped = mkLumped lumpedKm)
    (hc : lossCoef s.fib f = some c) (hp : 0 < p) :
    ∃ pout, spanOut s f p = some pout ∧
      lin2db (p / pout) = s.attIn + s.conIn + c * s.fib.len + sumL (lumpedKm.map (·.2)) + s.conOut := by
  refine ⟨propagateP p s.conIn s.attIn (alphaOfLoss c) s.fib.len s.lumped s.conOut, ?_, ?_⟩
  · simp [spanOut, alphaAt, hc]
  · rw [hl]; exact loss_budget p s.conIn s.attIn c s.fib.len s.conOut lumpedKm hp

/-- BEFORE FIX 74081ba1 (finding F12): of two lumped losses at the same position only the first was applied
(`numpy.unique(..., return_index=True)` kept one entry per position).  Witness on the model of the old code:
losses 1/2 and 1/2 at z = 1 of a fibre of length 2 leave the factor 1/2, the budget demands 1/4. -/
theorem lumped_same_position_failed_before_fix :
    prodL ((([((1:ℝ), (1/2:ℝ)), (1, 1/2), (0, 1), (2, 1)] : List (ℝ × ℝ)).foldl
        (fun a pt => insertPointFirstWins pt a) []).map (·.2)) = 1 / 2 ∧
    prodL ((createLumped [((1:ℝ), (1/2:ℝ)), (1, 1/2)] [0, 2]).map (·.2)) = 1 / 4 := by
  constructor
  · have h : ¬ ((2:ℝ) < 0) := by norm_num
    simp [insertPointFirstWins, h]
    norm_num [prodL]
  · simp [createLumped, insertPoint]
    norm_num [prodL]

/-! ### accumulation of CD, latency (linear) and PMD, PDL (quadrature) over a path -/

theorem accPath_cons (a : Acc ℝ) (c : Contribution ℝ) (cs : List (Contribution ℝ)) :
    accPath a (c :: cs) = accPath (accStep a c) cs := rfl

/-- **chromatic dispersion adds linearly over the elements of a path** -/
theorem cd_additive (a : Acc ℝ) (cs : List (Contribution ℝ)) :
    (accPath a cs).cd = a.cd + (cs.map (·.cd)).sum := by
  induction cs generalizing a with
  | nil => simp [accPath]
  | cons c rest ih => rw [accPath_cons, ih]; simp [accStep]; ring

/-- **latency adds linearly over the elements of a path** -/
theorem latency_additive (a : Acc ℝ) (cs : List (Contribution ℝ)) :
    (accPath a cs).latency = a.latency + (cs.map (·.latency)).sum := by
  induction cs generalizing a with
  | nil => simp [accPath]
  | cons c rest ih => rw [accPath_cons, ih]; simp [accStep]; ring

theorem accPath_pmd_fold (a : Acc ℝ) (cs : List (Contribution ℝ)) :
    (accPath a cs).pmd = (cs.map (·.pmd)).foldl quadStep a.pmd := by
  induction cs generalizing a with
  | nil => simp [accPath]
  | cons c rest ih => rw [accPath_cons, ih]; simp [accStep]

theorem accPath_pdl_fold (a : Acc ℝ) (cs : List (Contribution ℝ)) :
    (accPath a cs).pdl = (cs.map (·.pdl)).foldl quadStep a.pdl := by
  induction cs generalizing a with
  | nil => simp [accPath]
  | cons c rest ih => rw [accPath_cons, ih]; simp [accStep]

/-- the repeated update `x ← sqrt(x² + b²)` is the root of the sum of squares -/
theorem quadrature_fold (x0 : ℝ) (bs : List ℝ) (h : 0 ≤ x0) :
    bs.foldl quadStep x0 = Real.sqrt (x0 ^ 2 + (bs.map (fun b => b ^ 2)).sum) := foldl_quad bs x0 h

/-- … hence independent of the order of the contributions -/
theorem quadrature_perm (x0 : ℝ) (bs bs' : List ℝ) (h : 0 ≤ x0) (hp : bs.Perm bs') :
    bs.foldl quadStep x0 = bs'.foldl quadStep x0 := by
  rw [quadrature_fold x0 bs h, quadrature_fold x0 bs' h, (hp.map _).sum_eq]

/-- **PMD adds in quadrature over fibres, ROADMs and amplifiers together** -/
theorem pmd_quadrature (a : Acc ℝ) (cs : List (Contribution ℝ)) (h : 0 ≤ a.pmd) :
    (accPath a cs).pmd = Real.sqrt (a.pmd ^ 2 + (cs.map (fun c => c.pmd ^ 2)).sum) := by
  rw [accPath_pmd_fold, quadrature_fold _ _ h, List.map_map]; rfl

/-- **PDL adds in quadrature over ROADMs and amplifiers** (a fibre contributes 0) -/
theorem pdl_quadrature (a : Acc ℝ) (cs : List (Contribution ℝ)) (h : 0 ≤ a.pdl) :
    (accPath a cs).pdl = Real.sqrt (a.pdl ^ 2 + (cs.map (fun c => c.pdl ^ 2)).sum) := by
  rw [accPath_pdl_fold, quadrature_fold _ _ h, List.map_map]; rfl

/-- **the accumulated CD, PMD, PDL and latency do not depend on the order of the spans, ROADMs and amplifiers** -/
theorem path_order_irrelevant (a : Acc ℝ) (cs cs' : List (Contribution ℝ)) (hp : cs.Perm cs')
    (h1 : 0 ≤ a.pmd) (h2 : 0 ≤ a.pdl) : accPath a cs = accPath a cs' := by
  have e1 : (accPath a cs).cd = (accPath a cs').cd := by
    rw [cd_additive, cd_additive, (hp.map _).sum_eq]
  have e2 : (accPath a cs).latency = (accPath a cs').latency := by
    rw [latency_additive, latency_additive, (hp.map _).sum_eq]
  have e3 : (accPath a cs).pmd = (accPath a cs').pmd := by
    rw [pmd_quadrature _ _ h1, pmd_quadrature _ _ h1, (hp.map _).sum_eq]
  have e4 : (accPath a cs).pdl = (accPath a cs').pdl := by
    rw [pdl_quadrature _ _ h2, pdl_quadrature _ _ h2, (hp.map _).sum_eq]
  cases hA : accPath a cs; cases hB : accPath a cs'
  simp only [hA, hB] at e1 e2 e3 e4
  simp [e1, e2, e3, e4]

/-! ### what one fibre contributes -/

/-- a fibre's PMD contribution squared is `pmd_coef² · length` -/
theorem fibre_pmd_sq (k len : ℝ) (h : 0 ≤ len) : fibrePmd k len ^ 2 = k ^ 2 * len := by
  simp only [fibrePmd, transc_sqrt]
  rw [mul_pow, Real.sq_sqrt h]

/-- a fibre leaves the PDL as it is -/
theorem fibre_pdl_unchanged (x : ℝ) (h : 0 ≤ x) : quadStep x ((0:Nat):ℝ) = x := by
  simp only [quadStep, transc_sqrt, Nat.cast_zero, mul_zero, add_zero]
  exact Real.sqrt_mul_self h

/-- latency of a span: `length · n₁ / c` -/
theorem latency_formula (len : ℝ) : latency len = len * n1 / cLight := by
  have hc : (cLight : ℝ) ≠ 0 := by simp only [cLight, Nat.cast_ofNat]; norm_num
  have hn : (n1 : ℝ) ≠ 0 := by simp only [n1, Nat.cast_ofNat]; norm_num
  simp only [latency]; field_simp

/-- at the reference frequency the span adds exactly `D · length` of chromatic dispersion -/
theorem cd_at_ref (d b3 fr len : ℝ) (hf : 0 < fr) :
    chromaticDispersion (beta2OfDisp fr d) b3 fr fr len = d * len := by
  have hpi := Real.pi_pos
  simp only [chromaticDispersion, beta2OfDisp, cLight, haspi_real, Nat.cast_ofNat]
  field_simp
  ring

/-! ### non-vacuity -/
example : lumpedPositionsOk (80000:ℝ) [((20:ℝ), (1:ℝ)), (20, 2)] = true := by
  simp [lumpedPositionsOk]; norm_num
example : (0:ℝ) ≤ ({ cd := 0, pmd := 0, pdl := 0, latency := 0 } : Acc ℝ).pmd := le_refl _
example : [lumpedContribution (1:ℝ) 2, fibreContribution 1 0 1 1 1 1].Perm
    [fibreContribution 1 0 1 1 1 1, lumpedContribution (1:ℝ) 2] := List.Perm.swap _ _ _

end Gnpy.Fiber
